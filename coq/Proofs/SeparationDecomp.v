(* C19, part 1: the four components of _bss_decomp_mtifilt / _bss_decomp_mtifilt_images add up to the (zero padded)
   estimate whatever the projection returns; canonical forms of the criteria; scale invariance of the energy ratios
   under the two stated hypotheses on the projection (and its failure for SDR / ISR of the images criterion). *)
From Coq Require Import List Bool Arith ZArith QArith Lia Lqa Setoid Morphisms.
From ME Require Import Model.Prelude Model.Separation.
Import ListNotations.
Open Scope Q_scope.

Definition veq (a b : vec) : Prop := Forall2 Qeq a b.
Definition meq (a b : cmat) : Prop := Forall2 veq a b.

Lemma veq_refl a : veq a a.
Proof. induction a; constructor; auto; reflexivity. Qed.
Lemma veq_sym a b : veq a b -> veq b a.
Proof. induction 1; constructor; auto; symmetry; auto. Qed.
Lemma veq_trans a b c : veq a b -> veq b c -> veq a c.
Proof.
  intros H; revert c; induction H; intros c H2; inversion H2; subst; constructor.
  - etransitivity; eauto.
  - apply IHForall2; assumption.
Qed.
Lemma veq_length a b : veq a b -> length a = length b.
Proof. induction 1; cbn; auto. Qed.
Add Parametric Relation : vec veq reflexivity proved by veq_refl symmetry proved by veq_sym
    transitivity proved by veq_trans as veq_rel.

Lemma meq_refl a : meq a a.
Proof. induction a; constructor; auto; apply veq_refl. Qed.

Lemma vmap2_length f a b : length (vmap2 f a b) = Nat.min (length a) (length b).
Proof. revert b; induction a; destruct b; cbn; auto. Qed.
Lemma vzeros_length n : length (vzeros n) = n.
Proof. apply repeat_length. Qed.
Lemma pad_to_cons L y e : pad_to (S L) (y :: e) = y :: pad_to L e.
Proof. reflexivity. Qed.
Lemma pad_to_nil L : pad_to L [] = vzeros L.
Proof. unfold pad_to; cbn; now rewrite Nat.sub_0_r. Qed.
Lemma pad_to_length L e : (length e <= L)%nat -> length (pad_to L e) = L.
Proof. intros; unfold pad_to; rewrite app_length, vzeros_length; lia. Qed.

(* ------------------------------------------------------------------------------------------------------------ *)
(* pointwise identities of the assembly                                                                          *)
(* ------------------------------------------------------------------------------------------------------------ *)
Section Core.
  (* s = s_true, pj / pall = the two projections, e = estimate *)
  Definition c_spat (s pj : vec) := vsub pj s.
  Definition c_interf (s pj pall : vec) := vsub (vsub pall s) (c_spat s pj).
  Definition c_artif0 (s pj pall : vec) := vsub (vsub (vneg s) (c_spat s pj)) (c_interf s pj pall).

  Lemma core_sum_noest : forall s pj pall, length pj = length s -> length pall = length s ->
    veq (vadd (vadd (vadd s (c_spat s pj)) (c_interf s pj pall)) (c_artif0 s pj pall)) (vzeros (length s)).
  Proof.
    induction s as [|x s IH]; intros [|p pj] [|q pall] H1 H2; cbn in *; try discriminate; try constructor.
    - ring.
    - apply IH; lia.
  Qed.

  Lemma add_prefix_nil a : add_prefix a [] = a.
  Proof. destruct a; reflexivity. Qed.

  Lemma core_sum : forall s pj pall e, length pj = length s -> length pall = length s -> (length e <= length s)%nat ->
    veq (vadd (vadd (vadd s (c_spat s pj)) (c_interf s pj pall)) (add_prefix (c_artif0 s pj pall) e))
        (pad_to (length s) e).
  Proof.
    induction s as [|x s IH]; intros [|p pj] [|q pall] e H1 H2 H3; cbn in *; try discriminate.
    - destruct e; cbn in *; [constructor | lia].
    - destruct e as [|y e].
      + rewrite pad_to_nil. cbn. constructor; [ring|].
        specialize (core_sum_noest s pj pall ltac:(lia) ltac:(lia)). intro H.
        rewrite ?add_prefix_nil. exact H.
      + rewrite pad_to_cons. cbn. constructor; [ring|]. apply IH; cbn in *; lia.
  Qed.

  (* canonical forms: s_filt = pj, e_interf = pall - pj, e_artif = pad est - pall *)
  Lemma core_filt : forall s pj, length pj = length s -> veq (vadd s (c_spat s pj)) pj.
  Proof.
    induction s as [|x s IH]; intros [|p pj] H; cbn in *; try discriminate; constructor; [ring | apply IH; lia].
  Qed.
  Lemma core_interf : forall s pj pall, length pj = length s -> length pall = length s ->
    veq (c_interf s pj pall) (vsub pall pj).
  Proof.
    induction s as [|x s IH]; intros [|p pj] [|q pall] H1 H2; cbn in *; try discriminate; constructor;
      [ring | apply IH; lia].
  Qed.
  Lemma core_artif : forall s pj pall e, length pj = length s -> length pall = length s -> (length e <= length s)%nat ->
    veq (add_prefix (c_artif0 s pj pall) e) (vsub (pad_to (length s) e) pall).
  Proof.
    induction s as [|x s IH]; intros [|p pj] [|q pall] e H1 H2 H3; cbn in *; try discriminate.
    - destruct e; cbn in *; [constructor | lia].
    - destruct e as [|y e].
      + rewrite pad_to_nil. cbn. constructor; [ring|].
        specialize (IH pj pall [] ltac:(lia) ltac:(lia) ltac:(cbn; lia)).
        rewrite ?add_prefix_nil, ?pad_to_nil in IH. rewrite ?add_prefix_nil. exact IH.
      + rewrite pad_to_cons. cbn. constructor; [ring|]. apply IH; cbn in *; lia.
  Qed.
End Core.

(* ------------------------------------------------------------------------------------------------------------ *)
(* decomp_sums_to_estimate (sources)                                                                             *)
(* ------------------------------------------------------------------------------------------------------------ *)
Lemma decomp_inv proj refs est j flen s sp i a :
  decomp proj refs est j flen = Ok (s, sp, i, a) ->
  exists rj fl, nth_error refs j = Some rj /\ flen = S fl /\
    let pj := proj [rj] est flen in let pall := proj refs est flen in
    s = rj ++ vzeros fl /\ length pj = length s /\ length pall = length s /\ (length est <= length s)%nat /\
    sp = c_spat s pj /\ i = c_interf s pj pall /\ a = add_prefix (c_artif0 s pj pall) est.
Proof.
  unfold decomp. destruct (nth_error refs j) as [rj|]; [|discriminate].
  destruct flen as [|fl]; [discriminate|].
  destruct (length (proj [rj] est (S fl)) =? length rj + fl)%nat eqn:E1; cbn [negb]; [|discriminate].
  destruct (length (proj refs est (S fl)) =? length rj + fl)%nat eqn:E2; cbn [negb]; [|discriminate].
  destruct (length est <=? length rj + fl)%nat eqn:E3; [|discriminate].
  intros H; inversion H; subst; clear H.
  apply Nat.eqb_eq in E1, E2. apply Nat.leb_le in E3.
  exists rj, fl. cbn zeta. rewrite app_length, vzeros_length. repeat split; auto.
Qed.

(* The four components add up to the estimate padded with zeros to nsampl + flen - 1 entries — for ANY projection. *)
Theorem decomp_sums_to_estimate :
  forall (proj : list vec -> vec -> nat -> vec) refs est j flen s_true e_spat e_interf e_artif,
    decomp proj refs est j flen = Ok (s_true, e_spat, e_interf, e_artif) ->
    veq (vadd (vadd (vadd s_true e_spat) e_interf) e_artif) (pad_to (length s_true) est).
Proof.
  intros proj refs est j flen s sp i a H.
  destruct (decomp_inv _ _ _ _ _ _ _ _ _ H) as (rj & fl & _ & _ & Hs & H1 & H2 & H3 & -> & -> & ->).
  cbn zeta in *. apply core_sum; auto.
Qed.

(* the common length of the components is len(reference j) + flen - 1 *)
Lemma decomp_length proj refs est j flen s sp i a :
  decomp proj refs est j flen = Ok (s, sp, i, a) ->
  exists rj, nth_error refs j = Some rj /\ length s = (length rj + flen - 1)%nat.
Proof.
  intros H. destruct (decomp_inv _ _ _ _ _ _ _ _ _ H) as (rj & fl & Hn & -> & Hs & _).
  exists rj; split; auto. cbn zeta in Hs. rewrite Hs, app_length, vzeros_length. lia.
Qed.

(* the hypotheses are satisfiable: a projection that returns garbage of the right length *)
Example decomp_sums_example :
  decomp (fun _ _ _ => [7; 8; 9]) [[1; 2]; [3; 4]] [5; 6] 1 2
  = Ok ([3; 4; 0], [7 - 3; 8 - 4; 9 - 0], [7 - 3 - (7 - 3); 8 - 4 - (8 - 4); 9 - 0 - (9 - 0)],
        [- (3) - (7 - 3) - (7 - 3 - (7 - 3)) + 5; - (4) - (8 - 4) - (8 - 4 - (8 - 4)) + 6; - 0 - (9 - 0) - (9 - 0 - (9 - 0))]).
Proof. reflexivity. Qed.

(* ------------------------------------------------------------------------------------------------------------ *)
(* decomp_sums_to_estimate (images)                                                                              *)
(* ------------------------------------------------------------------------------------------------------------ *)
Definition mc_spat (s pj : cmat) := msub pj s.
Definition mc_interf (s pj pall : cmat) := msub (msub pall s) (mc_spat s pj).
Definition mc_artif0 (s pj pall : cmat) := msub (msub (mneg s) (mc_spat s pj)) (mc_interf s pj pall).

Lemma mcore_sum L : forall s pj pall e,
  length pj = length s -> length pall = length s -> length e = length s ->
  Forall (fun r => length r = L) s -> Forall (fun r => length r = L) pj -> Forall (fun r => length r = L) pall ->
  Forall (fun r => (length r <= L)%nat) e ->
  meq (madd (madd (madd s (mc_spat s pj)) (mc_interf s pj pall)) (madd_prefix (mc_artif0 s pj pall) e)) (mpad_to L e).
Proof.
  induction s as [|x s IH]; intros [|p pj] [|q pall] [|y e] H1 H2 H3 F1 F2 F3 F4; cbn in *; try discriminate.
  - constructor.
  - pose proof (Forall_inv F1) as Lx. pose proof (Forall_inv F2) as Lp. pose proof (Forall_inv F3) as Lq.
    pose proof (Forall_inv F4) as Ly. cbn beta in *.
    apply Forall_inv_tail in F1, F2, F3, F4.
    constructor.
    + rewrite <- Lx. apply (core_sum x p q y); lia.
    + apply IH; auto.
Qed.

Lemma shape_ok_spec k L m : shape_ok k L m = true <-> length m = k /\ Forall (fun r => length r = L) m.
Proof.
  unfold shape_ok. rewrite andb_true_iff, Nat.eqb_eq, forallb_forall, Forall_forall.
  split; intros [H1 H2]; split; auto; intros r Hr; specialize (H2 r Hr); apply Nat.eqb_eq; auto.
Qed.

Lemma concat_const_length {A} (n : nat) (l : list (list A)) :
  Forall (fun r => length r = n) l -> length (concat l) = (length l * n)%nat.
Proof. induction 1; cbn; auto. rewrite app_length; lia. Qed.

Lemma transpose_rows ncol m : length (transpose ncol m) = ncol /\ Forall (fun r => length r = length m) (transpose ncol m).
Proof.
  unfold transpose; split; [now rewrite map_length, seq_length|].
  apply Forall_forall; intros r Hr. apply in_map_iff in Hr as (c & <- & _). now rewrite map_length.
Qed.

Lemma chunk_rows n k flat : (n * k <= length flat)%nat ->
  length (chunk n k flat) = k /\ Forall (fun r => length r = n) (chunk n k flat).
Proof.
  intros H. unfold chunk; split; [now rewrite map_length, seq_length|].
  apply Forall_forall; intros r Hr. apply in_map_iff in Hr as (c & <- & Hc). apply in_seq in Hc.
  rewrite firstn_length, skipn_length. nia.
Qed.

Lemma decomp_images_inv proj refs est j flen s sp i a :
  decomp_images proj refs est j flen = Ok (s, sp, i, a) ->
  let nsampl := length est in let nchan := length (hd [] est) in
  exists rj fl, nth_error refs j = Some rj /\ flen = S fl /\
    let L := (nsampl + fl)%nat in
    let pj := proj [rj] est flen in let pall := proj refs est flen in
    length s = nchan /\ Forall (fun r => length r = L) s /\
    shape_ok nchan L pj = true /\ shape_ok nchan L pall = true /\
    sp = mc_spat s pj /\ i = mc_interf s pj pall /\ a = madd_prefix (mc_artif0 s pj pall) (transpose nchan est).
Proof.
  unfold decomp_images. destruct (nth_error refs j) as [rj|]; [|discriminate].
  destruct (length rj * length (hd [] rj) =? length est * length (hd [] est))%nat eqn:E0; cbn [negb]; [|discriminate].
  destruct flen as [|fl]; [discriminate|].
  destruct (shape_ok _ _ (proj [rj] est (S fl))) eqn:E1; cbn [negb]; [|discriminate].
  destruct (shape_ok _ _ (proj refs est (S fl))) eqn:E2; cbn [negb]; [|discriminate].
  intros H; inversion H; subst; clear H. cbn zeta.
  exists rj, fl. apply Nat.eqb_eq in E0.
  assert (Hc : (length est * length (hd [] est) <= length (concat (transpose (length (hd [] rj)) rj)))%nat).
  { destruct (transpose_rows (length (hd [] rj)) rj) as [T1 T2].
    pose proof (concat_const_length _ _ T2) as C0.
    assert (C1 : length (concat (transpose (length (hd [] rj)) rj)) = (length (hd [] rj) * length rj)%nat)
      by (etransitivity; [exact C0 | f_equal; exact T1]).
    rewrite C1. lia. }
  destruct (chunk_rows _ _ _ Hc) as [C1 C2].
  repeat split; auto.
  - now rewrite map_length.
  - apply Forall_forall; intros r Hr. apply in_map_iff in Hr as (r0 & <- & Hr0).
    rewrite Forall_forall in C2. rewrite app_length, vzeros_length, (C2 _ Hr0). reflexivity.
Qed.

(* Images variant: per channel, the four components add up to the transposed estimate padded to nsampl + flen - 1. *)
Theorem decomp_images_sums_to_estimate :
  forall (proj_img : list (list (list Q)) -> list (list Q) -> nat -> cmat) refs est j flen s_true e_spat e_interf e_artif,
    decomp_images proj_img refs est j flen = Ok (s_true, e_spat, e_interf, e_artif) ->
    meq (madd (madd (madd s_true e_spat) e_interf) e_artif)
        (mpad_to (length est + flen - 1) (transpose (length (hd [] est)) est)).
Proof.
  intros proj refs est j flen s sp i a H.
  destruct (decomp_images_inv _ _ _ _ _ _ _ _ _ H) as (rj & fl & _ & -> & Hs1 & Hs2 & P1 & P2 & -> & -> & ->).
  cbn zeta in *. apply shape_ok_spec in P1 as [P1a P1b], P2 as [P2a P2b].
  replace (length est + S fl - 1)%nat with (length est + fl)%nat by lia.
  destruct (transpose_rows (length (hd [] est)) est) as [T1 T2].
  apply mcore_sum;
    [ etransitivity; [exact P1a | symmetry; exact Hs1] | etransitivity; [exact P2a | symmetry; exact Hs1]
    | etransitivity; [exact T1 | symmetry; exact Hs1] | exact Hs2 | exact P1b | exact P2b | ].
  eapply Forall_impl; [|exact T2]. cbn; intros; lia.
Qed.

Example decomp_images_example :
  exists s sp i a, decomp_images (fun _ _ _ => [[7; 8; 9]; [1; 1; 1]]) [[[1; 2]; [3; 4]]] [[5; 6]; [7; 8]] 0 2 = Ok (s, sp, i, a)
                   /\ s = [[1; 3; 0]; [2; 4; 0]].
Proof. repeat eexists. Qed.

(* ------------------------------------------------------------------------------------------------------------ *)
(* energies and ratios respect ==, scaling                                                                       *)
(* ------------------------------------------------------------------------------------------------------------ *)
Lemma energy_veq a b : veq a b -> energy a == energy b.
Proof. unfold energy, qsum. induction 1; cbn [map fold_right]; [reflexivity|]. rewrite IHForall2, H. reflexivity. Qed.
Lemma vmap2_veq f (Hf : Proper (Qeq ==> Qeq ==> Qeq) f) a a' b b' : veq a a' -> veq b b' -> veq (vmap2 f a b) (vmap2 f a' b').
Proof.
  intros Ha; revert b b'; induction Ha; intros b b' Hb; inversion Hb; subst; cbn; try constructor.
  - apply Hf; auto.
  - apply IHHa; auto.
Qed.
Lemma vadd_veq a a' b b' : veq a a' -> veq b b' -> veq (vadd a b) (vadd a' b').
Proof. apply vmap2_veq. intros x x' Hx y y' Hy. now rewrite Hx, Hy. Qed.
Lemma vsub_veq a a' b b' : veq a a' -> veq b b' -> veq (vsub a b) (vsub a' b').
Proof. apply vmap2_veq. intros x x' Hx y y' Hy. now rewrite Hx, Hy. Qed.
Lemma vscale_veq c a a' : veq a a' -> veq (vscale c a) (vscale c a').
Proof. induction 1; cbn; constructor; auto. now rewrite H. Qed.
Lemma energy_vscale c a : energy (vscale c a) == c * c * energy a.
Proof. unfold energy, vscale, qsum. induction a; cbn [map fold_right]; [ring|]. rewrite IHa. ring. Qed.
Lemma vsub_vscale c : forall a b, veq (vsub (vscale c a) (vscale c b)) (vscale c (vsub a b)).
Proof. induction a; intros [|y b]; cbn; constructor; [ring | apply IHa]. Qed.
Lemma pad_to_vscale c L e : veq (pad_to L (vscale c e)) (vscale c (pad_to L e)).
Proof.
  unfold pad_to, vscale. rewrite map_length, map_app. apply Forall2_app; [apply veq_refl|].
  induction (L - length e)%nat; cbn [vzeros repeat map]; constructor; auto. ring.
Qed.
Lemma vscale_length c a : length (vscale c a) = length a.
Proof. apply map_length. Qed.

Definition xeqv (a b : xval) : Prop :=
  match a, b with Fin x, Fin y => x == y | PInf, PInf | NInf, NInf | NaN, NaN => True | _, _ => False end.
Lemma xeqv_refl a : xeqv a a.
Proof. destruct a; cbn; auto; reflexivity. Qed.

Lemma ratio_eqv n n' d d' : n == n' -> d == d' -> xeqv (ratio n d) (ratio n' d').
Proof.
  intros Hn Hd. unfold ratio, qeqb.
  destruct (Qeq_bool d 0) eqn:E; destruct (Qeq_bool d' 0) eqn:E'; cbn; auto.
  - apply Qeq_bool_iff in E. rewrite Hd in E. apply Qeq_bool_iff in E. congruence.
  - apply Qeq_bool_iff in E'. rewrite <- Hd in E'. apply Qeq_bool_iff in E'. congruence.
  - now rewrite Hn, Hd.
Qed.
Lemma ratio_scale c n d : ~ c == 0 -> xeqv (ratio (c * c * n) (c * c * d)) (ratio n d).
Proof.
  intros Hc. unfold ratio, qeqb.
  destruct (Qeq_bool (c * c * d) 0) eqn:E; destruct (Qeq_bool d 0) eqn:E'; cbn; auto.
  - apply Qeq_bool_iff in E. apply Qeq_bool_neq in E'. apply E'.
    apply Qmult_integral in E as [E|E]; auto. apply Qmult_integral in E as [E|E]; contradiction.
  - apply Qeq_bool_iff in E'. apply Qeq_bool_neq in E. apply E. rewrite E'. ring.
  - apply Qeq_bool_neq in E'. field. split; auto.
Qed.
Lemma xeqv_trans a b c : xeqv a b -> xeqv b c -> xeqv a c.
Proof. destruct a, b, c; cbn; auto; try contradiction. intros; etransitivity; eauto. Qed.
Lemma xeqv_sym a b : xeqv a b -> xeqv b a.
Proof. destruct a, b; cbn; auto. intros; symmetry; auto. Qed.

(* ------------------------------------------------------------------------------------------------------------ *)
(* canonical form of the sources criterion and scale invariance                                                   *)
(* ------------------------------------------------------------------------------------------------------------ *)
Definition crit3_eqv (x y : xval * xval * xval) : Prop :=
  xeqv (fst (fst x)) (fst (fst y)) /\ xeqv (snd (fst x)) (snd (fst y)) /\ xeqv (snd x) (snd y).

(* SDR, SIR, SAR in terms of the two projections only: they do not depend on s_true *)
Definition source_crit_canon (pj pall pe : vec) : xval * xval * xval :=
  (ratio (energy pj) (energy (vsub pe pj)), ratio (energy pj) (energy (vsub pall pj)), ratio (energy pall) (energy (vsub pe pall))).

Lemma vadd_interf_artif : forall pj pall pe, length pj = length pall -> length pe = length pall ->
  veq (vadd (vsub pall pj) (vsub pe pall)) (vsub pe pj).
Proof.
  induction pj; intros [|q pall] [|e pe] H1 H2; cbn in *; try discriminate; constructor; [ring | apply IHpj; lia].
Qed.
Lemma vadd_filt_interf : forall pj pall, length pj = length pall -> veq (vadd pj (vsub pall pj)) pall.
Proof. induction pj; intros [|q pall] H; cbn in *; try discriminate; constructor; [ring | apply IHpj; lia]. Qed.

Lemma source_crit_canonical proj refs est j flen s sp i a :
  decomp proj refs est j flen = Ok (s, sp, i, a) ->
  exists rj, nth_error refs j = Some rj /\
    crit3_eqv (source_crit s sp i a)
              (source_crit_canon (proj [rj] est flen) (proj refs est flen) (pad_to (length rj + flen - 1) est)).
Proof.
  intros H. destruct (decomp_inv _ _ _ _ _ _ _ _ _ H) as (rj & fl & Hn & -> & Hs & H1 & H2 & H3 & -> & -> & ->).
  cbn zeta in *. exists rj; split; auto.
  assert (HL : (length rj + S fl - 1)%nat = length s) by (rewrite Hs, app_length, vzeros_length; lia).
  rewrite HL.
  set (pj := proj [rj] est (S fl)) in *. set (pall := proj refs est (S fl)) in *.
  pose proof (core_filt s pj H1) as Ef.
  pose proof (core_interf s pj pall H1 H2) as Ei.
  pose proof (core_artif s pj pall est H1 H2 H3) as Ea.
  assert (Lp : length (pad_to (length s) est) = length s) by (apply pad_to_length; auto).
  unfold source_crit, source_crit_canon, crit3_eqv; cbn [fst snd]. repeat split.
  - apply ratio_eqv; [now apply energy_veq|]. apply energy_veq.
    rewrite (vadd_veq _ _ _ _ Ei Ea). apply vadd_interf_artif; congruence.
  - apply ratio_eqv; apply energy_veq; auto.
  - apply ratio_eqv; apply energy_veq; auto.
    rewrite (vadd_veq _ _ _ _ Ef Ei). apply vadd_filt_interf; congruence.
Qed.

(* each reference multiplied by its own constant *)
Fixpoint scale_refs (ds : list Q) (refs : list vec) : list vec :=
  match ds, refs with d :: ds', r :: refs' => vscale d r :: scale_refs ds' refs' | _, _ => refs end.
Lemma scale_refs_nth : forall ds refs j rj, length ds = length refs -> nth_error refs j = Some rj ->
  nth_error (scale_refs ds refs) j = Some (vscale (nth j ds 1) rj).
Proof.
  induction ds as [|d ds IH]; intros [|r refs] j rj HL Hn; cbn in *; try discriminate.
  - destruct j; discriminate.
  - destruct j; cbn in *; [now inversion Hn | apply IH; auto].
Qed.

Section ScaleInvariance.
  Variable proj : list vec -> vec -> nat -> vec.
  (* H1: the projection commutes with scaling of the estimate *)
  Hypothesis proj_scales_with_estimate :
    forall refs est flen c, veq (proj refs (vscale c est) flen) (vscale c (proj refs est flen)).
  (* H2: the projection is invariant under non-zero scaling of each reference *)
  Hypothesis proj_invariant_under_reference_scaling :
    forall ds refs est flen, length ds = length refs -> Forall (fun d => ~ d == 0) ds ->
      veq (proj (scale_refs ds refs) est flen) (proj refs est flen).

  Lemma canon_scale_est pj pall pe pj' pall' pe' c : ~ c == 0 ->
    length pj = length pall -> length pe = length pall ->
    veq pj' (vscale c pj) -> veq pall' (vscale c pall) -> veq pe' (vscale c pe) ->
    crit3_eqv (source_crit_canon pj' pall' pe') (source_crit_canon pj pall pe).
  Proof.
    intros Hc L1 L2 E1 E2 E3. unfold source_crit_canon, crit3_eqv; cbn [fst snd].
    assert (S1 : energy pj' == c * c * energy pj) by (rewrite (energy_veq _ _ E1); apply energy_vscale).
    assert (S2 : energy pall' == c * c * energy pall) by (rewrite (energy_veq _ _ E2); apply energy_vscale).
    assert (S3 : energy (vsub pe' pj') == c * c * energy (vsub pe pj)).
    { rewrite (energy_veq _ _ (vsub_veq _ _ _ _ E3 E1)), (energy_veq _ _ (vsub_vscale c pe pj)). apply energy_vscale. }
    assert (S4 : energy (vsub pall' pj') == c * c * energy (vsub pall pj)).
    { rewrite (energy_veq _ _ (vsub_veq _ _ _ _ E2 E1)), (energy_veq _ _ (vsub_vscale c pall pj)). apply energy_vscale. }
    assert (S5 : energy (vsub pe' pall') == c * c * energy (vsub pe pall)).
    { rewrite (energy_veq _ _ (vsub_veq _ _ _ _ E3 E2)), (energy_veq _ _ (vsub_vscale c pe pall)). apply energy_vscale. }
    repeat split; (eapply xeqv_trans; [apply ratio_eqv; eassumption | apply ratio_scale; auto]).
  Qed.

  (* Energy ratios SDR, SIR, SAR of the sources criterion are unchanged when the estimate is multiplied by c <> 0 and
     reference k is multiplied by ds[k] <> 0 (all k).  `_partial`: the two hypotheses on the real `_project` are
     validated numerically by the oracle, not proved; the dB map 10*log10 is not modelled (ratios instead). *)
  Theorem scale_invariance_given_linear_partial :
    forall refs est j flen c ds s sp i a,
      ~ c == 0 -> length ds = length refs -> Forall (fun d => ~ d == 0) ds ->
      decomp proj refs est j flen = Ok (s, sp, i, a) ->
      exists s' sp' i' a',
        decomp proj (scale_refs ds refs) (vscale c est) j flen = Ok (s', sp', i', a') /\
        crit3_eqv (source_crit s' sp' i' a') (source_crit s sp i a).
  Proof.
    intros refs est j flen c ds s sp i a Hc HL Hds H.
    destruct (source_crit_canonical _ _ _ _ _ _ _ _ _ H) as (rj & Hn & Hcan).
    destruct (decomp_inv _ _ _ _ _ _ _ _ _ H) as (rj' & fl & Hn' & -> & Hs & H1 & H2 & H3 & _).
    rewrite Hn in Hn'; inversion Hn'; subst rj'; clear Hn'. cbn zeta in *.
    assert (Ls : length s = (length rj + fl)%nat) by (rewrite Hs, app_length, vzeros_length; lia).
    set (d := nth j ds 1).
    assert (Hd : ~ d == 0).
    { unfold d.
      assert (Hj : (j < length ds)%nat) by (rewrite HL; apply nth_error_Some; congruence).
      rewrite Forall_forall in Hds. apply Hds. apply nth_In; auto. }
    pose proof (scale_refs_nth ds refs j rj HL Hn) as Hn2. fold d in Hn2.
    (* the new projections *)
    assert (Pj : veq (proj [vscale d rj] (vscale c est) (S fl)) (vscale c (proj [rj] est (S fl)))).
    { rewrite (proj_scales_with_estimate [vscale d rj] est (S fl) c). apply vscale_veq.
      apply (proj_invariant_under_reference_scaling [d] [rj] est (S fl)); auto. }
    assert (Pa : veq (proj (scale_refs ds refs) (vscale c est) (S fl)) (vscale c (proj refs est (S fl)))).
    { rewrite (proj_scales_with_estimate (scale_refs ds refs) est (S fl) c). apply vscale_veq.
      apply proj_invariant_under_reference_scaling; auto. }
    pose proof (veq_length _ _ Pj) as LPj. pose proof (veq_length _ _ Pa) as LPa.
    rewrite vscale_length in LPj, LPa.
    (* the new decomposition succeeds *)
    destruct (decomp proj (scale_refs ds refs) (vscale c est) j (S fl)) as [[[[s' sp'] i'] a']|e] eqn:D.
    2:{ exfalso. revert D. unfold decomp. rewrite Hn2, !vscale_length, LPj, LPa, H1, H2, Ls, !Nat.eqb_refl. cbn [negb].
        rewrite <- Ls. apply Nat.leb_le in H3. rewrite H3. discriminate. }
    exists s', sp', i', a'. split; auto.
    destruct (source_crit_canonical _ _ _ _ _ _ _ _ _ D) as (rj2 & Hn3 & Hcan2).
    rewrite Hn2 in Hn3; inversion Hn3; subst rj2; clear Hn3.
    rewrite vscale_length in Hcan2.
    destruct Hcan as (C1 & C2 & C3), Hcan2 as (D1 & D2 & D3).
    assert (Hmid : crit3_eqv
      (source_crit_canon (proj [vscale d rj] (vscale c est) (S fl)) (proj (scale_refs ds refs) (vscale c est) (S fl))
                         (pad_to (length rj + S fl - 1) (vscale c est)))
      (source_crit_canon (proj [rj] est (S fl)) (proj refs est (S fl)) (pad_to (length rj + S fl - 1) est))).
    { apply (canon_scale_est _ _ _ _ _ _ c); auto.
      - congruence.
      - replace (length rj + S fl - 1)%nat with (length s) by lia. rewrite pad_to_length; auto.
      - apply pad_to_vscale. }
    destruct Hmid as (M1 & M2 & M3).
    repeat split.
    - eapply xeqv_trans; [exact D1|]. eapply xeqv_trans; [exact M1|]. apply xeqv_sym; exact C1.
    - eapply xeqv_trans; [exact D2|]. eapply xeqv_trans; [exact M2|]. apply xeqv_sym; exact C2.
    - eapply xeqv_trans; [exact D3|]. eapply xeqv_trans; [exact M3|]. apply xeqv_sym; exact C3.
  Qed.
End ScaleInvariance.
