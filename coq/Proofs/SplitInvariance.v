(* C12: cutting any reference or estimated interval into two consecutive pieces carrying the same label changes no
   chord.evaluate score and no frame sampling of the annotation.

   The development is split over
     Proofs/SplitBase.v    split_at, cuttable; label_at_split, label_at_closed_split, interpolate_split_invariant,
                           samples_split_invariant, qmin/qmax_list_split_at
     Proofs/SplitMerge.v   merge_split_ref, merge_split_est (merge_refined / refines), wa_q_refines,
                           wa_merge_refined_invariant, wa_merge_split_invariant
     Proofs/SplitAdjust.v  adjust_srel (adjust_intervals commutes with cutting, crop points included)
     Proofs/SplitChord.v   merge_chord_intervals_split, seg_scores_split, chord_scores_srel_ref / _est
   and this file composes them into chord_evaluate_split_invariant (all 15 scores, exceptions included).
   The weighted_accuracy clauses of C12 (wa_scale, wa_all_one, wa_all_zero, wa_range, wa_is_weighted_mean, wa_split_row)
   are in Proofs/ChordScoreProps.v. *)
From Coq Require Import List Bool Arith ZArith QArith Qminmax Qabs Lia Lqa.
From ME Require Import Model.Prelude Model.Intervals Model.ChordParse Model.ChordCmp Model.ChordScore Model.ChordPipeline Gen.ChordTables.
From ME Require Import Proofs.ChordScoreProps Proofs.IntervalsBase Proofs.IntervalsMerge.
From ME Require Export Proofs.SplitBase Proofs.SplitMerge Proofs.SplitAdjust Proofs.SplitChord.
Import ListNotations.
Open Scope Q_scope.

Lemma srel_of_cut {L} i m ivs (labs : list L) : length labs = length ivs -> cuttable i m ivs ->
  srel (ivs, labs) (split_ivs i m ivs, split_labs i labs).
Proof.
  intros hl hc. destruct (split_decomp i m ivs labs hl hc) as (p & a & b & s & pl & l & sl & -> & -> & hp & _ & h1 & h2 & e1 & e2).
  rewrite e1, e2. apply sr_dup; [exact hp| |apply lt_le'; exact h1|apply lt_le'; exact h2].
  rewrite !app_length in hl. cbn [length] in hl. lia.
Qed.

Lemma adjust_lengths {L} (N : L) ivs labs tmin tmax o l : length labs = length ivs ->
  adjust_intervals N N ivs (Some labs) (Some tmin) (Some tmax) = Ok (o, Some l) -> length l = length o.
Proof.
  intros hl H. destruct ivs as [|v0 r0].
  - cbn in H. injection H as <- <-. reflexivity.
  - destruct (IntervalsAdjust.adjust_inv N N (v0 :: r0) (Some labs) (Some tmin) (Some tmax) o (Some l) ltac:(discriminate) H)
      as [mid [mlabs [h1 h2]]].
    cbn [IntervalsAdjust.stage1 IntervalsAdjust.stage2] in h1, h2.
    destruct (IntervalsAdjust.step_min_facts N tmin (v0 :: r0) (Some labs) mid mlabs h1 hl) as [g1 _].
    destruct (IntervalsAdjust.step_max_facts N tmax mid mlabs o (Some l) h2 g1) as [g2 _]. exact g2.
Qed.

(* Cutting a REFERENCE interval: t_min / t_max are the very same rationals, the estimate is adjusted identically, the
   merged chord intervals are identical, the merged rows are refined, the accuracies are ==.  No hypothesis on the
   ordering or validity of either annotation: when chord.evaluate raises, it raises the same exception on both sides.
   Cutting an ESTIMATE interval: additionally adjust_intervals commutes with the cut; this needs the estimate to be
   time-ordered (for an unordered estimate the t_max crop `first row starting at or after t_max` can stop earlier in the
   cut annotation). *)
Theorem chord_evaluate_split_invariant ri (rl : list str) ei (el : list str) i m :
  length rl = length ri -> length el = length ei ->
  (cuttable i m ri ->
     sres_eq (chord_evaluate (fst (split_at i m ri rl)) (snd (split_at i m ri rl)) ei el) (chord_evaluate ri rl ei el)) /\
  (cuttable i m ei -> ordered ei ->
     sres_eq (chord_evaluate ri rl (fst (split_at i m ei el)) (snd (split_at i m ei el))) (chord_evaluate ri rl ei el)).
Proof.
  intros hr he. unfold split_at; cbn [fst snd]. split.
  - intros hc. unfold chord_evaluate. rewrite qmin_list_split_at, qmax_list_split_at by exact hc.
    destruct (qmin_list (flat ri)) as [tmin|]; [|apply sres_eq_refl].
    destruct (qmax_list (flat ri)) as [tmax|]; [|apply sres_eq_refl].
    destruct (adjust_intervals NO_CHORD NO_CHORD ei (Some el) (Some tmin) (Some tmax)) as [[o ol]|e]; [|apply sres_eq_refl].
    cbn [bind fst snd]. destruct ol as [l|]; [|apply sres_eq_refl].
    apply (chord_scores_srel_ref o l (ri, rl) (split_ivs i m ri, split_labs i rl)); [apply srel_of_cut; assumption|exact hr].
  - intros hc ho. unfold chord_evaluate.
    destruct (qmin_list (flat ri)) as [tmin|]; [|apply sres_eq_refl].
    destruct (qmax_list (flat ri)) as [tmax|]; [|apply sres_eq_refl].
    pose proof (adjust_srel NO_CHORD tmin tmax (ei, el) (split_ivs i m ei, split_labs i el) (srel_of_cut i m ei el he hc) ho he) as ha.
    cbn [fst snd] in ha. unfold out_rel in ha. unfold str in *. revert ha.
    destruct (adjust_intervals NO_CHORD NO_CHORD ei (Some el) (Some tmin) (Some tmax)) as [[o ol]|e] eqn:Ea; intros ha.
    + destruct ha as (l & o' & l' & -> & -> & hs). cbn [bind fst snd].
      pose proof (adjust_lengths NO_CHORD ei el tmin tmax o l he Ea) as hl.
      apply (chord_scores_srel_est ri rl (o, l) (o', l') hs hl).
    + rewrite ha. cbn. reflexivity.
Qed.

(* the hypotheses are satisfiable, and the statement is not vacuous: a reference and an estimate with different labels *)
Example chord_evaluate_split_example :
  let ri := [(0, 2); (2, 4)] in let rl := [[67]; [71]]%nat in            (* C, G *)
  let ei := [(0, 1); (1, 4)] in let el := [[67]; [65; 58; 109; 105; 110]]%nat in   (* C, A:min *)
  length rl = length ri /\ length el = length ei /\ cuttable 0 1 ri /\ cuttable 1 (5 # 2) ei /\ ordered ei /\
  chord_evaluate ri rl ei el = chord_evaluate (fst (split_at 0 1 ri rl)) (snd (split_at 0 1 ri rl)) ei el /\
  exists s, chord_evaluate ri rl ei el = Ok s /\ xeq (nth 0 s NaN) (Fin (1 # 4)) /\ length s = 15%nat.
Proof.
  cbv zeta. split; [reflexivity|]. split; [reflexivity|].
  split; [exists (0, 2); cbn; repeat split; lra|]. split; [exists (1, 4); cbn; repeat split; lra|].
  split; [cbn; repeat split; try lra; repeat constructor; cbn; lra|].
  split; [vm_compute; reflexivity|]. eexists. split; [vm_compute; reflexivity|]. split; [vm_compute; reflexivity|reflexivity].
Qed.

Print Assumptions chord_evaluate_split_invariant.
Print Assumptions label_at_split.
Print Assumptions interpolate_split_invariant.
Print Assumptions samples_split_invariant.
Print Assumptions merge_split_ref.
Print Assumptions merge_split_est.
Print Assumptions wa_merge_split_invariant.
Print Assumptions merge_chord_intervals_split.
Print Assumptions seg_scores_split.
