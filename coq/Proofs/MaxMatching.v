From Coq Require Import List Arith Lia.
From ME Require Import Model.Dict Model.Matching Proofs.HKRecurse Proofs.HKLayering Proofs.HKCorrect.
Import ListNotations.
Section Rel.
Definition okE (E : nat -> nat -> Prop) (l : list (nat * nat)) :=
  NoDup (map fst l) /\ NoDup (map snd l) /\ forall v u, In (v, u) l -> E u v.
Definition max_size (E : nat -> nat -> Prop) (n : nat) :=
  (exists l, okE E l /\ length l = n) /\ forall l, okE E l -> length l <= n.
Lemma max_size_unique (E : nat -> nat -> Prop) n1 n2 : max_size E n1 -> max_size E n2 -> n1 = n2.
Proof. intros [(l1 & O1 & <-) M1] [(l2 & O2 & <-) M2]. apply M2 in O1. apply M1 in O2. lia. Qed.
Lemma okE_mono (E1 E2 : nat -> nat -> Prop) l : (forall u v, E1 u v -> E2 u v) -> okE E1 l -> okE E2 l.
Proof. intros H (A & B & C). repeat split; auto. Qed.
Theorem max_size_mono (E1 E2 : nat -> nat -> Prop) n1 n2 : (forall u v, E1 u v -> E2 u v) -> max_size E1 n1 -> max_size E2 n2 -> n1 <= n2.
Proof. intros H [(l1 & O1 & <-) _] [_ M2]. apply M2. eapply okE_mono; eauto. Qed.
(* transpose *)
Definition swap (p : nat * nat) := (snd p, fst p).
Lemma okE_swap (E : nat -> nat -> Prop) l : okE E l -> okE (fun u v => E v u) (map swap l).
Proof. intros (A & B & C). unfold okE. rewrite !map_map. simpl. repeat split; auto.
  intros v u Hin. apply in_map_iff in Hin. destruct Hin as ([a b] & [= <- <-] & Hin). simpl. auto. Qed.
Theorem max_size_transpose (E : nat -> nat -> Prop) n : max_size E n -> max_size (fun u v => E v u) n.
Proof. intros [(l & O & <-) M]. split.
  - exists (map swap l). split; [now apply okE_swap| apply map_length].
  - intros l' O'. apply okE_swap in O'. apply M in O'. now rewrite map_length in O'. Qed.
(* size bound *)
Lemma nodup_bounded l k : NoDup l -> (forall x, In x l -> x < k) -> length l <= k.
Proof. intros ND H. rewrite <- (seq_length k 0). apply NoDup_incl_length; auto. intros x Hx. apply in_seq. specialize (H x Hx). lia. Qed.
Theorem max_size_le_min (E : nat -> nat -> Prop) nu nv n : (forall u v, E u v -> u < nu /\ v < nv) -> max_size E n -> n <= Nat.min nu nv.
Proof. intros Hb [(l & (A & B & C) & <-) _].
  assert (length l <= nv).
  { rewrite <- (map_length fst). apply nodup_bounded; auto. intros v Hv. apply in_map_iff in Hv. destruct Hv as ([v' u] & <- & Hin). apply C, Hb in Hin. simpl. tauto. }
  assert (length l <= nu).
  { rewrite <- (map_length snd). apply nodup_bounded; auto. intros u Hu. apply in_map_iff in Hu. destruct Hu as ([v u'] & <- & Hin). apply C, Hb in Hin. simpl. tauto. }
  lia. Qed.
(* a perfect estimate: the diagonal is feasible *)
Theorem max_size_diag (E : nat -> nat -> Prop) k : (forall u v, E u v -> u < k /\ v < k) -> (forall i, i < k -> E i i) -> max_size E k.
Proof. intros Hb Hd. split.
  - exists (map (fun i => (i, i)) (seq 0 k)). split; [|now rewrite map_length, seq_length].
    unfold okE. rewrite !map_map. simpl. rewrite map_id. repeat split; try apply seq_NoDup.
    intros v u Hin. apply in_map_iff in Hin. destruct Hin as (i & [= <- <-] & Hi). apply Hd. apply in_seq in Hi. lia.
  - intros l O. assert (max_size_aux : length l <= Nat.min k k).
    { destruct O as (A & B & C). assert (length l <= k); [|lia]. rewrite <- (map_length fst). apply nodup_bounded; auto.
      intros v Hv. apply in_map_iff in Hv. destruct Hv as ([v' u] & <- & Hin). apply C, Hb in Hin. simpl. tauto. }
    lia. Qed.
(* renaming of vertices (order independence) *)
Lemma NoDup_map_inj (f : nat -> nat) l : (forall a b, f a = f b -> a = b) -> NoDup l -> NoDup (map f l).
Proof. intros Hf ND. induction ND as [|x l Hx ND IH]; simpl; constructor; auto.
  intros Hin. apply in_map_iff in Hin. destruct Hin as (y & E0 & Hy). apply Hf in E0. now subst. Qed.
Lemma okE_map (E E' : nat -> nat -> Prop) (f g : nat -> nat) l :
  (forall a b, f a = f b -> a = b) -> (forall a b, g a = g b -> a = b) -> (forall u v, E u v -> E' (f u) (g v)) ->
  okE E l -> okE E' (map (fun p => (g (fst p), f (snd p))) l).
Proof. intros Hf Hg H (A & B & C). unfold okE. rewrite !map_map. simpl. repeat split.
  - rewrite <- (map_map fst g). apply NoDup_map_inj; auto.
  - rewrite <- (map_map snd f). apply NoDup_map_inj; auto.
  - intros v u Hin. apply in_map_iff in Hin. destruct Hin as ([a b] & [= <- <-] & Hin). simpl. auto. Qed.
Theorem max_size_iso (E E' : nat -> nat -> Prop) (f f' g g' : nat -> nat) n :
  (forall a, f' (f a) = a) -> (forall b, f (f' b) = b) -> (forall a, g' (g a) = a) -> (forall b, g (g' b) = b) ->
  (forall u v, E u v <-> E' (f u) (g v)) -> max_size E n -> max_size E' n.
Proof. intros F1 F2 G1 G2 H [(l & O & <-) M].
  assert (If : forall a b, f a = f b -> a = b) by (intros a b E0; rewrite <- (F1 a), <- (F1 b); now f_equal).
  assert (Ig : forall a b, g a = g b -> a = b) by (intros a b E0; rewrite <- (G1 a), <- (G1 b); now f_equal).
  assert (If' : forall a b, f' a = f' b -> a = b) by (intros a b E0; rewrite <- (F2 a), <- (F2 b); now f_equal).
  assert (Ig' : forall a b, g' a = g' b -> a = b) by (intros a b E0; rewrite <- (G2 a), <- (G2 b); now f_equal).
  split.
  - exists (map (fun p => (g (fst p), f (snd p))) l). split; [|apply map_length].
    eapply okE_map; eauto. intros u v; apply H.
  - intros l' O'. assert (O2 : okE E (map (fun p => (g' (fst p), f' (snd p))) l')).
    { eapply okE_map; eauto. intros u v He. apply H. now rewrite F2, G2. }
    apply M in O2. now rewrite map_length in O2. Qed.
End Rel.
(* link with the algorithm *)
Theorem hk_max_size g m : NoDup (keys g) -> bipartite_match g = Some m -> max_size (edge g) (length m).
Proof. intros Hg H. destruct (bipartite_match_correct g m Hg H) as (Hok & Hmax). split; [exists m; split; auto|exact Hmax]. Qed.
