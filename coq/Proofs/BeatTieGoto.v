(* beat.goto tied to Model/Beat.v by translation (continuation of Proofs/BeatTie.v): the loop over the interior reference
   beats (beat_error by induction), the incorrect-beat indices, the two track rules (fewer than three incorrect beats / the
   longest run with the 25% rule), the mean / std test (np.std as a square root compared through its square). *)
From Coq Require Import String.
From Coq Require Import List Bool Arith ZArith QArith Qabs Qminmax Qround Lia Lqa.
From ME Require Import Model.Prelude Model.BeatExp Gen.BeatGen Proofs.BeatTie.
From ME Require Model.Beat Proofs.BeatProps.
Import ListNotations.
Open Scope Q_scope.
Local Arguments Qplus : simpl never.
Local Arguments Qminus : simpl never.
Local Arguments Qmult : simpl never.
Local Arguments Qdiv : simpl never.
Local Arguments Qabs : simpl never.
Local Arguments Qopp : simpl never.
Local Arguments inject_Z : simpl never.
Local Arguments qltb !_ !_.
Local Arguments qleb !_ !_.
Local Arguments qeqb !_ !_.
Local Arguments qsum : simpl never.
Local Arguments arange_q : simpl never.
Local Arguments zrange : simpl never.
Local Arguments interp1 : simpl never.
Local Arguments slice_list : simpl never.
Local Arguments Z.of_nat : simpl never.
Local Arguments Z.to_nat !_.
Local Arguments Z.sub !_ !_.
Local Arguments Z.add !_ !_.
Local Arguments Z.mul !_ !_.
Local Arguments Z.ltb !_ !_.
Local Arguments Z.leb !_ !_.
Local Arguments Z.eqb !_ !_.
Local Arguments Nat.eqb !_ !_.
Local Arguments Nat.ltb !_ !_.
Local Arguments Nat.leb !_ !_.
Local Arguments for_loop : simpl never.
Local Arguments Beat.validate : simpl never.
Local Arguments Beat.variations : simpl never.
Local Arguments get_item : simpl never.
Local Arguments set_item : simpl never.
Local Arguments nz_from : simpl never.
Local Arguments vcount : simpl never.

(* ---------- indexing ---------- *)
Lemma norm_idx_nat k n : (k < n)%nat -> norm_idx (Z.of_nat k) n = Some k.
Proof.
  intros H. unfold norm_idx. destruct k as [|k].
  - cbn. destruct n; [lia|reflexivity].
  - rewrite Nat2Z.inj_succ. unfold Z.succ. destruct (Z.of_nat k + 1)%Z as [|p|p] eqn:E; try lia.
    replace (Pos.to_nat p) with (S k) by lia. replace (S k <? n)%nat with true by (symmetry; apply Nat.ltb_lt; lia). reflexivity.
Qed.
Lemma get_q l k v p : nth_error l k = Some v -> get_item (VArrQ l) (VInt p (Z.of_nat k)) = OK (VFlt false (Fin v)).
Proof.
  intros H. unfold get_item. rewrite norm_idx_nat by (apply nth_error_Some; rewrite H; discriminate). rewrite H. reflexivity.
Qed.
Lemma get_z l k v p : nth_error l k = Some v -> get_item (VArrZ l) (VInt p (Z.of_nat k)) = OK (VInt false v).
Proof.
  intros H. unfold get_item. rewrite norm_idx_nat by (apply nth_error_Some; rewrite H; discriminate). rewrite H. reflexivity.
Qed.
Lemma get_tup0 x l p : get_item (VTup (x :: l)) (VInt p 0) = OK x. Proof. reflexivity. Qed.
Lemma get_list0 x l p : get_item (VList (x :: l)) (VInt p 0) = OK x. Proof. reflexivity. Qed.
Lemma get_q0 x l p : get_item (VArrQ (x :: l)) (VInt p 0) = OK (VFlt false (Fin x)). Proof. reflexivity. Qed.
Lemma get_z0 x l p : get_item (VArrZ (x :: l)) (VInt p 0) = OK (VInt false x). Proof. reflexivity. Qed.
Lemma get_z_nil p : get_item (VArrZ []) (VInt p 0) = EXN IndexError. Proof. reflexivity. Qed.
Lemma get_z_last l x p : get_item (VArrZ (x :: l)) (VInt p (-1)) = OK (VInt false (last (x :: l) 0%Z)).
Proof.
  unfold get_item, norm_idx. change (Pos.to_nat 1) with 1%nat. cbn [length Nat.leb]. change (0 <=? length l)%nat with true. rewrite Nat.sub_1_r. cbn [Nat.pred].
  replace (nth_error (x :: l) (length l)) with (Some (last (x :: l) 0%Z)); [reflexivity|].
  revert x. induction l as [|y t IH]; intros x; [reflexivity|]. cbn [length nth_error]. rewrite <- IH. reflexivity.
Qed.
Lemma get_mask l m : length m = length l -> get_item (VArrQ l) (VArrB m) = OK (VArrQ (vselect m l)).
Proof. intros H. unfold get_item. rewrite H, Nat.eqb_refl. reflexivity. Qed.
Lemma set_q l k p v q : fin_of v = Some q -> (k < length l)%nat ->
  set_item (VArrQ l) (VInt p (Z.of_nat k)) v = OK (VArrQ (set_nth l k q)).
Proof. intros Hv Hk. unfold set_item. rewrite Hv, (norm_idx_nat _ _ Hk). reflexivity. Qed.
Lemma set_nth_mid {A} (pre : list A) x post v : set_nth (pre ++ x :: post) (length pre) v = pre ++ v :: post.
Proof. induction pre as [|y t IH]; [reflexivity|]. cbn [app length set_nth]. rewrite IH. reflexivity. Qed.
Lemma set_nth_length {A} (l : list A) : forall i v, length (set_nth l i v) = length l.
Proof. induction l as [|x t IH]; intros [|j] v; cbn [set_nth length]; try reflexivity. rewrite IH. reflexivity. Qed.
Lemma nth_error_mid {A} (pre : list A) x post : nth_error (pre ++ x :: post) (length pre) = Some x.
Proof. induction pre; [reflexivity|assumption]. Qed.
Lemma Zsub_S k : (Z.of_nat (S k) - 1)%Z = Z.of_nat k. Proof. lia. Qed.
Lemma Zadd_S k : (Z.of_nat k + 1)%Z = Z.of_nat (S k). Proof. lia. Qed.

(* ---------- masks, counts, positions ---------- *)
Lemma vmap2_map {A B C D} (h : B -> C -> D) (f : A -> B) (g : A -> C) l : vmap2 h (map f l) (map g l) = map (fun x => h (f x) (g x)) l.
Proof. induction l as [|x t IH]; [reflexivity|]. cbn [map vmap2]. rewrite IH. reflexivity. Qed.
Lemma vcount_map {A} (p : A -> bool) l : vcount (map p l) = Z.of_nat (length (filter p l)).
Proof. unfold vcount. f_equal. induction l as [|x t IH]; [reflexivity|]. cbn [map filter]. destruct (p x); cbn [length]; rewrite IH; reflexivity. Qed.
Lemma nz_from_nat l : forall i, nz_from (Z.of_nat i) l = map Z.of_nat (Beat.flatnonzero_from i l).
Proof.
  induction l as [|b t IH]; intros i; [reflexivity|].
  change (nz_from (Z.of_nat i) (b :: t)) with (if b then Z.of_nat i :: nz_from (Z.of_nat i + 1) t else nz_from (Z.of_nat i + 1) t).
  cbn [Beat.flatnonzero_from]. rewrite Zadd_S, IH. destruct b; reflexivity.
Qed.
Lemma every1 {A} (l : list A) : every_from 1 0 l = l.
Proof. induction l as [|x t IH]; [reflexivity|]. cbn [every_from Nat.sub]. rewrite IH. reflexivity. Qed.
Lemma slice_step1 {A} a b (l : list A) : slice_list (Some a) (Some b) 1 l = Beat.py_slice a b l.
Proof. unfold slice_list. change (Z.to_nat 1) with 1%nat. rewrite every1. reflexivity. Qed.

Definition goto_body : list stmt := for_body (f_body gen_goto).
(* the callee `validate`: any [ext] that answers as the model does (BeatTie.v, Section Callees) *)
Section Callees.
Variable ext : string -> list bv -> out bv.
Hypothesis Hval : forall r e, ext "validate"%string [VArrQ r; VArrQ e] = lift_unit (Beat.validate r e).
Local Notation F := (BeatTie.F ext).
Definition goto_env (ref est : list Q) (thr mu sg : bv) (be paired : list Q) (crit n pi wmin ni wmax biw off inc track tl ts sb eb : bv) : env :=
  [("reference_beats", VArrQ ref); ("estimated_beats", VArrQ est); ("goto_threshold", thr); ("goto_mu", mu); ("goto_sigma", sg);
   ("beat_error", VArrQ be); ("paired", VArrQ paired); ("goto_criteria", crit); ("n", n);
   ("previous_interval", pi); ("window_min", wmin); ("next_interval", ni); ("window_max", wmax);
   ("beats_in_window", biw); ("offset", off); ("incorrect_beats", inc); ("track", track); ("track_len", tl);
   ("track_start", ts); ("start_beat", sb); ("end_beat", eb)]%string.
Definition be_arr (done : list Q) (m : nat) : list Q := 1 :: done ++ repeat 1 m.

Lemma be_set done m v k : k = length done -> set_nth (be_arr done (S m)) (S k) v = be_arr (done ++ [v]) m.
Proof. intros ->. unfold be_arr. cbn [repeat set_nth]. rewrite set_nth_mid, <- app_assoc. reflexivity. Qed.
Lemma be_arr_length done m : length (be_arr done m) = S (length done + m).
Proof. unfold be_arr. cbn [length]. rewrite app_length, repeat_length. reflexivity. Qed.
Lemma zlt1_SS k : (1 <? Z.of_nat (S (S k)))%Z = true. Proof. apply Z.ltb_lt. lia. Qed.
Lemma zlt1_1 : (1 <? Z.of_nat 1)%Z = false. Proof. reflexivity. Qed.
Lemma zeq0_1 : (Z.of_nat 1 =? 0)%Z = false. Proof. reflexivity. Qed.
Lemma zeq0_0 : (Z.of_nat 0 =? 0)%Z = true. Proof. reflexivity. Qed.
Lemma qleb_t a b : qleb a b = true -> a <= b. Proof. apply BeatProps.qleb_true. Qed.
Lemma qltb_t' a b : qltb a b = true -> a < b. Proof. apply BeatProps.qltb_true. Qed.
Lemma qltb_f' a b : qltb a b = false -> b <= a. Proof. apply BeatProps.qltb_false. Qed.
Local Arguments be_arr : simpl never.
Local Arguments set_nth : simpl never.
Lemma goto_step fexp pre a b c t est thr mu sg done paired crit s1 s2 s3 s4 s5 s6 s7 inc track tl ts sb eb :
  length done = length pre -> length paired = length (pre ++ a :: b :: c :: t) ->
  exists paired' t1 t2 t3 t4 t5 t6 t7, length paired' = length (pre ++ a :: b :: c :: t) /\
  for_step (run_block (F fexp)) "n" goto_body (VInt true (Z.of_nat (S (length pre))))
    (goto_env (pre ++ a :: b :: c :: t) est thr mu sg (be_arr done (S (S (length t)))) paired crit s1 s2 s3 s4 s5 s6 s7 inc track tl ts sb eb)
  = SNorm (goto_env (pre ++ a :: b :: c :: t) est thr mu sg (be_arr (done ++ [Beat.goto_beat_error a b c est]) (S (length t))) paired'
             crit t1 t2 t3 t4 t5 t6 t7 inc track tl ts sb eb).
Proof.
  intros Hd Hp. set (ref := pre ++ a :: b :: c :: t) in *.
  assert (Ha : nth_error ref (length pre) = Some a) by apply nth_error_mid.
  assert (Hb : nth_error ref (S (length pre)) = Some b).
  { unfold ref. change (a :: b :: c :: t) with ([a] ++ b :: c :: t). rewrite (app_assoc pre [a]), <- (nth_error_mid (pre ++ [a]) b (c :: t)). f_equal. rewrite app_length. cbn. lia. }
  assert (Hc : nth_error ref (S (S (length pre))) = Some c).
  { unfold ref. change (a :: b :: c :: t) with ([a; b] ++ c :: t). rewrite (app_assoc pre [a; b]), <- (nth_error_mid (pre ++ [a; b]) c t). f_equal. rewrite app_length. cbn. lia. }
  unfold for_step, goto_body, goto_env, F.
  repeat progress (cbn; rewrite ?Zsub_S, ?Zadd_S, ?(get_q _ _ _ _ Ha), ?(get_q _ _ _ _ Hb), ?(get_q _ _ _ _ Hc)).
  rewrite !map_length, Nat.eqb_refl, vmap2_map. cbn. rewrite vcount_map.
  assert (Hn1 : (S (length pre) < length paired)%nat) by (rewrite Hp; unfold ref; rewrite app_length; cbn [length]; lia).
  assert (Hn2 : forall d m, length d = length pre -> (S (length pre) < length (be_arr d (S m)))%nat) by (intros d m Hdm; rewrite be_arr_length; lia).
  unfold Beat.goto_beat_error.
  set (p := fun x : Q => qleb (b - (1 # 2) * (b - a)) x && qltb x (b + (1 # 2) * (c - b))).
  change (filter _ est) with (filter p est).
  destruct (filter p est) as [|e [|e2 l2]] eqn:Ef; cbn [length].
  - rewrite zeq0_0. cbn.
    rewrite (set_q paired _ _ _ (inject_Z 0)) by (reflexivity || exact Hn1). cbn.
    rewrite (set_q (be_arr done _) _ _ _ (inject_Z 1)) by (reflexivity || apply Hn2; exact Hd). cbn.
    rewrite be_set by (symmetry; exact Hd).
    do 8 eexists. split; [|reflexivity]. rewrite set_nth_length. exact Hp.
  - rewrite zeq0_1. cbn. rewrite zlt1_1. cbn.
    rewrite (set_q paired _ _ _ (inject_Z 1)) by (reflexivity || exact Hn1). cbn.
    rewrite get_mask by apply map_length. rewrite vselect_map_filter, Ef. cbn. rewrite (get_q _ _ _ _ Hb). cbn.
    assert (Hin : p e = true).
    { assert (Hi : In e (filter p est)) by (rewrite Ef; left; reflexivity). apply filter_In in Hi. exact (proj2 Hi). }
    unfold p in Hin. apply andb_prop in Hin. destruct Hin as [H1 H2]. apply qleb_t in H1. apply qltb_t' in H2.
    change (inject_Z 0) with 0. destruct (qltb (e - b) 0) eqn:Eo; cbn; rewrite get_q0; cbn; unfold xdiv.
    + apply qltb_t' in Eo. rewrite (qeqb_f ((1 # 2) * (b - a)) 0) by lra. cbn.
      rewrite (set_q (be_arr done _) _ _ _ ((e - b) / ((1 # 2) * (b - a)))) by (reflexivity || apply Hn2; exact Hd). cbn.
      rewrite be_set by (symmetry; exact Hd).
      do 8 eexists. split; [|reflexivity]. rewrite set_nth_length. exact Hp.
    + apply qltb_f' in Eo. rewrite (qeqb_f ((1 # 2) * (c - b)) 0) by lra. cbn.
      rewrite (set_q (be_arr done _) _ _ _ ((e - b) / ((1 # 2) * (c - b)))) by (reflexivity || apply Hn2; exact Hd). cbn.
      rewrite be_set by (symmetry; exact Hd).
      do 8 eexists. split; [|reflexivity]. rewrite set_nth_length. exact Hp.
  - rewrite zof_S_eq0. cbn. rewrite zlt1_SS. cbn.
    rewrite (set_q paired _ _ _ (inject_Z 0)) by (reflexivity || exact Hn1). cbn.
    rewrite (set_q (be_arr done _) _ _ _ (inject_Z 1)) by (reflexivity || apply Hn2; exact Hd). cbn.
    rewrite be_set by (symmetry; exact Hd).
    do 8 eexists. split; [|reflexivity]. rewrite set_nth_length. exact Hp.
Qed.

Lemma goto_loop fexp est thr mu sg crit inc track tl ts sb eb : forall l pre done paired s1 s2 s3 s4 s5 s6 s7,
  length done = length pre -> length paired = length (pre ++ l) -> l <> [] ->
  exists paired' t1 t2 t3 t4 t5 t6 t7, length paired' = length (pre ++ l) /\
  for_loop (for_step (run_block (F fexp)) "n" goto_body) (map (fun i => VInt true (Z.of_nat i)) (seq (S (length pre)) (length l - 2)))
    (goto_env (pre ++ l) est thr mu sg (be_arr done (length l - 1)) paired crit s1 s2 s3 s4 s5 s6 s7 inc track tl ts sb eb)
  = SNorm (goto_env (pre ++ l) est thr mu sg (be_arr (done ++ Beat.goto_interior l est) (Nat.min 1 (length l - 1))) paired'
             crit t1 t2 t3 t4 t5 t6 t7 inc track tl ts sb eb).
Proof.
  induction l as [|a l IH]; intros pre done paired s1 s2 s3 s4 s5 s6 s7 Hd Hp Hne; [contradiction|].
  destruct l as [|b [|c t]].
  - exists paired, s1, s2, s3, s4, s5, s6, s7. split; [exact Hp|]. cbn. rewrite app_nil_r. reflexivity.
  - exists paired, s1, s2, s3, s4, s5, s6, s7. split; [exact Hp|]. cbn. rewrite app_nil_r. reflexivity.
  - replace (length (a :: b :: c :: t) - 2)%nat with (S (length t)) by (cbn [length]; lia).
    replace (length (a :: b :: c :: t) - 1)%nat with (S (S (length t))) by (cbn [length]; lia).
    cbn [seq map]. rewrite for_loop_cons.
    destruct (goto_step fexp pre a b c t est thr mu sg done paired crit s1 s2 s3 s4 s5 s6 s7 inc track tl ts sb eb Hd Hp)
      as (p1 & t1 & t2 & t3 & t4 & t5 & t6 & t7 & Hp1 & E). rewrite E. clear E.
    assert (Ea : pre ++ a :: b :: c :: t = (pre ++ [a]) ++ b :: c :: t) by (rewrite <- app_assoc; reflexivity).
    assert (Hd' : length (done ++ [Beat.goto_beat_error a b c est]) = length (pre ++ [a])) by (rewrite !app_length, Hd; reflexivity).
    rewrite Ea in Hp1.
    destruct (IH (pre ++ [a]) (done ++ [Beat.goto_beat_error a b c est]) p1 t1 t2 t3 t4 t5 t6 t7 Hd' Hp1 ltac:(discriminate))
      as (p2 & u1 & u2 & u3 & u4 & u5 & u6 & u7 & Hp2 & E).
    exists p2, u1, u2, u3, u4, u5, u6, u7. split; [rewrite Ea; exact Hp2|].
    rewrite Ea. replace (S (S (length pre))) with (S (length (pre ++ [a]))) by (rewrite app_length; cbn; lia).
    replace (length (b :: c :: t) - 2)%nat with (length t) in E by (cbn [length]; lia).
    replace (length (b :: c :: t) - 1)%nat with (S (length t)) in E by (cbn [length]; lia).
    rewrite E. change (Beat.goto_interior (a :: b :: c :: t) est) with (Beat.goto_beat_error a b c est :: Beat.goto_interior (b :: c :: t) est).
    rewrite <- (app_assoc done). reflexivity.
Qed.

Local Arguments variance : simpl never.
Local Arguments xdiv : simpl never.
Local Arguments Beat.goto_stats_ok : simpl never.

Definition goto_after : list stmt := after_for (f_body gen_goto).
Definition goto_final : list stmt := skipn 2 goto_after.

Lemma qsum_sq_nonneg (f : Q -> Q) l : 0 <= qsum (map (fun x => f x * f x) l).
Proof. unfold qsum. induction l as [|x t IH]; cbn [map fold_right]; [lra|]. nra. Qed.
Lemma injZ_pos n : 0 < inject_Z (Z.of_nat (S n)).
Proof. rewrite injZ_S. pose proof (injZ_nonneg n). lra. Qed.
Lemma stats_equiv tr mu sigma :
  (if xcmp Lt (xdiv (qsum (map Qabs tr)) (inject_Z (Z.of_nat (length tr)))) (Fin mu)
   then t <~ sqrt_lt (variance tr 1) (Fin sigma);; OK (VBool false t)
   else OK (VBool false (xcmp Lt (xdiv (qsum (map Qabs tr)) (inject_Z (Z.of_nat (length tr)))) (Fin mu))))
  = OK (VBool false (Beat.goto_stats_ok tr mu sigma)).
Proof.
  destruct tr as [|x [|y t]].
  - reflexivity.
  - unfold Beat.goto_stats_ok. cbn [length map]. unfold xdiv at 1 2. change (qeqb (inject_Z (Z.of_nat 1)) 0) with false. cbn [xcmp qcmp].
    destruct (qltb _ mu); [|reflexivity].
    unfold variance. cbn [length map]. change (inject_Z (Z.max (Z.of_nat 1 - 1) 0)) with 0. unfold xdiv. change (qeqb 0 0) with true.
    rewrite qeqb_t; [reflexivity|]. unfold qsum. cbn [fold_right]. change (inject_Z (Z.of_nat 1)) with 1. field.
  - set (tr := x :: y :: t). unfold Beat.goto_stats_ok. fold tr. change (match tr with [] | [_] => false | _ => ?X end) with X.
    change (length tr) with (S (S (length t))).
    unfold xdiv at 1 2. rewrite (qeqb_f (inject_Z (Z.of_nat (S (S (length t))))) 0) by (pose proof (injZ_pos (S (length t))); lra).
    cbn [xcmp qcmp]. unfold Beat.qnat.
    destruct (qltb (qsum (map Qabs tr) / inject_Z (Z.of_nat (S (S (length t))))) mu); [|reflexivity]. cbn [andb].
    unfold variance. fold tr. change (match tr with [] => NaN | _ => ?X end) with X. change (length tr) with (S (S (length t))).
    replace (Z.max (Z.of_nat (S (S (length t))) - 1) 0) with (Z.of_nat (S (length t))) by lia.
    unfold xdiv. rewrite (qeqb_f (inject_Z (Z.of_nat (S (length t)))) 0) by (pose proof (injZ_pos (length t)); lra).
    set (m := qsum tr / inject_Z (Z.of_nat (S (S (length t))))).
    set (ss := qsum (map (fun x0 : Q => (x0 - m) * (x0 - m)) tr)).
    assert (Hss : 0 <= ss) by (apply (qsum_sq_nonneg (fun x0 => x0 - m))).
    assert (Hd : 0 < inject_Z (Z.of_nat (S (length t)))) by apply injZ_pos.
    unfold sqrt_lt. rewrite (qltb_f (ss / inject_Z (Z.of_nat (S (length t)))) 0).
    2:{ apply Qle_shift_div_l; [exact Hd|]. lra. }
    cbn [obind]. f_equal. f_equal. f_equal. apply BeatProps.qltb_ext.
    assert (E : ss / inject_Z (Z.of_nat (S (length t))) == ss / (inject_Z (Z.of_nat (S (S (length t)))) - 1)).
    { rewrite (injZ_S (S (length t))). apply Qdiv_comp; [reflexivity|ring]. }
    rewrite E. reflexivity.
Qed.
(* the last two statements: the mean / std test and the return *)
Lemma goto_final_tie fexp ref est pt thr p2 mu p3 sigma be paired (tr : list Q) s1 s2 s3 s4 s5 s6 s7 inc tl ts sb eb :
  exists p q,
  run_block (F fexp) goto_final
    (goto_env ref est (VFlt pt (Fin thr)) (VFlt p2 (Fin mu)) (VFlt p3 (Fin sigma)) be paired (VInt true 1) s1 s2 s3 s4 s5 s6 s7 inc (VArrQ tr) tl ts sb eb)
  = SRet (VFlt p (Fin q)) /\ q == (if Beat.goto_stats_ok tr mu sigma then 1 else 0).
Proof.
  unfold goto_final, goto_after, goto_env, F. cbn. rewrite map_length, stats_equiv. cbn.
  destruct (Beat.goto_stats_ok tr mu sigma); cbn; do 2 eexists; (split; [reflexivity|]); cbn; ring.
Qed.
Lemma goto_final_none fexp ref est pt thr p2 mu p3 sigma be paired s1 s2 s3 s4 s5 s6 s7 inc track tl ts sb eb :
  exists p q,
  run_block (F fexp) goto_final
    (goto_env ref est (VFlt pt (Fin thr)) (VFlt p2 (Fin mu)) (VFlt p3 (Fin sigma)) be paired (VInt true 0) s1 s2 s3 s4 s5 s6 s7 inc track tl ts sb eb)
  = SRet (VFlt p (Fin q)) /\ q == 0.
Proof.
  unfold goto_final, goto_after, goto_env, F. cbn. do 2 eexists. split; [reflexivity|]. cbn. ring.
Qed.

Fixpoint chain (l : list nat) : Prop :=
  match l with a :: (b :: _) as t => (a <= b)%nat /\ chain t | _ => True end.
Lemma fnz_chain l : forall i, chain (Beat.flatnonzero_from i l) /\ Forall (fun x => (i <= x)%nat) (Beat.flatnonzero_from i l).
Proof.
  induction l as [|b t IH]; intros i; [split; constructor|]. cbn [Beat.flatnonzero_from].
  destruct (IH (S i)) as [Hc Hf]. destruct b.
  - split.
    + destruct (Beat.flatnonzero_from (S i) t) as [|y r] eqn:E; [exact I|]. split; [inversion Hf; lia|exact Hc].
    + constructor; [lia|]. eapply Forall_impl; [|exact Hf]. cbn. intros; lia.
  - split; [exact Hc|]. eapply Forall_impl; [|exact Hf]. cbn. intros; lia.
Qed.
Lemma zdiffs_nat inc : chain inc -> zdiffs (map Z.of_nat inc) = map Z.of_nat (Beat.nat_diffs inc).
Proof.
  unfold zdiffs, Beat.nat_diffs. induction inc as [|a [|b t] IH]; intros H; [reflexivity|reflexivity|].
  destruct H as [Hab Hc]. specialize (IH Hc). cbn [map tl combine fst snd] in *. rewrite IH. f_equal. lia.
Qed.
Lemma zmax_nat x t : fold_left Z.max (map Z.of_nat t) (Z.of_nat x) = Z.of_nat (Beat.nat_max (x :: t)).
Proof.
  unfold Beat.nat_max. revert x. induction t as [|y t IH]; intros x; cbn [map fold_left fold_right].
  - f_equal. lia.
  - replace (Z.max (Z.of_nat x) (Z.of_nat y)) with (Z.of_nat (Nat.max x y)) by lia. rewrite IH. cbn [fold_right]. f_equal. lia.
Qed.
Lemma zmax_list_nat d : d <> [] -> zmax_list (map Z.of_nat d) = Some (Z.of_nat (Beat.nat_max d)).
Proof. destruct d as [|x t]; [contradiction|]. intros _. cbn [map zmax_list]. rewrite zmax_nat. reflexivity. Qed.
Lemma zeqb_nat a b : (Z.of_nat a =? Z.of_nat b)%Z = Nat.eqb b a.
Proof. destruct (Nat.eqb b a) eqn:E; [apply Nat.eqb_eq in E; apply Z.eqb_eq; lia|apply Nat.eqb_neq in E; apply Z.eqb_neq; lia]. Qed.
Lemma fnz_find (p : nat -> bool) d : forall i,
  Beat.flatnonzero_from i (map p d) = match find_idx p d with Some k => (i + k)%nat :: tl (Beat.flatnonzero_from i (map p d)) | None => [] end.
Proof.
  induction d as [|x t IH]; intros i; [reflexivity|]. cbn [map Beat.flatnonzero_from find_idx].
  destruct (p x); [cbn [tl]; f_equal; lia|]. rewrite (IH (S i)) at 1. destruct (find_idx p t); cbn [option_map]; [|reflexivity].
  f_equal. lia.
Qed.
Lemma find_idx_lt {A} (p : A -> bool) l k : find_idx p l = Some k -> (k < length l)%nat.
Proof. revert k. induction l as [|x t IH]; intros k; cbn [find_idx length]; [discriminate|]. destruct (p x); [intros [= <-]; lia|].
  destruct (find_idx p t); cbn [option_map]; [|discriminate]. intros [= <-]. specialize (IH n eq_refl). lia. Qed.
Lemma nat_diffs_length l : length (Beat.nat_diffs l) = (length l - 1)%nat.
Proof. unfold Beat.nat_diffs. rewrite map_length, combine_length. destruct l; cbn [tl length]; lia. Qed.
Lemma nth_error_map_nth {A B} (f : A -> B) l k d : (k < length l)%nat -> nth_error (map f l) k = Some (f (nth k l d)).
Proof. revert k. induction l as [|x t IH]; intros [|k] H; cbn in *; try lia; [reflexivity|]. apply IH. lia. Qed.
Lemma injZ_minus a b : inject_Z (a - b) == inject_Z a - inject_Z b.
Proof. unfold Z.sub. rewrite inject_Z_plus, inject_Z_opp. ring. Qed.
Ltac go := repeat progress (cbn; rewrite ?get_tup0, ?get_list0, ?get_q0, ?get_z0, ?Zsub_S, ?Zadd_S).
Definition goto_mid : list stmt := firstn 2 goto_after.
Lemma zltb3_nat n : (Z.of_nat n <? 3)%Z = (n <? 3)%nat.
Proof. destruct (n <? 3)%nat eqn:E; [apply Nat.ltb_lt in E; apply Z.ltb_lt; lia|apply Nat.ltb_ge in E; apply Z.ltb_ge; lia]. Qed.

Lemma goto_mid_tie fexp ref est pt thr mu sg be paired s1 s2 s3 s4 s5 s6 s7 :
  let inc := Beat.flatnonzero (map (fun e => qltb thr (Qabs e)) be) in
  exists tl ts sb eb,
  run_block (F fexp) goto_mid
    (goto_env ref est (VFlt pt (Fin thr)) mu sg be paired (VInt true 0) s1 s2 s3 s4 s5 s6 s7 VUnbound VUnbound VUnbound VUnbound VUnbound VUnbound)
  = match Beat.goto_track (length ref) be inc with
    | Raise e => SExn e
    | Ok (Some tr) => SNorm (goto_env ref est (VFlt pt (Fin thr)) mu sg be paired (VInt true 1) s1 s2 s3 s4 s5 s6 s7 (VArrZ (map Z.of_nat inc)) (VArrQ tr) tl ts sb eb)
    | Ok None => SNorm (goto_env ref est (VFlt pt (Fin thr)) mu sg be paired (VInt true 0) s1 s2 s3 s4 s5 s6 s7 (VArrZ (map Z.of_nat inc)) VUnbound tl ts sb eb)
    end.
Proof.
  intros inc. unfold goto_mid, goto_after, goto_env, F. cbn.
  rewrite map_map.
  assert (Hinc : nz_from 0 (map (fun x : Q => qltb thr (Qabs x)) be) = map Z.of_nat inc) by (exact (nz_from_nat _ 0%nat)).
  rewrite !Hinc. clear Hinc. assert (Hch : chain inc) by (apply fnz_chain). clearbody inc.
  go. rewrite map_length, zltb3_nat. unfold Beat.goto_track.
  destruct (length inc <? 3)%nat eqn:E3.
  - destruct inc as [|i0 [|i1 [|i2 rest]]]; try discriminate E3; go.
    + rewrite get_z_nil. cbn. exists VNone, VNone, VNone, VNone. reflexivity.
    + rewrite get_z_last. go. rewrite slice_step1. cbn. do 4 eexists. reflexivity.
    + rewrite get_z_last. go. rewrite slice_step1. cbn. do 4 eexists. reflexivity.
  - go. rewrite (zdiffs_nat _ Hch).
    assert (Hdne : Beat.nat_diffs inc <> []).
    { intros Ed. pose proof (nat_diffs_length inc) as Hl. rewrite Ed in Hl. apply Nat.ltb_ge in E3. cbn [length] in Hl. lia. }
    rewrite (zmax_list_nat _ Hdne). go.
    set (tln := Beat.nat_max (Beat.nat_diffs inc)).
    rewrite (zdiffs_nat _ Hch), map_map. rewrite (map_ext _ (fun x => Nat.eqb tln x)) by (intros x; apply zeqb_nat).
    assert (Hnz : nz_from 0 (map (fun x => Nat.eqb tln x) (Beat.nat_diffs inc))
                  = map Z.of_nat (Beat.flatnonzero_from 0 (map (Nat.eqb tln) (Beat.nat_diffs inc)))) by (exact (nz_from_nat _ 0%nat)).
    rewrite Hnz, (fnz_find (Nat.eqb tln) (Beat.nat_diffs inc) 0). clear Hnz.
    destruct (find_idx (Nat.eqb tln) (Beat.nat_diffs inc)) as [tsn|] eqn:Ef.
    2:{ cbn [map]. rewrite get_z_nil. cbn. exists VNone, VNone, VNone, VNone. reflexivity. }
    cbn [map Nat.add]. go.
    assert (Eq : qltb ((1 # 4) * inject_Z (Z.of_nat (length ref) - 2)) (inject_Z (Z.of_nat tln - 1))
                 = qltb ((1 # 4) * (Beat.qnat (length ref) - 2)) (Beat.qnat tln - 1)).
    { apply BeatProps.qltb_ext. unfold Beat.qnat. rewrite !injZ_minus. reflexivity. }
    rewrite Eq. clear Eq.
    pose proof (find_idx_lt _ _ _ Ef) as Hts. rewrite nat_diffs_length in Hts.
    destruct (qltb _ _).
    + go. rewrite (get_z _ tsn (Z.of_nat (nth tsn inc 0%nat))) by (apply nth_error_map_nth; lia). go.
      rewrite (get_z _ (S tsn) (Z.of_nat (nth (S tsn) inc 0%nat))) by (apply nth_error_map_nth; lia). go.
      rewrite slice_step1. cbn. do 4 eexists. reflexivity.
    + cbn. do 4 eexists. reflexivity.
Qed.

Lemma run_block_app f a b en :
  run_block f (a ++ b) en = match run_block f a en with SNorm en' => run_block f b en' | o => o end.
Proof. revert en. induction a as [|s r IH]; intros en; [reflexivity|]. cbn [app run_block].
  destruct (f s en); try reflexivity. apply IH. Qed.
Lemma cut_at_for l : l = before_for l ++ from_for l.
Proof. induction l as [|s t IH]; [reflexivity|]. destruct s; cbn [before_for from_for app]; try (f_equal; exact IH); try reflexivity. Qed.
Lemma zle0_nat n : (0 <=? Z.of_nat n)%Z = true. Proof. apply Z.leb_le. lia. Qed.
Lemma zrange_1 n : zrange 1 (Z.of_nat n - 1) = map Z.of_nat (seq 1 (n - 2)).
Proof.
  unfold zrange. replace (Z.to_nat (Z.of_nat n - 1 - 1)) with (n - 2)%nat by lia.
  rewrite <- seq_shift, map_map. apply map_ext. intros i. lia.
Qed.
Lemma zrange_1' n : zrange 1 (Z.of_nat n) = map Z.of_nat (seq 1 (n - 1)).
Proof.
  unfold zrange. replace (Z.to_nat (Z.of_nat n - 1)) with (n - 1)%nat by lia.
  rewrite <- seq_shift, map_map. apply map_ext. intros i. lia.
Qed.
Lemma be_final ref est : ref <> [] ->
  be_arr ([] ++ Beat.goto_interior ref est) (Nat.min 1 (length ref - 1)) = Beat.goto_beat_errors ref est.
Proof. destruct ref as [|a [|b t]]; [contradiction| |]; intros _; reflexivity. Qed.
Definition lift_q (r : res Q) : out (list xval) := match r with Ok q => OK [Fin q] | Raise e => EXN e end.
Definition sres_floats (s : sres) : out (list xval) :=
  out_floats (match s with SNorm _ => OK VNone | SRet v => OK v | SExn e => EXN e | SUnm => UNM end).

Theorem goto_tie_gen : forall fexp ref est thr mu sigma p1 p2 p3,
  out_eq (out_floats (runx ext fexp gen_goto [VArrQ ref; VArrQ est; VFlt p1 (Fin thr); VFlt p2 (Fin mu); VFlt p3 (Fin sigma)]))
         (lift_q (Beat.goto ref est thr mu sigma)).
Proof.
  intros. unfold runx, run_fun. cbn [length f_params gen_goto Nat.eqb]. unfold exec_block.
  rewrite (cut_at_for (f_body gen_goto)) at 1. rewrite run_block_app.
  remember (from_for (f_body gen_goto)) as rest eqn:Erest.
  unfold Beat.goto. cbn.
  rewrite Hval. destruct (Beat.validate ref est) as [[]|e]; cbn; [|reflexivity].
  destruct est as [|e0 et]; [cbn; repeat constructor|].
  cbn [length]. rewrite zof_S_eq0. cbn.
  destruct ref as [|r0 rt]; [cbn; repeat constructor|].
  cbn [length]. rewrite zof_S_eq0. repeat progress (go; rewrite ?zle0_nat, ?Nat2Z.id).
  subst rest. change (from_for (f_body gen_goto)) with (SFor "n" (ENp "range" [EInt 1; EBin Sub (EIndex (EAttr (ELoc "reference_beats") "shape") (EInt 0)) (EInt 1)]) goto_body :: goto_after).
  remember goto_after as ga eqn:Ega.
  cbn [run_block]. go. rewrite zrange_1', map_map.
  destruct (goto_loop fexp (e0 :: et) (VFlt p1 (Fin thr)) (VFlt p2 (Fin mu)) (VFlt p3 (Fin sigma)) (VInt true 0)
              VUnbound VUnbound VUnbound VUnbound VUnbound VUnbound (r0 :: rt) [] [] (repeat 0 (S (length rt)))
              VUnbound VUnbound VUnbound VUnbound VUnbound VUnbound VUnbound eq_refl
              ltac:(rewrite repeat_length; reflexivity) ltac:(discriminate))
    as (paired' & t1 & t2 & t3 & t4 & t5 & t6 & t7 & Hp' & E).
  rewrite be_final in E by discriminate. cbn [app length] in E.
  replace (S (length rt) - 1)%nat with (length rt) in E by lia.
  replace (S (length rt) - 2)%nat with (length rt - 1)%nat in E by lia.
  unfold goto_env, be_arr in E. cbn [app repeat] in E.
  match type of E with _ = ?R =>
    match goal with |- context [for_loop ?st ?els ?en] => replace (for_loop st els en) with R by (symmetry; exact E) end end.
  clear E. subst ga. change goto_after with (goto_mid ++ goto_final). rewrite run_block_app.
  destruct (goto_mid_tie fexp (r0 :: rt) (e0 :: et) p1 thr (VFlt p2 (Fin mu)) (VFlt p3 (Fin sigma))
              (Beat.goto_beat_errors (r0 :: rt) (e0 :: et)) paired' t1 t2 t3 t4 t5 t6 t7) as (tl & ts & sb & eb & E).
  unfold goto_env, F in E.
  match type of E with _ = ?R =>
    match goal with |- context [run_block ?f goto_mid ?en] => replace (run_block f goto_mid en) with R by (symmetry; exact E) end end.
  clear E. cbn [Prelude.bind].
  destruct (Beat.goto_track _ _ _) as [[tr|]|ex]; cbn [Prelude.bind].
  - destruct (goto_final_tie fexp (r0 :: rt) (e0 :: et) p1 thr p2 mu p3 sigma (Beat.goto_beat_errors (r0 :: rt) (e0 :: et)) paired' tr
                t1 t2 t3 t4 t5 t6 t7 (VArrZ (map Z.of_nat (Beat.flatnonzero (map (fun e => qltb thr (Qabs e)) (Beat.goto_beat_errors (r0 :: rt) (e0 :: et))))))
                tl ts sb eb) as (p & q & E & Hq).
    unfold goto_env, F in E.
    match type of E with _ = ?R =>
      match goal with |- context [run_block ?f goto_final ?en] => replace (run_block f goto_final en) with R by (symmetry; exact E) end end.
    cbn. constructor; [exact Hq|constructor].
  - destruct (goto_final_none fexp (r0 :: rt) (e0 :: et) p1 thr p2 mu p3 sigma (Beat.goto_beat_errors (r0 :: rt) (e0 :: et)) paired'
                t1 t2 t3 t4 t5 t6 t7 (VArrZ (map Z.of_nat (Beat.flatnonzero (map (fun e => qltb thr (Qabs e)) (Beat.goto_beat_errors (r0 :: rt) (e0 :: et))))))
                VUnbound tl ts sb eb) as (p & q & E & Hq).
    unfold goto_env, F in E.
    match type of E with _ = ?R =>
      match goal with |- context [run_block ?f goto_final ?en] => replace (run_block f goto_final en) with R by (symmetry; exact E) end end.
    cbn. constructor; [exact Hq|constructor].
  - cbn. reflexivity.
Qed.
End Callees.
Theorem goto_tie : forall fexp ref est thr mu sigma p1 p2 p3,
  out_eq (out_floats (run fexp gen_goto [VArrQ ref; VArrQ est; VFlt p1 (Fin thr); VFlt p2 (Fin mu); VFlt p3 (Fin sigma)]))
         (lift_q (Beat.goto ref est thr mu sigma)).
Proof. exact (goto_tie_gen beat_ext beat_ext_val). Qed.
Print Assumptions goto_tie_gen.
Print Assumptions goto_tie.

(* values observed on the real implementation for three inputs (10 reference beats; 11 estimates / the reference shifted
   by 1/16 s; goto_threshold = 1, where no beat is "incorrect" and incorrect_beats[0] raises) *)
Definition ex_ref : list Q := [1; 2; 3; 9#2; 6; 7; 33#4; 9; 10; 11].
Definition ex_est : list Q := [9#8; 2; 13#4; 35#8; 5; 6; 7; 17#2; 19#2; 10; 45#4].
Example goto_example_0 :
  run fx0 gen_goto [VArrQ ex_ref; VArrQ ex_est; VFlt true (Fin (35#100)); VFlt true (Fin (2#10)); VFlt true (Fin (2#10))] = OK (VFlt true (Fin (1 * 0))).
Proof. vm_compute. reflexivity. Qed.
Example goto_example_1 :
  run fx0 gen_goto [VArrQ ex_ref; VArrQ (map (fun x => x + (1#16)) ex_ref); VFlt true (Fin (35#100)); VFlt true (Fin (2#10)); VFlt true (Fin (2#10))]
  = OK (VFlt true (Fin (1 * 1))).
Proof. vm_compute. reflexivity. Qed.
Example goto_example_index_error :
  run fx0 gen_goto [VArrQ ex_ref; VArrQ ex_est; VFlt true (Fin 1); VFlt true (Fin (2#10)); VFlt true (Fin (2#10))] = EXN IndexError.
Proof. vm_compute. reflexivity. Qed.
