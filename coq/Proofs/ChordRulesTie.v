(* The 12 chord comparison rules of Model/ChordCmp.v are tied to chord.py by TRANSLATION:
   Gen/ChordRules.v is produced from the function bodies by translator/chordrules.py on every check; its
   meaning is given by the evaluator of Model/RowExp.v; here each generated program is proved equal to the
   hand-written rule, for all rows of the shape encode_many produces.

   The proofs do not mention anything of the generated text except the names gen_X: the program is
   normalised by computation ([rp_expr] by vm_compute, [ev] by cbv on a whitelist), the list-level
   subterms are bridged to the model's primitives by the lemmas below, and what remains is a boolean
   combination of atomic comparisons, decided by case analysis on the atoms (with lia as a fallback for
   arithmetically equivalent atoms). A source with a different meaning makes a leaf fail. *)
From Coq Require Import String.
From Coq Require Import ZArith List Bool Lia ZifyBool.
From ME Require Import Model.Prelude Model.ChordParse Model.ChordCmp Model.RowExp Gen.ChordTables.
From ME Require Import Proofs.ChordSound.
From ME Require Import Gen.ChordRules.
Import ListNotations.
Open Scope Z_scope.

(* the shape of a row of encode_many: 12 bitmap entries, a bass that indexes them in Python's sense *)
Definition shape_ok (r : cenc) := length (bm r) = 12%nat /\ -12 <= bass r < 12.
Lemma enc_ok_shape r : enc_ok r -> shape_ok r.
Proof. intros [(_ & B & [E|E])|(_ & B & [L _] & _)]; (split; [|lia]); [now rewrite E|now rewrite E|exact L]. Qed.
Lemma rot_length l z : length (rot l z) = 12%nat. Proof. reflexivity. Qed.

(* bridges from the evaluator's list primitives to those of Model/ChordCmp.v *)
Lemma all_map2_eq : forall l m, length l = length m -> forallb id (map2 (cmpz CEq) l m) = leqb l m.
Proof. induction l as [|x l IH]; destruct m as [|y m]; cbn; try discriminate; auto. intros [= H]. now rewrite IH. Qed.
Lemma forallb_id_map {A} (f : A -> bool) l : forallb id (map f l) = forallb f l.
Proof. induction l; cbn; [reflexivity|]. now rewrite IHl. Qed.
Lemma existsb_id_map {A} (f : A -> bool) l : existsb id (map f l) = existsb f l.
Proof. induction l; cbn; [reflexivity|]. now rewrite IHl. Qed.
Lemma count_true_map {A} (f : A -> bool) l : count_true (map f l) = fold_right (fun x acc => b2z (f x) + acc) 0 l.
Proof. induction l; cbn; [reflexivity|]. unfold count_true in IHl. now rewrite IHl. Qed.
Lemma zsum_map2_mul : forall a b, zsum (map2 Z.mul a b) = dot a b.
Proof. induction a as [|x a IH]; destruct b as [|y b]; cbn; auto. unfold zsum in IH. now rewrite IH. Qed.
Lemma py_index_ok l z : 0 <= z < Z.of_nat (length l) -> py_index l z = Some (nthz l (Z.to_nat z)).
Proof. intros H. unfold py_index. destruct (0 <=? z) eqn:A; [|lia]. destruct (z <? Z.of_nat (length l)) eqn:B; [reflexivity|lia]. Qed.
Lemma py_index_neg l z : - Z.of_nat (length l) <= z < 0 -> py_index l z = Some (nthz l (Z.to_nat (z + Z.of_nat (length l)))).
Proof. intros H. unfold py_index. destruct (0 <=? z) eqn:A; [lia|]. cbn [andb].
  destruct (- Z.of_nat (length l) <=? z) eqn:B; [|lia]. destruct (z <? 0) eqn:C; [reflexivity|lia]. Qed.

(* ---- the normalisation tactic ---- *)
Ltac ev_step :=
  cbv [ev bind1 bind2 sd v_cmp v_mul v_add v_land v_lor v_all v_any v_sum v_astype r_slice v_slice v_idx v_rot
       v_stack stack_b stack_i v_where to_z truthy dtype_of cast s_arith Nat.sub vv_cmp vv_mul vv_add bb_mul].
Ltac lens Lr Le := cbn [length]; rewrite ?firstn_length, ?skipn_length, ?rot_length, ?Lr, ?Le.
(* one stuck redex of the evaluator: a table row, a slice of a literal, a length test, an index *)
Ltac unstick Lr Le :=
  match goal with
  | |- context [r_qual ?n] => let v := eval vm_compute in (r_qual n) in change (r_qual n) with v
  | |- context [firstn ?n (@cons Z ?x ?t)] =>
      let v := eval vm_compute in (firstn n (x :: t)) in change (firstn n (x :: t)) with v
  | |- context [samelen ?a ?b] =>
      let H := fresh in assert (H : samelen a b = true) by (unfold samelen; lens Lr Le; reflexivity); rewrite H; clear H
  | |- context [Nat.eqb (length ?l) 12] =>
      let H := fresh in assert (H : Nat.eqb (length l) 12 = true) by (lens Lr Le; reflexivity); rewrite H; clear H
  | |- context [py_index ?l ?z] =>
      first [ rewrite (py_index_ok l z) by (lens Lr Le; lia)
            | rewrite (py_index_neg l z) by (lens Lr Le; lia)
            | destruct (Z.leb_spec 0 z) ]
  end.
Ltac bridge Lr Le :=
  repeat match goal with |- context [forallb id (map2 (cmpz CEq) ?a ?b)] =>
    rewrite (all_map2_eq a b) by (lens Lr Le; reflexivity) end;
  rewrite ?forallb_id_map, ?existsb_id_map, ?count_true_map, ?zsum_map2_mul.
Ltac model_consts :=
  let go c := (let v := eval vm_compute in c in change c with v) in
  go q_maj; go q_min; go q_maj7; go q_7; go q_min7; go q_none; go maj8; go min8.
Ltac unfold_model :=
  unfold thirds, thirds_inv, triads, triads_inv, tetrads, tetrads_inv, root_cmp, mirex, majmin, majmin_inv, sevenths, sevenths_inv;
  cbv zeta;
  unfold mask, mm_in, sv_in, bad_inv, isX, eq_root, eq_bass, eq_third, eq_pre8, eq_all, count_pos;
  cbn [existsb]; model_consts; cbv [cmpz]; cbv beta;
  repeat match goal with |- context [Z.to_nat (Zpos ?p)] =>
    let v := eval vm_compute in (Z.to_nat (Zpos p)) in change (Z.to_nat (Zpos p)) with v end;
  change (Z.to_nat 0) with 0%nat.
(* atoms: list-level first, then integer comparisons, innermost first *)
Ltac list_atom :=
  match goal with
  | |- context [leqb ?a ?b] => destruct (leqb a b) eqn:?
  | |- context [existsb ?f ?l] => destruct (existsb f l) eqn:?
  | |- context [forallb ?f ?l] => destruct (forallb f l) eqn:?
  end.
Ltac pure t := lazymatch t with context [b2z _] => fail | _ => idtac end.
Ltac z_atom :=
  match goal with
  | |- context [Z.eqb ?a ?b] => pure a; pure b; destruct (Z.eqb a b) eqn:?
  | |- context [Z.ltb ?a ?b] => pure a; pure b; destruct (Z.ltb a b) eqn:?
  | |- context [Z.leb ?a ?b] => pure a; pure b; destruct (Z.leb a b) eqn:?
  end.
Ltac ground p := lazymatch p with xH => idtac | xO ?q => ground q | xI ?q => ground q end.
Ltac num a := lazymatch a with Z0 => idtac | Zpos ?p => ground p | Zneg ?p => ground p end.
Ltac closed_atoms :=
  repeat match goal with
  | |- context [Z.eqb ?a ?b] => num a; num b; let v := eval vm_compute in (Z.eqb a b) in change (Z.eqb a b) with v
  | |- context [Z.ltb ?a ?b] => num a; num b; let v := eval vm_compute in (Z.ltb a b) in change (Z.ltb a b) with v
  | |- context [Z.leb ?a ?b] => num a; num b; let v := eval vm_compute in (Z.leb a b) in change (Z.leb a b) with v
  end.
Ltac known_signs :=
  repeat match goal with
  | H : 0 <= ?z |- context [0 <=? ?z] => rewrite (proj2 (Z.leb_le 0 z) H)
  | H : ?z < 0 |- context [0 <=? ?z] => rewrite (proj2 (Z.leb_gt 0 z) H)
  end.
Ltac simp := cbn [andb orb negb b2z count_true fold_right].
(* a count over a symbolic list is an opaque integer for the case analysis *)
Ltac opaque_counts :=
  repeat match goal with |- context [fold_right ?f ?a ?l] =>
    let n := fresh "n" in generalize (fold_right f a l); intro n end.
Ltac leaf := first [reflexivity | exfalso; lia].
Ltac tie g :=
  let r := fresh "r" in let e := fresh "e" in
  let Lr := fresh "Lr" in let Le := fresh "Le" in let Br := fresh "Br" in let Be := fresh "Be" in
  intros r e [Lr Br] [Le Be];
  unfold reval_opt;
  (let v := eval vm_compute in (rp_expr g) in change (rp_expr g) with v);
  ev_step; repeat (unstick Lr Le; ev_step);
  bridge Lr Le; unfold_model;
  known_signs; closed_atoms; simp; try reflexivity; opaque_counts;
  repeat (list_atom; simp; try reflexivity);
  repeat (z_atom; closed_atoms; simp; try reflexivity);
  leaf.

(* ---- row level: the translated body computes the hand-written rule ---- *)
Definition ties (g : rprog) (m : cenc -> cenc -> Z) := forall r e, shape_ok r -> shape_ok e -> reval_opt g r e = Some (m r e).

Lemma tie_thirds : ties gen_thirds thirds. Proof. tie gen_thirds. Qed.
Lemma tie_thirds_inv : ties gen_thirds_inv thirds_inv. Proof. tie gen_thirds_inv. Qed.
Lemma tie_triads : ties gen_triads triads. Proof. tie gen_triads. Qed.
Lemma tie_triads_inv : ties gen_triads_inv triads_inv. Proof. tie gen_triads_inv. Qed.
Lemma tie_tetrads : ties gen_tetrads tetrads. Proof. tie gen_tetrads. Qed.
Lemma tie_tetrads_inv : ties gen_tetrads_inv tetrads_inv. Proof. tie gen_tetrads_inv. Qed.
Lemma tie_root_cmp : ties gen_root_cmp root_cmp. Proof. tie gen_root_cmp. Qed.
Lemma tie_mirex : ties gen_mirex mirex. Proof. tie gen_mirex. Qed.
Lemma tie_majmin : ties gen_majmin majmin. Proof. tie gen_majmin. Qed.
Lemma tie_majmin_inv : ties gen_majmin_inv majmin_inv. Proof. tie gen_majmin_inv. Qed.
Lemma tie_sevenths : ties gen_sevenths sevenths. Proof. tie gen_sevenths. Qed.
Lemma tie_sevenths_inv : ties gen_sevenths_inv sevenths_inv. Proof. tie gen_sevenths_inv. Qed.

Lemma ties_reval g m : ties g m -> forall r e : cenc, enc_ok r -> enc_ok e -> reval g r e = m r e.
Proof. intros T r e Hr He. unfold reval. now rewrite (T r e (enc_ok_shape r Hr) (enc_ok_shape e He)). Qed.

Theorem thirds_tie : forall r e : cenc, enc_ok r -> enc_ok e -> reval gen_thirds r e = thirds r e.
Proof. exact (ties_reval _ _ tie_thirds). Qed.
Theorem thirds_inv_tie : forall r e : cenc, enc_ok r -> enc_ok e -> reval gen_thirds_inv r e = thirds_inv r e.
Proof. exact (ties_reval _ _ tie_thirds_inv). Qed.
Theorem triads_tie : forall r e : cenc, enc_ok r -> enc_ok e -> reval gen_triads r e = triads r e.
Proof. exact (ties_reval _ _ tie_triads). Qed.
Theorem triads_inv_tie : forall r e : cenc, enc_ok r -> enc_ok e -> reval gen_triads_inv r e = triads_inv r e.
Proof. exact (ties_reval _ _ tie_triads_inv). Qed.
Theorem tetrads_tie : forall r e : cenc, enc_ok r -> enc_ok e -> reval gen_tetrads r e = tetrads r e.
Proof. exact (ties_reval _ _ tie_tetrads). Qed.
Theorem tetrads_inv_tie : forall r e : cenc, enc_ok r -> enc_ok e -> reval gen_tetrads_inv r e = tetrads_inv r e.
Proof. exact (ties_reval _ _ tie_tetrads_inv). Qed.
Theorem root_cmp_tie : forall r e : cenc, enc_ok r -> enc_ok e -> reval gen_root_cmp r e = root_cmp r e.
Proof. exact (ties_reval _ _ tie_root_cmp). Qed.
Theorem mirex_tie : forall r e : cenc, enc_ok r -> enc_ok e -> reval gen_mirex r e = mirex r e.
Proof. exact (ties_reval _ _ tie_mirex). Qed.
Theorem majmin_tie : forall r e : cenc, enc_ok r -> enc_ok e -> reval gen_majmin r e = majmin r e.
Proof. exact (ties_reval _ _ tie_majmin). Qed.
Theorem majmin_inv_tie : forall r e : cenc, enc_ok r -> enc_ok e -> reval gen_majmin_inv r e = majmin_inv r e.
Proof. exact (ties_reval _ _ tie_majmin_inv). Qed.
Theorem sevenths_tie : forall r e : cenc, enc_ok r -> enc_ok e -> reval gen_sevenths r e = sevenths r e.
Proof. exact (ties_reval _ _ tie_sevenths). Qed.
Theorem sevenths_inv_tie : forall r e : cenc, enc_ok r -> enc_ok e -> reval gen_sevenths_inv r e = sevenths_inv r e.
Proof. exact (ties_reval _ _ tie_sevenths_inv). Qed.

Theorem gen_rules_ties : Forall2 ties gen_rules rules.
Proof.
  unfold gen_rules, rules.
  repeat first [apply Forall2_nil | apply Forall2_cons];
    first [exact tie_thirds | exact tie_thirds_inv | exact tie_triads | exact tie_triads_inv | exact tie_tetrads
          | exact tie_tetrads_inv | exact tie_root_cmp | exact tie_mirex | exact tie_majmin | exact tie_majmin_inv
          | exact tie_sevenths | exact tie_sevenths_inv].
Qed.

Theorem gen_rules_agree :
  Forall2 (fun g m => forall r e : cenc, enc_ok r -> enc_ok e -> reval g r e = m r e) gen_rules rules.
Proof. generalize gen_rules_ties. generalize gen_rules rules. intros gs ms H. induction H; constructor; auto using ties_reval. Qed.

(* the hypotheses are satisfiable, and the programs do distinguish rows *)
Example gen_rules_agree_nonvacuous :
  let c := {| root := 0; bm := [1;0;0;0;1;0;0;1;0;0;0;0]; bass := 0 |} in
  let x := {| root := -1; bm := [-1;-1;-1;-1;-1;-1;-1;-1;-1;-1;-1;-1]; bass := -1 |} in
  let c7 := {| root := 0; bm := [1;0;0;0;1;0;0;1;0;0;1;0]; bass := 4 |} in
  enc_ok c /\ enc_ok x /\ enc_ok c7 /\
  map (fun g => reval g c c) gen_rules = [1;1;1;1;1;1;1;1;1;1;1;1] /\
  map (fun g => reval g x c) gen_rules = [-1;-1;-1;-1;-1;-1;-1;-1;-1;-1;-1;-1] /\
  map (fun g => reval g c c7) gen_rules = [1;0;1;0;0;0;1;1;1;0;0;0].
Proof.
  assert (B : forall l, length l = 12%nat -> forallb (fun x => (x =? 0) || (x =? 1)) l = true -> bits l).
  { intros l L F. split; [exact L|]. apply Forall_forall. intros x Hx.
    rewrite forallb_forall in F. specialize (F x Hx). lia. }
  cbv zeta. repeat split; try (vm_compute; reflexivity).
  - right. cbn. repeat split; try lia; apply B; reflexivity.
  - left. cbn. auto.
  - right. cbn. repeat split; try lia; apply B; reflexivity.
Qed.

(* ---- label level: validate, encode_many(labels, False), body  =  cmp_labels of the model ---- *)
Lemma labels_of_rows p c :
  rp_validate p = true -> rp_ref_reduce p = false -> rp_est_reduce p = false -> ties p c ->
  forall r e : str, reval_labels p r e = cmp_labels c r e.
Proof.
  intros Hv Hr He T r e. unfold reval_labels, cmp_labels. rewrite Hv, Hr, He.
  destruct (validate_label r) as [[]|x]; cbn [bind]; [|reflexivity].
  destruct (validate_label e) as [[]|x]; cbn [bind]; [|reflexivity].
  destruct (encode r false false) as [er|x] eqn:Er; cbn [bind]; [|reflexivity].
  destruct (encode e false false) as [ee|x] eqn:Ee; cbn [bind]; [|reflexivity].
  rewrite (T _ _ (enc_ok_shape _ (encode_enc_ok _ _ _ _ Er)) (enc_ok_shape _ (encode_enc_ok _ _ _ _ Ee))). reflexivity.
Qed.

Definition ties_labels (g : rprog) (m : cenc -> cenc -> Z) := forall r e : str, reval_labels g r e = cmp_labels m r e.
Theorem gen_rules_labels_agree : Forall2 ties_labels gen_rules rules.
Proof.
  pose proof gen_rules_ties as H. unfold gen_rules, rules in *.
  repeat match goal with
  | H : Forall2 _ (_ :: _) (_ :: _) |- _ => inversion H; clear H; subst
  | H : Forall2 _ [] [] |- _ => clear H
  end.
  repeat first [apply Forall2_nil | apply Forall2_cons]; (intros r e; apply labels_of_rows; [reflexivity | reflexivity | reflexivity | assumption]).
Qed.

Print Assumptions gen_rules_agree.
Print Assumptions gen_rules_labels_agree.
