(* C12, adjust_intervals commutes with cutting an interval: the adjusted cut annotation is the adjusted annotation, either
   unchanged (the cut fell into a cropped part, or exactly on t_min / t_max) or with the corresponding (clipped) row cut.
   The pieces may degenerate after clipping (all rows below t_min collapse onto t_min): the relation `srel` allows a
   cut (a,m),(m,b) with a < m or a = m (the same rational), m < b or m = b. *)
From Coq Require Import List Bool Arith ZArith QArith Qminmax Qabs Lia Lqa.
From ME Require Import Model.Prelude Model.Intervals Proofs.IntervalsBase Proofs.IntervalsAdjust Proofs.SplitBase.
Import ListNotations.
Open Scope Q_scope.

(* ---------------------------------------------------------------------------------------- *)
(* strictly smaller or the very same rational                                                 *)
(* ---------------------------------------------------------------------------------------- *)
Definition le' (x y : Q) : Prop := x < y \/ x = y.
Lemma le'_le x y : le' x y -> x <= y.
Proof. intros [h| ->]; lra. Qed.
Lemma lt_le' x y : x < y -> le' x y.
Proof. left. assumption. Qed.

Lemma qmax_l_eq x y : y <= x -> Qmax x y = x.
Proof. intros h. unfold Qmax, GenericMinMax.gmax. destruct (x ?= y) eqn:E; try reflexivity. apply Qlt_alt in E. lra. Qed.
Lemma qmax_r_eq x y : x < y -> Qmax x y = y.
Proof. intros h. unfold Qmax, GenericMinMax.gmax. rewrite (qcmp_lt x y h). reflexivity. Qed.
Lemma qmin_l_eq x y : x <= y -> Qmin x y = x.
Proof. intros h. unfold Qmin, GenericMinMax.gmin. destruct (x ?= y) eqn:E; try reflexivity. apply Qgt_alt in E. lra. Qed.
Lemma qmin_r_eq x y : y < x -> Qmin x y = y.
Proof. intros h. unfold Qmin, GenericMinMax.gmin. rewrite (qcmp_gt x y h). reflexivity. Qed.

Lemma le'_qmax t x y : le' x y -> le' (Qmax t x) (Qmax t y).
Proof.
  intros [h| ->]; [|right; reflexivity].
  destruct (Qlt_le_dec t y) as [g|g].
  - rewrite (qmax_r_eq t y g). destruct (Qlt_le_dec t x) as [g2|g2].
    + rewrite (qmax_r_eq t x g2). left; exact h.
    + rewrite (qmax_l_eq t x g2). left; exact g.
  - rewrite (qmax_l_eq t y g), (qmax_l_eq t x) by lra. right; reflexivity.
Qed.
Lemma le'_qmin t x y : le' x y -> le' (Qmin t x) (Qmin t y).
Proof.
  intros [h| ->]; [|right; reflexivity].
  destruct (Qlt_le_dec x t) as [g|g].
  - rewrite (qmin_r_eq t x g). destruct (Qlt_le_dec y t) as [g2|g2].
    + rewrite (qmin_r_eq t y g2). left; exact h.
    + rewrite (qmin_l_eq t y g2). left; exact g.
  - rewrite (qmin_l_eq t x g), (qmin_l_eq t y) by lra. right; reflexivity.
Qed.

Lemma qmax_idem c b : Qmax (Qmax c b) b = Qmax c b.
Proof. unfold Qmax, GenericMinMax.gmax. destruct (c ?= b) eqn:E; rewrite ?E, ?qcmp_refl; reflexivity. Qed.
Lemma qmin_idem c a : Qmin (Qmin c a) a = Qmin c a.
Proof. unfold Qmin, GenericMinMax.gmin. destruct (c ?= a) eqn:E; rewrite ?E, ?qcmp_refl; reflexivity. Qed.
Lemma qmax_cut' c m b : le' m b -> Qmax (Qmax (Qmax c m) m) b = Qmax c b.
Proof. intros [h| ->]; [apply qmax_cut; exact h|]. rewrite !qmax_idem. reflexivity. Qed.
Lemma qmin_cut' c a m : le' a m -> Qmin (Qmin (Qmin c a) m) m = Qmin c a.
Proof. intros [h| <-]; [apply qmin_cut; exact h|]. rewrite !qmin_idem. reflexivity. Qed.
Lemma qmin_cut_hd' a m : le' a m -> Qmin (Qmin a m) m = a.
Proof.
  intros [h| <-]; [apply qmin_cut_hd; exact h|]. unfold Qmin, GenericMinMax.gmin. rewrite !qcmp_refl. reflexivity.
Qed.

Lemma qmax_list_dup p a m b s : le' m b ->
  qmax_list (flat (p ++ (a, m) :: (m, b) :: s)) = qmax_list (flat (p ++ (a, b) :: s)).
Proof.
  intros h. rewrite !flat_app. cbn [flat flat_map fst snd app].
  destruct (flat p) as [|x t] eqn:E.
  - cbn [app qmax_list fold_left]. rewrite qmax_cut' by exact h. reflexivity.
  - cbn [app qmax_list]. f_equal. rewrite !fold_left_app. cbn [fold_left]. rewrite qmax_cut' by exact h. reflexivity.
Qed.
Lemma qmin_list_dup p a m b s : le' a m ->
  qmin_list (flat (p ++ (a, m) :: (m, b) :: s)) = qmin_list (flat (p ++ (a, b) :: s)).
Proof.
  intros h. rewrite !flat_app. cbn [flat flat_map fst snd app].
  destruct (flat p) as [|x t] eqn:E.
  - cbn [app qmin_list fold_left]. rewrite qmin_cut_hd' by exact h. reflexivity.
  - cbn [app qmin_list]. f_equal. rewrite !fold_left_app. cbn [fold_left]. rewrite qmin_cut' by exact h. reflexivity.
Qed.

(* ---------------------------------------------------------------------------------------- *)
(* "the same annotation, or one row cut"                                                      *)
(* ---------------------------------------------------------------------------------------- *)
Inductive srel {L} : list iv * list L -> list iv * list L -> Prop :=
| sr_eq x : srel x x
| sr_dup p a m b s pl l sl : length p = length pl -> length s = length sl -> le' a m -> le' m b ->
    srel (p ++ (a, b) :: s, pl ++ l :: sl) (p ++ (a, m) :: (m, b) :: s, pl ++ l :: l :: sl).

(* outcome of a block of adjust_intervals on the cut annotation in terms of its outcome on the original *)
Definition out_rel {L} (r r' : res (list iv * option (list L))) : Prop :=
  match r with
  | Raise e => r' = Raise e
  | Ok (o, ol) => exists l o' l', ol = Some l /\ r' = Ok (o', Some l') /\ srel (o, l) (o', l')
  end.

(* ---------------------------------------------------------------------------------------- *)
(* list lemmas                                                                                *)
(* ---------------------------------------------------------------------------------------- *)
Lemma find_idx_app {A} (pr : A -> bool) : forall p r,
  find_idx pr (p ++ r) = match find_idx pr p with Some k => Some k | None => option_map (Nat.add (length p)) (find_idx pr r) end.
Proof.
  induction p as [|x p IH]; intros r.
  - cbn. destruct (find_idx pr r); reflexivity.
  - cbn [app find_idx length]. destruct (pr x); [reflexivity|]. rewrite IH.
    destruct (find_idx pr p); [reflexivity|]. destruct (find_idx pr r); reflexivity.
Qed.
Lemma find_idx_lt {A} (pr : A -> bool) : forall l k, find_idx pr l = Some k -> (k < length l)%nat.
Proof.
  induction l as [|x l IH]; intros k H; cbn in H; [discriminate|]. destruct (pr x); [injection H as <-; cbn; lia|].
  destruct (find_idx pr l) as [j|]; cbn in H; [|discriminate]. injection H as <-. specialize (IH j eq_refl). cbn. lia.
Qed.
Lemma skipn_len_app {A} : forall (p : list A) j X, skipn (length p + j) (p ++ X) = skipn j X.
Proof. induction p as [|x p IH]; intros j X; [reflexivity|]. cbn. apply IH. Qed.
Lemma firstn_len_app {A} : forall (p : list A) j X, firstn (length p + j) (p ++ X) = p ++ firstn j X.
Proof. induction p as [|x p IH]; intros j X; [reflexivity|]. cbn. rewrite IH. reflexivity. Qed.
Lemma skipn_short_app {A} k (p X : list A) : (k <= length p)%nat -> skipn k (p ++ X) = skipn k p ++ X.
Proof. intros h. rewrite skipn_app. replace (k - length p)%nat with 0%nat by lia. reflexivity. Qed.
Lemma firstn_short_app {A} k (p X : list A) : (k <= length p)%nat -> firstn k (p ++ X) = firstn k p.
Proof. intros h. rewrite firstn_app. replace (k - length p)%nat with 0%nat by lia. cbn. apply app_nil_r. Qed.
Lemma ordered_app_tail : forall p v s, ordered (p ++ v :: s) -> Forall (fun w => snd v <= fst w) s.
Proof.
  induction p as [|x p IH]; intros v s H; cbn [app] in H.
  - cbn in H. tauto.
  - apply IH. cbn in H. tauto.
Qed.

(* ---------------------------------------------------------------------------------------- *)
(* the t_min block                                                                           *)
(* ---------------------------------------------------------------------------------------- *)
Section Blocks.
Context {L : Type}.
Variable N : L.

Definition cropmin (t : Q) (x : list iv * list L) : list iv * list L :=
  let k := crop_min t (fst x) in (skipn k (fst x), skipn k (snd x)).
Definition finish_min (t : Q) (x : list iv * list L) : res (list iv * option (list L)) :=
  let cl := map (clip_lo t) (fst x) in
  match qmin_list (flat cl) with
  | None => Raise ValueError
  | Some mn => if qltb t mn then Ok ((t, mn) :: cl, Some (N :: snd x)) else Ok (cl, Some (snd x))
  end.
Lemma step_min_eq t ivs labs : step_min N t ivs (Some labs) = finish_min t (cropmin t (ivs, labs)).
Proof. rewrite step_min_unfold. reflexivity. Qed.

(* the three possible relations between the cropped annotations *)
Inductive crel (t : Q) : list iv * list L -> list iv * list L -> Prop :=
| cr_eq x : crel t x x
| cr_dup x x' : srel x x' -> crel t x x'
| cr_min a m b s l sl : a <= m -> m <= t -> crel t ((a, b) :: s, l :: sl) ((m, b) :: s, l :: sl).

Lemma cropmin_dup t p a m b s pl (l : L) sl : length p = length pl -> length s = length sl -> le' a m -> le' m b ->
  crel t (cropmin t (p ++ (a, b) :: s, pl ++ l :: sl)) (cropmin t (p ++ (a, m) :: (m, b) :: s, pl ++ l :: l :: sl)).
Proof.
  intros hp hs ham hmb. unfold cropmin, crop_min; cbn [fst snd]. unfold iv in *.
  set (pr := fun i : Q * Q => qltb t (snd i)). rewrite !find_idx_app.
  destruct (find_idx pr p) as [k|] eqn:Ep.
  - pose proof (find_idx_lt pr p k Ep) as hk.
    rewrite !skipn_short_app by lia. apply cr_dup. apply sr_dup; try assumption. rewrite !skipn_length. lia.
  - cbn [find_idx]. change (pr (a, b)) with (qltb t b). change (pr (a, m)) with (qltb t m). change (pr (m, b)) with (qltb t b).
    destruct (qltb t m) eqn:E1.
    + assert (E2 : qltb t b = true) by (qb; apply qltb_true; apply le'_le in hmb; lra). rewrite E2. cbn [option_map].
      rewrite !skipn_len_app. rewrite hp, !skipn_len_app. cbn [skipn].
      apply cr_dup. apply (sr_dup [] a m b s [] l sl); auto.
    + destruct (qltb t b) eqn:E2.
      * cbn [option_map]. rewrite !skipn_len_app. rewrite hp, !skipn_len_app. cbn [skipn].
        apply cr_min; [apply le'_le; exact ham|qb; exact E1].
      * destruct (find_idx pr s) as [j|] eqn:Es; cbn [option_map].
        -- rewrite !skipn_len_app. rewrite hp, !skipn_len_app. cbn [skipn]. apply cr_eq.
        -- cbn [skipn]. apply cr_dup. apply sr_dup; assumption.
Qed.

Lemma finish_min_refl t x : out_rel (finish_min t x) (finish_min t x).
Proof.
  unfold finish_min, out_rel. destruct (qmin_list _) as [mn|]; [|reflexivity].
  destruct (qltb t mn); eexists; eexists; eexists; (split; [reflexivity|split; [reflexivity|apply sr_eq]]).
Qed.

Lemma map_dup {A B} (f : A -> B) p x y s : map f (p ++ x :: y :: s) = map f p ++ f x :: f y :: map f s.
Proof. rewrite map_app. reflexivity. Qed.
Lemma map_one {A B} (f : A -> B) p x s : map f (p ++ x :: s) = map f p ++ f x :: map f s.
Proof. rewrite map_app. reflexivity. Qed.

Lemma finish_min_crel t x x' : crel t x x' -> out_rel (finish_min t x) (finish_min t x').
Proof.
  intros [y|y y' hs|a m b s l sl h1 h2].
  - apply finish_min_refl.
  - destruct hs as [y|p a m b s pl l sl hp hs ham hmb]; [apply finish_min_refl|].
    unfold finish_min; cbn [fst snd]. rewrite map_dup, map_one.
    change (clip_lo t (a, m)) with (Qmax t a, Qmax t m). change (clip_lo t (m, b)) with (Qmax t m, Qmax t b).
    change (clip_lo t (a, b)) with (Qmax t a, Qmax t b).
    rewrite qmin_list_dup by (apply le'_qmax; exact ham).
    unfold out_rel. destruct (qmin_list _) as [mn|]; [|reflexivity].
    destruct (qltb t mn).
    + eexists; eexists; eexists. split; [reflexivity|]. split; [reflexivity|].
      apply (sr_dup ((t, mn) :: map (clip_lo t) p) _ _ _ _ (N :: pl));
        [cbn [length]; rewrite map_length; f_equal; exact hp|rewrite map_length; exact hs|apply le'_qmax; exact ham|apply le'_qmax; exact hmb].
    + eexists; eexists; eexists. split; [reflexivity|]. split; [reflexivity|].
      apply sr_dup; [rewrite map_length; exact hp|rewrite map_length; exact hs|apply le'_qmax; exact ham|apply le'_qmax; exact hmb].
  - assert (e : finish_min t ((m, b) :: s, l :: sl) = finish_min t ((a, b) :: s, l :: sl)).
    { unfold finish_min; cbn [fst snd map].
      change (clip_lo t (m, b)) with (Qmax t m, Qmax t b). change (clip_lo t (a, b)) with (Qmax t a, Qmax t b).
      rewrite (qmax_l_eq t m h2), (qmax_l_eq t a) by lra. reflexivity. }
    rewrite e. apply finish_min_refl.
Qed.

Lemma step_min_srel t (x x' : list iv * list L) : srel x x' ->
  out_rel (step_min N t (fst x) (Some (snd x))) (step_min N t (fst x') (Some (snd x'))).
Proof.
  intros hs. rewrite !step_min_eq. apply finish_min_crel.
  destruct hs as [y|p a m b s pl l sl hp hs ham hmb]; cbn [fst snd].
  - rewrite <- surjective_pairing. apply cr_eq.
  - apply cropmin_dup; assumption.
Qed.

(* ---------------------------------------------------------------------------------------- *)
(* the t_max block                                                                           *)
(* ---------------------------------------------------------------------------------------- *)
Definition cropmax (t : Q) (x : list iv * list L) : list iv * list L :=
  let k := crop_max t (fst x) in (firstn k (fst x), firstn k (snd x)).
Definition finish_max (t : Q) (x : list iv * list L) : res (list iv * option (list L)) :=
  let cl := map (clip_hi t) (fst x) in
  match qmax_list (flat cl) with
  | None => Raise ValueError
  | Some mx => if qltb mx t then Ok (cl ++ [(mx, t)], Some (snd x ++ [N])) else Ok (cl, Some (snd x))
  end.
Lemma step_max_eq t ivs labs : length labs = length ivs -> step_max N t ivs (Some labs) = finish_max t (cropmax t (ivs, labs)).
Proof. intros h. rewrite step_max_unfold by exact h. reflexivity. Qed.

Inductive crel_max (t : Q) : list iv * list L -> list iv * list L -> Prop :=
| cx_eq x : crel_max t x x
| cx_dup x x' : srel x x' -> crel_max t x x'
| cx_max p a m b pl l : t <= m -> m <= b -> crel_max t (p ++ [(a, b)], pl ++ [l]) (p ++ [(a, m)], pl ++ [l]).

Lemma cropmax_dup t p a m b s pl (l : L) sl : length p = length pl -> length s = length sl -> le' a m -> le' m b ->
  Forall (fun w => b <= fst w) s ->
  crel_max t (cropmax t (p ++ (a, b) :: s, pl ++ l :: sl)) (cropmax t (p ++ (a, m) :: (m, b) :: s, pl ++ l :: l :: sl)).
Proof.
  intros hp hs ham hmb hord. unfold cropmax, crop_max; cbn [fst snd]. unfold iv in *.
  set (pr := fun i : Q * Q => Qle_bool t (fst i)). rewrite !find_idx_app.
  destruct (find_idx pr p) as [k|] eqn:Ep.
  - pose proof (find_idx_lt pr p k Ep) as hk.
    rewrite !firstn_short_app by lia. apply cx_eq.
  - cbn [find_idx]. change (pr (a, b)) with (Qle_bool t a). change (pr (a, m)) with (Qle_bool t a). change (pr (m, b)) with (Qle_bool t m).
    destruct (Qle_bool t a) eqn:E1.
    + cbn [option_map]. rewrite !firstn_len_app. rewrite hp, !firstn_len_app. cbn [firstn]. apply cx_eq.
    + destruct (Qle_bool t m) eqn:E2.
      * cbn [option_map]. rewrite firstn_len_app. rewrite hp, firstn_len_app. cbn [firstn].
        assert (e : match option_map (Nat.add (length pl)) (option_map S (find_idx pr s)) with
                    | Some k => k | None => length (p ++ (a, b) :: s) end = (length pl + 1)%nat).
        { destruct s as [|w s2].
          - cbn. rewrite app_length. cbn. lia.
          - cbn [find_idx]. inversion hord; subst. unfold pr at 1.
            assert (e : Qle_bool t (fst w) = true) by (qb; apply qleb_true; apply le'_le in hmb; lra).
            rewrite e. cbn. lia. }
        rewrite e. rewrite <- hp at 1. rewrite !firstn_len_app. cbn [firstn].
        apply cx_max; [qb; exact E2|apply le'_le; exact hmb].
      * destruct (find_idx pr s) as [j|] eqn:Es; cbn [option_map].
        -- rewrite !firstn_len_app. rewrite hp, !firstn_len_app. cbn [firstn].
           apply cx_dup. apply sr_dup; try assumption. rewrite !firstn_length. lia.
        -- rewrite !firstn_all. rewrite !firstn_all2 by (rewrite !app_length; cbn [length]; lia).
           apply cx_dup. apply sr_dup; assumption.
Qed.

Lemma finish_max_refl t x : out_rel (finish_max t x) (finish_max t x).
Proof.
  unfold finish_max, out_rel. destruct (qmax_list _) as [mx|]; [|reflexivity].
  destruct (qltb mx t); eexists; eexists; eexists; (split; [reflexivity|split; [reflexivity|apply sr_eq]]).
Qed.

Lemma finish_max_crel t x x' : crel_max t x x' -> out_rel (finish_max t x) (finish_max t x').
Proof.
  intros [y|y y' hs|p a m b pl l h1 h2].
  - apply finish_max_refl.
  - destruct hs as [y|p a m b s pl l sl hp hs ham hmb]; [apply finish_max_refl|].
    unfold finish_max; cbn [fst snd]. rewrite map_dup, map_one.
    change (clip_hi t (a, m)) with (Qmin t a, Qmin t m). change (clip_hi t (m, b)) with (Qmin t m, Qmin t b).
    change (clip_hi t (a, b)) with (Qmin t a, Qmin t b).
    rewrite qmax_list_dup by (apply le'_qmin; exact hmb).
    unfold out_rel. destruct (qmax_list _) as [mx|]; [|reflexivity].
    destruct (qltb mx t).
    + eexists; eexists; eexists. split; [reflexivity|]. split; [reflexivity|].
      rewrite <- !app_assoc. cbn [app].
      apply sr_dup; [rewrite map_length; exact hp|rewrite !app_length, map_length; cbn [length]; f_equal; exact hs
                    |apply le'_qmin; exact ham|apply le'_qmin; exact hmb].
    + eexists; eexists; eexists. split; [reflexivity|]. split; [reflexivity|].
      apply sr_dup; [rewrite map_length; exact hp|rewrite map_length; exact hs|apply le'_qmin; exact ham|apply le'_qmin; exact hmb].
  - assert (e : finish_max t (p ++ [(a, m)], pl ++ [l]) = finish_max t (p ++ [(a, b)], pl ++ [l])).
    { unfold finish_max; cbn [fst snd]. rewrite !map_one. cbn [map].
      change (clip_hi t (a, m)) with (Qmin t a, Qmin t m). change (clip_hi t (a, b)) with (Qmin t a, Qmin t b).
      rewrite (qmin_l_eq t m h1), (qmin_l_eq t b) by lra. reflexivity. }
    rewrite e. apply finish_max_refl.
Qed.

Lemma srel_lengths (x x' : list iv * list L) : srel x x' -> length (snd x) = length (fst x) -> length (snd x') = length (fst x').
Proof.
  intros [y|p a m b s pl l sl hp hs ham hmb]; [auto|]. cbn [fst snd]. rewrite !app_length. cbn [length]. lia.
Qed.

Lemma step_max_srel t (x x' : list iv * list L) : srel x x' -> ordered (fst x) -> length (snd x) = length (fst x) ->
  out_rel (step_max N t (fst x) (Some (snd x))) (step_max N t (fst x') (Some (snd x'))).
Proof.
  intros hs ho hl. rewrite !step_max_eq by (try exact hl; apply (srel_lengths x x' hs hl)). apply finish_max_crel.
  destruct hs as [y|p a m b s pl l sl hp hs ham hmb]; cbn [fst snd] in *.
  - rewrite <- surjective_pairing. apply cx_eq.
  - apply cropmax_dup; try assumption. apply (ordered_app_tail p (a, b) s ho).
Qed.

(* ---------------------------------------------------------------------------------------- *)
(* adjust_intervals with both bounds given and labels supplied (as chord.evaluate calls it)    *)
(* ---------------------------------------------------------------------------------------- *)
Theorem adjust_srel tmin tmax (x x' : list iv * list L) : srel x x' -> ordered (fst x) -> length (snd x) = length (fst x) ->
  out_rel (adjust_intervals N N (fst x) (Some (snd x)) (Some tmin) (Some tmax))
          (adjust_intervals N N (fst x') (Some (snd x')) (Some tmin) (Some tmax)).
Proof.
  intros hs ho hl.
  destruct (fst x) as [|v0 r0] eqn:Ex.
  - (* the empty annotation cannot be cut *)
    assert (e : x' = x).
    { destruct hs as [y|p a m b s pl l sl]; [reflexivity|]. cbn [fst] in Ex. destruct p; discriminate. }
    rewrite e, Ex. cbn. eexists; eexists; eexists. split; [reflexivity|]. split; [reflexivity|apply sr_eq].
  - assert (hne' : fst x' <> []).
    { destruct hs as [y|p a m b s pl l sl]; cbn [fst] in *; [rewrite Ex; discriminate|destruct p; discriminate]. }
    rewrite <- Ex. rewrite !adjust_nonempty by (try exact hne'; rewrite Ex; discriminate). cbn [stage1 stage2].
    pose proof (step_min_srel tmin x x' hs) as h1. unfold out_rel in h1.
    destruct (step_min N tmin (fst x) (Some (snd x))) as [[o ol]|e] eqn:E1.
    + destruct h1 as (l & o' & l' & -> & -> & hs2). cbn [bind fst snd].
      assert (ho2 : ordered o).
      { rewrite <- Ex in ho. destruct (step_min_ordered N tmin (fst x) (Some (snd x)) o (Some l) (0, 0) ho E1) as [g _]. exact g. }
      assert (hl2 : length l = length o).
      { destruct (step_min_facts N tmin (fst x) (Some (snd x)) o (Some l) E1) as [g _]; [cbn; rewrite Ex; exact hl|exact g]. }
      apply (step_max_srel tmax (o, l) (o', l') hs2 ho2 hl2).
    + rewrite h1. reflexivity.
Qed.
End Blocks.

Print Assumptions adjust_srel.
