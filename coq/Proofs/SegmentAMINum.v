(* Numeric tie for the adjusted mutual information (formula `ami` of Proofs/SegmentAMI.v) with the float returned by
   mir_eval.segment.mutual_information, by the same reflection as Proofs/SegmentEntropyNum.v:
     N N! EMI  is an INTEGER combination of logarithms of integers (the weights k a! b! (N-a)! (N-b)! / (k! (a-k)! (b-k)! (N-a-b+k)!)
     are integers; the exact division is checked by multiplication, not proved), computed once per case (emi_chk), so
     AMI = evl (N! q_mi - L) / evl (N! q_hmax - L),   L = N N! EMI,
   is a quotient of two prime-logarithm normal forms, evaluated by `interval`.  Which entropy is the maximum is a side condition
   (tried both ways by the tactic; detected exactly when they are equal); a denominator that is exactly 0 (the implementation
   then returns nan: finding C01-ami-nan) is recognised exactly (st_ami_den0).
   Uses Reals + Interval. *)
From Coq Require Import List Arith Lia Reals Lra Bool ZArith PArith.
From ME Require Import Model.Prelude Model.SegmentCluster Proofs.SegmentClusterProps Proofs.SegmentEntropy Proofs.SegmentEntropyBounds.
From ME Require Import Proofs.SegmentEntropyNum Proofs.SegmentAMI.
From Interval Require Import Tactic.
Import ListNotations.
Local Open Scope R_scope.

(* ================================================================================================== *)
(* 1. factorials in Z and the integer weights                                                           *)
(* ================================================================================================== *)
Fixpoint zfact (n : nat) : Z := match n with O => 1%Z | S k => (Z.of_nat (S k) * zfact k)%Z end.
Lemma INR_fact n : INR (fact n) = IZR (zfact n).
Proof. induction n as [|n IH]; [reflexivity|]. change (fact (S n)) with (S n * fact n)%nat. rewrite mult_INR, IH.
  change (zfact (S n)) with (Z.of_nat (S n) * zfact n)%Z. rewrite mult_IZR, <- INR_IZR_INZ. reflexivity. Qed.
Lemma zfact_pos n : 0 < IZR (zfact n).
Proof. rewrite <- INR_fact. apply INR_fact_lt_0. Qed.

Definition w_num (N a b k : nat) : Z := (Z.of_nat k * (zfact a * zfact b * zfact (N - a) * zfact (N - b)))%Z.
Definition w_den (N a b k : nat) : Z := (zfact k * zfact (a - k) * zfact (b - k) * zfact (N + k - a - b))%Z.
(* an integer w with  w * w_den = w_num  is  k * P(k) * N! *)
Lemma w_hyp N a b k w : (w * w_den N a b k)%Z = w_num N a b k -> IZR w = INR k * hyp N a b k * INR (fact N).
Proof. intros H. apply (f_equal IZR) in H. unfold w_num, w_den in H. rewrite !mult_IZR in H.
  unfold hyp. rewrite !INR_fact, (INR_IZR_INZ k).
  assert (P1 := zfact_pos a). assert (P2 := zfact_pos b). assert (P3 := zfact_pos (N - a)). assert (P4 := zfact_pos (N - b)).
  assert (P5 := zfact_pos N). assert (P6 := zfact_pos k). assert (P7 := zfact_pos (a - k)). assert (P8 := zfact_pos (b - k)).
  assert (P9 := zfact_pos (N + k - a - b)).
  set (x := IZR w) in *. set (fa := IZR (zfact a)) in *. set (fb := IZR (zfact b)) in *. set (fNa := IZR (zfact (N - a))) in *.
  set (fNb := IZR (zfact (N - b))) in *. set (fN := IZR (zfact N)) in *. set (fk := IZR (zfact k)) in *. set (fak := IZR (zfact (a - k))) in *.
  set (fbk := IZR (zfact (b - k))) in *. set (fn := IZR (zfact (N + k - a - b))) in *. set (zk := IZR (Z.of_nat k)) in *.
  assert (D : 0 < fk * fak * fbk * fn) by (repeat apply Rmult_lt_0_compat; assumption).
  apply (Rmult_eq_reg_r (fk * fak * fbk * fn)); [|lra]. rewrite H. field. repeat split; lra. Qed.

(* ================================================================================================== *)
(* 2. N N! EMI, computed in one pass; the exact divisions are checked by multiplication                 *)
(* ================================================================================================== *)
Fixpoint osum (f : nat -> option lnf) (n : nat) : option lnf :=
  match n with
  | O => Some []
  | S k => match osum f k, f k with Some l, Some x => Some (l ++ x) | _, _ => None end
  end.
Definition oev (o : option lnf) : R := match o with Some x => evl x | None => 0 end.
Lemma evl_osum f n L : osum f n = Some L -> evl L = rsum (fun i => oev (f i)) n /\ forall i, (i < n)%nat -> f i <> None.
Proof. revert L. induction n as [|n IH]; intros L H; cbn [osum] in H.
  - inversion H. split; [reflexivity|intros i Hi; lia].
  - destruct (osum f n) as [l|] eqn:E1; [|discriminate]. destruct (f n) as [x|] eqn:E2; [|discriminate]. inversion H; subst L.
    destruct (IH l eq_refl) as [IH1 IH2]. split.
    + cbn [rsum]. rewrite evl_app, IH1, E2. reflexivity.
    + intros i Hi. destruct (Nat.eq_dec i n) as [->|Hne]; [rewrite E2; discriminate|apply IH2; lia]. Qed.

Definition term_chk (P : Z) (N a b k : nat) : option lnf :=
  let num := (Z.of_nat k * P)%Z in let den := w_den N a b k in let w := (num / den)%Z in
  if (w * den =? num)%Z then Some (tm w N ++ tm w k ++ tm (- w) a ++ tm (- w) b) else None.
Definition cell_chk (N a b : nat) : option lnf :=
  let P := (zfact a * zfact b * zfact (N - a) * zfact (N - b))%Z in
  osum (fun d => term_chk P N a b (emi_start N a b + d)) (emi_stop N a b - emi_start N a b).
Lemma cell_chk_ok N a b l : (0 < N)%nat -> cell_chk N a b = Some l -> emi_cell N a b = evl l / (INR N * INR (fact N)).
Proof. intros HN H. unfold cell_chk in H. cbv zeta in H. destruct (evl_osum _ _ _ H) as [E Hok]. rewrite E. clear E H.
  unfold emi_cell. rewrite <- rsum_div. apply rsum_ext. intros d Hd. specialize (Hok d Hd).
  set (k := (emi_start N a b + d)%nat) in *.
  assert (Hk : (1 <= k /\ k <= a /\ k <= b)%nat) by (unfold emi_start, emi_stop in *; lia).
  assert (PN : 0 < INR N) by (apply lt_0_INR; lia). assert (Pk : 0 < INR k) by (apply lt_0_INR; lia).
  assert (Pa : 0 < INR a) by (apply lt_0_INR; lia). assert (Pb : 0 < INR b) by (apply lt_0_INR; lia).
  assert (PF : 0 < INR (fact N)) by apply INR_fact_lt_0.
  unfold term_chk in *. cbv zeta in *.
  set (w := (Z.of_nat k * (zfact a * zfact b * zfact (N - a) * zfact (N - b)) / w_den N a b k)%Z) in *.
  destruct (Z.eqb_spec (w * w_den N a b k) (Z.of_nat k * (zfact a * zfact b * zfact (N - a) * zfact (N - b)))) as [Hw|_]; [|contradiction].
  cbn [oev]. unfold emi_term. rewrite (ln_mult _ _ PN Pk), (ln_mult _ _ Pa Pb). rewrite !evl_app, !evl_tm, opp_IZR, (w_hyp N a b k w Hw).
  cbn [evl]. field. lra. Qed.

(* the normal form of N N! EMI *)
Definition emi_chk (T : tabfn) (nr nc N : nat) : option lnf :=
  option_map nf (osum (fun i => osum (fun j => cell_chk N (ra T nc i) (cb T nr j)) nc) nr).
Lemma emi_q T nr nc N L : (0 < N)%nat -> emi_chk T nr nc N = Some L -> emi T nr nc N = evl L / (INR N * INR (fact N)).
Proof. intros HN H. unfold emi_chk in H. destruct (osum _ nr) as [L0|] eqn:E0; [|discriminate]. cbn [option_map] in H. inversion H; subst L. clear H.
  rewrite evl_nf. destruct (evl_osum _ _ _ E0) as [E Hok]. rewrite E. clear E E0.
  unfold emi. rewrite <- rsum_div. apply rsum_ext. intros i Hi. specialize (Hok i Hi). cbv beta in *.
  destruct (osum (fun j => cell_chk N (ra T nc i) (cb T nr j)) nc) as [Li|] eqn:Ei; [|contradiction]. cbn [oev].
  destruct (evl_osum _ _ _ Ei) as [E Hok']. rewrite E. clear E Ei Hok.
  rewrite <- rsum_div. apply rsum_ext. intros j Hj. specialize (Hok' j Hj). cbv beta in *.
  destruct (cell_chk N (ra T nc i) (cb T nr j)) as [l|] eqn:El; [|contradiction]. cbn [oev].
  apply (cell_chk_ok N _ _ l HN El). Qed.

(* ================================================================================================== *)
(* 3. AMI                                                                                               *)
(* ================================================================================================== *)
(* g = true: H(ref) is taken as the maximum; g = false: H(est) *)
Definition hmax_l (T : tabfn) (nr nc : nat) (g : bool) : lnf := if g then q_h T nr nc else q_h (swap T) nc nr.
Definition hdiff_l (T : tabfn) (nr nc : nat) (g : bool) : lnf :=
  if g then q_h T nr nc ++ scale (-1) (q_h (swap T) nc nr) else q_h (swap T) nc nr ++ scale (-1) (q_h T nr nc).
(* L : the normal form of N N! EMI *)
Definition ami_num_l (L : lnf) (T : tabfn) (nr nc : nat) : lnf := scale (zfact (tot T nr nc)) (q_mi T nr nc) ++ scale (-1) L.
Definition ami_den_l (L : lnf) (T : tabfn) (nr nc : nat) (g : bool) : lnf := scale (zfact (tot T nr nc)) (hmax_l T nr nc g) ++ scale (-1) L.
Definition ami_e (L : lnf) (T : tabfn) (nr nc : nat) (g : bool) : rexp :=
  if nmi_special nr nc then EZ 1
  else let nu := lexp (ami_num_l L T nr nc) in if is0 nu then EZ 0 else EDiv nu (lexp (ami_den_l L T nr nc g)).
Definition hmax_side (T : tabfn) (nr nc : nat) (g : bool) : list (rexp * rexp) :=
  let d := lexp (hdiff_l T nr nc g) in if is0 d then [] else [(EZ 0, d)].
Definition ami_side (L : lnf) (T : tabfn) (nr nc : nat) (g : bool) : list (rexp * rexp) :=
  if nmi_special nr nc then [] else (EZ 0, lexp (ami_den_l L T nr nc g)) :: hmax_side T nr nc g.

Lemma hmax_q T nr nc g : (0 < tot T nr nc)%nat -> sides (hmax_side T nr nc g) ->
  Rmax (entropy (rcount T nc) nr (tot T nr nc)) (entropy (ccount T nr) nc (tot T nr nc)) = evl (hmax_l T nr nc g) / INR (tot T nr nc).
Proof. intros HN HS. assert (HN' : (0 < tot (swap T) nc nr)%nat) by (rewrite tot_swap; exact HN).
  change (rcount T nc) with (fun i => nsumf (fun j => T i j) nc). change (ccount T nr) with (fun j => nsumf (fun i => T i j) nr).
  rewrite entropy_rows, entropy_cols by lia. rewrite (hrow_q T nr nc HN), (hrow_q (swap T) nc nr HN'), tot_swap.
  set (N := INR (tot T nr nc)). assert (PN : 0 < N) by (apply lt_0_INR; exact HN). assert (PI : 0 < / N) by (apply Rinv_0_lt_compat; exact PN).
  set (h1 := evl (q_h T nr nc)) in *. set (h2 := evl (q_h (swap T) nc nr)) in *.
  assert (Ed : ev (lexp (hdiff_l T nr nc g)) = if g then h1 - h2 else h2 - h1).
  { rewrite ev_lexp. unfold hdiff_l. destruct g; rewrite evl_app, evl_scale; fold h1 h2; lra. }
  unfold hmax_side in HS. cbv zeta in HS. destruct (is0 (lexp (hdiff_l T nr nc g))) eqn:Ez.
  - apply is0_ev in Ez. rewrite Ed in Ez. unfold hmax_l. destruct g; fold h1 h2.
    + replace h2 with h1 by lra. apply Rmax_left. lra.
    + replace h1 with h2 by lra. apply Rmax_left. lra.
  - cbn [sides fst snd ev] in HS. destruct HS as [HS _]. rewrite Ed in HS. unfold hmax_l. destruct g; fold h1 h2.
    + apply Rmax_left. unfold Rdiv. apply Rmult_le_compat_r; lra.
    + apply Rmax_right. unfold Rdiv. apply Rmult_le_compat_r; lra. Qed.

Theorem ami_e_ok L T nr nc g : (0 < tot T nr nc)%nat -> emi_chk T nr nc (tot T nr nc) = Some L -> sides (ami_side L T nr nc g) ->
  ami T nr nc (tot T nr nc) = ev (ami_e L T nr nc g).
Proof. intros HN Hok HS. unfold ami, ami_e, ami_side, nmi_special in *. destruct (_ || _)%bool; [reflexivity|]. cbv zeta.
  cbn [sides fst snd ev] in HS. destruct HS as [HD HS].
  rewrite (hmax_q T nr nc g HN HS), (mi_q T nr nc HN), (emi_q T nr nc _ L HN Hok).
  rewrite ev_lexp in HD. unfold ami_den_l in HD. rewrite evl_app, !evl_scale in HD.
  assert (En : ev (lexp (ami_num_l L T nr nc)) = IZR (zfact (tot T nr nc)) * evl (q_mi T nr nc) - evl L).
  { rewrite ev_lexp. unfold ami_num_l. rewrite evl_app, !evl_scale. lra. }
  rewrite INR_fact. set (N := INR (tot T nr nc)) in *. assert (PN : 0 < N) by (apply lt_0_INR; exact HN).
  assert (PF := zfact_pos (tot T nr nc)). set (F := IZR (zfact (tot T nr nc))) in *.
  set (A := evl (q_mi T nr nc)) in *. set (E := evl L) in *. set (Hm := evl (hmax_l T nr nc g)) in *.
  assert (Eq : (A / N - E / (N * F)) / (Hm / N - E / (N * F)) = (F * A - E) / (F * Hm + IZR (-1) * E)).
  { replace (IZR (-1)) with (-1) by reflexivity. field. repeat split; lra. }
  rewrite Eq. clear Eq.
  destruct (is0 (lexp (ami_num_l L T nr nc))) eqn:Ez.
  - apply is0_ev in Ez. rewrite En in Ez. rewrite Ez. cbn [ev]. unfold Rdiv. ring.
  - cbn [ev]. rewrite En, ev_lexp. unfold ami_den_l. rewrite evl_app, !evl_scale. reflexivity. Qed.

(* the denominator of AMI is exactly 0 (0/0 or x/0 in the implementation) *)
Theorem ami_den0_ok L T nr nc g : (0 < tot T nr nc)%nat -> emi_chk T nr nc (tot T nr nc) = Some L -> sides (hmax_side T nr nc g) ->
  is0 (lexp (ami_den_l L T nr nc g)) = true ->
  Rmax (entropy (rcount T nc) nr (tot T nr nc)) (entropy (ccount T nr) nc (tot T nr nc)) - emi T nr nc (tot T nr nc) = 0.
Proof. intros HN Hok HS Hz. rewrite (hmax_q T nr nc g HN HS), (emi_q T nr nc _ L HN Hok). apply is0_ev in Hz. rewrite ev_lexp in Hz.
  unfold ami_den_l in Hz. rewrite evl_app, !evl_scale in Hz. rewrite INR_fact.
  set (N := INR (tot T nr nc)) in *. assert (PN : 0 < N) by (apply lt_0_INR; exact HN).
  assert (PF := zfact_pos (tot T nr nc)). set (F := IZR (zfact (tot T nr nc))) in *.
  replace (IZR (-1)) with (-1) in Hz by reflexivity.
  replace (evl L) with (F * evl (hmax_l T nr nc g)) by lra. field. split; lra. Qed.

(* ================================================================================================== *)
(* 4. statements and tactic                                                                             *)
(* ================================================================================================== *)
Definition ami_goal (L : lnf) (T : tabfn) (nr nc : nat) (tol v : R) : Prop :=
  exists g, sides (ami_side L T nr nc g) /\ close tol (ev (ami_e L T nr nc g)) v.
Lemma ami_close1 T nr nc N L v tol : (0 <? N)%nat = true -> tot T nr nc = N -> emi_chk T nr nc N = Some L ->
  ami_goal L T nr nc tol v -> close tol (ami T nr nc N) v.
Proof. intros HN <- Hok (g & HS & H). apply Nat.ltb_lt in HN. rewrite (ami_e_ok L T nr nc g) by assumption. exact H. Qed.
Lemma ami_close2 g L T nr nc s e v tol : ami_side L T nr nc g = s -> sides s -> ami_e L T nr nc g = e -> close tol (ev e) v ->
  ami_goal L T nr nc tol v.
Proof. intros <- HS <- H. exists g. split; assumption. Qed.
Definition den0_goal (L : lnf) (T : tabfn) (nr nc : nat) : Prop :=
  exists g, sides (hmax_side T nr nc g) /\ is0 (lexp (ami_den_l L T nr nc g)) = true.
Lemma den0_close1 T nr nc N L : (0 <? N)%nat = true -> tot T nr nc = N -> emi_chk T nr nc N = Some L -> den0_goal L T nr nc ->
  Rmax (entropy (rcount T nc) nr N) (entropy (ccount T nr) nc N) - emi T nr nc N = 0.
Proof. intros HN <- Hok (g & HS & Hz). apply Nat.ltb_lt in HN. apply (ami_den0_ok L T nr nc g); assumption. Qed.
Lemma den0_close2 g L T nr nc s : hmax_side T nr nc g = s -> sides s -> is0 (lexp (ami_den_l L T nr nc g)) = true -> den0_goal L T nr nc.
Proof. intros <- HS Hz. exists g. split; assumption. Qed.

Section CaseStatement.
Variables (yr ye : list nat).
Let T : tabfn := tab_fn (contingency_tab yr ye).
Let nr := length (uniq yr).
Let nc := length (uniq ye).
Let N := length yr.
Definition st_ami (tol v : R) : Prop := close tol (ami T nr nc N) v.
Definition st_ami_den0 : Prop :=
  nmi_special nr nc = false /\ Rmax (entropy (rcount T nc) nr N) (entropy (ccount T nr) nc N) - emi T nr nc N = 0.
End CaseStatement.

Ltac ami_g g := eapply (ami_close2 g); [num_eq|num_sides|num_eq|num_final].
Ltac den0_g g := eapply (den0_close2 g); [num_eq|num_sides|num_eq].
Ltac seg_ami :=
  lazymatch goal with
  | |- st_ami _ _ _ _ => unfold st_ami; eapply ami_close1; [num_eq|num_eq|num_eq|first [ami_g true | ami_g false]]
  | |- st_ami_den0 _ _ => unfold st_ami_den0; split; [vm_compute; reflexivity | eapply den0_close1; [num_eq|num_eq|num_eq|first [den0_g true | den0_g false]]]
  end.

(* examples *)
Example ex_ami : st_ami [0; 0; 1; 1; 2; 2; 2]%nat [0; 1; 1; 1; 0; 0; 1]%nat (1 / 10 ^ 7) (IZR (-898661552289487) / IZR 72057594037927936).
Proof. seg_ami. Qed.
Example ex_ami_den0 : st_ami_den0 [0; 1; 2; 3]%nat [0; 1; 2; 3]%nat.
Proof. seg_ami. Qed.

Print Assumptions ami_e_ok.
Print Assumptions ami_den0_ok.
