(* Numeric cores of mir_eval/segment.py tied to the hand-written model by TRANSLATION (translator/corefuncs.py ->
   Gen/CoreFuncsGen.v, programs of the Python / NumPy / SciPy sub-language of Model/SegExp.v, regenerated on every check).
   For ALL index sequences (lists of nat) this file proves that running the generated program gives what the model gives,
   including which exception is raised:
     contingency_matrix_tie      segment._contingency_matrix  = SegmentCluster.contingency   (np.unique(return_inverse), the
                                 coo_matrix(...).toarray() duplicate summation, ValueError on unequal lengths)
     adjusted_rand_index_tie     segment._adjusted_rand_index = SegmentCluster.ari_idx       (limit cases; the three sums of
                                 scipy.special.comb(n, 2, exact=1) as PYTHON ints over the margins and the cells; the two
                                 Python divisions with their ZeroDivisionError; the final formula), callee _contingency_matrix
                                 = the model's (closed by contingency_matrix_tie)
     entropy_tie                 segment._entropy = [entropy_val]: 1.0 (a Python float) for an empty labelling, else the TERM
                                 - sum_c (c / N) * (log c - log N) over the positive class counts c (np.bincount of the
                                 np.unique inverse, pi[pi > 0]), N their sum; log is the uninterpreted [FLog]
     pos_counts_class_counts     those counts are SegmentCluster.class_counts (the class sizes, all positive)
     mutual_info_score_tab_tie   segment._mutual_info_score(.., contingency=table) = [mi_val]: over the NON-ZERO cells in
                                 row-major order, c/N * (log c - log N) + c/N * (-log (pi_i * pj_j) + log (sum pi) + log (sum pj)),
                                 the shape in which Proofs/SegmentEntropy.v states mi_cell / mi (which cells enter, the
                                 un-normalised count under the first log, N = np.sum(contingency))
     mutual_info_score_tie       the same with contingency=None (table from _contingency_matrix, ValueError on unequal lengths)
   Callees are bound through the signatures read from the source in the same run (core_sigs).  The *_tie_gen theorems hold for every
   [ext] that answers _contingency_matrix as the model does ([ext_ok]); *_tie instantiate it by the model ([core_ext]), *_tie_prog by
   the TRANSLATED _contingency_matrix itself ([prog_ext], through contingency_matrix_tie), so the chain
   _adjusted_rand_index / _mutual_info_score -> _contingency_matrix is closed over the generated programs.
   Proofs/CoreFuncsAmiTie.v: the summation limits of the AMI; Proofs/CoreFuncsSegR.v: the float terms read in R = SegmentEntropy.mi / entropy. *)
From Coq Require Import String.
From Coq Require Import List Bool Arith ZArith QArith Lia Lqa.
From ME Require Import Model.Prelude Model.SegExp Gen.CoreFuncsGen.
From ME Require Model.SegmentCluster Proofs.SegmentClusterProps.
Import ListNotations.
Open Scope Q_scope.
Module SP := ME.Proofs.SegmentClusterProps.

Definition core_sigs : list (string * option sigv) := sigs_of (fun_params core_funs).
Definition lift_tab (c : nat) (r : res (list (list nat))) : out sv :=
  match r with Ok m => OK (VNss c m) | Raise e => EXN e end.
Local Open Scope string_scope.
Definition core_ext (f : string) (vs : list sv) : out sv :=
  if f =? "_contingency_matrix" then
    match vs with [VNs a; VNs b] => lift_tab (length (SC.uniq b)) (SC.contingency a b) | _ => UNM end
  else UNM.
Local Close Scope string_scope.
(* a run with the callees given by [ext]; [run] = the callee _contingency_matrix is the model's function *)
Definition runx (ext : string -> list sv -> out sv) (f : fdef) (args : list sv) : out sv := run_fun core_sigs ext f args.
Definition run (f : fdef) (args : list sv) : out sv := runx core_ext f args.
(* what the ties need of the callees: _contingency_matrix answers as the model does on index arrays *)
Definition ext_ok (ext : string -> list sv -> out sv) : Prop :=
  forall a b, ext "_contingency_matrix"%string [VNs a; VNs b] = lift_tab (length (SC.uniq b)) (SC.contingency a b).

Lemma zn_eqb a b : (Z.of_nat a =? Z.of_nat b)%Z = Nat.eqb a b.
Proof. destruct (Nat.eqb a b) eqn:E; [apply Nat.eqb_eq in E; subst; apply Z.eqb_refl|]. apply Nat.eqb_neq in E. apply Z.eqb_neq. lia. Qed.
Lemma zleb0 n : (0 <=? Z.of_nat n)%Z = true. Proof. apply Z.leb_le. lia. Qed.
Lemma zltb0 n : (Z.of_nat n <? 0)%Z = false. Proof. apply Z.ltb_ge. lia. Qed.
Lemma mapo_ones n : mapo nat_of_fl (repeat (FQ 1) n) = Some (repeat 1%nat n).
Proof. induction n as [|n IH]; [reflexivity|]. cbn [repeat mapo]. rewrite IH. reflexivity. Qed.
Lemma coo_cell_ones i j : forall z k, coo_cell i j (repeat 1%nat (length z + k)) z = SC.count_pair i j z.
Proof.
  induction z as [|[r c] z IH]; intros k.
  - cbn [length Nat.add]. destruct k; reflexivity.
  - cbn [length Nat.add repeat coo_cell]. rewrite IH. unfold SC.count_pair. cbn [filter fst snd].
    destruct ((r =? i)%nat && (c =? j)%nat); reflexivity.
Qed.
Lemma class_idx_lt U x : In x U -> (SC.class_idx U x < length U)%nat.
Proof.
  induction U as [|u U IH]; intros H; [destruct H|].
  destruct (Nat.eq_dec x u) as [->|Hn].
  - rewrite SP.class_idx_cons_eq. cbn [length]. lia.
  - rewrite SP.class_idx_cons_neq by exact Hn. cbn [length]. destruct H as [H|H]; [congruence|]. specialize (IH H). lia.
Qed.
Lemma class_range y : forallb (fun r => (r <? length (SC.uniq y))%nat) (map (SC.class_idx (SC.uniq y)) y) = true.
Proof.
  apply forallb_forall. intros r Hr. apply in_map_iff in Hr. destruct Hr as [x [<- Hx]].
  apply Nat.ltb_lt. apply class_idx_lt. apply SP.In_uniq. exact Hx.
Qed.

Theorem contingency_matrix_tie : forall ext yr ye,
  runx ext gen_contingency_matrix [VNs yr; VNs ye] = lift_tab (length (SC.uniq ye)) (SC.contingency yr ye).
Proof.
  intros. unfold runx, run_fun. cbn. rewrite zleb0, Nat2Z.id. cbn. rewrite !zltb0. cbn [orb]. rewrite mapo_ones, !Nat2Z.id.
  unfold coo_toarray, SC.contingency. rewrite repeat_length, !map_length, Nat.eqb_refl. cbn [andb].
  destruct (length yr =? length ye)%nat eqn:E; cbn [negb]; [|reflexivity].
  rewrite !class_range. cbn [andb negb obind lift_e lift_tab]. unfold SC.contingency_tab.
  apply Nat.eqb_eq in E. do 2 f_equal.
  apply map_ext. intros i. apply map_ext. intros j.
  replace (length yr) with (length (combine (map (SC.class_idx (SC.uniq yr)) yr) (map (SC.class_idx (SC.uniq ye)) ye)) + 0)%nat
    by (rewrite combine_length, !map_length, <- E, Nat.min_id; lia).
  apply coo_cell_ones.
Qed.

Lemma rb_cons f s r en : run_block f (s :: r) en = match f s en with SNorm en' => run_block f r en' | o => o end.
Proof. reflexivity. Qed.
Lemma rb_nil f en : run_block f [] en = SNorm en. Proof. reflexivity. Qed.
Lemma sig_cont : lookup_sig core_sigs "_contingency_matrix" = Some [("reference_indices"%string, None); ("estimated_indices"%string, None)].
Proof. reflexivity. Qed.
Arguments core_ext : simpl never.
Arguments SC.comb2 : simpl never.
Arguments SC.nsum : simpl never.
Arguments SC.uniq : simpl never.
Arguments SC.contingency_tab : simpl never.
Ltac open_fun g :=
  unfold run, runx, run_fun, exec_block;
  (let b := eval cbv [f_body g] in (f_body g) in change (f_body g) with b);
  (let p := eval cbv [f_params g length] in (length (f_params g)) in change (length (f_params g)) with p);
  cbn [length Nat.eqb];
  match goal with |- context [init_env ?f ?a] => let e := eval cbn in (init_env f a) in change (init_env f a) with e end.
Ltac step :=
  rewrite rb_cons;
  match goal with |- context [exec ?sg ?ex ?s ?en] => let t := eval cbn in (exec sg ex s en) in change (exec sg ex s en) with t end; cbv beta iota.


Lemma ext_cont a b : core_ext "_contingency_matrix" [VNs a; VNs b] = lift_tab (length (SC.uniq b)) (SC.contingency a b).
Proof. reflexivity. Qed.
Lemma comb2_Z k : (Z.of_nat k * (Z.of_nat k - 1) / 2)%Z = Z.of_nat (SC.comb2 k).
Proof.
  unfold SC.comb2. rewrite Nat2Z.inj_div, Nat2Z.inj_mul. destruct k as [|k]; [reflexivity|].
  rewrite Nat2Z.inj_sub by lia. reflexivity.
Qed.
Lemma py_sum_comb (F : sv -> out sv) :
  (forall k, F (VInt false (Z.of_nat k)) = OK (VInt true (Z.of_nat (SC.comb2 k)))) ->
  forall l acc, py_sum (VInt true acc) (map F (map (fun k => VInt false (Z.of_nat k)) l))
                = OK (VInt true (acc + Z.of_nat (SC.nsum (map SC.comb2 l)))).
Proof.
  intros HF. induction l as [|k l IH]; intros acc.
  - cbn. rewrite Z.add_0_r. reflexivity.
  - cbn [map py_sum]. rewrite HF. cbn [obind bin_op andb]. rewrite IH. do 2 f_equal.
    unfold SC.nsum. cbn [map fold_right]. rewrite Nat2Z.inj_add. lia.
Qed.
Ltac sum_step :=
  step; erewrite py_sum_comb by (intros; cbn; rewrite zltb0; rewrite comb2_Z; reflexivity); cbn [lift_e set1 update String.eqb Ascii.eqb Bool.eqb option_map]; cbv beta iota.


Lemma qeqb_nat0 k : qeqb (inject_Z (Z.of_nat k)) 0 = (k =? 0)%nat.
Proof.
  destruct k as [|k]; [reflexivity|]. cbn [Nat.eqb]. apply SP.qeqb_false. intros H.
  assert (H' : SC.nQ (S k) == SC.nQ 0) by exact H. apply SP.nQ_inj in H'. discriminate.
Qed.
Definition out_q (o : out sv) (r : res Q) : Prop :=
  match o, r with OK (VFlt true (FQ q)), Ok q' => q == q' | EXN e, Raise e' => e = e' | _, _ => False end.

Theorem adjusted_rand_index_tie_gen : forall ext, ext_ok ext -> forall yr ye,
  out_q (runx ext gen_adjusted_rand_index [VNs yr; VNs ye]) (SC.ari_idx yr ye).
Proof.
  intros ext Hext yr ye. open_fun gen_adjusted_rand_index. unfold SC.ari_idx.
  step. step. step.
  rewrite rb_cons.
  match goal with |- context [exec ?sg ?ex ?s ?en] =>
    assert (Hif : exec sg ex s en = if SC.ari_special (length yr) (length (SC.uniq yr)) (length (SC.uniq ye)) then SRet (VFlt true (FQ 1)) else SNorm en) end.
  { cbn. rewrite !zn_eqb. unfold SC.ari_special.
    change 1%Z with (Z.of_nat 1). change 0%Z with (Z.of_nat 0). rewrite !zn_eqb.
    destruct (length (SC.uniq yr) =? length (SC.uniq ye))%nat; destruct (length (SC.uniq ye) =? 1)%nat;
      destruct (length (SC.uniq ye) =? 0)%nat; destruct (length (SC.uniq ye) =? length yr)%nat; reflexivity. }
  rewrite Hif. clear Hif.
  destruct (SC.ari_special _ _ _) eqn:Esp; [cbn; reflexivity|].
  step. rewrite (Hext _ _). unfold SC.contingency. destruct (length yr =? length ye)%nat eqn:Elen; cbn [lift_tab lift_e bind]; cbv beta iota;
    [|cbn; reflexivity].
  sum_step. sum_step. sum_step. rewrite !Z.add_0_l.
  set (A := SC.nsum (map SC.comb2 (SC.row_sums (SC.contingency_tab yr ye)))).
  set (B := SC.nsum (map SC.comb2 (SC.col_sums (length (SC.uniq ye)) (SC.contingency_tab yr ye)))).
  set (M := SC.nsum (map SC.comb2 (concat (SC.contingency_tab yr ye)))).
  step. rewrite zltb0, comb2_Z. cbn [obind fl_of_scalar andb]. rewrite qeqb_nat0.
  destruct (SC.comb2 (length yr) =? 0)%nat eqn:Ec; [cbn; reflexivity|].
  unfold fdiv. rewrite qeqb_nat0, Ec. cbn [lift_e]; cbv beta iota.
  step. step.
  (* the program and the model may associate / commute the integer arithmetic differently: compare up to == *)
  match goal with
  | |- out_q (match match lift_e (if qeqb ?d 0 then _ else _) _ with _ => _ end with _ => _ end) (if qeqb ?d' 0 then _ else _) =>
      assert (HD : d == d') by (unfold SC.nQ, Qdiv; rewrite ?Nat2Z.inj_mul, ?Nat2Z.inj_add, ?inject_Z_mult, ?inject_Z_plus; ring);
      rewrite (SP.qeqb_compat d d' 0 0 HD (Qeq_refl 0)); destruct (qeqb d' 0); cbn; [reflexivity|]
  end.
  match goal with
  | |- ?x / ?d == ?x' / ?d' =>
      assert (HD2 : d == d') by (unfold SC.nQ, Qdiv; rewrite ?Nat2Z.inj_mul, ?Nat2Z.inj_add, ?inject_Z_mult, ?inject_Z_plus; ring);
      assert (HX : x == x') by (unfold SC.nQ, Qdiv; rewrite ?Nat2Z.inj_mul, ?Nat2Z.inj_add, ?inject_Z_mult, ?inject_Z_plus; ring);
      rewrite HD2, HX; reflexivity
  end.
Qed.
Theorem adjusted_rand_index_tie : forall yr ye,
  out_q (run gen_adjusted_rand_index [VNs yr; VNs ye]) (SC.ari_idx yr ye).
Proof. exact (adjusted_rand_index_tie_gen core_ext ext_cont). Qed.
Print Assumptions adjusted_rand_index_tie.

(* ================================================================== _entropy *)
Definition qsumr (l : list Q) : Q := fold_right Qplus 0 l.
Lemma fsum_FQ {A} (g : A -> Q) l : fsum (map (fun x => FQ (g x)) l) = FQ (qsumr (map g l)).
Proof. induction l as [|x l IH]; [reflexivity|]. unfold fsum in *. cbn [map fold_right]. rewrite IH. reflexivity. Qed.
Lemma fsum_fnat l : fsum (map fnat l) = FQ (qsumr (map nQ l)).
Proof. apply (fsum_FQ nQ). Qed.
Lemma mapo_fq_fnat l : mapo fq_of (map fnat l) = Some (map nQ l).
Proof. induction l as [|x l IH]; [reflexivity|]. cbn [map mapo fq_of fnat]. cbn [map mapo] in IH. rewrite IH. reflexivity. Qed.
Lemma vselect_map {A B} (p : A -> bool) (f : A -> B) l : vselect (map p l) (map f l) = map f (filter p l).
Proof. induction l as [|x l IH]; [reflexivity|]. cbn [map vselect filter]. destruct (p x); cbn [map]; rewrite IH; reflexivity. Qed.
Lemma mapo_map_some {A B C} (f : A -> B) (g : B -> option C) (h : A -> C) l :
  (forall x, In x l -> g (f x) = Some (h x)) -> mapo g (map f l) = Some (map h l).
Proof.
  induction l as [|x l IH]; intros H; [reflexivity|]. cbn [map mapo]. rewrite (H x (or_introl eq_refl)), IH; [reflexivity|].
  intros y Hy. apply H. right. exact Hy.
Qed.
Lemma combine_map_same {A B C} (f : A -> B) (g : A -> C) l : combine (map f l) (map g l) = map (fun x => (f x, g x)) l.
Proof. induction l as [|x l IH]; [reflexivity|]. cbn [map combine]. rewrite IH. reflexivity. Qed.

(* the positive class counts, as the code obtains them: np.bincount of the inverse of np.unique, then pi[pi > 0] *)
Definition pos_counts (y : list nat) : list nat :=
  filter (fun c => (0 <? c)%nat) (bincount (map (SC.class_idx (SC.uniq y)) y)).
(* _entropy as a float term: 1.0 for an empty labelling, else  - sum_c (c / N) * (log c - log N) *)
Definition entropy_cell (N : Q) (c : nat) : fl := FMul (FQ (nQ c / N)) (FSub (FLog (fnat c)) (FLog (FQ N))).
Definition entropy_val (y : list nat) : sv :=
  if (length y =? 0)%nat then VFlt true (FQ 1)
  else let N := qsumr (map nQ (pos_counts y)) in VFlt false (fneg (fsum (map (entropy_cell N) (pos_counts y)))).

Lemma qltb_0_nQ c : qltb 0 (nQ c) = (0 <? c)%nat.
Proof.
  destruct c as [|c]; [reflexivity|]. cbn [Nat.ltb Nat.leb]. apply SP.qltb_iff. apply (SP.nQ_pos (S c)). lia.
Qed.
Lemma qsumr_pos l : (forall c, In c l -> (0 < c)%nat) -> l <> [] -> ~ qsumr (map nQ l) == 0.
Proof.
  intros H Hne. destruct l as [|c l]; [congruence|]. cbn [map qsumr fold_right].
  assert (Hc : 0 < nQ c) by (apply (SP.nQ_pos c), H; left; reflexivity).
  assert (Hr : 0 <= fold_right Qplus 0 (map nQ l)).
  { clear. induction l as [|x l IH]; cbn [map fold_right]; [lra|]. assert (0 <= nQ x) by apply (SP.nQ_nonneg x). lra. }
  lra.
Qed.

Lemma zn_eqb0 a : (Z.of_nat a =? 0)%Z = Nat.eqb a 0. Proof. exact (zn_eqb a 0). Qed.
Ltac step_open := rewrite rb_cons; match goal with |- context [run_block ?f ?r] => let K := fresh "K" in let HK := fresh "HK" in remember (run_block f r) as K eqn:HK end; cbn.
Ltac step_close := match goal with HK : ?K = run_block _ _ |- _ => subst K end; cbv beta iota.
Theorem entropy_tie : forall ext y, runx ext gen_entropy [VNs y] = OK (entropy_val y).
Proof.
  intros. open_fun gen_entropy. unfold entropy_val.
  step. rewrite zn_eqb0.
  destruct (length y =? 0)%nat eqn:E0; cbn [truth lift_e]; cbv beta iota; [reflexivity|].
  rewrite rb_nil; cbv beta iota. step_open. change (Pos.to_nat 1) with 1%nat. cbn. step_close. step. step_open. rewrite mapo_fq_fnat. cbn. rewrite !map_length, Nat.eqb_refl.
  rewrite map_map. rewrite (map_ext _ (fun c => (0 <? c)%nat)) by (intros; apply qltb_0_nQ). rewrite vselect_map.
  fold (pos_counts y). cbn [lift_e]. step_close.
  step. rewrite fsum_fnat. set (N := qsumr (map nQ (pos_counts y))).
  step_open.
  assert (HN : forall c, In c (pos_counts y) -> qeqb N 0 = false).
  { intros c Hc. apply SP.qeqb_false. apply qsumr_pos.
    - intros d Hd. apply filter_In in Hd. destruct Hd as [_ Hd]. apply Nat.ltb_lt in Hd. exact Hd.
    - intros Hn. rewrite Hn in Hc. destruct Hc. }
  rewrite (mapo_map_some fnat _ (fun c => FQ (nQ c / N))) by (intros c Hc; rewrite (HN c Hc); reflexivity).
  rewrite map_map. rewrite (mapo_map_some (fun c => FLog (fnat c)) _ (fun c => FSub (FLog (fnat c)) (FLog (FQ N)))) by reflexivity.
  cbn [obind bin_op]. rewrite !map_length, Nat.eqb_refl, combine_map_same.
  rewrite (mapo_map_some _ _ (entropy_cell N)) by reflexivity.
  cbn [obind neg_op lift_e]. step_close. reflexivity.
Qed.
Print Assumptions entropy_tie.


(* ================================================================== _mutual_info_score *)
Definition rowQ (tab : list (list nat)) : list Q := map (fun r => qsumr (map nQ r)) tab.
Definition colQ (c : nat) (tab : list (list nat)) : list Q :=
  map (fun j => qsumr (map (fun r => nQ (nth j r 0%nat)) tab)) (seq 0 c).
Definition mi_cell (N sa sb : Q) (n : nat) (o : Q) : fl :=
  FAdd (FMul (FQ (nQ n / N)) (FSub (FLog (fnat n)) (FLog (FQ N))))
       (FMul (FQ (nQ n / N)) (FAdd (FAdd (FNeg (FLog (FQ o))) (FLog (FQ sa))) (FLog (FQ sb)))).
Definition mi_sel (c : nat) (tab : list (list nat)) : list (nat * Q) :=
  filter (fun p => negb (fst p =? 0)%nat)
         (combine (concat tab) (concat (map (fun a => map (fun b => a * b) (colQ c tab)) (rowQ tab)))).
Definition mi_val (c : nat) (tab : list (list nat)) : fl :=
  fsum (map (fun p => mi_cell (qsumr (map nQ (concat tab))) (qsumr (rowQ tab)) (qsumr (colQ c tab)) (fst p) (snd p))
            (mi_sel c tab)).
Definition rect (c : nat) (tab : list (list nat)) : Prop := Forall (fun r => length r = c) tab.

Lemma concat_map_map {A B} (f : A -> B) m : concat (map (map f) m) = map f (concat m).
Proof. symmetry. apply concat_map. Qed.
Lemma mapo_mapo_fnat m : mapo (mapo fq_of) (map (map fnat) m) = Some (map (map nQ) m).
Proof. induction m as [|r m IH]; [reflexivity|]. cbn [map mapo]. rewrite mapo_fq_fnat. cbn [map mapo] in IH. rewrite IH. reflexivity. Qed.
Lemma rowF tab : map fsum (map (map fnat) tab) = map FQ (rowQ tab).
Proof. unfold rowQ. rewrite !map_map. apply map_ext. intros r. apply fsum_fnat. Qed.
Lemma colF c tab : col_sums_f c (map (map fnat) tab) = map FQ (colQ c tab).
Proof.
  unfold col_sums_f, colQ. rewrite map_map. apply map_ext. intros j. rewrite map_map.
  rewrite (map_ext _ (fun r => FQ (nQ (nth j r 0%nat)))) by (intros r; change (FQ 0) with (fnat 0); apply map_nth).
  apply (fsum_FQ (fun r => nQ (nth j r 0%nat))).
Qed.
Lemma fsum_map_FQ l : fsum (map FQ l) = FQ (qsumr l).
Proof. rewrite <- (map_id l) at 2. apply (fsum_FQ (fun x => x)). Qed.


Lemma outerF pi pj : map (fun x => map (fun y => fmul x y) (map FQ pj)) (map FQ pi)
                     = map (map FQ) (map (fun a => map (fun b => a * b) pj) pi).
Proof. rewrite !map_map. apply map_ext. intros x. rewrite !map_map. reflexivity. Qed.
Lemma maskF tab : map (map (fun x => negb (qeqb x 0))) (map (map nQ) tab) = map (map (fun n => negb (n =? 0)%nat)) tab.
Proof. rewrite map_map. apply map_ext. intros r. rewrite map_map. apply map_ext. intros n. f_equal. apply qeqb_nat0. Qed.
Lemma colQ_length c tab : length (colQ c tab) = c.
Proof. unfold colQ. rewrite map_length. apply seq_length. Qed.
Lemma concat_rect_length {A} c (m : list (list A)) : Forall (fun r => length r = c) m -> length (concat m) = (length m * c)%nat.
Proof. induction 1 as [|r m Hr _ IH]; [reflexivity|]. cbn [concat length]. rewrite app_length, IH, Hr. lia. Qed.
Lemma os_length c tab : rect c tab ->
  length (concat tab) = length (concat (map (fun a => map (fun b => a * b) (colQ c tab)) (rowQ tab))).
Proof.
  intros H. rewrite (concat_rect_length c tab H).
  rewrite (concat_rect_length c).
  - unfold rowQ. rewrite !map_length. reflexivity.
  - apply Forall_forall. intros r Hr. apply in_map_iff in Hr. destruct Hr as [x [<- _]]. rewrite map_length. apply colQ_length.
Qed.
Lemma sel_fst {A B} (p : A -> bool) : forall (cs : list A) (os : list B), length cs = length os ->
  filter p cs = map fst (filter (fun q => p (fst q)) (combine cs os)).
Proof.
  induction cs as [|x cs IH]; intros [|o os] H; try discriminate; [reflexivity|].
  cbn [combine filter fst]. destruct (p x); cbn [map fst]; rewrite (IH os) by (cbn in H; lia); reflexivity.
Qed.
Lemma sel_snd {A B} (p : A -> bool) : forall (cs : list A) (os : list B), length cs = length os ->
  vselect (map p cs) os = map snd (filter (fun q => p (fst q)) (combine cs os)).
Proof.
  induction cs as [|x cs IH]; intros [|o os] H; try discriminate; [reflexivity|].
  cbn [combine filter fst map vselect]. destruct (p x); cbn [map snd]; rewrite (IH os) by (cbn in H; lia); reflexivity.
Qed.
Lemma vselect_map_r {A B} (f : A -> B) : forall m l, vselect m (map f l) = map f (vselect m l).
Proof. induction m as [|b m IH]; intros [|x l]; try reflexivity. cbn [map vselect]. destruct b; cbn [map]; rewrite IH; reflexivity. Qed.


Lemma qsumr_In_pos l n : In n l -> (0 < n)%nat -> ~ qsumr (map nQ l) == 0.
Proof.
  intros Hin Hn.
  assert (Hge : forall l, 0 <= qsumr (map nQ l)).
  { clear. induction l as [|x l IH]; cbn [map qsumr fold_right]; [lra|]. assert (0 <= nQ x) by apply (SP.nQ_nonneg x). unfold qsumr in IH. lra. }
  induction l as [|x l IH]; [destruct Hin|]. cbn [map qsumr fold_right]. destruct Hin as [->|Hin].
  - assert (0 < nQ n) by (apply (SP.nQ_pos n); exact Hn). specialize (Hge l). unfold qsumr in Hge. lra.
  - specialize (IH Hin). assert (0 <= nQ x) by apply (SP.nQ_nonneg x). specialize (Hge l). unfold qsumr in *. lra.
Qed.

Theorem mutual_info_score_tab_tie : forall ext a b c tab, rect c tab ->
  runx ext gen_mutual_info_score [a; b; VFss c (map (map fnat) tab)] = OK (VFlt false (mi_val c tab)).
Proof.
  intros ext a b c tab Hrect. open_fun gen_mutual_info_score.
  step.
  step. rewrite concat_map_map, fsum_fnat. set (N := qsumr (map nQ (concat tab))).
  step. rewrite rowF. step. rewrite colF. step. rewrite outerF, map_length, colQ_length.
  set (os := concat (map (fun a => map (fun b => a * b) (colQ c tab)) (rowQ tab))).
  set (p := fun n : nat => negb (n =? 0)%nat).
  step_open. rewrite mapo_mapo_fnat. cbn. rewrite (maskF tab). fold p. step_close.
  step_open. rewrite Nat.eqb_refl, !map_length, Nat.eqb_refl. cbn [andb]. rewrite !concat_map_map, vselect_map.
  rewrite (sel_fst p (concat tab) os (os_length c tab Hrect)).
  set (sel := filter (fun q : nat * Q => p (fst q)) (combine (concat tab) os)). cbn [lift_e]. step_close.
  assert (HN : forall q, In q sel -> qeqb N 0 = false).
  { intros [n o] Hq. apply filter_In in Hq. destruct Hq as [Hin Hp]. apply in_combine_l in Hin. cbn [fst] in Hp.
    apply SP.qeqb_false. apply (qsumr_In_pos _ n Hin). unfold p in Hp. destruct n; [discriminate|lia]. }
  step.
  step_open. rewrite (map_map fst fnat sel).
  rewrite (mapo_map_some (fun q => fnat (fst q)) _ (fun q => FQ (nQ (fst q) / N))) by (intros q Hq; rewrite (HN q Hq); reflexivity).
  cbn [lift_e]. step_close.
  step_open. rewrite Nat.eqb_refl. unfold rowQ at 1. rewrite !map_length, Nat.eqb_refl. cbn [andb].
  fold (rowQ tab). rewrite !concat_map_map. fold os. rewrite vselect_map_r, (sel_snd p (concat tab) os (os_length c tab Hrect)). fold sel.
  rewrite !fsum_map_FQ. cbn. rewrite !map_map.
  set (sa := qsumr (rowQ tab)). set (sb := qsumr (colQ c tab)).
  rewrite (mapo_map_some _ _ (fun q : nat * Q => FAdd (FNeg (FLog (FQ (snd q)))) (FLog (FQ sa)))) by reflexivity.
  cbn [obind bin_op fl_of_scalar].
  rewrite (mapo_map_some _ _ (fun q : nat * Q => FAdd (FAdd (FNeg (FLog (FQ (snd q)))) (FLog (FQ sa))) (FLog (FQ sb)))) by reflexivity.
  cbn [lift_e]. step_close.
  step_open.
  rewrite (mapo_map_some _ _ (fun q : nat * Q => FSub (FLog (fnat (fst q))) (FLog (FQ N)))) by reflexivity.
  cbn [obind bin_op]. rewrite !map_length, Nat.eqb_refl, !combine_map_same.
  rewrite (mapo_map_some _ _ (fun q : nat * Q => FMul (FQ (nQ (fst q) / N)) (FSub (FLog (fnat (fst q))) (FLog (FQ N))))) by reflexivity.
  rewrite (mapo_map_some _ _ (fun q : nat * Q => FMul (FQ (nQ (fst q) / N)) (FAdd (FAdd (FNeg (FLog (FQ (snd q)))) (FLog (FQ sa))) (FLog (FQ sb))))) by reflexivity.
  cbn [obind bin_op]. rewrite !map_length, Nat.eqb_refl, !combine_map_same.
  rewrite (mapo_map_some _ _ (fun q : nat * Q => mi_cell N sa sb (fst q) (snd q))) by reflexivity.
  cbn [lift_e]. step_close.
  step. reflexivity.
Qed.
Print Assumptions mutual_info_score_tab_tie.

Lemma contingency_tab_rect yr ye : rect (length (SC.uniq ye)) (SC.contingency_tab yr ye).
Proof.
  unfold rect, SC.contingency_tab. apply Forall_forall. intros r Hr. apply in_map_iff in Hr. destruct Hr as [i [<- _]].
  rewrite map_length. apply seq_length.
Qed.
Definition lift_fl (r : res fl) : out sv := match r with Ok x => OK (VFlt false x) | Raise e => EXN e end.
(* contingency=None: the table is computed by _contingency_matrix (ValueError on unequal lengths) and cast to float *)
Theorem mutual_info_score_tie_gen : forall ext, ext_ok ext -> forall yr ye,
  runx ext gen_mutual_info_score [VNs yr; VNs ye; VNone]
  = lift_fl (match SC.contingency yr ye with Ok tab => Ok (mi_val (length (SC.uniq ye)) tab) | Raise e => Raise e end).
Proof.
  intros ext Hext yr ye. open_fun gen_mutual_info_score.
  step. rewrite (Hext _ _). unfold SC.contingency. destruct (length yr =? length ye)%nat eqn:Elen; cbn [lift_tab lift_fl obind meth]; [|reflexivity].
  cbn. etransitivity; [|apply (mutual_info_score_tab_tie ext (VNs yr) (VNs ye) _ _ (contingency_tab_rect yr ye))].
  symmetry. open_fun gen_mutual_info_score. step. reflexivity.
Qed.
Theorem mutual_info_score_tie : forall yr ye,
  run gen_mutual_info_score [VNs yr; VNs ye; VNone]
  = lift_fl (match SC.contingency yr ye with Ok tab => Ok (mi_val (length (SC.uniq ye)) tab) | Raise e => Raise e end).
Proof. exact (mutual_info_score_tie_gen core_ext ext_cont). Qed.
Print Assumptions mutual_info_score_tie.

(* the chain closed over the TRANSLATED callee: _contingency_matrix is the generated program itself *)
Definition prog_ext (f : string) (vs : list sv) : out sv :=
  if String.eqb f "_contingency_matrix" then runx (fun _ _ => UNM) gen_contingency_matrix vs else UNM.
Lemma prog_ext_ok : ext_ok prog_ext.
Proof. intros a b. unfold prog_ext. cbn [String.eqb Ascii.eqb Bool.eqb]. apply contingency_matrix_tie. Qed.
Theorem adjusted_rand_index_tie_prog : forall yr ye,
  out_q (runx prog_ext gen_adjusted_rand_index [VNs yr; VNs ye]) (SC.ari_idx yr ye).
Proof. exact (adjusted_rand_index_tie_gen prog_ext prog_ext_ok). Qed.
Theorem mutual_info_score_tie_prog : forall yr ye,
  runx prog_ext gen_mutual_info_score [VNs yr; VNs ye; VNone]
  = lift_fl (match SC.contingency yr ye with Ok tab => Ok (mi_val (length (SC.uniq ye)) tab) | Raise e => Raise e end).
Proof. exact (mutual_info_score_tie_gen prog_ext prog_ext_ok). Qed.
Print Assumptions adjusted_rand_index_tie_prog.

(* ================================================================== pos_counts = the model's class_counts *)
Local Open Scope nat_scope.

(* the positive counts the code extracts are the model's class counts *)
Lemma fold_max_ge a l : In a l -> a <= fold_right Nat.max 0 l.
Proof. induction l as [|x l IH]; intros H; [destruct H|]. cbn [fold_right]. destruct H as [->|H]; [lia|]. specialize (IH H). lia. Qed.
Lemma fold_max_le b l : (forall a, In a l -> a <= b) -> fold_right Nat.max 0 l <= b.
Proof. induction l as [|x l IH]; intros H; cbn [fold_right]; [lia|]. assert (x <= b) by (apply H; left; reflexivity).
  assert (fold_right Nat.max 0 l <= b) by (apply IH; intros a Ha; apply H; right; exact Ha). lia. Qed.
Lemma class_idx_nth U i : NoDup U -> i < length U -> SC.class_idx U (nth i U 0) = i.
Proof.
  intros HU Hi. apply Nat.eqb_eq. rewrite (SP.class_idx_eqb U HU (nth i U 0) i (nth_In U 0 Hi) Hi). apply Nat.eqb_refl.
Qed.
Lemma bincount_ne l : l <> [] ->
  bincount l = map (fun i => length (filter (Nat.eqb i) l)) (seq 0 (S (fold_right Nat.max 0 l))).
Proof. destruct l; [congruence|reflexivity]. Qed.
Theorem pos_counts_class_counts y : pos_counts y = SC.class_counts y.
Proof.
  destruct y as [|y0 y']; [reflexivity|]. remember (y0 :: y') as y eqn:Ey.
  unfold pos_counts, SC.class_counts. set (U := SC.uniq y).
  assert (HU : NoDup U) by apply SP.uniq_NoDup.
  assert (HinU : forall x, In x y -> In x U) by (intros x Hx; apply SP.In_uniq; exact Hx).
  assert (HUpos : 0 < length U).
  { assert (Hin : In y0 U) by (apply HinU; rewrite Ey; left; reflexivity). destruct (length U) eqn:EL; [|lia].
    apply length_zero_iff_nil in EL. rewrite EL in Hin. destruct Hin. }
  assert (Hmx : S (fold_right Nat.max 0 (map (SC.class_idx U) y)) = length U).
  { assert (fold_right Nat.max 0 (map (SC.class_idx U) y) <= length U - 1).
    { apply fold_max_le. intros a Ha. apply in_map_iff in Ha. destruct Ha as [x [<- Hx]]. assert (H := class_idx_lt U x (HinU x Hx)). revert H. generalize (SC.class_idx U x), (length U). intros; lia. }
    assert (length U - 1 <= fold_right Nat.max 0 (map (SC.class_idx U) y)).
    { apply fold_max_ge. apply in_map_iff. exists (nth (length U - 1) U 0). split; [apply class_idx_nth; [exact HU|lia]|].
      apply SP.In_uniq. fold U. apply nth_In. lia. }
    lia. }
  rewrite bincount_ne by (rewrite Ey; discriminate). rewrite Hmx.
  assert (Hc : map (fun i => length (filter (Nat.eqb i) (map (SC.class_idx U) y))) (seq 0 (length U))
               = map (fun u => length (filter (Nat.eqb u) y)) U).
  { rewrite <- (SP.map_seq_nth (fun u => length (filter (Nat.eqb u) y)) U 0). apply map_ext_in. intros i Hi. apply in_seq in Hi.
    rewrite SP.filter_length_map. apply SP.filter_length_ext_in. intros x Hx. rewrite (Nat.eqb_sym i).
    rewrite (SP.class_idx_eqb U HU x i (HinU x Hx)) by lia. apply Nat.eqb_sym. }
  rewrite Hc. clear Hc.
  assert (Hall : forall c, In c (map (fun u => length (filter (Nat.eqb u) y)) U) -> (0 <? c) = true).
  { intros c Hc. apply Nat.ltb_lt. assert (H := SP.sizes_pos y c Hc). lia. }
  revert Hall. generalize (map (fun u => length (filter (Nat.eqb u) y)) U). intros l. induction l as [|c l IH]; intros H; [reflexivity|].
  cbn [filter]. rewrite (H c (or_introl eq_refl)). f_equal. apply IH. intros d Hd. apply H. right. exact Hd.
Qed.
Print Assumptions pos_counts_class_counts.
