(* The scalar functions translated from the source (Gen/ScalarFuncs.v, translator/scalarfuncs.py) compute
   the hand-written models: util.f_measure = Model.Events.f_measure, and the decision ladder of
   key.weighted_score = Model.Key.score_parts. The proofs mention nothing of the generated text except the
   names gen_f_measure / gen_key_ladder: the generated term is reduced by cbn on the combinators of
   Model/PyScalar.v, the atomic tests are decided by case analysis, the arithmetic by ring. *)
From Coq Require Import List Bool ZArith QArith Lia Lqa.
From ME Require Import Model.Prelude Model.ChordParse Model.PyScalar Model.Events Model.Key.
From ME Require Import Gen.ScalarFuncs.
Import ListNotations.
Open Scope Q_scope.

(* a Python result that is the float q, up to Qeq *)
Definition ok_float (x : res pyv) (q : Q) : Prop := exists q', x = Ok (PFloat q') /\ q' == q.

Ltac py_cbn :=
  cbn [py_if py_let pe_and pe_or pe_not pe_cmp pe_is_none pe_is_not_none pe_add pe_sub pe_mul pe_div pe_mod pe_pow pe_lift2
       py_add py_sub py_mul py_div py_mod py_pow py_arith py_cmp py_eq py_order py_is_none as_num nq truth bind
       of_oz of_ostr negb andb orb Z.of_nat Pos.of_succ_nat Pos.succ];
  repeat match goal with |- context [inject_Z ?z] => change (inject_Z z) with (z # 1) end.

(* ---------------- util.f_measure ---------------- *)
Lemma qpow2 (x : Q) : x ^ 2 == x * x. Proof. reflexivity. Qed.
Ltac q_atom :=
  match goal with
  | |- context [Qeq_bool ?a ?b] =>
      let E := fresh "E" in destruct (Qeq_bool a b) eqn:E;
      [apply Qeq_bool_iff in E | apply Qeq_bool_neq in E]
  end.
Ltac q_norm :=
  repeat match goal with
  | H : context [Qpower ?x 2] |- _ => change (Qpower x 2) with (x * x) in H
  | |- context [Qpower ?x 2] => change (Qpower x 2) with (x * x)
  end.
(* an equation between two quotients, by ring on numerators and denominators; else by field *)
Ltac q_quot :=
  first [ reflexivity | ring
        | unfold Qdiv; apply Qmult_comp; [ring | apply Qinv_comp; ring]
        | field; assumption ].
Ltac q_absurd :=
  exfalso;
  repeat match goal with G : _ /\ _ |- _ => destruct G end;
  first [ contradiction | lra | nra
        | match goal with
          | G : ~ ?x == 0, E : ?y == 0 |- _ => apply G; rewrite <- E; ring
          end ].

(* Python (float arguments) returns the model's value whenever it returns at all: either both arguments are 0,
   or the denominator beta^2 * precision + recall is not 0 ... *)
Theorem f_measure_tie : forall p r beta : Q,
  (p == 0 /\ r == 0) \/ ~ beta * beta * p + r == 0 ->
  ok_float (gen_f_measure (PFloat p) (PFloat r) (PFloat beta)) (f_measure p r beta).
Proof.
  intros p r beta G. unfold gen_f_measure, ok_float, f_measure, qeqb. py_cbn.
  repeat (q_atom; py_cbn); q_norm;
    try (eexists; split; [reflexivity|]; q_norm; q_quot);
    destruct G as [G|G]; q_absurd.
Qed.
(* ... and otherwise it raises ZeroDivisionError, where the model (total division, x/0 = 0) returns 0 *)
Theorem f_measure_tie_zero_den : forall p r beta : Q,
  ~ (p == 0 /\ r == 0) -> beta * beta * p + r == 0 ->
  gen_f_measure (PFloat p) (PFloat r) (PFloat beta) = Raise ZeroDivisionError /\ f_measure p r beta == 0.
Proof.
  intros p r beta N D. unfold gen_f_measure, f_measure, qeqb. py_cbn.
  assert (Z : (1 + beta * beta) * p * r / (beta * beta * p + r) == 0).
  { unfold Qdiv. rewrite D. unfold Qinv; cbn. ring. }
  repeat (q_atom; py_cbn); q_norm;
    first [ split; [reflexivity | first [exact Z | reflexivity]]
          | exfalso; apply N; split; assumption
          | q_absurd ].
Qed.
(* the guard holds on the domain the metrics use: precision, recall in [0,1], not both 0, beta > 0 ... *)
Lemma f_measure_guard_metrics p r beta : 0 <= p -> 0 <= r -> 0 < beta -> (p == 0 /\ r == 0) \/ ~ beta * beta * p + r == 0.
Proof.
  intros Hp Hr Hb. destruct (Qeq_dec p 0) as [P|P]; destruct (Qeq_dec r 0) as [R|R]; [left; split; assumption| | |];
    right; intros D; assert (0 < beta * beta) by nra; nra.
Qed.
Example f_measure_tie_nonvacuous :
  ok_float (gen_f_measure (PFloat (1#2)) (PFloat (1#4)) (PFloat 1)) (1#3) /\
  gen_f_measure (PFloat (-(1#1))) (PFloat 1) (PFloat 1) = Raise ZeroDivisionError.
Proof. split; [eexists; split; [vm_compute; reflexivity|reflexivity] | vm_compute; reflexivity]. Qed.

(* ---------------- key.weighted_score: the ladder ---------------- *)
Lemma seqb_sym' a : forall b, seqb a b = seqb b a.
Proof. induction a as [|x a IH]; destruct b as [|y b]; cbn; auto. now rewrite Nat.eqb_sym, IH. Qed.
Ltac z_closed := repeat match goal with |- context [Z.eqb (Zpos ?p) 0] => change (Z.eqb (Zpos p) 0) with false end.
Ltac k_atom :=
  match goal with
  | |- context [seqb ?a ?b] => destruct (seqb a b) eqn:?
  | |- context [Z.eqb ?a ?b] => destruct (Z.eqb a b) eqn:?
  end.
Theorem key_ladder_tie : forall (rk : option Z) (rm : option str) (ek : option Z) (em : option str),
  ok_float (gen_key_ladder (of_oz rk) (of_ostr rm) (of_oz ek) (of_ostr em)) (score_parts (rk, rm) (ek, em)).
Proof.
  intros rk rm ek em. unfold gen_key_ladder, ok_float, score_parts, key_rel, oz_eqb, om_eqb, m_is, s_major, s_minor.
  destruct rk as [a|], ek as [b|], rm as [s|], em as [t|]; py_cbn; z_closed; py_cbn;
    rewrite ?(seqb_sym' t s);
    repeat (k_atom; py_cbn); try (eexists; split; [reflexivity|reflexivity]); exfalso; lia.
Qed.

(* the whole function: validate, split both keys, ladder  =  Model.Key.weighted_score *)
Definition gen_weighted_score (r e : str) : res pyv :=
  _ <- validate r e ;; pr <- split_key_string r ;; pe <- split_key_string e ;;
  gen_key_ladder (of_oz (fst pr)) (of_ostr (snd pr)) (of_oz (fst pe)) (of_ostr (snd pe)).
Theorem weighted_score_tie : forall r e : str,
  match weighted_score r e with
  | Ok q => ok_float (gen_weighted_score r e) q
  | Raise x => gen_weighted_score r e = Raise x
  end.
Proof.
  intros r e. unfold weighted_score, gen_weighted_score.
  destruct (validate r e); cbn [bind]; [|reflexivity].
  destruct (split_key_string r) as [[rk rm]|]; cbn [bind]; [|reflexivity].
  destruct (split_key_string e) as [[ek em]|]; cbn [bind fst snd]; [|reflexivity].
  apply key_ladder_tie.
Qed.

Print Assumptions f_measure_tie.
Print Assumptions f_measure_tie_zero_den.
Print Assumptions key_ladder_tie.
Print Assumptions weighted_score_tie.
