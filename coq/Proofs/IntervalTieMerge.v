(* util.merge_labeled_intervals tied to Model/Intervals.merge_labeled_intervals by TRANSLATION (see IntervalTie.v for the
   conventions): the alignment check, the boundary union np.unique(np.concatenate(...)), the (n,2) re-pairing through
   np.array([...]).T, and the label loop (mask selection on np.arange(len(labels)), x_idx[-1], list indexing) by induction
   over the output intervals; exceptions (IndexError of an empty selection / mismatching mask, ValueError) included. *)
From Coq Require Import String.
From Coq Require Import List Bool Arith ZArith QArith Qabs Qminmax Qround Lia Lqa.
From ME Require Import Model.Prelude Model.IvExp Gen.IntervalGen.
From ME Require Model.Intervals.
From ME Require Import Proofs.IntervalTie.
Import ListNotations.
Open Scope Q_scope.

Local Arguments py_slice : simpl never.
Local Arguments qltb : simpl never.
Local Arguments qleb : simpl never.
Local Arguments qeqb : simpl never.
Local Arguments Z.ltb !_ !_.
Local Arguments Z.leb !_ !_.
Local Arguments Z.eqb !_ !_.
Local Arguments Z.mul !_ !_.
Local Arguments Nat.eqb !_ !_.
Local Arguments Nat.ltb !_ !_.
Local Arguments Nat.leb !_ !_.
Local Arguments norm_idx !_ !_.
Local Arguments iv_sigs : simpl never.
Local Arguments get_item2 : simpl never.
Local Arguments get_item : simpl never.
Local Arguments zrange : simpl never.
Local Arguments Intervals.sort_uniq : simpl never.
Local Arguments Intervals.flat : simpl never.
Local Arguments Z.of_nat : simpl never.
Local Arguments last : simpl never.

Lemma get_item2_first l p1 p2 : get_item2 (VMat l) (VInt p1 0) (VInt p2 0)
  = match l with [] => EXN IndexError | r :: _ => OK (VFlt false (Fin (fst r))) end.
Proof. destruct l; reflexivity. Qed.
Lemma last_default {A} : forall (t : list A) x d d', last (x :: t) d = last (x :: t) d'.
Proof. induction t as [|y t IH]; intros x d d'; [reflexivity|]. change (last (y :: t) d = last (y :: t) d'). apply IH. Qed.
Lemma nth_error_last {A} : forall (t : list A) e0, nth_error (e0 :: t) (length t) = Some (last (e0 :: t) e0).
Proof.
  induction t as [|x t IH]; intros e0; [reflexivity|]. cbn [length nth_error]. rewrite IH.
  f_equal. change (last (x :: t) x = last (x :: t) e0). apply last_default.
Qed.
Lemma norm_idx_m1 n : norm_idx (-1) (S n) = Some n.
Proof.
  unfold norm_idx. replace (Pos.to_nat 1 <=? S n)%nat with true by (symmetry; apply Nat.leb_le; lia).
  f_equal. lia.
Qed.
Lemma get_item2_last l p1 p2 : get_item2 (VMat l) (VInt p1 (-1)) (VInt p2 1)
  = match l with [] => EXN IndexError | r :: _ => OK (VFlt false (Fin (snd (last l r)))) end.
Proof.
  destruct l as [|r t]; [reflexivity|]. unfold get_item2. cbn [length]. rewrite norm_idx_m1, nth_error_last. reflexivity.
Qed.
Lemma py_slice_tl {A} (l : list A) : py_slice (Some 1%Z) None l = tl l.
Proof. change 1%Z with (Z.of_nat 1). rewrite py_slice_from. destruct l; reflexivity. Qed.
Lemma firstn_removelast {A} : forall l : list A, firstn (length l - 1) l = removelast l.
Proof.
  induction l as [|x t IH]; [reflexivity|]. destruct t as [|y t']; [reflexivity|].
  cbn [length Nat.sub] in *. rewrite Nat.sub_0_r in *. cbn [firstn]. rewrite IH. reflexivity.
Qed.
Lemma py_slice_init {A} (l : list A) : py_slice None (Some (-1)%Z) l = removelast l.
Proof.
  unfold py_slice, py_norm. change (-1 <? 0)%Z with true. cbv iota. cbn [Z.to_nat skipn]. rewrite Z.sub_0_r.
  destruct l as [|x t]; [reflexivity|].
  replace (Z.to_nat (Z.max (-1 + Z.of_nat (length (x :: t))) 0)) with (length (x :: t) - 1)%nat by (cbn [length]; lia).
  apply firstn_removelast.
Qed.

Lemma len_removelast_tl {A} : forall l : list A, length (removelast l) = length (tl l).
Proof. induction l as [|x t IH]; [reflexivity|]. destruct t as [|y t']; [reflexivity|]. cbn [removelast length tl] in *. rewrite IH. reflexivity. Qed.
Definition m_env (xi : list (Q*Q)) (xl : list val) (yi : list (Q*Q)) (yl : list val) (ac tb oi xo yo xr yr t0 u xidx yidx : val) : env :=
  [("x_intervals", VMat xi); ("x_labels", VList false xl); ("y_intervals", VMat yi); ("y_labels", VList false yl);
   ("align_check", ac); ("time_boundaries", tb); ("output_intervals", oi); ("x_labels_out", xo); ("y_labels_out", yo);
   ("x_label_range", xr); ("y_label_range", yr); ("t0", t0); ("_", u); ("x_idx", xidx); ("y_idx", yidx)]%string.
Definition m_prefix := firstn 7 (f_body gen_merge_labeled_intervals).
Definition m_loop := nth 7 (f_body gen_merge_labeled_intervals) SPass.
Definition m_ret := nth 8 (f_body gen_merge_labeled_intervals) SPass.

Lemma m_prefix_run : forall ext xi xl yi yl,
  run_block (exec iv_sigs ext) m_prefix
    (m_env xi xl yi yl VUnbound VUnbound VUnbound VUnbound VUnbound VUnbound VUnbound VUnbound VUnbound VUnbound VUnbound)
  = match xi, yi with
    | [], _ => SExn IndexError
    | _, [] => SExn IndexError
    | x0 :: _, y0 :: _ =>
        if negb (Qeq_bool (fst x0) (fst y0)) || negb (Qeq_bool (snd (last xi x0)) (snd (last yi y0))) then SExn ValueError
        else let tb := Intervals.sort_uniq (Intervals.flat (xi ++ yi)) in
             SNorm (m_env xi xl yi yl
                      (VList true [VBool (Qeq_bool (fst x0) (fst y0)); VBool (Qeq_bool (snd (last xi x0)) (snd (last yi y0)))])
                      (VArrQ tb) (VMat (Intervals.adjacent_pairs tb)) (VList true []) (VList true [])
                      (VArrZ (zrange 0 (Z.of_nat (length xl)))) (VArrZ (zrange 0 (Z.of_nat (length yl))))
                      VUnbound VUnbound VUnbound VUnbound)
    end.
Proof.
  intros. unfold m_prefix. cbn. rewrite !get_item2_first.
  destruct xi as [|x0 xt]; [reflexivity|]. destruct yi as [|y0 yt]; [reflexivity|]. cbn.
  rewrite !get_item2_last. cbn. unfold qeqb.
  destruct (Qeq_bool (fst x0) (fst y0)); destruct (Qeq_bool (snd (last (x0 :: xt) x0)) (snd (last (y0 :: yt) y0))); cbn; try reflexivity.
  rewrite app_nil_r, py_slice_init, py_slice_tl. rewrite len_removelast_tl, Nat.eqb_refl. cbn.
  rewrite len_removelast_tl, Nat.eqb_refl. cbn. reflexivity.
Qed.

(* ---------- the label lookup ---------- *)
Lemma zrange_length a n : length (zrange a (a + Z.of_nat n)) = n.
Proof. unfold zrange. rewrite map_length, seq_length. lia. Qed.
Lemma zrange_S a n : zrange a (a + Z.of_nat (S n)) = a :: zrange (a + 1) (a + 1 + Z.of_nat n).
Proof.
  unfold zrange. replace (Z.to_nat (a + Z.of_nat (S n) - a)) with (S n) by lia.
  replace (Z.to_nat (a + 1 + Z.of_nat n - (a + 1))) with n by lia.
  cbn [seq map]. f_equal; [lia|]. rewrite <- seq_shift, map_map. apply map_ext. intros i. lia.
Qed.
Lemma sel_last {A} (f : A -> bool) : forall l a,
  match Intervals.last_idx f l with
  | None => vselect (map f l) (zrange a (a + Z.of_nat (length l))) = []
  | Some k => (k < length l)%nat /\ exists z0 t, vselect (map f l) (zrange a (a + Z.of_nat (length l))) = z0 :: t
                                        /\ last (z0 :: t) z0 = (a + Z.of_nat k)%Z
  end.
Proof.
  induction l as [|x t IH]; intros a; [reflexivity|].
  cbn [Intervals.last_idx length map]. rewrite zrange_S. cbn [vselect].
  specialize (IH (a + 1)%Z). destruct (Intervals.last_idx f t) as [k|].
  - destruct IH as (Hk & z0 & r & E & El). split; [lia|]. rewrite E. destruct (f x).
    + exists a, (z0 :: r). split; [reflexivity|]. change (last (z0 :: r) a = (a + Z.of_nat (S k))%Z).
      rewrite (last_default r z0 a z0), El. lia.
    + exists z0, r. split; [reflexivity|]. rewrite El. lia.
  - rewrite IH. destruct (f x); [|reflexivity]. split; [lia|]. exists a, []. split; [reflexivity|]. cbv [last]. change (Z.of_nat 0) with 0%Z. lia.
Qed.
Lemma get_item_mask {A} (f : A -> bool) l n :
  get_item (VArrZ (zrange 0 (Z.of_nat n))) (VArrB (map f l))
  = if Nat.eqb (length l) n then OK (VArrZ (vselect (map f l) (zrange 0 (Z.of_nat n)))) else EXN IndexError.
Proof. unfold get_item. rewrite map_length. pose proof (zrange_length 0 n) as H. rewrite Z.add_0_l in H. rewrite H. reflexivity. Qed.
Lemma get_item_zlast s p : get_item (VArrZ s) (VInt p (-1))
  = match s with [] => EXN IndexError | z0 :: _ => OK (VInt false (last s z0)) end.
Proof. destruct s as [|z0 t]; [reflexivity|]. unfold get_item. cbn [length]. rewrite norm_idx_m1, nth_error_last. reflexivity. Qed.
Lemma norm_idx_nat k n : (k < n)%nat -> norm_idx (Z.of_nat k) n = Some k.
Proof.
  intros H. unfold norm_idx. destruct k as [|k].
  - change (Z.of_nat 0) with 0%Z. cbv iota. replace (0 <? n)%nat with true by (symmetry; apply Nat.ltb_lt; lia). reflexivity.
  - rewrite Nat2Z.inj_succ. unfold Z.succ. destruct (Z.of_nat k) eqn:E; cbn [Z.add]; try lia.
    + replace (Pos.to_nat 1 <? n)%nat with true by (symmetry; apply Nat.ltb_lt; lia). f_equal. lia.
    + replace (Pos.to_nat (p + 1) <? n)%nat with true by (symmetry; apply Nat.ltb_lt; lia). f_equal. lia.
Qed.
Definition out_of {A} (r : res A) : out A := match r with Ok a => OK a | Raise e => EXN e end.
Lemma pick_run : forall ivs labs t0 own p p',
  (s <~ get_item (VArrZ (zrange 0 (Z.of_nat (length labs)))) (VArrB (map (fun v : Q * Q => Qle_bool (fst v) t0) ivs)) ;;
   z <~ get_item s (VInt p (-1)) ;; match z with VInt _ k => get_item (VList own labs) (VInt p' k) | _ => UNM end)
  = out_of (Intervals.merge_pick ivs labs t0).
Proof.
  intros. unfold Intervals.merge_pick, Intervals.iv. rewrite get_item_mask. rewrite (Nat.eqb_sym (length ivs) (length labs)).
  destruct (Nat.eqb (length labs) (length ivs)) eqn:El; cbn [negb obind]; [|reflexivity].
  apply Nat.eqb_eq in El. rewrite get_item_zlast. rewrite El.
  pose proof (sel_last (fun v : Q * Q => Qle_bool (fst v) t0) ivs 0) as H. rewrite Z.add_0_l in H.
  destruct (Intervals.last_idx _ ivs) as [k|].
  - destruct H as (Hk & z0 & t & E & Elast). rewrite E. cbn [obind]. rewrite Elast, Z.add_0_l.
    unfold get_item. rewrite norm_idx_nat by lia.
    destruct (nth_error labs k) as [lab|] eqn:En; [reflexivity|]. apply nth_error_None in En. lia.
  - rewrite H. reflexivity.
Qed.
Lemma pick_cases : forall ivs labs t0 own p,
  let g1 := get_item (VArrZ (zrange 0 (Z.of_nat (length labs)))) (VArrB (map (fun v : Q * Q => Qle_bool (fst v) t0) ivs)) in
  match Intervals.merge_pick ivs labs t0 with
  | Ok lab => exists s z,
      g1 = OK (VArrZ s) /\ get_item (VArrZ s) (VInt p (-1)) = OK (VInt false z) /\ get_item (VList own labs) (VInt false z) = OK lab
  | Raise e =>
      g1 = EXN e
      \/ (exists s, g1 = OK (VArrZ s) /\ get_item (VArrZ s) (VInt p (-1)) = EXN e)
      \/ (exists s z, g1 = OK (VArrZ s) /\ get_item (VArrZ s) (VInt p (-1)) = OK (VInt false z)
                      /\ get_item (VList own labs) (VInt false z) = EXN e)
  end.
Proof.
  intros. subst g1. pose proof (pick_run ivs labs t0 own p false) as H. rewrite get_item_mask in *.
  destruct (Nat.eqb (length ivs) (length labs)); cbn [obind] in H.
  - rewrite get_item_zlast in H. destruct (vselect _ _) as [|z0 t] eqn:Es.
    + cbn [obind] in H. destruct (Intervals.merge_pick ivs labs t0); [discriminate|]. injection H as <-.
      right. left. eexists. split; reflexivity.
    + cbn [obind] in H. destruct (Intervals.merge_pick ivs labs t0) as [lab|e]; cbn [out_of] in H.
      * eexists _, _. split; [reflexivity|]. split; [rewrite get_item_zlast; reflexivity|]. exact H.
      * right. right. eexists _, _. split; [reflexivity|]. split; [rewrite get_item_zlast; reflexivity|]. exact H.
  - destruct (Intervals.merge_pick ivs labs t0); [discriminate|]. injection H as <-. left. reflexivity.
Qed.

Definition m_body : list stmt := match m_loop with SFor _ _ b => b | _ => [] end.
Definition m_pick xi xl yi yl (o : Q * Q) : res (val * val) :=
  a <- Intervals.merge_pick xi xl (fst o) ;; b <- Intervals.merge_pick yi yl (fst o) ;; Ok (a, b).
Definition xr_of (xl : list val) := VArrZ (zrange 0 (Z.of_nat (length xl))).

Ltac nrm := cbn; rewrite ?map_map; unfold qleb.
Lemma m_step : forall ext xi xl yi yl ac tb oi xo yo t0v uv xidx yidx o,
  match m_pick xi xl yi yl o with
  | Ok (a, b) => exists xidx' yidx',
      for_step (run_block (exec iv_sigs ext)) (TTuple ["t0"; "_"]%string) m_body (VArrQ [fst o; snd o])
        (m_env xi xl yi yl ac tb oi (VList true xo) (VList true yo) (xr_of xl) (xr_of yl) t0v uv xidx yidx)
      = SNorm (m_env xi xl yi yl ac tb oi (VList true (xo ++ [a])) (VList true (yo ++ [b])) (xr_of xl) (xr_of yl)
                 (VFlt false (Fin (fst o))) (VFlt false (Fin (snd o))) xidx' yidx')
  | Raise e =>
      for_step (run_block (exec iv_sigs ext)) (TTuple ["t0"; "_"]%string) m_body (VArrQ [fst o; snd o])
        (m_env xi xl yi yl ac tb oi (VList true xo) (VList true yo) (xr_of xl) (xr_of yl) t0v uv xidx yidx)
      = SExn e
  end.
Proof.
  intros. unfold m_pick.
  pose proof (pick_cases xi xl (fst o) false true) as Hx. pose proof (pick_cases yi yl (fst o) false true) as Hy.
  cbv zeta in Hx, Hy.
  unfold for_step, m_body, xr_of. cbn. rewrite !map_map. unfold qleb.
  destruct (Intervals.merge_pick xi xl (fst o)) as [a|e].
  - destruct Hx as (sx & zx & E1 & E2 & E3). rewrite E1. nrm. rewrite E2. nrm. rewrite E3. nrm.
    destruct (Intervals.merge_pick yi yl (fst o)) as [b|e]; cbn [bind].
    + destruct Hy as (sy & zy & F1 & F2 & F3). rewrite F1. nrm. rewrite F2. nrm. rewrite F3. nrm.
      eexists _, _. reflexivity.
    + destruct Hy as [F1|[(sy & F1 & F2)|(sy & zy & F1 & F2 & F3)]]; rewrite F1; nrm; try reflexivity;
        rewrite F2; nrm; try reflexivity. rewrite F3. reflexivity.
  - cbn [bind]. destruct Hx as [F1|[(sy & F1 & F2)|(sy & zy & F1 & F2 & F3)]]; rewrite F1; nrm; try reflexivity;
      rewrite F2; nrm; try reflexivity. rewrite F3. reflexivity.
Qed.


Local Arguments for_loop : simpl never.
Lemma m_loop_run : forall ext xi xl yi yl ac tb oi out xo yo t0v uv xidx yidx,
  match Intervals.mapM (m_pick xi xl yi yl) out with
  | Ok labs => exists t0' u' x' y',
      for_loop (for_step (run_block (exec iv_sigs ext)) (TTuple ["t0"; "_"]%string) m_body)
        (map (fun r : Q * Q => VArrQ [fst r; snd r]) out)
        (m_env xi xl yi yl ac tb oi (VList true xo) (VList true yo) (xr_of xl) (xr_of yl) t0v uv xidx yidx)
      = SNorm (m_env xi xl yi yl ac tb oi (VList true (xo ++ map fst labs)) (VList true (yo ++ map snd labs))
                 (xr_of xl) (xr_of yl) t0' u' x' y')
  | Raise e =>
      for_loop (for_step (run_block (exec iv_sigs ext)) (TTuple ["t0"; "_"]%string) m_body)
        (map (fun r : Q * Q => VArrQ [fst r; snd r]) out)
        (m_env xi xl yi yl ac tb oi (VList true xo) (VList true yo) (xr_of xl) (xr_of yl) t0v uv xidx yidx)
      = SExn e
  end.
Proof.
  intros ext xi xl yi yl ac tb oi out. induction out as [|o out IH]; intros xo yo t0v uv xidx yidx.
  - cbn [Intervals.mapM map]. eexists _, _, _, _. rewrite !app_nil_r. reflexivity.
  - cbn [Intervals.mapM map]. unfold for_loop; fold for_loop.
    pose proof (m_step ext xi xl yi yl ac tb oi xo yo t0v uv xidx yidx o) as Hs.
    destruct (m_pick xi xl yi yl o) as [[a b]|e].
    + destruct Hs as (x1 & y1 & Hs). rewrite Hs.
      specialize (IH (xo ++ [a]) (yo ++ [b]) (VFlt false (Fin (fst o))) (VFlt false (Fin (snd o))) x1 y1).
      destruct (Intervals.mapM (m_pick xi xl yi yl) out) as [labs|e].
      * destruct IH as (t0' & u' & x' & y' & IH). exists t0', u', x', y'. rewrite IH. cbn [map fst snd].
        rewrite <- !app_assoc. reflexivity.
      * exact IH.
    + rewrite Hs. reflexivity.
Qed.

Lemma run_block_app f : forall a b en,
  run_block f (a ++ b) en = match run_block f a en with SNorm en' => run_block f b en' | o => o end.
Proof.
  induction a as [|s a IH]; intros b en; [reflexivity|]. cbn [app]. rewrite !run_block_cons.
  destruct (f s en); try reflexivity. apply IH.
Qed.
Lemma m_body_split : f_body gen_merge_labeled_intervals = m_prefix ++ [m_loop; m_ret].
Proof. reflexivity. Qed.

Lemma m_loop_exec : forall ext xi xl yi yl ac tb out xo yo xr yr t0v uv xidx yidx,
  exec iv_sigs ext m_loop (m_env xi xl yi yl ac tb (VMat out) xo yo xr yr t0v uv xidx yidx)
  = for_loop (for_step (run_block (exec iv_sigs ext)) (TTuple ["t0"; "_"]%string) m_body)
      (map (fun r : Q * Q => VArrQ [fst r; snd r]) out) (m_env xi xl yi yl ac tb (VMat out) xo yo xr yr t0v uv xidx yidx).
Proof. reflexivity. Qed.
Lemma m_ret_exec : forall ext xi xl yi yl ac tb out xo yo xr yr t0v uv xidx yidx,
  exec iv_sigs ext m_ret (m_env xi xl yi yl ac tb (VMat out) (VList true xo) (VList true yo) xr yr t0v uv xidx yidx)
  = SRet (VTup [VMat out; VList true xo; VList true yo]).
Proof. reflexivity. Qed.
Definition res_merge (r : res (list Intervals.iv * list val * list val)) : out val :=
  match r with
  | Ok (o, a, b) => OK (VTup [VMat o; VList true a; VList true b])
  | Raise e => EXN e end.

Theorem merge_labeled_intervals_tie : forall ext xi xl yi yl,
  run_fun iv_sigs ext gen_merge_labeled_intervals [VMat xi; VList false xl; VMat yi; VList false yl]
  = res_merge (Intervals.merge_labeled_intervals xi xl yi yl).
Proof.
  intros. unfold run_fun, exec_block. rewrite m_body_split.
  change (init_env gen_merge_labeled_intervals [VMat xi; VList false xl; VMat yi; VList false yl])
    with (m_env xi xl yi yl VUnbound VUnbound VUnbound VUnbound VUnbound VUnbound VUnbound VUnbound VUnbound VUnbound VUnbound).
  change (Nat.eqb _ _) with true. cbv iota.
  rewrite run_block_app, m_prefix_run. unfold Intervals.merge_labeled_intervals.
  destruct xi as [|x0 xt]; [reflexivity|]. destruct yi as [|y0 yt]; [reflexivity|].
  set (xi := x0 :: xt). set (yi := y0 :: yt).
  destruct (negb _ || negb _); [reflexivity|]. cbv zeta.
  set (out := Intervals.adjacent_pairs _).
  rewrite run_block_cons, m_loop_exec.
  pose proof (m_loop_run ext xi xl yi yl
    (VList true [VBool (Qeq_bool (fst x0) (fst y0)); VBool (Qeq_bool (snd (last xi x0)) (snd (last yi y0)))])
    (VArrQ (Intervals.sort_uniq (Intervals.flat (xi ++ yi)))) (VMat out) out [] [] VUnbound VUnbound VUnbound VUnbound) as H.
  unfold m_pick in H. unfold xr_of in H.
  unfold Intervals.iv in *. destruct (Intervals.mapM (fun o : Q * Q => _) out) as [labs|e]; cbn [bind].
  - destruct H as (t0' & u' & x' & y' & H). rewrite H. rewrite run_block_cons, m_ret_exec. reflexivity.
  - rewrite H. reflexivity.
Qed.
Print Assumptions merge_labeled_intervals_tie.
