(* chord.CHORD_RE (translated from the source on every run) accepts exactly the documented Harte syntax. *)
From Coq Require Import List Bool Arith.
From ME Require Import Model.Prelude Model.Regex Model.ChordParse Gen.ChordRe Proofs.RegexLang Proofs.RegexEquiv.
Import ListNotations.

(* the verdict of the verified checker on the current source; [Equal n] is what the theorem below needs *)
Definition chord_re_verdict : verdict := equiv 4000 chord_re harte.

Theorem chord_re_is_harte : forall s, rmatch chord_re s = rmatch harte s.
Proof.
  assert (H : exists n, equiv 4000 chord_re harte = Equal n) by (vm_compute; eexists; reflexivity).
  destruct H as [n H]. exact (equiv_sound 4000 chord_re harte n H).
Qed.

Theorem validate_label_iff_harte : forall s, validate_label s = Ok tt <-> lang harte s.
Proof.
  intros s. unfold validate_label. rewrite chord_re_is_harte. rewrite <- rmatch_iff_lang.
  destruct (rmatch harte s); split; intros H; congruence.
Qed.

Theorem validate_label_total : forall s, validate_label s = Ok tt \/ validate_label s = Raise InvalidChord.
Proof. intros s. unfold validate_label. destruct (rmatch chord_re s); auto. Qed.
