(* Ties of mir_eval/io.py::load_intervals, load_labeled_intervals, load_valued_intervals (Gen/IOGen.v, language Model/IoExp.v) to the
   models of Model/IO.v for all file contents / delimiters / comment expressions. The interval matrix np.array([starts, ends]).T
   is the (n, 2) matrix whose rows are combine starts ends (transpose_pair), also for n = 0 (shape (0, 2)); util.validate_intervals
   inside try / except ValueError -> warnings.warn. Uses the lemmas of Proofs/IOTieWrap.v. *)
From Coq Require Import String.
From Coq Require Import List Bool Arith ZArith QArith Lia.
From ME Require Import Model.Prelude Model.Regex Model.Key Model.IO Model.IoExp Gen.IOGen Model.IoExpInst Proofs.IOProps Proofs.IOTieWrap.
Import ListNotations.
Close Scope Q_scope.
Local Open Scope string_scope.
Local Open Scope list_scope.

Section Tie.
Variable num : Type.
Variable conv convv : str -> option num.
Variable val : num -> xval.
Notation pv := (pv num).
Notation run_block := (run_block num).
Notation exec := (exec num conv convv val (io_sigs num) (io_ext num conv val)).
Notation mk := (Build_st num).

Local Arguments load_delimited : simpl never.
Local Arguments IO.validate_intervals : simpl never.
Local Arguments io_sigs : simpl never.
Local Arguments transpose : simpl never.
Local Arguments nums : simpl never.
Local Arguments strs : simpl never.
Local Arguments Z.of_nat : simpl never.
Local Arguments Z.eqb : simpl never.
Local Arguments np_array : simpl never.

Ltac step tac := erewrite (run_block_cons_eq num conv convv val) by (cbn; tac; rewrite ?norm0S; cbn; reflexivity); cbv beta iota.
Ltac calld := rewrite sig_ld; cbn; rewrite comment_bound; cbn; rewrite get_comment_emb.
Ltac start f args :=
  unfold io_run, run_fun; change (Nat.eqb (length args) (length (f_params f))) with true; cbv iota; unfold exec_block;
  let b := eval vm_compute in (f_body f) in change (f_body f) with b;
  let e := eval cbv in (map fst (f_params f)) in change (init_env num f args) with (combine e args ++ map (fun x => (x, PUnbound num)) (f_locals f));
  let l := eval cbv in (f_locals f) in change (f_locals f) with l;
  cbn [combine map app].
Ltac cols2 HT a b Ha Hb :=
  inversion HT as [|? a ? ? Ha HT1]; subst; inversion HT1 as [|? b ? ? Hb HT2]; subst; inversion HT2; subst.
Ltac cols3 HT a b c Ha Hb Hc :=
  inversion HT as [|? a ? ? Ha HT1]; subst; inversion HT1 as [|? b ? ? Hb HT2]; subst;
  inversion HT2 as [|? c ? ? Hc HT3]; subst; inversion HT3; subst.
Ltac as_nums c Hc xs := let Hx := fresh in pose proof (float_col num c Hc) as Hx; set (xs := nums num c) in *; clearbody xs; subst c.
Ltac as_strs c Hc xs := let Hx := fresh in pose proof (str_col num c Hc) as Hx; set (xs := strs num c) in *; clearbody xs; subst c.
Ltac errs E := step ltac:(calld; rewrite E; cbn); reflexivity.
Ltac ldstep E := step ltac:(calld; rewrite E; cbn; unfold emb_col; rewrite ?emb_nums, ?emb_strs; cbn).

Definition pair_row (p : num * num) : list num := [fst p; snd p].
Definition emb_ivs (ivs : list (num * num)) : pv := PMat num 2 (map pair_row ivs).

Lemma transpose_pair : forall (xs ys : list num), length xs = length ys ->
  transpose (length xs) [xs; ys] = map pair_row (combine xs ys).
Proof.
  unfold transpose. cbn [fold_right].
  induction xs as [|x xs IH]; intros [|y ys] H; try discriminate; [reflexivity|].
  cbn [length repeat zipcons combine map]. unfold pair_row at 1. cbn [fst snd]. f_equal. apply IH. cbn in H. lia.
Qed.
Lemma np_array_2 : forall xs ys, length xs = length ys ->
  np_array num [PList num (map (PNum num) xs); PList num (map (PNum num) ys)] = OK (PMat num (length xs) [xs; ys]).
Proof.
  intros xs ys H. unfold np_array. cbn [omap get_num get_row]. rewrite !omap_get_num. cbn [option_map].
  unfold same_len. cbn [forallb]. rewrite <- H, Nat.eqb_refl. reflexivity.
Qed.
Lemma omap_row2 : forall ps, omap (row2 num) (map pair_row ps) = Some ps.
Proof. induction ps as [|[a b] ps IH]; [reflexivity|]. cbn. rewrite IH. reflexivity. Qed.
Lemma map_val_combine : forall xs ys, map (fun p : num * num => (val (fst p), val (snd p))) (combine xs ys) = ivals num val xs ys.
Proof. unfold ivals. induction xs as [|x xs IH]; intros [|y ys]; cbn; try reflexivity. f_equal. apply IH. Qed.
Lemma attr_T : forall xs ys, length xs = length ys ->
  attr num (PMat num (length xs) [xs; ys]) "T" = OK (emb_ivs (combine xs ys)).
Proof. intros. cbn. rewrite transpose_pair by assumption. reflexivity. Qed.

Theorem load_intervals_tie : forall text d cm,
  io_run num conv convv val gen_load_intervals (args3 num text d cm)
  = emb_wres num emb_ivs (load_intervals num conv val d cm text).
Proof.
  intros text d cm. unfold args3, load_intervals, with_cols. start gen_load_intervals [PPath num text; PSrc num (PDelim d); emb_comment num cm].
  destruct (load_delimited num conv [CFloat; CFloat] d cm text) as [r|row e|e] eqn:E; [|errs E|errs E].
  destruct (load_delimited_typed _ _ _ _ _ _ _ E) as (cols & m & -> & HT & HM).
  cols2 HT a b Ha Hb. cbn [pack length Nat.eqb] in *. as_nums a Ha xs. as_nums b Hb ys.
  assert (HL : length xs = length ys).
  { inversion HM as [|? ? H1 HM1]; subst. inversion HM1 as [|? ? H2 _]; subst. rewrite !map_length in *. congruence. }
  ldstep E.
  step ltac:(rewrite (np_array_2 _ _ HL); cbn [obind]; rewrite (attr_T _ _ HL); cbn).
  destruct (validate_intervals (ivals num val xs ys)) as [w|] eqn:EV.
  - step ltac:(rewrite sig_vi; cbn; rewrite omap_row2, map_val_combine, EV; cbn). step idtac. reflexivity.
  - step ltac:(rewrite sig_vi; cbn; rewrite omap_row2, map_val_combine, EV; cbn). step idtac. reflexivity.
Qed.

Theorem load_labeled_intervals_tie : forall text d cm,
  io_run num conv convv val gen_load_labeled_intervals (args3 num text d cm)
  = emb_wres num (fun r => PTup num [emb_ivs (fst r); PList num (map (PStr num) (snd r))]) (load_labeled_intervals num conv val d cm text).
Proof.
  intros text d cm. unfold args3, load_labeled_intervals, with_cols. start gen_load_labeled_intervals [PPath num text; PSrc num (PDelim d); emb_comment num cm].
  destruct (load_delimited num conv [CFloat; CFloat; CStr] d cm text) as [r|row e|e] eqn:E; [|errs E|errs E].
  destruct (load_delimited_typed _ _ _ _ _ _ _ E) as (cols & m & -> & HT & HM).
  cols3 HT a b c Ha Hb Hc. cbn [pack length Nat.eqb] in *. as_nums a Ha xs. as_nums b Hb ys. as_strs c Hc ls. rewrite ?strs_VStr.
  assert (HL : length xs = length ys).
  { inversion HM as [|? ? H1 HM1]; subst. inversion HM1 as [|? ? H2 _]; subst. rewrite !map_length in *. congruence. }
  ldstep E.
  step ltac:(rewrite (np_array_2 _ _ HL); cbn [obind]; rewrite (attr_T _ _ HL); cbn).
  destruct (validate_intervals (ivals num val xs ys)) as [w|] eqn:EV.
  - step ltac:(rewrite sig_vi; cbn; rewrite omap_row2, map_val_combine, EV; cbn). step idtac.
    cbn [s_heap s_warn]. unfold deep_fuel. rewrite deep_tup_eq. cbn [omap].
    change (deep num 7 [] (emb_ivs (combine xs ys))) with (Some (emb_ivs (combine xs ys))). rewrite deep_strs. reflexivity.
  - step ltac:(rewrite sig_vi; cbn; rewrite omap_row2, map_val_combine, EV; cbn). step idtac.
    cbn [s_heap s_warn]. unfold deep_fuel. rewrite deep_tup_eq. cbn [omap].
    change (deep num 7 [] (emb_ivs (combine xs ys))) with (Some (emb_ivs (combine xs ys))). rewrite deep_strs. reflexivity.
Qed.

Theorem load_valued_intervals_tie : forall text d cm,
  io_run num conv convv val gen_load_valued_intervals (args3 num text d cm)
  = emb_wres num (fun r => PTup num [emb_ivs (fst r); PArr num (snd r)]) (load_valued_intervals num conv val d cm text).
Proof.
  intros text d cm. unfold args3, load_valued_intervals, with_cols. start gen_load_valued_intervals [PPath num text; PSrc num (PDelim d); emb_comment num cm].
  destruct (load_delimited num conv [CFloat; CFloat; CFloat] d cm text) as [r|row e|e] eqn:E; [|errs E|errs E].
  destruct (load_delimited_typed _ _ _ _ _ _ _ E) as (cols & m & -> & HT & HM).
  cols3 HT a b c Ha Hb Hc. cbn [pack length Nat.eqb] in *. as_nums a Ha xs. as_nums b Hb ys. as_nums c Hc vs.
  assert (HL : length xs = length ys).
  { inversion HM as [|? ? H1 HM1]; subst. inversion HM1 as [|? ? H2 _]; subst. rewrite !map_length in *. congruence. }
  ldstep E.
  step ltac:(rewrite (np_array_2 _ _ HL); cbn [obind]; rewrite (attr_T _ _ HL); cbn).
  destruct (validate_intervals (ivals num val xs ys)) as [w|] eqn:EV.
  - step ltac:(rewrite sig_vi; cbn; rewrite omap_row2, map_val_combine, EV; cbn).
    step ltac:(rewrite np_array_vec; cbn). step idtac. reflexivity.
  - step ltac:(rewrite sig_vi; cbn; rewrite omap_row2, map_val_combine, EV; cbn).
    step ltac:(rewrite np_array_vec; cbn). step idtac. reflexivity.
Qed.
End Tie.
Check load_intervals_tie. Check load_labeled_intervals_tie. Check load_valued_intervals_tie.
Print Assumptions load_intervals_tie. Print Assumptions load_labeled_intervals_tie. Print Assumptions load_valued_intervals_tie.
