(* util.sort_labeled_intervals and util.index_labels tied to Model/Intervals.v by TRANSLATION (see IntervalTie.v for the
   conventions). np.argsort is read as the STABLE argsort (Model/IvExp.v): NumPy's default sort kind is not stable, so
   the reading -- and with it sort_labeled_intervals_tie as a statement about NumPy -- is exact for pairwise distinct
   start times only, the same restriction as in Model/Intervals.v; inside Coq the tie holds for all inputs. *)
From Coq Require Import String.
From Coq Require Import List Bool Arith ZArith QArith Qabs Qminmax Qround Lia Lqa Sorted.
From ME Require Import Model.Prelude Model.IvExp Gen.IntervalGen.
From ME Require Model.Intervals.
From ME Require Import Proofs.IntervalTie.
Import ListNotations.
Open Scope Q_scope.

Section SortTie.
Local Arguments qltb : simpl never.
Local Arguments qleb : simpl never.
Local Arguments qeqb : simpl never.
Local Arguments Z.ltb !_ !_.
Local Arguments Z.leb !_ !_.
Local Arguments Z.eqb !_ !_.
Local Arguments Nat.eqb !_ !_.
Local Arguments Nat.ltb !_ !_.
Local Arguments Nat.leb !_ !_.
Local Arguments iv_sigs : simpl never.
Local Arguments Z.of_nat : simpl never.
Local Arguments get_col : simpl never.
Local Arguments get_item : simpl never.
Local Arguments argsort_q : simpl never.
Local Arguments Intervals.sort_indexed_ivs : simpl never.

(* ================================================================== sort_labeled_intervals *)
Definition kproj (x : (Q * Q) * nat) : Q * nat := (fst (fst x), snd x).
Lemma ins_key_proj x : forall l, ins_key (kproj x) (map kproj l) = map kproj (Intervals.ins_by_start x l).
Proof.
  induction l as [|y t IH]; [reflexivity|]. cbn [map ins_key Intervals.ins_by_start]. change (fst (kproj x)) with (fst (fst x)). change (fst (kproj y)) with (fst (fst y)). unfold Intervals.iv.
  destruct (qltb (fst (fst x)) (fst (fst y))); [reflexivity|]. cbn [map]. rewrite IH. reflexivity.
Qed.
Lemma fold_ins_proj : forall l acc,
  fold_left (fun a x => ins_key x a) (map kproj l) (map kproj acc)
  = map kproj (fold_left (fun a x => Intervals.ins_by_start x a) l acc).
Proof. induction l as [|x l IH]; intros acc; [reflexivity|]. cbn [map fold_left]. rewrite ins_key_proj. apply IH. Qed.
Lemma combine_proj : forall (ivs : list (Q * Q)) a, combine (map fst ivs) (seq a (length ivs)) = map kproj (combine ivs (seq a (length ivs))).
Proof. induction ivs as [|v t IH]; intros a; [reflexivity|]. cbn [map length seq combine]. rewrite IH. reflexivity. Qed.
Lemma argsort_sorted ivs : argsort_q (map fst ivs) = map snd (Intervals.sort_indexed_ivs ivs).
Proof.
  unfold argsort_q, Intervals.sort_indexed_ivs. rewrite map_length, combine_proj.
  rewrite (fold_ins_proj _ []). rewrite map_map. reflexivity.
Qed.

Lemma Forall_ins {P : (Q * Q) * nat -> Prop} x : forall l, P x -> Forall P l -> Forall P (Intervals.ins_by_start x l).
Proof.
  induction l as [|y t IH]; intros Hx Hl; [constructor; [exact Hx|constructor]|].
  cbn [Intervals.ins_by_start]. destruct (qltb _ _); [constructor; assumption|].
  inversion Hl; subst. constructor; [assumption|apply IH; assumption].
Qed.
Lemma Forall_fold_ins {P : (Q * Q) * nat -> Prop} : forall l acc, Forall P l -> Forall P acc ->
  Forall P (fold_left (fun a x => Intervals.ins_by_start x a) l acc).
Proof.
  induction l as [|x l IH]; intros acc Hl Ha; [exact Ha|]. inversion Hl; subst. cbn [fold_left].
  apply IH; [assumption|apply Forall_ins; assumption].
Qed.
Lemma Forall_combine_seq : forall (pre ivs : list (Q * Q)),
  Forall (fun x => nth_error (pre ++ ivs) (snd x) = Some (fst x)) (combine ivs (seq (length pre) (length ivs))).
Proof.
  intros pre ivs. revert pre. induction ivs as [|v t IH]; intros pre; [constructor|].
  cbn [length seq combine]. constructor.
  - cbn [fst snd]. rewrite nth_error_app2 by lia. rewrite Nat.sub_diag. reflexivity.
  - specialize (IH (pre ++ [v])). rewrite <- app_assoc in IH. cbn [app] in IH. rewrite app_length in IH. cbn [length] in IH.
    replace (length pre + 1)%nat with (S (length pre)) in IH by lia. exact IH.
Qed.
Lemma sorted_nth ivs : Forall (fun x => nth_error ivs (snd x) = Some (fst x)) (Intervals.sort_indexed_ivs ivs).
Proof.
  unfold Intervals.sort_indexed_ivs. apply Forall_fold_ins; [|constructor]. apply (Forall_combine_seq [] ivs).
Qed.
Lemma norm_idx_of_nat k n : norm_idx (Z.of_nat k) n = if (k <? n)%nat then Some k else None.
Proof.
  unfold norm_idx. destruct k as [|k].
  - reflexivity.
  - rewrite Nat2Z.inj_succ. unfold Z.succ. destruct (Z.of_nat k) eqn:E; cbn [Z.add]; try lia.
    + replace (Pos.to_nat 1) with (S k) by lia. reflexivity.
    + replace (Pos.to_nat (p + 1)) with (S k) by lia. reflexivity.
Qed.
Lemma rows_at_sorted (ivs : list (Q * Q)) : forall s, Forall (fun x : (Q * Q) * nat => nth_error ivs (snd x) = Some (fst x)) s ->
  rows_at ivs (map Z.of_nat (map snd s)) = OK (map fst s).
Proof.
  induction s as [|x s IH]; intros H; [reflexivity|]. inversion H as [|? ? Hx Hs]; subst.
  cbn [map rows_at]. rewrite norm_idx_of_nat.
  assert (Hk : (snd x < length ivs)%nat) by (apply nth_error_Some; rewrite Hx; discriminate).
  apply Nat.ltb_lt in Hk. rewrite Hk, Hx, (IH Hs). reflexivity.
Qed.
Lemma get_item_list_nat own (l : list val) p k :
  get_item (VList own l) (VInt p (Z.of_nat k)) = match nth_error l k with Some a => OK a | None => EXN IndexError end.
Proof.
  unfold get_item. rewrite norm_idx_of_nat. destruct (k <? length l)%nat eqn:E.
  - destruct (nth_error l k) eqn:En; [reflexivity|]. apply nth_error_None in En. apply Nat.ltb_lt in E. lia.
  - apply Nat.ltb_ge in E. apply nth_error_None in E. rewrite E. reflexivity.
Qed.
Lemma get_item_rows l idx : get_item (VMat l) (VArrZ idx) = (r <~ rows_at l idx ;; OK (VMat r)).
Proof. reflexivity. Qed.
Definition res_list (r : res (list val)) : out (list val) := match r with Ok l => OK l | Raise e => EXN e end.
Lemma pick_labels own (l : list val) : forall s : list ((Q * Q) * nat),
  mapO (fun el : val => y <~ match el with VUnbound => EXN OtherExn | _ => OK el end ;; get_item (VList own l) y) (map (VInt false) (map Z.of_nat (map snd s)))
  = res_list (Intervals.mapM (fun x : (Q * Q) * nat => match nth_error l (snd x) with Some a => Ok a | None => Raise IndexError end) s).
Proof.
  induction s as [|x s IH]; [reflexivity|]. cbn [map mapO Intervals.mapM obind]. rewrite get_item_list_nat, IH.
  destruct (nth_error l (snd x)); [|reflexivity]. cbn [obind].
  destruct (Intervals.mapM _ s); reflexivity.
Qed.

Definition res_sort (r : res (list Intervals.iv * option (list val))) : out val :=
  match r with
  | Ok (s, None) => OK (VMat s)
  | Ok (s, Some ls) => OK (VTup [VMat s; VList true ls])
  | Raise e => EXN e
  end.

Theorem sort_labeled_intervals_tie : forall ext ivs own labs,
  run_fun iv_sigs ext gen_sort_labeled_intervals [VMat ivs; lab_val own labs]
  = res_sort (Intervals.sort_labeled_intervals ivs labs).
Proof.
  intros ext ivs own labs. unfold run_fun, Intervals.sort_labeled_intervals. cbn. rewrite get_col_0. cbn.
  rewrite argsort_sorted, get_item_rows, rows_at_sorted by apply sorted_nth. cbn.
  destruct labs as [l|]; cbn; [|reflexivity].
  rewrite pick_labels. unfold Intervals.iv. destruct (Intervals.mapM _ _); reflexivity.
Qed.
Print Assumptions sort_labeled_intervals_tie.

End SortTie.

Section IndexTie.
(* ================================================================== index_labels *)
Import Intervals.
Local Open Scope nat_scope.
Lemma seqb_iff : forall a b : str, seqb a b = true <-> a = b.
Proof.
  induction a as [|x a IH]; intros [|y b]; cbn [seqb]; split; intros H; try reflexivity; try discriminate.
  - apply andb_true_iff in H. destruct H as [E H]. apply Nat.eqb_eq in E. apply IH in H. subst. reflexivity.
  - inversion H; subst. rewrite Nat.eqb_refl. apply (proj2 (IH b) eq_refl).
Qed.
Lemma In_ins_str s x l : In x (ins_str s l) <-> x = s \/ In x l.
Proof. induction l as [|t l IH]; cbn [ins_str]; [cbn; intuition|].
  destruct (str_ltb s t); [cbn; intuition|]. destruct (seqb s t) eqn:E.
  - apply seqb_iff in E. subst. cbn. intuition.
  - cbn [In]. rewrite IH. intuition. Qed.
Lemma In_sorted_set x l : In x (sorted_set l) <-> In x l.
Proof. induction l as [|a l IH]; [reflexivity|]. change (sorted_set (a :: l)) with (ins_str a (sorted_set l)).
  rewrite In_ins_str, IH. cbn. intuition. Qed.
Lemma str_ltb_irrefl a : str_ltb a a = false.
Proof. induction a as [|x a IH]; [reflexivity|]. cbn [str_ltb]. rewrite Nat.ltb_irrefl, Nat.eqb_refl, IH. reflexivity. Qed.
Lemma str_ltb_trans a : forall b c, str_ltb a b = true -> str_ltb b c = true -> str_ltb a c = true.
Proof. induction a as [|x a IH]; intros [|y b] [|z c]; cbn [str_ltb]; try discriminate; try reflexivity.
  intros H1 H2. apply orb_true_iff in H1. apply orb_true_iff in H2. apply orb_true_iff.
  destruct H1 as [H1|H1], H2 as [H2|H2].
  - left. apply Nat.ltb_lt in H1. apply Nat.ltb_lt in H2. apply Nat.ltb_lt. lia.
  - apply andb_true_iff in H2. destruct H2 as [E _]. apply Nat.eqb_eq in E. subst. left. exact H1.
  - apply andb_true_iff in H1. destruct H1 as [E _]. apply Nat.eqb_eq in E. subst. left. exact H2.
  - apply andb_true_iff in H1. apply andb_true_iff in H2. destruct H1 as [E1 L1], H2 as [E2 L2]. apply Nat.eqb_eq in E1. apply Nat.eqb_eq in E2. subst.
    right. rewrite Nat.eqb_refl. cbn [andb]. exact (IH b c L1 L2). Qed.
Lemma str_ltb_total a : forall b, str_ltb a b = false -> seqb a b = false -> str_ltb b a = true.
Proof. induction a as [|x a IH]; intros [|y b]; cbn [str_ltb seqb]; try discriminate; try reflexivity.
  intros H1 H2. apply orb_false_iff in H1. destruct H1 as [L E]. apply Nat.ltb_ge in L.
  destruct (Nat.eqb_spec x y) as [->|Ne].
  - cbn [andb] in *. rewrite Nat.eqb_refl, Nat.ltb_irrefl. cbn [orb andb]. apply IH; assumption.
  - apply orb_true_iff. left. apply Nat.ltb_lt. lia. Qed.
Definition sincr (l : list str) : Prop := StronglySorted (fun a b => str_ltb a b = true) l.
Lemma ins_str_sorted s l : sincr l -> sincr (ins_str s l).
Proof. induction 1 as [|t l Hs IH Hf]; cbn [ins_str]; [repeat constructor|].
  destruct (str_ltb s t) eqn:E1.
  - constructor; [constructor; assumption|]. constructor; [exact E1|]. rewrite Forall_forall in *. intros y Hy. exact (str_ltb_trans _ _ _ E1 (Hf y Hy)).
  - destruct (seqb s t) eqn:E2; [constructor; assumption|].
    constructor; [exact IH|]. rewrite Forall_forall in *. intros y Hy. apply In_ins_str in Hy. destruct Hy as [->|Hy]; [apply str_ltb_total; assumption|auto]. Qed.
Lemma sorted_set_sorted l : sincr (sorted_set l).
Proof. induction l as [|a l IH]; [constructor|]. change (sorted_set (a :: l)) with (ins_str a (sorted_set l)). apply ins_str_sorted, IH. Qed.
Lemma sincr_NoDup l : sincr l -> NoDup l.
Proof. induction 1 as [|t l Hs IH Hf]; constructor; [|exact IH]. intros Hi. rewrite Forall_forall in Hf. specialize (Hf t Hi). rewrite str_ltb_irrefl in Hf. discriminate. Qed.
Lemma sorted_set_NoDup l : NoDup (sorted_set l).
Proof. apply sincr_NoDup, sorted_set_sorted. Qed.

(* the enumerated table (index, label) from offset a *)
Definition tabf (a : nat) (u : list str) : list (nat * str) := combine (seq a (length u)) u.
Lemma tabf_snoc : forall u a x, tabf a (u ++ [x]) = tabf a u ++ [(a + length u, x)].
Proof.
  induction u as [|y u IH]; intros a x.
  - unfold tabf. cbn. rewrite Nat.add_0_r. reflexivity.
  - unfold tabf in *. cbn [app length seq combine]. rewrite IH. cbn [app]. replace (S a + length u) with (a + S (length u)) by lia. reflexivity.
Qed.
Definition l2i_entry (p : nat * str) : val * val := (VStr (snd p), VInt true (Z.of_nat (fst p))).
Definition i2l_entry (p : nat * str) : val * val := (VInt true (Z.of_nat (fst p)), VStr (snd p)).
Lemma dict_set_fresh_str : forall (d : list (val * val)) x v,
  Forall (fun kv => exists y, fst kv = VStr y /\ y <> x) d -> dict_set (VStr x) v d = OK (d ++ [(VStr x, v)]).
Proof.
  induction d as [|[k w] d IH]; intros x v H; [reflexivity|]. inversion H as [|? ? (y & Ek & Ne) Hd]; subst.
  cbn [fst] in Ek. subst k. cbn [dict_set key_eqb].
  destruct (seqb x y) eqn:E; [apply seqb_iff in E; congruence|]. rewrite (IH x v Hd). reflexivity.
Qed.
Lemma dict_set_fresh_int : forall (d : list (val * val)) p i v,
  Forall (fun kv => exists q j, fst kv = VInt q j /\ j <> i) d -> dict_set (VInt p i) v d = OK (d ++ [(VInt p i, v)]).
Proof.
  induction d as [|[k w] d IH]; intros p i v H; [reflexivity|]. inversion H as [|? ? (q & j & Ek & Ne) Hd]; subst.
  cbn [fst] in Ek. subst k. cbn [dict_set key_eqb].
  destruct (Z.eqb i j) eqn:E; [apply Z.eqb_eq in E; congruence|]. rewrite (IH p i v Hd). reflexivity.
Qed.
Lemma tabf_fst_lt : forall u a p, In p (tabf a u) -> a <= fst p < a + length u /\ In (snd p) u.
Proof.
  induction u as [|y u IH]; intros a p H; [destruct H|]. unfold tabf in H. cbn [length seq combine In] in H.
  destruct H as [<-|H]; [cbn; split; [lia|left; reflexivity]|]. apply (IH (S a)) in H. cbn [length In]. split; [lia|right; apply H].
Qed.
Lemma dict_get_tab : forall u a s,
  dict_get (VStr s) (map l2i_entry (tabf a u))
  = match find_idx (seqb s) u with Some k => OK (VInt true (Z.of_nat (a + k))) | None => EXN KeyError end.
Proof.
  induction u as [|y u IH]; intros a s; [reflexivity|]. unfold tabf. cbn [length seq combine map l2i_entry fst snd dict_get key_eqb find_idx].
  destruct (seqb s y); [rewrite Nat.add_0_r; reflexivity|]. fold (tabf (S a) u). fold l2i_entry. rewrite IH.
  destruct (find_idx (seqb s) u); cbn [option_map]; [|reflexivity]. replace (S a + n) with (a + S n) by lia. reflexivity.
Qed.
Lemma find_idx_In : forall u s, In s u -> exists k, find_idx (seqb s) u = Some k.
Proof.
  induction u as [|y u IH]; intros s H; [destruct H|]. cbn [find_idx]. destruct (seqb s y) eqn:E; [eexists; reflexivity|].
  destruct H as [->|H]; [rewrite (proj2 (seqb_iff s s) eq_refl) in E; discriminate|]. destruct (IH s H) as [k ->]. eexists; reflexivity.
Qed.
Lemma all_strs_map l : all_strs (map VStr l) = Some l.
Proof. induction l as [|x l IH]; [reflexivity|]. cbn [map all_strs]. rewrite IH. reflexivity. Qed.
Local Arguments iv_sigs : simpl never.
Local Arguments Z.of_nat : simpl never.
Local Arguments for_loop : simpl never.
Local Arguments mapO : simpl never.
Local Arguments sorted_set : simpl never.
Local Arguments lower_ascii : simpl never.
Local Arguments dict_set : simpl never.
Local Arguments dict_get : simpl never.
Local Arguments all_strs : simpl never.

Definition il_env (labv csv l2i i2l idx s ind : val) : env :=
  [("labels", labv); ("case_sensitive", csv); ("label_to_index", l2i); ("index_to_label", i2l); ("index", idx); ("s", s);
   ("indices", ind)]%string.
Definition il_prefix := firstn 3 (f_body gen_index_labels).
Definition il_loop := nth 3 (f_body gen_index_labels) SPass.
Definition il_tail := skipn 4 (f_body gen_index_labels).
Definition il_body : list stmt := match il_loop with SFor _ _ b => b | _ => [] end.

Lemma mapO_map_ok {A} (f : val -> out val) (g h : A -> val) : forall l,
  (forall x, In x l -> f (g x) = OK (h x)) -> mapO f (map g l) = OK (map h l).
Proof.
  induction l as [|x l IH]; intros H; [reflexivity|]. cbn [map]. unfold mapO; fold @mapO.
  rewrite (H x (or_introl eq_refl)), IH by (intros y Hy; apply H; right; exact Hy). reflexivity.
Qed.
Lemma il_prefix_run : forall ext own labels cs,
  run_block (exec iv_sigs ext) il_prefix (il_env (VList own (map VStr labels)) (VBool cs) VUnbound VUnbound VUnbound VUnbound VUnbound)
  = SNorm (il_env (if cs then VList own (map VStr labels) else VList true (map VStr (map lower_ascii labels)))
             (VBool cs) (VDict true []) (VDict true []) VUnbound VUnbound VUnbound).
Proof.
  intros. unfold il_prefix. cbn. destruct cs; cbn; [reflexivity|].
  rewrite (mapO_map_ok _ VStr (fun x => VStr (lower_ascii x))) by (intros; reflexivity). cbn. rewrite map_map. reflexivity.
Qed.

Definition il_row (p : nat * str) : val := VTup [VInt true (Z.of_nat (fst p)); VStr (snd p)].
Lemma combine_map_r {A B C} (f : B -> C) : forall (l : list A) (r : list B),
  combine l (map f r) = map (fun p => (fst p, f (snd p))) (combine l r).
Proof. induction l as [|x l IH]; intros [|y r]; try reflexivity. cbn [map combine fst snd]. rewrite IH. reflexivity. Qed.
Lemma il_loop_exec : forall ext own L csv ind,
  exec iv_sigs ext il_loop (il_env (VList own (map VStr L)) csv (VDict true []) (VDict true []) VUnbound VUnbound ind)
  = for_loop (for_step (run_block (exec iv_sigs ext)) (TTuple ["index"; "s"]%string) il_body) (map il_row (tabf 0 (sorted_set L)))
      (il_env (VList own (map VStr L)) csv (VDict true []) (VDict true []) VUnbound VUnbound ind).
Proof.
  intros. unfold il_loop. cbn. rewrite all_strs_map. cbn. rewrite map_length, combine_map_r, map_map. reflexivity.
Qed.

Lemma l2i_fresh u1 x : ~ In x u1 -> Forall (fun kv : val * val => exists y, fst kv = VStr y /\ y <> x) (map l2i_entry (tabf 0 u1)).
Proof.
  intros Hn. apply Forall_forall. intros kv Hk. apply in_map_iff in Hk. destruct Hk as (p & <- & Hp).
  exists (snd p). split; [reflexivity|]. apply tabf_fst_lt in Hp. intros E. apply Hn. rewrite <- E. apply Hp.
Qed.
Lemma i2l_fresh u1 : Forall (fun kv : val * val => exists q j, fst kv = VInt q j /\ j <> Z.of_nat (length u1)) (map i2l_entry (tabf 0 u1)).
Proof.
  apply Forall_forall. intros kv Hk. apply in_map_iff in Hk. destruct Hk as (p & <- & Hp).
  exists true, (Z.of_nat (fst p)). split; [reflexivity|]. apply tabf_fst_lt in Hp. lia.
Qed.
Lemma il_loop_run : forall ext labv csv ind rest u1 idx s, NoDup (u1 ++ rest) ->
  exists idx' s',
  for_loop (for_step (run_block (exec iv_sigs ext)) (TTuple ["index"; "s"]%string) il_body) (map il_row (tabf (length u1) rest))
    (il_env labv csv (VDict true (map l2i_entry (tabf 0 u1))) (VDict true (map i2l_entry (tabf 0 u1))) idx s ind)
  = SNorm (il_env labv csv (VDict true (map l2i_entry (tabf 0 (u1 ++ rest)))) (VDict true (map i2l_entry (tabf 0 (u1 ++ rest))))
             idx' s' ind).
Proof.
  intros ext labv csv ind rest. induction rest as [|x rest IH]; intros u1 idx s Hnd.
  - rewrite app_nil_r. eexists _, _. reflexivity.
  - unfold tabf at 1. cbn [length seq combine map]. fold (tabf (S (length u1)) rest). unfold for_loop; fold for_loop.
    assert (Hx : ~ In x u1).
    { intros Hi. apply NoDup_remove_2 in Hnd. apply Hnd. apply in_or_app. left. exact Hi. }
    assert (Es : for_step (run_block (exec iv_sigs ext)) (TTuple ["index"; "s"]%string) il_body (il_row (length u1, x))
                   (il_env labv csv (VDict true (map l2i_entry (tabf 0 u1))) (VDict true (map i2l_entry (tabf 0 u1))) idx s ind)
                 = SNorm (il_env labv csv (VDict true (map l2i_entry (tabf 0 (u1 ++ [x])))) (VDict true (map i2l_entry (tabf 0 (u1 ++ [x]))))
                            (VInt true (Z.of_nat (length u1))) (VStr x) ind)).
    { unfold for_step, il_row, il_body. cbn. rewrite (dict_set_fresh_str _ x) by (apply l2i_fresh; exact Hx). cbn.
      rewrite dict_set_fresh_int by apply i2l_fresh. cbn. rewrite tabf_snoc, !map_app. reflexivity. }
    rewrite Es. specialize (IH (u1 ++ [x]) (VInt true (Z.of_nat (length u1))) (VStr x)).
    rewrite app_length in IH. cbn [length] in IH. replace (length u1 + 1) with (S (length u1)) in IH by lia.
    rewrite <- app_assoc in IH. cbn [app] in IH. apply IH. exact Hnd.
Qed.

Definition idx_of (u : list str) (x : str) : nat := match find_idx (seqb x) u with Some k => k | None => 0 end.
Lemma il_tail_run : forall ext own L csv d2 idx s,
  run_block (exec iv_sigs ext) il_tail
    (il_env (VList own (map VStr L)) csv (VDict true (map l2i_entry (tabf 0 (sorted_set L)))) (VDict true d2) idx s VUnbound)
  = SRet (VTup [VList true (map (fun x => VInt true (Z.of_nat (idx_of (sorted_set L) x))) L); VDict true d2]).
Proof.
  intros. unfold il_tail. cbn.
  rewrite (mapO_map_ok _ VStr (fun x => VInt true (Z.of_nat (idx_of (sorted_set L) x)))).
  - reflexivity.
  - intros x Hx. cbn. rewrite dict_get_tab. unfold idx_of.
    destruct (find_idx_In (sorted_set L) x) as [k ->]; [apply In_sorted_set; exact Hx|]. reflexivity.
Qed.

Definition res_index (r : list nat * list (nat * str)) : out val :=
  OK (VTup [VList true (map (fun k => VInt true (Z.of_nat k)) (fst r)); VDict true (map i2l_entry (snd r))]).
Lemma il_body_split : f_body gen_index_labels = il_prefix ++ il_loop :: il_tail.
Proof. reflexivity. Qed.
Lemma run_block_app'' f : forall a b en,
  run_block f (a ++ b) en = match run_block f a en with SNorm en' => run_block f b en' | o => o end.
Proof.
  induction a as [|s a IH]; intros b en; [reflexivity|]. cbn [app]. rewrite !run_block_cons.
  destruct (f s en); try reflexivity. apply IH.
Qed.

Theorem index_labels_tie : forall ext own (labels : list str) (cs : bool),
  run_fun iv_sigs ext gen_index_labels [VList own (map VStr labels); VBool cs]
  = res_index (Intervals.index_labels cs labels).
Proof.
  intros ext own labels cs. unfold run_fun, exec_block. rewrite il_body_split.
  change (Nat.eqb _ _) with true. cbv iota.
  change (init_env gen_index_labels [VList own (map VStr labels); VBool cs])
    with (il_env (VList own (map VStr labels)) (VBool cs) VUnbound VUnbound VUnbound VUnbound VUnbound).
  rewrite run_block_app'', il_prefix_run, run_block_cons. unfold Intervals.index_labels, res_index. cbn [fst snd].
  set (L := if cs then labels else map lower_ascii labels).
  set (o := if cs then own else true).
  replace (if cs then VList own (map VStr labels) else VList true (map VStr (map lower_ascii labels)))
    with (VList o (map VStr L)) by (subst o L; destruct cs; reflexivity).
  rewrite il_loop_exec.
  destruct (il_loop_run ext (VList o (map VStr L)) (VBool cs) VUnbound (sorted_set L) [] VUnbound VUnbound) as (i' & s' & E).
  { cbn [app]. apply sorted_set_NoDup. }
  cbn [length app] in E. change (map l2i_entry (tabf 0 [])) with (@nil (val * val)) in E.
  change (map i2l_entry (tabf 0 [])) with (@nil (val * val)) in E. rewrite E.
  rewrite il_tail_run. unfold idx_of, tabf. rewrite map_map. reflexivity.
Qed.
Print Assumptions index_labels_tie.

End IndexTie.
