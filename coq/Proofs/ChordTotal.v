(* chord.split / chord.encode / chord.join are total up to InvalidChordException: for every input string
   they return a value or raise InvalidChord, never ValueError (tuple unpacking), TypeError (None + 1), ... *)
From Coq Require Import List Bool Arith ZArith Lia.
From ME Require Import Model.Prelude Model.Regex Model.ChordParse Gen.ChordRe Gen.ChordTables Proofs.RegexLang Proofs.RegexEquiv Proofs.ChordRegex.
Import ListNotations.

(* ---------- "Ok or InvalidChord" ---------- *)
Definition okic {A} (r : res A) := (exists x, r = Ok x) \/ r = Raise InvalidChord.
Lemma okic_ok {A} (x : A) : okic (Ok x). Proof. left; eauto. Qed.
Lemma okic_ic {A} : okic (@Raise A InvalidChord). Proof. right; reflexivity. Qed.
Lemma okic_bind {A B} (r : res A) (f : A -> res B) : okic r -> (forall x, okic (f x)) -> okic (bind r f).
Proof. intros [[x ->]| ->] H; simpl; [apply H|apply okic_ic]. Qed.
Lemma okic_validate {B} (l : str) (k : unit -> res B) : okic (k tt) -> okic (bind (validate_label l) k).
Proof. intros H. destruct (validate_label_total l) as [E|E]; rewrite E; simpl; [exact H|apply okic_ic]. Qed.

(* ---------- count / has / split_on ---------- *)
Lemma count_cons d x t : count d (x :: t) = (if Nat.eqb d x then 1 else 0) + count d t.
Proof. unfold count. simpl. destruct (Nat.eqb d x); reflexivity. Qed.
Lemma count_app d a b : count d (a ++ b) = count d a + count d b.
Proof. unfold count. rewrite filter_app, app_length. reflexivity. Qed.
Lemma count_notin d s : ~ In d s -> count d s = 0.
Proof. induction s as [|x t IH]; intros H; [reflexivity|]. rewrite count_cons. destruct (Nat.eqb d x) eqn:E.
  - apply Nat.eqb_eq in E. subst. exfalso. apply H. left; reflexivity.
  - simpl. apply IH. intros Hi. apply H. right; exact Hi. Qed.
Lemma has_count c s : has c s = true -> 1 <= count c s.
Proof. unfold has. induction s as [|x t IH]; [simpl; discriminate|]. rewrite count_cons. cbn [existsb].
  destruct (Nat.eqb c x); simpl; intros H; [lia|]. apply IH in H. lia. Qed.

Lemma split_on_len c s : length (split_on c s) = S (count c s).
Proof. induction s as [|x t IH]; [reflexivity|]. rewrite count_cons. simpl split_on. rewrite (Nat.eqb_sym c x).
  destruct (Nat.eqb x c).
  - simpl. rewrite IH. reflexivity.
  - destruct (split_on c t) as [|p ps]; simpl in *; [discriminate|exact IH]. Qed.

Lemma split_on_count d c s : forall p, In p (split_on c s) -> count d p <= count d s.
Proof. induction s as [|x t IH]; intros p Hp.
  - simpl in Hp. destruct Hp as [<-|[]]. auto.
  - rewrite count_cons. simpl in Hp. destruct (Nat.eqb x c).
    + destruct Hp as [<-|Hp]; [change (count d []) with 0; lia|]. apply IH in Hp. lia.
    + destruct (split_on c t) as [|q qs].
      * destruct Hp as [<-|[]]. rewrite count_cons. change (count d []) with 0. lia.
      * destruct Hp as [<-|Hp].
        -- rewrite count_cons. specialize (IH q (or_introl eq_refl)). lia.
        -- specialize (IH p (or_intror Hp)). lia. Qed.

(* the first character of a root: a key of PITCH_CLASSES *)
Definition head_ok (s : str) : Prop := match s with [] => True | x :: _ => In x [65;66;67;68;69;70;71] end.
Lemma split_on_head c s a r : split_on c s = a :: r -> head_ok s -> head_ok a.
Proof. destruct s as [|x t]; simpl; intros E H.
  - injection E as <- _. exact I.
  - destruct (Nat.eqb x c).
    + injection E as <- _. exact I.
    + destruct (split_on c t); injection E as <- _; exact H. Qed.

Lemma two_split c s : count c s <= 1 -> has c s = true ->
  exists a b, split_on c s = [a; b] /\ (forall d, count d a <= count d s) /\ (head_ok s -> head_ok a).
Proof. intros Hc Hh. apply has_count in Hh. pose proof (split_on_len c s) as Hl.
  destruct (split_on c s) as [|a [|b [|x y]]] eqn:E; simpl in Hl; try lia.
  exists a, b. split; [reflexivity|]. split.
  - intros d. apply (split_on_count d c s). rewrite E. left; reflexivity.
  - apply (split_on_head c s a [b] E). Qed.

(* ---------- regular-language facts ---------- *)
Lemma lang_chars r s : lang r s -> forall x, In x s -> In x (chars r).
Proof. induction 1; intros x Hx; simpl in *; try contradiction.
  - exact Hx.
  - apply in_or_app; left; auto.
  - apply in_or_app; right; auto.
  - apply in_app_or in Hx. apply in_or_app. destruct Hx; [left|right]; auto.
  - apply in_app_or in Hx. destruct Hx; auto. Qed.

(* an upper bound on the number of occurrences of c in a word of r, valid when c is under no star *)
Fixpoint maxcount (c : nat) (r : re) : nat :=
  match r with Chr d => if Nat.eqb c d then 1 else 0 | Alt a b => Nat.max (maxcount c a) (maxcount c b)
  | Cat a b => maxcount c a + maxcount c b | _ => 0 end.
Fixpoint starfree (c : nat) (r : re) : bool :=
  match r with Alt a b | Cat a b => starfree c a && starfree c b | Star a => negb (memn c (chars a)) | _ => true end.
Lemma maxcount_ok c r s : lang r s -> starfree c r = true -> count c s <= maxcount c r.
Proof. induction 1 as [|d|a b s H IH|a b s H IH|a b s1 s2 H1 IH1 H2 IH2|a|a s1 s2 H1 IH1 H2 IH2]; cbn [maxcount starfree]; intros Hs.
  - change (count c []) with 0. lia.
  - rewrite count_cons. change (count c []) with 0. destruct (Nat.eqb c d); lia.
  - apply andb_true_iff in Hs. destruct Hs as [Ha Hb]. specialize (IH Ha). lia.
  - apply andb_true_iff in Hs. destruct Hs as [Ha Hb]. specialize (IH Hb). lia.
  - apply andb_true_iff in Hs. destruct Hs as [Ha Hb]. specialize (IH1 Ha). specialize (IH2 Hb). rewrite count_app. lia.
  - change (count c []) with 0. lia.
  - rewrite count_notin; [lia|]. intros Hin.
    apply (lang_chars (Star a) (s1 ++ s2)) in Hin; [|constructor; assumption]. simpl in Hin.
    apply negb_true_iff in Hs. unfold memn in Hs.
    assert (Hx : existsb (Nat.eqb c) (chars a) = true) by (apply existsb_exists; exists c; split; [exact Hin|apply Nat.eqb_refl]).
    congruence. Qed.

Lemma harte_counts s : lang harte s -> count c_slash s <= 1 /\ count c_lpar s <= 1 /\ count c_colon s <= 1.
Proof. intros H. split; [|split].
  - exact (maxcount_ok c_slash harte s H eq_refl).
  - exact (maxcount_ok c_lpar harte s H eq_refl).
  - exact (maxcount_ok c_colon harte s H eq_refl). Qed.

Lemma lang_oneof l s : lang (oneof l) s -> exists x, In x l /\ s = [x].
Proof. unfold oneof. induction l as [|x l IH]; intros H.
  - simpl in H. inversion H.
  - destruct l as [|y l'].
    + simpl in H. inversion H; subst. exists x; split; [left; reflexivity|reflexivity].
    + change (lang (Alt (Chr x) (altl (map Chr (y :: l')))) s) in H. apply lang_Alt in H. destruct H as [H|H].
      * inversion H; subst. exists x; split; [left; reflexivity|reflexivity].
      * destruct (IH H) as (z & Hz & ->). exists z; split; [right; exact Hz|reflexivity]. Qed.

Lemma harte_head s : lang harte s -> s = [78] \/ s = [88] \/ head_ok s.
Proof. unfold harte. intros H. apply lang_Alt in H. destruct H as [H|H].
  - apply lang_oneof in H. destruct H as (x & Hx & ->). simpl in Hx. destruct Hx as [<-|[<-|[]]]; auto.
  - right; right. apply lang_Cat in H. destruct H as (s1 & s2 & -> & H1 & _). unfold h_root in H1.
    apply lang_Cat in H1. destruct H1 as (t1 & t2 & -> & Ht & _). apply lang_oneof in Ht.
    destruct Ht as (x & Hx & ->). simpl. exact Hx. Qed.

(* ---------- split ---------- *)
Definition split_tail (s : str) (omission : bool) (degs : list str) (bass : str) (reduce : bool) : res (str * str * list str * str) :=
  if omission && negb (has c_colon s) then Raise InvalidChord else
  let quality := match degs with [] => s_maj | _ => [] end in
  p <- (if has c_colon s then ab <- two (split_on c_colon s) ;; let '(rt, qn) := ab in
          Ok (rt, match qn with [] => quality | _ => lower qn end)
        else Ok (s, quality)) ;; let '(rt, quality) := p in
  let '(quality, degs) := if reduce then let '(q', add) := reduce_extended_quality quality in (q', dedup (degs ++ add))
                          else (quality, degs) in
  Ok (rt, quality, degs, bass).
Definition split_mid (s bass : str) (reduce : bool) : res (str * str * list str * str) :=
  p <- (if has c_lpar s then ab <- two (split_on c_lpar s) ;; let '(a, sd) := ab in
          Ok (a, has c_star sd, dedup (map (strip is_ws) (split_on c_comma (strip (Nat.eqb c_rpar) sd))))
        else Ok (s, false, [])) ;; let '(s, omission, degs) := p in
  split_tail s omission degs bass reduce.
Definition split_rest (s : str) (reduce : bool) : res (str * str * list str * str) :=
  if seqb s NO_CHORD then Ok (s, [], [], []) else
  p <- (if has c_slash s then two (split_on c_slash s) else Ok (s, s_one)) ;; let '(s, bass) := p in
  split_mid s bass reduce.
Lemma split_unfold s reduce : split s reduce = (_ <- validate_label s ;; split_rest s reduce).
Proof. reflexivity. Qed.

Definition good_split (s0 : str) (r : res (str * str * list str * str)) :=
  (exists rt q d b, r = Ok (rt, q, d, b) /\ (head_ok s0 -> head_ok rt)) \/ r = Raise InvalidChord.

Ltac fin_split reduce :=
  destruct reduce; [destruct (reduce_extended_quality _) as [q' add]|];
  left; do 4 eexists; (split; [reflexivity|auto]).

Lemma split_tail_spec s om degs bass reduce : count c_colon s <= 1 -> good_split s (split_tail s om degs bass reduce).
Proof. intros H58. unfold split_tail, good_split.
  destruct (om && negb (has c_colon s)); [right; reflexivity|]. cbv zeta.
  destruct (has c_colon s) eqn:Eh.
  - destruct (two_split c_colon s H58 Eh) as (a & b & E & _ & Hh). rewrite E. cbn [bind two]. fin_split reduce.
  - cbn [bind]. fin_split reduce. Qed.

Lemma split_mid_spec s bass reduce : count c_lpar s <= 1 -> count c_colon s <= 1 -> good_split s (split_mid s bass reduce).
Proof. intros H40 H58. unfold split_mid. destruct (has c_lpar s) eqn:Eh.
  - destruct (two_split c_lpar s H40 Eh) as (a & b & E & Hc & Hh). rewrite E. cbn [bind two].
    assert (Ha : count c_colon a <= 1) by (specialize (Hc c_colon); lia).
    destruct (split_tail_spec a (has c_star b) (dedup (map (strip is_ws) (split_on c_comma (strip (Nat.eqb c_rpar) b)))) bass reduce Ha)
      as [(rt & q & d & b' & -> & Hr) | ->]; [left|right; reflexivity].
    do 4 eexists. split; [reflexivity|auto].
  - cbn [bind]. apply split_tail_spec. exact H58. Qed.

Lemma split_rest_spec s reduce : count c_slash s <= 1 -> count c_lpar s <= 1 -> count c_colon s <= 1 ->
  good_split s (split_rest s reduce).
Proof. intros H47 H40 H58. unfold split_rest. destruct (seqb s NO_CHORD).
  { left. do 4 eexists. split; [reflexivity|auto]. }
  destruct (has c_slash s) eqn:Eh.
  - destruct (two_split c_slash s H47 Eh) as (a & b & E & Hc & Hh). rewrite E. cbn [bind two].
    assert (Ha : count c_lpar a <= 1) by (specialize (Hc c_lpar); lia).
    assert (Hb : count c_colon a <= 1) by (specialize (Hc c_colon); lia).
    destruct (split_mid_spec a b reduce Ha Hb) as [(rt & q & d & b' & -> & Hr) | ->]; [left|right; reflexivity].
    do 4 eexists. split; [reflexivity|auto].
  - cbn [bind]. apply split_mid_spec; assumption. Qed.

Lemma split_spec s reduce :
  (exists rt q degs bass, split s reduce = Ok (rt, q, degs, bass) /\
     (seqb s NO_CHORD = false -> seqb s X_CHORD = false -> head_ok rt))
  \/ split s reduce = Raise InvalidChord.
Proof. rewrite split_unfold. destruct (validate_label_total s) as [E|E]; rewrite E; [|right; reflexivity].
  cbn [bind]. apply validate_label_iff_harte in E. destruct (harte_counts s E) as (H1 & H2 & H3).
  destruct (split_rest_spec s reduce H1 H2 H3) as [(rt & q & d & b & Er & Hh)|Er]; [left|right; exact Er].
  exists rt, q, d, b. split; [exact Er|]. intros EN EX. apply Hh.
  destruct (harte_head s E) as [->|[->|Hs]]; [vm_compute in EN; discriminate|vm_compute in EX; discriminate|exact Hs]. Qed.

(* ---------- pitch_class_to_semitone ---------- *)
Definition pstep (acc : res (option Z) * nat) (c : nat) : res (option Z) * nat :=
  let '(r, idx) := acc in
  (match r with Raise e => Raise e | Ok st =>
     if Nat.eqb c c_sharp && negb (Nat.eqb idx 0%nat) then match st with Some v => Ok (Some (v + 1)%Z) | None => Raise TypeError end
     else if Nat.eqb c c_flat && negb (Nat.eqb idx 0%nat) then match st with Some v => Ok (Some (v - 1)%Z) | None => Raise TypeError end
     else if Nat.eqb idx 0%nat then Ok (match find (fun p => Nat.eqb (fst p) c) PITCH_CLASSES with Some p => Some (Z.of_nat (snd p)) | None => None end)
     else Raise InvalidChord end, Datatypes.S idx).
Lemma pcs_unfold s : pitch_class_to_semitone s =
  match fst (fold_left pstep s (Ok (Some 0%Z), 0)) with
  | Raise e => Raise e | Ok (Some v) => Ok (v mod 12)%Z | Ok None => Raise TypeError end.
Proof. reflexivity. Qed.

Definition pgood (r : res (option Z)) := r = Raise InvalidChord \/ exists v, r = Ok (Some v).
Lemma pstep_good r idx c : idx <> 0 -> pgood r -> exists r', pstep (r, idx) c = (r', S idx) /\ pgood r'.
Proof. intros Hi [->|[v ->]]; unfold pstep; apply Nat.eqb_neq in Hi; rewrite ?Hi; cbn [negb]; rewrite ?andb_true_r.
  - eexists; split; [reflexivity|left; reflexivity].
  - destruct (Nat.eqb c c_sharp); [eexists; split; [reflexivity|right; eauto]|].
    destruct (Nat.eqb c c_flat); eexists; (split; [reflexivity|]); [right; eauto|left; reflexivity]. Qed.
Lemma pfold_good s : forall r idx, idx <> 0 -> pgood r -> pgood (fst (fold_left pstep s (r, idx))).
Proof. induction s as [|c t IH]; intros r idx Hi Hg; [exact Hg|]. cbn [fold_left].
  destruct (pstep_good r idx c Hi Hg) as (r' & -> & Hg'). apply IH; [lia|exact Hg']. Qed.

Lemma pcs_okic s : head_ok s -> okic (pitch_class_to_semitone s).
Proof. intros H. rewrite pcs_unfold.
  assert (G : pgood (fst (fold_left pstep s (Ok (Some 0%Z), 0)))).
  { destruct s as [|x t]; [right; eexists; reflexivity|]. cbn [fold_left].
    assert (E : exists v, pstep (Ok (Some 0%Z), 0) x = (Ok (Some v), 1)).
    { simpl in H. decompose [or] H; subst; try contradiction; eexists; cbv; reflexivity. }
    destruct E as [v ->]. apply pfold_good; [lia|right; eauto]. }
  destruct G as [->|[v ->]]; [apply okic_ic|apply okic_ok]. Qed.

(* ---------- the table-driven helpers ---------- *)
Lemma sds_okic s : okic (scale_degree_to_semitone s).
Proof. unfold scale_degree_to_semitone.
  destruct (starts c_sharp s); [|destruct (starts c_flat s)]; cbv beta iota;
  destruct (lookup _ SCALE_DEGREES); (apply okic_ok || apply okic_ic). Qed.
Lemma sdb_okic s m : okic (scale_degree_to_bitmap s m).
Proof. unfold scale_degree_to_bitmap. destruct (starts c_star s); cbv beta iota;
  (apply okic_bind; [apply sds_okic|intros v; apply okic_ok]). Qed.
Lemma q2b_okic q : okic (quality_to_bitmap q).
Proof. unfold quality_to_bitmap. destruct (lookup q QUALITIES); [apply okic_ok|apply okic_ic]. Qed.
Lemma fold_okic (reduce : bool) degs : forall acc : res (list Z), okic acc ->
  okic (fold_left (fun acc d => a <- acc ;; e <- scale_degree_to_bitmap d reduce ;; Ok (vadd a e)) degs acc).
Proof. induction degs as [|d t IH]; intros acc Ha; [exact Ha|]. cbn [fold_left]. apply IH.
  apply okic_bind; [exact Ha|intros a]. apply okic_bind; [apply sdb_okic|intros e; apply okic_ok]. Qed.

(* ---------- the theorems ---------- *)
Theorem split_total : forall (s : str) (reduce : bool),
  (exists x, split s reduce = Ok x) \/ split s reduce = Raise InvalidChord.
Proof. intros s reduce. destruct (split_spec s reduce) as [(rt & q & d & b & E & _)|E]; [left; eauto|right; exact E]. Qed.

Theorem encode_total : forall (s : str) (reduce strict : bool),
  (exists x, encode s reduce strict = Ok x) \/ encode s reduce strict = Raise InvalidChord.
Proof. intros s reduce strict. change (okic (encode s reduce strict)). unfold encode.
  destruct (seqb s NO_CHORD) eqn:EN; [apply okic_ok|]. destruct (seqb s X_CHORD) eqn:EX; [apply okic_ok|].
  destruct (split_spec s reduce) as [(rt & q & degs & bass & E & Hh)|E]; rewrite E; [|apply okic_ic].
  cbn [bind]. apply okic_bind; [apply pcs_okic; auto|intros root].
  apply okic_bind; [apply sds_okic|intros b]. cbv zeta.
  apply okic_bind; [apply q2b_okic|intros bm].
  apply okic_bind; [apply fold_okic; apply okic_ok|intros bm2].
  destruct (_ && strict); [apply okic_ic|apply okic_ok]. Qed.

Theorem join_total : forall rt q exts bass,
  (exists x, join rt q exts bass = Ok x) \/ join rt q exts bass = Raise InvalidChord.
Proof. intros rt q exts bass. change (okic (join rt q exts bass)). unfold join. cbv zeta.
  apply okic_validate. apply okic_ok. Qed.

Print Assumptions split_total. Print Assumptions encode_total. Print Assumptions join_total.
