(* multipitch.metrics(..., **kwargs) for EVERY keyword dictionary Python accepts (see FrameTieMetrics.v for {} and {'window': w}):
     metrics_prefix_tie_kw   if no key of kwargs names a positional parameter of compute_num_true_positives or `chroma` (Python would
                             raise TypeError), the prefix of metrics returns the count vectors of Multipitch.metrics_trace with
                             window = kwargs['window'] if present, else the default 0.5 read from the source; every other key is
                             dropped by util.filter_kwargs (filter_kw), at both call sites, and `chroma=True` reaches the second one
                             (cf_plain, cf_chroma). *)
From Coq Require Import String.
From Coq Require Import List Bool Arith ZArith QArith Qabs Qminmax Qround Lia Lqa.
From ME Require Import Model.Prelude Model.Events Model.FrameExp Gen.FrameGen Proofs.FrameTie Proofs.FrameTieMetrics.
From ME Require Model.Multipitch.
Import ListNotations.
Open Scope Q_scope.
Local Open Scope string_scope.
(* a **kwargs dictionary that Python accepts at both call sites: no key names a positional parameter of
   compute_num_true_positives or the explicit `chroma`; any other key (unknown to the callee) is dropped by filter_kwargs *)
Definition kw_ok (kw : list (string * fv)) : Prop :=
  nodup_names (map fst kw) = true /\ lookup "ref_freqs" kw = None /\ lookup "est_freqs" kw = None /\ lookup "chroma" kw = None.
Definition cntp_names : list string := ["ref_freqs"; "est_freqs"; "window"; "chroma"].
Lemma lookup_none_mem x kw : lookup x kw = None -> mem_name x (map fst kw) = false.
Proof.
  induction kw as [|[k v] t IH]; [reflexivity|]. cbn [lookup map fst mem_name]. destruct (String.eqb x k); [discriminate|]. exact IH.
Qed.
Lemma mem_none_lookup x kw : mem_name x (map fst kw) = false -> lookup x kw = None.
Proof.
  induction kw as [|[k v] t IH]; [reflexivity|]. cbn [lookup map fst mem_name]. destruct (String.eqb x k); [discriminate|]. exact IH.
Qed.
Lemma filter_kw : forall kw, kw_ok kw ->
  filter (fun kv : string * fv => mem_name (fst kv) cntp_names) kw
  = match lookup "window" kw with Some v => [("window", v)] | None => [] end.
Proof.
  induction kw as [|[k v] t IH]; intros [Hn [H1 [H2 H3]]]; [reflexivity|].
  cbn [map fst nodup_names] in Hn. apply andb_true_iff in Hn. destruct Hn as [Hk Hn]. apply negb_true_iff in Hk.
  cbn [lookup] in H1, H2, H3 |- *. cbn [filter fst].
  destruct (String.eqb "ref_freqs" k) eqn:E1; [discriminate|]. destruct (String.eqb "est_freqs" k) eqn:E2; [discriminate|].
  destruct (String.eqb "chroma" k) eqn:E3; [discriminate|].
  assert (IH' := IH (conj Hn (conj H1 (conj H2 H3)))).
  assert (M : mem_name k cntp_names = String.eqb "window" k).
  { unfold cntp_names. cbn [mem_name]. rewrite (String.eqb_sym k "ref_freqs"), (String.eqb_sym k "est_freqs"), (String.eqb_sym k "chroma"), E1, E2, E3.
    rewrite (String.eqb_sym k "window"). cbn [orb]. rewrite orb_false_r. reflexivity. }
  rewrite M. destruct (String.eqb "window" k) eqn:E4.
  - apply String.eqb_eq in E4. subst k. rewrite IH'. rewrite (mem_none_lookup _ _ Hk). reflexivity.
  - exact IH'.
Qed.

Definition window_val (kw : list (string * fv)) : fv := match lookup "window" kw with Some v => v | None => VFlt (1#2) end.
Local Arguments frame_sigs : simpl never.
Lemma cf_plain ext kw r e : kw_ok kw ->
  call_filtered frame_sigs ext "multipitch.compute_num_true_positives" [r; e] kw
  = ext "multipitch.compute_num_true_positives" [r; e; window_val kw; VBool false].
Proof.
  intros Hk. pose proof (filter_kw kw Hk) as F. destruct Hk as [Hn _]. unfold call_filtered. sigs. cbn [map fst].
  rewrite Hn. fold cntp_names. rewrite F. unfold window_val. destruct (lookup "window" kw); reflexivity.
Qed.
Lemma cf_chroma ext kw r e : kw_ok kw ->
  call_filtered frame_sigs ext "multipitch.compute_num_true_positives" [r; e] (("chroma", VBool true) :: kw)
  = ext "multipitch.compute_num_true_positives" [r; e; window_val kw; VBool true].
Proof.
  intros Hk. pose proof (filter_kw kw Hk) as F. destruct Hk as [Hn [_ [_ Hc]]]. unfold call_filtered. sigs. cbn [map fst nodup_names].
  rewrite Hn, (lookup_none_mem _ _ Hc). cbn [negb andb]. fold cntp_names. cbn [filter fst].
  change (mem_name "chroma" cntp_names) with true. cbv iota. rewrite F. unfold window_val. destruct (lookup "window" kw); reflexivity.
Qed.

Section K.
Variable flog2 : Q -> Q.
Local Arguments for_loop : simpl never.
Local Arguments for_step : simpl never.
Local Arguments run_block : simpl never.
Local Arguments call_filtered : simpl never.
Local Arguments Multipitch.validate : simpl never.
Local Arguments Multipitch.resample_multipitch : simpl never.
Local Arguments Multipitch.compute_num_true_positives : simpl never.
Local Arguments Multipitch.frequencies_to_midi : simpl never.
Local Arguments Multipitch.midi_to_chroma : simpl never.
Local Arguments Multipitch.compute_num_freqs : simpl never.
Local Arguments Multipitch.allclose : simpl never.
Local Arguments mframes_of : simpl never.
Local Arguments frames_of : simpl never.
Local Arguments counts_val : simpl never.
Local Arguments any_zero : simpl never.
Local Arguments allclose_gen : simpl never.
Local Arguments cnt : simpl never.
Local Arguments window_val : simpl never.

Ltac cfk Hk := repeat match goal with
  | |- context [call_filtered frame_sigs ?x "multipitch.compute_num_true_positives" [?r; ?e] (("chroma"%string, VBool true) :: ?k)] =>
      rewrite (cf_chroma x k r e Hk)
  | |- context [call_filtered frame_sigs ?x "multipitch.compute_num_true_positives" [?r; ?e] ?k] => rewrite (cf_plain x k r e Hk)
  end.
Ltac gok Hk Hw := repeat (progress (rb; cbn; unfold call_ext; sigs; cfk Hk; rewrite ?Hw)).
Ltac advk Hk Hw Hzr Hz' := repeat (progress (gok Hk Hw; rewrite ?frames_of_v, ?frames_of_v', ?mframes_of_v, ?mframes_of_v', ?Hzr, ?Hz'; cbn [negb andb]; change (qltb 0 440) with true)).
Ltac tailk Hk Hw Hzr Hz' :=
  advk Hk Hw Hzr Hz'; rewrite ?Hw; advk Hk Hw Hzr Hz';
  match goal with |- context [Multipitch.compute_num_true_positives ?w false ?a ?b] =>
    destruct (Multipitch.compute_num_true_positives w false a b) as [tp|]; cbn [lift_counts]; advk Hk Hw Hzr Hz'; rewrite ?Hw; advk Hk Hw Hzr Hz'; [|reflexivity] end;
  match goal with |- context [Multipitch.compute_num_true_positives ?w true ?a ?b] =>
    destruct (Multipitch.compute_num_true_positives w true a b) as [tpc|]; cbn [lift_counts]; advk Hk Hw Hzr Hz'; [|reflexivity] end;
  unfold counts_val; repeat match goal with |- context [match ?l with [] => VArrQ [] | _ :: _ => _ end] => destruct l end; reflexivity.

(* multipitch.metrics(..., **kwargs) for every acceptable kwargs: `window` is forwarded to both calls of
   compute_num_true_positives (default 0.5), every other key is ignored *)
Theorem metrics_prefix_tie_kw : forall (kw : list (string * fv)) (w : Q) rt rf et ef, kw_ok kw -> window_val kw = VFlt w ->
  run flog2 gen_mp_metrics [VArrQ rt; v_frames rf; VArrQ et; v_frames ef; VDict kw]
  = prefix_result (hz2midi_of flog2 440) w rt rf et ef.
Proof.
  intros kw w rt rf et ef Hk Hw. rewrite prefix_result_spec. unfold prefix_spec.
  unfold run, run_fun, exec_block, v_frames. gok Hk Hw. rewrite !frames_of_v'.
  destruct (Multipitch.validate rt rf et ef) as [[]|x] eqn:V; cbn [bind lift_unit]; [|reflexivity].
  destruct (validate_ok _ _ _ _ V) as [Hnd [Hzr Hze]].
  gok Hk Hw. rewrite zeqb_nat. unfold Multipitch.resample_needed.
  destruct (Nat.eqb (length et) (length rt)) eqn:EL; cbn [negb orb].
  - rewrite allclose_eq. destruct (Multipitch.allclose et rt); cbn [negb].
    + tailk Hk Hw Hzr Hze.
    + gok Hk Hw. rewrite frames_of_v', Hnd. destruct (Multipitch.resample_multipitch et ef rt) as [ef'|] eqn:R; gok Hk Hw; [|reflexivity].
      pose proof (resample_nz _ _ _ _ Hze R) as Hz'. tailk Hk Hw Hzr Hz'.
  - gok Hk Hw. rewrite frames_of_v', Hnd. destruct (Multipitch.resample_multipitch et ef rt) as [ef'|] eqn:R; gok Hk Hw; [|reflexivity].
    pose proof (resample_nz _ _ _ _ Hze R) as Hz'. tailk Hk Hw Hzr Hz'.
Qed.
End K.

Print Assumptions metrics_prefix_tie_kw.
