(* Properties of Model.Tempo (mir_eval.tempo.detection): hits are 0/1, P-score in [0, 1], both-correct implies
   one-correct, monotone in tol, symmetric in the two estimated tempi, a perfect estimate of two positive tempi scores 1,
   and the MIREX definition. *)
From Coq Require Import List Bool Arith ZArith QArith Qabs Qminmax Lia Lqa.
From ME Require Import Model.Prelude Proofs.EventsSpec Model.Tempo.
Import ListNotations.
Open Scope Q_scope.

(* ------------------------------------------------------------------------------------------ *)
(* validation                                                                                  *)
(* ------------------------------------------------------------------------------------------ *)
Lemma all_fin_two l qs : all_fin l = Some qs -> length l = 2%nat ->
  exists a b, l = [Fin a; Fin b] /\ qs = [a; b].
Proof. destruct l as [|[a| | |] [|[b| | |] [|c t]]]; cbn; intros H L; try discriminate.
  injection H as <-. now exists a, b. Qed.

Lemma validate_tempi_inv l refb qs : validate_tempi l refb = Ok qs ->
  exists a b, l = [Fin a; Fin b] /\ qs = [a; b] /\ 0 <= a /\ 0 <= b /\ (refb = true -> ~ (a == 0 /\ b == 0)).
Proof. unfold validate_tempi. destruct (length l =? 2)%nat eqn:L; cbn [negb]; [|discriminate].
  apply Nat.eqb_eq in L. destruct (all_fin l) as [q|] eqn:F; [|discriminate].
  destruct (all_fin_two l q F L) as (a & b & -> & ->).
  cbn [existsb forallb]. destruct (qltb a 0) eqn:Ea; [discriminate|]. destruct (qltb b 0) eqn:Eb; [discriminate|].
  cbn [orb]. apply qltb_false in Ea, Eb.
  destruct (refb && (qeqb a 0 && (qeqb b 0 && true))) eqn:Z; [discriminate|]. intros H. injection H as <-.
  exists a, b. repeat split; try assumption. intros -> [Za Zb]. apply qeqb_true in Za, Zb.
  cbn in Z. rewrite Za, Zb in Z. discriminate. Qed.

Lemma validate_inv ref w est r e : validate ref w est = Ok (r, e) ->
  exists r0 r1 e0 e1, ref = [Fin r0; Fin r1] /\ est = [Fin e0; Fin e1] /\ r = [r0; r1] /\ e = [e0; e1]
    /\ 0 <= r0 /\ 0 <= r1 /\ ~ (r0 == 0 /\ r1 == 0) /\ 0 <= e0 /\ 0 <= e1 /\ 0 <= w <= 1.
Proof. unfold validate. destruct (validate_tempi ref true) as [r'|] eqn:R; [|discriminate]. cbn [bind].
  destruct (validate_tempi est false) as [e'|] eqn:E; [|discriminate]. cbn [bind].
  destruct (qltb w 0) eqn:W0; [discriminate|]. destruct (qltb 1 w) eqn:W1; [discriminate|]. cbn [orb].
  intros H. injection H as <- <-. apply qltb_false in W0, W1.
  destruct (validate_tempi_inv _ _ _ R) as (r0 & r1 & -> & -> & ? & ? & Hz).
  destruct (validate_tempi_inv _ _ _ E) as (e0 & e1 & -> & -> & ? & ? & _).
  exists r0, r1, e0, e1. repeat split; auto. Qed.

(* inversion of a successful detection *)
Lemma detection_inv ref w est tol p one both : detection ref w est tol = Ok (p, one, both) ->
  exists r0 r1 e0 e1, ref = [Fin r0; Fin r1] /\ est = [Fin e0; Fin e1]
    /\ 0 <= r0 /\ 0 <= r1 /\ ~ (r0 == 0 /\ r1 == 0) /\ 0 <= e0 /\ 0 <= e1 /\ 0 <= w <= 1 /\ 0 <= tol <= 1
    /\ p = w * b2q (hit tol r0 e0 e1) + (1 - w) * b2q (hit tol r1 e0 e1)
    /\ one = hit tol r0 e0 e1 || hit tol r1 e0 e1 /\ both = hit tol r0 e0 e1 && hit tol r1 e0 e1.
Proof. unfold detection. destruct (validate ref w est) as [[r e]|] eqn:V; [|discriminate]. cbn [bind].
  destruct (qltb tol 0) eqn:T0; [discriminate|]. destruct (qltb 1 tol) eqn:T1; [discriminate|]. cbn [orb].
  apply qltb_false in T0, T1.
  destruct (validate_inv _ _ _ _ _ V) as (r0 & r1 & e0 & e1 & -> & -> & -> & -> & ? & ? & ? & ? & ? & ?).
  intros Heq. injection Heq as <- <- <-. exists r0, r1, e0, e1. repeat split; auto; tauto. Qed.

(* ------------------------------------------------------------------------------------------ *)
(* hits                                                                                        *)
(* ------------------------------------------------------------------------------------------ *)
Lemma Qdiv_le_iff a b c : 0 < c -> (a / c <= b <-> a <= b * c).
Proof. intros Hc. split; intros H.
  - assert (E : a == a / c * c) by (field; lra). rewrite E. apply Qmult_le_compat_r; lra.
  - apply Qle_shift_div_r; assumption. Qed.

(* the documented criterion |est_t - ref_t| <= tol * ref_t for one of the two estimates, for a positive reference tempo *)
Definition Hit (tol r e0 e1 : Q) : Prop := 0 < r /\ (Qabs (e0 - r) <= tol * r \/ Qabs (e1 - r) <= tol * r).

Lemma hit_spec tol r e0 e1 : hit tol r e0 e1 = true <-> Hit tol r e0 e1.
Proof. unfold hit, Hit, rel_err. rewrite andb_true_iff, qltb_true, qleb_true, Q.min_le_iff.
  rewrite (Qabs_Qminus e0 r), (Qabs_Qminus e1 r).
  split; intros [Hr H]; (split; [exact Hr|]).
  - destruct H as [H|H]; [left|right]; apply (Qdiv_le_iff _ _ _ Hr); exact H.
  - destruct H as [H|H]; [left|right]; apply (Qdiv_le_iff _ _ _ Hr); exact H. Qed.

Lemma b2q_01 b : b2q b == 0 \/ b2q b == 1.
Proof. destruct b; cbn; [right|left]; reflexivity. Qed.

Lemma hit_mono tol tol' r e0 e1 : tol <= tol' -> hit tol r e0 e1 = true -> hit tol' r e0 e1 = true.
Proof. intros Ht. rewrite !hit_spec. unfold Hit. intros [Hr H]. split; [exact Hr|].
  assert (tol * r <= tol' * r) by (apply Qmult_le_compat_r; lra).
  destruct H; [left|right]; lra. Qed.

Lemma hit_swap tol r e0 e1 : hit tol r e0 e1 = hit tol r e1 e0.
Proof. apply eq_true_iff_eq. rewrite !hit_spec. unfold Hit. tauto. Qed.

Lemma hit_self_l tol r e1 : 0 < r -> 0 <= tol -> hit tol r r e1 = true.
Proof. intros Hr Ht. apply hit_spec. split; [exact Hr|]. left.
  assert (E : r - r == 0) by ring. rewrite E. cbn. apply Qmult_le_0_compat; lra. Qed.
Lemma hit_self_r tol r e0 : 0 < r -> 0 <= tol -> hit tol r e0 r = true.
Proof. intros. rewrite hit_swap. now apply hit_self_l. Qed.

(* ------------------------------------------------------------------------------------------ *)
(* main theorems                                                                               *)
(* ------------------------------------------------------------------------------------------ *)

(* C01: the hits entering the P-score are exactly 0 or 1 and the two flags are their disjunction / conjunction *)
Theorem tempo_hits_bool ref w est tol p one both : detection ref w est tol = Ok (p, one, both) ->
  exists h0 h1 : bool, p = w * b2q h0 + (1 - w) * b2q h1 /\ one = h0 || h1 /\ both = h0 && h1
    /\ (b2q h0 == 0 \/ b2q h0 == 1) /\ (b2q h1 == 0 \/ b2q h1 == 1).
Proof. intros H. destruct (detection_inv _ _ _ _ _ _ _ H) as (r0 & r1 & e0 & e1 & _ & _ & _ & _ & _ & _ & _ & _ & _ & Hp & Ho & Hb).
  exists (hit tol r0 e0 e1), (hit tol r1 e0 e1). repeat split; auto using b2q_01. Qed.

(* C01: the P-score lies in [0, 1] (the validator has checked that the weight does) *)
Theorem tempo_pscore_range ref w est tol p one both : detection ref w est tol = Ok (p, one, both) -> 0 <= p <= 1.
Proof. intros H. destruct (detection_inv _ _ _ _ _ _ _ H) as (r0 & r1 & e0 & e1 & _ & _ & _ & _ & _ & _ & _ & Hw & _ & -> & _ & _).
  destruct (hit tol r0 e0 e1), (hit tol r1 e0 e1); cbn [b2q]; lra. Qed.

(* C07: both-correct implies one-correct *)
Theorem tempo_both_implies_one ref w est tol p one both :
  detection ref w est tol = Ok (p, one, both) -> both = true -> one = true.
Proof. intros H. destruct (detection_inv _ _ _ _ _ _ _ H) as (r0 & r1 & e0 & e1 & _ & _ & _ & _ & _ & _ & _ & _ & _ & _ & -> & ->).
  destruct (hit tol r0 e0 e1), (hit tol r1 e0 e1); cbn; congruence. Qed.

(* C07: widening tol never lowers the P-score nor clears a flag *)
Theorem tempo_tol_mono ref w est tol tol' p one both p' one' both' : tol <= tol' ->
  detection ref w est tol = Ok (p, one, both) -> detection ref w est tol' = Ok (p', one', both') ->
  p <= p' /\ (one = true -> one' = true) /\ (both = true -> both' = true).
Proof. intros Ht H H'.
  destruct (detection_inv _ _ _ _ _ _ _ H) as (r0 & r1 & e0 & e1 & Er & Ee & _ & _ & _ & _ & _ & Hw & _ & -> & -> & ->).
  destruct (detection_inv _ _ _ _ _ _ _ H') as (r0' & r1' & e0' & e1' & Er' & Ee' & _ & _ & _ & _ & _ & _ & _ & -> & -> & ->).
  rewrite Er in Er'. rewrite Ee in Ee'. injection Er' as <- <-. injection Ee' as <- <-.
  pose proof (hit_mono tol tol' r0 e0 e1 Ht) as M0. pose proof (hit_mono tol tol' r1 e0 e1 Ht) as M1.
  destruct (hit tol r0 e0 e1), (hit tol r1 e0 e1);
    try rewrite (M0 eq_refl); try rewrite (M1 eq_refl);
    destruct (hit tol' r0 e0 e1), (hit tol' r1 e0 e1); cbn [b2q orb andb]; repeat split; try congruence; lra. Qed.
Definition det_is (r : res (Q * bool * bool)) (p : Q) (o b : bool) : bool :=
  match r with Ok (p', o', b') => Qeq_bool p' p && Bool.eqb o' o && Bool.eqb b' b | Raise _ => false end.
Example tempo_tol_mono_ex :
  det_is (detection [Fin 64; Fin 128] (1#2) [Fin 60; Fin 100] (1#32)) 0 false false = true
  /\ det_is (detection [Fin 64; Fin 128] (1#2) [Fin 60; Fin 100] (1#16)) (1#2) true false = true.
Proof. split; vm_compute; reflexivity. Qed.

(* C08: the order of the two estimated tempi is irrelevant *)
Theorem tempo_est_perm ref w e0 e1 tol : detection ref w [e0; e1] tol = detection ref w [e1; e0] tol.
Proof. unfold detection, validate. destruct (validate_tempi ref true) as [r|] eqn:R; [|reflexivity]. cbn [bind].
  destruct (validate_tempi_inv _ _ _ R) as (r0 & r1 & -> & -> & _).
  unfold validate_tempi. cbn [length Nat.eqb negb].
  destruct e0 as [a| | |], e1 as [b| | |]; cbn [all_fin option_map]; try reflexivity.
  cbn [existsb forallb andb orb]. rewrite (orb_comm (qltb a 0) (qltb b 0 || false)), !orb_false_r, (orb_comm (qltb b 0)).
  destruct (qltb a 0 || qltb b 0); [reflexivity|]. cbn [bind].
  destruct (qltb w 0 || qltb 1 w); [reflexivity|]. cbn [bind]. destruct (qltb tol 0 || qltb 1 tol); [reflexivity|].
  now rewrite (hit_swap tol r0 a b), (hit_swap tol r1 a b). Qed.

(* C02: estimating exactly the two (positive) reference tempi gives P-score 1 and both flags *)
Theorem tempo_self r0 r1 w tol : 0 < r0 -> 0 < r1 -> 0 <= w <= 1 -> 0 <= tol <= 1 ->
  exists p, detection [Fin r0; Fin r1] w [Fin r0; Fin r1] tol = Ok (p, true, true) /\ p == 1.
Proof. intros H0 H1 [Hw0 Hw1] [Ht0 Ht1]. unfold detection, validate, validate_tempi.
  cbn [length Nat.eqb negb all_fin option_map existsb forallb].
  assert (A0 : qltb r0 0 = false) by (apply qltb_false; lra). assert (A1 : qltb r1 0 = false) by (apply qltb_false; lra).
  assert (Z0 : qeqb r0 0 = false) by (apply qeqb_false; lra).
  rewrite A0, A1, Z0. cbn [orb andb bind].
  assert (W0 : qltb w 0 = false) by (apply qltb_false; lra). assert (W1 : qltb 1 w = false) by (apply qltb_false; lra).
  assert (T0 : qltb tol 0 = false) by (apply qltb_false; lra). assert (T1 : qltb 1 tol = false) by (apply qltb_false; lra).
  rewrite W0, W1. cbn [orb andb bind]. rewrite T0, T1. cbn [orb andb bind].
  rewrite (hit_self_l tol r0 r1 H0 Ht0), (hit_self_r tol r1 r0 H1 Ht0). cbn [b2q orb andb].
  eexists. split; [reflexivity|]. ring. Qed.
(* with a zero reference tempo (allowed by the validator) the perfect estimate does not score 1 *)
Example tempo_self_zero_ref : det_is (detection [Fin 0; Fin 120] (1#2) [Fin 0; Fin 120] (8#100)) (1#2) true false = true.
Proof. vm_compute; reflexivity. Qed.

(* C04: MIREX P-score = weight * hit_0 + (1 - weight) * hit_1 where a reference tempo is hit iff it is positive and one of
   the two estimates satisfies |est_t - ref_t| <= tol * ref_t; one-correct / both-correct are the disjunction / conjunction *)
Theorem tempo_def ref w est tol p one both : detection ref w est tol = Ok (p, one, both) ->
  exists r0 r1 e0 e1 (h0 h1 : bool), ref = [Fin r0; Fin r1] /\ est = [Fin e0; Fin e1]
    /\ (h0 = true <-> Hit tol r0 e0 e1) /\ (h1 = true <-> Hit tol r1 e0 e1)
    /\ p == w * (if h0 then 1 else 0) + (1 - w) * (if h1 then 1 else 0)
    /\ (one = true <-> Hit tol r0 e0 e1 \/ Hit tol r1 e0 e1)
    /\ (both = true <-> Hit tol r0 e0 e1 /\ Hit tol r1 e0 e1).
Proof. intros H. destruct (detection_inv _ _ _ _ _ _ _ H) as (r0 & r1 & e0 & e1 & -> & -> & _ & _ & _ & _ & _ & _ & _ & -> & -> & ->).
  exists r0, r1, e0, e1, (hit tol r0 e0 e1), (hit tol r1 e0 e1).
  split; [reflexivity|]. split; [reflexivity|]. split; [apply hit_spec|]. split; [apply hit_spec|].
  split; [reflexivity|]. rewrite orb_true_iff, andb_true_iff, !hit_spec. tauto. Qed.

(* the successful case is exactly the validated one *)
Theorem tempo_total r0 r1 e0 e1 w tol : 0 <= r0 -> 0 <= r1 -> ~ (r0 == 0 /\ r1 == 0) -> 0 <= e0 -> 0 <= e1 ->
  0 <= w <= 1 -> 0 <= tol <= 1 -> exists out, detection [Fin r0; Fin r1] w [Fin e0; Fin e1] tol = Ok out.
Proof. intros Hr0 Hr1 Hz He0 He1 [Hw0 Hw1] [Ht0 Ht1]. unfold detection, validate, validate_tempi.
  cbn [length Nat.eqb negb all_fin option_map existsb forallb].
  rewrite (proj2 (qltb_false r0 0) Hr0), (proj2 (qltb_false r1 0) Hr1), (proj2 (qltb_false e0 0) He0), (proj2 (qltb_false e1 0) He1).
  cbn [orb andb].
  destruct (qeqb r0 0 && (qeqb r1 0 && true)) eqn:Z.
  { exfalso. apply Hz. rewrite !andb_true_iff in Z. destruct Z as (Z0 & Z1 & _). now apply qeqb_true in Z0, Z1. }
  cbn [bind]. rewrite (proj2 (qltb_false w 0) Hw0), (proj2 (qltb_false 1 w) Hw1). cbn [orb bind].
  rewrite (proj2 (qltb_false tol 0) Ht0), (proj2 (qltb_false 1 tol) Ht1). cbn [orb bind]. eexists. reflexivity. Qed.

Print Assumptions tempo_hits_bool.
Print Assumptions tempo_pscore_range.
Print Assumptions tempo_both_implies_one.
Print Assumptions tempo_tol_mono.
Print Assumptions tempo_est_perm.
Print Assumptions tempo_self.
Print Assumptions tempo_def.
Print Assumptions tempo_total.
