(* The internals of mir_eval/hierarchy.py tied to the model by TRANSLATION, part 6: _lca and _meet with their callees
   _hierarchy_bounds and _round instantiated by the GENERATED programs themselves (closed over the module), and the frame-count
   side condition of lca_tie / meet_tie discharged: the number of frames is never negative. *)
From Coq Require Import String.
From Coq Require Import List Bool Arith ZArith QArith Qabs Qminmax Qround Lia Lqa.
From ME Require Import Model.Prelude Model.Events Model.Hierarchy Model.HierExp Gen.HierGen.
From ME Require Import Proofs.HierTie Proofs.HierTieCfr Proofs.HierTieGauc Proofs.HierTieLca Proofs.HierTieMeet.
Import ListNotations.
Local Open Scope nat_scope.

(* ---------- the frame count is non-negative ---------- *)
Lemma fold_min_le t : forall x, (fold_left Qmin t x <= x)%Q.
Proof. induction t as [|y t IH]; intros x; [apply Qle_refl|]. cbn [fold_left]. eapply Qle_trans; [apply IH|apply Q.le_min_l]. Qed.
Lemma fold_max_ge t : forall x, (x <= fold_left Qmax t x)%Q.
Proof. induction t as [|y t IH]; intros x; [apply Qle_refl|]. cbn [fold_left]. eapply Qle_trans; [apply Q.le_max_l|apply IH]. Qed.
Lemma hier_bounds_le H b : hier_bounds H = Ok b -> (fst b <= snd b)%Q.
Proof.
  unfold hier_bounds. destruct (boundaries H) as [|x t]; [discriminate|]. intros E. inversion E; subst b. cbn [fst snd].
  eapply Qle_trans; [apply fold_min_le|apply fold_max_ge].
Qed.
Lemma hround_floor t fs : (0 < fs)%Q -> (hround t fs == inject_Z (Qfloor (t / fs)) * fs)%Q.
Proof. intros H. unfold hround, qmod. ring. Qed.
Lemma hround_mono a b fs : (0 < fs)%Q -> (a <= b)%Q -> (hround a fs <= hround b fs)%Q.
Proof.
  intros Hfs Hab. rewrite !hround_floor by exact Hfs. apply Qmult_le_compat_r; [|apply Qlt_le_weak; exact Hfs].
  rewrite <- Zle_Qle. apply Qfloor_resp_le. apply Qmult_le_compat_r; [exact Hab|]. apply Qlt_le_weak, Qinv_lt_0_compat. exact Hfs.
Qed.
Lemma qtrunc_nonneg x : (0 <= x)%Q -> (0 <= Hierarchy.qtrunc x)%Z.
Proof.
  intros H. unfold Hierarchy.qtrunc. replace (Qle_bool 0 x) with true by (symmetry; apply Qle_bool_iff; exact H).
  change 0%Z with (Qfloor 0). apply Qfloor_resp_le. exact H.
Qed.
Theorem frame_count_nonneg : forall (H : hier) (fs : Q) b, (0 < fs)%Q -> hier_bounds H = Ok b ->
  (0 <= Hierarchy.qtrunc ((hround (snd b) fs - hround (fst b) fs) / fs))%Z.
Proof.
  intros H fs b Hfs Hb. apply qtrunc_nonneg. apply Qle_shift_div_l; [exact Hfs|].
  pose proof (hround_mono _ _ fs Hfs (hier_bounds_le H b Hb)). lra.
Qed.

(* ---------- _lca / _meet over the generated _hierarchy_bounds and _round ---------- *)
Local Open Scope string_scope.
(* the callees _round and _hierarchy_bounds ARE the generated programs (they call nothing themselves) *)
Definition leaf_ext (argsort : list nat -> list nat) (fuel : nat) (f : string) (vs : list pv) : out pv :=
  if f =? "_round" then run_fun argsort fuel hier_sigs (fun _ _ => UNM) gen__round vs
  else if f =? "_hierarchy_bounds" then run_fun argsort fuel hier_sigs (fun _ _ => UNM) gen__hierarchy_bounds vs
  else UNM.
(* ... plus util.index_labels with a given meaning *)
Definition meet_ext (argsort : list nat -> list nat) (fuel : nat) (idx : list pv -> out pv) (f : string) (vs : list pv) : out pv :=
  if f =? "util.index_labels" then idx vs else leaf_ext argsort fuel f vs.
Local Close Scope string_scope.

Theorem lca_closed : forall argsort fuel (H : hier) (fs : Q), (0 < fs)%Q ->
  run_fun argsort fuel hier_sigs (leaf_ext argsort fuel) gen__lca [v_hier H; VFloat fs] = lift_res VSp (lca H fs).
Proof.
  intros argsort fuel H fs Hfs. apply lca_tie.
  - intros H'. apply hierarchy_bounds_tie.
  - intros t fs' Hfs'. apply round_tie. exact Hfs'.
  - intros m fs' Hfs'. apply round_mat_tie. exact Hfs'.
  - exact Hfs.
  - intros b Hb. apply (frame_count_nonneg H fs b Hfs Hb).
Qed.
Theorem meet_closed : forall argsort fuel (codes_of : list str -> list nat) (dict_of : list str -> pv) (idx : list pv -> out pv),
  (forall labs, idx [VList (map VStr labs); VBool false] = OK (VTup [VList (map zn (codes_of labs)); dict_of labs])) ->
  (forall labs, length (codes_of labs) = length labs) ->
  (forall labs i j, i < length labs -> j < length labs ->
     (nth i (codes_of labs) 0 =? nth j (codes_of labs) 0) = seqb (hlower (nth i labs [])) (hlower (nth j labs []))) ->
  forall (L : lhier) (fs : Q), (0 < fs)%Q ->
  run_fun argsort fuel hier_sigs2 (meet_ext argsort fuel idx) gen__meet [v_hier (lh_intervals L); v_labels (lh_labels L); VFloat fs]
  = lift_res VSp (meet L fs).
Proof.
  intros argsort fuel codes_of dict_of idx Hidx Hlen Hagree L fs Hfs. apply (meet_tie argsort fuel _ codes_of dict_of).
  - intros H'. apply hierarchy_bounds_tie.
  - intros t fs' Hfs'. apply round_tie. exact Hfs'.
  - intros m fs' Hfs'. apply round_mat_tie. exact Hfs'.
  - exact Hidx.
  - exact Hlen.
  - exact Hagree.
  - exact Hfs.
  - intros b Hb. apply (frame_count_nonneg _ fs b Hfs Hb).
Qed.
Check frame_count_nonneg. Print Assumptions frame_count_nonneg.
Check lca_closed. Print Assumptions lca_closed.
Check meet_closed. Print Assumptions meet_closed.

(* ---------- the program runs: one input, checked against the real interpreter ----------
   _meet([[[0,2]], [[0,.5],[.5,1.5],[1.5,2]]], [['X'], ['a','b','A']], 0.5).toarray()
     = [[2,1,1,2],[1,2,2,1],[1,2,2,1],[2,1,1,2]]   (labels 'a' and 'A' agree: index_labels lower-cases) *)
From ME Require Import Model.Intervals.
Local Open Scope nat_scope.
Definition idx_model (vs : list pv) : out pv :=
  match vs with
  | [VList l; VBool cs] =>
      match omap (fun v => match v with VStr s => Some s | _ => None end) l with
      | Some labs => OK (VTup [VList (map zn (fst (Intervals.index_labels cs labs))); VNone])
      | None => UNM end
  | _ => UNM end.
Example meet_run :
  run_fun (fun l => l) 0 hier_sigs2 (meet_ext (fun l => l) 0 idx_model) gen__meet
    [v_hier [[(0%Q, 2#1)]; [(0%Q, 1#2); (1#2, 3#2); (3#2, 2#1)]]; v_labels [[[88%nat]]; [[97%nat]; [98%nat]; [65%nat]]]; VFloat (1#2)]
  = OK (VSp [[2; 1; 1; 2]; [1; 2; 2; 1]; [1; 2; 2; 1]; [2; 1; 1; 2]]%nat).
Proof. vm_compute. reflexivity. Qed.

(* ---------- the hypotheses on util.index_labels are satisfiable: the model of Model/Intervals.v ---------- *)
Lemma seqb_eq' : forall a b : str, seqb a b = true -> a = b.
Proof.
  induction a as [|x a IH]; intros [|y b] H; try discriminate; [reflexivity|]. cbn [seqb] in H. apply andb_true_iff in H.
  destruct H as [H1 H2]. apply Nat.eqb_eq in H1. subst y. f_equal. apply IH. exact H2.
Qed.
Lemma seqb_refl' : forall a : str, seqb a a = true.
Proof. induction a as [|x a IH]; [reflexivity|]. cbn [seqb]. rewrite Nat.eqb_refl, IH. reflexivity. Qed.
Lemma find_idx_seqb_in s : forall u, In s u -> exists k, find_idx (seqb s) u = Some k /\ nth k u [] = s.
Proof.
  induction u as [|y u IH]; intros H; [destruct H|]. cbn [find_idx]. destruct (seqb s y) eqn:E.
  - exists 0. split; [reflexivity|]. symmetry. apply seqb_eq'. exact E.
  - destruct H as [->|H]; [rewrite seqb_refl' in E; discriminate|]. destruct (IH H) as (k & Hk & Hn).
    exists (S k). rewrite Hk. split; [reflexivity|exact Hn].
Qed.
Lemma in_ins_str x y l : In y (x :: l) -> In y (ins_str x l).
Proof.
  induction l as [|z l IH]; intros H; [exact H|]. cbn [ins_str]. destruct (str_ltb x z); [exact H|].
  destruct (seqb x z) eqn:E.
  - apply seqb_eq' in E. subst z. destruct H as [<-|H]; [left; reflexivity|exact H].
  - destruct H as [<-|[<-|H]]; [right; apply IH; left; reflexivity|left; reflexivity|right; apply IH; right; exact H].
Qed.
Lemma in_sorted_set s l : In s l -> In s (sorted_set l).
Proof.
  induction l as [|x l IH]; intros H; [destruct H|]. cbn [sorted_set fold_right]. fold (sorted_set l). apply in_ins_str.
  destruct H as [<-|H]; [left; reflexivity|right; apply IH; exact H].
Qed.
Definition codes_model (labs : list str) : list nat := fst (Intervals.index_labels false labs).
Lemma codes_model_len labs : length (codes_model labs) = length labs.
Proof. unfold codes_model, Intervals.index_labels. cbn [fst]. rewrite !map_length. reflexivity. Qed.
Lemma codes_model_agree labs i j : i < length labs -> j < length labs ->
  (nth i (codes_model labs) 0 =? nth j (codes_model labs) 0) = seqb (hlower (nth i labs [])) (hlower (nth j labs [])).
Proof.
  intros Hi Hj. unfold codes_model, Intervals.index_labels. cbn [fst].
  set (ls := map lower_ascii labs). set (u := sorted_set ls).
  assert (Hl : length ls = length labs) by (unfold ls; apply map_length).
  rewrite !(nth_map_lt _ ls _ 0 []) by lia.
  assert (Hn : forall k, k < length labs -> nth k ls [] = hlower (nth k labs [])).
  { intros k Hk. unfold ls. rewrite (nth_map_lt lower_ascii labs k [] []) by exact Hk. reflexivity. }
  rewrite <- !Hn by assumption.
  set (s := nth i ls []). set (t := nth j ls []).
  assert (Hs : In s u) by (apply in_sorted_set, nth_In; lia).
  assert (Ht : In t u) by (apply in_sorted_set, nth_In; lia).
  destruct (find_idx_seqb_in s u Hs) as (ks & Es & Ns). destruct (find_idx_seqb_in t u Ht) as (kt & Et & Nt).
  rewrite Es, Et. destruct (seqb s t) eqn:E.
  - apply seqb_eq' in E. rewrite E in Es. rewrite Es in Et. inversion Et. apply Nat.eqb_refl.
  - apply Nat.eqb_neq. intros Hk. subst kt. rewrite Ns in Nt. rewrite Nt, seqb_refl' in E. discriminate.
Qed.
(* _meet over the generated _hierarchy_bounds / _round and the model of util.index_labels: no hypothesis left but frame_size > 0 *)
Theorem meet_closed_model : forall argsort fuel (L : lhier) (fs : Q), (0 < fs)%Q ->
  run_fun argsort fuel hier_sigs2 (meet_ext argsort fuel idx_model) gen__meet [v_hier (lh_intervals L); v_labels (lh_labels L); VFloat fs]
  = lift_res VSp (meet L fs).
Proof.
  intros argsort fuel L fs Hfs. apply (meet_closed argsort fuel codes_model (fun _ => VNone) idx_model).
  - intros labs. unfold idx_model.
    assert (E : omap (fun v => match v with VStr s => Some s | _ => None end) (map VStr labs) = Some labs).
    { induction labs as [|x l IH]; [reflexivity|]. cbn [map omap]. rewrite IH. reflexivity. }
    rewrite E. reflexivity.
  - apply codes_model_len.
  - apply codes_model_agree.
  - exact Hfs.
Qed.
Check meet_closed_model. Print Assumptions meet_closed_model.
