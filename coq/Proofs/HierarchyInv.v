(* C17, part 1: hierarchy._count_inversions counts the pairs (x, y) in a x b with x >= y. *)
From Coq Require Import List Arith Lia Bool.
From ME Require Import Model.Prelude Model.Hierarchy.
Import ListNotations.
Local Open Scope nat_scope.

(* ---------- finite sums and pair counts ---------- *)
Definition lsum {A} (g : A -> nat) (l : list A) : nat := fold_right (fun x s => g x + s) 0 l.
Definition b2n (b : bool) : nat := if b then 1 else 0.
(* #{(x, y) in a x b | P x y} *)
Definition pair_count {A B} (P : A -> B -> bool) (a : list A) (b : list B) : nat :=
  length (filter (fun xy => P (fst xy) (snd xy)) (list_prod a b)).

Lemma lsum_cons {A} (g : A -> nat) x l : lsum g (x :: l) = g x + lsum g l.
Proof. reflexivity. Qed.
Lemma lsum_app {A} (g : A -> nat) l1 l2 : lsum g (l1 ++ l2) = lsum g l1 + lsum g l2.
Proof. induction l1 as [|x l1 IH]; cbn [app lsum fold_right]; [reflexivity|]. fold (lsum g (l1 ++ l2)). fold (lsum g l1). lia. Qed.
Lemma lsum_ext_in {A} (g h : A -> nat) l : (forall x, In x l -> g x = h x) -> lsum g l = lsum h l.
Proof.
  induction l as [|x l IH]; intros H; [reflexivity|]. rewrite !lsum_cons. rewrite (H x (or_introl eq_refl)).
  rewrite IH; [reflexivity|]. intros y Hy. apply H. now right.
Qed.
Lemma lsum_ext {A} (g h : A -> nat) l : (forall x, g x = h x) -> lsum g l = lsum h l.
Proof. intros H. apply lsum_ext_in. intros x _. apply H. Qed.
Lemma lsum_map {A B} (f : A -> B) (g : B -> nat) l : lsum g (map f l) = lsum (fun x => g (f x)) l.
Proof. induction l as [|x l IH]; [reflexivity|]. cbn [map]. rewrite !lsum_cons, IH. reflexivity. Qed.
Lemma lsum_filter {A} (f : A -> bool) (g : A -> nat) l : lsum g (filter f l) = lsum (fun x => if f x then g x else 0) l.
Proof. induction l as [|x l IH]; [reflexivity|]. cbn [filter]. rewrite lsum_cons. destruct (f x); [rewrite lsum_cons|]; rewrite IH; reflexivity. Qed.
Lemma lsum_plus {A} (g h : A -> nat) l : lsum (fun x => g x + h x) l = lsum g l + lsum h l.
Proof. induction l as [|x l IH]; [reflexivity|]. rewrite !lsum_cons, IH. lia. Qed.
Lemma lsum_mul_l {A} (c : nat) (g : A -> nat) l : lsum (fun x => c * g x) l = c * lsum g l.
Proof. induction l as [|x l IH]; [cbn; lia|]. rewrite !lsum_cons, IH. lia. Qed.
Lemma lsum_mul_r {A} (c : nat) (g : A -> nat) l : lsum (fun x => g x * c) l = lsum g l * c.
Proof. induction l as [|x l IH]; [reflexivity|]. rewrite !lsum_cons, IH. lia. Qed.
Lemma lsum_zero {A} (g : A -> nat) l : (forall x, In x l -> g x = 0) -> lsum g l = 0.
Proof. induction l as [|x l IH]; intros H; [reflexivity|]. rewrite lsum_cons, (H x (or_introl eq_refl)), IH; [reflexivity|]. intros y Hy. apply H. now right. Qed.
Lemma lsum_length_filter {A} (f : A -> bool) l : length (filter f l) = lsum (fun x => b2n (f x)) l.
Proof. induction l as [|x l IH]; [reflexivity|]. cbn [filter]. rewrite lsum_cons. destruct (f x); cbn [length b2n]; rewrite IH; reflexivity. Qed.
Lemma lsum_le {A} (g h : A -> nat) l : (forall x, In x l -> g x <= h x) -> lsum g l <= lsum h l.
Proof.
  induction l as [|x l IH]; intros H; [apply le_n|]. rewrite !lsum_cons. specialize (H x (or_introl eq_refl)) as Hx.
  assert (lsum g l <= lsum h l) by (apply IH; intros y Hy; apply H; now right). lia.
Qed.

Lemma pair_count_lsum {A B} (P : A -> B -> bool) a b :
  pair_count P a b = lsum (fun x => lsum (fun y => b2n (P x y)) b) a.
Proof.
  unfold pair_count. induction a as [|x a IH]; [reflexivity|].
  cbn [list_prod]. rewrite filter_app, app_length, IH, lsum_cons. f_equal.
  clear IH. induction b as [|y b IHb]; [reflexivity|].
  cbn [map filter fst snd]. rewrite lsum_cons. destruct (P x y); cbn [length b2n]; rewrite IHb; reflexivity.
Qed.

(* ---------- strictly increasing (value, count) lists ---------- *)
Inductive incr : wl -> Prop :=
| incr_nil : incr []
| incr_one p : incr [p]
| incr_cons p q l : fst p < fst q -> incr (q :: l) -> incr (p :: q :: l).
Lemma incr_tail p l : incr (p :: l) -> incr l.
Proof. intros H; inversion H; subst; auto; constructor. Qed.
Lemma incr_lb p l : incr (p :: l) -> forall q, In q l -> fst p < fst q.
Proof.
  revert p. induction l as [|r l IH]; intros p H q Hq; [destruct Hq|]. inversion H; subst.
  destruct Hq as [<-|Hq]; [assumption|]. specialize (IH r H4 q Hq). lia.
Qed.
Lemma incr_intro p l : incr l -> (forall q, In q l -> fst p < fst q) -> incr (p :: l).
Proof. intros Hl Hlb. destruct l as [|q l]; constructor; [apply Hlb; now left|assumption]. Qed.
Lemma uc_insert_in x l q : In q (uc_insert x l) -> fst q = x \/ In q l.
Proof.
  induction l as [|[v c] l IH]; cbn [uc_insert]; intros H.
  - destruct H as [<-|[]]. now left.
  - destruct (x <? v) eqn:E1; [destruct H as [<-|H]; [now left|now right]|].
    destruct (x =? v) eqn:E2.
    + apply Nat.eqb_eq in E2. subst v. destruct H as [<-|H]; [now left|right; now right].
    + destruct H as [<-|H]; [right; now left|]. destruct (IH H) as [?|?]; [now left|right; now right].
Qed.
Lemma incr_uc_insert x l : incr l -> incr (uc_insert x l).
Proof.
  induction l as [|[v c] l IH]; intros Hl; cbn [uc_insert]; [constructor|].
  destruct (x <? v) eqn:E1.
  - apply Nat.ltb_lt in E1. constructor; [exact E1|exact Hl].
  - apply Nat.ltb_ge in E1. destruct (x =? v) eqn:E2.
    + apply incr_intro; [eapply incr_tail; eassumption|]. intros q Hq. apply (incr_lb _ _ Hl) in Hq. exact Hq.
    + apply Nat.eqb_neq in E2. apply incr_intro; [apply IH; eapply incr_tail; eassumption|].
      intros q Hq. apply uc_insert_in in Hq. destruct Hq as [->|Hq]; [cbn; lia|]. apply (incr_lb _ _ Hl) in Hq. exact Hq.
Qed.
Lemma incr_ucounts l : incr (ucounts l).
Proof. induction l as [|x l IH]; [constructor|]. cbn [ucounts fold_right]. apply incr_uc_insert. exact IH. Qed.

(* ---------- the merge loop ---------- *)
(* weighted count of the pairs (a, b) with b <= a *)
Definition inv1 (a ca : nat) (B : wl) : nat := lsum (fun q => if fst q <=? a then ca * snd q else 0) B.
Definition winv (A B : wl) : nat := lsum (fun p => inv1 (fst p) (snd p) B) A.
Lemma wsum_lsum A : wsum A = lsum snd A.
Proof. reflexivity. Qed.
Lemma inv1_zero a ca B : (forall q, In q B -> a < fst q) -> inv1 a ca B = 0.
Proof.
  intros H. apply lsum_zero. intros q Hq. specialize (H q Hq). destruct (fst q <=? a) eqn:E; [apply Nat.leb_le in E; lia|reflexivity].
Qed.
Lemma winv_cons_r A b cb B : (forall p, In p A -> b <= fst p) -> winv A ((b, cb) :: B) = wsum A * cb + winv A B.
Proof.
  induction A as [|[a ca] A IH]; intros H; [reflexivity|].
  unfold winv in *. rewrite !lsum_cons. cbn [fst snd]. rewrite IH by (intros p Hp; apply H; now right).
  specialize (H (a, ca) (or_introl eq_refl)). cbn [fst] in H.
  unfold inv1 at 1. rewrite lsum_cons. cbn [fst snd]. fold (inv1 a ca B).
  destruct (b <=? a) eqn:E; [|apply Nat.leb_gt in E; lia]. change (wsum ((a, ca) :: A)) with (ca + wsum A). lia.
Qed.
Lemma ci_loop_spec fuel : forall A B acc, incr A -> incr B -> length A + length B <= fuel -> ci_loop fuel A B acc = acc + winv A B.
Proof.
  induction fuel as [|f IH]; intros A B acc HA HB Hf.
  - destruct A, B; cbn in *; lia.
  - destruct A as [|[a ca] A']; [cbn; lia|]. destruct B as [|[b cb] B'].
    + cbn [ci_loop]. unfold winv. rewrite lsum_zero; [lia|]. intros; reflexivity.
    + cbn [ci_loop]. destruct (a <? b) eqn:E.
      * apply Nat.ltb_lt in E. rewrite IH; [|eauto using incr_tail|auto|cbn [length] in *; lia].
        unfold winv. rewrite lsum_cons. cbn [fst snd].
        rewrite inv1_zero; [lia|]. intros q [<-|Hq]; [cbn; lia|]. apply (incr_lb _ _ HB) in Hq. cbn [fst] in Hq. lia.
      * apply Nat.ltb_ge in E. rewrite IH; [|auto|eauto using incr_tail|cbn [length] in *; lia].
        rewrite (winv_cons_r ((a, ca) :: A') b cb B'); [lia|].
        intros p [<-|Hp]; [cbn; lia|]. apply (incr_lb _ _ HA) in Hp. cbn [fst] in Hp. lia.
Qed.

(* ---------- np.unique with counts preserves the weighted pair count ---------- *)
Lemma inv1_S a c B : inv1 a (S c) B = inv1 a 1 B + inv1 a c B.
Proof. unfold inv1. rewrite <- lsum_plus. apply lsum_ext. intros q. destruct (fst q <=? a); lia. Qed.
Lemma inv1_uc_insert a ca y B : inv1 a ca (uc_insert y B) = (if y <=? a then ca else 0) + inv1 a ca B.
Proof.
  induction B as [|[v c] B IH]; cbn [uc_insert].
  - unfold inv1. cbn [lsum fold_right fst snd]. destruct (y <=? a); lia.
  - destruct (y <? v) eqn:E1.
    + unfold inv1. rewrite (lsum_cons _ (y, 1)). cbn [fst snd]. destruct (y <=? a); lia.
    + destruct (y =? v) eqn:E2.
      * apply Nat.eqb_eq in E2. subst v. unfold inv1. rewrite !lsum_cons. cbn [fst snd]. destruct (y <=? a); lia.
      * unfold inv1 in *. rewrite !lsum_cons. rewrite IH. lia.
Qed.
Lemma winv_uc_insert_l x A B : winv (uc_insert x A) B = inv1 x 1 B + winv A B.
Proof.
  induction A as [|[v c] A IH]; cbn [uc_insert].
  - unfold winv. cbn [lsum fold_right fst snd]. reflexivity.
  - destruct (x <? v) eqn:E1; [reflexivity|].
    destruct (x =? v) eqn:E2.
    + apply Nat.eqb_eq in E2. subst v. unfold winv. rewrite !lsum_cons. cbn [fst snd]. rewrite inv1_S. lia.
    + unfold winv in *. rewrite !lsum_cons, IH. lia.
Qed.
Lemma inv1_ucounts x b : inv1 x 1 (ucounts b) = lsum (fun y => b2n (y <=? x)) b.
Proof.
  induction b as [|y b IH]; [reflexivity|]. cbn [ucounts fold_right]. fold (ucounts b).
  rewrite inv1_uc_insert, IH, lsum_cons. destruct (y <=? x); reflexivity.
Qed.
Lemma winv_ucounts a b : winv (ucounts a) (ucounts b) = lsum (fun x => lsum (fun y => b2n (y <=? x)) b) a.
Proof.
  induction a as [|x a IH]; [reflexivity|]. cbn [ucounts fold_right]. fold (ucounts a).
  rewrite winv_uc_insert_l, IH, inv1_ucounts, lsum_cons. reflexivity.
Qed.

(* _count_inversions(a, b) = #{(x, y) in a x b | x >= y} *)
Theorem count_inversions_spec : forall a b : list nat,
  count_inversions a b = pair_count (fun x y => y <=? x) a b.
Proof.
  intros a b. unfold count_inversions.
  rewrite ci_loop_spec by (auto using incr_ucounts). rewrite winv_ucounts, pair_count_lsum. reflexivity.
Qed.
Print Assumptions count_inversions_spec.

Corollary count_inversions_spec_length : forall a b : list nat,
  count_inversions a b = length (filter (fun xy => snd xy <=? fst xy) (list_prod a b)).
Proof. intros. apply count_inversions_spec. Qed.
