(* C13, boundaries_to_intervals / intervals_to_boundaries: mutual inverses on contiguous segmentations up to the
   rounding to q decimals; what boundaries_to_intervals accepts although it is not "unique and ascending". *)
From Coq Require Import List Bool Arith ZArith QArith Qminmax Qabs Qround Lia Lqa.
From ME Require Import Model.Prelude Model.Intervals Proofs.IntervalsBase Proofs.IntervalsMerge.
Import ListNotations.
Open Scope Q_scope.

(* ---------------------------------------------------------------------------------------- *)
(* round_dec respects ==                                                                     *)
(* ---------------------------------------------------------------------------------------- *)
Lemma qltb_comp a b c e : a == b -> c == e -> qltb a c = qltb b e.
Proof.
  intros h1 h2. destruct (qltb a c) eqn:E1, (qltb b e) eqn:E2; qb; try reflexivity; lra.
Qed.
Lemma rint_comp x y : x == y -> rint x = rint y.
Proof.
  intros h. unfold rint. rewrite (Qfloor_comp _ _ h).
  assert (e : x - inject_Z (Qfloor y) == y - inject_Z (Qfloor y)) by lra.
  rewrite (qltb_comp _ _ (1#2) (1#2) e (Qeq_refl _)), (qltb_comp (1#2) (1#2) _ _ (Qeq_refl _) e). reflexivity.
Qed.
Lemma round_dec_comp q x y : x == y -> round_dec q x == round_dec q y.
Proof.
  intros h. unfold round_dec. assert (e : x * pow10 q == y * pow10 q) by (rewrite h; reflexivity).
  rewrite (rint_comp _ _ e). reflexivity.
Qed.

(* ---------------------------------------------------------------------------------------- *)
(* lists up to ==                                                                            *)
(* ---------------------------------------------------------------------------------------- *)
Lemma InQ_map_iff (f : Q -> Q) l z : InQ z (map f l) <-> exists x, In x l /\ z == f x.
Proof.
  unfold InQ. split.
  - intros [y [hy e]]. apply in_map_iff in hy. destruct hy as [x [<- hx]]. exists x. auto.
  - intros [x [hx e]]. exists (f x). split; [apply in_map; exact hx|exact e].
Qed.
Lemma Forall2_Qeq_InQ a b : Forall2 Qeq a b -> forall z, InQ z a <-> InQ z b.
Proof.
  induction 1 as [|x y a b hxy _ IH]; intros z; [tauto|]. rewrite !InQ_cons, IH. split; intros [e|h]; auto; left; lra.
Qed.
Lemma ssorted_Qeq a b : Forall2 Qeq a b -> ssorted a -> ssorted b.
Proof.
  induction 1 as [|x y a b hxy hab IH]; intros hs; [exact I|]. destruct hs as [h1 h2]. split; [|apply IH; exact h2].
  clear IH h2. induction hab as [|x' y' a b hxy' _ IH2]; [constructor|]. inversion h1; subst. constructor; [lra|apply IH2; assumption].
Qed.
Lemma sort_uniq_sorted_id b : ssorted b -> Forall2 Qeq (sort_uniq b) b.
Proof.
  intros hs. destruct (sort_uniq_spec b) as [h1 h2]. apply ssorted_unique; assumption.
Qed.
Lemma Forall2_Qeq_sym a b : Forall2 Qeq a b -> Forall2 Qeq b a.
Proof. induction 1; constructor; auto. symmetry. assumption. Qed.
Lemma Forall2_Qeq_trans a b c : Forall2 Qeq a b -> Forall2 Qeq b c -> Forall2 Qeq a c.
Proof.
  intros h. revert c. induction h as [|x y a b hxy _ IH]; intros c hc; inversion hc; subst; constructor.
  - lra.
  - apply IH. assumption.
Qed.

Definition pair_eq (o v : iv) : Prop := fst o == fst v /\ snd o == snd v.
Lemma adjacent_pairs_Qeq : forall a b, Forall2 Qeq a b -> Forall2 pair_eq (adjacent_pairs a) (adjacent_pairs b).
Proof.
  intros a b h. induction h as [|x y a b hxy hab IH]; [constructor|].
  destruct hab as [|x2 y2 a b h2 hab]; [constructor|].
  rewrite !adjacent_pairs_cons2. constructor; [split; assumption|exact IH].
Qed.

(* ---------------------------------------------------------------------------------------- *)
(* boundaries_to_intervals on strictly increasing input                                      *)
(* ---------------------------------------------------------------------------------------- *)
Lemma isclose_eq a u : a == u -> isclose a u = true.
Proof.
  intros h. unfold isclose. apply qleb_true.
  assert (e : Qabs (a - u) == 0) by (rewrite (Qabs_wd (a - u) 0) by lra; reflexivity).
  rewrite e. pose proof (Qabs_nonneg u). nra.
Qed.
Lemma all2_isclose : forall b u, Forall2 Qeq b u -> all2 isclose b u = true.
Proof.
  induction 1 as [|x y b u hxy _ IH]; [reflexivity|]. cbn. rewrite (isclose_eq x y hxy), IH. reflexivity.
Qed.

Theorem boundaries_to_intervals_ok b : ssorted b -> boundaries_to_intervals b = Ok (adjacent_pairs b).
Proof.
  intros hs. unfold boundaries_to_intervals.
  pose proof (sort_uniq_sorted_id b hs) as hu.
  rewrite (Forall2_len _ _ _ hu), Nat.eqb_refl. cbn [bind].
  rewrite (all2_isclose b (sort_uniq b) (Forall2_Qeq_sym _ _ hu)). reflexivity.
Qed.

(* ---------------------------------------------------------------------------------------- *)
(* roundtrip 1: boundaries -> intervals -> boundaries                                        *)
(* ---------------------------------------------------------------------------------------- *)
Lemma flat_adjacent_in : forall b, (2 <= length b)%nat -> forall x, In x (flat (adjacent_pairs b)) <-> In x b.
Proof.
  induction b as [|a b IH]; intros hl x; [cbn in hl; lia|].
  destruct b as [|c r]; [cbn in hl; lia|]. rewrite adjacent_pairs_cons2.
  change (flat ((a, c) :: adjacent_pairs (c :: r))) with (a :: c :: flat (adjacent_pairs (c :: r))).
  destruct r as [|e r].
  - cbn. tauto.
  - cbn [In]. rewrite (IH ltac:(cbn; lia) x). cbn [In]. tauto.
Qed.

(* in general: the sorted, de-duplicated list of the rounded boundaries *)
Theorem boundaries_roundtrip_gen q b : ssorted b -> (2 <= length b)%nat ->
  exists ivs, boundaries_to_intervals b = Ok ivs /\
              Forall2 Qeq (intervals_to_boundaries q ivs) (sort_uniq (map (round_dec q) b)).
Proof.
  intros hs hl. exists (adjacent_pairs b). split; [apply boundaries_to_intervals_ok; exact hs|].
  unfold intervals_to_boundaries.
  destruct (sort_uniq_spec (map (round_dec q) (flat (adjacent_pairs b)))) as [h1 h2].
  destruct (sort_uniq_spec (map (round_dec q) b)) as [g1 g2].
  apply ssorted_unique; [exact h1|exact g1|]. intros z. rewrite h2, g2, !InQ_map_iff.
  split; intros [x [hx e]]; exists x; (split; [|exact e]); apply (flat_adjacent_in b hl); exact hx.
Qed.
(* when rounding keeps the boundaries distinct: exactly the rounded boundaries *)
Theorem boundaries_roundtrip q b : ssorted b -> (2 <= length b)%nat -> ssorted (map (round_dec q) b) ->
  exists ivs, boundaries_to_intervals b = Ok ivs /\
              Forall2 Qeq (intervals_to_boundaries q ivs) (map (round_dec q) b).
Proof.
  intros hs hl hr. destruct (boundaries_roundtrip_gen q b hs hl) as [ivs [h1 h2]]. exists ivs. split; [exact h1|].
  eapply Forall2_Qeq_trans; [exact h2|]. apply sort_uniq_sorted_id. exact hr.
Qed.

(* ---------------------------------------------------------------------------------------- *)
(* roundtrip 2: contiguous segmentation -> boundaries -> intervals                           *)
(* ---------------------------------------------------------------------------------------- *)
Fixpoint contig_from (prev : Q) (l : list iv) : Prop :=
  match l with [] => True | v :: r => prev == fst v /\ fst v < snd v /\ contig_from (snd v) r end.
Definition contiguous (l : list iv) : Prop :=
  match l with [] => False | v :: r => fst v < snd v /\ contig_from (snd v) r end.
(* start of the first interval followed by all ends *)
Definition bounds (d : iv) (l : list iv) : list Q := fst (hd d l) :: map snd l.

Lemma contig_InQ q : forall r prev, contig_from prev r -> forall z,
  (z == round_dec q prev \/ InQ z (map (round_dec q) (flat r))) <->
  (z == round_dec q prev \/ InQ z (map (round_dec q) (map snd r))).
Proof.
  induction r as [|w r IH]; intros prev hc z; [cbn; tauto|].
  destruct hc as [h1 [h2 h3]].
  change (flat (w :: r)) with (fst w :: snd w :: flat r). cbn [map]. rewrite !InQ_cons.
  pose proof (round_dec_comp q _ _ h1) as e.
  specialize (IH (snd w) h3 z). split.
  - intros [h|[h|h]]; [left; exact h|left; lra|]. right. apply or_comm. apply or_comm in h.
    destruct IH as [IH1 _]. destruct h as [h|h].
    + destruct (IH1 (or_intror h)) as [g|g]; [right; exact g|left; exact g].
    + right. exact h.
  - intros [h|h]; [left; exact h|]. right. right. destruct IH as [_ IH2].
    destruct h as [h|h]; [left; exact h|]. destruct (IH2 (or_intror h)) as [g|g]; [left; exact g|right; exact g].
Qed.

Definition row_rounds_to q (o v : iv) : Prop := fst o == round_dec q (fst v) /\ snd o == round_dec q (snd v).
Lemma contig_adjacent_rows q : forall r v x, fst v < snd v -> contig_from (snd v) r -> x == round_dec q (fst v) ->
  Forall2 (row_rounds_to q) (adjacent_pairs (x :: map (round_dec q) (map snd (v :: r)))) (v :: r).
Proof.
  induction r as [|w r IH]; intros v x hv hc hx.
  - cbn. constructor; [split; [exact hx|reflexivity]|constructor].
  - cbn [map]. rewrite adjacent_pairs_cons2. constructor; [split; [exact hx|reflexivity]|].
    destruct hc as [h1 [h2 h3]]. apply (IH w (round_dec q (snd v)) h2 h3). apply round_dec_comp. exact h1.
Qed.

Lemma Forall2_compose {A B C} (P : A -> B -> Prop) (R : B -> C -> Prop) (S : A -> C -> Prop) :
  (forall a b c, P a b -> R b c -> S a c) -> forall l1 l2 l3, Forall2 P l1 l2 -> Forall2 R l2 l3 -> Forall2 S l1 l3.
Proof.
  intros H l1 l2 l3 h. revert l3. induction h; intros l3 h3; inversion h3; subst; constructor; eauto.
Qed.

Theorem intervals_roundtrip q d ivs : contiguous ivs -> ssorted (map (round_dec q) (bounds d ivs)) ->
  Forall2 Qeq (intervals_to_boundaries q ivs) (map (round_dec q) (bounds d ivs)) /\
  exists out, boundaries_to_intervals (intervals_to_boundaries q ivs) = Ok out /\ Forall2 (row_rounds_to q) out ivs.
Proof.
  intros hc hr. destruct ivs as [|v r]; [destruct hc|]. destruct hc as [hv hc].
  assert (hb : Forall2 Qeq (intervals_to_boundaries q (v :: r)) (map (round_dec q) (bounds d (v :: r)))).
  { unfold intervals_to_boundaries. destruct (sort_uniq_spec (map (round_dec q) (flat (v :: r)))) as [h1 h2].
    apply ssorted_unique; [exact h1|exact hr|]. intros z. rewrite h2.
    unfold bounds. cbn [hd]. change (flat (v :: r)) with (fst v :: snd v :: flat r). cbn [map]. rewrite !InQ_cons.
    pose proof (contig_InQ q r (snd v) hc z) as h. tauto. }
  split; [exact hb|].
  exists (adjacent_pairs (intervals_to_boundaries q (v :: r))). split.
  - apply boundaries_to_intervals_ok. unfold intervals_to_boundaries. apply (proj1 (sort_uniq_spec _)).
  - eapply (Forall2_compose pair_eq (row_rounds_to q) (row_rounds_to q)).
    + intros a b c [h1 h2] [h3 h4]. split; lra.
    + apply adjacent_pairs_Qeq. exact hb.
    + unfold bounds. cbn [hd]. apply contig_adjacent_rows; [exact hv|exact hc|reflexivity].
Qed.

(* ---------------------------------------------------------------------------------------- *)
(* satisfiability, refutations (all witnesses run on the real mir_eval)                       *)
(* ---------------------------------------------------------------------------------------- *)
Example boundaries_roundtrip_example :
  boundaries_to_intervals [0; 1 # 2; 3 # 2] = Ok [(0, 1 # 2); (1 # 2, 3 # 2)] /\
  ssorted (map (round_dec 5) [0; 1 # 2; 3 # 2]) /\
  contiguous [(0, 1 # 2); (1 # 2, 3 # 2)].
Proof.
  split; [vm_compute; reflexivity|]. split.
  - vm_compute. repeat split; repeat constructor.
  - cbn. repeat split; try lra; reflexivity.
Qed.
Example round_half_even : round_dec 5 (1 # 64) == 1562 # 100000 /\ round_dec 5 (3 # 64) == 4688 # 100000.
Proof. split; vm_compute; reflexivity. Qed.

(* two boundaries closer than the rounding step collapse into one: the roundtrip loses a boundary
   util.intervals_to_boundaries(util.boundaries_to_intervals([0.0, 2.0**-20])) -> [0.] *)
Theorem boundaries_roundtrip_collapse_refuted :
  exists b ivs, ssorted b /\ (2 <= length b)%nat /\ boundaries_to_intervals b = Ok ivs /\
                length (intervals_to_boundaries 5 ivs) <> length b.
Proof.
  exists [0; 1 # 1048576], [(0, 1 # 1048576)]. split; [cbn; repeat split; repeat constructor|].
  split; [cbn; lia|]. split; [vm_compute; reflexivity|]. vm_compute. discriminate.
Qed.
(* "unique timestamps in ascending order" is not what is checked: np.unique's length-1 result is broadcast, so a
   constant list is accepted and yields zero-duration intervals
   util.boundaries_to_intervals([1.0, 1.0, 1.0]) -> [[1, 1], [1, 1]] *)
Theorem boundaries_to_intervals_accepts_repeated_refuted :
  exists b out, ~ ssorted b /\ boundaries_to_intervals b = Ok out /\ exists v, In v out /\ fst v == snd v.
Proof.
  exists [1; 1; 1], [(1, 1); (1, 1)]. split.
  - cbn. intros [h _]. inversion h; subst. lra.
  - split; [vm_compute; reflexivity|]. exists (1, 1). split; [left; reflexivity|reflexivity].
Qed.
(* ... and np.allclose's tolerance lets a slightly descending list through (negative duration)
   util.boundaries_to_intervals([1.0 + 2.0**-20, 1.0]) -> [[1.00000095, 1.]] *)
Theorem boundaries_to_intervals_accepts_descending_refuted :
  exists b out, ~ ssorted b /\ boundaries_to_intervals b = Ok out /\ exists v, In v out /\ snd v < fst v.
Proof.
  exists [1 + (1 # 1048576); 1], [(1 + (1 # 1048576), 1)]. split.
  - cbn. intros [h _]. inversion h; subst. lra.
  - split; [vm_compute; reflexivity|]. exists (1 + (1 # 1048576), 1). split; [left; reflexivity|cbn; lra].
Qed.

Print Assumptions boundaries_to_intervals_ok.
Print Assumptions boundaries_roundtrip_gen.
Print Assumptions boundaries_roundtrip.
Print Assumptions intervals_roundtrip.
Print Assumptions boundaries_roundtrip_collapse_refuted.
Print Assumptions boundaries_to_intervals_accepts_repeated_refuted.
Print Assumptions boundaries_to_intervals_accepts_descending_refuted.
