(* C12, frame-based labelling scores under a cut of a segment into two pieces with the same label.

   segment.* (pairwise, rand_index, ari, mutual_information, nce, vmeasure) = validate_structure on the interval arrays,
   then a function of the frame label sequences util.intervals_to_samples yields.  The samples are unchanged
   (SplitBase.samples_split_invariant); here: validate_structure is unchanged, hence the `_full` wrappers of
   Model/SegmentCluster.v are.

   hierarchy.lmeasure does NOT sample through util.interpolate_intervals: _meet turns the interval ends into frame
   indices and writes a block for every pair of equally labelled segments.  The two pieces of a cut segment carry the
   same label and their frame ranges partition the range of the segment, so the meet matrix -- and therefore
   lmeasure -- is unchanged (meet_split_invariant, lmeasure_split_invariant).  tmeasure is built from the boundaries
   (labels ignored) and is NOT invariant: tmeasure_split_refuted. *)
From Coq Require Import List Bool Arith ZArith QArith Qminmax Qabs Qround Lia Lqa.
From ME Require Import Model.Prelude Model.Events Model.Hierarchy Model.SegmentCluster.
From ME Require Import Proofs.IntervalsBase Proofs.HierarchyGauc Proofs.HierarchyLca Proofs.SplitBase.
Import ListNotations.
Open Scope Q_scope.

(* ---------------------------------------------------------------------------------------- *)
(* min / max of a list of rationals with a point inserted between two others                  *)
(* ---------------------------------------------------------------------------------------- *)
Lemma qmin_list_ins pre a m post : a < m -> qmin_list (pre ++ a :: m :: m :: post) = qmin_list (pre ++ a :: post).
Proof.
  intros h. destruct pre as [|x t].
  - cbn [app qmin_list fold_left]. rewrite qmin_cut_hd by exact h. reflexivity.
  - cbn [app qmin_list]. f_equal. rewrite !fold_left_app. cbn [fold_left]. rewrite qmin_cut by exact h. reflexivity.
Qed.
Lemma qmax_list_ins pre a m b post : m < b -> qmax_list (pre ++ a :: m :: m :: b :: post) = qmax_list (pre ++ a :: b :: post).
Proof.
  intros h. destruct pre as [|x t].
  - cbn [app qmax_list fold_left]. rewrite qmax_cut by exact h. reflexivity.
  - cbn [app qmax_list]. f_equal. rewrite !fold_left_app. cbn [fold_left]. rewrite qmax_cut by exact h. reflexivity.
Qed.

Definition endsf (iv : list (Q * Q)) : list Q := flat_map (fun p => [fst p; snd p]) iv.
Lemma endsf_dup2 p a m b s : endsf (p ++ (a, m) :: (m, b) :: s) = endsf p ++ a :: m :: m :: b :: endsf s.
Proof. unfold endsf. rewrite flat_map_app. reflexivity. Qed.
Lemma endsf_dup1 p a b s : endsf (p ++ (a, b) :: s) = endsf p ++ a :: b :: endsf s.
Proof. unfold endsf. rewrite flat_map_app. reflexivity. Qed.

(* the three observations validate_structure makes of an interval array *)
Lemma existsb_neg_dup (p : list (Q * Q)) a m b s : a < m -> m < b ->
  existsb (fun x => qltb x 0) (endsf (p ++ (a, m) :: (m, b) :: s)) = existsb (fun x => qltb x 0) (endsf (p ++ (a, b) :: s)).
Proof.
  intros h1 h2. rewrite endsf_dup2, endsf_dup1, !existsb_app. cbn [existsb]. f_equal.
  destruct (qltb a 0) eqn:E1, (qltb m 0) eqn:E2, (qltb b 0) eqn:E3; cbn; try reflexivity; qb; lra.
Qed.
Lemma existsb_neg2_dup (p : list (Q * Q)) a m b s : a < m -> m < b ->
  existsb (fun v : Q * Q => qltb (fst v) 0 || qltb (snd v) 0) (p ++ (a, m) :: (m, b) :: s) =
  existsb (fun v : Q * Q => qltb (fst v) 0 || qltb (snd v) 0) (p ++ (a, b) :: s).
Proof.
  intros h1 h2. rewrite !existsb_app. cbn [existsb fst snd]. f_equal.
  destruct (qltb a 0) eqn:E1, (qltb m 0) eqn:E2, (qltb b 0) eqn:E3; cbn; try reflexivity; qb; lra.
Qed.
Lemma existsb_dur_dup (p : list (Q * Q)) a m b s : a < m -> m < b ->
  existsb (fun v : Q * Q => qleb (snd v) (fst v)) (p ++ (a, m) :: (m, b) :: s) =
  existsb (fun v : Q * Q => qleb (snd v) (fst v)) (p ++ (a, b) :: s).
Proof.
  intros h1 h2. rewrite !existsb_app. cbn [existsb fst snd]. f_equal. unfold qleb.
  destruct (Qle_bool m a) eqn:E1, (Qle_bool b m) eqn:E2, (Qle_bool b a) eqn:E3; cbn; try reflexivity; qb; lra.
Qed.

(* ---------------------------------------------------------------------------------------- *)
(* segment.validate_structure                                                                *)
(* ---------------------------------------------------------------------------------------- *)
Lemma seg_validate_one_dup p a m b s k : a < m -> m < b ->
  SegmentCluster.validate_one (p ++ (a, m) :: (m, b) :: s) (S k) = SegmentCluster.validate_one (p ++ (a, b) :: s) k.
Proof.
  intros h1 h2. unfold SegmentCluster.validate_one, SegmentCluster.validate_intervals.
  change SegmentCluster.flat with endsf.
  rewrite existsb_neg_dup, existsb_dur_dup by assumption.
  rewrite endsf_dup2, endsf_dup1, qmin_list_ins by exact h1.
  rewrite !app_length. cbn [length]. rewrite !Nat.add_succ_r. reflexivity.
Qed.
Lemma seg_qmax_dup p a m b s : m < b ->
  qmax_list (SegmentCluster.flat (p ++ (a, m) :: (m, b) :: s)) = qmax_list (SegmentCluster.flat (p ++ (a, b) :: s)).
Proof. intros h. change SegmentCluster.flat with endsf. rewrite endsf_dup2, endsf_dup1. apply qmax_list_ins. exact h. Qed.

Lemma validate_structure_dup_ref p a m b s nrl ei nel : a < m -> m < b ->
  SegmentCluster.validate_structure (p ++ (a, m) :: (m, b) :: s) (S nrl) ei nel = SegmentCluster.validate_structure (p ++ (a, b) :: s) nrl ei nel.
Proof. intros h1 h2. unfold SegmentCluster.validate_structure. rewrite seg_validate_one_dup, seg_qmax_dup by assumption. reflexivity. Qed.
Lemma validate_structure_dup_est p a m b s ri nrl nel : a < m -> m < b ->
  SegmentCluster.validate_structure ri nrl (p ++ (a, m) :: (m, b) :: s) (S nel) = SegmentCluster.validate_structure ri nrl (p ++ (a, b) :: s) nel.
Proof. intros h1 h2. unfold SegmentCluster.validate_structure. rewrite seg_validate_one_dup, seg_qmax_dup by assumption. reflexivity. Qed.

Theorem validate_structure_split i m ri nrl ei nel :
  (cuttable i m ri -> SegmentCluster.validate_structure (split_ivs i m ri) (S nrl) ei nel = SegmentCluster.validate_structure ri nrl ei nel) /\
  (cuttable i m ei -> SegmentCluster.validate_structure ri nrl (split_ivs i m ei) (S nel) = SegmentCluster.validate_structure ri nrl ei nel).
Proof.
  split; intros [v [hv [h1 h2]]]; unfold split_ivs; rewrite hv; destruct (nth_error_decomp _ i v hv) as [e _];
    destruct v as [a b]; cbn [fst snd] in *; unfold Intervals.iv in *.
  - set (P := firstn i ri) in *. set (S0 := skipn (S i) ri) in *. clearbody P S0. subst ri. apply validate_structure_dup_ref; assumption.
  - set (P := firstn i ei) in *. set (S0 := skipn (S i) ei) in *. clearbody P S0. subst ei. apply validate_structure_dup_est; assumption.
Qed.

(* the public frame-clustering scores: same validation outcome, same `empty` flag, same frame sequences *)
Theorem segment_scores_split i m ri nrl ei nel yr ye beta : cuttable i m ri ->
  pairwise_full (split_ivs i m ri) (S nrl) ei nel yr ye beta = pairwise_full ri nrl ei nel yr ye beta /\
  rand_index_full (split_ivs i m ri) (S nrl) ei nel yr ye = rand_index_full ri nrl ei nel yr ye /\
  ari_full (split_ivs i m ri) (S nrl) ei nel yr ye = ari_full ri nrl ei nel yr ye.
Proof.
  intros hc. unfold pairwise_full, rand_index_full, ari_full.
  destruct (validate_structure_split i m ri nrl ei nel) as [e _]. rewrite (e hc).
  assert (he : @is_empty (Q * Q) (split_ivs i m ri) = @is_empty (Q * Q) ri).
  { destruct hc as [v [hv _]]. unfold split_ivs. rewrite hv. destruct ri; [destruct i; discriminate|]. destruct i; reflexivity. }
  rewrite he. auto.
Qed.

(* ---------------------------------------------------------------------------------------- *)
(* hierarchy: cutting segment i of level k                                                    *)
(* ---------------------------------------------------------------------------------------- *)
Definition split_segs (i : nat) (m : Q) (lvl : list (Q * Q * str)) : list (Q * Q * str) :=
  match nth_error lvl i with
  | Some s => firstn i lvl ++ ((fst (fst s), m), snd s) :: ((m, snd (fst s)), snd s) :: skipn (S i) lvl
  | None => lvl
  end.
Definition split_level (k i : nat) (m : Q) (L : lhier) : lhier :=
  match nth_error L k with
  | Some lvl => firstn k L ++ split_segs i m lvl :: skipn (S k) L
  | None => L
  end.
(* m strictly inside segment i of level k, which starts at a non-negative time *)
Definition cuttable_h (k i : nat) (m : Q) (L : lhier) : Prop :=
  exists lvl s, nth_error L k = Some lvl /\ nth_error lvl i = Some s /\ 0 <= fst (fst s) /\ fst (fst s) < m /\ m < snd (fst s).

Lemma split_level_decomp k i m L : cuttable_h k i m L ->
  exists Lp p a b l s Ls, L = Lp ++ (p ++ ((a, b), l) :: s) :: Ls /\
    split_level k i m L = Lp ++ (p ++ ((a, m), l) :: ((m, b), l) :: s) :: Ls /\ 0 <= a /\ a < m /\ m < b.
Proof.
  intros (lvl & sg & hk & hi & h0 & h1 & h2). destruct sg as [[a b] l]. cbn [fst snd] in *.
  destruct (nth_error_decomp L k lvl hk) as [e1 _]. destruct (nth_error_decomp lvl i _ hi) as [e2 _].
  exists (firstn k L), (firstn i lvl), a, b, l, (skipn (S i) lvl), (skipn (S k) L).
  unfold split_level, split_segs. rewrite hk, hi. cbn [fst snd]. rewrite <- e2.
  repeat split; try assumption.
Qed.

(* ---------- the interval arrays: bounds and validation ---------- *)
Lemma map_fst_dup2 (p : list (Q * Q * str)) a m b l s :
  map fst (p ++ ((a, m), l) :: ((m, b), l) :: s) = map fst p ++ (a, m) :: (m, b) :: map fst s.
Proof. rewrite map_app. reflexivity. Qed.
Lemma map_fst_dup1 (p : list (Q * Q * str)) a b l s : map fst (p ++ ((a, b), l) :: s) = map fst p ++ (a, b) :: map fst s.
Proof. rewrite map_app. reflexivity. Qed.

Lemma hier_bounds_alt H : hier_bounds H =
  match qmin_list (boundaries H), qmax_list (boundaries H) with Some x, Some y => Ok (x, y) | _, _ => Raise ValueError end.
Proof. unfold hier_bounds. destruct (boundaries H); reflexivity. Qed.
Lemma boundaries_app H1 H2 : boundaries (H1 ++ H2) = boundaries H1 ++ boundaries H2.
Proof. unfold boundaries. apply flat_map_app. Qed.
Lemma boundaries_cons lvl H : boundaries (lvl :: H) = endsf lvl ++ boundaries H.
Proof. reflexivity. Qed.

Lemma hier_bounds_dup Hp p a m b s Hs : a < m -> m < b ->
  hier_bounds (Hp ++ (p ++ (a, m) :: (m, b) :: s) :: Hs) = hier_bounds (Hp ++ (p ++ (a, b) :: s) :: Hs).
Proof.
  intros h1 h2. rewrite !hier_bounds_alt, !boundaries_app, !boundaries_cons, endsf_dup2, endsf_dup1.
  rewrite <- !app_assoc. cbn [app]. rewrite !(app_assoc (boundaries Hp) (endsf p)).
  rewrite qmin_list_ins by exact h1. rewrite qmax_list_ins by exact h2. reflexivity.
Qed.

Lemma vs_one_dup p a m b s : a < m -> m < b -> vs_one (p ++ (a, m) :: (m, b) :: s) = vs_one (p ++ (a, b) :: s).
Proof.
  intros h1 h2. unfold vs_one, valid_intervals. rewrite existsb_neg2_dup, existsb_dur_dup by assumption.
  change ends with endsf. rewrite endsf_dup2, endsf_dup1, qmin_list_ins by exact h1. reflexivity.
Qed.
Lemma ends_qmax_dup p a m b s : m < b -> qmax_list (ends (p ++ (a, m) :: (m, b) :: s)) = qmax_list (ends (p ++ (a, b) :: s)).
Proof. intros h. change ends with endsf. rewrite endsf_dup2, endsf_dup1. apply qmax_list_ins. exact h. Qed.

Lemma validate_levels_dup_top p a m b s rest : a < m -> m < b ->
  validate_levels (p ++ (a, m) :: (m, b) :: s) rest = validate_levels (p ++ (a, b) :: s) rest.
Proof.
  intros h1 h2. induction rest as [|l t IH]; [reflexivity|]. cbn [validate_levels]. rewrite IH.
  unfold Hierarchy.validate_structure. rewrite vs_one_dup, ends_qmax_dup by assumption. reflexivity.
Qed.
Lemma validate_levels_dup_rest top Hp p a m b s Hs : a < m -> m < b ->
  validate_levels top (Hp ++ (p ++ (a, m) :: (m, b) :: s) :: Hs) = validate_levels top (Hp ++ (p ++ (a, b) :: s) :: Hs).
Proof.
  intros h1 h2. induction Hp as [|l t IH]; cbn [app validate_levels].
  - unfold Hierarchy.validate_structure. rewrite vs_one_dup, ends_qmax_dup by assumption. reflexivity.
  - rewrite IH. reflexivity.
Qed.
Lemma validate_hier_dup Hp p a m b s Hs : a < m -> m < b ->
  validate_hier (Hp ++ (p ++ (a, m) :: (m, b) :: s) :: Hs) = validate_hier (Hp ++ (p ++ (a, b) :: s) :: Hs).
Proof.
  intros h1 h2. destruct Hp as [|top Hp]; cbn [app validate_hier].
  - apply validate_levels_dup_top; assumption.
  - apply validate_levels_dup_rest; assumption.
Qed.

(* ---------- frames ---------- *)
Lemma frame_of_mono fs x y : 0 < fs -> x <= y -> (frame_of x fs <= frame_of y fs)%Z.
Proof.
  intros hf hxy. rewrite !quantise_exact by exact hf. apply Qfloor_resp_le.
  unfold Qdiv. apply Qmult_le_compat_r; [exact hxy|]. apply Qlt_le_weak. apply Qinv_lt_0_compat. exact hf.
Qed.
Lemma frame_of_nonneg fs x : 0 < fs -> 0 <= x -> (0 <= frame_of x fs)%Z.
Proof.
  intros hf hx. rewrite quantise_exact by exact hf. change 0%Z with (Qfloor 0). apply Qfloor_resp_le.
  unfold Qdiv. apply Qmult_le_0_compat; [exact hx|]. apply Qlt_le_weak. apply Qinv_lt_0_compat. exact hf.
Qed.
Lemma norm_idx_nonneg n z : (0 <= z)%Z -> norm_idx n z = Nat.min (Z.to_nat z) n.
Proof. intros h. unfold norm_idx. destruct (z <? 0)%Z eqn:E; [apply Z.ltb_lt in E; lia|reflexivity]. Qed.
Lemma in_slice_cut n fa fm fb i : (0 <= fa)%Z -> (fa <= fm)%Z -> (fm <= fb)%Z ->
  in_slice n (fa, fb) i = in_slice n (fa, fm) i || in_slice n (fm, fb) i.
Proof.
  intros h0 h1 h2. unfold in_slice, in_rng. cbn [fst snd]. rewrite !norm_idx_nonneg by lia.
  assert (g1 : (Z.to_nat fa <= Z.to_nat fm)%nat) by lia. assert (g2 : (Z.to_nat fm <= Z.to_nat fb)%nat) by lia.
  destruct (Nat.leb_spec (Nat.min (Z.to_nat fa) n) i), (Nat.ltb_spec i (Nat.min (Z.to_nat fb) n)),
           (Nat.ltb_spec i (Nat.min (Z.to_nat fm) n)), (Nat.leb_spec (Nat.min (Z.to_nat fm) n) i); cbn; try reflexivity; lia.
Qed.

Lemma existsb_orb {A} (f g : A -> bool) l : existsb (fun x => f x || g x) l = existsb f l || existsb g l.
Proof.
  induction l as [|x l IH]; [reflexivity|]. cbn [existsb]. rewrite IH.
  destruct (f x), (g x), (existsb f l), (existsb g l); reflexivity.
Qed.
Lemma existsb_ext_all {A} (f g : A -> bool) l : (forall x, f x = g x) -> existsb f l = existsb g l.
Proof. intros H. induction l as [|x l IH]; [reflexivity|]. cbn. rewrite H, IH. reflexivity. Qed.

(* the level's "same label" relation on frames is unchanged *)
Lemma agree_dup n (P : list seg) fa fm fb (l : str) (S0 : list seg) i j : (0 <= fa)%Z -> (fa <= fm)%Z -> (fm <= fb)%Z ->
  agree n (P ++ ((fa, fm), l) :: ((fm, fb), l) :: S0) i j = agree n (P ++ ((fa, fb), l) :: S0) i j.
Proof.
  intros h0 h1 h2. unfold agree.
  set (g := fun A B : seg => lab_agree A B && in_slice n (seg_iv A) i && in_slice n (seg_iv B) j).
  set (A0 := ((fa, fb), l) : seg). set (A1 := ((fa, fm), l) : seg). set (A2 := ((fm, fb), l) : seg).
  assert (hl : forall B, g A0 B = g A1 B || g A2 B).
  { intros B. unfold g, A0, A1, A2, lab_agree, seg_lab, seg_iv. cbn [fst snd].
    rewrite (in_slice_cut n fa fm fb i h0 h1 h2).
    destruct (seqb (hlower l) (hlower (snd B))), (in_slice n (fa, fm) i), (in_slice n (fm, fb) i), (in_slice n (fst B) j); reflexivity. }
  assert (hr : forall A, g A A0 = g A A1 || g A A2).
  { intros A. unfold g, A0, A1, A2, lab_agree, seg_lab, seg_iv. cbn [fst snd].
    rewrite (in_slice_cut n fa fm fb j h0 h1 h2).
    destruct (seqb (hlower (snd A)) (hlower l)), (in_slice n (fst A) i), (in_slice n (fa, fm) j), (in_slice n (fm, fb) j); reflexivity. }
  assert (hin : forall A, existsb (g A) (P ++ A1 :: A2 :: S0) = existsb (g A) (P ++ A0 :: S0)).
  { intros A. rewrite !existsb_app. cbn [existsb]. rewrite hr.
    destruct (existsb (g A) P), (g A A1), (g A A2), (existsb (g A) S0); reflexivity. }
  change (existsb (fun A => existsb (g A) (P ++ A1 :: A2 :: S0)) (P ++ A1 :: A2 :: S0) =
          existsb (fun A => existsb (g A) (P ++ A0 :: S0)) (P ++ A0 :: S0)).
  rewrite (existsb_ext_all _ (fun A => existsb (g A) (P ++ A0 :: S0)) _ hin).
  rewrite !existsb_app. cbn [existsb].
  assert (e0 : existsb (g A0) (P ++ A0 :: S0) = existsb (g A1) (P ++ A0 :: S0) || existsb (g A2) (P ++ A0 :: S0)).
  { rewrite <- existsb_orb. apply existsb_ext_all. exact hl. }
  rewrite e0.
  destruct (existsb _ P), (existsb (g A1) _), (existsb (g A2) _), (existsb _ S0); reflexivity.
Qed.

Lemma deepest_from_ext {X} (w w' : X -> bool) : forall H H' level cur, Forall2 (fun x y => w x = w' y) H H' ->
  deepest_from w level cur H = deepest_from w' level cur H'.
Proof.
  induction H as [|x H IH]; intros H' level cur hf; inversion hf; subst; [reflexivity|].
  cbn [deepest_from]. rewrite H2. apply IH. assumption.
Qed.
Lemma square_ext n A B : square n A -> square n B -> (forall i j, (i < n)%nat -> (j < n)%nat -> entry A i j = entry B i j) -> A = B.
Proof.
  intros [la ra] [lb rb] H. apply (nth_ext A B [] []); [congruence|]. intros i hi. rewrite la in hi.
  assert (h1 : length (nth i A []) = n) by (apply ra; apply nth_In; lia).
  assert (h2 : length (nth i B []) = n) by (apply rb; apply nth_In; lia).
  apply (nth_ext _ _ 0%nat 0%nat); [congruence|]. intros j hj. rewrite h1 in hj. apply (H i j hi hj).
Qed.

Lemma Forall2_same {A} (R : A -> A -> Prop) l : (forall x, R x x) -> Forall2 R l l.
Proof. intros H. induction l; constructor; auto. Qed.

Lemma meet_frames_dup n Fp P fa fm fb l S0 Fs : (0 <= fa)%Z -> (fa <= fm)%Z -> (fm <= fb)%Z ->
  meet_frames n (Fp ++ (P ++ ((fa, fm), l) :: ((fm, fb), l) :: S0) :: Fs) = meet_frames n (Fp ++ (P ++ ((fa, fb), l) :: S0) :: Fs).
Proof.
  intros h0 h1 h2. apply (square_ext n); try apply meet_frames_square.
  intros i j hi hj. unfold meet_frames.
  destruct (levels_from_entry n (meet_level n) (agree n) (meet_level_ok n) (Fp ++ (P ++ ((fa, fm), l) :: ((fm, fb), l) :: S0) :: Fs)
              1%nat (zeros n) (zeros_square n)) as [_ E1].
  destruct (levels_from_entry n (meet_level n) (agree n) (meet_level_ok n) (Fp ++ (P ++ ((fa, fb), l) :: S0) :: Fs)
              1%nat (zeros n) (zeros_square n)) as [_ E2].
  rewrite (E1 i j hi hj), (E2 i j hi hj). apply deepest_from_ext.
  apply Forall2_app; [apply Forall2_same; reflexivity|]. constructor; [apply agree_dup; assumption|].
  apply Forall2_same; reflexivity.
Qed.

(* ---------- meet and lmeasure ---------- *)
Lemma lh_intervals_dup2 (Lp : lhier) p a m b l s Ls :
  lh_intervals (Lp ++ (p ++ ((a, m), l) :: ((m, b), l) :: s) :: Ls) =
  lh_intervals Lp ++ (map fst p ++ (a, m) :: (m, b) :: map fst s) :: lh_intervals Ls.
Proof. unfold lh_intervals. rewrite map_app. cbn [map]. rewrite map_fst_dup2. reflexivity. Qed.
Lemma lh_intervals_dup1 (Lp : lhier) p a b l s Ls :
  lh_intervals (Lp ++ (p ++ ((a, b), l) :: s) :: Ls) = lh_intervals Lp ++ (map fst p ++ (a, b) :: map fst s) :: lh_intervals Ls.
Proof. unfold lh_intervals. rewrite map_app. cbn [map]. rewrite map_fst_dup1. reflexivity. Qed.

Theorem meet_split_invariant k i m L fs : 0 < fs -> cuttable_h k i m L -> meet (split_level k i m L) fs = meet L fs.
Proof.
  intros hf hc. destruct (split_level_decomp k i m L hc) as (Lp & p & a & b & l & s & Ls & -> & -> & h0 & h1 & h2).
  unfold meet, n_frames. rewrite lh_intervals_dup2, lh_intervals_dup1, hier_bounds_dup by assumption.
  destruct (hier_bounds _) as [bd|]; [|reflexivity]. cbn [bind]. f_equal.
  set (g := fun sg : Q * Q * str => (frame_iv fs (fst sg), snd sg)).
  rewrite !map_app. cbn [map]. rewrite !map_app. cbn [map]. unfold g at 2 3 5. cbn [fst snd]. unfold frame_iv. cbn [fst snd].
  apply meet_frames_dup.
  - apply frame_of_nonneg; cbn [fst snd]; assumption.
  - apply frame_of_mono; [exact hf|cbn [fst snd]; lra].
  - apply frame_of_mono; [exact hf|cbn [fst snd]; lra].
Qed.

(* L-measure: cutting a segment of any level of the reference or of the estimate in two pieces with the same label
   changes nothing (same exception, or the very same three rationals) *)
Theorem lmeasure_split_invariant k i m ref est fs beta :
  (cuttable_h k i m ref -> lmeasure (split_level k i m ref) est fs beta = lmeasure ref est fs beta) /\
  (cuttable_h k i m est -> lmeasure ref (split_level k i m est) fs beta = lmeasure ref est fs beta).
Proof.
  split; intros hc; unfold lmeasure; destruct (qleb fs 0) eqn:E; try reflexivity;
    assert (hf : 0 < fs) by (unfold qleb in E; qb; exact E).
  - rewrite (meet_split_invariant k i m ref fs hf hc).
    destruct (split_level_decomp k i m ref hc) as (Lp & p & a & b & l & s & Ls & -> & e2 & h0 & h1 & h2).
    rewrite e2. rewrite lh_intervals_dup2, lh_intervals_dup1, validate_hier_dup by assumption. reflexivity.
  - rewrite (meet_split_invariant k i m est fs hf hc).
    destruct (split_level_decomp k i m est hc) as (Lp & p & a & b & l & s & Ls & -> & e2 & h0 & h1 & h2).
    rewrite e2. rewrite lh_intervals_dup2, lh_intervals_dup1, validate_hier_dup by assumption. reflexivity.
Qed.

(* the hypotheses are satisfiable *)
Example lmeasure_split_example :
  let la : str := [97%nat] in let lb : str := [98%nat] in let lc : str := [99%nat] in
  let ref : lhier := [[((0, 4), la); ((4, 8), lb)]; [((0, 2), la); ((2, 4), lc); ((4, 8), la)]] in
  cuttable_h 1 2 6 ref /\
  split_level 1 2 6 ref = [[((0, 4), la); ((4, 8), lb)]; [((0, 2), la); ((2, 4), lc); ((4, 6), la); ((6, 8), la)]].
Proof.
  cbv zeta. split; [|reflexivity]. eexists; eexists. split; [reflexivity|]. split; [reflexivity|]. cbn. repeat split; lra.
Qed.

(* T-measure ignores the labels and is built from the boundaries: cutting a segment changes it.
   hierarchy.tmeasure([np.array([[0.,4.]]), np.array([[0.,2.],[2.,4.]])], [np.array([[0.,4.]]), np.array([[0.,2.],[2.,4.]])],
                      frame_size=1.0, window=4.0)           -> (1.0, 1.0, 1.0)
   the same with the estimate's second level cut at 1:  [[0.,1.],[1.,2.],[2.,4.]]  -> (1.0, 0.5, 0.666...) *)
Theorem tmeasure_split_refuted :
  exists (ref est est' : hier) fs w beta,
    est' = [[(0, 4)]; [(0, 1); (1, 2); (2, 4)]] /\ est = [[(0, 4)]; [(0, 2); (2, 4)]] /\
    tmeasure ref est false (Some w) fs beta <> tmeasure ref est' false (Some w) fs beta.
Proof.
  exists [[(0, 4)]; [(0, 2); (2, 4)]], [[(0, 4)]; [(0, 2); (2, 4)]], [[(0, 4)]; [(0, 1); (1, 2); (2, 4)]], 1, 4, 1.
  split; [reflexivity|]. split; [reflexivity|]. vm_compute. discriminate.
Qed.

Print Assumptions validate_structure_split.
Print Assumptions segment_scores_split.
Print Assumptions meet_split_invariant.
Print Assumptions lmeasure_split_invariant.
Print Assumptions tmeasure_split_refuted.
