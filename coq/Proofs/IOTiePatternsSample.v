(* A SAMPLE evaluated inside Coq on the translated load_patterns (Gen/IOGen.v): the generated program and IO.load_patterns
   agree on a few concrete files, among them a pattern with exactly one occurrence followed by another pattern header and rows
   with a wrong number of columns / an unparsable number. Superseded by the universal tie Proofs/IOTiePatterns.v
   (load_patterns_tie); kept as a quick concrete witness. *)
From Coq Require Import String Ascii.
From Coq Require Import List Bool Arith ZArith QArith.
From ME Require Import Model.Prelude Model.Regex Model.Key Model.IO Model.IoExp Gen.IOGen Model.IoExpInst.
Import ListNotations.
Close Scope Q_scope.
Definition s2l (s : string) : str := map nat_of_ascii (list_ascii_of_string s).
Definition snum := str.
Definition isd (c : nat) := ((48 <=? c) && (c <=? 57)) || Nat.eqb c 46 || Nat.eqb c 10.
Definition sconv (s : str) : option snum := if nonempty s && forallb isd s then Some s else None.
Definition sval (x : snum) : xval := Fin (inject_Z (Z.of_nat (length x))).
Definition nl := String (ascii_of_nat 10) EmptyString.
Definition emb_pats (p : list (list (list (snum * snum)))) : pv snum :=
  PList snum (map (fun pat => PList snum (map (fun occ => PList snum (map (fun xy => PTup snum [PNum snum (fst xy); PNum snum (snd xy)]) occ)) pat)) p).
Fixpoint flat (f : nat) (v : pv snum) : list str :=
  match f with O => [] | S f' =>
    match v with
    | PList _ l => [[91]] ++ flat_map (flat f') l ++ [[93]]
    | PTup _ l => [[40]] ++ flat_map (flat f') l ++ [[41]]
    | PNum _ x => [x]
    | _ => [[63]]
    end end.
Fixpoint strs_eqb (a b : list str) : bool :=
  match a, b with [], [] => true | x :: a', y :: b' => seqb x y && strs_eqb a' b' | _, _ => false end.
Definition agree (t : string) : bool :=
  match io_run snum sconv sconv sval gen_load_patterns [PPath snum (s2l t)], load_patterns snum sconv (s2l t) with
  | (OK v, []), ROk p => strs_eqb (flat 8 v) (flat 8 (emb_pats p))
  | (EXN e (XRows [r]), []), RaiseAt k e' => exn_eqb e e' && Z.eqb r (Z.of_nat k)
  | (EXN e (XRows []), []), RaiseNoRow e' => exn_eqb e e'
  | _, _ => false
  end.
Definition f_two_occ := ("pattern1" ++ nl ++ "occurrence1" ++ nl ++ "1,2" ++ nl ++ "3,4" ++ nl ++ "occurrence2" ++ nl ++ "5,6" ++ nl
                         ++ "pattern2" ++ nl ++ "occurrence1" ++ nl ++ "7,8" ++ nl)%string.
Definition f_one_occ_then_pattern := ("pattern1" ++ nl ++ "occurrence1" ++ nl ++ "1,2" ++ nl ++ "pattern2" ++ nl ++ "occurrence1" ++ nl
                         ++ "3,4" ++ nl ++ "occurrence2" ++ nl ++ "5,6" ++ nl ++ "pattern3" ++ nl ++ "occurrence1" ++ nl ++ "7,8")%string.
Definition f_empty_parts := ("pattern1" ++ nl ++ "pattern2" ++ nl ++ "occurrence1" ++ nl ++ "occurrence2" ++ nl ++ "1,2" ++ nl)%string.
Definition f_no_header := ("1,2" ++ nl ++ "3,4" ++ nl)%string.
Definition f_three_cols := ("pattern1" ++ nl ++ "occurrence1" ++ nl ++ "1,2,3" ++ nl)%string.
Definition f_one_col := ("pattern1" ++ nl ++ "occurrence1" ++ nl ++ "1,2" ++ nl ++ "12" ++ nl)%string.
Definition f_bad_number := ("pattern1" ++ nl ++ "occurrence1" ++ nl ++ "1,x" ++ nl)%string.
Example patterns_sample :
  forallb agree [f_two_occ; f_one_occ_then_pattern; f_empty_parts; f_no_header; f_three_cols; f_one_col; f_bad_number; ""%string] = true.
Proof. vm_compute. reflexivity. Qed.
(* the sample is not vacuous: three patterns come back from the second file *)
Example patterns_sample_three :
  match load_patterns snum sconv (s2l f_one_occ_then_pattern) with ROk p => length p | _ => 0 end = 3.
Proof. vm_compute. reflexivity. Qed.
