(* The documented lattice of the chord comparison rules, for all encodings (C11). *)
From Coq Require Import ZArith List Bool Lia.
From ME Require Import Model.Prelude Model.ChordParse Model.ChordCmp Gen.ChordTables.
Import ListNotations.
Open Scope Z_scope.
(* obligations over the translated table: the rows the rules read are the documented ones *)
Lemma quals_rows : maj8 = [1;0;0;0;1;0;0;1] /\ min8 = [1;0;0;1;0;0;0;1] /\
  q_maj = [1;0;0;0;1;0;0;1;0;0;0;0] /\ q_min = [1;0;0;1;0;0;0;1;0;0;0;0] /\ q_maj7 = [1;0;0;0;1;0;0;1;0;0;0;1] /\
  q_7 = [1;0;0;0;1;0;0;1;0;0;1;0] /\ q_min7 = [1;0;0;1;0;0;0;1;0;0;1;0] /\ q_none = [0;0;0;0;0;0;0;0;0;0;0;0].
Proof. vm_compute. repeat split; reflexivity. Qed.
Lemma leqb_eq a : forall b, leqb a b = true <-> a = b.
Proof. induction a as [|x a IH]; destruct b as [|y b]; simpl; try (split; [discriminate|congruence]); [tauto|].
  rewrite andb_true_iff, Z.eqb_eq, IH. split; [intros [-> ->]; auto| intros [= -> ->]; auto]. Qed.
Lemma leqb_refl a : leqb a a = true. Proof. now apply leqb_eq. Qed.
Lemma mask_vals i b : mask i b = 1 \/ mask i b = 0 \/ mask i b = -1. Proof. destruct i, b; simpl; auto. Qed.
Lemma mask_m1 i b : mask i b = -1 <-> i = true. Proof. destruct i, b; simpl; split; congruence || lia. Qed.
Lemma mask_1 i b : mask i b = 1 <-> i = false /\ b = true. Proof. destruct i, b; simpl; split; try tauto; intros; try lia; destruct H; congruence. Qed.
Lemma mask_0 i b : mask i b = 0 <-> i = false /\ b = false. Proof. destruct i, b; simpl; split; try tauto; intros; try lia; destruct H; congruence. Qed.

Ltac bool := repeat match goal with
  | H : _ && _ = true |- _ => apply andb_true_iff in H; destruct H
  | H : _ || _ = false |- _ => apply orb_false_iff in H; destruct H
  | |- _ && _ = true => apply andb_true_iff; split
  | |- _ || _ = false => apply orb_false_iff; split end.

(* values, ignore depends on reference only, reflexivity *)
Theorem cmp_values c r e : In c rules -> c r e = 1 \/ c r e = 0 \/ c r e = -1.
Proof. unfold rules. simpl. intros H. repeat (destruct H as [<-|H]; [apply mask_vals|]). destruct H. Qed.

Theorem ignore_ref_only c r e e' : In c rules -> (c r e = -1 <-> c r e' = -1).
Proof. unfold rules. simpl. intros H. repeat (destruct H as [<-|H]; [unfold thirds, thirds_inv, triads, triads_inv, tetrads, tetrads_inv, root_cmp, mirex, majmin, majmin_inv, sevenths, sevenths_inv; cbv zeta; rewrite !mask_m1; tauto|]). destruct H. Qed.

Lemma eqs_refl r : eq_root r r = true /\ eq_bass r r = true /\ eq_third r r = true /\ eq_pre8 r r = true /\ eq_all r r = true.
Proof. unfold eq_root, eq_bass, eq_third, eq_pre8, eq_all. rewrite !Z.eqb_refl, !leqb_refl. auto. Qed.

(* the lattice: "= 1 implies = 1" *)
Lemma nth_firstn' (l : list Z) : forall i n, (i < n)%nat -> nth i (firstn n l) 0 = nth i l 0.
Proof. induction l as [|x l IH]; intros i n H; [now rewrite firstn_nil|]. destruct n; [lia|]. destruct i; simpl; auto. apply IH. lia. Qed.
Lemma firstn_eq (a b : list Z) n : a = b -> firstn n a = firstn n b. Proof. now intros ->. Qed.
Theorem tetrads_inv_tetrads r e : tetrads_inv r e = 1 -> tetrads r e = 1.
Proof. unfold tetrads_inv, tetrads. rewrite !mask_1. intros [? H]; bool; split; auto; bool; auto. Qed.
Theorem tetrads_triads r e : tetrads r e = 1 -> triads r e = 1.
Proof. unfold tetrads, triads. rewrite !mask_1. intros [? H]; bool; split; auto; bool; auto.
  unfold eq_pre8, eq_all in *. apply leqb_eq. apply firstn_eq. now apply leqb_eq. Qed.
Theorem triads_thirds r e : triads r e = 1 -> thirds r e = 1.
Proof. unfold triads, thirds. rewrite !mask_1. intros [? H]; bool; split; auto; bool; auto.
  unfold eq_pre8, eq_third, nthz in *. apply leqb_eq in H1. apply Z.eqb_eq.
  assert (E : nth 3 (firstn 8 (bm r)) 0 = nth 3 (firstn 8 (bm e)) 0) by now rewrite H1.
  rewrite !nth_firstn' in E by lia. exact E. Qed.
Theorem thirds_root r e : thirds r e = 1 -> root_cmp r e = 1.
Proof. unfold thirds, root_cmp. rewrite !mask_1. intros [? H]; bool; auto. Qed.
Theorem triads_inv_triads r e : triads_inv r e = 1 -> triads r e = 1.
Proof. unfold triads_inv, triads. rewrite !mask_1. intros [? H]; bool; split; auto; bool; auto. Qed.
Theorem thirds_inv_thirds r e : thirds_inv r e = 1 -> thirds r e = 1.
Proof. unfold thirds_inv, thirds. rewrite !mask_1. intros [? H]; bool; split; auto; bool; auto. Qed.
Theorem majmin_inv_majmin r e : majmin_inv r e = 1 -> majmin r e = 1.
Proof. unfold majmin_inv, majmin. rewrite !mask_1. intros [? H]; bool; split; auto; bool; auto. Qed.
Theorem sevenths_inv_sevenths r e : sevenths_inv r e = 1 -> sevenths r e = 1.
Proof. unfold sevenths_inv, sevenths. rewrite !mask_1. intros [? H]; bool; split; auto; bool; auto. Qed.

Definition xs := [-1;-1;-1;-1;-1;-1;-1;-1;-1;-1;-1;-1].
Lemma bits_noneg l : bits l -> existsb (fun x => x <? 0) l = false.
Proof. intros [_ H]. induction H as [|x l Hx H IH]; simpl; [reflexivity|]. rewrite IH. destruct Hx; subst; reflexivity. Qed.
Lemma isX_cases r : enc_ok r -> (isX r = true /\ bm r = xs) \/ isX r = false.
Proof. unfold isX. intros [(_ & _ & [E|E])|(_ & _ & Hb & _)]; [right; now rewrite E| left; now rewrite E| right; now apply bits_noneg]. Qed.

Theorem majmin_triads r e : enc_ok r -> majmin r e = 1 -> triads r e = 1.
Proof. intros Hr. unfold majmin, triads. rewrite !mask_1. intros [Hm H]; bool. split; [|bool; auto].
  destruct (isX_cases r Hr) as [[_ E]|E]; [|exact E]. exfalso. apply negb_false_iff in Hm. unfold mm_in in Hm. rewrite E in Hm. cbn in Hm. rewrite ?andb_false_r in Hm. discriminate. Qed.
Theorem sevenths_tetrads r e : enc_ok r -> sevenths r e = 1 -> tetrads r e = 1.
Proof. intros Hr. unfold sevenths, tetrads. rewrite !mask_1. intros [Hm H]; bool. split; [|bool; auto].
  destruct (isX_cases r Hr) as [[_ E]|E]; [|exact E]. exfalso. apply negb_false_iff in Hm. unfold sv_in in Hm. rewrite E in Hm. cbn in Hm. discriminate. Qed.


Lemma bit_t x : x = 0 \/ x = 1 -> b2z (negb (x =? 0)) = x. Proof. intros [->| ->]; reflexivity. Qed.
Lemma bit_p x : x = 0 \/ x = 1 -> b2z (0 <? x) = x. Proof. intros [->| ->]; reflexivity. Qed.
Lemma bit_sq x : x = 0 \/ x = 1 -> x * x = x. Proof. intros [->| ->]; reflexivity. Qed.
Ltac twelve b Hb := destruct Hb as [Hlen Hall];
  do 12 (destruct b as [|?b b]; [discriminate Hlen|]); destruct b; [|discriminate Hlen]; clear Hlen;
  repeat match goal with H : Forall _ (_ :: _) |- _ => inversion H; clear H; subst end.

Lemma mirex_same r e : enc_ok r -> isX r = false -> root e = root r -> bm e = bm r -> mirex r e <> 0.
Proof. intros Hr HX Er Eb. unfold mirex. cbv zeta. rewrite Er, Eb, HX, orb_false_r. rewrite mask_0. intros [Hn Hs].
  destruct Hr as [(R & _ & [B|B])|(R & Bs & Hb & Hbass)].
  - rewrite R in Hs. discriminate.
  - unfold isX in HX. rewrite B in HX. discriminate.
  - assert (root r <> -1) by lia. destruct (root r =? -1) eqn:E1; [apply Z.eqb_eq in E1; lia|]. cbn [andb] in Hs.
    apply Z.leb_gt in Hs. remember (bm r) as b eqn:Eb'. clear Eb Eb'.
    assert (Hpos : 0 < count_pos b).
    { clear Hs Hn. twelve b Hb. unfold count_pos; cbn [fold_right]. rewrite !bit_p by assumption.
      unfold nthz in Hbass. remember (Z.to_nat (bass r)) as k eqn:Ek. clear Ek.
      do 12 (destruct k as [|k]; [cbn in Hbass; subst; lia|]). cbn in Hbass. destruct k; discriminate. }
    assert (Hge : 3 <= count_pos b).
    { destruct (0 <? count_pos b) eqn:E0; [|apply Z.ltb_ge in E0; lia]. cbn [andb] in Hn. apply Z.ltb_ge in Hn. exact Hn. }
    clear Hn Hpos Hbass. twelve b Hb. unfold count_pos in Hge; cbn [fold_right] in Hge. rewrite !bit_p in Hge by assumption.
    unfold rot in Hs. assert (Hk : (Z.to_nat (root r mod 12) < 12)%nat) by (pose proof (Z.mod_pos_bound (root r) 12); lia).
    remember (Z.to_nat (root r mod 12)) as k eqn:Ek. clear Ek.
    repeat match goal with H : ?x = 0 \/ ?x = 1 |- _ => pose proof (bit_sq x H); pose proof (bit_t x H); clear H end.
    do 12 (destruct k as [|k]; [cbn in Hs; repeat match goal with H : b2z (negb (?x =? 0)) = ?x |- _ => rewrite H in Hs; clear H end; lia|]).
    lia. Qed.

Theorem tetrads_mirex r e : enc_ok r -> tetrads r e = 1 -> mirex r e <> 0.
Proof. intros Hr. unfold tetrads. rewrite mask_1. intros [HX H]; bool. unfold eq_root, eq_all in *.
  apply Z.eqb_eq in H. apply leqb_eq in H0. apply mirex_same; auto. Qed.

(* reflexivity: a label compared with itself never scores 0 *)
Theorem cmp_refl c r : enc_ok r -> In c rules -> c r r <> 0.
Proof. intros Hr. unfold rules. simpl. intros H. destruct (eqs_refl r) as (E1 & E2 & E3 & E4 & E5).
  do 7 (destruct H as [<-|H]; [unfold thirds, thirds_inv, triads, triads_inv, tetrads, tetrads_inv, root_cmp;
    rewrite ?E1, ?E2, ?E3, ?E4, ?E5; cbn [andb]; rewrite mask_0; intros [_ F]; discriminate|]).
  destruct H as [<-|H].
  { destruct (isX_cases r Hr) as [[E _]|E]; [|now apply mirex_same].
    unfold mirex. cbv zeta. rewrite E, orb_true_r. discriminate. }
  repeat (destruct H as [<-|H]; [unfold majmin, majmin_inv, sevenths, sevenths_inv;
    rewrite ?E1, ?E2, ?E3, ?E4, ?E5; cbn [andb]; rewrite mask_0; intros [_ F]; discriminate|]).
  destruct H. Qed.
