(* mir_eval.beat.p_score tied to Beat.p_score by TRANSLATION - part 2: the program tie.

   translator/corefuncs_pscore.py turns the body of beat.p_score into a program of the Python / NumPy sub-language of
   Model/BeatExp.v (Gen/CorePScoreGen.v, regenerated on every check), evaluated with the extended primitive tables of
   Model/PScoreExp.v (int, min, np.ceil / round / median / array / int64 / correlate "full", astype(np.int64), the
   fancy-index store, the folded division of float literals).  This file proves, for ALL inputs (all rational beat
   arrays and thresholds), that running the generated program gives what Beat.p_score gives, including the
   exceptions (validate's, and the ValueError of int(nan) when the reference train has a single occupied bin):
     beat_p_score_tie_gen   for every [ext] that answers `validate` as the model does
     beat_p_score_tie       the callee instantiated by the model (BeatTie.beat_ext)
   The float result is compared up to == of Q; every comparison / branch / index of the program is decided exactly
   as in the model.  No disagreement between the model and the translated code was found: the negative `start` of
   the slice (window wider than the train: Python wraps it around), the empty median, duplicates in the index
   array, the end_point arithmetic all agree (examples at the end, with the values observed on the real code).
   The proof steps through the statements ([step0] ... [fin]); the facts about the primitives are in CorePScoreTie.v. *)
From Coq Require Import String.
From Coq Require Import List Bool Arith ZArith QArith Qabs Qminmax Qround Lia Lqa.
From ME Require Import Model.Prelude Model.BeatExp Model.PScoreExp Gen.CorePScoreGen.
From ME Require Import Proofs.BeatTie Proofs.BeatTieGoto Proofs.CorePScoreTie.
From ME Require Model.Beat Proofs.BeatProps.
Import ListNotations.
Open Scope Q_scope.

Definition pscore_sigs : list (string * option sigv) := sigs_of (fun_params pscore_funs ++ pscore_prims).
(* a run with the callees given by [ext]; [run2] = the callee validate is the model's function *)
Definition runx2 (ext : string -> list bv -> out bv) (fexp : Q -> Q) (f : fdef) (args : list bv) : out bv :=
  run_fun2 pscore_sigs ext fexp f args.
Definition run2 (fexp : Q -> Q) (f : fdef) (args : list bv) : out bv := runx2 beat_ext fexp f args.

(* ---------- numbers ---------- *)
Lemma qtrunc_injZ z : qtrunc (inject_Z z) = z.
Proof. unfold qtrunc, inject_Z. cbn [Qnum Qden]. apply Z.quot_1_r. Qed.
Lemma qtrunc_qceil q : qtrunc (qceil q) = Qceiling q.
Proof. apply qtrunc_injZ. Qed.
Lemma rhe_model y : rhe y = Beat.round_half_even y. Proof. reflexivity. Qed.
Lemma median_model l : l <> [] -> median_q l = Fin (Beat.median_ne l).
Proof. destruct l; [congruence|]. reflexivity. Qed.
Lemma Qmin_self x : Qmin x x = x.
Proof. unfold Qmin, GenericMinMax.gmin. destruct (x ?= x); reflexivity. Qed.
Lemma qmin_if a b : (if qltb b a then b else a) = Qmin a b.
Proof.
  unfold Qmin, GenericMinMax.gmin, qltb. destruct (a ?= b) eqn:C.
  - apply Qeq_alt in C. replace (Qle_bool a b) with true by (symmetry; apply Qle_bool_iff; lra). reflexivity.
  - apply Qlt_alt in C. replace (Qle_bool a b) with true by (symmetry; apply Qle_bool_iff; lra). reflexivity.
  - apply Qgt_alt in C. destruct (Qle_bool a b) eqn:E; [apply Qle_bool_iff in E; lra|reflexivity].
Qed.
Lemma fold_Qmin_head x l : fold_left Qmin (x :: l) x = fold_left Qmin l x.
Proof. cbn [fold_left]. rewrite Qmin_self. reflexivity. Qed.
Lemma fold_Qmin_le l : forall a, fold_left Qmin l a <= a /\ Forall (fun x => fold_left Qmin l a <= x) l.
Proof.
  induction l as [|x l IH]; intros a; cbn [fold_left]; [split; [lra|constructor]|].
  destruct (IH (Qmin a x)) as [H1 H2]. pose proof (Q.le_min_l a x). pose proof (Q.le_min_r a x).
  split; [lra|]. constructor; [lra|exact H2].
Qed.
Lemma fold_Qmax_ge_all l : forall a, a <= fold_left Qmax l a /\ Forall (fun x => x <= fold_left Qmax l a) l.
Proof.
  induction l as [|x l IH]; intros a; cbn [fold_left]; [split; [lra|constructor]|].
  destruct (IH (Qmax a x)) as [H1 H2]. pose proof (Q.le_max_l a x). pose proof (Q.le_max_r a x).
  split; [lra|]. constructor; [lra|exact H2].
Qed.
Lemma fold_Qmax_shift o l : forall a, fold_left Qmax (map (fun x => x - o) l) (a - o) == fold_left Qmax l a - o.
Proof.
  induction l as [|x l IH]; intros a; cbn [map fold_left]; [reflexivity|].
  rewrite <- IH. apply BeatProps.fold_Qmax_leq; [|apply BeatProps.leq_refl].
  destruct (Q.max_spec a x) as [[H ->]|[H ->]]; [rewrite Q.max_r by lra|rewrite Q.max_l by lra]; reflexivity.
Qed.

(* ================================================================== the program *)
Local Arguments Qplus : simpl never.
Local Arguments Qminus : simpl never.
Local Arguments Qmult : simpl never.
Local Arguments Qdiv : simpl never.
Local Arguments Qabs : simpl never.
Local Arguments Qopp : simpl never.
Local Arguments inject_Z : simpl never.
Local Arguments qltb : simpl never.
Local Arguments qleb : simpl never.
Local Arguments qeqb : simpl never.
Local Arguments qsum : simpl never.
Local Arguments zrange : simpl never.
Local Arguments slice_list : simpl never.
Local Arguments Z.of_nat : simpl never.
Local Arguments Z.to_nat : simpl never.
Local Arguments Z.sub : simpl never.
Local Arguments Z.add : simpl never.
Local Arguments Z.mul : simpl never.
Local Arguments Z.div : simpl never.
Local Arguments Z.max : simpl never.
Local Arguments Z.ltb !_ !_.
Local Arguments Z.leb !_ !_.
Local Arguments Z.eqb !_ !_.
Local Arguments Nat.eqb !_ !_.
Local Arguments Beat.validate : simpl never.
Local Arguments nz_from : simpl never.
Local Arguments zdiffs : simpl never.
Local Arguments map : simpl never.
Local Arguments fold_left : simpl never.
Local Arguments repeat : simpl never.
Local Arguments scatter : simpl never.
Local Arguments correlate_full : simpl never.
Local Arguments median_q : simpl never.
Local Arguments rhe : simpl never.
Local Arguments qtrunc : simpl never.
Local Arguments qceil : simpl never.
Local Arguments Qceiling : simpl never.
Local Arguments pow2 : simpl never.

Lemma run_block_cons f s r en :
  run_block f (s :: r) en = match f s en with SNorm en' => run_block f r en' | o => o end.
Proof. reflexivity. Qed.
Ltac step0 :=
  match goal with |- context [run_block ?f (?s :: ?r) ?en] =>
    rewrite (run_block_cons f s r en); let R := fresh "rest" in let ER := fresh "ER" in remember r as R eqn:ER; cbn end.
Ltac fin := match goal with H : ?R = _ |- _ => match type of R with list stmt => subst R end end.
Ltac step := step0; fin.
(* closed rational tests (the folded division of float literals) *)
Ltac close_q :=
  repeat match goal with
  | |- context [qeqb ?a ?b] => let v := eval vm_compute in (qeqb a b) in
        match v with true => idtac | false => idtac end; change (qeqb a b) with v
  | |- context [qltb ?a ?b] => let v := eval vm_compute in (qltb a b) in
        match v with true => idtac | false => idtac end; change (qltb a b) with v
  end.
Lemma zeq1_SS k : (Z.of_nat (S (S k)) =? 1)%Z = false. Proof. apply Z.eqb_neq. lia. Qed.
Lemma zle1_SS k : (Z.of_nat (S (S k)) <=? 1)%Z = false. Proof. apply Z.leb_gt. lia. Qed.
Lemma zeq1_1 : (Z.of_nat 1 =? 1)%Z = true. Proof. reflexivity. Qed.
Lemma zeq1_0 : (Z.of_nat 0 =? 1)%Z = false. Proof. reflexivity. Qed.
Lemma zle1_1 : (Z.of_nat 1 <=? 1)%Z = true. Proof. reflexivity. Qed.
Lemma zle1_0 : (Z.of_nat 0 <=? 1)%Z = true. Proof. reflexivity. Qed.
Ltac sizes := rewrite ?zeq1_SS, ?zle1_SS, ?zeq1_1, ?zeq1_0, ?zle1_1, ?zle1_0.

Lemma sig_validate : assoc_sig "validate" pscore_sigs = Some [("reference_beats"%string, None); ("estimated_beats"%string, None)].
Proof. vm_compute. reflexivity. Qed.
Lemma bind_validate a b : bind_args [("reference_beats"%string, None); ("estimated_beats"%string, None)] [a; b] [] = Some [a; b].
Proof. reflexivity. Qed.
Lemma if_vflt (c : bool) p a b : (if c then VFlt p (Fin b) else VFlt p (Fin a)) = VFlt p (Fin (if c then b else a)).
Proof. destruct c; reflexivity. Qed.
Lemma qmax_list_map_cons (f : Q -> Q) x t : qmax_list (map f (x :: t)) = Some (fold_left Qmax (map f t) (f x)).
Proof. reflexivity. Qed.
Lemma bins_model o l :
  map qtrunc (map qceil (map (fun x => x * inject_Z 100) (map (fun x => x - o) l))) = Beat.beat_bins o l.
Proof. unfold Beat.beat_bins. rewrite !map_map. apply map_ext. intros t. rewrite qtrunc_qceil. reflexivity. Qed.
Lemma bins_in_range o (M : Q) l E : (0 <= E)%Z -> E = Qceiling M -> Forall (fun t => o <= t /\ t - o <= M) l ->
  in_range (Z.to_nat (E * 100 + 1)) (Beat.beat_bins o l).
Proof.
  intros HE0 HE F. unfold in_range, Beat.beat_bins. apply Forall_forall. intros z Hz. apply in_map_iff in Hz.
  destruct Hz as (t & <- & Ht). rewrite Forall_forall in F. destruct (F t Ht) as [H1 H2].
  rewrite Z2Nat.id by lia. split.
  - change 0%Z with (Qceiling 0). apply Qceiling_resp_le. nra.
  - assert (Qceiling ((t - o) * 100) <= E * 100)%Z; [|lia].
    rewrite <- (Qceiling_Z (E * 100)). apply Qceiling_resp_le. rewrite inject_Z_mult.
    pose proof (Qle_ceiling M) as HM. rewrite <- HE in HM. change (inject_Z 100) with 100. nra.
Qed.
Lemma train_S R mid : train R (S mid) = ind R 0 :: map (ind R) (zfrom 1 mid).
Proof. reflexivity. Qed.
Lemma corr_length a v : length (correlate_full a v) = (length a + length v - 1)%nat.
Proof. unfold correlate_full. rewrite map_length, zrange_zfrom, zfrom_length. lia. Qed.
Lemma half_odd m : (Z.of_nat (S m + S m - 1) / 2 = Z.of_nat m)%Z.
Proof. symmetry. apply (Z.div_unique _ 2 _ 1); lia. Qed.
Lemma map_cons_ne {A B} (g : A -> B) x t : map g (x :: t) <> [].
Proof. discriminate. Qed.
Lemma fold_Qmax_model o x l : fold_left Qmax (map (fun t => t - o) l) (x - o) == fold_left Qmax (x :: l) x - o.
Proof.
  rewrite fold_Qmax_shift. apply Qplus_comp; [|reflexivity].
  change (fold_left Qmax (x :: l) x) with (fold_left Qmax l (Qmax x x)).
  apply BeatProps.fold_Qmax_leq; [symmetry; apply Q.max_id|apply BeatProps.leq_refl].
Qed.
Section Callees.
Variable ext : string -> list bv -> out bv.
Hypothesis Hval : forall r e, ext "validate"%string [VArrQ r; VArrQ e] = lift_unit (Beat.validate r e).

Theorem beat_p_score_tie_gen : forall fexp ref est thr py,
  out_eq (out_floats (runx2 ext fexp gen_p_score [VArrQ ref; VArrQ est; VFlt py (Fin thr)]))
         (lift_q (Beat.p_score ref est thr)).
Proof.
  intros. unfold runx2, run_fun2. cbn [length f_params gen_p_score Nat.eqb]. unfold exec_block2.
  unfold Beat.p_score. remember (f_body gen_p_score) as body eqn:Eb. cbn in Eb. subst body.
  match goal with |- context [init_env ?f ?a] => let v := eval vm_compute in (init_env f a) in change (init_env f a) with v end.
  step0. rewrite sig_validate, bind_validate, Hval. destruct (Beat.validate ref est) as [[]|ex]; cbn; [|reflexivity]. fin.
  destruct ref as [|r0 [|r1 rt]]; destruct est as [|e0 [|e1 et]];
    try (step0; sizes; cbn; fin; step0; sizes; cbn; fin; step0; sizes; cbn; try fin; repeat constructor; reflexivity).
  step0; sizes; cbn; fin; step0; sizes; cbn; fin; step0; sizes; cbn; try fin.
  match goal with |- out_eq _ ?M => remember M as model eqn:EM end.
  (* sampling_rate *)
  step0. close_q. cbn. change (qtrunc 100) with 100%Z. fin.
  (* offset *)
  step0. rewrite if_vflt, qmin_if.
  set (em := fold_left Qmin (e1 :: et) e0). set (rm := fold_left Qmin (r1 :: rt) r0). set (o := Qmin em rm). fin.
  rewrite !fold_Qmin_head in EM. fold em rm o in EM.
  assert (Forall (fun t => o <= t) (e0 :: e1 :: et)) as Hoe.
  { destruct (fold_Qmin_le (e1 :: et) e0) as [H1 H2]. fold em in H1, H2. pose proof (Q.le_min_l em rm) as Hl. fold o in Hl.
    constructor; [lra|]. eapply Forall_impl; [|exact H2]. cbv beta. intros; lra. }
  assert (Forall (fun t => o <= t) (r0 :: r1 :: rt)) as Hor.
  { destruct (fold_Qmin_le (r1 :: rt) r0) as [H1 H2]. fold rm in H1, H2. pose proof (Q.le_min_r em rm) as Hl. fold o in Hl.
    constructor; [lra|]. eapply Forall_impl; [|exact H2]. cbv beta. intros; lra. }
  (* estimated_beats, reference_beats *)
  step. step.
  (* end_point *)
  step0. rewrite !qmax_list_map_cons. cbn. rewrite qtrunc_qceil.
  set (f := fun x : Q => x - o).
  set (me := fold_left Qmax (map f (e1 :: et)) (e0 - o)). set (mr := fold_left Qmax (map f (r1 :: rt)) (r0 - o)).
  set (M := fold_left Qmax [mr] me). set (E := Qceiling M). fin.
  assert (M = Qmax me mr) as HMeq by reflexivity.
  assert (Forall (fun t => o <= t /\ t - o <= M) (e0 :: e1 :: et)) as Hre.
  { destruct (fold_Qmax_ge_all (map f (e1 :: et)) (e0 - o)) as [H1 H2]. fold me in H1, H2.
    pose proof (Q.le_max_l me mr) as Hl. rewrite <- HMeq in Hl.
    inversion Hoe as [|? ? Ho0 Hot]; subst. constructor; [split; lra|].
    rewrite Forall_forall in *. intros t Ht. specialize (H2 (f t) (in_map f _ _ Ht)). specialize (Hot t Ht). unfold f in H2. split; lra. }
  assert (Forall (fun t => o <= t /\ t - o <= M) (r0 :: r1 :: rt)) as Hrr.
  { destruct (fold_Qmax_ge_all (map f (r1 :: rt)) (r0 - o)) as [H1 H2]. fold mr in H1, H2.
    pose proof (Q.le_max_r me mr) as Hl. rewrite <- HMeq in Hl.
    inversion Hor as [|? ? Ho0 Hot]; subst. constructor; [split; lra|].
    rewrite Forall_forall in *. intros t Ht. specialize (H2 (f t) (in_map f _ _ Ht)). specialize (Hot t Ht). unfold f in H2. split; lra. }
  assert (0 <= E)%Z as HE0.
  { unfold E. change 0%Z with (Qceiling 0). apply Qceiling_resp_le. inversion Hre as [|? ? [Ha Hb] _]. lra. }
  (* reference_train *)
  step0. rewrite (proj2 (Z.leb_le 0 (E * 100 + 1))) by lia. cbn. fin.
  step0. rewrite (bins_model o (r0 :: r1 :: rt) : map qtrunc (map qceil (map _ (map f _))) = _). fin.
  step0. rewrite scatter_ind by (apply (bins_in_range o M); [exact HE0|reflexivity|exact Hrr]). cbn. fin.
  (* estimated_train *)
  step0. rewrite (proj2 (Z.leb_le 0 (E * 100 + 1))) by lia. cbn. fin.
  step0. rewrite (bins_model o (e0 :: e1 :: et) : map qtrunc (map qceil (map _ (map f _))) = _). fin.
  step0. rewrite scatter_ind by (apply (bins_in_range o M); [exact HE0|reflexivity|exact Hre]). cbn. fin.
  set (br := Beat.beat_bins o (r0 :: r1 :: rt)) in *. set (be := Beat.beat_bins o (e0 :: e1 :: et)) in *.
  assert (in_range (Z.to_nat (E * 100 + 1)) br) as HRr by (apply (bins_in_range o M); [exact HE0|reflexivity|exact Hrr]).
  assert (in_range (Z.to_nat (E * 100 + 1)) be) as HRe by (apply (bins_in_range o M); [exact HE0|reflexivity|exact Hre]).
  set (mid := Z.to_nat (E * 100)). replace (Z.to_nat (E * 100 + 1)) with (S mid) in * by (unfold mid; lia).
  (* annotation_intervals *)
  step0. rewrite flatnonzero_occupied by exact HRr. fin.
  (* win_size *)
  unfold Beat.pscore_win in EM. change (Beat.z_diffs (Beat.occupied br)) with (zdiffs (Beat.occupied br)) in EM.
  step0. destruct (zdiffs (Beat.occupied br)) as [|d0 dt] eqn:ED.
  { change (median_q (map inject_Z [])) with NaN. cbn. subst model. reflexivity. }
  rewrite median_model by apply map_cons_ne. cbn. rewrite qtrunc_injZ, rhe_model.
  set (win := Beat.round_half_even (thr * Beat.median_ne (map inject_Z (d0 :: dt)))) in *. fin.
  (* train_correlation *)
  step0. rewrite !train_S. cbn. rewrite <- !train_S. fin.
  step0. rewrite corr_length, !train_length, half_odd. fin.
  step. step.
  step0. rewrite slice_step1. fin.
  step0. fin.
  step0. clear ER rest. subst model. cbn [lift_q]. constructor; [|constructor].
  assert (Qceiling (Qmax (fold_left Qmax (e0 :: e1 :: et) e0 - o) (fold_left Qmax (r0 :: r1 :: rt) r0 - o)) = E) as ->.
  { unfold E. apply Qceiling_comp. rewrite HMeq. unfold me, mr, f. rewrite !fold_Qmax_model. reflexivity. }
  set (n := fold_left Z.max _ _).
  assert (n = Z.of_nat (S (S (Nat.max (length et) (length rt))))) as Hn.
  { unfold n. change (fold_left Z.max [?b] ?a) with (Z.max a b). rewrite !map_length. cbn [length]. lia. }
  unfold xdiv. rewrite qeqb_f.
  2:{ rewrite Hn. intros H. unfold Qeq, inject_Z in H. cbn [Qnum Qden] in H. lia. }
  cbn [xeq]. unfold Beat.corr_window_sum.
  pose proof (corr_window_count mid br be (Z.of_nat mid - win) (Z.of_nat mid + win + 1) HRr HRe) as HC. cbv zeta in HC.
  change (Beat.py_slice ?a ?b ?l) with (py_slice a b l).
  match goal with |- context [py_slice ?a ?b _] =>
    replace a with (Z.of_nat mid - win)%Z by lia; replace b with (Z.of_nat mid + win + 1)%Z by lia end.
  rewrite HC.
  replace (E * 100)%Z with (Z.of_nat mid) by (unfold mid; lia).
  rewrite Hn. reflexivity.
Qed.
End Callees.
Theorem beat_p_score_tie : forall fexp ref est thr py,
  out_eq (out_floats (run2 fexp gen_p_score [VArrQ ref; VArrQ est; VFlt py (Fin thr)]))
         (lift_q (Beat.p_score ref est thr)).
Proof. exact (beat_p_score_tie_gen beat_ext beat_ext_val). Qed.
Print Assumptions beat_p_score_tie.


(* the callee signature read from the source (binding of the validate call) *)
Theorem pscore_sigs_expected :
  pscore_sigs = [("p_score"%string, Some [("reference_beats"%string, None); ("estimated_beats"%string, None);
                                          ("p_score_threshold"%string, Some (VFlt true (Fin (3602879701896397 # 18014398509481984))))]);
                 ("validate"%string, Some [("reference_beats"%string, None); ("estimated_beats"%string, None)])].
Proof. vm_compute. reflexivity. Qed.

(* values observed on the real implementation (dyadic inputs, where float arithmetic is exact):
   p_score([.5,1,1.5,2], [.5,1.125,1.5,2,2.5], 0.25) = 0.6 (window round(12.5) = 12 by round-half-even: the pair at lag 13
   is outside), ... 0.5) = 0.8;  p_score([0,1], [0,1], 300.0) = 2.0 (window 30000 > train length: the negative start
   wraps to 0 and the whole correlation is summed);  p_score([1,1], [0,1], 0.25) raises ValueError (int(nan));
   p_score([1], [0,1], 0.25) = 0.0;  p_score([0,1], [.25,1], -0.25) = 0.0 (negative window: empty slice) *)
Definition fx0 (x : Q) : Q := 0.
Definition ex_r : list Q := [1#2; 1; 3#2; 2].
Definition ex_e : list Q := [1#2; 9#8; 3#2; 2; 5#2].
Example p_score_example_1 :
  run2 fx0 gen_p_score [VArrQ ex_r; VArrQ ex_e; VFlt true (Fin (1#4))] = OK (VFlt false (Fin (3#5)))
  /\ Beat.p_score ex_r ex_e (1#4) = Ok (3#5).
Proof. split; vm_compute; reflexivity. Qed.
Example p_score_example_2 :
  run2 fx0 gen_p_score [VArrQ ex_r; VArrQ ex_e; VFlt true (Fin (1#2))] = OK (VFlt false (Fin (4#5)))
  /\ Beat.p_score ex_r ex_e (1#2) = Ok (4#5).
Proof. split; vm_compute; reflexivity. Qed.
Example p_score_example_wrap :
  run2 fx0 gen_p_score [VArrQ [0; 1]; VArrQ [0; 1]; VFlt true (Fin 300)] = OK (VFlt false (Fin (4#2)))
  /\ Beat.p_score [0; 1] [0; 1] 300 = Ok (4#2).
Proof. split; vm_compute; reflexivity. Qed.
Example p_score_example_nan :
  run2 fx0 gen_p_score [VArrQ [1; 1]; VArrQ [0; 1]; VFlt true (Fin (1#4))] = EXN ValueError
  /\ Beat.p_score [1; 1] [0; 1] (1#4) = Raise ValueError.
Proof. split; vm_compute; reflexivity. Qed.
Example p_score_example_short :
  run2 fx0 gen_p_score [VArrQ [1]; VArrQ [0; 1]; VFlt true (Fin (1#4))] = OK (VFlt true (Fin 0))
  /\ Beat.p_score [1] [0; 1] (1#4) = Ok 0.
Proof. split; vm_compute; reflexivity. Qed.
Example p_score_example_negwin :
  run2 fx0 gen_p_score [VArrQ [0; 1]; VArrQ [1#4; 1]; VFlt true (Fin (-1#4))] = OK (VFlt false (Fin (0#2)))
  /\ Beat.p_score [0; 1] [1#4; 1] (-1#4) = Ok (0#2).
Proof. split; vm_compute; reflexivity. Qed.
(* with the default threshold bound from the signature (the float 0.2) *)
Example p_score_example_default :
  match bind_args [("reference_beats"%string, None); ("estimated_beats"%string, None);
                   ("p_score_threshold"%string, Some (VFlt true (Fin (3602879701896397 # 18014398509481984))))]
                  [VArrQ ex_r; VArrQ ex_e] [] with
  | Some args => run2 fx0 gen_p_score args
  | None => UNM end = OK (VFlt false (Fin (3#5))).
Proof. vm_compute. reflexivity. Qed.
