(* C17 - summary of the hierarchy results (proofs in HierarchyInv / HierarchyRank / HierarchyGauc / HierarchyLca).
   State of /repo: after fix 53bf09e (_gauc: .toarray().squeeze() -> .toarray().ravel()).

   count_inversions_spec         _count_inversions a b = #{(x, y) in a x b | x >= y}
   compare_frame_rankings_spec   (inversions, normalizer) = the brute-force counts over index pairs (both modes)
   reduced_absent_level          the defaultdict lookup of an absent level i + 1 contributes nothing
   gauc_spec                     mean over counted query frames of 1 - inv_q / norm_q, window and self-exclusion;
                                 for ALL n x n inputs, modes and windows
   gauc_total, gauc_shape_error  _gauc returns a score iff the shapes agree (ValueError otherwise)
   gauc_range, gauc_self         0 <= score <= 1; ref = est gives 1 as soon as one query frame counts
   lca_spec, meet_spec           entry (i, j) = deepest level with i, j in one segment / in equally labelled segments
   quantise_exact                int(_round(t, fs) / fs) = floor(t / fs) over Q
   hier_param_validation         frame_size <= 0 or window < frame_size  =>  ValueError
   hier_param_validation_iff     exact characterisation of ValueError (parameters, or rejected annotations)
   tmeasure_index_error_iff      exact characterisation of the only other exception (an empty list of levels)
   tmeasure_total                accepted parameters + valid annotations of a common span => scores
   tmeasure_def, lmeasure_def, tmeasure_spec, lmeasure_spec, tmeasure_swap, tmeasure_range, lmeasure_range
   tmeasure_window_eq_frame_size_ok, measures_one_frame_ok, gauc_one_frame_window_ok
                                 the former witnesses of the squeeze defect now score (0, 0, 0) *)
From Coq Require Import List Arith Lia Bool ZArith QArith Lqa.
From ME Require Import Model.Prelude Model.Events Model.Hierarchy.
From ME Require Export Proofs.HierarchyInv Proofs.HierarchyRank Proofs.HierarchyGauc Proofs.HierarchyLca.
Import ListNotations.
Local Open Scope nat_scope.

(* ---------- which calls raise, exactly ---------- *)
(* the annotations themselves are rejected: a level fails segment.validate_structure against the top level, there is
   no boundary at all, or the two annotations do not have the same number of frames *)
Definition inputs_rejected (ref est : hier) (fs : Q) : Prop :=
  validate_hier ref = Raise ValueError
  \/ (validate_hier ref = Ok tt /\ validate_hier est = Raise ValueError)
  \/ (validate_hier ref = Ok tt /\ validate_hier est = Ok tt /\
      (lca ref fs = Raise ValueError \/ lca est fs = Raise ValueError
       \/ exists rl el, lca ref fs = Ok rl /\ lca est fs = Ok el /\ mshape rl <> mshape el)).
Definition tm_body (ref est : hier) (tr : bool) (fs beta : Q) (wf : option nat) : res (Q * Q * Q) :=
  _ <- validate_hier ref ;; _ <- validate_hier est ;; rl <- lca ref fs ;; el <- lca est fs ;;
  r <- gauc rl el tr wf ;; p <- gauc el rl tr wf ;; Ok (p, r, f_measure p r beta).
Lemma mshape_dec (a b : mat) : mshape a = mshape b \/ mshape a <> mshape b.
Proof. destruct (mshape a) as [a1 a2], (mshape b) as [b1 b2]. destruct (Nat.eq_dec a1 b1), (Nat.eq_dec a2 b2); subst; auto; right; congruence. Qed.
Lemma tm_body_cases ref est tr fs beta wf :
  (exists v, tm_body ref est tr fs beta wf = Ok v /\ ~ inputs_rejected ref est fs /\ ref <> [] /\ est <> [])
  \/ (tm_body ref est tr fs beta wf = Raise ValueError /\ inputs_rejected ref est fs)
  \/ (tm_body ref est tr fs beta wf = Raise IndexError /\ ~ inputs_rejected ref est fs
      /\ (ref = [] \/ (validate_hier ref = Ok tt /\ est = []))).
Proof.
  unfold tm_body, inputs_rejected.
  destruct (validate_hier ref) as [[]|e1] eqn:Vr; cbn [bind].
  2:{ destruct (validate_hier_raise_kind _ _ Vr) as [->|[-> Hnil]].
      - right. left. split; [reflexivity|]. left. reflexivity.
      - right. right. split; [reflexivity|]. split; [|left; exact Hnil].
        intros [H|[[H _]|[H _]]]; discriminate. }
  assert (Hr : ref <> []) by (intros ->; discriminate).
  destruct (validate_hier est) as [[]|e2] eqn:Ve; cbn [bind].
  2:{ destruct (validate_hier_raise_kind _ _ Ve) as [->|[-> Hnil]].
      - right. left. split; [reflexivity|]. right. left. split; reflexivity.
      - right. right. split; [reflexivity|]. split; [|right; split; [reflexivity|exact Hnil]].
        intros [H|[[_ H]|[_ [H _]]]]; discriminate. }
  assert (He : est <> []) by (intros ->; discriminate).
  destruct (lca ref fs) as [rl|e3] eqn:Lr; cbn [bind].
  2:{ rewrite (lca_raise_kind _ _ _ Lr). right. left. split; [reflexivity|]. right. right. repeat split. left.
      reflexivity. }
  destruct (lca est fs) as [el|e4] eqn:Le; cbn [bind].
  2:{ rewrite (lca_raise_kind _ _ _ Le). right. left. split; [reflexivity|]. right. right. repeat split. right. left.
      reflexivity. }
  destruct (mshape_dec rl el) as [Hs|Hs].
  - left. destruct (gauc_total rl el tr wf Hs) as [r ->]. destruct (gauc_total el rl tr wf (eq_sym Hs)) as [p ->]. cbn [bind].
    eexists. split; [reflexivity|]. split; [|split; assumption].
    intros [H|[[_ H]|[_ [_ [H|[H|[rl' [el' [H1 [H2 H3]]]]]]]]]]; try discriminate. inversion H1; inversion H2; subst. contradiction.
  - right. left. rewrite (gauc_shape_error rl el tr wf Hs). cbn [bind]. split; [reflexivity|].
    right. right. repeat split. right. right. exists rl, el. repeat split. exact Hs.
Qed.
Lemma tmeasure_unfold ref est tr window fs beta :
  tmeasure ref est tr window fs beta =
  if qleb fs 0 then Raise ValueError else wf <- window_frames window fs ;; tm_body ref est tr fs beta wf.
Proof. reflexivity. Qed.
Lemma params_cases window fs :
  (bad_params window fs /\ (qleb fs 0 = true \/ (qleb fs 0 = false /\ window_frames window fs = Raise ValueError)))
  \/ (~ bad_params window fs /\ qleb fs 0 = false /\ exists wf, window_frames window fs = Ok wf).
Proof.
  destruct (qleb fs 0) eqn:E0.
  - left. split; [left; apply Qle_bool_iff; exact E0|left; reflexivity].
  - assert (Hfs : ~ (fs <= 0)%Q) by (intros H; apply Qle_bool_iff in H; unfold qleb in E0; congruence).
    destruct window as [w|]; cbn [window_frames].
    + destruct (qltb w fs) eqn:Ew.
      * left. split; [|right; split; reflexivity]. right. exists w. split; [reflexivity|].
        unfold qltb in Ew. apply negb_true_iff in Ew.
        destruct (Qlt_le_dec w fs) as [Hlt|Hge]; [exact Hlt|]. apply Qle_bool_iff in Hge. congruence.
      * right. split; [|split; [reflexivity|eexists; reflexivity]].
        intros [H|[w' [E H]]]; [contradiction|]. inversion E; subst w'.
        unfold qltb in Ew. apply negb_false_iff in Ew. apply Qle_bool_iff in Ew. lra.
    + right. split; [|split; [reflexivity|eexists; reflexivity]]. intros [H|[w' [E _]]]; [contradiction|discriminate].
Qed.

(* tmeasure raises ValueError exactly when the parameters are bad (frame_size <= 0 or window < frame_size) or the
   annotations are rejected *)
Theorem hier_param_validation_iff : forall ref est tr window fs beta,
  tmeasure ref est tr window fs beta = Raise ValueError <-> bad_params window fs \/ inputs_rejected ref est fs.
Proof.
  intros ref est tr window fs beta. rewrite tmeasure_unfold.
  destruct (params_cases window fs) as [[Hb [E0|[E0 Ew]]]|[Hb [E0 [wf Ew]]]]; rewrite E0; try rewrite Ew; cbn [bind].
  - split; [left; exact Hb|reflexivity].
  - split; [left; exact Hb|reflexivity].
  - destruct (tm_body_cases ref est tr fs beta wf) as [[v [E [Hn _]]]|[[E Hr]|[E [Hn _]]]]; rewrite E.
    + split; [discriminate|]. intros [H|H]; contradiction.
    + split; [right; exact Hr|reflexivity].
    + split; [discriminate|]. intros [H|H]; contradiction.
Qed.
Print Assumptions hier_param_validation_iff.
(* the only other exception: IndexError of intervals_hier[0] on an empty list of levels *)
Theorem tmeasure_index_error_iff : forall ref est tr window fs beta e,
  tmeasure ref est tr window fs beta = Raise e -> e <> ValueError ->
  e = IndexError /\ ~ bad_params window fs /\ (ref = [] \/ (validate_hier ref = Ok tt /\ est = [])).
Proof.
  intros ref est tr window fs beta e H Hne. rewrite tmeasure_unfold in H.
  destruct (params_cases window fs) as [[Hb [E0|[E0 Ew]]]|[Hb [E0 [wf Ew]]]]; rewrite E0 in H; try rewrite Ew in H; cbn [bind] in H.
  - inversion H; subst; contradiction.
  - inversion H; subst; contradiction.
  - destruct (tm_body_cases ref est tr fs beta wf) as [[v [E _]]|[[E _]|[E [_ Hc]]]]; rewrite E in H.
    + discriminate.
    + inversion H; subst; contradiction.
    + inversion H; subst. split; [reflexivity|]. split; assumption.
Qed.
Print Assumptions tmeasure_index_error_iff.
(* in particular, on valid annotations of a common span: ValueError <=> bad parameters *)
Corollary hier_param_validation_valid : forall ref est tr window fs beta rl el,
  validate_hier ref = Ok tt -> validate_hier est = Ok tt ->
  lca ref fs = Ok rl -> lca est fs = Ok el -> mshape rl = mshape el ->
  (tmeasure ref est tr window fs beta = Raise ValueError <-> bad_params window fs).
Proof.
  intros ref est tr window fs beta rl el Hvr Hve Hlr Hle Hs. split.
  - intros H. apply (hier_param_validation_conv ref est tr window fs beta rl el Hvr Hve Hlr Hle Hs _ H).
  - apply hier_param_validation.
Qed.
Example hier_param_validation_iff_ex :
  let ref := [[(0, 4)]; [(0, 2); (2, 4)]]%Q in
  inputs_rejected ref [[(0, 4)]; [(0, 1); (1, 5)]]%Q 1%Q /\ inputs_rejected ref [[(0, 5)]]%Q 1%Q /\ ~ inputs_rejected ref ref 1%Q.
Proof.
  cbv zeta. split; [|split].
  - right. left. split; vm_compute; reflexivity.
  - right. right. split; [vm_compute; reflexivity|]. split; [vm_compute; reflexivity|]. right. right.
    eexists. eexists. split; [vm_compute; reflexivity|]. split; [vm_compute; reflexivity|]. vm_compute. discriminate.
  - intros [H|[[_ H]|[_ [_ [H|[H|[rl [el [H1 [H2 H3]]]]]]]]]]; try (vm_compute in H; discriminate).
    rewrite H1 in H2. inversion H2; subst. contradiction.
Qed.

(* T-measure recall, end to end: on valid annotations of a common span (n frames), for every accepted window
   (or None), recall is the mean over the counted query frames of the fraction of correctly ordered triples,
   precision the same with the roles exchanged *)
Theorem tmeasure_spec : forall ref est tr window fs beta wf rl el n,
  (0 < fs)%Q -> window_frames window fs = Ok wf ->
  validate_hier ref = Ok tt -> validate_hier est = Ok tt -> lca ref fs = Ok rl -> lca est fs = Ok el ->
  length rl = n -> length el = n ->
  let r := gauc_mean (gauc_terms rl el tr n (eff_window n wf)) in
  let p := gauc_mean (gauc_terms el rl tr n (eff_window n wf)) in
  tmeasure ref est tr window fs beta = Ok (p, r, f_measure p r beta).
Proof.
  intros ref est tr window fs beta wf rl el n Hfs Hw Hvr Hve Hlr Hle Hnr Hne. cbv zeta.
  rewrite (tmeasure_def ref est tr window fs beta wf rl el) by assumption.
  destruct (lca_square _ _ _ Hlr) as [n1 Hsr]. destruct (lca_square _ _ _ Hle) as [n2 Hse].
  assert (E1 : n1 = n) by (destruct Hsr; congruence). assert (E2 : n2 = n) by (destruct Hse; congruence).
  rewrite E1 in Hsr. rewrite E2 in Hse.
  rewrite (gauc_spec n rl el tr wf Hsr Hse). cbn [bind].
  rewrite (gauc_spec n el rl tr wf Hse Hsr). reflexivity.
Qed.
Print Assumptions tmeasure_spec.
Example tmeasure_spec_ex :
  let ref := [[(0, 4)]; [(0, 2); (2, 4)]]%Q in let est := [[(0, 4)]; [(0, 1); (1, 4)]]%Q in
  exists p r f, tmeasure ref est false (Some 2%Q) 1%Q 1%Q = Ok (p, r, f) /\ (p == 1 # 4)%Q /\ (r == 1 # 6)%Q /\ (f == 1 # 5)%Q.
Proof. cbv zeta. eexists. eexists. eexists. split; [vm_compute; reflexivity|]. repeat split. Qed.

(* L-measure: the same definition on label-agreement depth, transitive, no window *)
Theorem lmeasure_spec : forall ref est fs beta rm em n,
  (0 < fs)%Q -> validate_hier (lh_intervals ref) = Ok tt -> validate_hier (lh_intervals est) = Ok tt ->
  meet ref fs = Ok rm -> meet est fs = Ok em -> length rm = n -> length em = n ->
  let r := gauc_mean (gauc_terms rm em true n n) in
  let p := gauc_mean (gauc_terms em rm true n n) in
  lmeasure ref est fs beta = Ok (p, r, f_measure p r beta).
Proof.
  intros ref est fs beta rm em n Hfs Hvr Hve Hmr Hme Hnr Hne. cbv zeta.
  rewrite (lmeasure_def ref est fs beta rm em) by assumption.
  assert (Hsq : forall L M, meet L fs = Ok M -> exists k, square k M).
  { intros L M. unfold meet. destruct (n_frames (lh_intervals L) fs) as [k|]; cbn [bind]; intros E; [|discriminate].
    inversion E; subst. exists k. apply meet_frames_square. }
  destruct (Hsq _ _ Hmr) as [n1 Hsr]. destruct (Hsq _ _ Hme) as [n2 Hse].
  assert (E1 : n1 = n) by (destruct Hsr; congruence). assert (E2 : n2 = n) by (destruct Hse; congruence).
  rewrite E1 in Hsr. rewrite E2 in Hse.
  rewrite (gauc_spec n rm em true None Hsr Hse). cbn [bind].
  rewrite (gauc_spec n em rm true None Hse Hsr). reflexivity.
Qed.
Print Assumptions lmeasure_spec.
Example lmeasure_spec_ex :
  let ref := [[(0%Q, 2%Q, [97]); (2%Q, 4%Q, [98])]; [(0%Q, 1%Q, [120]); (1%Q, 2%Q, [121]); (2%Q, 3%Q, [88]); (3%Q, 4%Q, [122])]] in
  let est := [[(0%Q, 2%Q, [97]); (2%Q, 4%Q, [98])]; [(0%Q, 1%Q, [120]); (1%Q, 2%Q, [121]); (2%Q, 3%Q, [121]); (3%Q, 4%Q, [122])]] in
  validate_hier (lh_intervals ref) = Ok tt /\ validate_hier (lh_intervals est) = Ok tt
  /\ exists rm em p r f, meet ref 1%Q = Ok rm /\ meet est 1%Q = Ok em /\ length rm = 4 /\ length em = 4
     /\ lmeasure ref est 1%Q 1%Q = Ok (p, r, f) /\ (r == 11 # 24)%Q /\ (p == 11 # 24)%Q.
Proof.
  cbv zeta. split; [vm_compute; reflexivity|]. split; [vm_compute; reflexivity|].
  eexists. eexists. eexists. eexists. eexists.
  split; [vm_compute; reflexivity|]. split; [vm_compute; reflexivity|]. split; [reflexivity|]. split; [reflexivity|].
  split; [vm_compute; reflexivity|]. split; reflexivity.
Qed.
