(* The translated QUALITIES / EXTENDED_QUALITY_REDUX tables are the documented ones: each shorthand's
   bitmap is what its Harte interval list produces through the model's own degree functions. *)
From Coq Require Import List Bool Arith ZArith String Ascii.
From ME Require Import Model.Prelude Model.Corr Model.ChordParse Gen.ChordTables.
Import ListNotations.
Open Scope string_scope.
Definition s2l (s : string) : str := map nat_of_ascii (list_ascii_of_string s).
(* shorthand -> interval list (Harte et al. 2005, plus mir_eval's extended and degenerate shorthands) *)
Definition quality_degrees : list (string * list string) := [
  ("maj", ["1";"3";"5"]); ("min", ["1";"b3";"5"]); ("aug", ["1";"3";"#5"]); ("dim", ["1";"b3";"b5"]);
  ("sus4", ["1";"4";"5"]); ("sus2", ["1";"2";"5"]);
  ("7", ["1";"3";"5";"b7"]); ("maj7", ["1";"3";"5";"7"]); ("min7", ["1";"b3";"5";"b7"]); ("minmaj7", ["1";"b3";"5";"7"]);
  ("maj6", ["1";"3";"5";"6"]); ("min6", ["1";"b3";"5";"6"]); ("dim7", ["1";"b3";"b5";"bb7"]); ("hdim7", ["1";"b3";"b5";"b7"]);
  ("maj9", ["1";"3";"5";"7";"9"]); ("min9", ["1";"b3";"5";"b7";"9"]); ("9", ["1";"3";"5";"b7";"9"]);
  ("b9", ["1";"3";"5";"b7";"b9"]); ("#9", ["1";"3";"5";"b7";"#9"]);
  ("min11", ["1";"b3";"5";"b7";"9";"11"]); ("11", ["1";"3";"5";"b7";"9";"11"]); ("#11", ["1";"3";"5";"b7";"9";"#11"]);
  ("maj13", ["1";"3";"5";"7";"9";"11";"13"]); ("min13", ["1";"b3";"5";"b7";"9";"11";"13"]);
  ("13", ["1";"3";"5";"b7";"9";"11";"13"]); ("b13", ["1";"3";"5";"b7";"9";"11";"b13"]);
  ("1", ["1"]); ("5", ["1";"5"]); ("", []) ].
Open Scope Z_scope.
(* the bitmap of an interval list within one octave: intervals of an octave or more are dropped (modulo = false) *)
Definition degrees_bitmap (ds : list string) : res (list Z) :=
  bm <- fold_left (fun acc d => a <- acc ;; e <- scale_degree_to_bitmap (s2l d) false ;; Ok (vadd a e)) ds (Ok zeros) ;;
  Ok (map (fun x => if 0 <? x then 1 else 0) bm).
Definition row_ok (row : string * list string) : bool :=
  match degrees_bitmap (snd row), lookup (s2l (fst row)) QUALITIES with
  | Ok b, Some b' => list_eqb Z.eqb b b' | _, _ => false end.
Definition first_bad_quality : option string := option_map fst (find (fun r => negb (row_ok r)) quality_degrees).
Definition unknown_quality : option (list nat) :=
  option_map fst (find (fun r => negb (existsb (fun d => seqb (fst r) (s2l (fst d))) quality_degrees)) QUALITIES).

Theorem qualities_as_documented :
  forallb row_ok quality_degrees = true /\
  forallb (fun r => existsb (fun d => seqb (fst r) (s2l (fst d))) quality_degrees) QUALITIES = true /\
  List.length QUALITIES = List.length quality_degrees.
Proof. vm_compute. repeat split; reflexivity. Qed.

(* reduce_extended_quality moves the upper voices to added degrees without changing the interval content *)
Definition degs_of (q : str) : option (list str) :=
  option_map (fun r => map s2l (snd r)) (find (fun d => seqb q (s2l (fst d))) quality_degrees).
Definition same_set (a b : list str) := forallb (fun x => existsb (seqb x) b) a && forallb (fun x => existsb (seqb x) a) b.
Definition redux_row_ok (row : str * (str * list str)) : bool :=
  let '(q, (base, adds)) := row in
  match degs_of q, degs_of base with Some dq, Some db => same_set dq (db ++ adds) | _, _ => false end.
Definition first_bad_redux : option (list nat) := option_map fst (find (fun r => negb (redux_row_ok r)) EXTENDED_QUALITY_REDUX).
Theorem redux_as_documented : forallb redux_row_ok EXTENDED_QUALITY_REDUX = true.
Proof. vm_compute. reflexivity. Qed.

(* which shorthands of the grammar have no QUALITIES row (accepted by the grammar, not encodable) *)
Definition unencodable_shorthands : list str := filter (fun s => match lookup s QUALITIES with None => true | _ => false end) shorthands.
Theorem shorthands_known : unencodable_shorthands = [ s2l "aug7"; s2l "maj11" ].
Proof. vm_compute. reflexivity. Qed.
