(* C02 for multipitch.metrics: an annotation scored against an exact copy of itself (same time base).
   All statements are about Model.Multipitch; "whenever the matcher model returns" = the hypothesis that the model's
   result is `Ok` (the only other outcome after a successful `validate` is the fuel of bipartite_match running out). *)
From Coq Require Import List Bool Arith ZArith QArith Qabs Qminmax Qround Lia Lqa.
From ME Require Import Model.Prelude Model.Dict Model.Matching Model.Events Model.Multipitch.
From ME Require Import Proofs.MaxMatching Proofs.MultipitchMatch Proofs.MultipitchProps.
Import ListNotations.

(* ------------------------------------------------------------------ one frame against itself *)
Lemma near_self (c : bool) (w : Q) (x : Q) : 0 <= w ->
  (if c then near_dist (outer_distance_mod_n 12) w else near_raw w) (Some x) (Some x).
Proof.
  intros Hw. destruct c.
  - apply near_dist_circ. cbn [near_circ]. apply abs_le_circ.
    assert (E : x - x == 0) by ring. rewrite E. exact Hw.
  - cbn [near_raw]. split; lra.
Qed.

(* TP of a frame against itself = its number of frequencies (raw: c = false; chroma: c = true), window >= 0, no nan *)
Theorem tp_frame_self c w f n : 0 <= w -> nan_free f -> tp_frame c w f f = Some n -> n = length f.
Proof.
  intros Hw Hn H. apply tp_frame_max_size in H. eapply max_size_unique; [exact H|].
  apply max_size_diag.
  - intros u v Huv. apply Erel_bounds in Huv. exact Huv.
  - intros i Hi. unfold frame_rel, Erel. destruct (nth_error f i) as [r|] eqn:E; [|apply nth_error_None in E; lia].
    pose proof (nan_free_nth f i r Hn E) as Hr. destruct r as [x|]; [|congruence].
    exists (Some x), (Some x). split; [reflexivity|]. split; [reflexivity|]. now apply near_self.
Qed.
Example tp_frame_self_ex : nan_free [Some 60; Some (145 # 2); Some 60]
  /\ tp_frame false (1 # 2) [Some 60; Some (145 # 2); Some 60] [Some 60; Some (145 # 2); Some 60] = Some 3%nat
  /\ tp_frame true 0 (wrap12 [Some 60; Some (145 # 2); Some 60]) (wrap12 [Some 60; Some (145 # 2); Some 60]) = Some 3%nat.
Proof. split; [repeat constructor; discriminate|]. split; vm_compute; reflexivity. Qed.
(* the hypotheses are needed: a negative window gives no hit at all, and in the chroma matching nan never matches nan *)
Theorem tp_frame_self_negative_window_refuted : exists w f n, nan_free f /\ tp_frame false w f f = Some n /\ n <> length f.
Proof. exists (-(1 # 2)), [Some 60], 0%nat. split; [repeat constructor; discriminate|]. split; [vm_compute; reflexivity|discriminate]. Qed.
Theorem tp_frame_self_nan_refuted : exists w f n, 0 <= w /\ tp_frame true w f f = Some n /\ n <> length f.
Proof. exists (1 # 2), [None], 0%nat. split; [discriminate|]. split; [vm_compute; reflexivity|discriminate]. Qed.

Lemma wrap12_nan_free f : nan_free f -> nan_free (wrap12 f).
Proof.
  unfold nan_free, wrap12. rewrite !Forall_forall. intros H x Hx. apply in_map_iff in Hx. destruct Hx as (y & <- & Hy).
  specialize (H y Hy). destruct y; [discriminate|congruence].
Qed.

(* ------------------------------------------------------------------ all frames *)
Lemma cntp_self w c : 0 <= w -> forall fs tps, Forall nan_free fs -> cntp w c fs fs = Ok tps -> tps = map (@length mv) fs.
Proof.
  intros Hw. induction fs as [|f fs IH]; intros tps Hn H.
  - injection H as <-. reflexivity.
  - apply cntp_cons_inv in H. destruct H as (t & ts & Ht & H & ->). inversion Hn as [|? ? Hf Hfs]; subst. cbn [map]. f_equal.
    + eapply tp_frame_self; eauto.
    + now apply IH.
Qed.

(* ------------------------------------------------------------------ the scores when tp = n_ref = n_est *)
Lemma zsum_app_nonneg (l : list nat) : (0 <= zsum (zn l))%Z.
Proof. induction l as [|a l IH]; cbn [zn map zsum fold_right]; [lia|]. unfold zsum, zn in IH. lia. Qed.
Lemma self_sums (l : list nat) :
  zsum (zip3 (fun r e t => Z.min r e - t)%Z (zn l) (zn l) (zn l)) = 0%Z /\
  zsum (zip2 (fun r e => if (r - e <? 0)%Z then 0 else r - e)%Z (zn l) (zn l)) = 0%Z /\
  zsum (zip2 (fun r e => if (e - r <? 0)%Z then 0 else e - r)%Z (zn l) (zn l)) = 0%Z /\
  zsum (zip3 (fun r e t => Z.max r e - t)%Z (zn l) (zn l) (zn l)) = 0%Z /\
  zsum (zip3 (fun e r t => e + r - t)%Z (zn l) (zn l) (zn l)) = zsum (zn l).
Proof.
  induction l as [|a l IH]; [cbn; auto|]. destruct IH as (I1 & I2 & I3 & I4 & I5).
  cbn [zn map zip3 zip2 zsum fold_right] in *. unfold zsum, zn in *. rewrite I1, I2, I3, I4, I5.
  replace (Z.of_nat a - Z.of_nat a)%Z with 0%Z by lia. cbn [Z.ltb Z.compare]. repeat split; lia.
Qed.
Lemma zsum_pos_iff (l : list nat) : (0 < zsum (zn l))%Z <-> exists n, In n l /\ (0 < n)%nat.
Proof.
  induction l as [|a l IH]; cbn [zn map zsum fold_right In].
  - split; [lia|]. intros (n & [] & _).
  - pose proof (zsum_app_nonneg l) as N. unfold zsum, zn in *. split.
    + intros H. destruct (Nat.eq_dec a 0) as [->|Na].
      * destruct (proj1 IH ltac:(lia)) as (n & Hn & Hp). exists n. auto.
      * exists a. split; [now left|lia].
    + intros (n & [->|Hn] & Hp); [lia|]. assert (0 < fold_right Z.add 0 (map Z.of_nat l))%Z by (apply IH; eauto). lia.
Qed.

Definition perfect (s : mscores) : Prop :=
  precision s == 1 /\ recall s == 1 /\ accuracy s == 1 /\ e_sub s == 0 /\ e_miss s == 0 /\ e_fa s == 0 /\ e_tot s == 0.
Definition all_zero (s : mscores) : Prop :=
  precision s == 0 /\ recall s == 0 /\ accuracy s == 0 /\ e_sub s == 0 /\ e_miss s == 0 /\ e_fa s == 0 /\ e_tot s == 0.
Lemma scores_of_self (l : list nat) : (0 < zsum (zn l))%Z -> perfect (scores_of l l l).
Proof.
  intros Hp. destruct (self_sums l) as (I1 & I2 & I3 & I4 & I5).
  unfold perfect, scores_of, compute_accuracy, compute_err_score. fold (zn l). rewrite I1, I2, I3, I4, I5.
  assert (P : (0 <? zsum (zn l))%Z = true) by (apply Z.ltb_lt; exact Hp). rewrite P.
  assert (Z0 : (zsum (zn l) =? 0)%Z = false) by (apply Z.eqb_neq; lia). rewrite Z0.
  cbn [precision recall accuracy e_sub e_miss e_fa e_tot].
  assert (Q0 : ~ zq (zsum (zn l)) == 0) by (apply zq_pos in P; lra).
  repeat split; try (field; exact Q0); (unfold zq; change (inject_Z 0) with 0; unfold Qdiv; ring).
Qed.
Lemma scores_of_self_empty (l : list nat) : zsum (zn l) = 0%Z -> all_zero (scores_of l l l).
Proof.
  intros Hz. destruct (self_sums l) as (I1 & I2 & I3 & I4 & I5).
  unfold all_zero, scores_of, compute_accuracy, compute_err_score. fold (zn l). rewrite I5, Hz.
  cbn [Z.ltb Z.eqb Z.compare precision recall accuracy e_sub e_miss e_fa e_tot]. repeat split; reflexivity.
Qed.

(* ------------------------------------------------------------------ metrics *)
Lemma f2m_nan_free hz fs : Forall (Forall (fun f => 0 <= f)) fs -> Forall nan_free (frequencies_to_midi hz fs).
Proof.
  intros H. unfold frequencies_to_midi. apply Forall_forall. intros x Hx. apply in_map_iff in Hx. destruct Hx as (fr & <- & Hfr).
  apply to_midi_nan_free. rewrite Forall_forall in H. now apply H.
Qed.
Lemma chroma_nan_free fs : Forall nan_free fs -> Forall nan_free (midi_to_chroma fs).
Proof.
  rewrite midi_to_chroma_wrap, !Forall_forall. intros H x Hx. apply in_map_iff in Hx. destruct Hx as (f & <- & Hf).
  apply wrap12_nan_free. now apply H.
Qed.

(* the trace of a self-comparison: no resampling, every frame's TP (raw and chroma) is its number of frequencies *)
Theorem metrics_trace_self hz w times fs t : 0 <= w -> Forall (Forall (fun f => 0 <= f)) fs ->
  metrics_trace hz w times fs times fs = Ok t ->
  resampled t = false /\ est_used t = fs /\ tp_raw t = map (@length Q) fs /\ tp_chroma t = map (@length Q) fs /\
  raw t = scores_of (map (@length Q) fs) (map (@length Q) fs) (map (@length Q) fs) /\ chroma t = raw t.
Proof.
  intros Hw Hp H. apply metrics_trace_inv in H. destruct H as (_ & E & Er & A & B & Sr & Sc).
  rewrite resample_needed_same in E, Er. injection E as E. rewrite <- E in *. clear E.
  pose proof (f2m_nan_free hz fs Hp) as Hn.
  apply (cntp_self w false Hw _ _ Hn) in A. apply (cntp_self w true Hw _ _ (chroma_nan_free _ Hn)) in B.
  rewrite lengths_chroma in B. fold (compute_num_freqs (frequencies_to_midi hz fs)) in A, B. rewrite num_freqs_midi in *.
  rewrite A in Sr. rewrite B in Sc. repeat split; auto. congruence.
Qed.

(* C02 *)
Theorem multipitch_self hz w times fs t :
  0 <= w ->                                            (* window (default 0.5) *)
  Forall (Forall (fun f => 0 <= f)) fs ->              (* no negative frequency, i.e. no nan MIDI value *)
  (exists fr, In fr fs /\ fr <> []) ->                 (* at least one frequency overall *)
  metrics_trace hz w times fs times fs = Ok t ->       (* valid input, and the matcher model returns *)
  perfect (raw t) /\ perfect (chroma t).
Proof.
  intros Hw Hp (fr & Hin & Hne) H. destruct (metrics_trace_self hz w times fs t Hw Hp H) as (_ & _ & _ & _ & Sr & Sc).
  rewrite Sc, Sr. assert (P : perfect (scores_of (map (@length Q) fs) (map (@length Q) fs) (map (@length Q) fs))).
  { apply scores_of_self. apply zsum_pos_iff. exists (length fr). split; [now apply in_map|]. destruct fr; [congruence|cbn; lia]. }
  split; exact P.
Qed.
(* the same on the 14 returned numbers of multipitch.metrics *)
Definition perfect14 : list Q := [1; 1; 1; 0; 0; 0; 0; 1; 1; 1; 0; 0; 0; 0].
Theorem multipitch_metrics_self hz w times fs l :
  0 <= w -> Forall (Forall (fun f => 0 <= f)) fs -> (exists fr, In fr fs /\ fr <> []) ->
  metrics hz w times fs times fs = Ok l -> Forall2 Qeq l perfect14.
Proof.
  intros Hw Hp Hne H. unfold metrics in H. destruct (metrics_trace hz w times fs times fs) as [t|e] eqn:E; [|discriminate H].
  cbn [bind] in H. injection H as <-. destruct (multipitch_self hz w times fs t Hw Hp Hne E) as [(A1&A2&A3&A4&A5&A6&A7) (B1&B2&B3&B4&B5&B6&B7)].
  unfold scores_list, perfect14. cbn [app]. repeat constructor; assumption.
Qed.
(* no frequency at all: every one of the 14 scores is 0 (the code's zero-denominator guards), not 1 *)
Theorem multipitch_self_empty hz w times fs t : Forall (fun fr => fr = []) fs ->
  metrics_trace hz w times fs times fs = Ok t -> all_zero (raw t) /\ all_zero (chroma t).
Proof.
  intros He H.
  assert (Hp : Forall (Forall (fun f => 0 <= f)) fs).
  { rewrite Forall_forall in *. intros fr Hfr. rewrite (He fr Hfr). constructor. }
  (* the window is irrelevant here: every frame is empty; go through the trace directly *)
  apply metrics_trace_inv in H. destruct H as (_ & E & _ & A & B & Sr & Sc).
  rewrite resample_needed_same in E. injection E as E. rewrite <- E in *. clear E.
  rewrite num_freqs_midi in Sr, Sc.
  assert (Hz : map (@length Q) fs = map (fun _ => 0%nat) fs).
  { apply map_ext_in. intros fr Hfr. rewrite Forall_forall in He. now rewrite (He fr Hfr). }
  assert (T : forall tp, Forall2 le tp (map (@length Q) fs) -> tp = map (@length Q) fs).
  { rewrite Hz. clear. induction fs as [|f fs IH]; intros tp HF; inversion HF; subst; cbn [map]; [reflexivity|]. f_equal; [lia|auto]. }
  apply cntp_le_ref in A. apply cntp_le_ref in B. rewrite lengths_chroma in B.
  fold (compute_num_freqs (frequencies_to_midi hz fs)) in A, B. rewrite num_freqs_midi in A, B.
  apply T in A. apply T in B. rewrite A in Sr. rewrite B in Sc. rewrite Sr, Sc.
  assert (Z0 : zsum (zn (map (@length Q) fs)) = 0%Z).
  { rewrite Hz. clear. induction fs as [|f fs IH]; cbn [map zn zsum fold_right] in *; [reflexivity|]. unfold zsum, zn in IH. rewrite IH. reflexivity. }
  split; now apply scores_of_self_empty.
Qed.

Example multipitch_self_ex :
  let fs := [[440; 220]; []; [880]] in
  Forall (Forall (fun f => 0 <= f)) fs /\ (exists fr, In fr fs /\ fr <> []) /\
  option_map (map Qred) (match metrics demo_hz (1 # 2) [0; 1; 2] fs [0; 1; 2] fs with Ok l => Some l | _ => None end) = Some perfect14.
Proof.
  cbv zeta. split; [repeat constructor; discriminate|]. split; [exists [880]; split; [cbn; auto|discriminate]|]. vm_compute. reflexivity.
Qed.
Example multipitch_self_empty_ex :
  option_map (map Qred) (match metrics demo_hz (1 # 2) [0; 1] [[]; []] [0; 1] [[]; []] with Ok l => Some l | _ => None end)
  = Some [0; 0; 0; 0; 0; 0; 0; 0; 0; 0; 0; 0; 0; 0].
Proof. vm_compute. reflexivity. Qed.
(* with a negative frequency (accepted by validate) the chroma scores of a self-comparison are not perfect:
   raw precision 1 (nan is paired with nan by the sort-based window search) but chroma precision 0 *)
Theorem multipitch_self_negative_refuted : forall hz, exists t,
  metrics_trace hz (1 # 2) [0] [[-(100)]] [0] [[-(100)]] = Ok t /\ precision (raw t) == 1 /\ precision (chroma t) == 0.
Proof. intros hz. eexists. split; [vm_compute; reflexivity|]. cbn. split; reflexivity. Qed.

Print Assumptions tp_frame_self.
Print Assumptions metrics_trace_self.
Print Assumptions multipitch_self.
Print Assumptions multipitch_metrics_self.
Print Assumptions multipitch_self_empty.
Print Assumptions multipitch_self_negative_refuted.
