(* Tie of mir_eval/io.py::load_ragged_time_series (Gen/IOGen.v, language Model/IoExp.v) to IO.load_ragged_time_series for
   all file contents, supported delimiters, header flags and comment expressions (dtype = float): same times / value rows,
   same exception class and row number. The loop appends to the two heap lists `times` and `values`; proved by induction
   against IO.ragged_rows. *)
From Coq Require Import String.
From Coq Require Import List Bool Arith ZArith QArith Lia.
From ME Require Import Model.Prelude Model.Regex Model.Key Model.IO Model.IoExp Gen.IOGen Model.IoExpInst Proofs.IOProps.
Import ListNotations.
Close Scope Q_scope.
Local Open Scope string_scope.
Local Open Scope list_scope.

Definition rg_body : list stmt := f_body gen_load_ragged_time_series.
Definition rg_loop : list stmt := match nth 5 rg_body SPass with SWith _ _ [SFor _ _ b] => b | _ => [] end.

Section Tie.
Variable num : Type.
Variable conv convv : str -> option num.
Variable val : num -> xval.
Notation pv := (pv num).
Notation run_block := (run_block num).
Notation exec := (exec num conv convv val (io_sigs num) (io_ext num conv val)).
Notation for_loop := (for_loop num).
Notation for_step := (for_step num).
Notation mk := (Build_st num).

Definition cmr_val (cm : option re) : pv := match cm with None => PNone num | Some r => PRe num (PAnch r) end.
Definition rg_env text d (hd : bool) cm (row line data exe ct cvd : pv) : env num :=
  [("filename", PPath num text); ("dtype", PFun num CFloat); ("delimiter", PSrc num (PDelim d)); ("header", PBool num hd);
   ("comment", emb_comment num cm); ("times", PRef num 0); ("values", PRef num 1); ("splitter", PRe num (PDelim d));
   ("commenter", cmr_val cm); ("start_row", PInt num (if hd then 1 else 0)%Z); ("input_file", PFile num text);
   ("row", row); ("line", line); ("data", data); ("exe", exe); ("converted_time", ct); ("converted_value", cvd)].

Local Arguments lines : simpl never.
Local Arguments pystrip : simpl never.
Local Arguments re_split : simpl never.
Local Arguments prefix_match : simpl never.
Local Arguments ragged_rows : simpl never.
Local Arguments map_opt : simpl never.
Local Arguments Z.sub : simpl never.
Local Arguments Z.add : simpl never.
Local Arguments Z.of_nat : simpl never.
Local Arguments Z.to_nat : simpl never.
Local Arguments Z.eqb : simpl never.
Local Arguments IoExp.for_loop : simpl never.
Local Arguments io_sigs : simpl never.

Lemma run_block_cons_eq : forall s r st res, exec s st = res ->
  run_block exec (s :: r) st = match res with SNorm _ s' => run_block exec r s' | o => o end.
Proof. intros; subst. unfold IoExp.run_block. destruct (exec s st); reflexivity. Qed.
Lemma norm0S : forall n, norm_idx 0 (S n) = Some 0%nat.
Proof. intros. unfold norm_idx. replace (0 <? Z.of_nat (S n))%Z with true by (symmetry; apply Z.ltb_lt; lia). reflexivity. Qed.
Ltac stepH H tac := erewrite run_block_cons_eq in H by (cbn; tac; rewrite ?norm0S; cbn; reflexivity); cbv beta iota in H.
Ltac step tac := erewrite run_block_cons_eq by (cbn; tac; rewrite ?norm0S; cbn; reflexivity); cbv beta iota.
Lemma for_loop_cons : forall step v t s,
  for_loop step (v :: t) s = match step v s with SNorm _ s' | SCnt _ s' => for_loop step t s' | r => r end.
Proof. reflexivity. Qed.
Lemma omap_get_str : forall l, omap (get_str num) (map (PStr num) l) = Some l.
Proof. induction l as [|x l IH]; [reflexivity|]. cbn. rewrite IH. reflexivity. Qed.

Lemma ragged_rows_cons : forall d cm row line rest,
  ragged_rows num conv convv d cm row (line :: rest) =
  if is_comment cm line then ragged_rows num conv convv d cm (S row) rest else
  match re_split d 0 (pystrip line) with
  | None => RaiseNoRow OtherExn
  | Some [] => RaiseNoRow IndexError
  | Some (t0 :: more) =>
      match conv t0 with
      | None => RaiseAt row ValueError
      | Some t => match map_opt convv more with
                  | None => RaiseAt row ValueError
                  | Some vs => match ragged_rows num conv convv d cm (S row) rest with
                               | ROk r => ROk ((t, vs) :: r) | e => e end
                  end
      end
  end.
Proof. reflexivity. Qed.

Lemma rg_step : forall text d hd cm k line row0 line0 data0 exe0 ct0 cvd0 ts vss R,
  R = for_step (run_block exec) ["row"; "line"] rg_loop (PTup num [PInt num (Z.of_nat k); PStr num line])
        (mk (rg_env text d hd cm row0 line0 data0 exe0 ct0 cvd0) [ts; vss] []) ->
  if is_comment cm line then R = SCnt num (mk (rg_env text d hd cm (PInt num (Z.of_nat k)) (PStr num line) data0 exe0 ct0 cvd0) [ts; vss] [])
  else match re_split d 0 (pystrip line) with
       | None => True
       | Some [] => R = SExn num IndexError (XRows []) []
       | Some (t0 :: more) =>
           match conv t0 with
           | None => R = SExn num ValueError (XRows [Z.of_nat k]) []
           | Some t => match map_opt convv more with
                       | None => R = SExn num ValueError (XRows [Z.of_nat k]) []
                       | Some vs => exists data',
                           R = SNorm num (mk (rg_env text d hd cm (PInt num (Z.of_nat k)) (PStr num line) data' exe0 (PNum num t) (PArr num vs))
                                            [ts ++ [PNum num t]; vss ++ [PArr num vs]] [])
                       end
           end
       end.
Proof.
  intros text d hd cm k line row0 line0 data0 exe0 ct0 cvd0 ts vss R HR.
  unfold for_step in HR. cbn [bind_target unpack elems lift_e s_heap s_warn set_all] in HR.
  unfold rg_env in HR. cbn [set1 update s_env s_heap s_warn String.eqb Ascii.eqb Bool.eqb option_map] in HR.
  let b := eval vm_compute in rg_loop in change rg_loop with b in HR.
  destruct (is_comment cm line) eqn:Ec.
  - destruct cm as [r|]; [|discriminate]. cbn [is_comment] in Ec. subst R.
    step ltac:(rewrite Ec). reflexivity.
  - assert (E1 : exec (SIf (EAnd (EIsNotNone (ELoc "comment")) (EMeth (ELoc "commenter") "match" [ELoc "line"])) [SContinue] [])
                 (mk (rg_env text d hd cm (PInt num (Z.of_nat k)) (PStr num line) data0 exe0 ct0 cvd0) [ts; vss] [])
                 = SNorm num (mk (rg_env text d hd cm (PInt num (Z.of_nat k)) (PStr num line) data0 exe0 ct0 cvd0) [ts; vss] [])).
    { destruct cm as [r|]; cbn; [cbn [is_comment] in Ec; rewrite Ec|]; reflexivity. }
    unfold rg_env in E1. rewrite (run_block_cons_eq _ _ _ _ E1) in HR. cbv beta iota in HR. clear E1.
    destruct (re_split d 0 (pystrip line)) as [[|t0 more]|] eqn:Es; [| |exact I].
    + stepH HR ltac:(rewrite Es; cbn). stepH HR idtac. exact HR.
    + stepH HR ltac:(rewrite Es; cbn).
      destruct (conv t0) as [t|] eqn:Et.
      2:{ stepH HR ltac:(rewrite norm0S; cbn; rewrite Et; cbn). exact HR. }
      stepH HR ltac:(rewrite norm0S; cbn; rewrite Et; cbn).
      stepH HR idtac.
      destruct (map_opt convv more) as [vs|] eqn:Em.
      2:{ stepH HR ltac:(change (Z.to_nat 1) with 1%nat; cbn [skipn]; rewrite omap_get_str, Em; cbn). exact HR. }
      stepH HR ltac:(change (Z.to_nat 1) with 1%nat; cbn [skipn]; rewrite omap_get_str, Em; cbn).
      stepH HR idtac. eexists. exact HR.
Qed.

Lemma rg_loop_tie : forall text d hd cm, supported d = true -> forall ls k ts vss row0 line0 data0 exe0 ct0 cvd0,
  match ragged_rows num conv convv d cm k ls with
  | ROk r => exists row' line' data' exe' ct' cvd',
      for_loop (for_step (run_block exec) ["row"; "line"] rg_loop) (enum_from num (Z.of_nat k) (map (PStr num) ls))
        (mk (rg_env text d hd cm row0 line0 data0 exe0 ct0 cvd0) [ts; vss] [])
      = SNorm num (mk (rg_env text d hd cm row' line' data' exe' ct' cvd')
                      [ts ++ map (PNum num) (map fst r); vss ++ map (PArr num) (map snd r)] [])
  | RaiseAt r e =>
      for_loop (for_step (run_block exec) ["row"; "line"] rg_loop) (enum_from num (Z.of_nat k) (map (PStr num) ls))
        (mk (rg_env text d hd cm row0 line0 data0 exe0 ct0 cvd0) [ts; vss] [])
      = SExn num e (XRows [Z.of_nat r]) []
  | RaiseNoRow e =>
      for_loop (for_step (run_block exec) ["row"; "line"] rg_loop) (enum_from num (Z.of_nat k) (map (PStr num) ls))
        (mk (rg_env text d hd cm row0 line0 data0 exe0 ct0 cvd0) [ts; vss] [])
      = SExn num e (XRows []) []
  end.
Proof.
  intros text d hd cm Hd. induction ls as [|line ls IH]; intros k ts vss row0 line0 data0 exe0 ct0 cvd0.
  - change (ragged_rows num conv convv d cm k []) with (@ROk (list (num * list num)) []). cbv beta iota.
    exists row0, line0, data0, exe0, ct0, cvd0. cbn [map]. rewrite !app_nil_r. reflexivity.
  - rewrite ragged_rows_cons. cbn [map enum_from]. rewrite !for_loop_cons.
    replace (Z.of_nat k + 1)%Z with (Z.of_nat (S k)) by lia.
    pose proof (rg_step text d hd cm k line row0 line0 data0 exe0 ct0 cvd0 ts vss _ eq_refl) as OS.
    destruct (is_comment cm line).
    + rewrite OS. apply IH.
    + destruct (re_split d 0 (pystrip line)) as [[|t0 more]|] eqn:Es.
      3:{ destruct d; discriminate. }
      * rewrite OS. reflexivity.
      * destruct (conv t0) as [t|]; [|rewrite OS; reflexivity].
        destruct (map_opt convv more) as [vs|]; [|rewrite OS; reflexivity].
        destruct OS as (data' & OS). rewrite OS.
        specialize (IH (S k) (ts ++ [PNum num t]) (vss ++ [PArr num vs]) (PInt num (Z.of_nat k)) (PStr num line) data' exe0 (PNum num t) (PArr num vs)).
        destruct (ragged_rows num conv convv d cm (S k) ls) as [r| |]; [|exact IH|exact IH].
        destruct IH as (a & b & c & e & f & g & IH). exists a, b, c, e, f, g. rewrite IH. cbn [map fst snd]. rewrite <- !app_assoc. reflexivity.
Qed.

Lemma sig_open : lookup_sig num (io_sigs num) "_open" = Some [("file_or_str", None); ("mode", None)].
Proof. vm_compute. reflexivity. Qed.
Lemma compile_delim : forall d, supported d = true ->
  match d with DUnsupported => @UNM pv | _ => OK (PRe num (PDelim d)) end = OK (PRe num (PDelim d)).
Proof. intros [| |] H; try reflexivity; discriminate. Qed.
Lemma omap_get_num : forall xs, omap (get_num num) (map (PNum num) xs) = Some xs.
Proof. induction xs as [|x xs IH]; [reflexivity|]. cbn. rewrite IH. reflexivity. Qed.
Lemma np_array_vec : forall xs, np_array num (map (PNum num) xs) = OK (PArr num xs).
Proof. intros. unfold np_array. rewrite omap_get_num. reflexivity. Qed.
Lemma omap_deep_arrs : forall f h l, omap (deep num (S f) h) (map (PArr num) l) = Some (map (PArr num) l).
Proof. induction l as [|x l IH]; [reflexivity|]. cbn [map omap]. rewrite IH. reflexivity. Qed.

Lemma deep_ref_eq : forall f h n, deep num (S f) h (PRef num n) =
  match nth_error h n with Some l => option_map (PList num) (omap (deep num f h) l) | None => None end.
Proof. reflexivity. Qed.
Lemma deep_tup_eq : forall f h l, deep num (S f) h (PTup num l) = option_map (PTup num) (omap (deep num f h) l).
Proof. reflexivity. Qed.
Definition emb_ragged (r : list num * list (list num)) : pv := PTup num [PArr num (fst r); PList num (map (PArr num) (snd r))].

Theorem load_ragged_time_series_tie : forall text d hd cm, supported d = true ->
  io_run num conv convv val gen_load_ragged_time_series
    [PPath num text; PFun num CFloat; PSrc num (PDelim d); PBool num hd; emb_comment num cm]
  = (emb_rres num emb_ragged (load_ragged_time_series num conv convv d hd cm text), []).
Proof.
  intros text d hd cm Hd. unfold io_run, run_fun.
  change (Nat.eqb _ _) with true. cbv iota. unfold exec_block.
  let b := eval vm_compute in (f_body gen_load_ragged_time_series) in change (f_body gen_load_ragged_time_series) with b.
  remember (emb_comment num cm) as cmv eqn:Ecm.
  let b := eval vm_compute in (init_env num gen_load_ragged_time_series [PPath num text; PFun num CFloat; PSrc num (PDelim d); PBool num hd; cmv]) in
    change (init_env num gen_load_ragged_time_series [PPath num text; PFun num CFloat; PSrc num (PDelim d); PBool num hd; cmv]) with b.
  subst cmv.
  step idtac. step idtac.
  step ltac:(rewrite (compile_delim _ Hd); cbn).
  set (U := PUnbound num).
  match goal with |- context [run_block exec (?s :: _) (mk ?en ?h ?w)] =>
    assert (E4 : exec s (mk en h w) = SNorm num (mk
      [("filename", PPath num text); ("dtype", PFun num CFloat); ("delimiter", PSrc num (PDelim d)); ("header", PBool num hd);
       ("comment", emb_comment num cm); ("times", PRef num 0); ("values", PRef num 1); ("splitter", PRe num (PDelim d));
       ("commenter", cmr_val cm); ("start_row", U); ("input_file", U);
       ("row", U); ("line", U); ("data", U); ("exe", U); ("converted_time", U); ("converted_value", U)] h w))
      by (destruct cm; reflexivity) end.
  rewrite (run_block_cons_eq _ _ _ _ E4). cbv beta iota. clear E4.
  match goal with |- context [run_block exec (?s :: _) (mk ?en ?h ?w)] =>
    assert (E5 : exec s (mk en h w) = SNorm num (mk
      [("filename", PPath num text); ("dtype", PFun num CFloat); ("delimiter", PSrc num (PDelim d)); ("header", PBool num hd);
       ("comment", emb_comment num cm); ("times", PRef num 0); ("values", PRef num 1); ("splitter", PRe num (PDelim d));
       ("commenter", cmr_val cm); ("start_row", PInt num (if hd then 1 else 0)%Z); ("input_file", U);
       ("row", U); ("line", U); ("data", U); ("exe", U); ("converted_time", U); ("converted_value", U)] h w))
      by (destruct hd; reflexivity) end.
  rewrite (run_block_cons_eq _ _ _ _ E5). cbv beta iota. clear E5.
  pose proof (rg_loop_tie text d hd cm Hd (lines text) (if hd then 1 else 0)%nat [] [] U U U U U U) as OL.
  replace (Z.of_nat (if hd then 1 else 0)%nat) with (if hd then 1 else 0)%Z in OL by (destruct hd; reflexivity).
  unfold rg_env in OL. let b := eval vm_compute in rg_loop in change rg_loop with b in OL.
  assert (ED : load_ragged_time_series num conv convv d hd cm text =
               match ragged_rows num conv convv d cm (if hd then 1 else 0) (lines text) with
               | ROk r => ROk (map fst r, map snd r)
               | RaiseAt r e => RaiseAt r e | RaiseNoRow e => RaiseNoRow e end)
    by (destruct d; [reflexivity|reflexivity|discriminate]).
  rewrite ED. clear ED.
  destruct (ragged_rows num conv convv d cm (if hd then 1 else 0) (lines text)) as [r|row e|e].
  - destruct OL as (a & b & c & e1 & e2 & e3 & OL). cbn [app] in OL.
    step ltac:(rewrite sig_open; cbn; rewrite OL; cbn).
    step ltac:(change (nth_error [map (PNum num) (map fst r); map (PArr num) (map snd r)] 0) with (Some (map (PNum num) (map fst r))); cbn; rewrite np_array_vec; cbn).
    cbn [s_heap s_warn]. unfold deep_fuel.
    rewrite deep_tup_eq. cbn [omap]. rewrite deep_ref_eq.
    change (deep num 7 [map (PNum num) (map fst r); map (PArr num) (map snd r)] (PArr num (map fst r))) with (Some (PArr num (map fst r))).
    change (nth_error [map (PNum num) (map fst r); map (PArr num) (map snd r)] 1) with (Some (map (PArr num) (map snd r))).
    cbv beta iota. rewrite omap_deep_arrs. reflexivity.
  - step ltac:(rewrite sig_open; cbn; rewrite OL; cbn). reflexivity.
  - step ltac:(rewrite sig_open; cbn; rewrite OL; cbn). reflexivity.
Qed.
End Tie.

Check load_ragged_time_series_tie.
Print Assumptions load_ragged_time_series_tie.
