(* The pattern-discovery metrics of mir_eval/pattern.py, tied to the hand-written model by TRANSLATION.

   translator/patternfuncs.py turns the bodies of
     _n_onset_midi, _occurrence_intersection, _compute_score_matrix, standard_FPR, establishment_FPR, occurrence_FPR,
     three_layer_FPR (and its three nested helpers), first_n_three_layer_P, first_n_target_proportion_R
   into programs of the Python / NumPy sub-language of Model/PatExp.v (Gen/PatternGen.v, regenerated on every check).
   This file proves, for ALL annotations (lists of patterns = lists of occurrences = lists of (onset, midi) pairs of
   rationals) and all values of the numeric parameters, that running each generated program gives exactly what the model
   function of Model/Pattern.v gives, including which exception is raised and the scalar type (Python float / int,
   np.float64) of every component of the result (Model/PatExpPattern.v: standard_pv, establishment_pv, ...; the
   corollaries [..._view] state the same thing on the numbers alone).

   Structure
     * section [Ties]: every tie is proved for an arbitrary meaning [ext] of the callees, under the equations about [ext]
       that the body in question needs (hypotheses [ext_validate], [ext_inter], ...); call sites are bound to the callee
       signatures read from the source in the same run ([pat_sigs]; their shape is pinned by [pat_sigs_expected]);
     * first instance ([pat_ext], theorems [<function>_tie]): the callees are the MODEL's functions;
     * second instance ([prog_ext], theorems [<function>_closed], [pattern_module_closed]): the callees are the GENERATED
       programs themselves (bounded call depth), only pattern.validate (Proofs/ValidatorsTie.v) and util.f_measure
       (Proofs/ScalarFuncsTie.v) keep the model's meaning: the module as a whole, as translated, computes the model.
   Loops are handled by one generic lemma ([fill_loop]: a loop that fills the cells of a row / the rows of a matrix and
   threads an accumulator) plus an induction for the break / continue loop of standard_FPR.
   Facts about generated code are obtained by evaluation of the generated terms only. *)
From Coq Require Import String.
From Coq Require Import List Bool Arith ZArith QArith Qabs Qminmax Qreduction Lia Lqa.
From ME Require Import Model.Prelude Model.Events Model.Pattern Model.PatExp Model.PatExpPattern Gen.PatternGen.
From ME Require Import Proofs.PatternBase Proofs.PatternProps.
Import ListNotations.
Local Open Scope nat_scope.
Local Arguments builtin f args kws : simpl nomatch.
Local Arguments read_loc x en : simpl nomatch.
Local Arguments bin_op op a b : simpl nomatch.
Local Arguments cmp_op op a b : simpl nomatch.
Local Arguments truth v : simpl nomatch.
Local Arguments get_item a i : simpl nomatch.
Local Arguments set_item a i v : simpl nomatch.
Local Arguments iter_elems v : simpl nomatch.
Local Arguments concatM l : simpl never.
Local Arguments pat_ext f vs : simpl never.
Local Arguments pat_sigs : simpl never.
Local Arguments Z.of_nat : simpl never.
Local Arguments for_loop : simpl never.
Local Arguments for_step : simpl never.
Local Arguments enum_from : simpl never.
Local Arguments Qdiv : simpl never.
Local Arguments Qmult : simpl never.
Local Arguments Qplus : simpl never.
Local Arguments Qminus : simpl never.
Local Arguments Qeq_bool : simpl never.
Local Arguments Qle_bool : simpl never.
Local Arguments qeqb : simpl never.
Local Arguments qleb : simpl never.
Local Arguments qltb : simpl never.
Local Arguments inject_Z : simpl never.
Local Arguments zq : simpl never.
Local Arguments Z.max : simpl never.
Local Arguments f_measure : simpl never.
Local Arguments cardinality_score : simpl never.
Local Arguments d_note : simpl never.
Local Arguments d_occ : simpl never.
Local Arguments d_pat : simpl never.
Local Arguments d_pats : simpl never.
Local Arguments seqb : simpl never.
Local Arguments div_op a b : simpl nomatch.
Local Arguments num_op op a b : simpl nomatch.
Local Arguments sub_op a b : simpl nomatch.
Local Arguments and_op a b : simpl nomatch.
Local Arguments seq_item l i : simpl nomatch.

(* ====================================================================================================================
   The ties are proved for ANY meaning [ext] of the callees that satisfies, for the callees a body actually uses, the
   equations stated as hypotheses below ([ext_validate], [ext_fm], [ext_inter], ...): first instantiated with the model's
   functions ([pat_ext], theorems without suffix after the section), then with the generated programs themselves
   ([prog_ext], theorems [..._closed]), so that "the callees are the model's functions" is proved rather than assumed for
   every function of the module except pattern.validate (Proofs/ValidatorsTie.v) and util.f_measure
   (Proofs/ScalarFuncsTie.v).
   ==================================================================================================================== *)
Section Ties.
Variable ext : string -> list pv -> out pv.
Local Notation runx := (run_fun pat_sigs ext).

Lemma concatM_cons r l : concatM (r :: l) = (a <~ r ;; b <~ concatM l ;; OK (a ++ b)). Proof. reflexivity. Qed.
Lemma concatM_ok {A} (g : A -> list pv) l : concatM (map (fun x => OK (g x)) l) = OK (concat (map g l)).
Proof. induction l as [|x t IH]; [reflexivity|]. cbn [map]. rewrite concatM_cons, IH. reflexivity. Qed.
Lemma map_ext' {A B} (f g : A -> B) l : (forall x, f x = g x) -> map f l = map g l. Proof. intros H. apply map_ext. exact H. Qed.

Lemma length_concat_notes (ps : list pattern) :
  Datatypes.length (concat (map (fun p : pattern => concat (map (fun o : occ => concat (map (fun n => [v_note n]) o)) p)) ps))
  = n_onset_midi ps.
Proof.
  unfold n_onset_midi. induction ps as [|p ps IH]; [reflexivity|]. cbn [map concat]. rewrite !app_length, IH. f_equal.
  rewrite concat_app, app_length. f_equal. clear. induction p as [|o p IH]; [reflexivity|]. cbn [map concat]. rewrite !app_length, IH. f_equal.
  clear. induction o as [|n o IH]; [reflexivity|]. cbn [map concat app Datatypes.length]. rewrite IH. reflexivity.
Qed.
Theorem n_onset_midi_tie_g : forall ps, runx gen__n_onset_midi [v_pats ps] = OK (VInt (Z.of_nat (n_onset_midi ps))).
Proof.
  intros. unfold run_fun. cbn. unfold v_pats. cbn. rewrite map_map.
  erewrite (map_ext' _ (fun p : pattern => OK (concat (map (fun o : occ => concat (map (fun n => [v_note n]) o)) p)))).
  2:{ intros p. cbn. rewrite map_map.
      erewrite (map_ext' _ (fun o : occ => OK (concat (map (fun n => [v_note n]) o)))).
      2:{ intros o. cbn. rewrite map_map. cbn. apply (concatM_ok (fun n => [v_note n])). }
      apply concatM_ok. }
  rewrite concatM_ok. cbn. rewrite length_concat_notes. reflexivity.
Qed.

(* ---------- sets of notes ---------- *)
Definition note_eqb (a b : note) : bool := qeqb (fst a) (fst b) && qeqb (snd a) (snd b).
Fixpoint ndedup (l : list note) : list note :=
  match l with [] => [] | x :: t => if existsb (note_eqb x) t then ndedup t else x :: ndedup t end.
Definition ninter (a b : list note) : list note := filter (fun x => existsb (note_eqb x) b) a.
Lemma py_eqb_note a b : py_eqb (v_note a) (v_note b) = Some (note_eqb a b).
Proof. unfold v_note, note_eqb. cbn. rewrite andb_true_r. reflexivity. Qed.
Lemma pmem_notes x l : pmem (v_note x) (map v_note l) = Some (existsb (note_eqb x) l).
Proof. induction l as [|y t IH]; [reflexivity|]. cbn [map pmem existsb]. rewrite py_eqb_note, IH. reflexivity. Qed.
Lemma set_of_notes l : set_of (map v_note l) = Some (map v_note (ndedup l)).
Proof. induction l as [|x t IH]; [reflexivity|]. cbn [map set_of ndedup]. rewrite pmem_notes, IH.
  destruct (existsb (note_eqb x) t); reflexivity. Qed.
Lemma set_inter_notes a b : set_inter (map v_note a) (map v_note b) = Some (map v_note (ninter a b)).
Proof. unfold ninter. induction a as [|x t IH]; [reflexivity|]. cbn [map set_inter filter]. rewrite pmem_notes, IH.
  destruct (existsb (note_eqb x) b); reflexivity. Qed.
Lemma hashable_notes l : forallb hashable (map v_note l) = true.
Proof. induction l as [|x t IH]; [reflexivity|]. cbn [map forallb]. rewrite IH. reflexivity. Qed.
(* ... against the canonical representatives of the model *)
Lemma note_eqb_canon a b : note_eqb a b = true <-> canon a = canon b.
Proof. unfold note_eqb, qeqb. rewrite andb_true_iff, !Qeq_bool_iff. symmetry. apply canon_eq. Qed.
Lemma existsb_note_memb x l : existsb (note_eqb x) l = memb (canon x) (map canon l).
Proof. induction l as [|y t IH]; [reflexivity|]. cbn [existsb map]. rewrite IH. unfold memb.
  destruct (in_dec note_eq_dec (canon x) (canon y :: map canon t)) as [H|H];
  destruct (in_dec note_eq_dec (canon x) (map canon t)) as [H2|H2]; rewrite ?orb_true_r, ?orb_false_r; try reflexivity.
  - destruct H as [H|H]; [|contradiction]. apply note_eqb_canon. symmetry. exact H.
  - exfalso. apply H. right. exact H2.
  - destruct (note_eqb x y) eqn:E; [|reflexivity]. exfalso. apply H. left. symmetry. apply note_eqb_canon. exact E.
Qed.
Lemma canon_ndedup l : map canon (ndedup l) = occ_set l.
Proof. unfold occ_set. induction l as [|x t IH]; [reflexivity|]. cbn [ndedup map nodup]. rewrite existsb_note_memb. unfold memb.
  destruct (in_dec note_eq_dec (canon x) (map canon t)); [exact IH|]. cbn [map]. rewrite IH. reflexivity. Qed.
Lemma existsb_ndedup x l : existsb (note_eqb x) (ndedup l) = existsb (note_eqb x) l.
Proof. rewrite !existsb_note_memb, canon_ndedup. unfold occ_set, memb.
  destruct (in_dec note_eq_dec (canon x) (nodup note_eq_dec (map canon l))) as [H|H];
  destruct (in_dec note_eq_dec (canon x) (map canon l)) as [H2|H2]; try reflexivity; exfalso.
  - apply H2. apply nodup_In in H. exact H.
  - apply H. apply nodup_In. exact H2. Qed.
Lemma canon_ninter P Qo : map canon (ninter (ndedup P) (ndedup Qo)) = inter_set P Qo.
Proof. unfold ninter, inter_set. rewrite <- canon_ndedup.
  induction (ndedup P) as [|x t IH]; [reflexivity|]. cbn [filter map].
  rewrite existsb_ndedup, existsb_note_memb. destruct (memb (canon x) (map canon Qo)); cbn [map]; rewrite IH; reflexivity. Qed.

Lemma concat_single {A B} (f : A -> B) l : concat (map (fun x => [f x]) l) = map f l.
Proof. induction l as [|x t IH]; [reflexivity|]. cbn [map concat app]. rewrite IH. reflexivity. Qed.
Lemma builtin_set_notes l : builtin "set" [VList (map v_note l)] [] = OK (VSet (map v_note (ndedup l))).
Proof. unfold builtin. cbn. rewrite hashable_notes, set_of_notes. reflexivity. Qed.
Lemma bitand_notes a b : bin_op BitAnd (VSet (map v_note a)) (VSet (map v_note b)) = OK (VSet (map v_note (ninter a b))).
Proof. unfold bin_op, and_op. rewrite set_inter_notes. reflexivity. Qed.
Theorem occurrence_intersection_tie_g : forall P Qo, exists s,
  runx gen__occurrence_intersection [v_occ P; v_occ Qo] = OK (VSet (map v_note s)) /\ map canon s = inter_set P Qo.
Proof.
  intros. exists (ninter (ndedup P) (ndedup Qo)). split; [|apply canon_ninter].
  unfold run_fun. cbn. rewrite !map_map. cbn.
  rewrite (concatM_ok (fun n => [v_note n])), concat_single. cbn. rewrite builtin_set_notes. cbn.
  rewrite !map_map. cbn. rewrite (concatM_ok (fun n => [v_note n])), concat_single. cbn. rewrite builtin_set_notes. cbn.
  rewrite set_inter_notes. reflexivity.
Qed.
Corollary occurrence_intersection_len_g : forall P Qo, exists s,
  runx gen__occurrence_intersection [v_occ P; v_occ Qo] = OK (VSet s) /\ Datatypes.length s = inter_count P Qo.
Proof. intros. destruct (occurrence_intersection_tie_g P Qo) as (s & E & H). exists (map v_note s). split; [exact E|].
  unfold inter_count. rewrite <- H, !map_length. reflexivity. Qed.


(* ---------- decoding ---------- *)
Lemma omap_map {A B} (d : B -> option A) (v : A -> B) l : (forall x, d (v x) = Some x) -> omap d (map v l) = Some l.
Proof. intros H. induction l as [|x t IH]; [reflexivity|]. cbn [map omap]. rewrite H, IH. reflexivity. Qed.
Lemma d_note_v n : d_note (v_note n) = Some n. Proof. destruct n. reflexivity. Qed.
Lemma d_occ_v o : d_occ (v_occ o) = Some o. Proof. unfold d_occ, v_occ. apply omap_map, d_note_v. Qed.
Lemma d_pat_v p : d_pat (v_pat p) = Some p. Proof. unfold d_pat, v_pat. apply omap_map, d_occ_v. Qed.
Lemma d_pats_v ps : d_pats (v_pats ps) = Some ps. Proof. unfold d_pats, v_pats. apply omap_map, d_pat_v. Qed.

(* ---------- generic facts about the evaluator ---------- *)
Lemma for_loop_cons step v t en :
  for_loop step (v :: t) en = match step v en with SNorm en' | SCnt en' => for_loop step t en' | SBrk en' => SNorm en' | r => r end.
Proof. reflexivity. Qed.
Lemma for_loop_nil step en : for_loop step [] en = SNorm en. Proof. reflexivity. Qed.
Lemma enum_from_cons n v t : enum_from n (v :: t) = VTup [VInt n; v] :: enum_from (n + 1) t. Proof. reflexivity. Qed.
Lemma run_block_app f a b en :
  run_block f (a ++ b) en = match run_block f a en with SNorm en' => run_block f b en' | o => o end.
Proof. revert en. induction a as [|s r IH]; intros en; [reflexivity|]. cbn [app run_block].
  destruct (f s en); try reflexivity. apply IH. Qed.
Fixpoint before_for (l : list stmt) : list stmt :=
  match l with [] => [] | SFor _ _ _ :: _ => [] | s :: t => s :: before_for t end.
Fixpoint from_for (l : list stmt) : list stmt :=
  match l with [] => [] | SFor _ _ _ :: _ => l | _ :: t => from_for t end.
Definition for_body (l : list stmt) : list stmt := match from_for l with SFor _ _ b :: _ => b | _ => [] end.
Definition after_for (l : list stmt) : list stmt := List.tl (from_for l).
Lemma cut_at_for l : l = before_for l ++ from_for l.
Proof. induction l as [|s t IH]; [reflexivity|]. destruct s; cbn [before_for from_for app]; try (f_equal; exact IH); try reflexivity. Qed.
Definition sres_of (o : out pv) : sres := match o with OK v => SRet v | EXN e => SExn e | UNM => SUnm end.
Ltac sigs := repeat match goal with |- context [lookup_sig pat_sigs ?f] =>
  let v := eval vm_compute in (lookup_sig pat_sigs f) in change (lookup_sig pat_sigs f) with v end.
Ltac use_loop E :=
  match type of E with _ = ?R =>
    match goal with |- context [for_loop ?st ?els ?en] => replace (for_loop st els en) with R by (symmetry; exact E) end end.

(* ---------- numbers ---------- *)
Lemma zq_nat n : zq (Z.of_nat n) = qnat n. Proof. reflexivity. Qed.
Lemma zmax_nat a b : Z.max (Z.of_nat a) (Z.of_nat b) = Z.of_nat (Nat.max a b). Proof. symmetry. apply Nat2Z.inj_max. Qed.
Lemma qnat_eqb0 n : qeqb (qnat n) 0 = Nat.eqb n 0.
Proof. unfold qeqb, qnat. destruct n; [reflexivity|]. cbn [Nat.eqb].
  destruct (Qeq_bool (inject_Z (Z.of_nat (S n))) 0) eqn:E; [|reflexivity].
  apply Qeq_bool_iff in E. unfold Qeq, inject_Z in E. cbn in E. lia. Qed.
Lemma div_int_float a d : div_op (VInt a) (VFloat d) = if qeqb d 0 then EXN ZeroDivisionError else OK (VFloat (zq a / d)).
Proof. reflexivity. Qed.
Lemma max_nil_iff {A B} (a : list A) (b : list B) : Nat.eqb (Nat.max (length a) (length b)) 0 = Pattern.is_nil a && Pattern.is_nil b.
Proof. destruct a, b; reflexivity. Qed.

(* ---------- matrices ---------- *)
Lemma norm_idx_nat k n : k < n -> norm_idx (Z.of_nat k) n = Some k.
Proof. intros H. unfold norm_idx.
  replace (0 <=? Z.of_nat k)%Z with true by (symmetry; apply Z.leb_le; lia).
  replace (Z.of_nat k <? Z.of_nat n)%Z with true by (symmetry; apply Z.ltb_lt; lia). cbn [andb]. rewrite Nat2Z.id. reflexivity. Qed.
Lemma set_nth_mid {A} (pre : list A) x post v : set_nth (pre ++ x :: post) (length pre) v = pre ++ v :: post.
Proof. induction pre as [|y t IH]; [reflexivity|]. cbn [app length set_nth]. rewrite IH. reflexivity. Qed.
Lemma nth_mid {A} (pre : list A) x post d : nth (length pre) (pre ++ x :: post) d = x.
Proof. induction pre as [|y t IH]; [reflexivity|]. exact IH. Qed.
Lemma set_mat_cell c A done x0 rest D v x :
  c = length done + S (length rest) -> as_num v = Some x ->
  set_item (VMat c (A ++ (done ++ x0 :: rest) :: D)) (VTup [VInt (Z.of_nat (length A)); VInt (Z.of_nat (length done))]) v
  = OK (VMat c (A ++ (done ++ x :: rest) :: D)).
Proof. intros Hc Hv. unfold set_item. rewrite Hv.
  rewrite (norm_idx_nat (length A)) by (rewrite app_length; cbn [length]; lia).
  rewrite (norm_idx_nat (length done)) by lia.
  rewrite nth_mid, !set_nth_mid. reflexivity. Qed.

(* ---------- _compute_score_matrix ---------- *)
Definition cell (oP oQ : occ) : res Q :=
  if Pattern.is_nil oP && Pattern.is_nil oQ then Raise ZeroDivisionError else Ok (card_score oP oQ).
Hypothesis ext_inter : forall a b, exists s, ext "_occurrence_intersection" [v_occ a; v_occ b] = OK (VSet s) /\ length s = inter_count a b.

Definition sm_env (vP vQ vm denom occQ iQ occP iP sm : pv) : env :=
  [("P", vP); ("Q", vQ); ("similarity_metric", vm); ("denom", denom); ("occ_Q", occQ); ("iQ", iQ); ("occ_P", occP); ("iP", iP);
   ("sm", sm)]%string.
Definition sm_outer_body : list stmt := for_body (f_body gen__compute_score_matrix).
Definition sm_inner_body : list stmt := for_body sm_outer_body.
Definition X := exec pat_sigs ext.
Lemma sm_inner_step vP vQ m oP A done x0 rest D oQ c d0 q0 j0 :
  c = length done + S (length rest) ->
  for_step (run_block X) ["iQ"; "occ_Q"]%string sm_inner_body (VTup [VInt (Z.of_nat (length done)); v_occ oQ])
    (sm_env vP vQ (VStr m) d0 q0 j0 (v_occ oP) (VInt (Z.of_nat (length A))) (VMat c (A ++ (done ++ x0 :: rest) :: D)))
  = if seqb m cardinality_score then
    match cell oP oQ with
    | Ok v => SNorm (sm_env vP vQ (VStr m) (VFloat (qnat (Nat.max (length oP) (length oQ)))) (v_occ oQ)
                       (VInt (Z.of_nat (length done))) (v_occ oP) (VInt (Z.of_nat (length A))) (VMat c (A ++ (done ++ v :: rest) :: D)))
    | Raise e => SExn e end
    else SExn ValueError.
Proof.
  intros Hc. unfold for_step, X, sm_inner_body, sm_outer_body, sm_env, cell, cardinality_score. cbn.
  destruct (seqb m _); [|reflexivity]. cbn. rewrite !map_length. unfold call. sigs. cbn.
  destruct (ext_inter oP oQ) as (s & -> & Ls). cbn.
  rewrite ?map_length, Ls, zmax_nat, !zq_nat, div_int_float, qnat_eqb0, max_nil_iff.
  destruct (Pattern.is_nil oP && Pattern.is_nil oQ); [reflexivity|]. cbn.
  erewrite (set_mat_cell c A done x0 rest D _ _ Hc) by reflexivity. unfold card_score. reflexivity.
Qed.

Lemma rmapM_cons {A B} (f : A -> res B) a t : rmapM f (a :: t) = (b <- f a ;; bs <- rmapM f t ;; Ok (b :: bs)). Proof. reflexivity. Qed.
Lemma nat_succ_z n : (Z.of_nat n + 1)%Z = Z.of_nat (S n). Proof. lia. Qed.
Lemma zle_nat n : (0 <=? Z.of_nat n)%Z = true. Proof. apply Z.leb_le. lia. Qed.

Lemma sm_inner_loop vP vQ m oP A D c : seqb m cardinality_score = true ->
  forall rest done d0 q0 j0, c = length done + length rest -> exists d' q' j',
  for_loop (for_step (run_block X) ["iQ"; "occ_Q"]%string sm_inner_body) (enum_from (Z.of_nat (length done)) (map v_occ rest))
    (sm_env vP vQ (VStr m) d0 q0 j0 (v_occ oP) (VInt (Z.of_nat (length A))) (VMat c (A ++ (done ++ repeat 0%Q (length rest)) :: D)))
  = match rmapM (cell oP) rest with
    | Ok vs => SNorm (sm_env vP vQ (VStr m) d' q' j' (v_occ oP) (VInt (Z.of_nat (length A))) (VMat c (A ++ (done ++ vs) :: D)))
    | Raise e => SExn e end.
Proof.
  intros Hm. induction rest as [|oQ t IH]; intros done d0 q0 j0 Hc.
  - exists d0, q0, j0. reflexivity.
  - cbn [map length repeat]. rewrite enum_from_cons, for_loop_cons, sm_inner_step, Hm by (rewrite repeat_length; cbn [length] in Hc; lia).
    rewrite rmapM_cons. destruct (cell oP oQ) as [v|e]; cbn [bind].
    + rewrite nat_succ_z. replace (S (length done)) with (length (done ++ [v])) by (rewrite app_length; cbn [length]; lia).
      replace (done ++ v :: repeat 0%Q (length t)) with ((done ++ [v]) ++ repeat 0%Q (length t)) by (rewrite <- app_assoc; reflexivity).
      edestruct (IH (done ++ [v])) as (d' & q' & j' & ->); [rewrite app_length; cbn [length] in *; lia|].
      exists d', q', j'. destruct (rmapM (cell oP) t) as [vs|e]; [|reflexivity]. rewrite <- app_assoc. reflexivity.
    + exists d0, q0, j0. reflexivity.
Qed.
Lemma sm_inner_bad vP vQ m oP oQ rest k d0 q0 j0 iP M : seqb m cardinality_score = false ->
  for_loop (for_step (run_block X) ["iQ"; "occ_Q"]%string sm_inner_body) (enum_from k (map v_occ (oQ :: rest)))
    (sm_env vP vQ (VStr m) d0 q0 j0 (v_occ oP) iP M) = SExn ValueError.
Proof.
  intros Hm. cbn [map]. rewrite enum_from_cons, for_loop_cons.
  unfold for_step, X, sm_inner_body, sm_outer_body, sm_env. cbn. unfold cardinality_score in Hm. rewrite Hm. reflexivity.
Qed.

Definition row_res (q : pattern) (oP : occ) : res (list Q) := rmapM (cell oP) q.
Lemma sm_outer_step vP m q A D oP d0 q0 j0 o0 i0 : seqb m cardinality_score = true -> exists d' q' j',
  for_step (run_block X) ["iP"; "occ_P"]%string sm_outer_body (VTup [VInt (Z.of_nat (length A)); v_occ oP])
    (sm_env vP (v_pat q) (VStr m) d0 q0 j0 o0 i0 (VMat (length q) (A ++ repeat 0%Q (length q) :: D)))
  = match row_res q oP with
    | Ok r => SNorm (sm_env vP (v_pat q) (VStr m) d' q' j' (v_occ oP) (VInt (Z.of_nat (length A))) (VMat (length q) (A ++ r :: D)))
    | Raise e => SExn e end.
Proof.
  intros Hm. unfold for_step, X, sm_outer_body, sm_env. cbn.
  destruct (sm_inner_loop vP (v_pat q) m oP A D (length q) Hm q [] d0 q0 j0 eq_refl) as (d' & q' & j' & E).
  exists d', q', j'. unfold X, sm_inner_body, sm_outer_body, sm_env in E. cbn [app length] in E.
  use_loop E. unfold row_res. destruct (rmapM (cell oP) q); reflexivity.
Qed.
Lemma sm_outer_loop vP m q : seqb m cardinality_score = true ->
  forall rest A d0 q0 j0 o0 i0, exists d' q' j' o' i',
  for_loop (for_step (run_block X) ["iP"; "occ_P"]%string sm_outer_body) (enum_from (Z.of_nat (length A)) (map v_occ rest))
    (sm_env vP (v_pat q) (VStr m) d0 q0 j0 o0 i0 (VMat (length q) (A ++ repeat (repeat 0%Q (length q)) (length rest))))
  = match rmapM (row_res q) rest with
    | Ok rs => SNorm (sm_env vP (v_pat q) (VStr m) d' q' j' o' i' (VMat (length q) (A ++ rs)))
    | Raise e => SExn e end.
Proof.
  intros Hm. induction rest as [|oP t IH]; intros A d0 q0 j0 o0 i0.
  - exists d0, q0, j0, o0, i0. reflexivity.
  - cbn [map length repeat]. rewrite enum_from_cons, for_loop_cons.
    destruct (sm_outer_step vP m q A (repeat (repeat 0%Q (length q)) (length t)) oP d0 q0 j0 o0 i0 Hm) as (d1 & q1 & j1 & ->).
    rewrite rmapM_cons. destruct (row_res q oP) as [r|e]; cbn [bind].
    + rewrite nat_succ_z. replace (S (length A)) with (length (A ++ [r])) by (rewrite app_length; cbn [length]; lia).
      replace (A ++ r :: repeat (repeat 0%Q (length q)) (length t)) with ((A ++ [r]) ++ repeat (repeat 0%Q (length q)) (length t))
        by (rewrite <- app_assoc; reflexivity).
      destruct (IH (A ++ [r]) d1 q1 j1 (v_occ oP) (VInt (Z.of_nat (length A)))) as (d' & q' & j' & o' & i' & ->).
      exists d', q', j', o', i'. destruct (rmapM (row_res q) t) as [rs|e]; [|reflexivity]. rewrite <- app_assoc. reflexivity.
    + exists d0, q0, j0, o0, i0. reflexivity.
Qed.
(* the sequential reading against the model's matrix *)
Lemma row_res_spec q oP : row_res q oP = if Pattern.is_nil oP && existsb Pattern.is_nil q then Raise ZeroDivisionError else Ok (map (card_score oP) q).
Proof. unfold row_res. induction q as [|oQ t IH]; [rewrite andb_false_r; reflexivity|].
  rewrite rmapM_cons, IH. unfold cell. cbn [existsb map].
  destruct (Pattern.is_nil oP); cbn [andb orb]; [|reflexivity]. destruct (Pattern.is_nil oQ); cbn [bind orb]; [reflexivity|].
  destruct (existsb Pattern.is_nil t); reflexivity. Qed.
Lemma mat_res_spec p q : rmapM (row_res q) p = score_matrix_res p q.
Proof. unfold score_matrix_res, score_matrix. induction p as [|oP t IH]; [reflexivity|].
  rewrite rmapM_cons, IH, row_res_spec. cbn [existsb map].
  destruct (Pattern.is_nil oP), (existsb Pattern.is_nil t), (existsb Pattern.is_nil q); reflexivity. Qed.

Lemma np_zeros2 a b : builtin "np.zeros" [VTup [VInt (Z.of_nat a); VInt (Z.of_nat b)]] [] = OK (VMat b (repeat (repeat 0%Q b) a)).
Proof. unfold builtin. cbn. rewrite !zle_nat, !Nat2Z.id. reflexivity. Qed.
Theorem compute_score_matrix_tie_g : forall p q m, seqb m cardinality_score = true ->
  runx gen__compute_score_matrix [v_pat p; v_pat q; VStr m] = lift (VMat (length q)) (score_matrix_res p q).
Proof.
  intros p q m Hm. unfold run_fun. cbn [length f_params gen__compute_score_matrix Nat.eqb]. unfold exec_block.
  rewrite (cut_at_for (f_body gen__compute_score_matrix)) at 1.
  rewrite run_block_app. remember (from_for (f_body gen__compute_score_matrix)) as tl eqn:Etl.
  cbn. rewrite !map_length, np_zeros2. cbn.
  subst tl. cbn.
  destruct (sm_outer_loop (v_pat p) m q Hm p [] VUnbound VUnbound VUnbound VUnbound VUnbound) as (d' & q' & j' & o' & i' & E).
  unfold X, sm_outer_body, sm_env in E. cbn [app length] in E. use_loop E.
  rewrite mat_res_spec. destruct (score_matrix_res p q); reflexivity.
Qed.
(* any other metric name: ValueError as soon as there is a pair of occurrences to score *)
Theorem compute_score_matrix_other_metric_g : forall oP p oQ q m, seqb m cardinality_score = false ->
  runx gen__compute_score_matrix [v_pat (oP :: p); v_pat (oQ :: q); VStr m] = EXN ValueError.
Proof.
  intros oP p oQ q m Hm. unfold run_fun. cbn [length f_params gen__compute_score_matrix Nat.eqb]. unfold exec_block.
  rewrite (cut_at_for (f_body gen__compute_score_matrix)) at 1.
  rewrite run_block_app. remember (from_for (f_body gen__compute_score_matrix)) as tl eqn:Etl.
  cbn. rewrite !map_length, np_zeros2. cbn.
  subst tl. cbn. rewrite enum_from_cons, for_loop_cons. unfold for_step at 1. cbn.
  pose proof (sm_inner_bad (v_pat (oP :: p)) (v_pat (oQ :: q)) m oP oQ q 0%Z VUnbound VUnbound VUnbound (VInt 0)
    (VMat (S (length q)) ((0%Q :: repeat 0%Q (length q)) :: repeat (0%Q :: repeat 0%Q (length q)) (length p))) Hm) as E.
  unfold X, sm_inner_body, sm_outer_body, sm_env in E. cbn [map] in E. cbn [map]. use_loop E. reflexivity.
Qed.


(* ---------- a generic loop that fills the cells of a row (or the rows of a matrix) and threads an accumulator ---------- *)
Section FillLoop.
Context {J Y T A : Type}.
Variable step : pv -> env -> sres.
Variable elt : nat -> Y -> pv.                     (* the loop element for the k-th item *)
Variable f : nat -> A -> Y -> res (T * A).          (* index, accumulator, item: the value stored and the new accumulator *)
Variable E : J -> A -> list T -> env.               (* J: the slots whose content does not matter *)
Variable d : T.
Variable ys : list Y.
Fixpoint elts_from (k : nat) (l : list Y) : list pv := match l with [] => [] | y :: t => elt k y :: elts_from (S k) t end.
Fixpoint sfill (k : nat) (a : A) (l : list Y) : res (list T * A) :=
  match l with
  | [] => Ok ([], a)
  | y :: t => r <- f k a y ;; r2 <- sfill (S k) (snd r) t ;; Ok (fst r :: fst r2, snd r2)
  end.
Hypothesis Hstep : forall pre y post, ys = pre ++ y :: post -> forall j a done rest,
  length done = length pre -> length rest = length post -> exists j',
  step (elt (length pre) y) (E j a (done ++ d :: rest))
  = match f (length pre) a y with Ok r => SNorm (E j' (snd r) (done ++ fst r :: rest)) | Raise e => SExn e end.
Lemma fill_loop : forall post pre done j a, ys = pre ++ post -> length done = length pre -> exists j',
  for_loop step (elts_from (length pre) post) (E j a (done ++ repeat d (length post)))
  = match sfill (length pre) a post with Ok r => SNorm (E j' (snd r) (done ++ fst r)) | Raise e => SExn e end.
Proof.
  induction post as [|y t IH]; intros pre done j a Hys Hl.
  - exists j. reflexivity.
  - cbn [elts_from length repeat sfill]. rewrite for_loop_cons.
    destruct (Hstep pre y t Hys j a done (repeat d (length t)) Hl (repeat_length _ _)) as (j1 & ->).
    destruct (f (length pre) a y) as [[v a1]|e]; cbn [bind fst snd].
    + replace (S (length pre)) with (length (pre ++ [y])) by (rewrite app_length; cbn [length]; lia).
      replace (done ++ v :: repeat d (length t)) with ((done ++ [v]) ++ repeat d (length t)) by (rewrite <- app_assoc; reflexivity).
      destruct (IH (pre ++ [y]) (done ++ [v]) j1 a1) as (j' & ->).
      { rewrite <- app_assoc. exact Hys. } { rewrite !app_length. cbn [length]. lia. }
      exists j'. destruct (sfill (length (pre ++ [y])) a1 t) as [[vs a2]|e]; cbn [bind fst snd]; [|reflexivity]. rewrite <- app_assoc. reflexivity.
    + exists j. reflexivity.
Qed.
End FillLoop.
Lemma enum_elts {Y} (emb : Y -> pv) l : forall k,
  enum_from (Z.of_nat k) (map emb l) = elts_from (fun k y => VTup [VInt (Z.of_nat k); emb y]) k l.
Proof. induction l as [|y t IH]; intros k; [reflexivity|]. cbn [map elts_from]. rewrite enum_from_cons, nat_succ_z, IH. reflexivity. Qed.
Lemma sfill_unit {Y T} (g : Y -> res T) l : forall k,
  sfill (fun _ (_ : unit) y => v <- g y ;; Ok (v, tt)) k tt l = (vs <- rmapM g l ;; Ok (vs, tt)).
Proof. induction l as [|y t IH]; intros k; [reflexivity|]. cbn [sfill]. rewrite rmapM_cons. destruct (g y) as [v|e]; cbn [bind snd fst]; [|reflexivity].
  rewrite IH. destruct (rmapM g t); reflexivity. Qed.


Hypothesis ext_validate : forall r e, ext "validate" [v_pats r; v_pats e] = lift (fun _ => VNone) (validate r e).
Hypothesis ext_n_onset : forall ps, ext "_n_onset_midi" [v_pats ps] = OK (VInt (Z.of_nat (n_onset_midi ps))).
Hypothesis ext_csm : forall p q m, seqb m cardinality_score = true ->
  ext "_compute_score_matrix" [v_pat p; v_pat q; VStr m] = lift (VMat (length q)) (score_matrix_res p q).
Lemma cmp_eq_nat0 n : cmp_op Eq (VInt (Z.of_nat n)) (VInt 0) = OK (VBool (Nat.eqb n 0)).
Proof. unfold cmp_op. cbn. rewrite zq_nat. change (zq 0) with 0%Q. rewrite qnat_eqb0. reflexivity. Qed.
Lemma np_max_mat c m : builtin "np.max" [VMat c m] [] = if PatExp.is_nil (concat m) then EXN ValueError else OK (VNpF (maxl (concat m))).
Proof. reflexivity. Qed.
Lemma np_max_axis0 c m : builtin "np.max" [VMat c m] [("axis", VInt 0)]%string = if PatExp.is_nil m then UNM else OK (VVec (map maxl (cols c m))).
Proof. reflexivity. Qed.
Lemma np_max_axis1 c m : builtin "np.max" [VMat c m] [("axis", VInt 1)]%string = if Nat.eqb c 0 then UNM else OK (VVec (map maxl m)).
Proof. reflexivity. Qed.
Lemma np_mean_vec l : builtin "np.mean" [VVec l] [] = if PatExp.is_nil l then UNM else OK (VNpF (meanl l)).
Proof. reflexivity. Qed.
Lemma cols_map2 {A B} (sc : A -> B -> Q) rs es :
  cols (length es) (map (fun r => map (sc r) es) rs) = map (fun e => map (fun r => sc r e) rs) es.
Proof. induction es as [|e t IH]; [reflexivity|]. cbn [length cols map]. rewrite !map_map. cbn [hd tl map]. rewrite IH. reflexivity. Qed.
Lemma maxl_eq l : maxl l = qmaxl l. Proof. reflexivity. Qed.
Lemma meanl_eq l : meanl l = qmean l. Proof. reflexivity. Qed.

Lemma fm_ext_np (p r : Q) : (0 <= p)%Q -> (0 <= r)%Q ->
  fm_ext (VNpF p) (VNpF r) (VFloat 1) = OK ((if qeqb p 0 && qeqb r 0 then VFloat else VNpF) (f_measure p r 1)).
Proof.
  intros Hp Hr. unfold fm_ext. cbn [as_num is_py_num andb]. destruct (qeqb p 0 && qeqb r 0) eqn:E; [reflexivity|].
  replace (qeqb (1 * 1 * p + r)%Q 0) with false; [reflexivity|]. symmetry. unfold qeqb in *.
  destruct (Qeq_bool (1 * 1 * p + r)%Q 0) eqn:E2; [|reflexivity]. apply Qeq_bool_iff in E2.
  assert (p == 0)%Q by lra. assert (r == 0)%Q by lra.
  rewrite (proj2 (Qeq_bool_iff p 0)), (proj2 (Qeq_bool_iff r 0)) in E by assumption. discriminate.
Qed.
Lemma np_fpr_mk (p r : Q) : np_fpr (mk_fpr p r) = VTup [(if qeqb p 0 && qeqb r 0 then VFloat else VNpF) (f_measure p r 1); VNpF p; VNpF r].
Proof. unfold np_fpr, mk_fpr. destruct (qeqb p 0 && qeqb r 0); reflexivity. Qed.

(* guards of a sequential map *)
Lemma rmapM_guard {Y T} (b : Y -> bool) (g : Y -> T) (e : exn) l :
  rmapM (fun y => if b y then Raise e else Ok (g y)) l = if existsb b l then Raise e else Ok (map g l).
Proof. induction l as [|y t IH]; [reflexivity|]. rewrite rmapM_cons, IH. cbn [existsb map]. destruct (b y), (existsb b t); reflexivity. Qed.
Lemma rmapM_ext {Y T} (f g : Y -> res T) l : (forall y, In y l -> f y = g y) -> rmapM f l = rmapM g l.
Proof. induction l as [|y t IH]; intros H; [reflexivity|]. rewrite !rmapM_cons, (H y (or_introl eq_refl)), IH; [reflexivity|].
  intros z Hz. apply H. right. exact Hz. Qed.
Lemma existsb_and_l {Y} (c : bool) (b : Y -> bool) l : existsb (fun y => c && b y) l = c && existsb b l.
Proof. destruct c; [reflexivity|]. cbn [andb]. induction l; [reflexivity|]. exact IHl. Qed.
Lemma existsb_concat {Y} (b : Y -> bool) ls : existsb b (concat ls) = existsb (existsb b) ls.
Proof. induction ls as [|l t IH]; [reflexivity|]. cbn [concat existsb]. rewrite existsb_app, IH. reflexivity. Qed.

(* ---------- establishment_FPR ---------- *)
Definition ecell (p q : pattern) : res Q :=
  m <- score_matrix_res p q ;; if PatExp.is_nil (concat m) then Raise ValueError else Ok (maxl (concat m)).
Lemma ecell_spec p q : p <> [] -> q <> [] ->
  ecell p q = if existsb Pattern.is_nil p && existsb Pattern.is_nil q then Raise ZeroDivisionError else Ok (est_score p q).
Proof. intros Hp Hq. unfold ecell, score_matrix_res. destruct (existsb Pattern.is_nil p && existsb Pattern.is_nil q); [reflexivity|].
  cbn [bind]. destruct p as [|oP p]; [contradiction|]. destruct q as [|oQ q]; [contradiction|]. reflexivity. Qed.

Definition est_env (vR vE vm fm rc pr s ep iQ rp iP S nQ nP : pv) : env :=
  [("reference_patterns", vR); ("estimated_patterns", vE); ("similarity_metric", vm); ("f_measure", fm); ("recall", rc);
   ("precision", pr); ("s", s); ("est_pattern", ep); ("iQ", iQ); ("ref_pattern", rp); ("iP", iP); ("S", S); ("nQ", nQ); ("nP", nP)]%string.
Definition est_outer_body : list stmt := for_body (f_body gen_establishment_FPR).
Definition est_inner_body : list stmt := for_body est_outer_body.
Lemma est_inner_step vR vE m fm rc pr p A D c nQ nP q done rest s0 ep0 iQ0 :
  seqb m cardinality_score = true -> c = length done + S (length rest) -> exists s',
  for_step (run_block X) ["iQ"; "est_pattern"]%string est_inner_body (VTup [VInt (Z.of_nat (length done)); v_pat q])
    (est_env vR vE (VStr m) fm rc pr s0 ep0 iQ0 (v_pat p) (VInt (Z.of_nat (length A))) (VMat c (A ++ (done ++ 0%Q :: rest) :: D)) nQ nP)
  = match ecell p q with
    | Ok v => SNorm (est_env vR vE (VStr m) fm rc pr s' (v_pat q) (VInt (Z.of_nat (length done))) (v_pat p) (VInt (Z.of_nat (length A)))
                       (VMat c (A ++ (done ++ v :: rest) :: D)) nQ nP)
    | Raise e => SExn e end.
Proof.
  intros Hm Hc. exists (match score_matrix_res p q with Ok mt => VMat (length q) mt | _ => VNone end).
  unfold for_step, X, est_inner_body, est_outer_body, est_env, ecell. cbn. unfold call. sigs. cbn.
  rewrite (ext_csm p q m Hm). destruct (score_matrix_res p q) as [mt|e]; cbn; [|reflexivity].
  rewrite np_max_mat. destruct (PatExp.is_nil (concat mt)); cbn; [reflexivity|].
  erewrite (set_mat_cell c A done 0%Q rest D _ _ Hc) by reflexivity. reflexivity.
Qed.


Definition erow (est : list pattern) (p : pattern) : res (list Q) := rmapM (ecell p) est.
Lemma est_outer_step vR est m fm rc pr nQ nP p A D s0 ep0 iQ0 rp0 iP0 :
  seqb m cardinality_score = true -> exists s' ep' iQ',
  for_step (run_block X) ["iP"; "ref_pattern"]%string est_outer_body (VTup [VInt (Z.of_nat (length A)); v_pat p])
    (est_env vR (v_pats est) (VStr m) fm rc pr s0 ep0 iQ0 rp0 iP0 (VMat (length est) (A ++ repeat 0%Q (length est) :: D)) nQ nP)
  = match erow est p with
    | Ok r => SNorm (est_env vR (v_pats est) (VStr m) fm rc pr s' ep' iQ' (v_pat p) (VInt (Z.of_nat (length A)))
                       (VMat (length est) (A ++ r :: D)) nQ nP)
    | Raise e => SExn e end.
Proof.
  intros Hm. unfold for_step, X, est_outer_body, est_env. cbn. change 0%Z with (Z.of_nat (length (@nil pattern))).
  rewrite (enum_elts v_pat est).
  destruct (fill_loop (J := pv * pv * pv) (A := unit)
              (for_step (run_block X) ["iQ"; "est_pattern"]%string est_inner_body)
              (fun k y => VTup [VInt (Z.of_nat k); v_pat y])
              (fun _ _ q => v <- ecell p q ;; Ok (v, tt))
              (fun j _ row => est_env vR (v_pats est) (VStr m) fm rc pr (fst (fst j)) (snd (fst j)) (snd j) (v_pat p) (VInt (Z.of_nat (length A)))
                                (VMat (length est) (A ++ row :: D)) nQ nP)
              0%Q est) with (post := est) (pre := @nil pattern) (done := @nil Q) (j := (s0, ep0, iQ0)) (a := tt) as (j' & E).
  { intros pre q post Hys [[s1 e1] i1] [] done rest Hd Hr. cbn [fst snd].
    destruct (est_inner_step vR (v_pats est) m fm rc pr p A D (length est) nQ nP q done rest s1 e1 i1 Hm) as (s' & E).
    { rewrite Hys, app_length. cbn [length]. lia. }
    exists (s', v_pat q, VInt (Z.of_nat (length done))). cbn [fst snd]. rewrite <- Hd, E.
    destruct (ecell p q); reflexivity. }
  { reflexivity. } { reflexivity. }
  cbn [app length fst snd] in E. unfold X, est_inner_body, est_outer_body, est_env in E.
  exists (fst (fst j')), (snd (fst j')), (snd j'). use_loop E. rewrite sfill_unit. unfold erow.
  destruct (rmapM (ecell p) est); reflexivity.
Qed.
Lemma est_outer_loop vR est m fm rc pr nQ nP ref s0 ep0 iQ0 rp0 iP0 :
  seqb m cardinality_score = true -> exists s' ep' iQ' rp' iP',
  for_loop (for_step (run_block X) ["iP"; "ref_pattern"]%string est_outer_body) (enum_from 0 (map v_pat ref))
    (est_env vR (v_pats est) (VStr m) fm rc pr s0 ep0 iQ0 rp0 iP0 (VMat (length est) (repeat (repeat 0%Q (length est)) (length ref))) nQ nP)
  = match rmapM (erow est) ref with
    | Ok rs => SNorm (est_env vR (v_pats est) (VStr m) fm rc pr s' ep' iQ' rp' iP' (VMat (length est) rs) nQ nP)
    | Raise e => SExn e end.
Proof.
  intros Hm. change 0%Z with (Z.of_nat (length (@nil pattern))). rewrite (enum_elts v_pat ref).
  destruct (fill_loop (J := pv * pv * pv * pv * pv) (A := unit)
              (for_step (run_block X) ["iP"; "ref_pattern"]%string est_outer_body)
              (fun k y => VTup [VInt (Z.of_nat k); v_pat y])
              (fun _ _ p => v <- erow est p ;; Ok (v, tt))
              (fun j _ rows => match j with (s1, e1, i1, r1, p1) =>
                 est_env vR (v_pats est) (VStr m) fm rc pr s1 e1 i1 r1 p1 (VMat (length est) rows) nQ nP end)
              (repeat 0%Q (length est)) ref) with (post := ref) (pre := @nil pattern) (done := @nil (list Q)) (j := (s0, ep0, iQ0, rp0, iP0)) (a := tt)
    as ([[[[s' e'] i'] r'] p'] & E).
  { intros pre p post Hys [[[[s1 e1] i1] r1] p1] [] done rest Hd Hr.
    destruct (est_outer_step vR est m fm rc pr nQ nP p done rest s1 e1 i1 r1 p1 Hm) as (s' & e' & i' & E).
    exists (s', e', i', v_pat p, VInt (Z.of_nat (length done))). rewrite <- Hd, E. destruct (erow est p); reflexivity. }
  { reflexivity. } { reflexivity. }
  cbn [app length] in E. exists s', e', i', r', p'. use_loop E. rewrite sfill_unit. destruct (rmapM (erow est) ref); reflexivity.
Qed.


Lemma validate_ok_nonempty ref est : validate ref est = Ok tt -> (forall p, In p ref -> p <> []) /\ (forall p, In p est -> p <> []).
Proof. unfold validate. destruct (existsb Pattern.is_nil (ref ++ est)) eqn:E; [discriminate|]. intros _.
  rewrite existsb_app in E. apply orb_false_iff in E. destruct E as [E1 E2].
  split; intros p Hp ->.
  - assert (X1 : existsb Pattern.is_nil ref = true) by (apply existsb_exists; exists []; auto). exact (eq_true_false_abs _ X1 E1).
  - assert (X1 : existsb Pattern.is_nil est = true) by (apply existsb_exists; exists []; auto). exact (eq_true_false_abs _ X1 E2). Qed.
Lemma erow_spec est p : p <> [] -> (forall q, In q est -> q <> []) ->
  erow est p = if existsb Pattern.is_nil p && existsb (existsb Pattern.is_nil) est then Raise ZeroDivisionError else Ok (map (est_score p) est).
Proof. intros Hp He. unfold erow.
  rewrite (rmapM_ext _ (fun q => if existsb Pattern.is_nil p && existsb Pattern.is_nil q then Raise ZeroDivisionError else Ok (est_score p q))).
  - rewrite rmapM_guard, existsb_and_l. reflexivity.
  - intros q Hq. apply ecell_spec; auto. Qed.
Lemma existsb_ext' {Y} (f g : Y -> bool) l : (forall y, f y = g y) -> existsb f l = existsb g l.
Proof. intros H. induction l as [|y t IH]; [reflexivity|]. cbn [existsb]. rewrite H, IH. reflexivity. Qed.
Lemma emat_spec ref est : (forall p, In p ref -> p <> []) -> (forall q, In q est -> q <> []) ->
  rmapM (erow est) ref = if sm_raises ref est then Raise ZeroDivisionError else Ok (map (fun p => map (est_score p) est) ref).
Proof. intros Hr He. unfold sm_raises. rewrite !existsb_concat.
  rewrite (rmapM_ext _ (fun p => if existsb Pattern.is_nil p && existsb (existsb Pattern.is_nil) est then Raise ZeroDivisionError else Ok (map (est_score p) est))).
  - rewrite rmapM_guard. rewrite (existsb_ext' _ (fun p => existsb (existsb Pattern.is_nil) est && existsb Pattern.is_nil p)) by (intros; apply andb_comm).
    rewrite existsb_and_l, andb_comm. reflexivity.
  - intros p Hp. apply erow_spec; auto. Qed.
Lemma n_onset_nonempty ps : Nat.eqb (n_onset_midi ps) 0 = false -> ps <> [].
Proof. intros H ->. discriminate. Qed.

Lemma is_nil_map' {A B} (f : A -> B) l : PatExp.is_nil (map f l) = PatExp.is_nil l. Proof. destruct l; reflexivity. Qed.
Lemma is_nil_ne {A} (l : list A) : l <> [] -> PatExp.is_nil l = false. Proof. destruct l; [contradiction|reflexivity]. Qed.
Lemma np_colmax {A B} (sc : A -> B -> Q) rs es : rs <> [] ->
  builtin "np.max" [VMat (length es) (map (fun r => map (sc r) es) rs)] [("axis", VInt 0)]%string = OK (VVec (col_maxes sc rs es)).
Proof. intros H. rewrite np_max_axis0, is_nil_map', (is_nil_ne _ H), cols_map2, map_map. reflexivity. Qed.
Lemma np_rowmax {A B} (sc : A -> B -> Q) rs es : es <> [] ->
  builtin "np.max" [VMat (length es) (map (fun r => map (sc r) es) rs)] [("axis", VInt 1)]%string = OK (VVec (row_maxes sc rs es)).
Proof. intros H. rewrite np_max_axis1. destruct es; [contradiction|]. cbn [length Nat.eqb]. rewrite map_map. reflexivity. Qed.
Lemma np_mean_cols {A B} (sc : A -> B -> Q) rs es : es <> [] ->
  builtin "np.mean" [VVec (col_maxes sc rs es)] [] = OK (VNpF (qmean (col_maxes sc rs es))).
Proof. intros H. rewrite np_mean_vec. unfold col_maxes. rewrite is_nil_map', (is_nil_ne _ H). reflexivity. Qed.
Lemma np_mean_rows {A B} (sc : A -> B -> Q) rs es : rs <> [] ->
  builtin "np.mean" [VVec (row_maxes sc rs es)] [] = OK (VNpF (qmean (row_maxes sc rs es))).
Proof. intros H. rewrite np_mean_vec. unfold row_maxes. rewrite is_nil_map', (is_nil_ne _ H). reflexivity. Qed.
Hypothesis ext_fm : forall p r b, ext "util.f_measure" [p; r; b] = fm_ext p r b.
Lemma maxes_nonneg {A B} (sc : A -> B -> Q) rs es : (forall r e, 0 <= sc r e <= 1)%Q ->
  (0 <= qmean (col_maxes sc rs es))%Q /\ (0 <= qmean (row_maxes sc rs es))%Q.
Proof. intros H. split; [apply (qmean_01 _ (col_maxes_01 sc rs es H))|apply (qmean_01 _ (row_maxes_01 sc rs es H))]. Qed.
Theorem establishment_FPR_tie_g : forall ref est m, seqb m cardinality_score = true ->
  runx gen_establishment_FPR [v_pats ref; v_pats est; VStr m] = establishment_pv ref est.
Proof.
  intros ref est m Hm. unfold run_fun. cbn [length f_params gen_establishment_FPR Nat.eqb]. unfold exec_block.
  rewrite (cut_at_for (f_body gen_establishment_FPR)) at 1.
  rewrite run_block_app. remember (from_for (f_body gen_establishment_FPR)) as tl eqn:Etl.
  unfold establishment_pv, establishment_FPR.
  cbn. unfold call. sigs. cbn. rewrite ext_validate.
  destruct (validate ref est) as [[]|e] eqn:Ev; cbn; [|reflexivity].
  rewrite !map_length, np_zeros2. cbn. unfold call. sigs. cbn. rewrite !ext_n_onset. cbn.
  rewrite !zq_nat. change (zq 0) with 0%Q. rewrite !qnat_eqb0. unfold no_notes.
  destruct (Nat.eqb (n_onset_midi ref) 0) eqn:Nr; cbn; [reflexivity|].
  destruct (Nat.eqb (n_onset_midi est) 0) eqn:Ne; cbn; [reflexivity|].
  subst tl. cbn.
  destruct (est_outer_loop (v_pats ref) est m VUnbound VUnbound VUnbound (VInt (Z.of_nat (length est))) (VInt (Z.of_nat (length ref)))
              ref VUnbound VUnbound VUnbound VUnbound VUnbound Hm) as (s' & ep' & iQ' & rp' & iP' & E).
  unfold X, est_outer_body, est_env in E. use_loop E.
  destruct (validate_ok_nonempty ref est Ev) as [Hr He].
  rewrite (emat_spec ref est Hr He). destruct (sm_raises ref est); [reflexivity|]. cbn.
  pose proof (n_onset_nonempty _ Nr) as Hr0. pose proof (n_onset_nonempty _ Ne) as He0.
  rewrite (np_colmax est_score ref est Hr0). cbn. rewrite (np_mean_cols est_score ref est He0). cbn.
  rewrite (np_rowmax est_score ref est He0). cbn. rewrite (np_mean_rows est_score ref est Hr0). cbn.
  unfold call. sigs. cbn. rewrite ext_fm.
  destruct (maxes_nonneg est_score ref est est_score_01) as [Hp Hq].
  rewrite (fm_ext_np _ _ Hp Hq). unfold np_fpr, mk_fpr.
  destruct (qeqb (qmean (col_maxes est_score ref est)) 0 && qeqb (qmean (row_maxes est_score ref est)) 0); reflexivity.
Qed.


(* ---------- occurrence_FPR ---------- *)
Lemma set_cube_cell c d A done pre x0 post rest D v x :
  c = length done + S (length rest) -> d = length pre + S (length post) -> as_num v = Some x ->
  set_item (VCube c d (A ++ (done ++ (pre ++ x0 :: post) :: rest) :: D))
    (VTup [VInt (Z.of_nat (length A)); VInt (Z.of_nat (length done)); VInt (Z.of_nat (length pre))]) v
  = OK (VCube c d (A ++ (done ++ (pre ++ x :: post) :: rest) :: D)).
Proof. intros Hc Hd Hv. unfold set_item. rewrite Hv.
  rewrite (norm_idx_nat (length A)) by (rewrite app_length; cbn [length]; lia).
  rewrite (norm_idx_nat (length done)) by lia. rewrite (norm_idx_nat (length pre)) by lia.
  cbv zeta. rewrite !nth_mid, !set_nth_mid. reflexivity. Qed.
Lemma set_cube_cell0 c A done x0 x1 rest D v x : c = length done + S (length rest) -> as_num v = Some x ->
  set_item (VCube c 2 (A ++ (done ++ [x0; x1] :: rest) :: D)) (VTup [VInt (Z.of_nat (length A)); VInt (Z.of_nat (length done)); VInt 0]) v
  = OK (VCube c 2 (A ++ (done ++ [x; x1] :: rest) :: D)).
Proof. intros Hc Hv. exact (set_cube_cell c 2 A done [] x0 [x1] rest D v x Hc eq_refl Hv). Qed.
Lemma set_cube_cell1 c A done x0 x1 rest D v x : c = length done + S (length rest) -> as_num v = Some x ->
  set_item (VCube c 2 (A ++ (done ++ [x0; x1] :: rest) :: D)) (VTup [VInt (Z.of_nat (length A)); VInt (Z.of_nat (length done)); VInt 1]) v
  = OK (VCube c 2 (A ++ (done ++ [x0; x] :: rest) :: D)).
Proof. intros Hc Hv. exact (set_cube_cell c 2 A done [x0] x1 [] rest D v x Hc eq_refl Hv). Qed.
Lemma np_zeros3 a b c : builtin "np.zeros" [VTup [VInt (Z.of_nat a); VInt (Z.of_nat b); VInt (Z.of_nat c)]] []
  = OK (VCube b c (repeat (repeat (repeat 0%Q c) b) a)).
Proof. unfold builtin. cbn. rewrite !zle_nat, !Nat2Z.id. reflexivity. Qed.
Definition zrow (ij : nat * nat) : list Z := [Z.of_nat (fst ij); Z.of_nat (snd ij)].
Lemma np_vstack2 rel i j : builtin "np.vstack" [VTup [VIMat 2 rel; VList [VInt i; VInt j]]] [] = OK (VIMat 2 (rel ++ [[i; j]])).
Proof. reflexivity. Qed.

Definition rel_entry := ((nat * nat) * (pattern * pattern))%type.
Definition v_rel (acc : list rel_entry) : pv := VIMat 2 (map (fun e => zrow (fst e)) acc).
Definition ocell (thres : Q) (p : pattern) (i j : nat) (acc : list rel_entry) (q : pattern) : res (list Q * list rel_entry) :=
  if existsb Pattern.is_nil p && existsb Pattern.is_nil q then Raise ZeroDivisionError
  else Ok ([occ_P thres p q; occ_R thres p q], if occ_rel thres p q then acc ++ [((i, j), (p, q))] else acc).

Definition occ_env (vR vE vt vm fm rc R pr P rel s ep iQ rp iP O nQ nP : pv) : env :=
  [("reference_patterns", vR); ("estimated_patterns", vE); ("thres", vt); ("similarity_metric", vm); ("f_measure", fm); ("recall", rc);
   ("R", R); ("precision", pr); ("P", P); ("rel_idx", rel); ("s", s); ("est_pattern", ep); ("iQ", iQ); ("ref_pattern", rp); ("iP", iP);
   ("O_PR", O); ("nQ", nQ); ("nP", nP)]%string.
Definition occ_outer_body : list stmt := for_body (f_body gen_occurrence_FPR).
Definition occ_inner_body : list stmt := for_body occ_outer_body.
Lemma occ_inner_step vR vE thres m fm rc R pr P p A D c nQ nP q done rest acc s0 ep0 iQ0 :
  seqb m cardinality_score = true -> c = length done + S (length rest) -> p <> [] -> q <> [] -> exists s',
  for_step (run_block X) ["iQ"; "est_pattern"]%string occ_inner_body (VTup [VInt (Z.of_nat (length done)); v_pat q])
    (occ_env vR vE (VFloat thres) (VStr m) fm rc R pr P (v_rel acc) s0 ep0 iQ0 (v_pat p) (VInt (Z.of_nat (length A)))
       (VCube c 2 (A ++ (done ++ [0%Q; 0%Q] :: rest) :: D)) nQ nP)
  = match ocell thres p (length A) (length done) acc q with
    | Ok r => SNorm (occ_env vR vE (VFloat thres) (VStr m) fm rc R pr P (v_rel (snd r)) s' (v_pat q) (VInt (Z.of_nat (length done)))
                       (v_pat p) (VInt (Z.of_nat (length A))) (VCube c 2 (A ++ (done ++ fst r :: rest) :: D)) nQ nP)
    | Raise e => SExn e end.
Proof.
  intros Hm Hc Hp Hq. exists (match score_matrix_res p q with Ok mt => VMat (length q) mt | _ => VNone end).
  unfold for_step, X, occ_inner_body, occ_outer_body, occ_env, ocell. cbn. unfold call. sigs. cbn.
  rewrite (ext_csm p q m Hm). unfold score_matrix_res.
  destruct (existsb Pattern.is_nil p && existsb Pattern.is_nil q); cbn; [reflexivity|].
  rewrite np_max_mat. replace (PatExp.is_nil (concat (score_matrix p q))) with false
    by (destruct p; [contradiction|]; destruct q; [contradiction|reflexivity]). cbn.
  unfold occ_P, occ_R, occ_rel, est_score. rewrite maxl_eq.
  destruct (qleb thres (qmaxl (concat (score_matrix p q)))); cbn; [|reflexivity].
  unfold score_matrix. rewrite (np_colmax card_score p q Hp). cbn. rewrite (np_mean_cols card_score p q Hq). cbn.
  erewrite (set_cube_cell0 c A done _ _ rest D _ _ Hc) by reflexivity. cbn.
  rewrite (np_rowmax card_score p q Hq). cbn. rewrite (np_mean_rows card_score p q Hp). cbn.
  erewrite (set_cube_cell1 c A done _ _ rest D _ _ Hc) by reflexivity. cbn.
  unfold v_rel. rewrite map_app. reflexivity.
Qed.


Definition orow (thres : Q) (est : list pattern) (i : nat) (acc : list rel_entry) (p : pattern) : res (list (list Q) * list rel_entry) :=
  sfill (ocell thres p i) 0 acc est.
Lemma occ_outer_step vR est thres m fm rc R pr P nQ nP p A D acc s0 ep0 iQ0 rp0 iP0 :
  seqb m cardinality_score = true -> p <> [] -> (forall q, In q est -> q <> []) -> exists s' ep' iQ',
  for_step (run_block X) ["iP"; "ref_pattern"]%string occ_outer_body (VTup [VInt (Z.of_nat (length A)); v_pat p])
    (occ_env vR (v_pats est) (VFloat thres) (VStr m) fm rc R pr P (v_rel acc) s0 ep0 iQ0 rp0 iP0
       (VCube (length est) 2 (A ++ repeat [0%Q; 0%Q] (length est) :: D)) nQ nP)
  = match orow thres est (length A) acc p with
    | Ok r => SNorm (occ_env vR (v_pats est) (VFloat thres) (VStr m) fm rc R pr P (v_rel (snd r)) s' ep' iQ' (v_pat p)
                       (VInt (Z.of_nat (length A))) (VCube (length est) 2 (A ++ fst r :: D)) nQ nP)
    | Raise e => SExn e end.
Proof.
  intros Hm Hp He. unfold for_step, X, occ_outer_body, occ_env. cbn. change 0%Z with (Z.of_nat (length (@nil pattern))).
  rewrite (enum_elts v_pat est).
  destruct (fill_loop (J := pv * pv * pv)
              (for_step (run_block X) ["iQ"; "est_pattern"]%string occ_inner_body)
              (fun k y => VTup [VInt (Z.of_nat k); v_pat y])
              (ocell thres p (length A))
              (fun j acc row => occ_env vR (v_pats est) (VFloat thres) (VStr m) fm rc R pr P (v_rel acc) (fst (fst j)) (snd (fst j)) (snd j)
                                  (v_pat p) (VInt (Z.of_nat (length A))) (VCube (length est) 2 (A ++ row :: D)) nQ nP)
              [0%Q; 0%Q] est) with (post := est) (pre := @nil pattern) (done := @nil (list Q)) (j := (s0, ep0, iQ0)) (a := acc) as (j' & E).
  { intros pre q post Hys [[s1 e1] i1] a done rest Hd Hr. cbn [fst snd].
    destruct (occ_inner_step vR (v_pats est) thres m fm rc R pr P p A D (length est) nQ nP q done rest a s1 e1 i1 Hm) as (s' & E).
    { rewrite Hys, app_length. cbn [length]. lia. } { exact Hp. } { apply He. rewrite Hys. apply in_or_app. right. left. reflexivity. }
    exists (s', v_pat q, VInt (Z.of_nat (length done))). cbn [fst snd]. rewrite <- Hd, E. reflexivity. }
  { reflexivity. } { reflexivity. }
  cbn [app length fst snd] in E. unfold X, occ_inner_body, occ_outer_body, occ_env in E.
  exists (fst (fst j')), (snd (fst j')), (snd j'). use_loop E. unfold orow. destruct (sfill (ocell thres p (length A)) 0 acc est); reflexivity.
Qed.
Definition orun (thres : Q) (ref est : list pattern) : res (list (list (list Q)) * list rel_entry) :=
  sfill (orow thres est) 0 [] ref.
Lemma occ_outer_loop vR est thres m fm rc R pr P nQ nP ref s0 ep0 iQ0 rp0 iP0 :
  seqb m cardinality_score = true -> (forall p, In p ref -> p <> []) -> (forall q, In q est -> q <> []) -> exists s' ep' iQ' rp' iP',
  for_loop (for_step (run_block X) ["iP"; "ref_pattern"]%string occ_outer_body) (enum_from 0 (map v_pat ref))
    (occ_env vR (v_pats est) (VFloat thres) (VStr m) fm rc R pr P (v_rel []) s0 ep0 iQ0 rp0 iP0
       (VCube (length est) 2 (repeat (repeat [0%Q; 0%Q] (length est)) (length ref))) nQ nP)
  = match orun thres ref est with
    | Ok r => SNorm (occ_env vR (v_pats est) (VFloat thres) (VStr m) fm rc R pr P (v_rel (snd r)) s' ep' iQ' rp' iP'
                       (VCube (length est) 2 (fst r)) nQ nP)
    | Raise e => SExn e end.
Proof.
  intros Hm Hr He. change 0%Z with (Z.of_nat (length (@nil pattern))). rewrite (enum_elts v_pat ref).
  destruct (fill_loop (J := pv * pv * pv * pv * pv)
              (for_step (run_block X) ["iP"; "ref_pattern"]%string occ_outer_body)
              (fun k y => VTup [VInt (Z.of_nat k); v_pat y])
              (orow thres est)
              (fun j acc planes => match j with (s1, e1, i1, r1, p1) =>
                 occ_env vR (v_pats est) (VFloat thres) (VStr m) fm rc R pr P (v_rel acc) s1 e1 i1 r1 p1 (VCube (length est) 2 planes) nQ nP end)
              (repeat [0%Q; 0%Q] (length est)) ref) with (post := ref) (pre := @nil pattern) (done := @nil (list (list Q)))
              (j := (s0, ep0, iQ0, rp0, iP0)) (a := @nil rel_entry)
    as ([[[[s' e'] i'] r'] p'] & E).
  { intros pre p post Hys [[[[s1 e1] i1] r1] p1] a done rest Hd Hrr.
    destruct (occ_outer_step vR est thres m fm rc R pr P nQ nP p done rest a s1 e1 i1 r1 p1 Hm) as (s' & e' & i' & E).
    { apply Hr. rewrite Hys. apply in_or_app. right. left. reflexivity. } { exact He. }
    exists (s', e', i', v_pat p, VInt (Z.of_nat (length done))). rewrite <- Hd, E. reflexivity. }
  { reflexivity. } { reflexivity. }
  cbn [app length] in E. exists s', e', i', r', p'. use_loop E. unfold orun. reflexivity.
Qed.

(* ---- the pure reading: cells and relevant pairs ---- *)
Fixpoint inner_rel (thres : Q) (i : nat) (p : pattern) (j : nat) (qs : list pattern) : list rel_entry :=
  match qs with
  | [] => []
  | q :: t => (if occ_rel thres p q then [((i, j), (p, q))] else []) ++ inner_rel thres i p (S j) t
  end.
Fixpoint outer_rel (thres : Q) (i : nat) (ps est : list pattern) : list rel_entry :=
  match ps with [] => [] | p :: t => inner_rel thres i p 0 est ++ outer_rel thres (S i) t est end.
Definition pr_cell (thres : Q) (p q : pattern) : list Q := [occ_P thres p q; occ_R thres p q].
Lemma orow_spec thres p i : forall qs j acc,
  sfill (ocell thres p i) j acc qs
  = if existsb Pattern.is_nil p && existsb (existsb Pattern.is_nil) qs then Raise ZeroDivisionError
    else Ok (map (pr_cell thres p) qs, acc ++ inner_rel thres i p j qs).
Proof.
  induction qs as [|q t IH]; intros j acc.
  - cbn [sfill existsb map inner_rel]. rewrite andb_false_r, app_nil_r. reflexivity.
  - cbn [sfill existsb map inner_rel]. unfold ocell at 1.
    destruct (existsb Pattern.is_nil p); cbn [andb orb]; [|cbn [bind fst snd]; rewrite IH; cbn [andb bind fst snd];
      destruct (occ_rel thres p q); rewrite <- ?app_assoc; reflexivity].
    destruct (existsb Pattern.is_nil q); cbn [orb bind fst snd]; [reflexivity|]. rewrite IH. cbn [andb].
    destruct (existsb (existsb Pattern.is_nil) t); cbn [bind fst snd]; [reflexivity|].
    destruct (occ_rel thres p q); rewrite <- ?app_assoc; reflexivity.
Qed.
Lemma orun_spec thres est : forall ps i acc,
  sfill (orow thres est) i acc ps
  = if existsb (existsb Pattern.is_nil) ps && existsb (existsb Pattern.is_nil) est then Raise ZeroDivisionError
    else Ok (map (fun p => map (pr_cell thres p) est) ps, acc ++ outer_rel thres i ps est).
Proof.
  induction ps as [|p t IH]; intros i acc.
  - cbn [sfill existsb map outer_rel andb]. rewrite app_nil_r. reflexivity.
  - cbn [sfill existsb map outer_rel]. unfold orow at 1. rewrite orow_spec.
    destruct (existsb Pattern.is_nil p), (existsb (existsb Pattern.is_nil) est); cbn [andb orb bind fst snd]; try reflexivity;
      rewrite IH; rewrite ?andb_false_r; cbn [andb bind fst snd]; try (rewrite <- app_assoc; reflexivity).
    destruct (existsb (existsb Pattern.is_nil) t); cbn [bind fst snd]; [reflexivity|]. rewrite <- app_assoc. reflexivity.
Qed.
Lemma inner_rel_snd thres i p : forall qs j, map snd (inner_rel thres i p j qs) = filter (fun pq => occ_rel thres (fst pq) (snd pq)) (map (pair p) qs).
Proof. induction qs as [|q t IH]; intros j; [reflexivity|]. cbn [inner_rel map filter fst snd]. rewrite map_app, IH.
  destruct (occ_rel thres p q); reflexivity. Qed.
Lemma outer_rel_snd thres est : forall ps i, map snd (outer_rel thres i ps est) = rel_pairs thres ps est.
Proof. unfold rel_pairs. induction ps as [|p t IH]; intros i; [reflexivity|]. cbn [outer_rel list_prod]. rewrite map_app, filter_app, IH, inner_rel_snd. reflexivity. Qed.
Definition valid_entry (ref est : list pattern) (e : rel_entry) : Prop :=
  nth_error ref (fst (fst e)) = Some (fst (snd e)) /\ nth_error est (snd (fst e)) = Some (snd (snd e)).
Lemma nth_error_mid {A} (pre : list A) x post : nth_error (pre ++ x :: post) (length pre) = Some x.
Proof. induction pre; [reflexivity|assumption]. Qed.
Lemma inner_rel_valid thres i p : forall qs pre e, In e (inner_rel thres i p (length pre) qs) ->
  fst (fst e) = i /\ fst (snd e) = p /\ nth_error (pre ++ qs) (snd (fst e)) = Some (snd (snd e)).
Proof. induction qs as [|q t IH]; intros pre e H; [destruct H|]. cbn [inner_rel] in H. apply in_app_or in H. destruct H as [H|H].
  - destruct (occ_rel thres p q); [|destruct H]. destruct H as [<-|[]]. cbn [fst snd]. repeat split. apply nth_error_mid.
  - replace (S (length pre)) with (length (pre ++ [q])) in H by (rewrite app_length; cbn [length]; lia).
    apply IH in H. rewrite <- app_assoc in H. exact H. Qed.
Lemma outer_rel_valid thres est : forall ps pre e, In e (outer_rel thres (length pre) ps est) -> valid_entry (pre ++ ps) est e.
Proof. induction ps as [|p t IH]; intros pre e H; [destruct H|]. cbn [outer_rel] in H. apply in_app_or in H. destruct H as [H|H].
  - apply (inner_rel_valid thres (length pre) p est []) in H. destruct H as (H1 & H2 & H3). split; [|exact H3].
    rewrite H1, <- H2. apply nth_error_mid.
  - replace (S (length pre)) with (length (pre ++ [p])) in H by (rewrite app_length; cbn [length]; lia).
    apply IH in H. rewrite <- app_assoc in H. exact H. Qed.


(* the selection P[np.ix_(rel_idx[:, 0], rel_idx[:, 1])] *)
Lemma pick_nat {A} (l : list A) i x : nth_error l i = Some x -> pick l (Z.of_nat i) = Some x.
Proof. intros H. unfold pick. rewrite norm_idx_nat; [exact H|]. apply nth_error_Some. rewrite H. discriminate. Qed.
Lemma omap_ext_in {A B} (f : A -> option B) (g : A -> B) l : (forall x, In x l -> f x = Some (g x)) -> omap f l = Some (map g l).
Proof. induction l as [|x t IH]; intros H; [reflexivity|]. cbn [omap map]. rewrite (H x (or_introl eq_refl)), IH; [reflexivity|].
  intros y Hy. apply H. right. exact Hy. Qed.
Lemma omap_map_in {A B C} (f : B -> option C) (h : A -> B) (g : A -> C) l :
  (forall x, In x l -> f (h x) = Some (g x)) -> omap f (map h l) = Some (map g l).
Proof. induction l as [|x t IH]; intros H; [reflexivity|]. cbn [omap map]. rewrite (H x (or_introl eq_refl)), IH; [reflexivity|].
  intros y Hy. apply H. right. exact Hy. Qed.
Lemma mesh_rel (sc : pattern -> pattern -> Q) ref est (rs cs : list rel_entry) :
  (forall e, In e rs -> valid_entry ref est e) -> (forall e, In e cs -> valid_entry ref est e) ->
  mesh (map (fun p => map (sc p) est) ref) (map (fun e => Z.of_nat (fst (fst e))) rs) (map (fun e => Z.of_nat (snd (fst e))) cs)
  = Some (map (fun a => map (fun b => sc (fst (snd a)) (snd (snd b))) cs) rs).
Proof.
  intros Hr Hc. unfold mesh. apply omap_map_in. intros a Ha. destruct (Hr a Ha) as [H1 _].
  rewrite (pick_nat _ _ (map (sc (fst (snd a))) est)) by (rewrite nth_error_map, H1; reflexivity).
  apply omap_map_in. intros b Hb. destruct (Hc b Hb) as [_ H2].
  apply pick_nat. rewrite nth_error_map, H2. reflexivity.
Qed.
Lemma sm_raises_eq ref est : sm_raises ref est = existsb (existsb Pattern.is_nil) ref && existsb (existsb Pattern.is_nil) est.
Proof. unfold sm_raises. rewrite !existsb_concat. reflexivity. Qed.

Lemma cube_slice c m k : (k < 2)%nat ->
  get_item (VCube c 2 m) (VTup [VSliceAll; VSliceAll; VInt (Z.of_nat k)]) = OK (VMat c (map (map (fun cell => nth k cell 0%Q)) m)).
Proof. intros H. unfold get_item. rewrite norm_idx_nat by exact H. reflexivity. Qed.
Lemma imat_col m k : (k < 2)%nat ->
  get_item (VIMat 2 m) (VTup [VSliceAll; VInt (Z.of_nat k)]) = OK (VIVec (map (fun r => nth k r 0%Z) m)).
Proof. intros H. unfold get_item. rewrite norm_idx_nat by exact H. reflexivity. Qed.
Lemma cube_slice0 c m : get_item (VCube c 2 m) (VTup [VSliceAll; VSliceAll; VInt 0]) = OK (VMat c (map (map (fun cell => nth 0 cell 0%Q)) m)).
Proof. exact (cube_slice c m 0 ltac:(lia)). Qed.
Lemma cube_slice1 c m : get_item (VCube c 2 m) (VTup [VSliceAll; VSliceAll; VInt 1]) = OK (VMat c (map (map (fun cell => nth 1 cell 0%Q)) m)).
Proof. exact (cube_slice c m 1 ltac:(lia)). Qed.
Lemma imat_col0 m : get_item (VIMat 2 m) (VTup [VSliceAll; VInt 0]) = OK (VIVec (map (fun r => nth 0 r 0%Z) m)).
Proof. exact (imat_col m 0 ltac:(lia)). Qed.
Lemma imat_col1 m : get_item (VIMat 2 m) (VTup [VSliceAll; VInt 1]) = OK (VIVec (map (fun r => nth 1 r 0%Z) m)).
Proof. exact (imat_col m 1 ltac:(lia)). Qed.
Lemma get_mesh c m rs cs m' : mesh m rs cs = Some m' -> get_item (VMat c m) (VIx rs cs) = OK (VMat (length cs) m').
Proof. intros H. unfold get_item. rewrite H. reflexivity. Qed.
Lemma fm_ext_00 : fm_ext (VInt 0) (VInt 0) (VFloat 1) = OK (VFloat 0).
Proof. vm_compute. reflexivity. Qed.
Lemma slice_prcell0 thres ref est :
  map (map (fun cell : list Q => nth 0 cell 0%Q)) (map (fun p => map (pr_cell thres p) est) ref) = map (fun p => map (occ_P thres p) est) ref.
Proof. rewrite map_map. apply map_ext. intros p. rewrite map_map. reflexivity. Qed.
Lemma slice_prcell1 thres ref est :
  map (map (fun cell : list Q => nth 1 cell 0%Q)) (map (fun p => map (pr_cell thres p) est) ref) = map (fun p => map (occ_R thres p) est) ref.
Proof. rewrite map_map. apply map_ext. intros p. rewrite map_map. reflexivity. Qed.
Lemma relcol0 (acc : list (nat * nat * (pattern * pattern))) :
  map (fun r : list Z => nth 0 r 0%Z) (map (fun e => zrow (fst e)) acc) = map (fun e => Z.of_nat (fst (fst e))) acc.
Proof. rewrite map_map. reflexivity. Qed.
Lemma relcol1 (acc : list (nat * nat * (pattern * pattern))) :
  map (fun r : list Z => nth 1 r 0%Z) (map (fun e => zrow (fst e)) acc) = map (fun e => Z.of_nat (snd (fst e))) acc.
Proof. rewrite map_map. reflexivity. Qed.
Lemma rel_cols (sc : pattern -> pattern -> Q) (acc : list (nat * nat * (pattern * pattern))) :
  map (fun b => qmaxl (map (fun a => sc (fst a) (snd b)) (map snd acc))) (map snd acc)
  = col_maxes (fun a b : nat * nat * (pattern * pattern) => sc (fst (snd a)) (snd (snd b))) acc acc.
Proof. unfold col_maxes. rewrite map_map. apply map_ext. intros b. rewrite map_map. reflexivity. Qed.
Lemma rel_rows (sc : pattern -> pattern -> Q) (acc : list (nat * nat * (pattern * pattern))) :
  map (fun a => qmaxl (map (fun b => sc (fst a) (snd b)) (map snd acc))) (map snd acc)
  = row_maxes (fun a b : nat * nat * (pattern * pattern) => sc (fst (snd a)) (snd (snd b))) acc acc.
Proof. unfold row_maxes. rewrite map_map. apply map_ext. intros b. rewrite map_map. reflexivity. Qed.
Theorem occurrence_FPR_tie_g : forall ref est thres m, seqb m cardinality_score = true ->
  runx gen_occurrence_FPR [v_pats ref; v_pats est; VFloat thres; VStr m] = occurrence_pv ref est thres.
Proof.
  intros ref est thres m Hm. unfold run_fun. cbn [length f_params gen_occurrence_FPR Nat.eqb]. unfold exec_block.
  rewrite (cut_at_for (f_body gen_occurrence_FPR)) at 1.
  rewrite run_block_app. remember (from_for (f_body gen_occurrence_FPR)) as tl eqn:Etl.
  unfold occurrence_pv, occurrence_FPR.
  cbn. unfold call. sigs. cbn. rewrite ext_validate.
  destruct (validate ref est) as [[]|e] eqn:Ev; cbn; [|reflexivity].
  rewrite !map_length. change 2%Z with (Z.of_nat 2). rewrite np_zeros3. cbn. unfold call. sigs. cbn. rewrite !ext_n_onset. cbn.
  rewrite !zq_nat. change (zq 0) with 0%Q. rewrite !qnat_eqb0. unfold no_notes.
  destruct (Nat.eqb (n_onset_midi ref) 0) eqn:Nr; cbn; [reflexivity|].
  destruct (Nat.eqb (n_onset_midi est) 0) eqn:Ne; cbn; [reflexivity|].
  subst tl. cbn.
  destruct (validate_ok_nonempty ref est Ev) as [Hr He].
  destruct (occ_outer_loop (v_pats ref) est thres m VUnbound VUnbound VUnbound VUnbound VUnbound (VInt (Z.of_nat (length est)))
              (VInt (Z.of_nat (length ref))) ref VUnbound VUnbound VUnbound VUnbound VUnbound Hm Hr He) as (s' & ep' & iQ' & rp' & iP' & E).
  unfold X, occ_outer_body, occ_env, v_rel in E. cbn [map] in E. use_loop E.
  unfold orun. rewrite orun_spec, <- sm_raises_eq. destruct (sm_raises ref est); [reflexivity|]. cbn [fst snd app].
  pose proof (outer_rel_snd thres est ref 0) as Hrel. pose proof (outer_rel_valid thres est ref []) as Hval. cbn [length app] in Hval.
  set (acc := outer_rel thres 0 ref est) in *. clearbody acc. cbn. rewrite map_length.
  rewrite zq_nat. change (zq 0) with 0%Q. rewrite qnat_eqb0, <- Hrel.
  unfold rel_entry in *. replace (Pattern.is_nil (map snd acc)) with (Nat.eqb (length acc) 0) by (destruct acc; reflexivity).
  destruct (Nat.eqb (length acc) 0) eqn:El.
  - cbn. unfold call. sigs. cbn. rewrite ext_fm, fm_ext_00. reflexivity.
  - assert (Hne : acc <> []) by (intros ->; discriminate El).
    cbn.
    rewrite cube_slice0. cbn. rewrite imat_col0, imat_col1. cbn.
    rewrite slice_prcell0, !relcol0, !relcol1.
    rewrite (get_mesh _ _ _ _ _ (mesh_rel (occ_P thres) ref est acc acc Hval Hval)). cbn. rewrite map_length.
    set (scP := fun a b : nat * nat * (pattern * pattern) => occ_P thres (fst (snd a)) (snd (snd b))).
    change (map (fun a : nat * nat * (pattern * pattern) => map (fun b : nat * nat * (pattern * pattern) => occ_P thres (fst (snd a)) (snd (snd b))) acc) acc)
      with (map (fun r => map (scP r) acc) acc).
    rewrite (np_colmax scP acc acc Hne). cbn. rewrite (np_mean_cols scP acc acc Hne). cbn.
    rewrite cube_slice1. cbn. rewrite imat_col0, imat_col1. cbn.
    rewrite slice_prcell1, !relcol0, !relcol1.
    rewrite (get_mesh _ _ _ _ _ (mesh_rel (occ_R thres) ref est acc acc Hval Hval)). cbn. rewrite map_length.
    set (scR := fun a b : nat * nat * (pattern * pattern) => occ_R thres (fst (snd a)) (snd (snd b))).
    change (map (fun a : nat * nat * (pattern * pattern) => map (fun b : nat * nat * (pattern * pattern) => occ_R thres (fst (snd a)) (snd (snd b))) acc) acc)
      with (map (fun r => map (scR r) acc) acc).
    rewrite (np_rowmax scR acc acc Hne). cbn. rewrite (np_mean_rows scR acc acc Hne). cbn.
    unfold call. sigs. cbn. rewrite ext_fm.
    assert (HP : forall a b, (0 <= scP a b <= 1)%Q) by (intros; apply occ_P_01).
    assert (HR : forall a b, (0 <= scR a b <= 1)%Q) by (intros; apply occ_R_01).
    rewrite (fm_ext_np _ _ (proj1 (maxes_nonneg scP acc acc HP)) (proj2 (maxes_nonneg scR acc acc HR))).
    cbv zeta. rewrite (rel_cols (occ_P thres) acc), (rel_rows (occ_R thres) acc). fold scP scR. unfold np_fpr, mk_fpr.
    destruct (qeqb (qmean (col_maxes scP acc acc)) 0 && qeqb (qmean (row_maxes scR acc acc)) 0); reflexivity.
Qed.


(* ---------- standard_FPR ---------- *)
Definition rows_of (o : occ) : list (list Q) := map (fun n => [fst n; snd n]) o.
Definition arr (o : occ) : pv := if Pattern.is_nil o then VVec [] else VMat 2 (rows_of o).
Lemma all_num_rows_notes o : all_num_rows (map v_note o) = Some (rows_of o).
Proof. induction o as [|n t IH]; [reflexivity|]. cbn [map all_num_rows v_note forallb is_float_num andb omap as_num]. rewrite IH. reflexivity. Qed.
Lemma asarray_occ o : builtin "np.asarray" [v_occ o] [] = OK (arr o).
Proof. destruct o as [|n t]; [reflexivity|]. unfold builtin, v_occ, arr. cbn [String.eqb Ascii.eqb Bool.eqb map Pattern.is_nil].
  cbn. rewrite all_num_rows_notes. cbn.
  replace (forallb (fun r' : list Q => Nat.eqb (length r') 2) (rows_of t)) with true; [reflexivity|].
  symmetry. apply forallb_forall. intros r Hr. unfold rows_of in Hr. apply in_map_iff in Hr. destruct Hr as (x & <- & _). reflexivity.
Qed.
Lemma len_arr o : builtin "len" [arr o] [] = OK (VInt (Z.of_nat (length o))).
Proof. destruct o; [reflexivity|]. unfold arr, rows_of. cbn. rewrite map_length. reflexivity. Qed.
Lemma rows_of_sub P Qo : length P = length Qo ->
  map (fun p => zipq Qminus (fst p) (snd p)) (combine (rows_of P) (rows_of Qo)) = rows_of (map (fun pq => nsub (fst pq) (snd pq)) (combine P Qo)).
Proof. revert Qo. induction P as [|a P IH]; intros [|b Qo] H; try discriminate; [reflexivity|].
  cbn [rows_of map combine fst snd zipq nsub]. f_equal. apply IH. cbn [length] in H. lia. Qed.
Lemma row_diffs_flat l : concat (PatExp.row_diffs (rows_of l)) = Pattern.row_diffs l.
Proof. induction l as [|a [|b t] IH]; [reflexivity|reflexivity|]. 
  change (rows_of (a :: b :: t)) with ([fst a; snd a] :: [fst b; snd b] :: rows_of t).
  cbn [PatExp.row_diffs concat zipq app Pattern.row_diffs]. f_equal. f_equal. exact IH. Qed.
Lemma concat_map_map {A B} (f : A -> B) m : concat (map (map f) m) = map f (concat m).
Proof. induction m as [|r t IH]; [reflexivity|]. cbn [map concat]. rewrite map_app, IH. reflexivity. Qed.
(* the tolerance test on two prototypes of the same length other than 1 *)
Lemma np_diff_mat c m : builtin "np.diff" [VMat c m] [("axis", VInt 0)]%string = OK (VMat c (PatExp.row_diffs m)). Proof. reflexivity. Qed.
Lemma np_abs_mat c m : builtin "np.abs" [VMat c m] [] = OK (VMat c (map (map Qabs) m)). Proof. reflexivity. Qed.
Definition dev_test (tol : Q) (P Qo : occ) : out pv :=
  x <~ bin_op Sub (arr P) (arr Qo) ;; d <~ builtin "np.diff" [x] [("axis", VInt 0)]%string ;; a <~ builtin "np.abs" [d] [] ;;
  mx <~ builtin "np.max" [a] [] ;; cmp_op Lt mx (VFloat tol).
Lemma dev_test_spec tol P Qo : length P = length Qo ->
  dev_test tol P Qo = match Pattern.row_diffs (map (fun pq => nsub (fst pq) (snd pq)) (combine P Qo)) with
                      | [] => EXN ValueError
                      | d => OK (VBool (qltb (qmaxl (map Qabs d)) tol)) end.
Proof.
  intros H. unfold dev_test, arr. destruct P as [|a P]; destruct Qo as [|b Qo]; try discriminate; [reflexivity|].
  cbn [Pattern.is_nil]. unfold bin_op, sub_op. rewrite Nat.eqb_refl. unfold same_shape, rows_of. rewrite !map_length.
  match goal with |- context [Nat.eqb ?x ?y] => replace (Nat.eqb x y) with true by (symmetry; apply Nat.eqb_eq; exact H) end.
  cbn [andb obind]. fold (rows_of (a :: P)) (rows_of (b :: Qo)). rewrite (rows_of_sub _ _ H).
  set (l := map (fun pq => nsub (fst pq) (snd pq)) (combine (a :: P) (b :: Qo))).
  clearbody l. cbn [obind]. rewrite np_diff_mat. cbn [obind]. rewrite np_abs_mat. cbn [obind]. rewrite np_max_mat, concat_map_map, row_diffs_flat.
  destruct (Pattern.row_diffs l) as [|x t]; reflexivity.
Qed.

Lemma qnat_eqb a b : qeqb (qnat a) (qnat b) = Nat.eqb a b.
Proof. unfold qeqb, qnat. destruct (Nat.eqb a b) eqn:E.
  - apply Nat.eqb_eq in E. subst b. apply Qeq_bool_iff. reflexivity.
  - apply Nat.eqb_neq in E. destruct (Qeq_bool (inject_Z (Z.of_nat a)) (inject_Z (Z.of_nat b))) eqn:E2; [|reflexivity].
    apply Qeq_bool_iff in E2. unfold Qeq, inject_Z in E2. cbn in E2. lia. Qed.
Lemma proto_item e : seq_item (map v_occ e) (VInt 0) = match proto e with Ok o => OK (v_occ o) | Raise ex => EXN ex end.
Proof. destruct e; reflexivity. Qed.
Lemma sub_arr P Qo : length P = length Qo -> P <> [] ->
  sub_op (arr P) (arr Qo) = OK (VMat 2 (rows_of (map (fun pq => nsub (fst pq) (snd pq)) (combine P Qo)))).
Proof. intros H Hp. destruct P as [|a P]; [contradiction|]. destruct Qo as [|b Qo]; [discriminate|].
  unfold arr, sub_op. cbn [Pattern.is_nil]. rewrite Nat.eqb_refl. unfold same_shape, rows_of. rewrite !map_length.
  match goal with |- context [Nat.eqb ?x ?y] => replace (Nat.eqb x y) with true by (symmetry; apply Nat.eqb_eq; exact H) end.
  cbn [andb]. fold (rows_of (a :: P)) (rows_of (b :: Qo)). rewrite (rows_of_sub _ _ H). reflexivity. Qed.

Definition std_env (vR vE vt fm rc pr k Qv ep Pv rp nQ nP : pv) : env :=
  [("reference_patterns", vR); ("estimated_patterns", vE); ("tol", vt); ("f_measure", fm); ("recall", rc); ("precision", pr);
   ("k", k); ("Q", Qv); ("est_pattern", ep); ("P", Pv); ("ref_pattern", rp); ("nQ", nQ); ("nP", nP)]%string.
Definition std_outer_body : list stmt := for_body (f_body gen_standard_FPR).
Definition std_inner_body : list stmt := for_body std_outer_body.
Lemma std_inner_step vR vE tol fm rc pr k Q0 ep0 P rp nQ nP e :
  for_step (run_block X) ["est_pattern"]%string std_inner_body (v_pat e)
    (std_env vR vE (VFloat tol) fm rc pr (VInt k) Q0 ep0 (arr P) rp nQ nP)
  = match proto e with
    | Raise ex => SExn ex
    | Ok Qo =>
        if negb (Nat.eqb (length P) (length Qo)) then SCnt (std_env vR vE (VFloat tol) fm rc pr (VInt k) (arr Qo) (v_pat e) (arr P) rp nQ nP)
        else match proto_match tol P Qo with
             | Ok true => SBrk (std_env vR vE (VFloat tol) fm rc pr (VInt (k + 1)) (arr Qo) (v_pat e) (arr P) rp nQ nP)
             | Ok false => SNorm (std_env vR vE (VFloat tol) fm rc pr (VInt k) (arr Qo) (v_pat e) (arr P) rp nQ nP)
             | Raise ex => SExn ex end
    end.
Proof.
  unfold for_step, X, std_inner_body, std_outer_body, std_env. cbn. rewrite proto_item.
  destruct (proto e) as [Qo|ex]; cbn; [|reflexivity]. rewrite asarray_occ.
  destruct (Nat.eqb (length P) (length Qo)) eqn:El; cbn [negb].
  - apply Nat.eqb_eq in El. unfold proto_match. rewrite El, Nat.eqb_refl. cbn [negb].
    destruct P as [|a P]; destruct Qo as [|b Qo]; try discriminate El.
    + reflexivity.
    + assert (Hne : a :: P <> []) by discriminate. pose proof (sub_arr _ _ El Hne) as Hs. revert Hs.
      set (l := map (fun pq => nsub (fst pq) (snd pq)) (combine (a :: P) (b :: Qo))). intros Hs.
      unfold arr in *. cbn [Pattern.is_nil] in *. set (rP := rows_of (a :: P)) in *. set (rQ := rows_of (b :: Qo)) in *.
      assert (HlP : length rP = length (a :: P)) by (unfold rP, rows_of; apply map_length).
      assert (HlQ : length rQ = length (b :: Qo)) by (unfold rQ, rows_of; apply map_length).
      clearbody rP rQ l. rewrite <- El in *. set (n := length (a :: P)) in *. clearbody n. clear El.
      change 1%Z with (Z.of_nat 1).
      repeat (progress (cbn; rewrite ?HlP, ?HlQ, ?zq_nat, ?qnat_eqb, ?Nat.eqb_refl)).
      destruct (Nat.eqb n 1); cbn; [reflexivity|].
      rewrite Hs. cbn. rewrite np_max_mat, concat_map_map, row_diffs_flat.
      destruct (Pattern.row_diffs l) as [|x t]; cbn; [reflexivity|].
      change (maxl_from (Qabs x) (map Qabs t)) with (qmaxl_from (Qabs x) (map Qabs t)).
      destruct (qltb (qmaxl_from (Qabs x) (map Qabs t)) tol); reflexivity.
  - assert (Hl : forall o, exists c m, arr o = (if Pattern.is_nil o then VVec [] else VMat c m) /\ (Pattern.is_nil o = false -> length m = length o)).
    { intros o. exists 2, (rows_of o). split; [reflexivity|]. intros _. apply map_length. }
    destruct (Hl P) as (cP & mP & EP & HP). destruct (Hl Qo) as (cQ & mQ & EQ & HQ). rewrite EP, EQ. clear EP EQ Hl.
    destruct P as [|a P]; destruct Qo as [|b Qo]; try discriminate El; cbn [Pattern.is_nil] in *;
      rewrite <- ?HP, <- ?HQ in El by reflexivity; clear HP HQ; cbn; rewrite ?zq_nat; change (zq 0) with (qnat 0); rewrite qnat_eqb;
      cbn [length] in El; rewrite El; reflexivity.
Qed.


Lemma std_inner_loop vR vE tol fm rc pr P rp nQ nP : forall ests k Q0 ep0, exists Q' ep',
  for_loop (for_step (run_block X) ["est_pattern"]%string std_inner_body) (map v_pat ests)
    (std_env vR vE (VFloat tol) fm rc pr (VInt k) Q0 ep0 (arr P) rp nQ nP)
  = match scan_est tol P ests with
    | Ok b => SNorm (std_env vR vE (VFloat tol) fm rc pr (VInt (if b then k + 1 else k)%Z) Q' ep' (arr P) rp nQ nP)
    | Raise ex => SExn ex end.
Proof.
  induction ests as [|e t IH]; intros k Q0 ep0.
  - exists Q0, ep0. reflexivity.
  - cbn [map scan_est]. rewrite for_loop_cons, std_inner_step.
    destruct (proto e) as [Qo|ex]; cbn [bind]; [|exists Q0, ep0; reflexivity].
    destruct (Nat.eqb (length P) (length Qo)) eqn:El; cbn [negb].
    + destruct (proto_match tol P Qo) as [[|]|ex]; cbn [bind].
      * exists (arr Qo), (v_pat e). reflexivity.
      * apply IH.
      * exists Q0, ep0. reflexivity.
    + replace (proto_match tol P Qo) with (@Ok bool false) by (unfold proto_match; rewrite El; reflexivity). cbn [bind]. apply IH.
Qed.
Lemma std_outer_step vR est tol fm rc pr nQ nP r k Q0 ep0 P0 rp0 : exists Q' ep' P',
  for_step (run_block X) ["ref_pattern"]%string std_outer_body (v_pat r)
    (std_env vR (v_pats est) (VFloat tol) fm rc pr (VInt k) Q0 ep0 P0 rp0 nQ nP)
  = match (P <- proto r ;; scan_est tol P est) with
    | Ok b => SNorm (std_env vR (v_pats est) (VFloat tol) fm rc pr (VInt (if b then k + 1 else k)%Z) Q' ep' P' (v_pat r) nQ nP)
    | Raise ex => SExn ex end.
Proof.
  unfold for_step, X, std_outer_body, std_env. cbn. rewrite proto_item.
  destruct (proto r) as [P|ex]; cbn; [|exists Q0, ep0, P0; reflexivity]. rewrite asarray_occ. cbn.
  destruct (std_inner_loop vR (v_pats est) tol fm rc pr P (v_pat r) nQ nP est k Q0 ep0) as (Q' & ep' & E).
  exists Q', ep', (arr P). unfold X, std_inner_body, std_outer_body, std_env in E. use_loop E.
  destruct (scan_est tol P est); reflexivity.
Qed.
Lemma std_outer_loop vR est tol fm rc pr nQ nP : forall refs k Q0 ep0 P0 rp0, exists Q' ep' P' rp',
  for_loop (for_step (run_block X) ["ref_pattern"]%string std_outer_body) (map v_pat refs)
    (std_env vR (v_pats est) (VFloat tol) fm rc pr (VInt k) Q0 ep0 P0 rp0 nQ nP)
  = match count_matches tol refs est with
    | Ok c => SNorm (std_env vR (v_pats est) (VFloat tol) fm rc pr (VInt (k + Z.of_nat c)) Q' ep' P' rp' nQ nP)
    | Raise ex => SExn ex end.
Proof.
  induction refs as [|r t IH]; intros k Q0 ep0 P0 rp0.
  - exists Q0, ep0, P0, rp0. cbn [map count_matches]. rewrite for_loop_nil. replace (k + Z.of_nat 0)%Z with k by lia. reflexivity.
  - cbn [map count_matches]. rewrite for_loop_cons.
    destruct (std_outer_step vR est tol fm rc pr nQ nP r k Q0 ep0 P0 rp0) as (Q1 & ep1 & P1 & ->).
    destruct (proto r) as [P|ex]; cbn [bind]; [|exists Q0, ep0, P0, rp0; reflexivity].
    destruct (scan_est tol P est) as [b|ex]; cbn [bind]; [|exists Q0, ep0, P0, rp0; reflexivity].
    destruct (IH (if b then k + 1 else k)%Z Q1 ep1 P1 (v_pat r)) as (Q' & ep' & P' & rp' & ->).
    exists Q', ep', P', rp'. destruct (count_matches tol t est) as [c|ex]; cbn [bind]; [|reflexivity].
    replace ((if b then k + 1 else k) + Z.of_nat c)%Z with (k + Z.of_nat (if b then S c else c))%Z by (destruct b; lia). reflexivity.
Qed.
Lemma fm_ext_py (p r : Q) : (0 <= p)%Q -> (0 <= r)%Q -> fm_ext (VFloat p) (VFloat r) (VFloat 1) = OK (VFloat (f_measure p r 1)).
Proof.
  intros Hp Hr. unfold fm_ext. cbn [as_num is_py_num andb]. destruct (qeqb p 0 && qeqb r 0) eqn:E; [reflexivity|].
  replace (qeqb (1 * 1 * p + r)%Q 0) with false; [reflexivity|]. symmetry. unfold qeqb in *.
  destruct (Qeq_bool (1 * 1 * p + r)%Q 0) eqn:E2; [|reflexivity]. apply Qeq_bool_iff in E2.
  assert (p == 0)%Q by lra. assert (r == 0)%Q by lra.
  rewrite (proj2 (Qeq_bool_iff p 0)), (proj2 (Qeq_bool_iff r 0)) in E by assumption. discriminate.
Qed.
Lemma n_onset_len ps : Nat.eqb (n_onset_midi ps) 0 = false -> Nat.eqb (length ps) 0 = false.
Proof. intros H. destruct ps; [discriminate H|reflexivity]. Qed.
Theorem standard_FPR_tie_g : forall ref est tol,
  runx gen_standard_FPR [v_pats ref; v_pats est; VFloat tol] = standard_pv ref est tol.
Proof.
  intros ref est tol. unfold run_fun. cbn [length f_params gen_standard_FPR Nat.eqb]. unfold exec_block.
  rewrite (cut_at_for (f_body gen_standard_FPR)) at 1.
  rewrite run_block_app. remember (from_for (f_body gen_standard_FPR)) as tl eqn:Etl.
  unfold standard_pv, standard_FPR.
  cbn. unfold call. sigs. cbn. rewrite ext_validate.
  destruct (validate ref est) as [[]|e] eqn:Ev; cbn; [|reflexivity].
  rewrite !map_length. unfold call. sigs. cbn. rewrite !ext_n_onset. cbn.
  rewrite !zq_nat. change (zq 0) with 0%Q. rewrite !qnat_eqb0. unfold no_notes.
  destruct (Nat.eqb (n_onset_midi ref) 0) eqn:Nr; cbn; [reflexivity|].
  destruct (Nat.eqb (n_onset_midi est) 0) eqn:Ne; cbn; [reflexivity|].
  subst tl. cbn.
  destruct (std_outer_loop (v_pats ref) est tol VUnbound VUnbound VUnbound (VInt (Z.of_nat (length est))) (VInt (Z.of_nat (length ref)))
              ref 0%Z VUnbound VUnbound VUnbound VUnbound) as (Q' & ep' & P' & rp' & E).
  unfold X, std_outer_body, std_env in E. use_loop E.
  destruct (count_matches tol ref est) as [c|ex]; cbn; [|reflexivity].
  rewrite div_int_float, !zq_nat, qnat_eqb0, (n_onset_len _ Ne). cbn.
  rewrite div_int_float, !zq_nat, qnat_eqb0, (n_onset_len _ Nr). cbn.
  unfold call. sigs. cbn. rewrite ext_fm, fm_ext_py by (apply Qdiv_nonneg; apply qnat_nonneg). reflexivity.
Qed.


(* ---------- three_layer_FPR: the nested helpers ---------- *)
Lemma is_nil_len {A} (l : list A) : Nat.eqb (length l) 0 = Pattern.is_nil l. Proof. destruct l; reflexivity. Qed.
Theorem first_layer_PR_tie_g : forall a b,
  runx gen_three_layer_FPR__compute_first_layer_PR [v_occ a; v_occ b]
  = lift (fun pr => VTup [VFloat (fst pr); VFloat (snd pr)]) (layer1_PR a b).
Proof.
  intros. unfold run_fun, layer1_PR. cbn. unfold call. sigs. cbn.
  destruct (ext_inter a b) as (s & -> & Ls). cbn. rewrite ?map_length, Ls.
  rewrite div_int_float, !zq_nat, qnat_eqb0, is_nil_len. destruct (Pattern.is_nil a); cbn; [reflexivity|].
  rewrite ?map_length, div_int_float, !zq_nat, qnat_eqb0, ?map_length, is_nil_len. destruct (Pattern.is_nil b); cbn; reflexivity.
Qed.

Hypothesis ext_first : forall a b, ext "three_layer_FPR.compute_first_layer_PR" [v_occ a; v_occ b]
  = lift (fun pr => VTup [VFloat (fst pr); VFloat (snd pr)]) (layer1_PR a b).
Hypothesis ext_second : forall a b, a <> [] -> b <> [] -> ext "three_layer_FPR.compute_second_layer_PR" [v_pat a; v_pat b] = layer2_pv a b.
Lemma layer1_PR_nonneg a b pr : layer1_PR a b = Ok pr -> (0 <= fst pr)%Q /\ (0 <= snd pr)%Q.
Proof. unfold layer1_PR. destruct (Pattern.is_nil a || Pattern.is_nil b); [discriminate|]. intros [= <-]. cbn [fst snd].
  split; apply Qdiv_nonneg; apply qnat_nonneg. Qed.

Lemma qeqb_zq a b : qeqb (zq a) (zq b) = Z.eqb a b.
Proof. unfold qeqb, zq. destruct (Z.eqb a b) eqn:E.
  - apply Z.eqb_eq in E. subst b. apply Qeq_bool_iff. reflexivity.
  - apply Z.eqb_neq in E. destruct (Qeq_bool (inject_Z a) (inject_Z b)) eqn:E2; [|reflexivity].
    apply Qeq_bool_iff in E2. unfold Qeq, inject_Z in E2. cbn in E2. lia. Qed.
Definition cl_env (vR vE vl rc pr fn iQ iP F nQ nP : pv) : env :=
  [("ref_elements", vR); ("est_elements", vE); ("layer", vl); ("recall", rc); ("precision", pr); ("func", fn); ("iQ", iQ); ("iP", iP);
   ("F", F); ("nQ", nQ); ("nP", nP)]%string.
Definition cl_outer_body : list stmt := for_body (f_body gen_three_layer_FPR__compute_layer).
Definition cl_inner_body : list stmt := for_body cl_outer_body.
Lemma seq_item_mid {Y} (emb : Y -> pv) pre y post :
  seq_item (map emb (pre ++ y :: post)) (VInt (Z.of_nat (length pre))) = OK (emb y).
Proof. unfold seq_item. rewrite norm_idx_nat by (rewrite map_length, app_length; cbn [length]; lia).
  rewrite nth_error_map, nth_error_mid. reflexivity. Qed.
Lemma cl1_inner_step pP oP sP preQ oQ postQ A D c nQ nP done rest rc0 pr0 fn0 iQ0 :
  c = length done + S (length rest) -> length done = length preQ -> length A = length pP ->
  exists rc' pr',
  for_step (run_block X) ["iQ"]%string cl_inner_body (VInt (Z.of_nat (length preQ)))
    (cl_env (v_pat (pP ++ oP :: sP)) (v_pat (preQ ++ oQ :: postQ)) (VInt 1) rc0 pr0 fn0 iQ0 (VInt (Z.of_nat (length pP)))
       (VMat c (A ++ (done ++ 0%Q :: rest) :: D)) nQ nP)
  = match cell1 oP oQ with
    | Ok v => SNorm (cl_env (v_pat (pP ++ oP :: sP)) (v_pat (preQ ++ oQ :: postQ)) (VInt 1) rc' pr'
                       (VFun "three_layer_FPR.compute_first_layer_PR") (VInt (Z.of_nat (length preQ))) (VInt (Z.of_nat (length pP)))
                       (VMat c (A ++ (done ++ v :: rest) :: D)) nQ nP)
    | Raise e => SExn e end.
Proof.
  intros Hc Hd HA. unfold for_step, X, cl_inner_body, cl_outer_body, cl_env, cell1. cbn.
  rewrite ?qeqb_zq. cbn. rewrite !seq_item_mid. cbn. unfold call. sigs. cbn. rewrite ext_first.
  destruct (layer1_PR oP oQ) as [[p r]|e] eqn:E1; cbn; [|exists rc0, pr0; reflexivity].
  destruct (layer1_PR_nonneg _ _ _ E1) as [Hp Hr]. cbn [fst snd] in Hp, Hr.
  unfold call. sigs. cbn. rewrite ext_fm, (fm_ext_py p r Hp Hr). cbn.
  rewrite <- HA, <- Hd. erewrite (set_mat_cell c A done 0%Q rest D _ _ Hc) by reflexivity.
  exists (VFloat r), (VFloat p). reflexivity.
Qed.


Lemma range_elts {Y} (l : list Y) : forall k,
  map (fun k => VInt (Z.of_nat k)) (seq k (length l)) = elts_from (fun k (_ : Y) => VInt (Z.of_nat k)) k l.
Proof. induction l as [|y t IH]; intros k; [reflexivity|]. cbn [length seq map elts_from]. rewrite IH. reflexivity. Qed.

Lemma cl1_outer_step pP oP sP q A D nP rc0 pr0 fn0 iQ0 iP0 : length A = length pP -> exists rc' pr' fn' iQ',
  for_step (run_block X) ["iP"]%string cl_outer_body (VInt (Z.of_nat (length pP)))
    (cl_env (v_pat (pP ++ oP :: sP)) (v_pat q) (VInt 1) rc0 pr0 fn0 iQ0 iP0 (VMat (length q) (A ++ repeat 0%Q (length q) :: D))
       (VInt (Z.of_nat (length q))) nP)
  = match rmapM (cell1 oP) q with
    | Ok r => SNorm (cl_env (v_pat (pP ++ oP :: sP)) (v_pat q) (VInt 1) rc' pr' fn' iQ' (VInt (Z.of_nat (length pP)))
                       (VMat (length q) (A ++ r :: D)) (VInt (Z.of_nat (length q))) nP)
    | Raise e => SExn e end.
Proof.
  intros HA. unfold for_step, X, cl_outer_body, cl_env. cbn. rewrite Nat2Z.id, (range_elts q 0).
  destruct (fill_loop (J := pv * pv * pv * pv) (A := unit)
              (for_step (run_block X) ["iQ"]%string cl_inner_body)
              (fun k (_ : occ) => VInt (Z.of_nat k))
              (fun _ _ oQ => v <- cell1 oP oQ ;; Ok (v, tt))
              (fun j _ row => match j with (rc, pr, fn, iQ) =>
                 cl_env (v_pat (pP ++ oP :: sP)) (v_pat q) (VInt 1) rc pr fn iQ (VInt (Z.of_nat (length pP)))
                   (VMat (length q) (A ++ row :: D)) (VInt (Z.of_nat (length q))) nP end)
              0%Q q) with (post := q) (pre := @nil occ) (done := @nil Q) (j := (rc0, pr0, fn0, iQ0)) (a := tt) as ([[[rc' pr'] fn'] iQ'] & E).
  { intros pre y post Hys [[[rc1 pr1] fn1] iQ1] [] done rest Hd Hr.
    destruct (cl1_inner_step pP oP sP pre y post A D (length q) (VInt (Z.of_nat (length q))) nP done rest rc1 pr1 fn1 iQ1) as (rc' & pr' & E).
    { rewrite Hys, app_length. cbn [length]. lia. } { exact Hd. } { exact HA. }
    exists (rc', pr', VFun "three_layer_FPR.compute_first_layer_PR", VInt (Z.of_nat (length pre))).
    rewrite <- Hys in E. rewrite E. destruct (cell1 oP y); reflexivity. }
  { reflexivity. } { reflexivity. }
  cbn [app length] in E. unfold X, cl_inner_body, cl_outer_body, cl_env in E.
  exists rc', pr', fn', iQ'. use_loop E. rewrite sfill_unit. destruct (rmapM (cell1 oP) q); reflexivity.
Qed.
Lemma cl1_outer_loop p q nP rc0 pr0 fn0 iQ0 iP0 : exists rc' pr' fn' iQ' iP',
  for_loop (for_step (run_block X) ["iP"]%string cl_outer_body) (elts_from (fun k (_ : occ) => VInt (Z.of_nat k)) 0 p)
    (cl_env (v_pat p) (v_pat q) (VInt 1) rc0 pr0 fn0 iQ0 iP0 (VMat (length q) (repeat (repeat 0%Q (length q)) (length p)))
       (VInt (Z.of_nat (length q))) nP)
  = match layer1_res p q with
    | Ok rs => SNorm (cl_env (v_pat p) (v_pat q) (VInt 1) rc' pr' fn' iQ' iP' (VMat (length q) rs) (VInt (Z.of_nat (length q))) nP)
    | Raise e => SExn e end.
Proof.
  destruct (fill_loop (J := pv * pv * pv * pv * pv) (A := unit)
              (for_step (run_block X) ["iP"]%string cl_outer_body)
              (fun k (_ : occ) => VInt (Z.of_nat k))
              (fun _ _ oP => v <- rmapM (cell1 oP) q ;; Ok (v, tt))
              (fun j _ rows => match j with (rc, pr, fn, iQ, iP) =>
                 cl_env (v_pat p) (v_pat q) (VInt 1) rc pr fn iQ iP (VMat (length q) rows) (VInt (Z.of_nat (length q))) nP end)
              (repeat 0%Q (length q)) p) with (post := p) (pre := @nil occ) (done := @nil (list Q)) (j := (rc0, pr0, fn0, iQ0, iP0)) (a := tt)
    as ([[[[rc' pr'] fn'] iQ'] iP'] & E).
  { intros pre y post Hys [[[[rc1 pr1] fn1] iQ1] iP1] [] done rest Hd Hr.
    destruct (cl1_outer_step pre y post q done rest nP rc1 pr1 fn1 iQ1 iP1 Hd) as (rc' & pr' & fn' & iQ' & E).
    exists (rc', pr', fn', iQ', VInt (Z.of_nat (length pre))). rewrite <- Hys in E. rewrite E.
    destruct (rmapM (cell1 y) q); reflexivity. }
  { reflexivity. } { reflexivity. }
  cbn [app length] in E. exists rc', pr', fn', iQ', iP'. use_loop E. rewrite sfill_unit. unfold layer1_res.
  destruct (rmapM (fun o1 => rmapM (cell1 o1) q) p); reflexivity.
Qed.
Theorem compute_layer_1_tie_g : forall p q,
  runx gen_three_layer_FPR__compute_layer [v_pat p; v_pat q; VInt 1] = lift (VMat (length q)) (layer1_res p q).
Proof.
  intros p q. unfold run_fun. cbn [length f_params gen_three_layer_FPR__compute_layer Nat.eqb]. unfold exec_block.
  rewrite (cut_at_for (f_body gen_three_layer_FPR__compute_layer)) at 1.
  rewrite run_block_app. remember (from_for (f_body gen_three_layer_FPR__compute_layer)) as tl eqn:Etl.
  cbn. rewrite ?qeqb_zq. cbn. rewrite !map_length, np_zeros2. cbn.
  subst tl. cbn. rewrite Nat2Z.id, (range_elts p 0).
  destruct (cl1_outer_loop p q (VInt (Z.of_nat (length p))) VUnbound VUnbound VUnbound VUnbound VUnbound) as (rc' & pr' & fn' & iQ' & iP' & E).
  unfold X, cl_outer_body, cl_env in E. use_loop E. destruct (layer1_res p q); reflexivity.
Qed.


Lemma rmapM_guard2 {Y T} (c : bool) (b : Y -> bool) (g : Y -> T) (e : exn) l :
  rmapM (fun y => if c || b y then Raise e else Ok (g y)) l = if (negb (Pattern.is_nil l) && c) || existsb b l then Raise e else Ok (map g l).
Proof. induction l as [|y t IH]; [reflexivity|]. rewrite rmapM_cons, IH. cbn [Pattern.is_nil negb andb existsb map].
  destruct c; cbn [orb]; [reflexivity|]. rewrite andb_false_r. cbn [orb]. destruct (b y), (existsb b t); reflexivity. Qed.
Lemma cell1_spec o1 o2 : cell1 o1 o2 = if Pattern.is_nil o1 || Pattern.is_nil o2 then Raise ZeroDivisionError else Ok (layer1_F o1 o2).
Proof. unfold cell1, layer1_PR, layer1_F. destruct (Pattern.is_nil o1 || Pattern.is_nil o2); reflexivity. Qed.
Lemma layer1_res_spec p q : p <> [] -> q <> [] ->
  layer1_res p q = if existsb Pattern.is_nil p || existsb Pattern.is_nil q then Raise ZeroDivisionError
                   else Ok (map (fun o1 => map (layer1_F o1) q) p).
Proof.
  intros Hp Hq. unfold layer1_res.
  rewrite (rmapM_ext _ (fun o1 => if existsb Pattern.is_nil q || Pattern.is_nil o1 then Raise ZeroDivisionError else Ok (map (layer1_F o1) q))).
  - rewrite rmapM_guard2. destruct p; [contradiction|]. cbn [Pattern.is_nil negb andb]. rewrite orb_comm. reflexivity.
  - intros o1 _. rewrite (rmapM_ext _ (fun o2 => if Pattern.is_nil o1 || Pattern.is_nil o2 then Raise ZeroDivisionError else Ok (layer1_F o1 o2)))
      by (intros; apply cell1_spec).
    rewrite rmapM_guard2. destruct q; [contradiction|]. cbn [Pattern.is_nil negb andb]. rewrite orb_comm. reflexivity.
Qed.
Hypothesis ext_cl1 : forall p q, ext "three_layer_FPR.compute_layer" [v_pat p; v_pat q; VInt 1] = lift (VMat (length q)) (layer1_res p q).
Theorem second_layer_PR_tie_g : forall p q, p <> [] -> q <> [] ->
  runx gen_three_layer_FPR__compute_second_layer_PR [v_pat p; v_pat q] = layer2_pv p q.
Proof.
  intros p q Hp Hq. unfold run_fun, layer2_pv. cbn. unfold call. sigs. cbn. rewrite ext_cl1.
  replace (Pattern.is_nil p || Pattern.is_nil q) with false by (destruct p; [contradiction|]; destruct q; [contradiction|reflexivity]).
  rewrite (layer1_res_spec p q Hp Hq). destruct (existsb Pattern.is_nil p || existsb Pattern.is_nil q); cbn; [reflexivity|].
  rewrite (np_colmax layer1_F p q Hp). cbn. rewrite (np_mean_cols layer1_F p q Hq). cbn.
  rewrite (np_rowmax layer1_F p q Hq). cbn. rewrite (np_mean_rows layer1_F p q Hp). cbn. reflexivity.
Qed.


Definition cell2r (p q : pattern) : res Q := match layer1_res p q with Ok _ => Ok (layer2_F p q) | Raise e => Raise e end.
Lemma cl2_inner_step (pP : list pattern) (p : pattern) (sP preQ : list pattern) (q : pattern) (postQ : list pattern) A D c nQ nP done rest rc0 pr0 fn0 iQ0 :
  c = length done + S (length rest) -> length done = length preQ -> length A = length pP -> p <> [] -> q <> [] ->
  exists rc' pr',
  for_step (run_block X) ["iQ"]%string cl_inner_body (VInt (Z.of_nat (length preQ)))
    (cl_env (v_pats (pP ++ p :: sP)) (v_pats (preQ ++ q :: postQ)) (VInt 2) rc0 pr0 fn0 iQ0 (VInt (Z.of_nat (length pP)))
       (VMat c (A ++ (done ++ 0%Q :: rest) :: D)) nQ nP)
  = match cell2r p q with
    | Ok v => SNorm (cl_env (v_pats (pP ++ p :: sP)) (v_pats (preQ ++ q :: postQ)) (VInt 2) rc' pr'
                       (VFun "three_layer_FPR.compute_second_layer_PR") (VInt (Z.of_nat (length preQ))) (VInt (Z.of_nat (length pP)))
                       (VMat c (A ++ (done ++ v :: rest) :: D)) nQ nP)
    | Raise e => SExn e end.
Proof.
  intros Hc Hd HA Hp Hq. unfold for_step, X, cl_inner_body, cl_outer_body, cl_env, cell2r. cbn.
  rewrite ?qeqb_zq. cbn. rewrite ?qeqb_zq. cbn. rewrite !seq_item_mid. cbn. unfold call. sigs. cbn. rewrite (ext_second _ _ Hp Hq). unfold layer2_pv.
  replace (Pattern.is_nil p || Pattern.is_nil q) with false by (destruct p; [contradiction|]; destruct q; [contradiction|reflexivity]).
  destruct (layer1_res p q) as [m|e]; cbn; [|exists rc0, pr0; reflexivity].
  unfold call. sigs. cbn. rewrite ext_fm, (fm_ext_np _ _ (proj1 (layer2_P_01 p q)) (proj1 (layer2_R_01 p q))).
  exists (VNpF (layer2_R p q)), (VNpF (layer2_P p q)). unfold layer2_F.
  destruct (qeqb (layer2_P p q) 0 && qeqb (layer2_R p q) 0); cbn;
    rewrite <- HA, <- Hd; erewrite (set_mat_cell c A done 0%Q rest D _ _ Hc) by reflexivity; reflexivity.
Qed.
Lemma in_mid {A} (pre : list A) y post : In y (pre ++ y :: post). Proof. apply in_or_app. right. left. reflexivity. Qed.
Lemma cl2_outer_step (pP : list pattern) (p : pattern) (sP est : list pattern) A D nP rc0 pr0 fn0 iQ0 iP0 : length A = length pP -> p <> [] -> (forall q, In q est -> q <> []) ->
  exists rc' pr' fn' iQ',
  for_step (run_block X) ["iP"]%string cl_outer_body (VInt (Z.of_nat (length pP)))
    (cl_env (v_pats (pP ++ p :: sP)) (v_pats est) (VInt 2) rc0 pr0 fn0 iQ0 iP0 (VMat (length est) (A ++ repeat 0%Q (length est) :: D))
       (VInt (Z.of_nat (length est))) nP)
  = match rmapM (cell2r p) est with
    | Ok r => SNorm (cl_env (v_pats (pP ++ p :: sP)) (v_pats est) (VInt 2) rc' pr' fn' iQ' (VInt (Z.of_nat (length pP)))
                       (VMat (length est) (A ++ r :: D)) (VInt (Z.of_nat (length est))) nP)
    | Raise e => SExn e end.
Proof.
  intros HA Hp He. unfold for_step, X, cl_outer_body, cl_env. cbn. rewrite Nat2Z.id, (range_elts est 0).
  destruct (fill_loop (J := pv * pv * pv * pv) (A := unit)
              (for_step (run_block X) ["iQ"]%string cl_inner_body)
              (fun k (_ : pattern) => VInt (Z.of_nat k))
              (fun _ _ q => v <- cell2r p q ;; Ok (v, tt))
              (fun j _ row => match j with (rc, pr, fn, iQ) =>
                 cl_env (v_pats (pP ++ p :: sP)) (v_pats est) (VInt 2) rc pr fn iQ (VInt (Z.of_nat (length pP)))
                   (VMat (length est) (A ++ row :: D)) (VInt (Z.of_nat (length est))) nP end)
              0%Q est) with (post := est) (pre := @nil pattern) (done := @nil Q) (j := (rc0, pr0, fn0, iQ0)) (a := tt) as ([[[rc' pr'] fn'] iQ'] & E).
  { intros pre y post Hys [[[rc1 pr1] fn1] iQ1] [] done rest Hd Hr.
    destruct (cl2_inner_step pP p sP pre y post A D (length est) (VInt (Z.of_nat (length est))) nP done rest rc1 pr1 fn1 iQ1) as (rc' & pr' & E).
    { rewrite Hys, app_length. cbn [length]. lia. } { exact Hd. } { exact HA. } { exact Hp. } { apply He. rewrite Hys. apply in_mid. }
    exists (rc', pr', VFun "three_layer_FPR.compute_second_layer_PR", VInt (Z.of_nat (length pre))).
    rewrite <- Hys in E. rewrite E. destruct (cell2r p y); reflexivity. }
  { reflexivity. } { reflexivity. }
  cbn [app length] in E. unfold X, cl_inner_body, cl_outer_body, cl_env in E.
  exists rc', pr', fn', iQ'. use_loop E. rewrite sfill_unit. destruct (rmapM (cell2r p) est); reflexivity.
Qed.
Definition layer2_res (ref est : list pattern) : res (list (list Q)) := rmapM (fun p => rmapM (cell2r p) est) ref.
Lemma cl2_outer_loop ref est nP rc0 pr0 fn0 iQ0 iP0 : (forall p, In p ref -> p <> []) -> (forall q, In q est -> q <> []) ->
  exists rc' pr' fn' iQ' iP',
  for_loop (for_step (run_block X) ["iP"]%string cl_outer_body) (elts_from (fun k (_ : pattern) => VInt (Z.of_nat k)) 0 ref)
    (cl_env (v_pats ref) (v_pats est) (VInt 2) rc0 pr0 fn0 iQ0 iP0 (VMat (length est) (repeat (repeat 0%Q (length est)) (length ref)))
       (VInt (Z.of_nat (length est))) nP)
  = match layer2_res ref est with
    | Ok rs => SNorm (cl_env (v_pats ref) (v_pats est) (VInt 2) rc' pr' fn' iQ' iP' (VMat (length est) rs) (VInt (Z.of_nat (length est))) nP)
    | Raise e => SExn e end.
Proof.
  intros Hr He.
  destruct (fill_loop (J := pv * pv * pv * pv * pv) (A := unit)
              (for_step (run_block X) ["iP"]%string cl_outer_body)
              (fun k (_ : pattern) => VInt (Z.of_nat k))
              (fun _ _ p => v <- rmapM (cell2r p) est ;; Ok (v, tt))
              (fun j _ rows => match j with (rc, pr, fn, iQ, iP) =>
                 cl_env (v_pats ref) (v_pats est) (VInt 2) rc pr fn iQ iP (VMat (length est) rows) (VInt (Z.of_nat (length est))) nP end)
              (repeat 0%Q (length est)) ref) with (post := ref) (pre := @nil pattern) (done := @nil (list Q)) (j := (rc0, pr0, fn0, iQ0, iP0)) (a := tt)
    as ([[[[rc' pr'] fn'] iQ'] iP'] & E).
  { intros pre y post Hys [[[[rc1 pr1] fn1] iQ1] iP1] [] done rest Hd Hrr.
    destruct (cl2_outer_step pre y post est done rest nP rc1 pr1 fn1 iQ1 iP1 Hd) as (rc' & pr' & fn' & iQ' & E).
    { apply Hr. rewrite Hys. apply in_mid. } { exact He. }
    exists (rc', pr', fn', iQ', VInt (Z.of_nat (length pre))). rewrite <- Hys in E. refine (eq_trans E _).
    destruct (rmapM (cell2r y) est); reflexivity. }
  { reflexivity. } { reflexivity. }
  cbn [app length] in E. exists rc', pr', fn', iQ', iP'. use_loop E. rewrite sfill_unit. unfold layer2_res.
  destruct (rmapM (fun p => rmapM (cell2r p) est) ref); reflexivity.
Qed.
Theorem compute_layer_2_tie_g : forall ref est, (forall p, In p ref -> p <> []) -> (forall q, In q est -> q <> []) ->
  runx gen_three_layer_FPR__compute_layer [v_pats ref; v_pats est; VInt 2] = lift (VMat (length est)) (layer2_res ref est).
Proof.
  intros ref est Hr He. unfold run_fun. cbn [length f_params gen_three_layer_FPR__compute_layer Nat.eqb]. unfold exec_block.
  rewrite (cut_at_for (f_body gen_three_layer_FPR__compute_layer)) at 1.
  rewrite run_block_app. remember (from_for (f_body gen_three_layer_FPR__compute_layer)) as tl eqn:Etl.
  cbn. rewrite ?qeqb_zq. cbn. rewrite ?qeqb_zq. cbn. rewrite !map_length, np_zeros2. cbn.
  subst tl. cbn. rewrite Nat2Z.id. unfold pattern. rewrite (range_elts ref 0).
  destruct (cl2_outer_loop ref est (VInt (Z.of_nat (length ref))) VUnbound VUnbound VUnbound VUnbound VUnbound Hr He) as (rc' & pr' & fn' & iQ' & iP' & E).
  unfold X, cl_outer_body, cl_env in E. use_loop E. destruct (layer2_res ref est); reflexivity.
Qed.


Lemma mapM_of_res {Y T} (f : Y -> out T) (g : Y -> res T) l : (forall y, In y l -> f y = of_res (g y)) -> mapM f l = of_res (rmapM g l).
Proof. induction l as [|y t IH]; intros H; [reflexivity|]. cbn [mapM]. rewrite rmapM_cons, (H y (or_introl eq_refl)), IH by (intros; apply H; right; assumption).
  destruct (g y); cbn; [|reflexivity]. destruct (rmapM g t); reflexivity. Qed.
Lemma cell2_res p q : p <> [] -> q <> [] -> cell2 p q = of_res (cell2r p q).
Proof. intros Hp Hq. unfold cell2, cell2r. destruct p; [contradiction|]. destruct q; [contradiction|]. cbn [Pattern.is_nil orb].
  destruct (layer1_res _ _); reflexivity. Qed.
Lemma layer2_out_res ref est : (forall p, In p ref -> p <> []) -> (forall q, In q est -> q <> []) -> layer2_out ref est = of_res (layer2_res ref est).
Proof. intros Hr He. unfold layer2_out, layer2_res. apply mapM_of_res. intros p Hp. apply mapM_of_res. intros q Hq. apply cell2_res; auto. Qed.
Hypothesis ext_cl2 : forall (ref est : list pattern), (forall p, In p ref -> p <> []) -> (forall q, In q est -> q <> []) ->
  ext "three_layer_FPR.compute_layer" [v_pats ref; v_pats est; VInt 2] = lift (VMat (length est)) (layer2_res ref est).
Lemma cell2r_spec p q : p <> [] -> q <> [] ->
  cell2r p q = if existsb Pattern.is_nil p || existsb Pattern.is_nil q then Raise ZeroDivisionError else Ok (layer2_F p q).
Proof. intros Hp Hq. unfold cell2r. rewrite (layer1_res_spec p q Hp Hq). destruct (existsb Pattern.is_nil p || existsb Pattern.is_nil q); reflexivity. Qed.
Lemma layer2_res_spec ref est : (forall p, In p ref -> p <> []) -> (forall q, In q est -> q <> []) -> ref <> [] -> est <> [] ->
  layer2_res ref est = if tl_raises ref est then Raise ZeroDivisionError else Ok (map (fun p => map (layer2_F p) est) ref).
Proof.
  intros Hr He Hr0 He0. unfold layer2_res, tl_raises. rewrite !existsb_concat.
  rewrite (rmapM_ext _ (fun p => if existsb (existsb Pattern.is_nil) est || existsb Pattern.is_nil p then Raise ZeroDivisionError else Ok (map (layer2_F p) est))).
  - rewrite rmapM_guard2. destruct ref; [contradiction|]. cbn [Pattern.is_nil negb andb]. rewrite orb_comm. reflexivity.
  - intros p Hp. rewrite (rmapM_ext _ (fun q => if existsb Pattern.is_nil p || existsb Pattern.is_nil q then Raise ZeroDivisionError else Ok (layer2_F p q)))
      by (intros q Hq; apply cell2r_spec; auto).
    rewrite rmapM_guard2. destruct est; [contradiction|]. cbn [Pattern.is_nil negb andb]. rewrite orb_comm. reflexivity.
Qed.

Theorem three_layer_FPR_tie_g : forall ref est,
  runx gen_three_layer_FPR [v_pats ref; v_pats est] = three_layer_pv ref est.
Proof.
  intros ref est. unfold run_fun, three_layer_pv, three_layer_FPR. cbn. unfold call. sigs. cbn. rewrite ext_validate.
  destruct (validate ref est) as [[]|e] eqn:Ev; cbn; [|reflexivity].
  unfold call. sigs. cbn. rewrite !ext_n_onset. cbn.
  rewrite !zq_nat. change (zq 0) with 0%Q. rewrite !qnat_eqb0. unfold no_notes.
  destruct (Nat.eqb (n_onset_midi ref) 0) eqn:Nr; cbn; [reflexivity|].
  destruct (Nat.eqb (n_onset_midi est) 0) eqn:Ne; cbn; [reflexivity|].
  destruct (validate_ok_nonempty ref est Ev) as [Hr He].
  pose proof (n_onset_nonempty _ Nr) as Hr0. pose proof (n_onset_nonempty _ Ne) as He0.
  unfold call. sigs. cbn. rewrite (ext_cl2 ref est Hr He), (layer2_res_spec ref est Hr He Hr0 He0).
  destruct (tl_raises ref est); cbn; [reflexivity|].
  rewrite (np_colmax layer2_F ref est Hr0). cbn. rewrite (np_mean_cols layer2_F ref est He0). cbn.
  rewrite (np_rowmax layer2_F ref est He0). cbn. rewrite (np_mean_rows layer2_F ref est Hr0). cbn.
  unfold call. sigs. cbn. rewrite ext_fm.
  destruct (maxes_nonneg layer2_F ref est layer2_F_01) as [Hp Hq].
  rewrite (fm_ext_np _ _ Hp Hq). unfold np_fpr, mk_fpr.
  destruct (qeqb (qmean (col_maxes layer2_F ref est)) 0 && qeqb (qmean (row_maxes layer2_F ref est)) 0); reflexivity.
Qed.


(* ---------- the first-n metrics ---------- *)
Lemma slice_first_n {A} (l : list A) n : slice_hi (Z.min (Z.of_nat (length l)) n) l = first_n n l.
Proof.
  unfold slice_hi, first_n. destruct (Z.ltb_spec n 0) as [H|H].
  - rewrite Z.min_r by lia. replace (n <? 0)%Z with true by (symmetry; apply Z.ltb_lt; lia). reflexivity.
  - destruct (Z.ltb_spec (Z.min (Z.of_nat (length l)) n) 0) as [H2|H2]; [lia|].
    destruct (Z.le_gt_cases n (Z.of_nat (length l))) as [H3|H3].
    + rewrite Z.min_r by lia. reflexivity.
    + rewrite Z.min_l by lia. rewrite Nat2Z.id, !firstn_all2 by lia. reflexivity.
Qed.
Lemma slice_hi_map {A B} (f : A -> B) hi l : slice_hi hi (map f l) = map f (slice_hi hi l).
Proof. unfold slice_hi. rewrite map_length. destruct (hi <? 0)%Z; apply firstn_map. Qed.
Lemma first_n_map {A B} (f : A -> B) n l : first_n n (map f l) = map f (first_n n l).
Proof. unfold first_n. rewrite map_length. destruct (n <? 0)%Z; apply firstn_map. Qed.
Lemma slice_pats n est : VList (slice_hi (Z.min (Z.of_nat (length (map v_pat est))) n) (map v_pat est)) = v_pats (first_n n est).
Proof. rewrite slice_first_n, first_n_map. reflexivity. Qed.
Hypothesis ext_three_layer : forall r e, ext "three_layer_FPR" [v_pats r; v_pats e] = three_layer_pv r e.
Hypothesis ext_establishment : forall r e m, seqb m cardinality_score = true -> ext "establishment_FPR" [v_pats r; v_pats e; VStr m] = establishment_pv r e.

Theorem first_n_three_layer_P_tie_g : forall ref est n,
  runx gen_first_n_three_layer_P [v_pats ref; v_pats est; VInt n] = first_n_P_pv ref est n.
Proof.
  intros ref est n. unfold run_fun, first_n_P_pv, first_n_three_layer_P. cbn. unfold call. sigs. cbn. rewrite ext_validate.
  destruct (validate ref est) as [[]|e] eqn:Ev; cbn; [|reflexivity].
  unfold call. sigs. cbn. rewrite !ext_n_onset. cbn.
  rewrite !zq_nat. change (zq 0) with 0%Q. rewrite !qnat_eqb0. fold (no_notes ref est).
  destruct (no_notes ref est) eqn:Nn; unfold no_notes in Nn.
  - destruct (Nat.eqb (n_onset_midi ref) 0); cbn; [reflexivity|]. cbn [orb] in Nn. rewrite Nn. reflexivity.
  - apply orb_false_iff in Nn. destruct Nn as [Nr Ne]. rewrite Nr, Ne. cbn.
    rewrite slice_pats, ext_three_layer. unfold three_layer_pv.
    destruct (no_notes ref (first_n n est)) eqn:N2.
    + unfold three_layer_FPR. rewrite N2. destruct (validate ref (first_n n est)) as [[]|e]; reflexivity.
    + destruct (three_layer_FPR ref (first_n n est)) as [[[f p] r]|e]; reflexivity.
Qed.
Theorem first_n_target_proportion_R_tie_g : forall ref est n,
  runx gen_first_n_target_proportion_R [v_pats ref; v_pats est; VInt n] = first_n_R_pv ref est n.
Proof.
  intros ref est n. unfold run_fun, first_n_R_pv, first_n_target_proportion_R. cbn. unfold call. sigs. cbn. rewrite ext_validate.
  destruct (validate ref est) as [[]|e] eqn:Ev; cbn; [|reflexivity].
  unfold call. sigs. cbn. rewrite !ext_n_onset. cbn.
  rewrite !zq_nat. change (zq 0) with 0%Q. rewrite !qnat_eqb0. fold (no_notes ref est).
  destruct (no_notes ref est) eqn:Nn; unfold no_notes in Nn.
  - destruct (Nat.eqb (n_onset_midi ref) 0); cbn; [reflexivity|]. cbn [orb] in Nn. rewrite Nn. reflexivity.
  - apply orb_false_iff in Nn. destruct Nn as [Nr Ne]. rewrite Nr, Ne. cbn.
    rewrite slice_pats. unfold call. sigs. cbn. rewrite ext_establishment by reflexivity. unfold establishment_pv.
    destruct (no_notes ref (first_n n est)) eqn:N2.
    + unfold establishment_FPR. rewrite N2. destruct (validate ref (first_n n est)) as [[]|e]; reflexivity.
    + destruct (establishment_FPR ref (first_n n est)) as [[[f p] r]|e]; reflexivity.
Qed.


(* ---------- the numeric view: (F, P, R) of the model, whatever the scalar types ---------- *)
Lemma view_np t : fpr_view (OK (np_fpr t)) = OK t.
Proof. destruct t as [[f p] r]. unfold np_fpr, fpr_view. cbn [obind]. destruct (qeqb p 0 && qeqb r 0); reflexivity. Qed.
Lemma view_py t : fpr_view (OK (py_fpr t)) = OK t.
Proof. destruct t as [[f p] r]. reflexivity. Qed.
Corollary standard_FPR_view_g : forall ref est tol,
  fpr_view (runx gen_standard_FPR [v_pats ref; v_pats est; VFloat tol]) = of_res (standard_FPR ref est tol).
Proof. intros. rewrite standard_FPR_tie_g. unfold standard_pv, standard_FPR.
  destruct (validate ref est) as [[]|e]; cbn [bind]; [|reflexivity]. destruct (no_notes ref est); [reflexivity|].
  destruct (count_matches tol ref est); cbn [bind]; reflexivity. Qed.
Corollary establishment_FPR_view_g : forall ref est m, seqb m cardinality_score = true ->
  fpr_view (runx gen_establishment_FPR [v_pats ref; v_pats est; VStr m]) = of_res (establishment_FPR ref est).
Proof. intros ref est m Hm. rewrite (establishment_FPR_tie_g ref est m Hm). unfold establishment_pv, establishment_FPR.
  destruct (validate ref est) as [[]|e]; cbn [bind]; [|reflexivity]. destruct (no_notes ref est); [reflexivity|].
  destruct (sm_raises ref est); [reflexivity|]. apply view_np. Qed.
Corollary occurrence_FPR_view_g : forall ref est thres m, seqb m cardinality_score = true ->
  fpr_view (runx gen_occurrence_FPR [v_pats ref; v_pats est; VFloat thres; VStr m]) = of_res (occurrence_FPR ref est thres).
Proof. intros ref est thres m Hm. rewrite (occurrence_FPR_tie_g ref est thres m Hm). unfold occurrence_pv, occurrence_FPR.
  destruct (validate ref est) as [[]|e]; cbn [bind]; [|reflexivity]. destruct (no_notes ref est); [reflexivity|].
  destruct (sm_raises ref est); [reflexivity|]. cbv zeta. destruct (Pattern.is_nil (rel_pairs thres ref est)); [vm_compute; reflexivity|]. apply view_np. Qed.
Corollary three_layer_FPR_view_g : forall ref est,
  fpr_view (runx gen_three_layer_FPR [v_pats ref; v_pats est]) = of_res (three_layer_FPR ref est).
Proof. intros ref est. rewrite three_layer_FPR_tie_g. unfold three_layer_pv, three_layer_FPR.
  destruct (validate ref est) as [[]|e]; cbn [bind]; [|reflexivity]. destruct (no_notes ref est); [reflexivity|].
  destruct (tl_raises ref est); [reflexivity|]. apply view_np. Qed.
Corollary first_n_three_layer_P_view_g : forall ref est n,
  num_view (runx gen_first_n_three_layer_P [v_pats ref; v_pats est; VInt n]) = of_res (first_n_three_layer_P ref est n).
Proof. intros. rewrite first_n_three_layer_P_tie_g. unfold first_n_P_pv. destruct (first_n_three_layer_P ref est n); [|reflexivity].
  destruct (no_notes ref est || no_notes ref (first_n n est)); reflexivity. Qed.
Corollary first_n_target_proportion_R_view_g : forall ref est n,
  num_view (runx gen_first_n_target_proportion_R [v_pats ref; v_pats est; VInt n]) = of_res (first_n_target_proportion_R ref est n).
Proof. intros. rewrite first_n_target_proportion_R_tie_g. unfold first_n_R_pv. destruct (first_n_target_proportion_R ref est n); [|reflexivity].
  destruct (no_notes ref est || no_notes ref (first_n n est)); reflexivity. Qed.
(* the default arguments reach the bodies through the signatures read from the source *)
Example cs_is_default : seqb cardinality_score cardinality_score = true. Proof. reflexivity. Qed.

(* ---------- the signatures read from the source ---------- *)
Theorem pat_sigs_expected :
  pat_sigs =
  [("_n_onset_midi", Some [("patterns", None)]);
   ("_occurrence_intersection", Some [("occ_P", None); ("occ_Q", None)]);
   ("_compute_score_matrix", Some [("P", None); ("Q", None); ("similarity_metric", Some (VStr cardinality_score))]);
   ("standard_FPR", Some [("reference_patterns", None); ("estimated_patterns", None); ("tol", Some (VFloat (5902958103587057 # 590295810358705651712)))]);
   ("establishment_FPR", Some [("reference_patterns", None); ("estimated_patterns", None); ("similarity_metric", Some (VStr cardinality_score))]);
   ("occurrence_FPR", Some [("reference_patterns", None); ("estimated_patterns", None); ("thres", Some (VFloat (3 # 4)));
                            ("similarity_metric", Some (VStr cardinality_score))]);
   ("three_layer_FPR.compute_first_layer_PR", Some [("ref_occs", None); ("est_occs", None)]);
   ("three_layer_FPR.compute_second_layer_PR", Some [("ref_pattern", None); ("est_pattern", None)]);
   ("three_layer_FPR.compute_layer", Some [("ref_elements", None); ("est_elements", None); ("layer", Some (VInt 1))]);
   ("three_layer_FPR", Some [("reference_patterns", None); ("estimated_patterns", None)]);
   ("first_n_three_layer_P", Some [("reference_patterns", None); ("estimated_patterns", None); ("n", Some (VInt 5))]);
   ("first_n_target_proportion_R", Some [("reference_patterns", None); ("estimated_patterns", None); ("n", Some (VInt 5))]);
   ("validate", Some [("reference_patterns", None); ("estimated_patterns", None)]);
   ("util.f_measure", Some [("precision", None); ("recall", None); ("beta", Some (VFloat 1))])]%string.
Proof. vm_compute. reflexivity. Qed.
(* every function whose result is written to in place by a caller (none here: the callers only read the matrices they are
   handed) returns a fresh object on every path, by the translator's analysis *)
Theorem fresh_callees : existsb (String.eqb "_compute_score_matrix") pattern_returns_fresh = true.
Proof. vm_compute. reflexivity. Qed.
(* what is proved about the model holds of the translated code: e.g. the range of the establishment scores (C01) *)
Corollary establishment_FPR_range_of_code_g : forall ref est m f p r, seqb m cardinality_score = true ->
  fpr_view (runx gen_establishment_FPR [v_pats ref; v_pats est; VStr m]) = OK (f, p, r) ->
  (0 <= f <= 1 /\ 0 <= p <= 1 /\ 0 <= r <= 1)%Q.
Proof. intros ref est m f p r Hm H. rewrite (establishment_FPR_view_g ref est m Hm) in H.
  destruct (establishment_FPR ref est) as [t|e] eqn:E; [|discriminate H]. injection H as ->. exact (establishment_range ref est f p r E). Qed.

End Ties.

(* ---------- first instance: the callees are the functions of the model ---------- *)
Lemma pe_inter a b : exists s, pat_ext "_occurrence_intersection" [v_occ a; v_occ b] = OK (VSet s) /\ length s = inter_count a b.
Proof. exists (map v_note (inter_set a b)). unfold pat_ext. cbn. rewrite !d_occ_v, map_length. split; reflexivity. Qed.
Lemma pe_validate r e : pat_ext "validate" [v_pats r; v_pats e] = lift (fun _ => VNone) (validate r e).
Proof. unfold pat_ext. cbn. rewrite !d_pats_v. reflexivity. Qed.
Lemma pe_n_onset ps : pat_ext "_n_onset_midi" [v_pats ps] = OK (VInt (Z.of_nat (n_onset_midi ps))).
Proof. unfold pat_ext. cbn. rewrite d_pats_v. reflexivity. Qed.
Lemma pe_csm p q m : seqb m cardinality_score = true ->
  pat_ext "_compute_score_matrix" [v_pat p; v_pat q; VStr m] = lift (VMat (length q)) (score_matrix_res p q).
Proof. intros Hm. unfold pat_ext. cbn. rewrite Hm, !d_pat_v. reflexivity. Qed.
Lemma pe_fm p r b : pat_ext "util.f_measure" [p; r; b] = fm_ext p r b.
Proof. reflexivity. Qed.
Lemma pe_first a b : pat_ext "three_layer_FPR.compute_first_layer_PR" [v_occ a; v_occ b]
  = lift (fun pr => VTup [VFloat (fst pr); VFloat (snd pr)]) (layer1_PR a b).
Proof. unfold pat_ext. cbn. rewrite !d_occ_v. reflexivity. Qed.
Lemma pe_second a b : a <> [] -> b <> [] -> pat_ext "three_layer_FPR.compute_second_layer_PR" [v_pat a; v_pat b] = layer2_pv a b.
Proof. intros _ _. unfold pat_ext. cbn. rewrite !d_pat_v. reflexivity. Qed.
Lemma pe_cl1 p q : pat_ext "three_layer_FPR.compute_layer" [v_pat p; v_pat q; VInt 1] = lift (VMat (length q)) (layer1_res p q).
Proof. unfold pat_ext. cbn. rewrite !d_pat_v. reflexivity. Qed.
Lemma pe_cl2 (ref est : list pattern) : (forall p, In p ref -> p <> []) -> (forall q, In q est -> q <> []) ->
  pat_ext "three_layer_FPR.compute_layer" [v_pats ref; v_pats est; VInt 2] = lift (VMat (length est)) (layer2_res ref est).
Proof. intros Hr He. unfold pat_ext. cbn. rewrite !d_pats_v, (layer2_out_res ref est Hr He). destruct (layer2_res ref est); reflexivity. Qed.
Lemma pe_three_layer r e : pat_ext "three_layer_FPR" [v_pats r; v_pats e] = three_layer_pv r e.
Proof. unfold pat_ext. cbn. rewrite !d_pats_v. reflexivity. Qed.
Lemma pe_establishment r e m : seqb m cardinality_score = true -> pat_ext "establishment_FPR" [v_pats r; v_pats e; VStr m] = establishment_pv r e.
Proof. intros Hm. unfold pat_ext. cbn. rewrite Hm, !d_pats_v. reflexivity. Qed.
Theorem n_onset_midi_tie : forall ps, run gen__n_onset_midi [v_pats ps] = OK (VInt (Z.of_nat (n_onset_midi ps))).
Proof. intros. eapply (n_onset_midi_tie_g pat_ext); eauto using pe_inter, pe_validate, pe_n_onset, pe_csm, pe_fm, pe_first, pe_second, pe_cl1, pe_cl2, pe_three_layer, pe_establishment. Qed.
Theorem occurrence_intersection_tie : forall P Qo, exists s,
  run gen__occurrence_intersection [v_occ P; v_occ Qo] = OK (VSet (map v_note s)) /\ map canon s = inter_set P Qo.
Proof. intros. eapply (occurrence_intersection_tie_g pat_ext); eauto using pe_inter, pe_validate, pe_n_onset, pe_csm, pe_fm, pe_first, pe_second, pe_cl1, pe_cl2, pe_three_layer, pe_establishment. Qed.
Theorem occurrence_intersection_len : forall P Qo, exists s,
  run gen__occurrence_intersection [v_occ P; v_occ Qo] = OK (VSet s) /\ Datatypes.length s = inter_count P Qo.
Proof. intros. eapply (occurrence_intersection_len_g pat_ext); eauto using pe_inter, pe_validate, pe_n_onset, pe_csm, pe_fm, pe_first, pe_second, pe_cl1, pe_cl2, pe_three_layer, pe_establishment. Qed.
Theorem compute_score_matrix_tie : forall p q m, seqb m cardinality_score = true ->
  run gen__compute_score_matrix [v_pat p; v_pat q; VStr m] = lift (VMat (length q)) (score_matrix_res p q).
Proof. intros. eapply (compute_score_matrix_tie_g pat_ext); eauto using pe_inter, pe_validate, pe_n_onset, pe_csm, pe_fm, pe_first, pe_second, pe_cl1, pe_cl2, pe_three_layer, pe_establishment. Qed.
Theorem compute_score_matrix_other_metric : forall oP p oQ q m, seqb m cardinality_score = false ->
  run gen__compute_score_matrix [v_pat (oP :: p); v_pat (oQ :: q); VStr m] = EXN ValueError.
Proof. intros. eapply (compute_score_matrix_other_metric_g pat_ext); eauto using pe_inter, pe_validate, pe_n_onset, pe_csm, pe_fm, pe_first, pe_second, pe_cl1, pe_cl2, pe_three_layer, pe_establishment. Qed.
Theorem establishment_FPR_tie : forall ref est m, seqb m cardinality_score = true ->
  run gen_establishment_FPR [v_pats ref; v_pats est; VStr m] = establishment_pv ref est.
Proof. intros. eapply (establishment_FPR_tie_g pat_ext); eauto using pe_inter, pe_validate, pe_n_onset, pe_csm, pe_fm, pe_first, pe_second, pe_cl1, pe_cl2, pe_three_layer, pe_establishment. Qed.
Theorem occurrence_FPR_tie : forall ref est thres m, seqb m cardinality_score = true ->
  run gen_occurrence_FPR [v_pats ref; v_pats est; VFloat thres; VStr m] = occurrence_pv ref est thres.
Proof. intros. eapply (occurrence_FPR_tie_g pat_ext); eauto using pe_inter, pe_validate, pe_n_onset, pe_csm, pe_fm, pe_first, pe_second, pe_cl1, pe_cl2, pe_three_layer, pe_establishment. Qed.
Theorem standard_FPR_tie : forall ref est tol,
  run gen_standard_FPR [v_pats ref; v_pats est; VFloat tol] = standard_pv ref est tol.
Proof. intros. eapply (standard_FPR_tie_g pat_ext); eauto using pe_inter, pe_validate, pe_n_onset, pe_csm, pe_fm, pe_first, pe_second, pe_cl1, pe_cl2, pe_three_layer, pe_establishment. Qed.
Theorem first_layer_PR_tie : forall a b,
  run gen_three_layer_FPR__compute_first_layer_PR [v_occ a; v_occ b]
  = lift (fun pr => VTup [VFloat (fst pr); VFloat (snd pr)]) (layer1_PR a b).
Proof. intros. eapply (first_layer_PR_tie_g pat_ext); eauto using pe_inter, pe_validate, pe_n_onset, pe_csm, pe_fm, pe_first, pe_second, pe_cl1, pe_cl2, pe_three_layer, pe_establishment. Qed.
Theorem compute_layer_1_tie : forall p q,
  run gen_three_layer_FPR__compute_layer [v_pat p; v_pat q; VInt 1] = lift (VMat (length q)) (layer1_res p q).
Proof. intros. eapply (compute_layer_1_tie_g pat_ext); eauto using pe_inter, pe_validate, pe_n_onset, pe_csm, pe_fm, pe_first, pe_second, pe_cl1, pe_cl2, pe_three_layer, pe_establishment. Qed.
Theorem second_layer_PR_tie : forall p q, p <> [] -> q <> [] ->
  run gen_three_layer_FPR__compute_second_layer_PR [v_pat p; v_pat q] = layer2_pv p q.
Proof. intros. eapply (second_layer_PR_tie_g pat_ext); eauto using pe_inter, pe_validate, pe_n_onset, pe_csm, pe_fm, pe_first, pe_second, pe_cl1, pe_cl2, pe_three_layer, pe_establishment. Qed.
Theorem compute_layer_2_tie : forall ref est, (forall p, In p ref -> p <> []) -> (forall q, In q est -> q <> []) ->
  run gen_three_layer_FPR__compute_layer [v_pats ref; v_pats est; VInt 2] = lift (VMat (length est)) (layer2_res ref est).
Proof. intros. eapply (compute_layer_2_tie_g pat_ext); eauto using pe_inter, pe_validate, pe_n_onset, pe_csm, pe_fm, pe_first, pe_second, pe_cl1, pe_cl2, pe_three_layer, pe_establishment. Qed.
Theorem three_layer_FPR_tie : forall ref est,
  run gen_three_layer_FPR [v_pats ref; v_pats est] = three_layer_pv ref est.
Proof. intros. eapply (three_layer_FPR_tie_g pat_ext); eauto using pe_inter, pe_validate, pe_n_onset, pe_csm, pe_fm, pe_first, pe_second, pe_cl1, pe_cl2, pe_three_layer, pe_establishment. Qed.
Theorem first_n_three_layer_P_tie : forall ref est n,
  run gen_first_n_three_layer_P [v_pats ref; v_pats est; VInt n] = first_n_P_pv ref est n.
Proof. intros. eapply (first_n_three_layer_P_tie_g pat_ext); eauto using pe_inter, pe_validate, pe_n_onset, pe_csm, pe_fm, pe_first, pe_second, pe_cl1, pe_cl2, pe_three_layer, pe_establishment. Qed.
Theorem first_n_target_proportion_R_tie : forall ref est n,
  run gen_first_n_target_proportion_R [v_pats ref; v_pats est; VInt n] = first_n_R_pv ref est n.
Proof. intros. eapply (first_n_target_proportion_R_tie_g pat_ext); eauto using pe_inter, pe_validate, pe_n_onset, pe_csm, pe_fm, pe_first, pe_second, pe_cl1, pe_cl2, pe_three_layer, pe_establishment. Qed.
Theorem standard_FPR_view : forall ref est tol,
  fpr_view (run gen_standard_FPR [v_pats ref; v_pats est; VFloat tol]) = of_res (standard_FPR ref est tol).
Proof. intros. eapply (standard_FPR_view_g pat_ext); eauto using pe_inter, pe_validate, pe_n_onset, pe_csm, pe_fm, pe_first, pe_second, pe_cl1, pe_cl2, pe_three_layer, pe_establishment. Qed.
Theorem establishment_FPR_view : forall ref est m, seqb m cardinality_score = true ->
  fpr_view (run gen_establishment_FPR [v_pats ref; v_pats est; VStr m]) = of_res (establishment_FPR ref est).
Proof. intros. eapply (establishment_FPR_view_g pat_ext); eauto using pe_inter, pe_validate, pe_n_onset, pe_csm, pe_fm, pe_first, pe_second, pe_cl1, pe_cl2, pe_three_layer, pe_establishment. Qed.
Theorem occurrence_FPR_view : forall ref est thres m, seqb m cardinality_score = true ->
  fpr_view (run gen_occurrence_FPR [v_pats ref; v_pats est; VFloat thres; VStr m]) = of_res (occurrence_FPR ref est thres).
Proof. intros. eapply (occurrence_FPR_view_g pat_ext); eauto using pe_inter, pe_validate, pe_n_onset, pe_csm, pe_fm, pe_first, pe_second, pe_cl1, pe_cl2, pe_three_layer, pe_establishment. Qed.
Theorem three_layer_FPR_view : forall ref est,
  fpr_view (run gen_three_layer_FPR [v_pats ref; v_pats est]) = of_res (three_layer_FPR ref est).
Proof. intros. eapply (three_layer_FPR_view_g pat_ext); eauto using pe_inter, pe_validate, pe_n_onset, pe_csm, pe_fm, pe_first, pe_second, pe_cl1, pe_cl2, pe_three_layer, pe_establishment. Qed.
Theorem first_n_three_layer_P_view : forall ref est n,
  num_view (run gen_first_n_three_layer_P [v_pats ref; v_pats est; VInt n]) = of_res (first_n_three_layer_P ref est n).
Proof. intros. eapply (first_n_three_layer_P_view_g pat_ext); eauto using pe_inter, pe_validate, pe_n_onset, pe_csm, pe_fm, pe_first, pe_second, pe_cl1, pe_cl2, pe_three_layer, pe_establishment. Qed.
Theorem first_n_target_proportion_R_view : forall ref est n,
  num_view (run gen_first_n_target_proportion_R [v_pats ref; v_pats est; VInt n]) = of_res (first_n_target_proportion_R ref est n).
Proof. intros. eapply (first_n_target_proportion_R_view_g pat_ext); eauto using pe_inter, pe_validate, pe_n_onset, pe_csm, pe_fm, pe_first, pe_second, pe_cl1, pe_cl2, pe_three_layer, pe_establishment. Qed.
Theorem establishment_FPR_range_of_code : forall ref est m f p r, seqb m cardinality_score = true ->
  fpr_view (run gen_establishment_FPR [v_pats ref; v_pats est; VStr m]) = OK (f, p, r) ->
  (0 <= f <= 1 /\ 0 <= p <= 1 /\ 0 <= r <= 1)%Q.
Proof. intros. eapply (establishment_FPR_range_of_code_g pat_ext); eauto using pe_inter, pe_validate, pe_n_onset, pe_csm, pe_fm, pe_first, pe_second, pe_cl1, pe_cl2, pe_three_layer, pe_establishment. Qed.
Print Assumptions n_onset_midi_tie.
Print Assumptions occurrence_intersection_tie.
Print Assumptions occurrence_intersection_len.
Print Assumptions compute_score_matrix_tie.
Print Assumptions compute_score_matrix_other_metric.
Print Assumptions establishment_FPR_tie.
Print Assumptions occurrence_FPR_tie.
Print Assumptions standard_FPR_tie.
Print Assumptions first_layer_PR_tie.
Print Assumptions compute_layer_1_tie.
Print Assumptions second_layer_PR_tie.
Print Assumptions compute_layer_2_tie.
Print Assumptions three_layer_FPR_tie.
Print Assumptions first_n_three_layer_P_tie.
Print Assumptions first_n_target_proportion_R_tie.
Print Assumptions standard_FPR_view.
Print Assumptions establishment_FPR_view.
Print Assumptions occurrence_FPR_view.
Print Assumptions three_layer_FPR_view.
Print Assumptions first_n_three_layer_P_view.
Print Assumptions first_n_target_proportion_R_view.
Print Assumptions establishment_FPR_range_of_code.

(* ---------- the generated programs, run on one concrete annotation (the values real mir_eval returns on it) ---------- *)
Definition ex_ref : list pattern := [[[(0, 60); (1, 62); (2, 64)]; [(10, 60); (11, 62); (12, 64)]]; [[(0, 60); (1, 61)]]]%Q.
Definition ex_est : list pattern := [[[(0, 60); (1, 62); (2, 65)]; [(10, 60); (11, 62)]]; [[(5, 60); (6, 61)]; [(0, 60); (1, 61); (1, 61)]]]%Q.
Definition qfpr (o : out fpr) : out fpr := v <~ o ;; let '(f, p, r) := v in OK (Qred f, Qred p, Qred r).
Definition tol0 : Q := 5902958103587057 # 590295810358705651712.
Example ex_standard : qfpr (fpr_view (run gen_standard_FPR [v_pats ex_ref; v_pats ex_est; VFloat tol0])) = OK (1 # 2, 1 # 2, 1 # 2)%Q.
Proof. vm_compute. reflexivity. Qed.
Example ex_establishment : qfpr (fpr_view (run gen_establishment_FPR [v_pats ex_ref; v_pats ex_est; VStr cardinality_score])) = OK (2 # 3, 2 # 3, 2 # 3)%Q.
Proof. vm_compute. reflexivity. Qed.
Example ex_occurrence : qfpr (fpr_view (run gen_occurrence_FPR [v_pats ex_ref; v_pats ex_est; VFloat (1 # 2); VStr cardinality_score])) = OK (4 # 7, 1 # 2, 2 # 3)%Q.
Proof. vm_compute. reflexivity. Qed.
Example ex_occurrence_none : run gen_occurrence_FPR [v_pats ex_ref; v_pats ex_est; VFloat 2; VStr cardinality_score] = OK (VTup [VFloat 0; VInt 0; VInt 0]).
Proof. vm_compute. reflexivity. Qed.
Example ex_three_layer : qfpr (fpr_view (run gen_three_layer_FPR [v_pats ex_ref; v_pats ex_est])) = OK (19 # 30, 19 # 30, 19 # 30)%Q.
Proof. vm_compute. reflexivity. Qed.
Definition qnum (o : out Q) : out Q := v <~ o ;; OK (Qred v).
Example ex_first_n_P : qnum (num_view (run gen_first_n_three_layer_P [v_pats ex_ref; v_pats ex_est; VInt 1])) = OK (11 # 15)%Q.
Proof. vm_compute. reflexivity. Qed.
Example ex_first_n_R : qnum (num_view (run gen_first_n_target_proportion_R [v_pats ex_ref; v_pats ex_est; VInt 1])) = OK (1 # 2)%Q.
Proof. vm_compute. reflexivity. Qed.
Example ex_first_n_0 : run gen_first_n_three_layer_P [v_pats ex_ref; v_pats ex_est; VInt 0] = OK (VFloat 0).
Proof. vm_compute. reflexivity. Qed.
Example ex_score_matrix : run gen__compute_score_matrix [v_pat (nth 0 ex_ref []); v_pat (nth 1 ex_est []); VStr cardinality_score]
  = OK (VMat 2 [[0 # 3; 1 # 3]; [0 # 3; 0 # 3]]%Q).
Proof. vm_compute. reflexivity. Qed.
(* a float division by float(np.max([0, 0])) raises; empty prototypes: ValueError from np.max of an empty array *)
Example ex_zero_div : run gen__compute_score_matrix [v_pat [[]]; v_pat [[]]; VStr cardinality_score] = EXN ZeroDivisionError.
Proof. vm_compute. reflexivity. Qed.
Example ex_empty_protos : run gen_standard_FPR [v_pats [[[]]; [[(0, 1)]]]%Q; v_pats [[[]]; [[(0, 1)]]]%Q; VFloat tol0] = EXN ValueError.
Proof. vm_compute. reflexivity. Qed.
Example ex_three_layer_zero_div : run gen_three_layer_FPR [v_pats [[[]; [(0, 1)]]]%Q; v_pats [[[(0, 1)]]]%Q] = EXN ZeroDivisionError.
Proof. vm_compute. reflexivity. Qed.
(* sets compare numbers by value: the int / float spellings of a note are one element *)
Example ex_set_by_value :
  run gen__occurrence_intersection [VList [VTup [VInt 0; VInt 60]; VTup [VFloat 1; VInt 61]; VTup [VInt 1; VFloat 61]];
                                    VList [VTup [VInt 1; VInt 61]; VTup [VFloat 0; VFloat 60]; VTup [VInt 7; VInt 7]]]
  = OK (VSet [VTup [VInt 0; VInt 60]; VTup [VInt 1; VFloat 61]]).
Proof. vm_compute. reflexivity. Qed.
(* uninitialised memory is not a value: np.empty gives one only when the array has no element *)
Example ex_np_empty : builtin "np.empty" [VTup [VInt 2; VInt 2; VInt 2]] [] = UNM /\ builtin "np.empty" [VTup [VInt 0; VInt 2]] [("dtype", VTy "int")]%string = OK (VIMat 2 []).
Proof. split; reflexivity. Qed.


(* ---------- second instance: the callees are the generated programs themselves ----------
   [prog_ext n] runs the translated body of the function called, its own calls being answered by [prog_ext (n - 1)]
   ([n]: a bound on the depth of calls, 6 is enough for the whole module); only pattern.validate and util.f_measure, which are
   tied to the model elsewhere, keep the model's meaning. *)
Fixpoint assoc_fun (f : string) (l : list (string * fdef)) : option fdef :=
  match l with [] => None | (g, d) :: t => if String.eqb f g then Some d else assoc_fun f t end.
Fixpoint prog_ext (n : nat) (f : string) (vs : list pv) : out pv :=
  match n with
  | O => UNM
  | S k => if String.eqb f "validate" || String.eqb f "util.f_measure" then pat_ext f vs
           else match assoc_fun f pattern_funs with
                | Some fd => run_fun pat_sigs (prog_ext k) fd vs
                | None => UNM end
  end.
Lemma px_validate k r e : prog_ext (S k) "validate" [v_pats r; v_pats e] = lift (fun _ => VNone) (validate r e).
Proof. exact (pe_validate r e). Qed.
Lemma px_fm k p r b : prog_ext (S k) "util.f_measure" [p; r; b] = fm_ext p r b.
Proof. reflexivity. Qed.
Lemma px_n_onset k ps : prog_ext (S k) "_n_onset_midi" [v_pats ps] = OK (VInt (Z.of_nat (n_onset_midi ps))).
Proof. exact (n_onset_midi_tie_g (prog_ext k) ps). Qed.
Lemma px_inter k a b : exists s, prog_ext (S k) "_occurrence_intersection" [v_occ a; v_occ b] = OK (VSet s) /\ length s = inter_count a b.
Proof. destruct (occurrence_intersection_tie_g (prog_ext k) a b) as (s & E & H). exists (map v_note s). split; [exact E|].
  unfold inter_count. rewrite <- H, !map_length. reflexivity. Qed.
Lemma px_csm k p q m : seqb m cardinality_score = true ->
  prog_ext (S (S k)) "_compute_score_matrix" [v_pat p; v_pat q; VStr m] = lift (VMat (length q)) (score_matrix_res p q).
Proof. exact (compute_score_matrix_tie_g (prog_ext (S k)) (px_inter k) p q m). Qed.
Lemma px_first k a b : prog_ext (S (S k)) "three_layer_FPR.compute_first_layer_PR" [v_occ a; v_occ b]
  = lift (fun pr => VTup [VFloat (fst pr); VFloat (snd pr)]) (layer1_PR a b).
Proof. exact (first_layer_PR_tie_g (prog_ext (S k)) (px_inter k) a b). Qed.
Lemma px_cl1 k p q : prog_ext (S (S (S k))) "three_layer_FPR.compute_layer" [v_pat p; v_pat q; VInt 1] = lift (VMat (length q)) (layer1_res p q).
Proof. exact (compute_layer_1_tie_g (prog_ext (S (S k))) (px_fm (S k)) (px_first k) p q). Qed.
Lemma px_second k (p q : pattern) : p <> [] -> q <> [] ->
  prog_ext (S (S (S (S k)))) "three_layer_FPR.compute_second_layer_PR" [v_pat p; v_pat q] = layer2_pv p q.
Proof. exact (second_layer_PR_tie_g (prog_ext (S (S (S k)))) (px_cl1 k) p q). Qed.
Lemma px_cl2 k (ref est : list pattern) : (forall p, In p ref -> p <> []) -> (forall q, In q est -> q <> []) ->
  prog_ext (5 + k) "three_layer_FPR.compute_layer" [v_pats ref; v_pats est; VInt 2] = lift (VMat (length est)) (layer2_res ref est).
Proof. exact (compute_layer_2_tie_g (prog_ext (4 + k)) (px_fm (3 + k)) (px_second k) ref est). Qed.
Lemma px_three_layer k r e : prog_ext (6 + k) "three_layer_FPR" [v_pats r; v_pats e] = three_layer_pv r e.
Proof. exact (three_layer_FPR_tie_g (prog_ext (5 + k)) (px_validate (4 + k)) (px_n_onset (4 + k)) (px_fm (4 + k)) (px_cl2 k) r e). Qed.
Lemma px_establishment k r e m : seqb m cardinality_score = true ->
  prog_ext (3 + k) "establishment_FPR" [v_pats r; v_pats e; VStr m] = establishment_pv r e.
Proof. exact (establishment_FPR_tie_g (prog_ext (2 + k)) (px_validate (1 + k)) (px_n_onset (1 + k)) (px_csm k) (px_fm (1 + k)) r e m). Qed.

(* the ties once more, now with nothing but validate and f_measure taken from the model *)
Theorem compute_score_matrix_closed : forall k p q m, seqb m cardinality_score = true ->
  run_fun pat_sigs (prog_ext (1 + k)) gen__compute_score_matrix [v_pat p; v_pat q; VStr m] = lift (VMat (length q)) (score_matrix_res p q).
Proof. intros k. exact (compute_score_matrix_tie_g (prog_ext (S k)) (px_inter k)). Qed.
Theorem standard_FPR_closed : forall k ref est tol,
  run_fun pat_sigs (prog_ext (1 + k)) gen_standard_FPR [v_pats ref; v_pats est; VFloat tol] = standard_pv ref est tol.
Proof. intros k. exact (standard_FPR_tie_g (prog_ext (S k)) (px_validate k) (px_n_onset k) (px_fm k)). Qed.
Theorem establishment_FPR_closed : forall k ref est m, seqb m cardinality_score = true ->
  run_fun pat_sigs (prog_ext (2 + k)) gen_establishment_FPR [v_pats ref; v_pats est; VStr m] = establishment_pv ref est.
Proof. intros k. exact (establishment_FPR_tie_g (prog_ext (2 + k)) (px_validate (1 + k)) (px_n_onset (1 + k)) (px_csm k) (px_fm (1 + k))). Qed.
Theorem occurrence_FPR_closed : forall k ref est thres m, seqb m cardinality_score = true ->
  run_fun pat_sigs (prog_ext (2 + k)) gen_occurrence_FPR [v_pats ref; v_pats est; VFloat thres; VStr m] = occurrence_pv ref est thres.
Proof. intros k. exact (occurrence_FPR_tie_g (prog_ext (2 + k)) (px_validate (1 + k)) (px_n_onset (1 + k)) (px_csm k) (px_fm (1 + k))). Qed.
Theorem three_layer_FPR_closed : forall k ref est,
  run_fun pat_sigs (prog_ext (5 + k)) gen_three_layer_FPR [v_pats ref; v_pats est] = three_layer_pv ref est.
Proof. intros k. exact (three_layer_FPR_tie_g (prog_ext (5 + k)) (px_validate (4 + k)) (px_n_onset (4 + k)) (px_fm (4 + k)) (px_cl2 k)). Qed.
Theorem first_n_three_layer_P_closed : forall k ref est n,
  run_fun pat_sigs (prog_ext (6 + k)) gen_first_n_three_layer_P [v_pats ref; v_pats est; VInt n] = first_n_P_pv ref est n.
Proof. intros k. exact (first_n_three_layer_P_tie_g (prog_ext (6 + k)) (px_validate (5 + k)) (px_n_onset (5 + k)) (px_three_layer k)). Qed.
Theorem first_n_target_proportion_R_closed : forall k ref est n,
  run_fun pat_sigs (prog_ext (3 + k)) gen_first_n_target_proportion_R [v_pats ref; v_pats est; VInt n] = first_n_R_pv ref est n.
Proof. intros k. exact (first_n_target_proportion_R_tie_g (prog_ext (3 + k)) (px_validate (2 + k)) (px_n_onset (2 + k)) (fun r e m H => px_establishment k r e m H)). Qed.
(* the whole module with one bound *)
Theorem pattern_module_closed : forall n, 6 <= n -> forall ref est thres tol k m, seqb m cardinality_score = true ->
  let P := run_fun pat_sigs (prog_ext n) in
  P gen_standard_FPR [v_pats ref; v_pats est; VFloat tol] = standard_pv ref est tol /\
  P gen_establishment_FPR [v_pats ref; v_pats est; VStr m] = establishment_pv ref est /\
  P gen_occurrence_FPR [v_pats ref; v_pats est; VFloat thres; VStr m] = occurrence_pv ref est thres /\
  P gen_three_layer_FPR [v_pats ref; v_pats est] = three_layer_pv ref est /\
  P gen_first_n_three_layer_P [v_pats ref; v_pats est; VInt k] = first_n_P_pv ref est k /\
  P gen_first_n_target_proportion_R [v_pats ref; v_pats est; VInt k] = first_n_R_pv ref est k.
Proof.
  intros n Hn ref est thres tol k m Hm. cbv zeta.
  replace n with (1 + (n - 1)) at 1 by lia. replace n with (2 + (n - 2)) at 2 3 by lia.
  replace n with (5 + (n - 5)) at 4 by lia. replace n with (6 + (n - 6)) at 5 by lia. replace n with (3 + (n - 3)) at 6 by lia.
  repeat split; [apply standard_FPR_closed|apply establishment_FPR_closed; exact Hm|apply occurrence_FPR_closed; exact Hm|
                 apply three_layer_FPR_closed|apply first_n_three_layer_P_closed|apply first_n_target_proportion_R_closed].
Qed.
Example prog_ext_runs : fpr_view (run_fun pat_sigs (prog_ext 6) gen_three_layer_FPR [v_pats ex_ref; v_pats ex_est])
  = fpr_view (run gen_three_layer_FPR [v_pats ex_ref; v_pats ex_est]).
Proof. vm_compute. reflexivity. Qed.
Print Assumptions pattern_module_closed.
