(* Soundness of the symbolic normal form of the evaluate() bodies (Model/EvalLang.v, C03):
   a concrete interpreter of the statement language that mutates the caller's keyword dict exactly as Python does
   and calls util.filter_kwargs concretely, the denotation of the normal form, and the theorem connecting them. *)
From Coq Require Import List String Bool ZArith Arith Lia.
From ME Require Import Model.EvalLang Gen.Evaluate.
Import ListNotations.
Open Scope string_scope.

(* ------------------------------------------------------------------------------------------------------------ *)
(* generic helpers *)
Fixpoint oall {A} (l : list (option A)) : option (list A) :=
  match l with [] => Some [] | Some a :: t => option_map (cons a) (oall t) | None :: _ => None end.
Fixpoint gupd {A} (k : string) (v : A) (l : list (string * A)) : list (string * A) :=
  match l with [] => [(k, v)] | (k', v') :: t => if String.eqb k k' then (k, v) :: t else (k', v') :: gupd k v t end.
Definition params (Sg : sigs) (f : string) : list string := match assoc f Sg with Some (ps, _) => ps | None => [] end.
(* ---- the syntactic side condition on programs (decidable, checked by computation on the translated programs) ---- *)
(* `return` only at the top level: exec treats an SReturn inside an if-body as the end of the BODY, Python returns *)
Fixpoint stmt_noret (c : stmt) : bool :=
  match c with SReturn => false | SIfKwNotNone _ b | SIfOpaque _ b => forallb stmt_noret b | _ => true end.
Definition inner_noret (c : stmt) : bool :=
  match c with SIfKwNotNone _ b | SIfOpaque _ b => forallb stmt_noret b | _ => true end.
Definition returns_ok (p : list stmt) : bool := forallb inner_noret p.

(* ---- which caller keywords a normal form can depend on ---- *)
Section Keys.
Variable Sg : sigs.
Definition kws_keys (v : kws) : list string := match v with KBase q | KDefault q _ => [q] | KConst _ => [] end.
Fixpoint sval_keys (v : sval) : list string :=
  match v with
  | VProj _ _ v => sval_keys v
  | VCall f args kw mode => flat_map sval_keys args ++ flat_map (fun p => kwv_keys (snd p)) kw
                            ++ match mode with
                               | PDeclared => filter (fun k => negb (memk k (map fst kw))) (params Sg f)
                               | _ => []
                               end
  | VMethod _ o args => sval_keys o ++ flat_map sval_keys args
  | VAttr _ o => sval_keys o
  | _ => []
  end
with kwv_keys (kv : kwv) : list string := match kv with KwState s => kws_keys s | KwExpr v => sval_keys v end.
(* does it contain a call that forwards EVERY caller keyword (callee with **kwargs)? *)
Fixpoint sval_all (v : sval) : bool :=
  match v with
  | VProj _ _ v => sval_all v
  | VCall f args kw mode => match mode with PAll => true | _ => false end || existsb sval_all args || existsb (fun p => kwv_all (snd p)) kw
  | VMethod _ o args => sval_all o || existsb sval_all args
  | VAttr _ o => sval_all o
  | _ => false
  end
with kwv_all (kv : kwv) : bool := match kv with KwState _ => false | KwExpr v => sval_all v end.
Definition path_keys (path : list (kws * bool) * list (string * sval)) : list string :=
  flat_map (fun a => kws_keys (fst a)) (fst path) ++ flat_map (fun e => sval_keys (snd e)) (snd path).
Definition path_all (path : list (kws * bool) * list (string * sval)) : bool := existsb (fun e => sval_all (snd e)) (snd path).
Definition declared : list string := flat_map (fun e => fst (snd e)) Sg.
End Keys.

(* ------------------------------------------------------------------------------------------------------------ *)
Section Sem.
Variable value : Type.
Variable vconst : const -> value.
Variable is_none : value -> bool.
Hypothesis is_none_const : forall c, is_none (vconst c) = match c with CNone => true | _ => false end.
Variable proj : nat -> nat -> value -> value.                       (* i-th component of an n-tuple *)
Definition kwmap := string -> option value.
Variable den : string -> list value -> kwmap -> value.              (* the callee functions, whatever they compute *)
Hypothesis den_ext : forall f a m1 m2, (forall k, m1 k = m2 k) -> den f a m1 = den f a m2.
Variables input global : string -> value.
Variable method : string -> value -> list value -> value.
Variable attr : string -> value -> value.
Variable cond_holds : string -> bool.                               (* oracle for the opaque conditions *)
Variable Sg : sigs.

(* ---- 1. the concrete interpreter ---- *)
Record cstate := { ckw : kwmap;                                     (* the dict kwargs of evaluate() *)
                   cloc : list (string * value);
                   csaved : list (string * value);
                   cscores : list (string * value) }.               (* the OrderedDict scores *)
Definition cset (m : kwmap) (k : string) (v : value) : kwmap := fun k' => if String.eqb k' k then Some v else m k'.
Definition with_kw (c : cstate) (m : kwmap) : cstate :=
  {| ckw := m; cloc := cloc c; csaved := csaved c; cscores := cscores c |}.
(* util.filter_kwargs: None = unknown callee *)
Definition restrict (f : string) (m : kwmap) : option kwmap :=
  match assoc f Sg with
  | None => None
  | Some (ps, true) => Some m
  | Some (ps, false) => Some (fun k => if memk k ps then m k else None)
  end.
Fixpoint cev (c : cstate) (e : expr) : option value :=
  match e with
  | EInput x => Some (input x)
  | EVar x => assoc x (cloc c)                                      (* NameError *)
  | EGlobal x => Some (global x)
  | EConst k => Some (vconst k)
  | EScore k => assoc k (cscores c)                                 (* KeyError *)
  | EFiltered f args usekw =>
      match oall (map (cev c) args) with
      | None => None
      | Some a => if usekw then option_map (den f a) (restrict f (ckw c)) else Some (den f a (fun _ => None))
      end
  | EDirect f args kws =>
      match oall (map (cev c) args), oall (map (fun p => option_map (pair (fst p)) (cev c (snd p))) kws) with
      | Some a, Some l => Some (den f a (fun k => assoc k l))
      | _, _ => None
      end
  | EMethod m o args =>
      match cev c o, oall (map (cev c) args) with Some ov, Some a => Some (method m ov a) | _, _ => None end
  | EAttr a o => option_map (attr a) (cev c o)
  end.
(* scores[k] = v on an OrderedDict: in place if the key exists, else appended *)
Definition cupd (k : string) (v : value) (l : list (string * value)) : list (string * value) := gupd k v l.
Fixpoint cbind (c : cstate) (ts : list target) (i n : nat) (v : value) : cstate :=
  match ts with
  | [] => c
  | t :: rest =>
      let vi := if Nat.eqb n 1 then v else proj i n v in
      let c' := match t with
                | TVar x => {| ckw := ckw c; cloc := (x, vi) :: cloc c; csaved := csaved c; cscores := cscores c |}
                | TScore k => {| ckw := ckw c; cloc := cloc c; csaved := csaved c; cscores := cupd k vi (cscores c) |}
                end in
      cbind c' rest (Datatypes.S i) n v
  end.
(* result: (returned?, state); None = exception or out of fuel *)
Fixpoint crun (fuel : nat) (p : list stmt) (c : cstate) : option (bool * cstate) :=
  match fuel with 0 => None | Datatypes.S fuel' =>
  match p with
  | [] => Some (false, c)
  | st :: rest =>
      let k := crun fuel' rest in
      match st with
      | SSetKw key c0 => k (with_kw c (cset (ckw c) key (vconst c0)))
      | SSetDefaultKw key c0 =>
          match ckw c key with Some _ => k c | None => k (with_kw c (cset (ckw c) key (vconst c0))) end
      | SSaveKw x key =>
          match ckw c key with
          | None => None                                            (* KeyError *)
          | Some v => k {| ckw := ckw c; cloc := cloc c; csaved := (x, v) :: csaved c; cscores := cscores c |}
          end
      | SRestoreKw key x =>
          match assoc x (csaved c) with None => None | Some v => k (with_kw c (cset (ckw c) key v)) end
      | SIfKwNotNone key body =>
          match ckw c key with
          | None => None                                            (* KeyError *)
          | Some v => if is_none v then k c
                      else match crun fuel' body c with Some (false, c') => k c' | r => r end
          end
      | SIfOpaque cond body =>
          if cond_holds cond then match crun fuel' body c with Some (false, c') => k c' | r => r end else k c
      | SBind ts e =>
          match cev c e with None => None | Some v => k (cbind c ts 0 (List.length ts) v) end
      | SReturn => Some (true, c)
      end
  end end.
Definition init_cstate (K : kwmap) : cstate := {| ckw := K; cloc := []; csaved := []; cscores := [] |}.
(* evaluate(inputs, **K): the returned scores *)
Definition run (p : list stmt) (K : kwmap) : option (list (string * value)) :=
  option_map (fun r => cscores (snd r)) (crun 200 p (init_cstate K)).

(* ---- 2. the denotation of the normal form, for a caller keyword dict K ---- *)
Definition den_kws (K : kwmap) (v : kws) : option value :=          (* None = key absent *)
  match v with
  | KBase k => K k
  | KConst c => Some (vconst c)
  | KDefault k c => match K k with Some x => Some x | None => Some (vconst c) end
  end.
(* the keyword dict that reaches callee f: the listed overrides; besides them, of the CALLER's keywords: none (PNone),
   those named like a declared parameter of f (PDeclared), all (PAll) *)
Definition kwfun (K : kwmap) (f : string) (l : list (string * option value)) (mode : pass_mode) : kwmap :=
  fun name => match assoc name l with
              | Some ov => ov
              | None => match mode with
                        | PNone => None
                        | PDeclared => if memk name (params Sg f) then K name else None
                        | PAll => K name
                        end
              end.
Fixpoint den_sval (K : kwmap) (v : sval) : option value :=          (* None = VError inside *)
  match v with
  | VInput x => Some (input x)
  | VGlobal x => Some (global x)
  | VConst c => Some (vconst c)
  | VProj i n v => option_map (proj i n) (den_sval K v)
  | VCall f args kw all =>
      match oall (map (den_sval K) args), oall (map (fun p => option_map (pair (fst p)) (den_kwv K (snd p))) kw) with
      | Some a, Some l => Some (den f a (kwfun K f l all))
      | _, _ => None
      end
  | VMethod m o args =>
      match den_sval K o, oall (map (den_sval K) args) with Some ov, Some a => Some (method m ov a) | _, _ => None end
  | VAttr a o => option_map (attr a) (den_sval K o)
  | VError _ => None
  end
with den_kwv (K : kwmap) (kv : kwv) : option (option value) :=
  match kv with KwState s => Some (den_kws K s) | KwExpr v => option_map Some (den_sval K v) end.
Definition den_kwl (K : kwmap) (kw : list (string * kwv)) : option (list (string * option value)) :=
  oall (map (fun p => option_map (pair (fst p)) (den_kwv K (snd p))) kw).
Definition asm_holds (K : kwmap) (a : kws * bool) : Prop := option_map is_none (den_kws K (fst a)) = Some (snd a).

(* ---- 3. lemmas ---- *)
Lemma memk_In k l : memk k l = true <-> In k l.
Proof. unfold memk. rewrite existsb_exists. split.
  - intros [x [Hx E]]. apply String.eqb_eq in E. now subst.
  - intros H. exists k. split; [exact H|apply String.eqb_refl]. Qed.
Lemma memk_nIn k l : memk k l = false <-> ~ In k l.
Proof. rewrite <- memk_In. destruct (memk k l); split; intros H; try congruence; try (exfalso; now apply H). Qed.
Lemma kws_eqb_eq a b : kws_eqb a b = true -> a = b.
Proof.
  assert (HC : forall c d, match c, d with CNone, CNone => true | CBool p, CBool q => Bool.eqb p q
                          | CNum n e, CNum m f => Z.eqb n m && Pos.eqb e f | CStr p, CStr q => String.eqb p q | _, _ => false end = true -> c = d).
  { intros [|p|n e|p] [|q|m f|q]; try discriminate; intros H; try reflexivity.
    - apply Bool.eqb_prop in H. now subst.
    - apply andb_true_iff in H. destruct H as [H1 H2]. apply Z.eqb_eq in H1. apply Pos.eqb_eq in H2. now subst.
    - apply String.eqb_eq in H. now subst. }
  destruct a as [x|c|x c], b as [y|d|y d]; cbn [kws_eqb]; intros H; try discriminate.
  - apply String.eqb_eq in H. now subst.
  - destruct c; discriminate.
  - f_equal. apply HC. destruct c, d; try discriminate; exact H.
  - destruct c; discriminate.
  - apply andb_true_iff in H. destruct H as [H1 H2]. apply String.eqb_eq in H1. subst. f_equal. now apply HC.
Qed.
Lemma assoc_map_snd {A B} (g : A -> B) k (l : list (string * A)) :
  assoc k (map (fun p => (fst p, g (snd p))) l) = option_map g (assoc k l).
Proof. induction l as [|[k' a] l IH]; cbn; [reflexivity|]. destruct (String.eqb k k'); [reflexivity|exact IH]. Qed.
Lemma assoc_None_memk {A} k (l : list (string * A)) : assoc k l = None -> memk k (map fst l) = false.
Proof. induction l as [|[k' a] l IH]; cbn; [reflexivity|]. destruct (String.eqb k k'); [discriminate|exact IH]. Qed.
Lemma assoc_dedup_aux {A} k (l : list (string * A)) : forall seen,
  assoc k (dedup_aux seen l) = if memk k seen then None else assoc k l.
Proof. induction l as [|[k' a] l IH]; intros seen; cbn [dedup_aux assoc].
  - destruct (memk k seen); reflexivity.
  - destruct (memk k' seen) eqn:Es.
    + rewrite IH. destruct (memk k seen) eqn:Ek; [reflexivity|].
      destruct (String.eqb k k') eqn:E; [|reflexivity]. apply String.eqb_eq in E. subst. congruence.
    + cbn [assoc]. destruct (String.eqb k k') eqn:E.
      * apply String.eqb_eq in E. subst. now rewrite Es.
      * rewrite IH. unfold memk. cbn [existsb]. now rewrite E. Qed.
Lemma assoc_dedup {A} k (l : list (string * A)) : assoc k (dedup_keys l) = assoc k l.
Proof. unfold dedup_keys. now rewrite assoc_dedup_aux. Qed.

(* parallel association lists *)
Definition rel {A B} (P : A -> B -> Prop) (l1 : list (string * A)) (l2 : list (string * B)) : Prop :=
  Forall2 (fun a b => fst a = fst b /\ P (snd a) (snd b)) l1 l2.
Lemma assoc_rel {A B} (P : A -> B -> Prop) l1 l2 x a :
  rel P l1 l2 -> assoc x l1 = Some a -> exists b, assoc x l2 = Some b /\ P a b.
Proof. induction 1 as [|[k1 a1] [k2 b2] l1 l2 [Hk HP] _ IH]; cbn; [discriminate|]. cbn in Hk, HP. subst k2.
  destruct (String.eqb x k1); [|exact IH]. intros E. injection E as <-. eauto. Qed.
Lemma rel_keys {A B} (P : A -> B -> Prop) l1 l2 : rel P l1 l2 -> map fst l1 = map fst l2.
Proof. induction 1 as [|a b l1 l2 [Hk _] _ IH]; cbn; [reflexivity|]. now rewrite Hk, IH. Qed.
(* induction principle for the nested type expr *)
Section ExprInd.
Variable P : expr -> Prop.
Hypothesis HI : forall x, P (EInput x).
Hypothesis HV : forall x, P (EVar x).
Hypothesis HG : forall x, P (EGlobal x).
Hypothesis HC : forall c, P (EConst c).
Hypothesis HS : forall k, P (EScore k).
Hypothesis HF : forall f args u, Forall P args -> P (EFiltered f args u).
Hypothesis HD : forall f args kws, Forall P args -> Forall (fun p => P (snd p)) kws -> P (EDirect f args kws).
Hypothesis HM : forall m o args, P o -> Forall P args -> P (EMethod m o args).
Hypothesis HA : forall a o, P o -> P (EAttr a o).
Fixpoint expr_ind' (e : expr) : P e :=
  let fix go (l : list expr) : Forall P l :=
    match l with [] => Forall_nil _ | a :: t => Forall_cons _ (expr_ind' a) (go t) end in
  match e with
  | EInput x => HI x | EVar x => HV x | EGlobal x => HG x | EConst c => HC c | EScore k => HS k
  | EFiltered f args u => HF f args u (go args)
  | EDirect f args kws =>
      HD f args kws (go args)
         ((fix gk (l : list (string * expr)) : Forall (fun p => P (snd p)) l :=
             match l with [] => Forall_nil _ | a :: t => Forall_cons _ (expr_ind' (snd a)) (gk t) end) kws)
  | EMethod m o args => HM m o args (expr_ind' o) (go args)
  | EAttr a o => HA a o (expr_ind' o)
  end.
End ExprInd.

Lemma oall_map_sound {A} (F G : A -> option value) l :
  Forall (fun e => forall v, F e = Some v -> G e = Some v) l ->
  forall vs, oall (map F l) = Some vs -> oall (map G l) = Some vs.
Proof. induction 1 as [|e l He _ IH]; cbn; [auto|]. intros vs.
  destruct (F e) as [v|] eqn:E; [|discriminate]. rewrite (He v eq_refl).
  destruct (oall (map F l)) as [vs'|]; [|discriminate]. now rewrite (IH vs' eq_refl). Qed.

Lemma assoc_app {A} k (l1 l2 : list (string * A)) :
  assoc k (l1 ++ l2) = match assoc k l1 with Some a => Some a | None => assoc k l2 end.
Proof. induction l1 as [|[k' a] l1 IH]; cbn; [reflexivity|]. destruct (String.eqb k k'); [reflexivity|exact IH]. Qed.

Section WithK.
Variable K : kwmap.

Lemma den_sval_VCall f args kw all :
  den_sval K (VCall f args kw all) =
  match oall (map (den_sval K) args), den_kwl K kw with
  | Some a, Some l => Some (den f a (kwfun K f l all)) | _, _ => None end.
Proof. reflexivity. Qed.

(* keyword lists made of symbolic states only *)
Definition stk (kv : kwv) : option value := match kv with KwState s => den_kws K s | KwExpr _ => None end.
Lemma den_kwl_state kw : forallb (fun p => match snd p with KwState _ => true | _ => false end) kw = true ->
  den_kwl K kw = Some (map (fun p => (fst p, stk (snd p))) kw).
Proof. unfold den_kwl. induction kw as [|[k kv] kw IH]; [reflexivity|]. intros H. cbn [forallb] in H.
  apply andb_true_iff in H. destruct H as [H1 H2]. cbn [snd] in H1. destruct kv as [s0|]; [|discriminate].
  cbn [map fst snd oall]. simpl den_kwv. cbn [option_map]. rewrite (IH H2). reflexivity. Qed.

(* the entries filtered_kw emits for a callee without **kwargs *)
Definition gsel (s : pstate) (p : string) : list (string * kwv) :=
  match look s p with KBase q => if String.eqb p q then [] else [(p, KwState (KBase q))] | v => [(p, KwState v)] end.
Lemma gsel_other s p name : String.eqb name p = false -> assoc name (gsel s p) = None.
Proof. intros E. unfold gsel. destruct (look s p) as [q|c0|q c0]; [destruct (String.eqb p q)|..]; cbn; try rewrite E; reflexivity. Qed.
Lemma assoc_gsel s name ps :
  assoc name (flat_map (gsel s) ps) = if memk name ps then assoc name (gsel s name) else None.
Proof. induction ps as [|p ps IH]; [reflexivity|]. cbn [flat_map]. rewrite assoc_app. unfold memk in *. cbn [existsb].
  destruct (String.eqb name p) eqn:E.
  - apply String.eqb_eq in E. subst p. cbn [orb]. destruct (assoc name (gsel s name)) eqn:Eg; [reflexivity|].
    rewrite IH. destruct (existsb (String.eqb name) ps); reflexivity.
  - rewrite (gsel_other _ _ _ E). cbn [orb]. exact IH. Qed.
Lemma gsel_den s name :
  match option_map stk (assoc name (gsel s name)) with Some ov => ov | None => K name end = den_kws K (look s name).
Proof. unfold gsel. destruct (look s name) as [q|c0|q c0] eqn:El.
  - destruct (String.eqb name q) eqn:E.
    + apply String.eqb_eq in E. subst q. reflexivity.
    + cbn. rewrite String.eqb_refl. reflexivity.
  - cbn. rewrite String.eqb_refl. reflexivity.
  - cbn. rewrite String.eqb_refl. reflexivity. Qed.
Lemma gsel_state s ps :
  forallb (fun p : string * kwv => match snd p with KwState _ => true | _ => false end) (flat_map (gsel s) ps) = true.
Proof. apply forallb_forall. intros x Hx. apply in_flat_map in Hx. destruct Hx as [p [_ Hx]]. unfold gsel in Hx.
  destruct (look s p) as [q|c0|q c0]; [destruct (String.eqb p q)|..]; cbn in Hx;
    repeat match goal with H : _ \/ _ |- _ => destruct H as [<-|H] | H : False |- _ => destruct H end; reflexivity. Qed.

(* what reaches the callee of a filtered call, in terms of the symbolic keyword state *)
Lemma filtered_kwfun s f kw all : filtered_kw Sg s f = Some (kw, all) ->
  exists l, den_kwl K kw = Some l /\
    forall name, kwfun K f l all name =
      match assoc f Sg with
      | Some (ps, false) => if memk name ps then den_kws K (look s name) else None
      | _ => den_kws K (look s name)
      end.
Proof. unfold filtered_kw. destruct (assoc f Sg) as [[ps [|]]|] eqn:Ef; intros H; [| |discriminate]; injection H as <- <-.
  - eexists. split.
    + apply den_kwl_state. apply forallb_forall. intros x Hx. apply in_map_iff in Hx. destruct Hx as [y [<- _]]. reflexivity.
    + intros name. unfold kwfun. cbn [orb]. rewrite !assoc_map_snd, assoc_dedup. unfold look.
      destruct (assoc name (st_kw s)); reflexivity.
  - eexists. split.
    + apply den_kwl_state. apply (gsel_state s ps).
    + intros name. unfold kwfun, params. rewrite Ef. cbn [orb]. rewrite assoc_map_snd.
      match goal with |- context [assoc name (flat_map ?g ps)] => change g with (gsel s) end.
      rewrite (assoc_gsel s name ps). destruct (memk name ps) eqn:Em; [|reflexivity].
      apply gsel_den. Qed.

(* the invariant relating the symbolic and the concrete state *)
Record Rel (s : pstate) (c : cstate) : Prop := {
  R_kw : forall k, den_kws K (look s k) = ckw c k;
  R_loc : rel (fun v sv => den_sval K sv = Some v) (cloc c) (st_loc s);
  R_saved : rel (fun v sk => den_kws K sk = Some v) (csaved c) (st_saved s);
  R_scores : rel (fun v sv => den_sval K sv = Some v) (cscores c) (st_scores s) }.

Lemma direct_kwl s c kws :
  Forall (fun p : string * expr => forall v, cev c (snd p) = Some v -> den_sval K (ev Sg s (snd p)) = Some v) kws ->
  forall l, oall (map (fun p => option_map (pair (fst p)) (cev c (snd p))) kws) = Some l ->
  den_kwl K (map (fun p => (fst p, KwExpr (ev Sg s (snd p)))) kws) = Some (map (fun p => (fst p, Some (snd p))) l)
  /\ map fst l = map fst kws.
Proof. unfold den_kwl. induction 1 as [|[k e] kws He _ IH]; intros l Hl.
  - cbn in Hl. injection Hl as <-. split; reflexivity.
  - cbn [map fst snd oall] in Hl |- *. destruct (cev c e) as [v|] eqn:Ev; [|discriminate]. cbn [option_map] in Hl.
    destruct (oall (map (fun p => option_map (pair (fst p)) (cev c (snd p))) kws)) as [l'|]; [|discriminate].
    cbn [option_map] in Hl. injection Hl as <-. destruct (IH l' eq_refl) as [IH1 IH2].
    simpl den_kwv. cbn [snd] in He. rewrite (He v Ev). cbn [option_map]. rewrite IH1. cbn [option_map map fst snd].
    split; [reflexivity|now rewrite IH2]. Qed.

Lemma ev_sound s c (HR : Rel s c) : forall e v, cev c e = Some v -> den_sval K (ev Sg s e) = Some v.
Proof.
  induction e as [x|x|x|c0|k|f args u IHa|f args kws IHa IHk|m o args IHo IHa|a o IHo] using expr_ind';
    intros v Hv; cbn [cev] in Hv; cbn [ev].
  - exact Hv.
  - destruct (assoc_rel _ _ _ _ _ (R_loc _ _ HR) Hv) as [sv [E1 E2]]. rewrite E1. exact E2.
  - exact Hv.
  - exact Hv.
  - destruct (assoc_rel _ _ _ _ _ (R_scores _ _ HR) Hv) as [sv [E1 E2]]. rewrite E1. exact E2.
  - destruct (oall (map (cev c) args)) as [a|] eqn:Ea; [|discriminate].
    assert (Ha : oall (map (den_sval K) (map (ev Sg s) args)) = Some a).
    { rewrite map_map. apply oall_map_sound with (F := cev c); [exact IHa|exact Ea]. }
    destruct u.
    + destruct (filtered_kw Sg s f) as [[kw mode]|] eqn:Ef.
      * destruct (filtered_kwfun _ _ _ _ Ef) as [l [El Hl]]. rewrite den_sval_VCall, Ha, El.
        unfold restrict in Hv. destruct (assoc f Sg) as [[ps [|]]|] eqn:Es; cbn [option_map] in Hv; try discriminate;
          injection Hv as <-; f_equal; apply den_ext; intros name; rewrite Hl, (R_kw _ _ HR); reflexivity.
      * unfold filtered_kw in Ef. unfold restrict in Hv. destruct (assoc f Sg) as [[ps [|]]|]; discriminate.
    + rewrite den_sval_VCall, Ha. cbn [den_kwl map oall]. injection Hv as <-. reflexivity.
  - destruct (oall (map (cev c) args)) as [a|] eqn:Ea; [|discriminate].
    destruct (oall (map (fun p => option_map (pair (fst p)) (cev c (snd p))) kws)) as [l|] eqn:El; [|discriminate].
    injection Hv as <-.
    assert (Ha : oall (map (den_sval K) (map (ev Sg s) args)) = Some a).
    { rewrite map_map. apply oall_map_sound with (F := cev c); [exact IHa|exact Ea]. }
    destruct (direct_kwl s c kws IHk l El) as [E1 E2].
    rewrite den_sval_VCall, Ha, E1. f_equal. apply den_ext. intros name. unfold kwfun. rewrite assoc_map_snd.
    destruct (assoc name l) as [x|]; reflexivity.
  - destruct (cev c o) as [ov|] eqn:Eo; [|discriminate].
    destruct (oall (map (cev c) args)) as [a|] eqn:Ea; [|discriminate]. injection Hv as <-.
    assert (Ha : oall (map (den_sval K) (map (ev Sg s) args)) = Some a).
    { rewrite map_map. apply oall_map_sound with (F := cev c); [exact IHa|exact Ea]. }
    simpl den_sval. rewrite (IHo ov eq_refl).
    change (oall (map (den_sval K) (map (ev Sg s) args))) with (oall (map (den_sval K) (map (ev Sg s) args))) in Ha.
    rewrite Ha. reflexivity.
  - destruct (cev c o) as [ov|] eqn:Eo; [|discriminate]. injection Hv as <-.
    simpl den_sval. rewrite (IHo ov eq_refl). reflexivity.
Qed.

Definition asm_ok (s : pstate) : Prop := Forall (asm_holds K) (st_asm s).

Lemma bind_asm ts : forall s i n v, st_asm (bind_targets s ts i n v) = st_asm s.
Proof. induction ts as [|[x|k] ts IH]; intros; cbn [bind_targets]; [reflexivity|rewrite IH; reflexivity..]. Qed.
Lemma rel_upd {A B} (P : A -> B -> Prop) k a b l1 l2 : rel P l1 l2 -> P a b -> rel P (gupd k a l1) (gupd k b l2).
Proof. intros H HP. induction H as [|[k1 a1] [k2 b2] l1 l2 [Hk HP1] Hl IH]; cbn [gupd].
  - constructor; [cbn; auto|constructor].
  - cbn [fst snd] in Hk, HP1. subst k2. destruct (String.eqb k k1).
    + constructor; [cbn; auto|exact Hl].
    + constructor; [cbn; auto|exact IH]. Qed.
Lemma upd_score_gupd k v l : upd_score k v l = gupd k v l.
Proof. induction l as [|[k' v'] l IH]; cbn [upd_score gupd]; [reflexivity|]. now rewrite IH. Qed.
Lemma rel_upd_score k v sv sc en : rel (fun v sv => den_sval K sv = Some v) sc en -> den_sval K sv = Some v ->
  rel (fun v sv => den_sval K sv = Some v) (cupd k v sc) (upd_score k sv en).
Proof. intros H Hv. rewrite upd_score_gupd. unfold cupd. now apply rel_upd. Qed.

Lemma bind_sound n sv v (Hv : den_sval K sv = Some v) : forall ts s c i,
  Rel s c -> Rel (bind_targets s ts i n sv) (cbind c ts i n v).
Proof. induction ts as [|t ts IH]; intros s c i HR; cbn [bind_targets cbind]; [exact HR|].
  assert (Hvi : den_sval K (if Nat.eqb n 1 then sv else VProj i n sv) = Some (if Nat.eqb n 1 then v else proj i n v)).
  { destruct (Nat.eqb n 1); [exact Hv|]. simpl. rewrite Hv. reflexivity. }
  destruct HR as [Rk Rl Rs Rc]. apply IH. destruct t as [x|k].
  - constructor; cbn; [exact Rk| |exact Rs|exact Rc]. constructor; [cbn; auto|exact Rl].
  - constructor; cbn; [exact Rk|exact Rl|exact Rs|]. apply rel_upd_score; assumption. Qed.

Lemma known_none_sound s v b x : asm_ok s -> known_none s v = Some b -> den_kws K v = Some x -> is_none x = b.
Proof. intros HA Hk Hd.
  assert (Hfind : option_map snd (find (fun a => kws_eqb (fst a) v) (st_asm s)) = Some b -> is_none x = b).
  { destruct (find (fun a => kws_eqb (fst a) v) (st_asm s)) as [[v' b']|] eqn:Ef; [|discriminate]. cbn. intros E. injection E as <-.
    apply find_some in Ef. destruct Ef as [Hin Heq]. cbn in Heq. apply kws_eqb_eq in Heq. subst v'.
    unfold asm_ok in HA. rewrite Forall_forall in HA. specialize (HA _ Hin). unfold asm_holds in HA. cbn [fst snd] in HA.
    rewrite Hd in HA. cbn in HA. now injection HA. }
  destruct v as [q|c0|q c0]; cbn [known_none] in Hk; [now apply Hfind| |now apply Hfind].
  cbn in Hd. injection Hd as <-. rewrite is_none_const. destruct c0; now injection Hk. Qed.

Lemma Rel_set s c key v x : Rel s c -> den_kws K v = Some x -> Rel (set_kw s key v) (with_kw c (cset (ckw c) key x)).
Proof. intros [Rk Rl Rs Rc] Hd. constructor; cbn; [|exact Rl|exact Rs|exact Rc].
  intros k. unfold look, cset. cbn [set_kw st_kw assoc]. destruct (String.eqb k key); [exact Hd|apply Rk]. Qed.
Lemma Rel_setdefault s c key c0 : Rel s c ->
  Rel (match look s key with KBase q => set_kw s key (KDefault q c0) | _ => s end)
      (match ckw c key with Some _ => c | None => with_kw c (cset (ckw c) key (vconst c0)) end).
Proof. intros HR. pose proof (R_kw _ _ HR key) as E. destruct (look s key) as [q|c1|q c1] eqn:El; cbn [den_kws] in E.
  - destruct (ckw c key) as [x|] eqn:Ec.
    + destruct HR as [Rk Rl Rs Rc]. constructor; cbn; [|exact Rl|exact Rs|exact Rc].
      intros k. unfold look. cbn [set_kw st_kw assoc]. destruct (String.eqb k key) eqn:Ek; [|apply Rk].
      apply String.eqb_eq in Ek. subst k. cbn [den_kws]. rewrite E, Ec. reflexivity.
    + apply Rel_set; [exact HR|]. cbn [den_kws]. rewrite E. reflexivity.
  - rewrite <- E. exact HR.
  - destruct (K q); rewrite <- E; exact HR. Qed.
Lemma Rel_assume s c v b : Rel s c -> Rel (assume s v b) c.
Proof. intros [Rk Rl Rs Rc]. constructor; [exact Rk|exact Rl|exact Rs|exact Rc]. Qed.
Lemma noret_returns_ok p : forallb stmt_noret p = true -> returns_ok p = true.
Proof. unfold returns_ok. induction p as [|a p IH]; [reflexivity|]. cbn [forallb]. intros H. apply andb_true_iff in H.
  destruct H as [H1 H2]. rewrite (IH H2), andb_true_r. destruct a; try reflexivity; exact H1. Qed.

Ltac fin HR' HA' HB' :=
  split; [exact HR'|split; [exact HA'|
    let H := fresh in intros H; cbn [forallb] in H; apply andb_true_iff in H; destruct H as [_ H]; exact (HB' H)]].
(* the simulation: a successful concrete run follows one of the explored symbolic paths *)
Lemma exec_sound : forall fuel p s c b c',
  Rel s c -> asm_ok s -> returns_ok p = true ->
  crun fuel p c = Some (b, c') ->
  exists s', In s' (exec Sg fuel p s) /\ Rel s' c' /\ asm_ok s' /\ (forallb stmt_noret p = true -> b = false).
Proof.
  induction fuel as [|fuel IH]; intros p s c b c' HR HA Hret Hrun; [discriminate|].
  cbn [crun] in Hrun. cbn [exec]. destruct p as [|st rest].
  { injection Hrun as <- <-. exists s. split; [now left|]. split; [exact HR|split; [exact HA|auto]]. }
  unfold returns_ok in Hret. cbn [forallb] in Hret. apply andb_true_iff in Hret. destruct Hret as [Hret1 Hret2].
  assert (Hcont : forall s1 c1, Rel s1 c1 -> asm_ok s1 -> crun fuel rest c1 = Some (b, c') ->
            exists s', In s' (exec Sg fuel rest s1) /\ Rel s' c' /\ asm_ok s' /\ (forallb stmt_noret rest = true -> b = false)).
  { intros s1 c1 HR1 HA1 Hr. exact (IH rest s1 c1 b c' HR1 HA1 Hret2 Hr). }
  assert (Hbody : forall body s0, forallb stmt_noret body = true -> Rel s0 c -> asm_ok s0 ->
            match crun fuel body c with Some (false, c1) => crun fuel rest c1 | r => r end = Some (b, c') ->
            exists s', In s' (flat_map (exec Sg fuel rest) (exec Sg fuel body s0)) /\ Rel s' c' /\ asm_ok s'
                       /\ (forallb stmt_noret rest = true -> b = false)).
  { intros body s0 Hnr HR0 HA0 Hr. destruct (crun fuel body c) as [[b1 c1]|] eqn:Eb; [|discriminate].
    destruct (IH body s0 c b1 c1 HR0 HA0 (noret_returns_ok _ Hnr) Eb) as [s1 [Hin1 [HR1 [HA1 HB1]]]].
    rewrite (HB1 Hnr) in Hr.
    destruct (Hcont s1 c1 HR1 HA1 Hr) as [s' [Hin [HR' H']]]. exists s'. split; [|split; [exact HR'|exact H']].
    apply in_flat_map. exists s1. split; assumption. }
  destruct st as [key c0|key c0|x key|key x|key body|cond body|ts e|].
  - (* kwargs[key] = c0 *)
    destruct (Hcont (set_kw s key (KConst c0)) _ (Rel_set s c key (KConst c0) (vconst c0) HR eq_refl) HA Hrun)
      as [s' [Hin [HR' [HA' HB']]]].
    exists s'. split; [exact Hin|]. fin HR' HA' HB'.
  - (* kwargs.setdefault(key, c0) *)
    assert (Ee : match look s key with KBase q => exec Sg fuel rest (set_kw s key (KDefault q c0)) | _ => exec Sg fuel rest s end
                 = exec Sg fuel rest (match look s key with KBase q => set_kw s key (KDefault q c0) | _ => s end)).
    { destruct (look s key); reflexivity. }
    assert (Ec : crun fuel rest (match ckw c key with Some _ => c | None => with_kw c (cset (ckw c) key (vconst c0)) end) = Some (b, c')).
    { destruct (ckw c key); exact Hrun. }
    rewrite Ee. assert (HA1 : asm_ok (match look s key with KBase q => set_kw s key (KDefault q c0) | _ => s end)).
    { destruct (look s key); exact HA. }
    destruct (Hcont _ _ (Rel_setdefault s c key c0 HR) HA1 Ec) as [s' [Hin [HR' [HA' HB']]]].
    exists s'. split; [exact Hin|]. fin HR' HA' HB'.
  - (* x = kwargs[key] *)
    destruct (ckw c key) as [v|] eqn:Ec; [|discriminate].
    match type of Hrun with crun _ _ ?c1 = _ => match goal with |- exists s', In s' (exec _ _ _ ?s1) /\ _ =>
      destruct (Hcont s1 c1) as [s' [Hin [HR' [HA' HB']]]]; [| |exact Hrun|] end end.
    + destruct HR as [Rk Rl Rs Rc]. constructor; cbn; [exact Rk|exact Rl| |exact Rc].
      constructor; [|exact Rs]. cbn. split; [reflexivity|]. now rewrite Rk.
    + exact HA.
    + exists s'. split; [exact Hin|]. fin HR' HA' HB'.
  - (* kwargs[key] = x *)
    destruct (assoc x (csaved c)) as [v|] eqn:Ex; [|discriminate].
    destruct (assoc_rel _ _ _ _ _ (R_saved _ _ HR) Ex) as [sk [E1 E2]]. rewrite E1.
    destruct (Hcont (set_kw s key sk) _ (Rel_set s c key _ _ HR E2) HA Hrun) as [s' [Hin [HR' [HA' HB']]]].
    exists s'. split; [exact Hin|]. fin HR' HA' HB'.
  - (* if kwargs[key] is not None: body *)
    destruct (ckw c key) as [x|] eqn:Ec; [|discriminate].
    assert (Hd : den_kws K (look s key) = Some x). { now rewrite (R_kw _ _ HR). }
    cbn [inner_noret] in Hret1.
    destruct (known_none s (look s key)) as [[|]|] eqn:Ekn.
    + rewrite (known_none_sound _ _ _ _ HA Ekn Hd) in Hrun.
      destruct (Hcont s c HR HA Hrun) as [s' [Hin [HR' [HA' HB']]]].
      exists s'. split; [exact Hin|]. fin HR' HA' HB'.
    + rewrite (known_none_sound _ _ _ _ HA Ekn Hd) in Hrun.
      destruct (Hbody body s Hret1 HR HA Hrun) as [s' [Hin [HR' [HA' HB']]]].
      exists s'. split; [exact Hin|]. fin HR' HA' HB'.
    + destruct (is_none x) eqn:En.
      * assert (HA1 : asm_ok (assume s (look s key) true)).
        { unfold asm_ok. cbn [assume st_asm]. apply Forall_app. split; [exact HA|]. constructor; [|constructor].
          unfold asm_holds. cbn [fst snd]. rewrite Hd. cbn. now rewrite En. }
        destruct (Hcont _ c (Rel_assume s c _ true HR) HA1 Hrun) as [s' [Hin [HR' [HA' HB']]]].
        exists s'. split; [apply in_or_app; now left|]. fin HR' HA' HB'.
      * assert (HA1 : asm_ok (assume s (look s key) false)).
        { unfold asm_ok. cbn [assume st_asm]. apply Forall_app. split; [exact HA|]. constructor; [|constructor].
          unfold asm_holds. cbn [fst snd]. rewrite Hd. cbn. now rewrite En. }
        destruct (Hbody body _ Hret1 (Rel_assume s c _ false HR) HA1 Hrun) as [s' [Hin [HR' [HA' HB']]]].
        exists s'. split; [apply in_or_app; now right|]. fin HR' HA' HB'.
  - (* if <opaque condition>: body *)
    cbn [inner_noret] in Hret1.
    destruct (cond_holds cond).
    + destruct (Hbody body s Hret1 HR HA Hrun) as [s' [Hin [HR' [HA' HB']]]].
      exists s'. split; [apply in_or_app; now right|]. fin HR' HA' HB'.
    + destruct (Hcont s c HR HA Hrun) as [s' [Hin [HR' [HA' HB']]]].
      exists s'. split; [apply in_or_app; now left|]. fin HR' HA' HB'.
  - (* targets = e *)
    destruct (cev c e) as [v|] eqn:Ee; [|discriminate].
    pose proof (ev_sound s c HR e v Ee) as Hv.
    pose proof (bind_sound (List.length ts) _ _ Hv ts s c 0 HR) as HRb.
    assert (HAb : asm_ok (bind_targets s ts 0 (List.length ts) (ev Sg s e))). { unfold asm_ok. rewrite bind_asm. exact HA. }
    destruct (Hcont _ _ HRb HAb Hrun) as [s' [Hin [HR' [HA' HB']]]].
    exists s'. split; [exact Hin|]. fin HR' HA' HB'.
  - (* return scores *)
    injection Hrun as <- <-. exists s. split; [now left|]. split; [exact HR|split; [exact HA|cbn; discriminate]].
Qed.

Lemma Rel_init : Rel init_state (init_cstate K).
Proof. constructor; cbn; [reflexivity|constructor..]. Qed.
Lemma rel_scores_map sc en : rel (fun v sv => den_sval K sv = Some v) sc en ->
  map (fun p => (fst p, Some (snd p))) sc = map (fun p => (fst p, den_sval K (snd p))) en.
Proof. induction 1 as [|a b l1 l2 [H1 H2] _ IH]; cbn [map]; [reflexivity|]. rewrite H1, H2, IH. reflexivity. Qed.

(* ---- 4. soundness of the normal form ---- *)
Lemma exec_sound_top (n : nat) (p : list stmt) (sc : list (string * value)) :
  returns_ok p = true ->
  option_map (fun r => cscores (snd r)) (crun n p (init_cstate K)) = Some sc ->
  exists asm entries,
    In (asm, entries) (map (fun s => (st_asm s, st_scores s)) (exec Sg n p init_state))
    /\ (forall v b, In (v, b) asm -> option_map is_none (den_kws K v) = Some b)
    /\ map (fun e => (fst e, Some (snd e))) sc = map (fun e => (fst e, den_sval K (snd e))) entries.
Proof. intros Hret Hrun.
  destruct (crun n p (init_cstate K)) as [[b c']|] eqn:E; [|discriminate]. cbn [option_map snd] in Hrun. injection Hrun as <-.
  destruct (exec_sound n p init_state (init_cstate K) b c' Rel_init (Forall_nil _) Hret E) as [s' [Hin [HR' [HA' _]]]].
  exists (st_asm s'), (st_scores s'). split; [|split].
  - apply in_map_iff. exists s'. split; [reflexivity|exact Hin].
  - intros v b0 Hvb. unfold asm_ok in HA'. rewrite Forall_forall in HA'. exact (HA' _ Hvb).
  - apply rel_scores_map. exact (R_scores _ _ HR'). Qed.
(* for every signature table Sg, program p (with `return` only at top level) and caller keyword dict K: if evaluate with keywords K
   succeeds concretely with scores sc, then sc is, key by key and in order, the denotation of one explored path of the
   normal form whose assumptions all hold under K *)
Theorem symexec_sound (p : list stmt) (sc : list (string * value)) :
  returns_ok p = true ->
  run p K = Some sc ->
  exists asm entries,
    In (asm, entries) (symexec Sg p)
    /\ (forall v b, In (v, b) asm -> option_map is_none (den_kws K v) = Some b)
    /\ map (fun e => (fst e, Some (snd e))) sc = map (fun e => (fst e, den_sval K (snd e))) entries.
Proof. exact (exec_sound_top 200 p sc). Qed.

(* ---- 5. what the normal form says about a filtered call ---- *)
(* callee without **kwargs: a caller keyword that evaluate() did not touch reaches the callee iff it is one of the callee's
   declared parameter names, and then with the caller's value *)
Theorem passthrough s f ps kw mode k :
  assoc f Sg = Some (ps, false) -> filtered_kw Sg s f = Some (kw, mode) -> look s k = KBase k ->
  exists l, den_kwl K kw = Some l /\ mode = PDeclared /\ kwfun K f l mode k = if memk k ps then K k else None.
Proof. intros Hf Hfk Hl. destruct (filtered_kwfun _ _ _ _ Hfk) as [l [El Hk]]. exists l. split; [exact El|]. split.
  - unfold filtered_kw in Hfk. rewrite Hf in Hfk. now injection Hfk.
  - rewrite Hk, Hf, Hl. reflexivity. Qed.
(* a keyword forced by evaluate() reaches every callee that accepts it with the forced value, whatever the caller passed *)
Theorem forced_wins s f ps hk kw mode k c :
  assoc f Sg = Some (ps, hk) -> filtered_kw Sg s f = Some (kw, mode) -> look s k = KConst c -> hk = true \/ memk k ps = true ->
  exists l, den_kwl K kw = Some l /\ kwfun K f l mode k = Some (vconst c).
Proof. intros Hf Hfk Hl Hacc. destruct (filtered_kwfun _ _ _ _ Hfk) as [l [El Hk]]. exists l. split; [exact El|].
  rewrite Hk, Hf, Hl. destruct hk; [reflexivity|]. destruct Hacc as [H|H]; [discriminate|]. now rewrite H. Qed.
(* ... and a setdefault-ed keyword with the caller's value if there is one, else the default *)
Theorem default_yields s f ps hk kw mode k c :
  assoc f Sg = Some (ps, hk) -> filtered_kw Sg s f = Some (kw, mode) -> look s k = KDefault k c -> hk = true \/ memk k ps = true ->
  exists l, den_kwl K kw = Some l /\ kwfun K f l mode k = Some (match K k with Some x => x | None => vconst c end).
Proof. intros Hf Hfk Hl Hacc. destruct (filtered_kwfun _ _ _ _ Hfk) as [l [El Hk]]. exists l. split; [exact El|].
  rewrite Hk, Hf, Hl. cbn [den_kws]. destruct hk; [destruct (K k); reflexivity|].
  destruct Hacc as [H|H]; [discriminate|]. rewrite H. destruct (K k); reflexivity. Qed.

End WithK.

(* ---- 6. keywords the normal form does not mention are irrelevant ---- *)
Section SvalInd.
Variables (P : sval -> Prop) (Q : kwv -> Prop).
Hypothesis HI : forall x, P (VInput x).
Hypothesis HG : forall x, P (VGlobal x).
Hypothesis HC : forall c, P (VConst c).
Hypothesis HP : forall i n v, P v -> P (VProj i n v).
Hypothesis HCall : forall f args kw all, Forall P args -> Forall (fun p => Q (snd p)) kw -> P (VCall f args kw all).
Hypothesis HM : forall m o args, P o -> Forall P args -> P (VMethod m o args).
Hypothesis HA : forall a o, P o -> P (VAttr a o).
Hypothesis HE : forall m, P (VError m).
Hypothesis HKs : forall s, Q (KwState s).
Hypothesis HKe : forall v, P v -> Q (KwExpr v).
Fixpoint sval_ind' (v : sval) : P v :=
  let fix go (l : list sval) : Forall P l :=
    match l with [] => Forall_nil _ | a :: t => Forall_cons _ (sval_ind' a) (go t) end in
  match v with
  | VInput x => HI x | VGlobal x => HG x | VConst c => HC c
  | VProj i n v => HP i n v (sval_ind' v)
  | VCall f args kw all =>
      HCall f args kw all (go args)
        ((fix gk (l : list (string * kwv)) : Forall (fun p => Q (snd p)) l :=
            match l with [] => Forall_nil _ | a :: t => Forall_cons _ (kwv_ind' (snd a)) (gk t) end) kw)
  | VMethod m o args => HM m o args (sval_ind' o) (go args)
  | VAttr a o => HA a o (sval_ind' o)
  | VError m => HE m
  end
with kwv_ind' (kv : kwv) : Q kv :=
  match kv with KwState s => HKs s | KwExpr v => HKe v (sval_ind' v) end.
End SvalInd.

Lemma existsb_false {A} (f : A -> bool) l : existsb f l = false -> forall x, In x l -> f x = false.
Proof. intros H x Hx. destruct (f x) eqn:E; [|reflexivity]. rewrite <- H. symmetry. apply existsb_exists. eauto. Qed.
Lemma oall_map_ext {A B} (F G : A -> option B) l : (forall x, In x l -> F x = G x) -> oall (map F l) = oall (map G l).
Proof. induction l as [|a l IH]; cbn [map oall]; intros H; [reflexivity|]. rewrite (H a (or_introl eq_refl)), IH; [reflexivity|].
  intros x Hx. apply H. now right. Qed.
Lemma den_kwl_keys K kw : forall l, den_kwl K kw = Some l -> map fst l = map fst kw.
Proof. unfold den_kwl. induction kw as [|[k kv] kw IH]; intros l H; cbn [map oall] in H.
  - injection H as <-. reflexivity.
  - cbn [fst snd] in H. destruct (den_kwv K kv); [|discriminate]. cbn [option_map] in H.
    destruct (oall (map (fun p => option_map (pair (fst p)) (den_kwv K (snd p))) kw)) as [l'|]; [|discriminate].
    cbn [option_map] in H. injection H as <-. cbn [map fst]. f_equal. now apply IH. Qed.
Lemma den_sval_VMethod K m o args :
  den_sval K (VMethod m o args) =
  match den_sval K o, oall (map (den_sval K) args) with Some ov, Some a => Some (method m ov a) | _, _ => None end.
Proof. reflexivity. Qed.
Lemma den_kws_irrel K K' k v : (forall k', k' <> k -> K k' = K' k') -> ~ In k (kws_keys v) -> den_kws K v = den_kws K' v.
Proof. intros HK Hk. destruct v as [q|c|q c]; cbn [den_kws]; [|reflexivity|]; rewrite (HK q); try reflexivity;
  intros ->; apply Hk; now left. Qed.
Lemma den_irrel K K' k : (forall k', k' <> k -> K k' = K' k') ->
  forall v, sval_all v = false -> ~ In k (sval_keys Sg v) -> den_sval K v = den_sval K' v.
Proof. intros HK.
  apply (sval_ind' (fun v => sval_all v = false -> ~ In k (sval_keys Sg v) -> den_sval K v = den_sval K' v)
                   (fun kv => kwv_all kv = false -> ~ In k (kwv_keys Sg kv) -> den_kwv K kv = den_kwv K' kv)).
  - reflexivity.
  - reflexivity.
  - reflexivity.
  - intros i n v IH Ha Hk. change (den_sval K (VProj i n v)) with (option_map (proj i n) (den_sval K v)).
    change (den_sval K' (VProj i n v)) with (option_map (proj i n) (den_sval K' v)). rewrite (IH Ha Hk). reflexivity.
  - intros f args kw mode IHa IHk Ha Hk.
    change (sval_all (VCall f args kw mode))
      with (match mode with PAll => true | _ => false end || existsb sval_all args || existsb (fun p => kwv_all (snd p)) kw) in Ha.
    apply orb_false_iff in Ha. destruct Ha as [Ha Ha3]. apply orb_false_iff in Ha. destruct Ha as [Ha1 Ha2].
    change (sval_keys Sg (VCall f args kw mode))
      with (flat_map (sval_keys Sg) args ++ flat_map (fun p => kwv_keys Sg (snd p)) kw
            ++ match mode with PDeclared => filter (fun k => negb (memk k (map fst kw))) (params Sg f) | _ => [] end)%list in Hk.
    rewrite !den_sval_VCall.
    assert (E1 : oall (map (den_sval K) args) = oall (map (den_sval K') args)).
    { apply oall_map_ext. intros x Hx. rewrite Forall_forall in IHa. apply IHa; [exact Hx|exact (existsb_false _ _ Ha2 x Hx)|].
      intros H. apply Hk. apply in_or_app. left. apply in_flat_map. eauto. }
    assert (E2 : den_kwl K kw = den_kwl K' kw).
    { unfold den_kwl. apply oall_map_ext. intros x Hx. rewrite Forall_forall in IHk. rewrite (IHk x Hx); [reflexivity| |].
      - exact (existsb_false _ _ Ha3 x Hx).
      - intros H. apply Hk. apply in_or_app. right. apply in_or_app. left. apply in_flat_map. eauto. }
    rewrite <- E1, <- E2. destruct (oall (map (den_sval K) args)) as [a|]; [|reflexivity].
    destruct (den_kwl K kw) as [l|] eqn:El; [|reflexivity]. f_equal. apply den_ext. intros name. unfold kwfun.
    destruct (assoc name l) eqn:En; [reflexivity|]. destruct mode; [reflexivity| |discriminate].
    destruct (memk name (params Sg f)) eqn:Em; [|reflexivity].
    apply HK. intros ->. apply Hk. apply in_or_app. right. apply in_or_app. right. apply filter_In.
    split; [now apply memk_In|]. rewrite <- (den_kwl_keys _ _ _ El). now rewrite (assoc_None_memk _ _ En).
  - intros m o args IHo IHa Ha Hk.
    change (sval_all (VMethod m o args)) with (sval_all o || existsb sval_all args) in Ha.
    apply orb_false_iff in Ha. destruct Ha as [Ha1 Ha2].
    change (sval_keys Sg (VMethod m o args)) with (sval_keys Sg o ++ flat_map (sval_keys Sg) args)%list in Hk.
    rewrite !den_sval_VMethod. rewrite (IHo Ha1); [|intros H; apply Hk; apply in_or_app; now left].
    assert (E1 : oall (map (den_sval K) args) = oall (map (den_sval K') args)).
    { apply oall_map_ext. intros x Hx. rewrite Forall_forall in IHa. apply IHa; [exact Hx|exact (existsb_false _ _ Ha2 x Hx)|].
      intros H. apply Hk. apply in_or_app. right. apply in_flat_map. eauto. }
    rewrite E1. reflexivity.
  - intros a o IHo Ha Hk. change (den_sval K (VAttr a o)) with (option_map (attr a) (den_sval K o)).
    change (den_sval K' (VAttr a o)) with (option_map (attr a) (den_sval K' o)). rewrite (IHo Ha Hk). reflexivity.
  - reflexivity.
  - intros s _ Hk. change (den_kwv K (KwState s)) with (Some (den_kws K s)). change (den_kwv K' (KwState s)) with (Some (den_kws K' s)).
    f_equal. exact (den_kws_irrel K K' k s HK Hk).
  - intros v IH Ha Hk. change (den_kwv K (KwExpr v)) with (option_map Some (den_sval K v)).
    change (den_kwv K' (KwExpr v)) with (option_map Some (den_sval K' v)). rewrite (IH Ha Hk). reflexivity.
Qed.

(* a caller keyword that a path of the normal form does not mention (no assumption tests it, no call receives it, no callee
   with **kwargs is involved) changes neither the truth of the path's assumptions nor any score *)
Theorem unrelated_ignored K K' k path :
  (forall k', k' <> k -> K k' = K' k') -> path_all path = false -> ~ In k (path_keys Sg path) ->
  (forall a, In a (fst path) -> (asm_holds K a <-> asm_holds K' a))
  /\ map (fun e => (fst e, den_sval K (snd e))) (snd path) = map (fun e => (fst e, den_sval K' (snd e))) (snd path).
Proof. intros HK Ha Hk. destruct path as [asm en]. unfold path_keys, path_all in *. cbn [fst snd] in *. split.
  - intros a Hin. unfold asm_holds. rewrite (den_kws_irrel K K' k (fst a) HK); [tauto|].
    intros H. apply Hk. apply in_or_app. left. apply in_flat_map. eauto.
  - apply map_ext_in. intros e He. f_equal. apply (den_irrel K K' k HK).
    + exact (existsb_false _ _ Ha e He).
    + intros H. apply Hk. apply in_or_app. right. apply in_flat_map. eauto. Qed.
End Sem.

(* ------------------------------------------------------------------------------------------------------------ *)
(* the three call forms have three different normal forms (the pass mode), whatever the arguments *)
Theorem modes_distinguish (Sg : sigs) (s : pstate) (f : string) (args : list expr) (kws : list (string * expr)) :
  (forall ps, assoc f Sg = Some (ps, true) ->                      (* filter_kwargs(f, ..., **kwargs), f takes **kwargs *)
     exists kw, ev Sg s (EFiltered f args true) = VCall f (map (ev Sg s) args) kw PAll)
  /\ (forall ps, assoc f Sg = Some (ps, false) ->                  (* filter_kwargs(f, ..., **kwargs), f does not *)
     exists kw, ev Sg s (EFiltered f args true) = VCall f (map (ev Sg s) args) kw PDeclared)
  /\ ev Sg s (EFiltered f args false) = VCall f (map (ev Sg s) args) [] PNone        (* filter_kwargs(f, ...) *)
  /\ ev Sg s (EDirect f args kws)                                                      (* f(..., k=v, ...) *)
     = VCall f (map (ev Sg s) args) (map (fun p => (fst p, KwExpr (ev Sg s (snd p)))) kws) PNone
  /\ PAll <> PDeclared /\ PDeclared <> PNone /\ PAll <> PNone.
Proof. repeat split; try discriminate.
  - intros ps Hf. cbn [ev]. unfold filtered_kw. rewrite Hf. eexists. reflexivity.
  - intros ps Hf. cbn [ev]. unfold filtered_kw. rewrite Hf. eexists. reflexivity. Qed.

(* ------------------------------------------------------------------------------------------------------------ *)
(* the side condition on the 14 translated programs, by computation *)
Definition all_progs : list (string * sigs * list stmt) :=
  [("alignment", alignment_sigs, alignment_prog); ("beat", beat_sigs, beat_prog); ("chord", chord_sigs, chord_prog);
   ("hierarchy", hierarchy_sigs, hierarchy_prog); ("key", key_sigs, key_prog); ("melody", melody_sigs, melody_prog);
   ("multipitch", multipitch_sigs, multipitch_prog); ("onset", onset_sigs, onset_prog); ("pattern", pattern_sigs, pattern_prog);
   ("segment", segment_sigs, segment_prog); ("separation", separation_sigs, separation_prog); ("tempo", tempo_sigs, tempo_prog);
   ("transcription", transcription_sigs, transcription_prog);
   ("transcription_velocity", transcription_velocity_sigs, transcription_velocity_prog)].
(* all 14: `return` only at top level, so symexec_sound applies to each of them for every caller keyword dict *)
Example progs_returns_ok : forallb (fun t => match t with (_, _, p) => returns_ok p end) all_progs = true.
Proof. vm_compute. reflexivity. Qed.
(* every keyword mentioned by a path of a normal form is a declared parameter name of some function of the module:
   by unrelated_ignored, a caller keyword that no function declares changes no assumption and no score
   (except through a callee with **kwargs: only multipitch.metrics) *)
Example progs_keys_declared :
  forallb (fun t => match t with (_, Sg, p) =>
             forallb (fun path => forallb (fun k => memk k (declared Sg)) (path_keys Sg path)) (symexec Sg p) end) all_progs = true.
Proof. vm_compute. reflexivity. Qed.
Example progs_pass_all :
  map (fun t => fst (fst t)) (filter (fun t => match t with (_, Sg, p) => existsb path_all (symexec Sg p) end) all_progs) = ["multipitch"].
Proof. vm_compute. reflexivity. Qed.

(* ------------------------------------------------------------------------------------------------------------ *)
(* an instance: the hypotheses of the Section are satisfiable *)
Module Inst.
Definition ivconst (c : const) : nat := match c with CNone => 0 | CNum n _ => 2 + Z.to_nat n | _ => 1 end.
Definition iis_none (v : nat) : bool := Nat.eqb v 0.
Lemma iis_none_const c : iis_none (ivconst c) = match c with CNone => true | _ => false end.
Proof. destruct c; reflexivity. Qed.
Definition iproj (i n v : nat) : nat := v.
(* a callee that observes its keywords `w` and `z` *)
Definition iden (f : string) (a : list nat) (m : string -> option nat) : nat :=
  match m "w" with Some x => 10 + x | None => 1 end + match m "z" with Some x => 100 * x | None => 0 end.
Lemma iden_ext f a (m1 m2 : string -> option nat) : (forall k, m1 k = m2 k) -> iden f a m1 = iden f a m2.
Proof. intros H. unfold iden. now rewrite !H. Qed.
Definition iinput (x : string) : nat := 1.
Definition imethod (m : string) (o : nat) (a : list nat) : nat := o.
Definition iattr (a : string) (o : nat) : nat := o.
Definition irun (cond : string -> bool) := run nat ivconst iis_none iproj iden iinput iinput imethod iattr cond.
Definition iden_sval := den_sval nat ivconst iproj iden iinput iinput imethod iattr.
Definition no_kw : string -> option nat := fun _ => None.

Example pattern_run_keys :
  option_map (map fst) (irun (fun _ => true) pattern_sigs pattern_prog no_kw)
  = Some ["F"; "P"; "R"; "F_est"; "P_est"; "R_est"; "F_occ.5"; "P_occ.5"; "R_occ.5"; "F_occ.75"; "P_occ.75"; "R_occ.75";
          "F_3"; "P_3"; "R_3"; "FFP"; "FFTP_est"].
Proof. vm_compute. reflexivity. Qed.
(* the theorem applied to segment.evaluate (direct calls, forced window) for an arbitrary caller keyword dict *)
Example segment_sound cond K sc : irun cond segment_sigs segment_prog K = Some sc ->
  exists asm entries, In (asm, entries) (symexec segment_sigs segment_prog)
    /\ (forall v b, In (v, b) asm -> option_map iis_none (den_kws nat ivconst K v) = Some b)
    /\ map (fun e => (fst e, Some (snd e))) sc = map (fun e => (fst e, iden_sval segment_sigs K (snd e))) entries.
Proof. apply (symexec_sound nat ivconst iis_none iis_none_const iproj iden iden_ext). vm_compute. reflexivity. Qed.

Ltac split_in := repeat match goal with H : _ \/ _ |- _ => destruct H as [H|H] | H : False |- _ => destruct H end.
(* the remaining side condition is necessary: for a `return` inside an if-body Python returns, exec only ends the body and
   runs the rest of the program (the translator rejects such programs) *)
Definition p_ret : list stmt := [SIfOpaque "c" [SReturn]; SBind [TScore "a"] (EConst CNone); SReturn].
Theorem symexec_inner_return_refuted :
  irun (fun _ => true) [] p_ret no_kw = Some []
  /\ ~ exists asm entries, In (asm, entries) (symexec [] p_ret)
        /\ map (fun e => (fst e, Some (snd e))) (@nil (string * nat)) = map (fun e => (fst e, iden_sval [] no_kw (snd e))) entries.
Proof. split; [vm_compute; reflexivity|].
  intros [asm [en [Hin Heq]]]. vm_compute in Hin. split_in; injection Hin as <- <-; discriminate Heq. Qed.
(* a re-assigned score key keeps its first position, concretely and symbolically *)
Definition p_twice : list stmt :=
  [SBind [TScore "a"] (EConst CNone); SBind [TScore "b"] (EConst CNone); SBind [TScore "a"] (EConst (CBool true)); SReturn].
Example reassign_in_place :
  irun (fun _ => true) [] p_twice no_kw = Some [("a", 1); ("b", 0)]
  /\ map (fun path => map fst (snd path)) (symexec [] p_twice) = [["a"; "b"]].
Proof. split; vm_compute; reflexivity. Qed.

(* the three call forms on concrete data: callee "g" takes **kwargs, callee "f" declares only w; the caller passes w=5, z=7.
   Three different normal forms, three different results, each the denotation of its own normal form. *)
Definition sg_fg : sigs := [("f", (["w"], false)); ("g", (["w"], true))].
Definition p_all : list stmt := [SBind [TScore "a"] (EFiltered "g" [] true); SReturn].
Definition p_declared : list stmt := [SBind [TScore "a"] (EFiltered "f" [] true); SReturn].
Definition p_nokw : list stmt := [SBind [TScore "a"] (EFiltered "f" [] false); SReturn].
Definition p_direct : list stmt := [SBind [TScore "a"] (EDirect "f" [] []); SReturn].
Definition kw_wz : string -> option nat := fun k => if String.eqb k "w" then Some 5 else if String.eqb k "z" then Some 7 else None.
Theorem modes_distinguish_example :
  symexec sg_fg p_all = [([], [("a", VCall "g" [] [] PAll)])]
  /\ symexec sg_fg p_declared = [([], [("a", VCall "f" [] [] PDeclared)])]
  /\ symexec sg_fg p_nokw = [([], [("a", VCall "f" [] [] PNone)])]
  /\ symexec sg_fg p_direct = [([], [("a", VCall "f" [] [] PNone)])]
  /\ irun (fun _ => true) sg_fg p_all kw_wz = Some [("a", 715)]          (* w and z arrive *)
  /\ irun (fun _ => true) sg_fg p_declared kw_wz = Some [("a", 15)]      (* only the declared w arrives *)
  /\ irun (fun _ => true) sg_fg p_nokw kw_wz = Some [("a", 1)]           (* nothing arrives *)
  /\ irun (fun _ => true) sg_fg p_direct kw_wz = Some [("a", 1)]
  /\ iden_sval sg_fg kw_wz (VCall "g" [] [] PAll) = Some 715
  /\ iden_sval sg_fg kw_wz (VCall "f" [] [] PDeclared) = Some 15
  /\ iden_sval sg_fg kw_wz (VCall "f" [] [] PNone) = Some 1.
Proof. repeat split; vm_compute; reflexivity. Qed.
End Inst.

Print Assumptions symexec_sound.
Print Assumptions passthrough.
Print Assumptions forced_wins.
Print Assumptions default_yields.
Print Assumptions unrelated_ignored.
Print Assumptions modes_distinguish.
Print Assumptions Inst.segment_sound.
Print Assumptions Inst.symexec_inner_return_refuted.
Print Assumptions Inst.modes_distinguish_example.
