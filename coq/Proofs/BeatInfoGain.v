(* The exact skeleton of beat.information_gain (Model.Beat.information_gain_counts: the forward and the backward
   beat-error histograms): invariance under a time shift, and the histograms of a perfect estimate (all beats in the
   bin that contains 0, hence entropy 0).  The entropy / log2 step of the score is not modelled. *)
From Coq Require Import List Bool Arith ZArith QArith Qabs Qminmax Qround Lia ZifyBool Lqa Sorted Morphisms Setoid.
From ME Require Import Model.Prelude Model.Beat Proofs.BeatProps.
Import ListNotations.
Open Scope Q_scope.

Definition opt_qeq (o' o : option Q) : Prop :=
  match o', o with Some a, Some b => a == b | None, None => True | _, _ => False end.

Definition ig_interval (c : cand) (n : nat) (neg : bool) : Q :=
  if (c_idx c =? 0)%nat
  then (1#2) * (match c_next c with Some nx => nx | None => c_val c end - c_val c)
  else if (c_idx c =? n)%nat || neg
  then (1#2) * (c_val c - match c_prev c with Some p => p | None => c_val c end)
  else (1#2) * (match c_next c with Some nx => nx | None => c_val c end - c_val c).
Lemma ig_error_eq x r0 rt :
  ig_error x r0 rt =
  let c := nearest x r0 rt in
  if qeqb (ig_interval c (length rt) (qltb (x - c_val c) 0)) 0 then None
  else Some ((1#2) * (x - c_val c) / ig_interval c (length rt) (qltb (x - c_val c) 0)).
Proof. reflexivity. Qed.

Lemma ig_interval_shl s c' c n neg : cand_shl s c' c -> ig_interval c' n neg == ig_interval c n neg.
Proof. intros (Hc1 & Hc2 & Hc3 & Hc4 & Hc5). unfold ig_interval. rewrite Hc1.
  assert (A : (1#2) * (match c_next c' with Some nx => nx | None => c_val c' end - c_val c')
           == (1#2) * (match c_next c with Some nx => nx | None => c_val c end - c_val c)).
  { destruct (c_next c'), (c_next c); simpl in Hc5; try contradiction; lra. }
  assert (B : (1#2) * (c_val c' - match c_prev c' with Some p => p | None => c_val c' end)
           == (1#2) * (c_val c - match c_prev c with Some p => p | None => c_val c end)).
  { destruct (c_prev c'), (c_prev c); simpl in Hc3; try contradiction; lra. }
  destruct (c_idx c =? 0)%nat; [exact A|]. destruct ((c_idx c =? n)%nat || neg); [exact B|exact A]. Qed.

Lemma ig_error_shl s x' x r0' r0 rt' rt : x' == x + s -> r0' == r0 + s -> shl s rt' rt ->
  opt_qeq (ig_error x' r0' rt') (ig_error x r0 rt).
Proof. intros Hx H0 H. rewrite !ig_error_eq. cbv zeta.
  pose proof (nearest_shl s x' x r0' r0 rt' rt Hx H0 H) as Hc.
  set (c' := nearest x' r0' rt') in *. set (c := nearest x r0 rt) in *.
  assert (Hv : c_val c' == c_val c + s) by (destruct Hc as (_ & _ & _ & Hv & _); exact Hv).
  rewrite (F2_length _ _ _ H).
  assert (Ee : x' - c_val c' == x - c_val c) by lra.
  assert (Eb : qltb (x' - c_val c') 0 = qltb (x - c_val c) 0) by now rewrite Ee.
  rewrite Eb.
  pose proof (ig_interval_shl s c' c (length rt) (qltb (x - c_val c) 0) Hc) as Ei.
  assert (Eq : qeqb (ig_interval c' (length rt) (qltb (x - c_val c) 0)) 0 = qeqb (ig_interval c (length rt) (qltb (x - c_val c) 0)) 0)
    by now rewrite Ei.
  rewrite Eq. destruct (qeqb (ig_interval c (length rt) (qltb (x - c_val c) 0)) 0); simpl; auto.
  rewrite Ee, Ei. reflexivity. Qed.

Lemma ig_wrap_comp e' e : e' == e -> ig_wrap e' == ig_wrap e.
Proof. intros H. unfold ig_wrap.
  assert (E : Qfloor (- e' - (1#2)) = Qfloor (- e - (1#2))) by (apply Qfloor_comp; rewrite H; reflexivity).
  rewrite E, H. reflexivity. Qed.
Lemma ig_bin_comp bins x' x : x' == x -> ig_bin bins x' = ig_bin bins x.
Proof. intros H. unfold ig_bin.
  assert (E : Qfloor ((x' + (1#2)) * qnat bins) = Qfloor ((x + (1#2)) * qnat bins)) by (apply Qfloor_comp; rewrite H; reflexivity).
  now rewrite E. Qed.

Lemma ig_counts_eq bins errs' errs : Forall2 opt_qeq errs' errs -> ig_counts bins errs' = ig_counts bins errs.
Proof. intros H. unfold ig_counts. f_equal.
  assert (E : flat_map (fun o => match o with Some e => [ig_bin bins (ig_wrap e)] | None => [] end) errs'
            = flat_map (fun o => match o with Some e => [ig_bin bins (ig_wrap e)] | None => [] end) errs).
  { induction H as [|a b l' l Hab H IH]; simpl; auto. rewrite IH. f_equal.
    destruct a, b; simpl in Hab; try contradiction; auto. f_equal. now apply ig_bin_comp, ig_wrap_comp. }
  now rewrite E. Qed.

Lemma entropy_counts_shl s ref' ref est' est bins : shl s ref' ref -> shl s est' est ->
  entropy_counts ref' est' bins = entropy_counts ref est bins.
Proof. intros Hr He. unfold entropy_counts.
  destruct Hr as [|r0' r0 ? ? H0 Hr]; auto. destruct Hr as [|r1' r1 rt' rt H1 Hr]; auto.
  f_equal. apply ig_counts_eq.
  induction He as [|a b l' l Hab H IH]; simpl; constructor; auto.
  apply (ig_error_shl s); auto. Qed.

(* C08 (skeleton): the two beat-error histograms do not change when the same offset is added to all beats *)
Theorem infogain_counts_shift s ref est bins :
  validate ref est = Ok tt -> validate (shift s ref) (shift s est) = Ok tt ->
  information_gain_counts (shift s ref) (shift s est) bins = information_gain_counts ref est bins.
Proof. intros V V'. unfold information_gain_counts. rewrite V, V'. cbn [bind].
  unfold shift at 1 2. rewrite !map_length.
  destruct ((length est <=? 1)%nat || (length ref <=? 1)%nat); auto.
  rewrite (entropy_counts_shl s _ _ _ _ bins (shl_shift s ref) (shl_shift s est)).
  rewrite (entropy_counts_shl s _ _ _ _ bins (shl_shift s est) (shl_shift s ref)). reflexivity. Qed.

(* ------------------------------------------------------------------------------------------ *)
(* a perfect estimate                                                                          *)
(* ------------------------------------------------------------------------------------------ *)
Lemma ig_error_self p x t r0 rt : r0 :: rt = p ++ x :: t -> StronglySorted Qlt (r0 :: rt) -> (2 <= length (r0 :: rt))%nat ->
  exists e, ig_error x r0 rt = Some e /\ e == 0.
Proof. intros E Hs Hl. assert (Hs' := Hs). rewrite E in Hs'. apply SS_app_inv in Hs'. destruct Hs' as (_ & Hs2 & Hs3).
  assert (Hne : Forall (fun v => ~ v == x) p).
  { apply Forall_forall. intros v Hv. assert (v < x) by (apply Hs3; simpl; auto). lra. }
  rewrite ig_error_eq. cbv zeta. rewrite (nearest_at p x t r0 rt E Hne). unfold ig_interval. cbn [c_idx c_val c_prev c_next].
  assert (Ex : qltb (x - x) 0 = false) by (apply qltb_false; lra). rewrite Ex, orb_false_r.
  assert (Len : length rt = (length p + length t)%nat).
  { apply (f_equal (@length Q)) in E. rewrite app_length in E. simpl in E. lia. }
  assert (Next : forall y t', t = y :: t' -> exists e, (if qeqb ((1#2) * (y - x)) 0 then None else Some ((1#2) * (x - x) / ((1#2) * (y - x)))) = Some e /\ e == 0).
  { intros y t' ->. inversion Hs2 as [|? ? _ Hf]; subst. inversion Hf as [|? ? Hy _]; subst.
    assert (N : qeqb ((1#2) * (y - x)) 0 = false) by (apply qeqb_false; lra). rewrite N.
    eexists. split; [reflexivity|]. field. lra. }
  destruct (length p =? 0)%nat eqn:E0.
  - (* the first annotation: the next one exists (two annotations at least) and is larger *)
    apply Nat.eqb_eq in E0. destruct t as [|y t]; [simpl in *; lia|]. cbn [hd_error]. eapply Next; reflexivity.
  - destruct (length p =? length rt)%nat eqn:El.
    + (* the last annotation: the previous one exists and is smaller *)
      destruct p as [|a p]; [discriminate|].
      unfold olast. cbn [fold_left]. rewrite fold_some. set (ep := fold_left (fun _ v => v) p a).
      assert (Hin : In ep (a :: p)).
      { unfold ep. clear. revert a. induction p as [|b p IH]; intros a; simpl; auto. destruct (IH b); auto. }
      assert (Hlt : ep < x) by (apply Hs3; simpl; auto).
      assert (N : qeqb ((1#2) * (x - ep)) 0 = false) by (apply qeqb_false; lra). rewrite N.
      eexists. split; [reflexivity|]. field. lra.
    + destruct t as [|y t]. { apply Nat.eqb_neq in El. simpl in Len. lia. }
      cbn [hd_error]. eapply Next; reflexivity. Qed.

Lemma Qfloor_unique x k : inject_Z k <= x -> x < inject_Z (k + 1) -> Qfloor x = k.
Proof. intros H1 H2. pose proof (Qfloor_le x) as F1. pose proof (Qlt_floor x) as F2.
  assert (A : inject_Z k < inject_Z (Qfloor x + 1)) by lra. assert (B : inject_Z (Qfloor x) < inject_Z (k + 1)) by lra.
  rewrite <- Zlt_Qlt in A, B. lia. Qed.
(* an error of 0 lands in bin floor(bins / 2) *)
Lemma ig_bin_zero bins e : (1 <= bins)%nat -> e == 0 -> ig_bin bins (ig_wrap e) = (bins / 2)%nat.
Proof. intros Hb He. rewrite (ig_bin_comp bins _ 0).
  2:{ rewrite (ig_wrap_comp e 0 He). vm_compute. reflexivity. }
  unfold ig_bin.
  assert (F : Qfloor ((0 + (1#2)) * qnat bins) = Z.of_nat (bins / 2)).
  { apply Qfloor_unique.
    - unfold qnat. assert (E : (0 + (1#2)) * inject_Z (Z.of_nat bins) == inject_Z (Z.of_nat bins) / 2) by field.
      rewrite E. apply Qle_shift_div_l; [lra|]. change 2 with (inject_Z 2). rewrite <- inject_Z_mult, <- Zle_Qle.
      pose proof (Nat.div_mod_eq bins 2). pose proof (Nat.mod_upper_bound bins 2). lia.
    - unfold qnat. assert (E : (0 + (1#2)) * inject_Z (Z.of_nat bins) == inject_Z (Z.of_nat bins) / 2) by field.
      rewrite E. apply Qlt_shift_div_r; [lra|]. change 2 with (inject_Z 2). rewrite <- inject_Z_mult, <- Zlt_Qlt.
      pose proof (Nat.div_mod_eq bins 2). pose proof (Nat.mod_upper_bound bins 2). lia. }
  rewrite F, Nat2Z.id. pose proof (Nat.div_mod_eq bins 2). pose proof (Nat.mod_upper_bound bins 2). lia. Qed.

(* the histogram with all n beats in bin k *)
Definition spike (bins k n : nat) : list nat := map (fun j => if (j =? k)%nat then n else 0%nat) (seq 0 bins).

Lemma entropy_counts_self ref bins : Sorted Qlt ref -> (2 <= length ref)%nat -> (1 <= bins)%nat ->
  entropy_counts ref ref bins = Ok (spike bins (bins / 2) (length ref)).
Proof. intros Hs Hl Hb. unfold entropy_counts. destruct ref as [|r0 [|r1 rt]]; simpl in Hl; try lia.
  f_equal. unfold ig_counts, spike.
  set (l := r0 :: r1 :: rt) in *.
  assert (E : forall t p, l = p ++ t ->
    flat_map (fun o => match o with Some e => [ig_bin bins (ig_wrap e)] | None => [] end) (map (fun x => ig_error x r0 (r1 :: rt)) t)
    = repeat (bins / 2)%nat (length t)).
  { induction t as [|x t IH]; intros p Hp; [reflexivity|]. cbn [map flat_map length repeat].
    destruct (ig_error_self p x t r0 (r1 :: rt) Hp (Sorted_Qlt_SS _ Hs)) as (e & -> & He); [simpl; lia|].
    rewrite (ig_bin_zero bins e Hb He). cbn [app]. f_equal. apply (IH (p ++ [x])). now rewrite <- app_assoc. }
  rewrite (E l [] eq_refl). apply map_ext. intros j.
  generalize (length l). intros n. induction n as [|n IH]; cbn [repeat filter].
  - now destruct (j =? bins / 2)%nat.
  - rewrite Nat.eqb_sym. destruct (bins / 2 =? j)%nat eqn:Ej; cbn [length]; rewrite IH; rewrite Nat.eqb_sym, Ej; reflexivity. Qed.

(* C02 (skeleton): for a perfect estimate both histograms put every beat into the bin containing 0, so the entropy
   is 0 and the information gain (log2 bins - 0) / log2 bins is 1 (for bins >= 2) *)
Theorem infogain_counts_self ref bins :
  Sorted Qlt ref -> (2 <= length ref)%nat -> Forall (fun t => t <= MAX_TIME) ref -> (1 <= bins)%nat ->
  information_gain_counts ref ref bins
  = Ok (Some (spike bins (bins / 2) (length ref), spike bins (bins / 2) (length ref))).
Proof. intros Hs Hl Hm Hb. unfold information_gain_counts.
  assert (V : validate ref ref = Ok tt).
  { apply validate_ok. split; apply validate_events_ok; auto using Sorted_lt_le. }
  rewrite V. cbn [bind]. destruct (length ref <=? 1)%nat eqn:E; [apply Nat.leb_le in E; lia|]. cbn [orb].
  rewrite (entropy_counts_self ref bins Hs Hl Hb). reflexivity. Qed.

Example infogain_counts_self_example :
  information_gain_counts [5; 6; 7; 8] [5; 6; 7; 8] 5 = Ok (Some ([0; 0; 4; 0; 0]%nat, [0; 0; 4; 0; 0]%nat)).
Proof. vm_compute. reflexivity. Qed.
(* an estimate 0.25 s before the first of the annotations 5, 6, 7, 8 is normalised by the first inter-annotation
   interval: error 0.5 * (-1/4) / (1/2) = -1/4 (before the fix of _get_entropy the code produced +1/12) *)
Example ig_error_before_first : match ig_error (475#100) 5 [6; 7; 8] with Some e => qeqb e (-1#4) | None => false end = true.
Proof. vm_compute. reflexivity. Qed.

Print Assumptions infogain_counts_shift.
Print Assumptions infogain_counts_self.

(* ------------------------------------------------------------------------------------------ *)
(* C04: the normalised beat error equals its published definition                              *)
(* ------------------------------------------------------------------------------------------ *)
(* what `nearest` returns: the first annotation at minimal distance, with its two neighbours *)
Definition near_inv (L : list Q) (x : Q) (k : nat) (c : cand) : Prop :=
  nth_error L (c_idx c) = Some (c_val c)
  /\ c_diff c = Qabs (x - c_val c)
  /\ c_prev c = match c_idx c with O => None | S j => nth_error L j end
  /\ c_next c = nth_error L (S (c_idx c))
  /\ (forall j v, (j < k)%nat -> nth_error L j = Some v -> c_diff c <= Qabs (x - v))
  /\ (forall j v, (j < c_idx c)%nat -> nth_error L j = Some v -> c_diff c < Qabs (x - v)).

Lemma skipn_cons_inv {A} (L : list A) i v t : skipn i L = v :: t -> nth_error L i = Some v /\ skipn (S i) L = t.
Proof. revert L. induction i as [|i IH]; intros L H.
  - destruct L; simpl in H; [discriminate|]. inversion H; subst. auto.
  - destruct L as [|a L]; [discriminate|]. simpl in H. apply IH in H. exact H. Qed.
Lemma skipn_hd {A} (L : list A) i : hd_error (skipn i L) = nth_error L i.
Proof. revert L. induction i as [|i IH]; intros [|a L]; simpl; auto. Qed.

Lemma nth_error_skipn' {A} (L : list A) i k : nth_error (skipn i L) k = nth_error L (i + k).
Proof. revert L. induction i as [|i IH]; intros [|a L]; simpl; auto. now destruct k. Qed.

Lemma scan_inv L x : forall l i prev best, skipn (S i) L = l -> nth_error L i = Some prev ->
  near_inv L x (S i) best -> near_inv L x (length L) (scan x (S i) prev l best).
Proof. induction l as [|v t IH]; intros i prev best Hs Hp Hb; cbn [scan].
  - destruct Hb as (B1 & B2 & B3 & B4 & B5 & B6). repeat split; auto.
    intros j w Hj Hw. destruct (lt_dec j (S i)) as [Hlt|Hge]; [apply (B5 j w); auto|].
    exfalso. assert (Hn : nth_error (skipn (S i) L) (j - S i) = Some w).
    { rewrite nth_error_skipn'. replace (S i + (j - S i))%nat with j by lia. exact Hw. }
    rewrite Hs in Hn. destruct (j - S i)%nat; discriminate.
  - destruct (skipn_cons_inv _ _ _ _ Hs) as [Hv Ht].
    apply IH; auto. destruct Hb as (B1 & B2 & B3 & B4 & B5 & B6).
    destruct (qltb (Qabs (x - v)) (c_diff best)) eqn:E.
    + apply qltb_true in E. unfold near_inv. cbn [c_idx c_diff c_prev c_val c_next].
      repeat split; auto.
      * rewrite <- Ht. apply skipn_hd.
      * intros j w Hj Hw. destruct (Nat.eq_dec j (S i)) as [->|Hne].
        -- rewrite Hv in Hw. inversion Hw; subst. lra.
        -- assert (c_diff best <= Qabs (x - w)) by (apply (B5 j w); [lia|exact Hw]). lra.
      * intros j w Hj Hw. assert (c_diff best <= Qabs (x - w)) by (apply (B5 j w); [lia|exact Hw]). lra.
    + apply qltb_false in E. repeat split; auto.
      intros j w Hj Hw. destruct (Nat.eq_dec j (S i)) as [->|Hne].
      * rewrite Hv in Hw. inversion Hw; subst. exact E.
      * apply (B5 j w); [lia|exact Hw]. Qed.

Lemma nearest_spec x r0 rt : near_inv (r0 :: rt) x (length (r0 :: rt)) (nearest x r0 rt).
Proof. unfold nearest. apply scan_inv; auto.
  unfold near_inv. cbn [c_idx c_diff c_prev c_val c_next nth_error]. repeat split; auto.
  - intros j v Hj Hv. assert (j = 0%nat) by lia. subst. simpl in Hv. inversion Hv; subst. lra.
  - intros j v Hj. lia. Qed.

(* half the inter-annotation interval on the side of the beat x next to the closest annotation r
   (a = the annotation before r, y = the one after it): first / last interval at the two ends *)
Definition side_interval (a : option Q) (r : Q) (y : option Q) (x : Q) : Q :=
  match a, y with
  | None, Some y => (1#2) * (y - r)
  | Some a, None => (1#2) * (r - a)
  | Some a, Some y => if qltb x r then (1#2) * (r - a) else (1#2) * (y - r)
  | None, None => 0
  end.

(* Davies et al.: the error of an estimated beat x is (x - r_c) relative to the inter-annotation interval on the side of
   the beat (the model's value is 0.5 * (x - r_c) / (half that interval)), r_c being the closest annotation (the first
   one at minimal distance); a zero interval gives no (finite) value. *)
Theorem ig_error_def x r0 rt : (1 <= length rt)%nat ->
  let L := r0 :: rt in
  let c := nearest x r0 rt in
  nth_error L (c_idx c) = Some (c_val c)
  /\ (forall v, In v L -> Qabs (x - c_val c) <= Qabs (x - v))
  /\ c_prev c = match c_idx c with O => None | S k => nth_error L k end
  /\ c_next c = nth_error L (S (c_idx c))
  /\ ig_error x r0 rt =
     (let iv := side_interval (c_prev c) (c_val c) (c_next c) x in
      if qeqb iv 0 then None else Some ((1#2) * (x - c_val c) / iv)).
Proof. intros Hl L c. destruct (nearest_spec x r0 rt) as (B1 & B2 & B3 & B4 & B5 & B6). fold c in B1, B2, B3, B4, B5, B6. fold L in B1, B3, B4, B5, B6.
  split; [exact B1|]. split.
  { intros v Hv. apply In_nth_error in Hv. destruct Hv as (j & Hj). rewrite <- B2. eapply B5; eauto.
    apply nth_error_Some. congruence. }
  split; [exact B3|]. split; [exact B4|].
  rewrite ig_error_eq. cbv zeta. fold c.
  assert (Hidx : (c_idx c < length L)%nat) by (apply nth_error_Some; congruence).
  assert (E : ig_interval c (length rt) (qltb (x - c_val c) 0) = side_interval (c_prev c) (c_val c) (c_next c) x).
  { unfold ig_interval, side_interval. rewrite B3, B4.
    assert (Eneg : qltb (x - c_val c) 0 = qltb x (c_val c)) by (apply qltb_ext; lra). rewrite Eneg.
    destruct (c_idx c) as [|k] eqn:Ek.
    - cbn [Nat.eqb]. destruct (nth_error L 1) as [y|] eqn:E1; [reflexivity|].
      apply nth_error_None in E1. unfold L in E1. simpl in E1. lia.
    - change (S k =? 0)%nat with false. cbv iota. assert (Hk : exists a, nth_error L k = Some a).
      { destruct (nth_error L k) eqn:E1; eauto. apply nth_error_None in E1. lia. }
      destruct Hk as (a & ->).
      destruct (nth_error L (S (S k))) as [y|] eqn:E2.
      + assert (S (S k) < length L)%nat by (apply nth_error_Some; congruence).
        assert (N : (S k =? length rt)%nat = false) by (apply Nat.eqb_neq; unfold L in *; simpl in *; lia).
        rewrite N. cbn [orb]. destruct (qltb x (c_val c)); reflexivity.
      + apply nth_error_None in E2.
        assert (N : (S k =? length rt)%nat = true) by (apply Nat.eqb_eq; unfold L in *; simpl in *; lia).
        rewrite N. reflexivity. }
  rewrite E. reflexivity. Qed.
Print Assumptions ig_error_def.
