(* Third group of wrapper ties, segment part (programs of Gen/WrapFuncs2.v over callee_sigs3, translator/wrapfuncs2.py):
     segment.pairwise / rand_index / ari      = Model.SegmentCluster.pairwise_full / rand_index_full / ari_full
     segment.mutual_information               : validate, empty return, the three core calls on the same index sequences, order
     segment.nce / vmeasure                   : the skeleton [nce_skel] (which quantity is divided by which, the guards
                                                z > 0, marginal or log2-of-shape normalisers, F of (over, under))
     segment._normalized_mutual_info_score    : the skeleton [nmi_skel] (limit-case guard, MI / max(sqrt(H H'), 1e-10))
   Callees: validate_structure, np.equal.outer, np.logical_and, ~, .sum(), _contingency_matrix, _adjusted_rand_index,
   util.f_measure are the model's own functions; util.intervals_to_samples and util.index_labels are ARBITRARY
   ([samples], [index_of]: Model.SegmentCluster takes the frame index sequences as given), and so are the entropic
   primitives (scipy.stats.entropy, np.log2, np.sqrt, _entropy, _mutual_info_score, _adjusted_mutual_info_score):
   the ties hold for every interpretation of them. *)
From Coq Require Import String.
From Coq Require Import List Bool Arith ZArith QArith Qround Lia Lqa.
From ME Require Import Model.Prelude Model.WrapExp.
From ME Require Model.Events Model.SegmentCluster Proofs.SegmentClusterProps.
From ME Require Import Gen.WrapFuncs2 Proofs.WrapFuncsTie Proofs.WrapFuncs2Tie.
Import ListNotations.
Open Scope Q_scope.
Module SC := ME.Model.SegmentCluster.
Module SP := ME.Proofs.SegmentClusterProps.

(* ---------- NumPy-scalar arithmetic of Model/WrapExp.v = the one of Model/SegmentCluster.v ---------- *)
Lemma x_div_is a b : x_div a b = SC.xdivx a b. Proof. destruct a, b; reflexivity. Qed.
Lemma x_mul_is a b : x_mul a b = SC.xmul a b. Proof. destruct a, b; reflexivity. Qed.
Lemma x_add_is a b : x_add a b = SC.xadd a b. Proof. destruct a, b; reflexivity. Qed.

(* congruence of the value arithmetic for == on finite values *)
Lemma xeq_is a b : xeq a b <-> SP.xeq a b. Proof. destruct a, b; cbn; tauto. Qed.
Lemma xis_zero_compat a a' : xeq a a' -> SC.xis_zero a = SC.xis_zero a'.
Proof. destruct a, a'; cbn; try contradiction; try reflexivity. intros H. apply SP.qeqb_compat; [exact H|reflexivity]. Qed.
Lemma xmul_compat a a' b b' : xeq a a' -> xeq b b' -> xeq (SC.xmul a b) (SC.xmul a' b').
Proof.
  destruct a, a'; cbn [xeq]; try contradiction; destruct b, b'; cbn [xeq]; try contradiction; intros Ha Hb; cbn [SC.xmul xeq]; try exact I;
    try (rewrite Ha, Hb; reflexivity);
    first [ rewrite (SP.qeqb_compat _ _ 0 0 Ha (Qeq_refl 0)), (SP.qltb_compat 0 0 _ _ (Qeq_refl 0) Ha)
          | rewrite (SP.qeqb_compat _ _ 0 0 Hb (Qeq_refl 0)), (SP.qltb_compat 0 0 _ _ (Qeq_refl 0) Hb) ];
    match goal with |- context [qeqb ?x 0] => destruct (qeqb x 0); [exact I|destruct (qltb 0 x); exact I] end.
Qed.
Lemma xadd_compat a a' b b' : xeq a a' -> xeq b b' -> xeq (SC.xadd a b) (SC.xadd a' b').
Proof.
  destruct a, a'; cbn [xeq]; try contradiction; destruct b, b'; cbn [xeq]; try contradiction; intros Ha Hb; cbn [SC.xadd xeq]; try exact I.
  rewrite Ha, Hb. reflexivity.
Qed.
Lemma xdivx_compat a a' b b' : xeq a a' -> xeq b b' -> xeq (SC.xdivx a b) (SC.xdivx a' b').
Proof.
  destruct a, a'; cbn [xeq]; try contradiction; destruct b, b'; cbn [xeq]; try contradiction; intros Ha Hb; cbn [SC.xdivx xeq]; try exact I;
    try reflexivity.
  - apply xeq_is. apply SP.xdiv_compat; assumption.
  - rewrite (SP.qltb_compat _ _ 0 0 Hb (Qeq_refl 0)). destruct (qltb _ 0); exact I.
  - rewrite (SP.qltb_compat _ _ 0 0 Hb (Qeq_refl 0)). destruct (qltb _ 0); exact I.
Qed.
Lemma xf_measure_compat p p' r r' beta : xeq p p' -> xeq r r' -> xeq (SC.xf_measure p r beta) (SC.xf_measure p' r' beta).
Proof.
  intros Hp Hr. unfold SC.xf_measure. rewrite (xis_zero_compat p p' Hp), (xis_zero_compat r r' Hr).
  destruct (SC.xis_zero p' && SC.xis_zero r'); [reflexivity|].
  apply xdivx_compat; [apply xmul_compat; [apply xmul_compat; [apply xeq_refl|exact Hp]|exact Hr]
                      |apply xadd_compat; [apply xmul_compat; [apply xeq_refl|exact Hp]|exact Hr]].
Qed.

Lemma size0 (l : list (Q * Q)) : (2 * Z.of_nat (length l) =? 0)%Z = SC.is_empty l.
Proof. destruct l; reflexivity. Qed.
Lemma len0 (l : list (Q * Q)) : (Z.of_nat (length l) =? 0)%Z = SC.is_empty l.
Proof. destruct l; reflexivity. Qed.
Lemma xdiv_two x : xdiv x (2#1) = Fin (x / (2#1)). Proof. reflexivity. Qed.
Lemma half_prog s n : (SC.nQ s - inject_Z (Z.of_nat n)) / (2#1) == SC.half_excess s n.
Proof. unfold SC.half_excess, SC.nQ, Z.sub. rewrite inject_Z_plus, inject_Z_opp. reflexivity. Qed.

Lemma zn_eqb a b : (Z.of_nat a =? Z.of_nat b)%Z = Nat.eqb a b.
Proof. destruct (Nat.eqb a b) eqn:E; [apply Nat.eqb_eq in E; subst; apply Z.eqb_refl|]. apply Nat.eqb_neq in E. apply Z.eqb_neq. lia. Qed.
Lemma zn_eqb1 a : (Z.of_nat a =? 1)%Z = Nat.eqb a 1. Proof. exact (zn_eqb a 1). Qed.
Lemma zn_eqb0 a : (Z.of_nat a =? 0)%Z = Nat.eqb a 0. Proof. exact (zn_eqb a 0). Qed.
Lemma xsubx_fin a b : xsubx (Fin a) (Fin b) = Fin (a - b). Proof. reflexivity. Qed.
Lemma item_last2 a b : w_item (WTup [a; b]) (-1) = ret b. Proof. reflexivity. Qed.
Lemma item_first2 a b : w_item (WTup [a; b]) 0 = ret a. Proof. reflexivity. Qed.
Lemma item_second2 a b : w_item (WTup [a; b]) 1 = ret b. Proof. reflexivity. Qed.
Lemma item_first1 a : w_item (WTup [a]) 0 = ret a. Proof. reflexivity. Qed.
Local Notation hp s n := ((SC.nQ s - inject_Z (Z.of_nat n)) / (2#1)).
Lemma pairwise_leaf m nr ne ar ae beta :
  Forall2 weq
    [WX (xdiv (hp m nr) (hp ae ne)); WX (xdiv (hp m nr) (hp ar nr)); WX (SC.xf_measure (xdiv (hp m nr) (hp ae ne)) (xdiv (hp m nr) (hp ar nr)) beta)]
    [WX (xdiv (SC.half_excess m nr) (SC.half_excess ae ne)); WX (xdiv (SC.half_excess m nr) (SC.half_excess ar nr));
     WX (SC.xf_measure (xdiv (SC.half_excess m nr) (SC.half_excess ae ne)) (xdiv (SC.half_excess m nr) (SC.half_excess ar nr)) beta)].
Proof.
  assert (P : xeq (xdiv (hp m nr) (hp ae ne)) (xdiv (SC.half_excess m nr) (SC.half_excess ae ne)))
    by (apply xeq_is, SP.xdiv_compat; apply half_prog).
  assert (R : xeq (xdiv (hp m nr) (hp ar nr)) (xdiv (SC.half_excess m nr) (SC.half_excess ar nr)))
    by (apply xeq_is, SP.xdiv_compat; apply half_prog).
  repeat (apply Forall2_cons; [cbv [weq v_x]; first [exact P | exact R | apply xf_measure_compat; [exact P|exact R]]|]); apply Forall2_nil.
Qed.
Definition colsumsQ (m : list (list Q)) : list Q :=
  match m with [] => [] | r0 :: _ => map (fun j => qsum (map (fun r => nth j r 0) m)) (seq 0 (length r0)) end.
Definition transposeQ (m : list (list Q)) : list (list Q) :=
  match m with [] => [] | r0 :: _ => map (fun j => map (fun r => nth j r 0) m) (seq 0 (length r0)) end.
Definition ncols (m : list (list Q)) : nat := match m with [] => O | r0 :: _ => length r0 end.
Definition dotQ (a b : list Q) : Q := qsum (map (fun p => fst p * snd p) (combine a b)).

(* one step of run_tree at a time (the rest of the program stays folded as data) *)
Lemma rt_call args ext f es t r : run_tree args ext (TCall f es t) r =
  match ev_list args r es with
  | Some (vs, cs) => chk cs (wbind (ext f vs) (fun v => run_tree args ext t (r ++ [v])))
  | None => WUNM end.
Proof. reflexivity. Qed.
Lemma rt_if args ext c a b r : run_tree args ext (TIf c a b) r =
  match ev args r c with
  | Some (v, cs) => match w_truth v with
                    | Some t => chk cs (if t then run_tree args ext a r else run_tree args ext b r)
                    | None => WUNM end
  | None => WUNM end.
Proof. reflexivity. Qed.
Lemma rt_seq args ext e t r : run_tree args ext (TSeq e t) r =
  match ev args r e with Some (_, cs) => chk cs (run_tree args ext t r) | None => WUNM end.
Proof. reflexivity. Qed.
Lemma rt_ret args ext es r : run_tree args ext (TRet es) r =
  match ev_list args r es with Some (vs, cs) => chk cs (WOK vs) | None => WUNM end.
Proof. reflexivity. Qed.
Lemma rt_raise args ext e r : run_tree args ext (TRaise e) r = WEXN e.
Proof. reflexivity. Qed.

Section Segment.
(* util.intervals_to_samples(intervals, labels, offset=0, sample_size=fs, fill_value=None) -> (times, labels) and
   util.index_labels(labels, case_sensitive=False) -> (indices, index_to_label): arbitrary *)
Variable samples : list (Q * Q) -> list str -> Q -> wout (wval * wval).
Variable index_of : wval -> wout (list nat * wval).
(* the entropic cores and primitives: arbitrary *)
Variables mi_core ami_core nmi_core : list nat -> list nat -> wout wval.
Variable nce_fn : list wval -> wout wval.
Variable ent_cols : list (list Q) -> list Q.          (* scipy.stats.entropy(matrix, base=2): one entropy per column *)
Variable ent_vec : list Q -> xval.                    (* scipy.stats.entropy(vector, base=2) *)
Variable log2_c : Z -> xval.                          (* np.log2 of an int *)
Variable mi_tab : list nat -> list nat -> list (list Q) -> xval.   (* _mutual_info_score(..., contingency=table) *)
Variable entropy_c : list nat -> xval.                (* _entropy *)
Variable sqrt_c : xval -> xval.                       (* np.sqrt *)

Definition seg_ext (f : extfn) (vs : list wval) : wout wval :=
  match f, vs with
  | X_seg_validate_structure, [WIvs ri; WStrs rl; WIvs ei; WStrs el] => lift_u (SC.validate_structure ri (length rl) ei (length el))
  | X_util_intervals_to_samples, [WIvs iv; WStrs l; WZ 0%Z; WQ size; WNone] => wbind (samples iv l size) (fun p => WOK (WTup [fst p; snd p]))
  | X_util_index_labels, [v; WB false] => wbind (index_of v) (fun p => WOK (WTup [WNs (fst p); snd p]))
  | X_np_equal_outer, [WNs a; WNs b] => WOK (WBss (map (fun x => map (fun y => Nat.eqb x y) b) a))
  | X_np_logical_and, [WBss a; WBss b] => match SC.logical_and a b with Ok m => WOK (WBss m) | Raise e => WEXN e end
  | X_nd_invert, [WBss a] => WOK (WBss (SC.bnot a))
  | X_nd_sum, [WBss m; WNone] => WOK (WX (Fin (SC.nQ (SC.msum m))))                 (* an np.int64 *)
  | X_nd_sum, [WMat m; WZ 0%Z] => WOK (WQs (colsumsQ m))
  | X_nd_sum, [WMat m; WZ 1%Z] => WOK (WQs (map qsum m))
  | X_util_f_measure, [p; r; WQ b] =>
      match np_x p, np_x r with Some x, Some y => WOK (WX (SC.xf_measure x y b)) | _, _ => WUNM end
  | X_seg_ari_core, [WNs a; WNs b] => lift_q (SC.ari_idx a b)
  | X_seg_mi_core, [WNs a; WNs b; WNone] => mi_core a b
  | X_seg_mi_core, [WNs a; WNs b; WMat c] => WOK (WX (mi_tab a b c))
  | X_seg_ami_core, [WNs a; WNs b] => ami_core a b
  | X_seg_nmi_core, [WNs a; WNs b] => nmi_core a b
  | X_seg_nce, args => nce_fn args
  | X_seg_contingency, [WNs a; WNs b] => match SC.contingency a b with Ok m => WOK (WNss m) | Raise e => WEXN e end
  | X_nd_astype_float, [WNss m] => WOK (WMat (map (map SC.nQ) m))
  | X_np_array_float, [WMat m] => WOK (WMat m)
  | X_nd_T, [WMat m] => WOK (WMat (transposeQ m))
  | X_nd_shape, [WMat m] => WOK (WTup [WZ (Z.of_nat (length m)); WZ (Z.of_nat (ncols m))])
  | X_nd_shape, [WNs l] => WOK (WTup [WZ (Z.of_nat (length l))])
  | X_sp_entropy, [WMat m; WNone; WZ 2%Z; WZ 0%Z] => WOK (WQs (ent_cols m))
  | X_sp_entropy, [WQs p; WNone; WZ 2%Z; WZ 0%Z] => WOK (WX (ent_vec p))
  | X_nd_dot, [WQs a; WQs b] => WOK (WX (Fin (dotQ a b)))
  | X_np_log2, [WZ n] => WOK (WX (log2_c n))
  | X_np_unique, [WNs y] => WOK (WNs (SC.uniq y))
  | X_seg_entropy, [WNs y] => WOK (WX (entropy_c y))
  | X_np_sqrt, [WX x] => WOK (WX (sqrt_c x))
  | _, _ => WUNM
  end.

(* the frame index sequence of an annotation: util.index_labels(util.intervals_to_samples(iv, labs, sample_size=fs)[-1])[0] *)
Definition frames (iv : list (Q * Q)) (labs : list str) (fs : Q) : wout (list nat) :=
  wbind (samples iv labs fs) (fun p => wbind (index_of (snd p)) (fun q => WOK (fst q))).
(* the common prefix of the structure metrics *)
Definition seg_prefix {A} (ri : list (Q * Q)) (rl : list str) (ei : list (Q * Q)) (el : list str) (fs : Q)
    (empty : wout A) (k : list nat -> list nat -> wout A) : wout A :=
  match SC.validate_structure ri (length rl) ei (length el) with
  | Raise e => WEXN e
  | Ok _ => if SC.is_empty ri || SC.is_empty ei then empty
            else wbind (frames ri rl fs) (fun yr => wbind (frames ei el fs) (fun ye => k yr ye))
  end.
Definition lift_x3 (r : res (xval * xval * xval)) : wout (list wval) :=
  match r with Ok (p, r, f) => WOK [WX p; WX r; WX f] | Raise e => WEXN e end.
Definition lift_x1r (r : res xval) : wout (list wval) := match r with Ok x => WOK [WX x] | Raise e => WEXN e end.
Definition lift_q1 (r : res Q) : wout (list wval) := match r with Ok x => WOK [WQ x] | Raise e => WEXN e end.

Ltac ev5_cbv :=
  cbv [ev ev_list chk wbind ebind ebind2 pure_only ret nth_error app
       w_len w_size w_float w_div w_cmp w_trim w_truth as_q to_oq of_oq lift_u lift_m lift_q
       w_is_none w_int w_add w_mul w_max w_sub np_x as_x bind fst snd orb andb negb].
Ltac start5 g :=
  unfold wrun;
  (let t := eval vm_compute in (wp_tree callee_sigs3 g) in change (wp_tree callee_sigs3 g) with t);
  ev5_cbv.
Ltac atom3 c :=
  lazymatch c with
  | match ?a with _ => _ end => atom3 a
  | _ => c
  end.
Ltac split3 :=
  match goal with
  | |- context [match ?c with _ => _ end] =>
      let a := atom3 c in
      lazymatch a with
      | context [seg_ext] => fail
      | context [run_tree] => fail
      | context [w_item] => fail
      | _ => destruct a
      end
  end.
Ltac simp3 := cbv beta iota.
Ltac done3 := cbn [wout_same wout_eq]; first [reflexivity | exact I | idtac].
Ltac leaf3 := repeat (apply Forall2_cons; [first [apply weq_refl | cbv [weq v_x xeq]; reflexivity]|]); apply Forall2_nil.
Ltac zeros3 := repeat (apply Forall2_cons; [cbv [weq v_x xeq]; reflexivity|]); apply Forall2_nil.
Ltac ext_step :=
  repeat match goal with
         | |- context [seg_ext ?f ?vs] => let r := eval cbv [seg_ext] in (seg_ext f vs) in change (seg_ext f vs) with r
         end.
(* what a split has decided is remembered (the program may evaluate the same term again later) *)
Ltac known3 := repeat match goal with H : ?f ?x = _ |- context [?f ?x] => rewrite H end.
(* the normalised contingency table is named once and folded wherever the program recomputes it *)
Ltac fold3 :=
  repeat match goal with c := ?body |- context [?body] => progress change body with c end;
  try match goal with
      | |- context [map (map (fun x : Q => x / ?n)) ?m] => let c := fresh "ctab" in set (c := map (map (fun x : Q => x / n)) m)
      end.
Ltac post3 := known3; rewrite ?item_last2, ?item_first2, ?item_second2, ?item_first1, ?len0, ?size0, ?xsubx_fin, ?zn_eqb, ?zn_eqb1, ?zn_eqb0; ev5_cbv;
              known3; cbv beta iota; ext_step; ev5_cbv; known3;
              change (qeqb (2#1) 0) with false; change (inject_Z 0) with 0; cbv beta iota; fold3.
Ltac rt_step := first [rewrite rt_call | rewrite rt_if | rewrite rt_seq | rewrite rt_ret | rewrite rt_raise]; ev5_cbv; post3.
Ltac split_prog :=
  lazymatch goal with
  | |- wout_same ?P _ =>
      match P with
      | context [match ?c with _ => _ end] =>
          let a := atom3 c in
          lazymatch a with
          | context [seg_ext] => fail
          | context [run_tree] => fail
          | context [w_item] => fail
          | _ => destruct a eqn:?
          end
      end
  end.
(* run the program as far as it goes, split on what blocks it (the same term occurs in the hand-written side), and at the
   end split what is left on the hand-written side *)
Ltac run3 := repeat first [rt_step | split_prog; simp3; post3]; repeat (split3; simp3); done3.
Theorem segment_pairwise_tie : forall ri rl ei el fs beta,
  wout_same (wrun callee_sigs3 gen_segment_pairwise seg_ext [WIvs ri; WStrs rl; WIvs ei; WStrs el; WQ fs; WQ beta])
            (seg_prefix ri rl ei el fs (WOK [WX (Fin 0); WX (Fin 0); WX (Fin 0)])
                        (fun yr ye => lift_x3 (SC.pairwise_idx yr ye beta))).
Proof.
  intros. unfold seg_prefix, frames, lift_x3, SC.pairwise_idx, SC.agree. start5 gen_segment_pairwise.
  run3; try reflexivity; try exact I; try zeros3.
  cbv [x_div]. rewrite !xdiv_two. cbv beta iota.
  apply pairwise_leaf.
Qed.

(* ---------- segment.rand_index ---------- *)
Lemma rand_leaf mp mn n np :
  Forall2 weq [WX (xdiv (hp mp n + SC.nQ mn / (2#1)) np)] [WX (xdiv (SC.half_excess mp n + SC.nQ mn / 2) np)].
Proof.
  apply Forall2_cons; [|apply Forall2_nil]. cbv [weq v_x]. apply xeq_is, SP.xdiv_compat; [|reflexivity].
  rewrite (half_prog mp n). reflexivity.
Qed.
Theorem segment_rand_index_tie : forall ri rl ei el fs beta,
  wout_same (wrun callee_sigs3 gen_segment_rand_index seg_ext [WIvs ri; WStrs rl; WIvs ei; WStrs el; WQ fs; WQ beta])
            (seg_prefix ri rl ei el fs (WOK [WX (Fin 0)]) (fun yr ye => lift_x1r (SC.rand_idx yr ye))).
Proof.
  intros. unfold seg_prefix, frames, lift_x1r, SC.rand_idx, SC.agree. start5 gen_segment_rand_index.
  run3; try reflexivity; try exact I; try zeros3.
  cbv [x_div x_add]. rewrite !xdiv_two. cbv beta iota. apply rand_leaf.
Qed.

(* ---------- segment.ari ---------- *)
Theorem segment_ari_tie : forall ri rl ei el fs,
  wout_same (wrun callee_sigs3 gen_segment_ari seg_ext [WIvs ri; WStrs rl; WIvs ei; WStrs el; WQ fs])
            (seg_prefix ri rl ei el fs (WOK [WQ 0]) (fun yr ye => lift_q1 (SC.ari_idx yr ye))).
Proof.
  intros. unfold seg_prefix, frames, lift_q1. start5 gen_segment_ari.
  run3; try reflexivity; try exact I; try zeros3.
Qed.

(* ---------- segment.mutual_information: MI, AMI, NMI of the same two index sequences, in this order ---------- *)
Theorem segment_mutual_information_tie : forall ri rl ei el fs,
  wout_same (wrun callee_sigs3 gen_segment_mutual_information seg_ext [WIvs ri; WStrs rl; WIvs ei; WStrs el; WQ fs])
            (seg_prefix ri rl ei el fs (WOK [WQ 0; WQ 0; WQ 0])
               (fun yr ye => wbind (mi_core yr ye) (fun a => wbind (ami_core yr ye) (fun b => wbind (nmi_core yr ye) (fun c => WOK [a; b; c]))))).
Proof.
  intros. unfold seg_prefix, frames. start5 gen_segment_mutual_information.
  run3; try reflexivity; try exact I; try zeros3; repeat (apply Forall2_cons; [apply weq_refl|]); apply Forall2_nil.
Qed.

(* ---------- segment.vmeasure = nce(..., frame_size=frame_size, beta=beta, marginal=True), for arbitrary arguments ---------- *)
Theorem segment_vmeasure_tie : forall ri rl ei el fs beta : wval,
  wout_same (wrun callee_sigs3 gen_segment_vmeasure seg_ext [ri; rl; ei; el; fs; beta])
            (wbind (nce_fn [ri; rl; ei; el; fs; beta; WB true]) (fun v => WOK [v])).
Proof.
  intros. start5 gen_segment_vmeasure. run3.
  apply Forall2_cons; [apply weq_refl|apply Forall2_nil].
Qed.

(* ---------- segment.nce ---------- *)
(* 1 - num / z when z > 0, else 0 (comparisons and arithmetic on np.float64) *)
Definition guarded (num z : xval) : xval := if x_ltb (Fin 0) z then xsubx (Fin 1) (x_div num z) else Fin 0.
(* the skeleton: contingency table / number of frames; marginals; conditional entropies = marginal . column entropies (of the
   table for "true given est", of its transpose for "pred given ref"); normalisers = entropies of the marginals (marginal=True) or
   log2 of the table's shape; under = guarded(true_given_est, z_ref), over = guarded(pred_given_ref, z_est); F of (over, under) *)
Definition nce_skel (yr ye : list nat) (beta : Q) (marginal : bool) : wout (list wval) :=
  match SC.contingency yr ye with
  | Raise e => WEXN e
  | Ok tab =>
      let n := inject_Z (Z.of_nat (length yr)) in
      if qeqb n 0 then WUNM
      else
        let c := map (map (fun x => x / n)) (map (map SC.nQ) tab) in
        let p_est := colsumsQ c in
        let p_ref := map qsum c in
        let true_given_est := Fin (dotQ p_est (ent_cols c)) in
        let pred_given_ref := Fin (dotQ p_ref (ent_cols (transposeQ c))) in
        let z_ref := if marginal then ent_vec p_ref else log2_c (Z.of_nat (length c)) in
        let z_est := if marginal then ent_vec p_est else log2_c (Z.of_nat (ncols c)) in
        let under := guarded true_given_est z_ref in
        let over := guarded pred_given_ref z_est in
        WOK [WX over; WX under; WX (SC.xf_measure over under beta)]
  end.
Theorem segment_nce_tie : forall ri rl ei el fs beta marginal,
  wout_same (wrun callee_sigs3 gen_segment_nce seg_ext [WIvs ri; WStrs rl; WIvs ei; WStrs el; WQ fs; WQ beta; WB marginal])
            (seg_prefix ri rl ei el fs (WOK [WX (Fin 0); WX (Fin 0); WX (Fin 0)]) (fun yr ye => nce_skel yr ye beta marginal)).
Proof.
  intros. unfold seg_prefix, frames, nce_skel, guarded. start5 gen_segment_nce.
  run3; leaf3.
Qed.

(* ---------- segment._normalized_mutual_info_score ---------- *)
(* the limit-case guard (both labellings have one class, or both none) returns 1.0; otherwise
   MI(table) / max(sqrt(H(ref) * H(est)), 1e-10) *)
Definition nmi_skel (yr ye : list nat) : wout (list wval) :=
  if SC.mi_special yr ye then WOK [WQ 1]
  else match SC.contingency yr ye with
       | Raise e => WEXN e
       | Ok tab =>
           let h := sqrt_c (x_mul (entropy_c yr) (entropy_c ye)) in
           WOK [WX (x_div (mi_tab yr ye (map (map SC.nQ) tab))
                          (if x_ltb h (Fin (1#10000000000)) then Fin (1#10000000000) else h))]
       end.
Theorem segment_nmi_core_tie : forall yr ye,
  wout_same (wrun callee_sigs3 gen_segment_nmi_core seg_ext [WNs yr; WNs ye]) (nmi_skel yr ye).
Proof.
  intros. unfold nmi_skel, SC.mi_special. start5 gen_segment_nmi_core.
  run3; leaf3.
Qed.
End Segment.

Print Assumptions segment_pairwise_tie.
Print Assumptions segment_rand_index_tie.
Print Assumptions segment_ari_tie.
Print Assumptions segment_mutual_information_tie.
Print Assumptions segment_vmeasure_tie.
Print Assumptions segment_nce_tie.
Print Assumptions segment_nmi_core_tie.
