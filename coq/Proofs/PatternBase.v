(* Auxiliary lemmas for Proofs/PatternProps.v: maxima / means of lists of rationals (bounds, permutation and pointwise
   invariance), set intersection of occurrences (cardinality symmetric, bounded by both lengths, invariant under a common
   onset shift), the cardinality score. *)
From Coq Require Import List Bool Arith ZArith QArith Qabs Qminmax Qreduction Lia Lqa Permutation.
From ME Require Import Model.Prelude Model.Events Proofs.EventsSpec Model.Pattern.
Import ListNotations.
Open Scope Q_scope.

(* ------------------------------------------------------------------------------------------ *)
(* qnat, division                                                                              *)
(* ------------------------------------------------------------------------------------------ *)
Lemma qnat_pos n : (0 < n)%nat -> 0 < qnat n.
Proof. intros H. unfold qnat. change 0 with (inject_Z 0). rewrite <- Zlt_Qlt. lia. Qed.
Lemma qnat_nonneg n : 0 <= qnat n.
Proof. unfold qnat. change 0 with (inject_Z 0). rewrite <- Zle_Qle. lia. Qed.
Lemma qnat_le n m : (n <= m)%nat -> qnat n <= qnat m.
Proof. intros H. unfold qnat. rewrite <- Zle_Qle. lia. Qed.
Lemma qnat_S n : qnat (S n) == qnat n + 1.
Proof. unfold qnat. rewrite Nat2Z.inj_succ, <- Z.add_1_r, inject_Z_plus. reflexivity. Qed.
Lemma qnat_0 : qnat 0 == 0.
Proof. reflexivity. Qed.

Lemma Qdiv_nonneg a b : 0 <= a -> 0 <= b -> 0 <= a / b.
Proof. intros Ha Hb. unfold Qdiv. apply Qmult_le_0_compat; [exact Ha|]. now apply Qinv_le_0_compat. Qed.
Lemma Qdiv_le_1 a b : 0 <= a -> a <= b -> a / b <= 1.
Proof. intros Ha Hab. destruct (Qlt_le_dec 0 b) as [Hb|Hb].
  - apply Qle_shift_div_r; [exact Hb|]. lra.
  - assert (E : b == 0) by lra. rewrite E. unfold Qdiv. cbn. lra. Qed.
Lemma Qdiv_same a : 0 < a -> a / a == 1.
Proof. intros H. field. lra. Qed.
Lemma ratio_01 (n m : nat) : (n <= m)%nat -> 0 <= qnat n / qnat m <= 1.
Proof. intros H. split; [apply Qdiv_nonneg; apply qnat_nonneg|apply Qdiv_le_1; [apply qnat_nonneg|now apply qnat_le]]. Qed.

(* ------------------------------------------------------------------------------------------ *)
(* qmaxl                                                                                       *)
(* ------------------------------------------------------------------------------------------ *)
Lemma qmaxl_from_spec x t : x <= qmaxl_from x t /\ (forall y, In y t -> y <= qmaxl_from x t)
  /\ (exists z, In z (x :: t) /\ qmaxl_from x t == z).
Proof. revert x. induction t as [|y t IH]; intros x; cbn [qmaxl_from].
  - split; [lra|]. split; [intros y []|]. exists x. split; [now left|reflexivity].
  - destruct (IH y) as (I1 & I2 & (z & Hz & Ez)).
    pose proof (Q.le_max_l x (qmaxl_from y t)). pose proof (Q.le_max_r x (qmaxl_from y t)).
    split; [lra|]. split.
    + intros w [<-|Hw]; [lra|]. specialize (I2 w Hw). lra.
    + destruct (Q.max_spec x (qmaxl_from y t)) as [[Hlt E]|[Hle E]].
      * exists z. split; [now right|]. now rewrite E.
      * exists x. split; [now left|exact E]. Qed.
Lemma qmaxl_ge l x : In x l -> x <= qmaxl l.
Proof. destruct l as [|a t]; [intros []|]. cbn [qmaxl]. destruct (qmaxl_from_spec a t) as (H1 & H2 & _).
  intros [<-|Hx]; [exact H1|now apply H2]. Qed.
Lemma qmaxl_in l : l <> [] -> exists x, In x l /\ qmaxl l == x.
Proof. destruct l as [|a t]; [congruence|]. intros _. cbn [qmaxl]. apply qmaxl_from_spec. Qed.
Lemma qmaxl_dom l1 l2 : l1 <> [] -> (forall x, In x l1 -> exists y, In y l2 /\ x <= y) -> qmaxl l1 <= qmaxl l2.
Proof. intros N H. destruct (qmaxl_in l1 N) as (x & Hx & ->). destruct (H x Hx) as (y & Hy & Hxy).
  pose proof (qmaxl_ge l2 y Hy). lra. Qed.
Lemma qmaxl_same l1 l2 : (forall x, In x l1 -> exists y, In y l2 /\ x <= y) ->
  (forall y, In y l2 -> exists x, In x l1 /\ y <= x) -> qmaxl l1 == qmaxl l2.
Proof. intros H1 H2. destruct l1 as [|a t1], l2 as [|b t2]; [reflexivity| | |].
  - destruct (H2 b) as (x & [] & _). now left.
  - destruct (H1 a) as (x & [] & _). now left.
  - apply Qle_antisym; apply qmaxl_dom; auto; discriminate. Qed.
Lemma qmaxl_perm l1 l2 : Permutation l1 l2 -> qmaxl l1 == qmaxl l2.
Proof. intros P. apply qmaxl_same; intros x Hx; exists x; (split; [|lra]).
  - eapply Permutation_in; eauto.
  - eapply Permutation_in; [symmetry; exact P|exact Hx]. Qed.
Lemma qmaxl_map_ext {A} (f g : A -> Q) l : (forall x, In x l -> f x == g x) -> qmaxl (map f l) == qmaxl (map g l).
Proof. intros H. apply qmaxl_same; intros x Hx; apply in_map_iff in Hx; destruct Hx as (a & <- & Ha).
  - exists (g a). split; [now apply in_map|]. rewrite (H a Ha). lra.
  - exists (f a). split; [now apply in_map|]. rewrite (H a Ha). lra. Qed.
Lemma qmaxl_01 l : (forall x, In x l -> 0 <= x <= 1) -> 0 <= qmaxl l <= 1.
Proof. intros H. destruct l as [|a t]; [cbn; lra|]. assert (N : a :: t <> []) by discriminate.
  destruct (qmaxl_in (a :: t) N) as (x & Hx & ->). now apply H. Qed.
Lemma qmaxl_eq1 l : (forall x, In x l -> x <= 1) -> (exists x, In x l /\ x == 1) -> qmaxl l == 1.
Proof. intros H (x & Hx & E). apply Qle_antisym.
  - assert (N : l <> []) by (intros ->; destruct Hx). destruct (qmaxl_in l N) as (y & Hy & ->). now apply H.
  - rewrite <- E. now apply qmaxl_ge. Qed.

(* ------------------------------------------------------------------------------------------ *)
(* qsum, qmean                                                                                 *)
(* ------------------------------------------------------------------------------------------ *)
Lemma qsum_cons a t : qsum (a :: t) = a + qsum t.
Proof. reflexivity. Qed.
Lemma qsum_perm l1 l2 : Permutation l1 l2 -> qsum l1 == qsum l2.
Proof. induction 1; rewrite ?qsum_cons; lra. Qed.
Lemma qsum_map_ext {A} (f g : A -> Q) l : (forall x, In x l -> f x == g x) -> qsum (map f l) == qsum (map g l).
Proof. induction l as [|a t IH]; intros H; [reflexivity|]. cbn [map]. rewrite !qsum_cons, (H a) by now left.
  rewrite IH; [reflexivity|]. intros; apply H; now right. Qed.
Lemma qsum_01 l : (forall x, In x l -> 0 <= x <= 1) -> 0 <= qsum l <= qnat (length l).
Proof. induction l as [|a t IH]; intros H; [unfold qsum; cbn [fold_right length]; rewrite qnat_0; lra|]. cbn [length]. rewrite qsum_cons, qnat_S.
  assert (0 <= a <= 1) by (apply H; now left). assert (0 <= qsum t <= qnat (length t)) by (apply IH; intros; apply H; now right). lra. Qed.
Lemma qsum_ones l : (forall x, In x l -> x == 1) -> qsum l == qnat (length l).
Proof. induction l as [|a t IH]; intros H; [reflexivity|]. cbn [length]. rewrite qsum_cons, qnat_S, (H a) by now left.
  rewrite IH; [ring|]. intros; apply H; now right. Qed.

Lemma qmean_01 l : (forall x, In x l -> 0 <= x <= 1) -> 0 <= qmean l <= 1.
Proof. intros H. destruct (qsum_01 l H). unfold qmean. split; [apply Qdiv_nonneg; [assumption|apply qnat_nonneg]|now apply Qdiv_le_1]. Qed.
Lemma qmean_perm l1 l2 : Permutation l1 l2 -> qmean l1 == qmean l2.
Proof. intros P. unfold qmean. now rewrite (qsum_perm _ _ P), (Permutation_length P). Qed.
Lemma qmean_map_ext {A} (f g : A -> Q) l : (forall x, In x l -> f x == g x) -> qmean (map f l) == qmean (map g l).
Proof. intros H. unfold qmean. now rewrite (qsum_map_ext f g l H), !map_length. Qed.
Lemma qmean_ones l : l <> [] -> (forall x, In x l -> x == 1) -> qmean l == 1.
Proof. intros N H. unfold qmean. rewrite (qsum_ones l H). apply Qdiv_same, qnat_pos. destruct l; [congruence|cbn; lia]. Qed.

(* ------------------------------------------------------------------------------------------ *)
(* f_measure respects ==                                                                       *)
(* ------------------------------------------------------------------------------------------ *)
Lemma qeqb_ext a a' b b' : a == a' -> b == b' -> qeqb a b = qeqb a' b'.
Proof. intros Ha Hb. apply eq_true_iff_eq. rewrite !qeqb_true, Ha, Hb. tauto. Qed.
Lemma qleb_ext a a' b b' : a == a' -> b == b' -> qleb a b = qleb a' b'.
Proof. intros Ha Hb. apply eq_true_iff_eq. rewrite !qleb_true, Ha, Hb. tauto. Qed.
Lemma qltb_ext a a' b b' : a == a' -> b == b' -> qltb a b = qltb a' b'.
Proof. intros Ha Hb. apply eq_true_iff_eq. rewrite !qltb_true, Ha, Hb. tauto. Qed.
Lemma f_measure_ext p p' r r' : p == p' -> r == r' -> f_measure p r 1 == f_measure p' r' 1.
Proof. intros Hp Hr. unfold f_measure. rewrite (qeqb_ext p p' 0 0 Hp (Qeq_refl 0)), (qeqb_ext r r' 0 0 Hr (Qeq_refl 0)).
  destruct (qeqb p' 0 && qeqb r' 0); [reflexivity|]. now rewrite Hp, Hr. Qed.
Lemma f_measure_11 p r : p == 1 -> r == 1 -> f_measure p r 1 == 1.
Proof. intros Hp Hr. rewrite (f_measure_ext p 1 r 1 Hp Hr). reflexivity. Qed.

(* ------------------------------------------------------------------------------------------ *)
(* occurrences as sets                                                                         *)
(* ------------------------------------------------------------------------------------------ *)
Lemma memb_true x l : memb x l = true <-> In x l.
Proof. unfold memb. destruct (in_dec note_eq_dec x l); split; auto; discriminate. Qed.
Lemma inter_set_In P Qo x : In x (inter_set P Qo) <-> In x (map canon P) /\ In x (map canon Qo).
Proof. unfold inter_set, occ_set. rewrite filter_In, nodup_In, memb_true. tauto. Qed.
Lemma inter_set_NoDup P Qo : NoDup (inter_set P Qo).
Proof. apply NoDup_filter, NoDup_nodup. Qed.
Lemma NoDup_same_length {A} (l1 l2 : list A) : NoDup l1 -> NoDup l2 -> (forall x, In x l1 <-> In x l2) -> length l1 = length l2.
Proof. intros. apply Permutation_length, NoDup_Permutation; assumption. Qed.

Lemma inter_count_sym P Qo : inter_count P Qo = inter_count Qo P.
Proof. unfold inter_count. apply NoDup_same_length; try apply inter_set_NoDup. intros x. rewrite !inter_set_In. tauto. Qed.
Lemma inter_count_le_l P Qo : (inter_count P Qo <= length P)%nat.
Proof. unfold inter_count. rewrite <- (map_length canon P). apply NoDup_incl_length; [apply inter_set_NoDup|].
  intros x Hx. now apply inter_set_In in Hx. Qed.
Lemma inter_count_le_r P Qo : (inter_count P Qo <= length Qo)%nat.
Proof. rewrite inter_count_sym. apply inter_count_le_l. Qed.
Lemma inter_count_self P : NoDup (map canon P) -> inter_count P P = length P.
Proof. intros N. unfold inter_count. rewrite <- (map_length canon P). apply NoDup_same_length; [apply inter_set_NoDup|exact N|].
  intros x. rewrite inter_set_In. tauto. Qed.

(* a common onset shift *)
Definition shift_note (d : Q) (n : note) : note := (fst n + d, snd n).
Definition shift_occ (d : Q) (o : occ) : occ := map (shift_note d) o.
Definition shift_pat (d : Q) (p : pattern) : pattern := map (shift_occ d) p.
Definition shift_pats (d : Q) (ps : list pattern) : list pattern := map (shift_pat d) ps.

Lemma Qred_idem x : Qred (Qred x) = Qred x.
Proof. apply Qred_complete, Qred_correct. Qed.
Lemma canon_idem n : canon (canon n) = canon n.
Proof. unfold canon. cbn [fst snd]. now rewrite !Qred_idem. Qed.
Lemma Qred_inj_canon x y : Qred x = x -> Qred y = y -> x == y -> x = y.
Proof. intros Hx Hy E. rewrite <- Hx, <- Hy. now apply Qred_complete. Qed.

Lemma canon_shift d n : canon (shift_note d n) = canon (shift_note d (canon n)).
Proof. unfold canon, shift_note. cbn [fst snd]. f_equal.
  - apply Qred_complete. now rewrite Qred_correct.
  - now rewrite Qred_idem. Qed.
Lemma canon_shift_inj d c1 c2 : canon c1 = c1 -> canon c2 = c2 ->
  canon (shift_note d c1) = canon (shift_note d c2) -> c1 = c2.
Proof. destruct c1 as [a1 b1], c2 as [a2 b2]. unfold canon, shift_note. cbn [fst snd]. intros H1 H2 H.
  apply pair_equal_spec in H1, H2, H. destruct H1 as [Ha1 Hb1], H2 as [Ha2 Hb2], H as [Ha Hb]. f_equal.
  - apply Qred_inj_canon; auto. assert (E : a1 + d == a2 + d). { rewrite <- (Qred_correct (a1 + d)), <- (Qred_correct (a2 + d)), Ha. reflexivity. }
    lra.
  - rewrite <- Hb1, <- Hb2. exact Hb. Qed.

Lemma NoDup_map_inj_in {A B} (g : A -> B) l : NoDup l ->
  (forall x y, In x l -> In y l -> g x = g y -> x = y) -> NoDup (map g l).
Proof. induction 1 as [|a t Ha N IH]; intros Hg; cbn [map]; constructor.
  - intros Hi. apply in_map_iff in Hi. destruct Hi as (y & E & Hy). apply Ha.
    rewrite (Hg a y); auto; [now left|now right].
  - apply IH. intros x y Hx Hy. apply Hg; now right. Qed.

Lemma map_canon_shift d o : map canon (shift_occ d o) = map (fun c => canon (shift_note d c)) (map canon o).
Proof. unfold shift_occ. rewrite !map_map. apply map_ext. intros n. apply canon_shift. Qed.
Lemma In_canon_idem o c : In c (map canon o) -> canon c = c.
Proof. intros H. apply in_map_iff in H. destruct H as (n & <- & _). apply canon_idem. Qed.

Lemma inter_count_shift d P Qo : inter_count (shift_occ d P) (shift_occ d Qo) = inter_count P Qo.
Proof. unfold inter_count. set (g := fun c => canon (shift_note d c)).
  rewrite <- (map_length g (inter_set P Qo)).
  apply NoDup_same_length.
  - apply inter_set_NoDup.
  - apply NoDup_map_inj_in; [apply inter_set_NoDup|]. intros x y Hx Hy. apply inter_set_In in Hx, Hy.
    destruct Hx as [Hx _], Hy as [Hy _]. intros E.
    apply (canon_shift_inj d); [eapply In_canon_idem; exact Hx|eapply In_canon_idem; exact Hy|exact E].
  - intros x. rewrite inter_set_In, !map_canon_shift. fold g. rewrite !in_map_iff. split.
    + intros [(c1 & E1 & H1) (c2 & E2 & H2)]. exists c1. split; [exact E1|]. apply inter_set_In. split; [exact H1|].
      assert (c1 = c2); [|now subst].
      apply (canon_shift_inj d); [eapply In_canon_idem; eauto|eapply In_canon_idem; eauto|]. unfold g in *. congruence.
    + intros (c & E & Hc). apply inter_set_In in Hc. split; exists c; tauto. Qed.

(* ------------------------------------------------------------------------------------------ *)
(* cardinality score                                                                           *)
(* ------------------------------------------------------------------------------------------ *)
Lemma card_score_sym P Qo : card_score P Qo = card_score Qo P.
Proof. unfold card_score. now rewrite inter_count_sym, Nat.max_comm. Qed.
Lemma card_score_01 P Qo : 0 <= card_score P Qo <= 1.
Proof. unfold card_score. apply ratio_01. pose proof (inter_count_le_l P Qo). lia. Qed.
Lemma card_score_self P : P <> [] -> NoDup (map canon P) -> card_score P P == 1.
Proof. intros N D. unfold card_score. rewrite (inter_count_self P D), Nat.max_id. apply Qdiv_same, qnat_pos.
  destruct P; [congruence|cbn; lia]. Qed.
Lemma shift_occ_length d o : length (shift_occ d o) = length o.
Proof. apply map_length. Qed.
Lemma card_score_shift d P Qo : card_score (shift_occ d P) (shift_occ d Qo) = card_score P Qo.
Proof. unfold card_score. now rewrite inter_count_shift, !shift_occ_length. Qed.
