(* C19, images criterion: what IS scale invariant.  Under the two linearity hypotheses on the projection, SIR and SAR of
   _bss_image_crit are unchanged when the estimate and the references are multiplied by non-zero constants (SDR and
   ISR are not: SeparationProps.images_sdr_isr_*_refuted). *)
From Coq Require Import List Bool Arith ZArith QArith Lia Lqa Setoid Morphisms.
From ME Require Import Model.Prelude Model.Separation Proofs.SeparationDecomp Proofs.SeparationProps.
Import ListNotations.
Open Scope Q_scope.

Lemma meq_sym a b : meq a b -> meq b a.
Proof. induction 1; constructor; auto. now apply veq_sym. Qed.
Lemma meq_trans a b c : meq a b -> meq b c -> meq a c.
Proof.
  intros H; revert c; induction H; intros c H2; inversion H2; subst; constructor.
  - eapply veq_trans; eauto.
  - apply IHForall2; assumption.
Qed.
Lemma meq_length a b : meq a b -> length a = length b.
Proof. induction 1; cbn; auto. Qed.

Lemma menergy_meq a b : meq a b -> menergy a == menergy b.
Proof.
  unfold menergy, qsum. induction 1; cbn [map fold_right]; [reflexivity|].
  rewrite IHForall2, (energy_veq _ _ H). reflexivity.
Qed.
Lemma menergy_mscale c a : menergy (mscale c a) == c * c * menergy a.
Proof.
  unfold menergy, mscale, qsum. induction a; cbn [map fold_right]; [ring|]. rewrite IHa, energy_vscale. ring.
Qed.
Lemma msub_meq a a' b b' : meq a a' -> meq b b' -> meq (msub a b) (msub a' b').
Proof.
  intros Ha; revert b b'; induction Ha; intros b b' Hb; inversion Hb; subst; cbn; constructor.
  - cbn. apply vsub_veq; auto.
  - apply IHHa; auto.
Qed.
Lemma msub_mscale c : forall a b, meq (msub (mscale c a) (mscale c b)) (mscale c (msub a b)).
Proof. induction a; intros [|y b]; cbn; constructor; [apply vsub_vscale | apply IHa]. Qed.
Lemma mscale_meq c a b : meq a b -> meq (mscale c a) (mscale c b).
Proof. induction 1; cbn; constructor; auto. now apply vscale_veq. Qed.
Lemma mpad_to_meq L a b : meq a b -> meq (mpad_to L a) (mpad_to L b).
Proof. induction 1; cbn; constructor; auto. now apply pad_to_veq. Qed.
Lemma mpad_to_mscale c L a : meq (mpad_to L (mscale c a)) (mscale c (mpad_to L a)).
Proof. induction a; cbn; constructor; auto. apply pad_to_vscale. Qed.

Lemma meq_shape_ok k L a b : meq a b -> shape_ok k L b = true -> shape_ok k L a = true.
Proof.
  intros H Hb. apply shape_ok_spec in Hb as (H1 & H2). apply shape_ok_spec. split.
  - rewrite (meq_length _ _ H). exact H1.
  - clear H1. induction H; constructor.
    + rewrite (veq_length _ _ H). exact (Forall_inv H2).
    + apply IHForall2. exact (Forall_inv_tail H2).
Qed.
Lemma mscale_shape_ok k L c a : shape_ok k L a = true -> shape_ok k L (mscale c a) = true.
Proof.
  intros H. apply shape_ok_spec in H as (H1 & H2). apply shape_ok_spec. unfold mscale. split; [now rewrite map_length|].
  apply Forall_forall. intros r Hr. apply in_map_iff in Hr as (r0 & <- & Hr0). rewrite vscale_length.
  rewrite Forall_forall in H2. auto.
Qed.

(* canonical forms, row by row *)
Section Rows.
  Variable L : nat.
  Lemma mcore_filt : forall s pj, length pj = length s ->
    Forall (fun r => length r = L) s -> Forall (fun r => length r = L) pj -> meq (madd s (mc_spat s pj)) pj.
  Proof.
    induction s as [|x s IH]; intros [|p pj] H F1 F2; cbn in *; try discriminate; constructor.
    - apply core_filt. rewrite (Forall_inv F1), (Forall_inv F2). reflexivity.
    - apply IH; [lia | exact (Forall_inv_tail F1) | exact (Forall_inv_tail F2)].
  Qed.
  Lemma mcore_interf : forall s pj pall, length pj = length s -> length pall = length s ->
    Forall (fun r => length r = L) s -> Forall (fun r => length r = L) pj -> Forall (fun r => length r = L) pall ->
    meq (mc_interf s pj pall) (msub pall pj).
  Proof.
    induction s as [|x s IH]; intros [|p pj] [|q pall] H1 H2 F1 F2 F3; cbn in *; try discriminate; constructor.
    - apply core_interf; rewrite (Forall_inv F1); [exact (Forall_inv F2) | exact (Forall_inv F3)].
    - apply IH; try lia; [exact (Forall_inv_tail F1) | exact (Forall_inv_tail F2) | exact (Forall_inv_tail F3)].
  Qed.
  Lemma mcore_artif : forall s pj pall e, length pj = length s -> length pall = length s -> length e = length s ->
    Forall (fun r => length r = L) s -> Forall (fun r => length r = L) pj -> Forall (fun r => length r = L) pall ->
    Forall (fun r => (length r <= L)%nat) e ->
    meq (madd_prefix (mc_artif0 s pj pall) e) (msub (mpad_to L e) pall).
  Proof.
    induction s as [|x s IH]; intros [|p pj] [|q pall] [|y e] H1 H2 H3 F1 F2 F3 F4; cbn in *; try discriminate; constructor.
    - pose proof (Forall_inv F1) as Lx. cbn beta in Lx. rewrite <- Lx.
      apply core_artif; rewrite Lx; [exact (Forall_inv F2) | exact (Forall_inv F3) | exact (Forall_inv F4)].
    - apply IH; try lia; [exact (Forall_inv_tail F1) | exact (Forall_inv_tail F2) | exact (Forall_inv_tail F3)
                          | exact (Forall_inv_tail F4)].
  Qed.
  Lemma madd_filt_interf : forall pj pall, length pj = length pall ->
    Forall (fun r => length r = L) pj -> Forall (fun r => length r = L) pall -> meq (madd pj (msub pall pj)) pall.
  Proof.
    induction pj as [|p pj IH]; intros [|q pall] H F1 F2; cbn in *; try discriminate; constructor.
    - apply vadd_filt_interf. rewrite (Forall_inv F1), (Forall_inv F2). reflexivity.
    - apply IH; [lia | exact (Forall_inv_tail F1) | exact (Forall_inv_tail F2)].
  Qed.
End Rows.

Lemma madd_meq a a' b b' : meq a a' -> meq b b' -> meq (madd a b) (madd a' b').
Proof.
  intros Ha; revert b b'; induction Ha; intros b b' Hb; inversion Hb; subst; cbn; constructor.
  - cbn. apply vadd_veq; auto.
  - apply IHHa; auto.
Qed.

(* (SIR, SAR) of the images criterion *)
Definition last2 (x : xval * xval * xval * xval) : xval * xval := (snd (fst x), snd x).
Definition image_sir_sar_canon (pj pall pe : cmat) : xval * xval :=
  (ratio (menergy pj) (menergy (msub pall pj)), ratio (menergy pall) (menergy (msub pe pall))).
Definition pair_eqv (x y : xval * xval) : Prop := xeqv (fst x) (fst y) /\ xeqv (snd x) (snd y).

Lemma image_crit_canonical proj refs est j flen s sp i a :
  decomp_images proj refs est j flen = Ok (s, sp, i, a) ->
  exists rj, nth_error refs j = Some rj /\
    pair_eqv (last2 (image_crit s sp i a))
             (image_sir_sar_canon (proj [rj] est flen) (proj refs est flen)
                                  (mpad_to (length est + flen - 1) (transpose (length (hd [] est)) est))).
Proof.
  intros H. destruct (decomp_images_inv _ _ _ _ _ _ _ _ _ H) as (rj & fl & Hn & -> & Hs1 & Hs2 & P1 & P2 & -> & -> & ->).
  cbn zeta in *. exists rj; split; auto.
  apply shape_ok_spec in P1 as [P1a P1b], P2 as [P2a P2b].
  replace (length est + S fl - 1)%nat with (length est + fl)%nat by lia.
  destruct (transpose_rows (length (hd [] est)) est) as [T1 T2].
  set (pj := proj [rj] est (S fl)) in *. set (pall := proj refs est (S fl)) in *. set (L := (length est + fl)%nat) in *.
  assert (A1 : length pj = length s) by (etransitivity; [exact P1a | symmetry; exact Hs1]).
  assert (A2 : length pall = length s) by (etransitivity; [exact P2a | symmetry; exact Hs1]).
  assert (A3 : length (transpose (length (hd [] est)) est) = length s) by (etransitivity; [exact T1 | symmetry; exact Hs1]).
  assert (T3 : Forall (fun r => (length r <= L)%nat) (transpose (length (hd [] est)) est)).
  { eapply Forall_impl; [|exact T2]. unfold L. cbn; intros; lia. }
  pose proof (mcore_filt L s pj A1 Hs2 P1b) as Ef.
  pose proof (mcore_interf L s pj pall A1 A2 Hs2 P1b P2b) as Ei.
  pose proof (mcore_artif L s pj pall _ A1 A2 A3 Hs2 P1b P2b T3) as Ea.
  unfold image_crit, last2, image_sir_sar_canon, pair_eqv; cbn [fst snd]. split.
  - apply ratio_eqv; apply menergy_meq; auto.
  - apply ratio_eqv; apply menergy_meq; auto.
    eapply meq_trans; [apply madd_meq; [exact Ef | exact Ei]|].
    apply (madd_filt_interf L); auto. etransitivity; [exact A1 | symmetry; exact A2].
Qed.

(* each reference image multiplied by its own constant *)
Fixpoint scale_refs_img (ds : list Q) (refs : list (list (list Q))) : list (list (list Q)) :=
  match ds, refs with d :: ds', r :: refs' => iscale d r :: scale_refs_img ds' refs' | _, _ => refs end.
Lemma scale_refs_img_nth : forall ds refs j rj, length ds = length refs -> nth_error refs j = Some rj ->
  nth_error (scale_refs_img ds refs) j = Some (iscale (nth j ds 1) rj).
Proof.
  induction ds as [|d ds IH]; intros [|r refs] j rj HL Hn; cbn in *; try discriminate.
  - destruct j; discriminate.
  - destruct j; cbn in *; [now inversion Hn | apply IH; auto].
Qed.
Lemma iscale_shape c x : length (iscale c x) = length x /\ length (hd [] (iscale c x)) = length (hd [] x).
Proof. unfold iscale. split; [apply map_length|]. destruct x; cbn; auto using map_length. Qed.

Lemma transpose_iscale c est : meq (transpose (length (hd [] (iscale c est))) (iscale c est))
                                   (mscale c (transpose (length (hd [] est)) est)).
Proof.
  rewrite (proj2 (iscale_shape c est)). unfold transpose, mscale, iscale. rewrite !map_map.
  induction (seq 0 (length (hd [] est))) as [|ch l IH]; cbn [map]; constructor; auto.
  unfold vscale. rewrite !map_map. clear. induction est as [|row est IH]; cbn [map]; constructor; auto. apply nth_scale.
Qed.

Section ImagesScale.
  Variable proj_img : list (list (list Q)) -> list (list Q) -> nat -> cmat.
  Hypothesis proj_scales_with_estimate :
    forall refs est flen c, meq (proj_img refs (iscale c est) flen) (mscale c (proj_img refs est flen)).
  Hypothesis proj_invariant_under_reference_scaling :
    forall ds refs est flen, length ds = length refs -> Forall (fun d => ~ d == 0) ds ->
      meq (proj_img (scale_refs_img ds refs) est flen) (proj_img refs est flen).

  Lemma canon_scale pj pall pe pj' pall' pe' c : ~ c == 0 ->
    meq pj' (mscale c pj) -> meq pall' (mscale c pall) -> meq pe' (mscale c pe) ->
    pair_eqv (image_sir_sar_canon pj' pall' pe') (image_sir_sar_canon pj pall pe).
  Proof.
    intros Hc E1 E2 E3. unfold image_sir_sar_canon, pair_eqv; cbn [fst snd].
    assert (S1 : menergy pj' == c * c * menergy pj) by (rewrite (menergy_meq _ _ E1); apply menergy_mscale).
    assert (S2 : menergy pall' == c * c * menergy pall) by (rewrite (menergy_meq _ _ E2); apply menergy_mscale).
    assert (S4 : menergy (msub pall' pj') == c * c * menergy (msub pall pj)).
    { rewrite (menergy_meq _ _ (msub_meq _ _ _ _ E2 E1)), (menergy_meq _ _ (msub_mscale c pall pj)). apply menergy_mscale. }
    assert (S5 : menergy (msub pe' pall') == c * c * menergy (msub pe pall)).
    { rewrite (menergy_meq _ _ (msub_meq _ _ _ _ E3 E2)), (menergy_meq _ _ (msub_mscale c pe pall)). apply menergy_mscale. }
    split; (eapply xeqv_trans; [apply ratio_eqv; eassumption | apply ratio_scale; auto]).
  Qed.

  (* SIR and SAR of the images criterion are unchanged when the estimate is multiplied by c <> 0 and reference k by
     ds[k] <> 0.  `_partial` for the same reasons as scale_invariance_given_linear_partial, and because SDR / ISR are
     excluded (they do change). *)
  Theorem images_sir_sar_scale_invariance_partial :
    forall refs est j flen c ds s sp i a,
      ~ c == 0 -> length ds = length refs -> Forall (fun d => ~ d == 0) ds ->
      decomp_images proj_img refs est j flen = Ok (s, sp, i, a) ->
      exists s' sp' i' a',
        decomp_images proj_img (scale_refs_img ds refs) (iscale c est) j flen = Ok (s', sp', i', a') /\
        pair_eqv (last2 (image_crit s' sp' i' a')) (last2 (image_crit s sp i a)).
  Proof.
    intros refs est j flen c ds s sp i a Hc HL Hds H.
    destruct (image_crit_canonical _ _ _ _ _ _ _ _ _ H) as (rj & Hn & C1 & C2).
    destruct (decomp_images_inv _ _ _ _ _ _ _ _ _ H) as (rj' & fl & Hn' & -> & _ & _ & P1 & P2 & _).
    rewrite Hn in Hn'; inversion Hn'; subst rj'; clear Hn'. cbn zeta in *.
    set (d := nth j ds 1).
    assert (Hd : ~ d == 0).
    { assert (Hj : (j < length ds)%nat) by (rewrite HL; apply nth_error_Some; congruence).
      rewrite Forall_forall in Hds. apply Hds. apply nth_In; auto. }
    pose proof (scale_refs_img_nth ds refs j rj HL Hn) as Hn2. fold d in Hn2.
    destruct (iscale_shape c est) as (Le & Lh). destruct (iscale_shape d rj) as (Lr & Lrh).
    assert (Pj : meq (proj_img [iscale d rj] (iscale c est) (S fl)) (mscale c (proj_img [rj] est (S fl)))).
    { eapply meq_trans; [apply proj_scales_with_estimate|]. apply mscale_meq.
      apply (proj_invariant_under_reference_scaling [d] [rj] est (S fl)); auto. }
    assert (Pa : meq (proj_img (scale_refs_img ds refs) (iscale c est) (S fl)) (mscale c (proj_img refs est (S fl)))).
    { eapply meq_trans; [apply proj_scales_with_estimate|]. apply mscale_meq.
      apply proj_invariant_under_reference_scaling; auto. }
    destruct (decomp_images proj_img (scale_refs_img ds refs) (iscale c est) j (S fl)) as [[[[s' sp'] i'] a']|e] eqn:D.
    2:{ exfalso. revert D. unfold decomp_images. rewrite Hn2, Le, Lh, Lr, Lrh.
        assert (Sz : (length rj * length (hd [] rj) =? length est * length (hd [] est))%nat = true).
        { revert H. unfold decomp_images. rewrite Hn. destruct (_ =? _)%nat; cbn [negb]; [reflexivity | discriminate]. }
        rewrite Sz. cbn [negb].
        rewrite (meq_shape_ok _ _ _ _ Pj (mscale_shape_ok _ _ c _ P1)). cbn [negb].
        rewrite (meq_shape_ok _ _ _ _ Pa (mscale_shape_ok _ _ c _ P2)). cbn [negb]. discriminate. }
    exists s', sp', i', a'. split; auto.
    destruct (image_crit_canonical _ _ _ _ _ _ _ _ _ D) as (rj2 & Hn3 & D1 & D2).
    rewrite Hn2 in Hn3; inversion Hn3; subst rj2; clear Hn3.
    assert (M : pair_eqv
      (image_sir_sar_canon (proj_img [iscale d rj] (iscale c est) (S fl)) (proj_img (scale_refs_img ds refs) (iscale c est) (S fl))
         (mpad_to (length (iscale c est) + S fl - 1) (transpose (length (hd [] (iscale c est))) (iscale c est))))
      (image_sir_sar_canon (proj_img [rj] est (S fl)) (proj_img refs est (S fl))
         (mpad_to (length est + S fl - 1) (transpose (length (hd [] est)) est)))).
    { apply (canon_scale _ _ _ _ _ _ c); auto.
      rewrite Le. eapply meq_trans; [apply mpad_to_meq; apply transpose_iscale | apply mpad_to_mscale]. }
    destruct M as (M1 & M2). split.
    - eapply xeqv_trans; [exact D1|]. eapply xeqv_trans; [exact M1|]. apply xeqv_sym; exact C1.
    - eapply xeqv_trans; [exact D2|]. eapply xeqv_trans; [exact M2|]. apply xeqv_sym; exact C2.
  Qed.
End ImagesScale.

(* the hypotheses are satisfiable (the projection of SeparationProps.images_sdr_isr_*_refuted) *)
Example images_scale_hypotheses_satisfiable :
  (forall refs est flen c, meq (proj_img_id refs (iscale c est) flen) (mscale c (proj_img_id refs est flen))) /\
  (forall ds refs est flen, length ds = length refs -> Forall (fun d => ~ d == 0) ds ->
     meq (proj_img_id (scale_refs_img ds refs) est flen) (proj_img_id refs est flen)) /\
  exists s sp i a, decomp_images proj_img_id [[[1; 2]; [3; 4]]] [[5; 6]; [7; 8]] 0 2 = Ok (s, sp, i, a).
Proof.
  split; [apply proj_img_id_scales|]. split; [intros; apply meq_refl|]. repeat eexists.
Qed.
