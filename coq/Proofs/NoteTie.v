(* The note matchers of mir_eval/transcription.py, tied to the hand-written model by TRANSLATION.

   translator/notefuncs.py turns the bodies of
     match_note_onsets, match_note_offsets, match_notes (and average_overlap_ratio, see NoteTieAor.v)
   into programs of the Python / NumPy sub-language of Model/NoteExp.v (Gen/NoteGen.v, regenerated on every check).
   This file proves, for ALL inputs (all rational interval arrays, log2-pitches, tolerances, flags), that running each
   generated program gives exactly (Leibniz equality of the returned list of index pairs, of the exception class, of the
   fuel outcome) what the model function of Model/Transcription.v gives:
     match_note_onsets_tie     program = Transcription.match_note_onsets
     match_note_offsets_tie    program = Transcription.match_note_offsets   (ValueError of util.intervals_to_durations included)
     match_notes_tie           program = Transcription.match_notes on the zipped notes, for offset_ratio a float or None,
                               under length ref_intervals = length ref_pitches, length est_intervals = length est_pitches
                               (the model's own domain: unequal lengths are NumPy broadcasting errors)
   What is tied: which column of which array enters which distance matrix, np.subtract.outer / np.abs / np.around(.,
   N_DECIMALS) in this order (the evaluator rounds with the model's own fl64 at every float subtraction / multiplication,
   np_around4 is the model's primitive, N_DECIMALS is read from the source and must be 4), np.less / np.less_equal chosen
   by `strict`, the tolerance np.maximum(offset_ratio * durations, offset_min_tolerance) broadcast per reference row,
   1200 * (log2 - log2) then np.abs for the pitch, the elementwise product of the hit matrices (True when offset_ratio is
   None), np.where in row-major order, the graph dict built by the loop in hit order (est-indexed, insertion-ordered),
   util._bipartite_match on it, sorted(items).
   Callees. util.intervals_to_durations and util._bipartite_match are opaque; call sites are bound to the callee
   signatures read from the source in the same run (note_sigs, pinned by note_sigs_expected) and instantiated by the
   model's functions (note_ext: validate_ivs + map duration; Matching.bipartite_match).
   The proofs use nothing of the generated text except the names gen_X, note_globals, note_funs, note_prims. *)
From Coq Require Import String.
From Coq Require Import List Bool Arith ZArith QArith Qabs Qminmax Qround Lia Lqa.
From ME Require Import Model.Prelude Model.Dict Model.Matching Model.Events Model.Transcription Model.NoteExp Gen.NoteGen.
From ME Require Import Proofs.TranscriptionProps.
Import ListNotations.
Open Scope Q_scope.

Definition note_sigs : list (string * option sigv) :=
  sigs_of (map (fun nf => (fst nf, f_params (snd nf))) note_funs ++ note_prims).
Definition lift_m (r : res (option (list (nat * nat)))) : out nv :=
  match r with Ok (Some m) => OK (NPairs m) | Ok None => FUEL | Raise e => EXN e end.
Local Open Scope string_scope.
Definition note_ext (f : string) (vs : list nv) : out nv :=
  if f =? "util.intervals_to_durations" then
    match vs with
    | [NIvs l] => match validate_ivs l with Ok _ => OK (NVec (map duration l)) | Raise e => EXN e end
    | _ => UNM end
  else if f =? "util._bipartite_match" then
    match vs with
    | [NDict g] => match bipartite_match g with Some m => OK (NMatching m) | None => FUEL end
    | _ => UNM end
  else UNM.
Local Close Scope string_scope.
Definition run (f : fdef) (args : list nv) : out nv := run_fun fl64 note_globals note_sigs note_ext f args.

(* ---------- floats ---------- *)
Lemma Qabs_fl64 x : Qabs (fl64 x) == fl64 (Qabs x).
Proof.
  destruct (Qlt_le_dec x 0) as [H|H].
  - rewrite (fl64_compat (Qabs x) (- x)) by (apply Qabs_neg; lra).
    assert (E : fl64 x = - fl64 (- x)).
    { unfold fl64. assert (Hr : Qred x == x) by apply Qred_correct. assert (Hn : Qred (- x) == - x) by apply Qred_correct.
      destruct (qeqb (Qred x) 0) eqn:E0; [apply qeqb_iff in E0; lra|].
      destruct (qltb 0 (Qred x)) eqn:E1; [apply qltb_iff in E1; lra|].
      destruct (qeqb (Qred (- x)) 0) eqn:E2; [apply qeqb_iff in E2; lra|].
      destruct (qltb 0 (Qred (- x))) eqn:E3; [|apply qltb_false_iff in E3; lra].
      rewrite <- Qred_opp. reflexivity. }
    rewrite E. assert (0 <= fl64 (- x)) by (apply fl64_nonneg; lra). rewrite Qabs_neg by lra. ring.
  - rewrite (fl64_compat (Qabs x) x) by (apply Qabs_pos; exact H). apply Qabs_pos. apply fl64_nonneg. exact H.
Qed.
Lemma np_around4_compat x y : x == y -> np_around4 x = np_around4 y.
Proof. intros H. unfold np_around4. rewrite (fl64_compat (x * 10000) (y * 10000)) by (rewrite H; reflexivity). reflexivity. Qed.
Lemma cmpb_compat s a a' b : a == a' -> cmpb s a b = cmpb s a' b.
Proof.
  intros H. unfold cmpb. destruct s.
  - destruct (qltb a b) eqn:E1, (qltb a' b) eqn:E2; try reflexivity.
    + apply qltb_iff in E1. apply qltb_false_iff in E2. lra.
    + apply qltb_iff in E2. apply qltb_false_iff in E1. lra.
  - destruct (qleb a b) eqn:E1, (qleb a' b) eqn:E2; try reflexivity.
    + apply qleb_iff in E1. assert (~ a' <= b) by (rewrite <- qleb_iff; congruence). lra.
    + apply qleb_iff in E2. assert (~ a <= b) by (rewrite <- qleb_iff; congruence). lra.
Qed.
Lemma dist_eq a b : np_around4 (Qabs (fl64 (a - b))) = np_around4 (fsub_abs a b).
Proof. apply np_around4_compat. unfold fsub_abs. apply Qabs_fl64. Qed.
Lemma pitch_eq s ptol a b : cmpb s (Qabs (fl64 (inject_Z 1200 * fl64 (a - b)))) ptol = pitch_hitb s ptol a b.
Proof.
  unfold pitch_hitb. apply cmpb_compat. rewrite Qabs_fl64. 
  rewrite (fl64_compat (Qabs (inject_Z 1200 * fl64 (a - b))) (1200 * fl64 (Qabs (a - b)))); [reflexivity|].
  rewrite Qabs_Qmult, Qabs_fl64. reflexivity.
Qed.

(* ---------- arrays ---------- *)
Lemma mmap_outer {A B C D} (f : C -> D) (g : A -> B -> C) xs ys : mmap f (outer g xs ys) = outer (fun x y => f (g x y)) xs ys.
Proof. unfold mmap, outer. rewrite map_map. apply map_ext. intros x. apply map_map. Qed.
Lemma outer_map {A B C A' B'} (f : A -> B -> C) (g : A' -> A) (h : B' -> B) xs ys :
  outer f (map g xs) (map h ys) = outer (fun x y => f (g x) (h y)) xs ys.
Proof. unfold outer. rewrite map_map. apply map_ext. intros x. apply map_map. Qed.
Lemma outer_length {A B C} (f : A -> B -> C) xs ys : length (outer f xs ys) = length xs.
Proof. apply map_length. Qed.
Lemma vmap2_map_same {A B C D} (f : B -> C -> D) (g : A -> B) (h : A -> C) l : vmap2 f (map g l) (map h l) = map (fun x => f (g x) (h x)) l.
Proof. induction l as [|x t IH]; [reflexivity|]. cbn [map vmap2]. now rewrite IH. Qed.
Lemma mmap2_outer {A B C D E} (h : C -> D -> E) (f : A -> B -> C) (g : A -> B -> D) xs ys :
  mmap2 h (outer f xs ys) (outer g xs ys) = outer (fun x y => h (f x y) (g x y)) xs ys.
Proof. unfold mmap2, outer. rewrite vmap2_map_same. apply map_ext. intros x. apply vmap2_map_same. Qed.
Lemma rowcol_outer {A B C D E} (h : C -> D -> E) (f : A -> B -> C) (g : A -> D) xs ys :
  rowcol h (outer f xs ys) (map g xs) = outer (fun x y => h (f x y) (g x)) xs ys.
Proof. unfold rowcol, outer. rewrite vmap2_map_same. apply map_ext. intros x. apply map_map. Qed.
Lemma where_row_hits {B} (q : B -> bool) i est : forall j, where_row i j (map q est) = row_hits q i j est.
Proof. induction est as [|e t IH]; intros j; cbn [map where_row row_hits]; [reflexivity|]. now rewrite IH. Qed.
Lemma where_outer {A B} (p : A -> B -> bool) ref est : where_from 0 (outer p ref est) = hits_where p ref est.
Proof. unfold hits_where, outer. generalize 0%nat. induction ref as [|r t IH]; intros i; cbn [map where_from hits_from]; [reflexivity|].
  now rewrite IH, where_row_hits. Qed.
Lemma combine_fst_snd {A B} (l : list (A * B)) : combine (map fst l) (map snd l) = l.
Proof. induction l as [|[a b] t IH]; [reflexivity|]. cbn [map combine fst snd]. now rewrite IH. Qed.

(* ---------- the loop that builds the graph ---------- *)
Lemma for_loop_fold {S A} (step : nv -> env -> sres) (f : S -> A -> S) (mk : S -> env) (inj : A -> nv) :
  (forall s a, step (inj a) (mk s) = SNorm (mk (f s a))) ->
  forall l s, for_loop step (map inj l) (mk s) = SNorm (mk (fold_left f l s)).
Proof. intros H. induction l as [|a t IH]; intros s; cbn [map for_loop fold_left]; [reflexivity|]. rewrite H. apply IH. Qed.
Definition upd (x : string) (v : nv) (en : env) : env := match update x v en with Some e => e | None => en end.
Definition gstate := (graph * (nv * nv))%type.
Definition mk_env (g xr xe : string) (en0 : env) (s : gstate) : env :=
  upd g (NDict (fst s)) (upd xr (fst (snd s)) (upd xe (snd (snd s)) en0)).
Definition gstep (s : gstate) (h : nat * nat) : gstate := (bg_step (fst s) h, (NIx (fst h), NIx (snd h))).
Lemma gstep_fold hits : forall s, fst (fold_left gstep hits s) = fold_left bg_step hits (fst s).
Proof. induction hits as [|h t IH]; intros s; cbn [fold_left]; [reflexivity|]. rewrite IH. reflexivity. Qed.
Lemma dset_dset_same {V} (d : dict V) k v v' : dset (dset d k v) k v' = dset d k v'.
Proof. induction d as [|[k' w] t IH]; cbn [dset]; [now rewrite Nat.eqb_refl|].
  destruct (Nat.eqb k k') eqn:E; cbn [dset]; [now rewrite Nat.eqb_refl| now rewrite E, IH]. Qed.

Local Arguments fl64 : simpl never.
Local Arguments np_around4 : simpl never.
Local Arguments cmpb : simpl never.
Local Arguments Qabs : simpl never.
Local Arguments Qmax : simpl never.
Local Arguments outer : simpl never.
Local Arguments mmap : simpl never.
Local Arguments mmap2 : simpl never.
Local Arguments rowcol : simpl never.
Local Arguments where_from : simpl never.
Local Arguments bipartite_match : simpl never.
Local Arguments sort_pairs : simpl never.
Local Arguments validate_ivs : simpl never.
Local Arguments duration : simpl never.
Local Arguments for_loop : simpl never.
Local Arguments dset : simpl never.
Local Arguments dget : simpl never.
Local Arguments dmem : simpl never.
Local Arguments Qminus : simpl never.
Local Arguments Qmult : simpl never.
Local Arguments bg_step : simpl never.

(* the graph loop: rewrite it into fold_left gstep *)
Ltac graph_loop :=
  rewrite ?combine_fst_snd;
  match goal with
  | |- context [for_loop (for_step ?blk [?xr; ?xe] ?body) (map pair_tup ?w) ?en0] =>
      match body with
      | context [SDictAppend ?g _ _] =>
          change en0 with (mk_env g xr xe en0 ([], (NUnbound, NUnbound)));
          rewrite (for_loop_fold (for_step blk [xr; xe] body) gstep (mk_env g xr xe en0) pair_tup);
          [ | let s := fresh "s" in let h := fresh "h" in let G := fresh "G" in let i := fresh "i" in let j := fresh "j" in
              intros s h; destruct s as [G [? ?]]; destruct h as [i j]; unfold mk_env, upd, gstep, bg_step; cbn;
              unfold dmem; destruct (dget G j) eqn:?; cbn;
              [ match goal with H : dget _ _ = _ |- _ => rewrite H end; reflexivity
              | rewrite dget_dset_same; cbn; rewrite dset_dset_same; reflexivity ] ]
      end
  end.


Ltac after_loop := unfold mk_env, upd; cbn; rewrite gstep_fold; cbn [fst]; rewrite <- build_graph_fold.

(* a hit predicate of the program against the model's: syntactic equality after the float lemmas (never full conversion:
   unifying two different fl64 terms does not terminate in practice), or == of the tolerance (operands swapped) *)
Lemma cmpb_compat_r s a b b' : b == b' -> cmpb s a b = cmpb s a b'.
Proof.
  intros H. unfold cmpb. destruct s.
  - destruct (qltb a b) eqn:E1, (qltb a b') eqn:E2; try reflexivity.
    + apply qltb_iff in E1. apply qltb_false_iff in E2. lra.
    + apply qltb_iff in E2. apply qltb_false_iff in E1. lra.
  - destruct (qleb a b) eqn:E1, (qleb a b') eqn:E2; try reflexivity.
    + apply qleb_iff in E1. assert (~ a <= b') by (rewrite <- qleb_iff; congruence). lra.
    + apply qleb_iff in E2. assert (~ a <= b) by (rewrite <- qleb_iff; congruence). lra.
Qed.
Ltac same := match goal with |- ?a = ?b => constr_eq a b; reflexivity | |- ?a == ?b => constr_eq a b; reflexivity end.
Ltac fl_swap := match goal with |- context [fl64 (?a * ?b)] => rewrite (fl64_compat (a * b) (b * a)) by ring end.
Ltac tol_eq := first [same | fl_swap; same | rewrite Q.max_comm; first [same | fl_swap; same]].
Ltac tol_leaf := match goal with |- cmpb ?s ?a ?b = cmpb ?s' ?a' ?b' => constr_eq s s'; constr_eq a a'; apply cmpb_compat_r; tol_eq end.
Ltac hit_leaf :=
  cbv beta; rewrite ?dist_eq, ?pitch_eq; cbv beta;
  first [ same | tol_leaf
        | match goal with |- (?x && ?c)%bool = (?y && ?d)%bool => constr_eq x y; apply (f_equal (andb x)); tol_leaf end ].

(* the signatures the programs and [note_ext] assume *)
Theorem note_sigs_expected :
  map (fun s => (fst s, option_map (map fst) (snd s))) note_sigs =
  [("match_note_offsets", Some ["ref_intervals"; "est_intervals"; "offset_ratio"; "offset_min_tolerance"; "strict"]);
   ("match_note_onsets", Some ["ref_intervals"; "est_intervals"; "onset_tolerance"; "strict"]);
   ("match_notes", Some ["ref_intervals"; "ref_pitches"; "est_intervals"; "est_pitches"; "onset_tolerance"; "pitch_tolerance";
                         "offset_ratio"; "offset_min_tolerance"; "strict"]);
   ("average_overlap_ratio", Some ["ref_intervals"; "est_intervals"; "matching"]);
   ("util.intervals_to_durations", Some ["intervals"]);
   ("util._bipartite_match", Some ["graph"])]%string.
Proof. vm_compute. reflexivity. Qed.

Theorem match_note_onsets_tie : forall ref est tol strict,
  run gen_match_note_onsets [NIvs ref; NIvs est; NFlt tol; NBool strict] = lift_m (match_note_onsets ref est tol strict).
Proof.
  intros. unfold run, run_fun, match_note_onsets, match_pred.
  destruct strict; cbn; rewrite !mmap_outer, outer_map, where_outer;
    match goal with |- context [hits_where ?p ref est] =>
      match goal with |- context [match_hits (hits_where ?q ref est)] =>
      rewrite (hits_where_ext p q ref est) by (intros; unfold onset_hitb; hit_leaf) end end;
    graph_loop; after_loop; unfold match_hits;
    destruct (bipartite_match _); reflexivity.
Qed.


Theorem match_note_offsets_tie : forall ref est ratio mintol strict,
  run gen_match_note_offsets [NIvs ref; NIvs est; NFlt ratio; NFlt mintol; NBool strict] =
  lift_m (match_note_offsets ref est ratio mintol strict).
Proof.
  intros. unfold run, run_fun, match_note_offsets, match_pred.
  destruct strict; cbn; (destruct (validate_ivs ref) as [[]|x]; cbn; [|reflexivity]);
    rewrite !mmap_outer, outer_map, !map_map, outer_length, !map_length, Nat.eqb_refl; cbn;
    rewrite rowcol_outer, where_outer;
    match goal with |- context [hits_where ?p ref est] =>
      match goal with |- context [match_hits (hits_where ?q ref est)] =>
      rewrite (hits_where_ext p q ref est)
        by (intros; unfold offset_hitb, offset_tol; hit_leaf) end end;
    graph_loop; after_loop; unfold match_hits;
    destruct (bipartite_match _); reflexivity.
Qed.

Definition of_oq (o : option Q) : nv := match o with Some q => NFlt q | None => NNone end.
Lemma zip_notes_snd ri rp : length ri = length rp -> map snd (zip_notes ri rp) = map snd rp.
Proof. unfold zip_notes. revert rp. induction ri as [|a t IH]; intros [|p rp] H; try discriminate; [reflexivity|].
  cbn [map combine snd]. f_equal. apply IH. now injection H. Qed.



Ltac shapes := unfold same_shape;
  rewrite ?mmap_outer, ?map_map, ?outer_map, ?rowcol_outer, ?mmap2_outer, ?outer_length, ?map_length, ?Nat.eqb_refl; cbn.
Theorem match_notes_tie : forall ri rp ei ep otol ptol (ratio : option Q) mintol strict,
  length ri = length rp -> length ei = length ep ->
  run gen_match_notes [NIvs ri; NPit rp; NIvs ei; NPit ep; NFlt otol; NFlt ptol; of_oq ratio; NFlt mintol; NBool strict] =
  lift_m (match_notes (zip_notes ri rp) (zip_notes ei ep) otol ptol ratio mintol strict).
Proof.
  intros ri rp ei ep otol ptol ratio mintol strict Hr He. unfold run, run_fun, match_notes, match_pred.
  pose proof (zip_notes_fst ri rp Hr) as Er. pose proof (zip_notes_snd ri rp Hr) as Ep.
  pose proof (zip_notes_fst ei ep He) as Er'. pose proof (zip_notes_snd ei ep He) as Ep'.
  remember (zip_notes ri rp) as Zr. remember (zip_notes ei ep) as Ze. clear HeqZr HeqZe Hr He.
  destruct strict, ratio as [ratio|]; cbn; rewrite <- ?Ep, <- ?Ep', <- ?Er, <- ?Er';
    try (destruct (validate_ivs (map fst Zr)) as [[]|x]; cbn; [|reflexivity]);
    do 3 shapes; rewrite where_outer;
    match goal with |- context [hits_where ?p Zr Ze] =>
      match goal with |- context [match_hits (hits_where ?q Zr Ze)] =>
      rewrite (hits_where_ext p q Zr Ze)
        by (intros; unfold note_hitb, onset_hitb, offset_hitb, offset_tol; hit_leaf) end end;
    unfold match_pred; graph_loop; after_loop; unfold match_pred, match_hits;
    destruct (bipartite_match _); reflexivity.
Qed.

(* ---------- the programs on concrete inputs (outcomes observed on the real mir_eval) ---------- *)
Definition ex_ref : list ivl := [(1#1, 2#1); (3152519739159347#9007199254740992, 3602879701896397#4503599627370496)].    (* [[1, 2], [0.35, 0.8]] *)
Definition ex_est : list ivl := [(1182239938181029#1125899906842624, 2#1); (3602879701896397#9007199254740992, 4728779608739021#4503599627370496)]. (* [[1.05004, 2], [0.4, 1.05]] *)
Definition ex_rp : list pitch := [(440#1, 4943466041704493#562949953421312); (220#1, 4380516088283181#562949953421312)].
Definition ex_ep : list pitch := [(3983750529758003#8796093022208, 620866858889517#70368744177664); (220#1, 4380516088283181#562949953421312)]. (* 452.9 (50.03 cents sharp), 220 *)
Example onsets_strict : run gen_match_note_onsets [NIvs ex_ref; NIvs ex_est; NFlt d005; NBool true] = OK (NPairs []).
Proof. vm_compute. reflexivity. Qed.
Example onsets_weak : run gen_match_note_onsets [NIvs ex_ref; NIvs ex_est; NFlt d005; NBool false] = OK (NPairs [(0, 0); (1, 1)]%nat).
Proof. vm_compute. reflexivity. Qed.
Example offsets_weak : run gen_match_note_offsets [NIvs ex_ref; NIvs ex_est; NFlt d02; NFlt d005; NBool false] = OK (NPairs [(0, 0)]%nat).
Proof. vm_compute. reflexivity. Qed.
Example notes_offsets : run gen_match_notes [NIvs ex_ref; NPit ex_rp; NIvs ex_est; NPit ex_ep; NFlt d005; NFlt 50; NFlt d02; NFlt d005; NBool false] = OK (NPairs []).
Proof. vm_compute. reflexivity. Qed.
Example notes_no_offsets : run gen_match_notes [NIvs ex_ref; NPit ex_rp; NIvs ex_est; NPit ex_ep; NFlt d005; NFlt 50; NNone; NFlt d005; NBool false] = OK (NPairs [(1, 1)]%nat).
Proof. vm_compute. reflexivity. Qed.
Example offsets_invalid : run gen_match_note_offsets [NIvs [(2#1, 1#1)]; NIvs ex_est; NFlt d02; NFlt d005; NBool false] = EXN ValueError.
Proof. vm_compute. reflexivity. Qed.

Print Assumptions note_sigs_expected.
Print Assumptions match_note_onsets_tie.
Print Assumptions match_note_offsets_tie.
Print Assumptions match_notes_tie.
