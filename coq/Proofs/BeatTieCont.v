(* beat.continuity tied to Model/Beat.v by translation (continuation of Proofs/BeatTie.v, BeatTieGoto.v):
   np.argmin against the model's scan (nearest_spec); the two branches of the per-beat test as blocks (cont_first_tie:
   the forward-looking branch with its zero-interval special cases; cont_else_tie: the backward-looking branch with
   IEEE division by a zero interval); one iteration of the loop over the estimated beats against Beat.cont_success
   (cont_step; used_annotations / beat_successes as arrays determined by the model's `used` list and success
   prefix); the loop (cont_inner_loop, by induction); the longest run through np.append / np.nonzero / np.diff / np.max
   against Beat.gaps (cont_post_tie); one metrical variation (cont_outer_step) and all of them (cont_outer_loop,
   against Beat.map_res); the guards, the maxima over the variations and the exceptions (continuity_tie). *)
From Coq Require Import String.
From Coq Require Import List Bool Arith ZArith QArith Qabs Qminmax Qround Lia Lqa.
From ME Require Import Model.Prelude Model.BeatExp Gen.BeatGen Proofs.BeatTie.
From ME Require Model.Beat Proofs.BeatProps.
Import ListNotations.
Open Scope Q_scope.
Local Arguments Qplus : simpl never.
Local Arguments Qminus : simpl never.
Local Arguments Qmult : simpl never.
Local Arguments Qdiv : simpl never.
Local Arguments Qabs : simpl never.
Local Arguments Qopp : simpl never.
Local Arguments inject_Z : simpl never.
Local Arguments qltb !_ !_.
Local Arguments qleb !_ !_.
Local Arguments qeqb !_ !_.
Local Arguments qsum : simpl never.
Local Arguments arange_q : simpl never.
Local Arguments zrange : simpl never.
Local Arguments interp1 : simpl never.
Local Arguments slice_list : simpl never.
Local Arguments Z.of_nat : simpl never.
Local Arguments Z.to_nat !_.
Local Arguments Z.sub !_ !_.
Local Arguments Z.add !_ !_.
Local Arguments Z.mul !_ !_.
Local Arguments Z.ltb !_ !_.
Local Arguments Z.leb !_ !_.
Local Arguments Z.eqb !_ !_.
Local Arguments Nat.eqb !_ !_.
Local Arguments Nat.ltb !_ !_.
Local Arguments Nat.leb !_ !_.
From ME Require Import Proofs.BeatTieGoto.
Local Arguments for_loop : simpl never.
Local Arguments Beat.validate : simpl never.
Local Arguments Beat.variations : simpl never.
Local Arguments get_item : simpl never.
Local Arguments set_item : simpl never.
Local Arguments nz_from : simpl never.
Local Arguments vcount : simpl never.
Local Arguments set_nth : simpl never.
Local Arguments xdiv : simpl never.
Local Arguments argmin : simpl never.
Local Arguments beat_sigs : simpl never.

(* ---------- np.argmin against the model's scan ---------- *)
Record cand_ok (x : Q) (var : list Q) (c : Beat.cand) : Prop := {
  ck_lt : (Beat.c_idx c < length var)%nat;
  ck_val : nth_error var (Beat.c_idx c) = Some (Beat.c_val c);
  ck_diff : Beat.c_diff c = Qabs (x - Beat.c_val c);
  ck_prev : Beat.c_prev c = match Beat.c_idx c with O => None | S j => nth_error var j end;
  ck_next : Beat.c_next c = nth_error var (S (Beat.c_idx c)) }.
Lemma scan_spec x : forall l pre prev best, (pre <> [] -> nth_error pre (length pre - 1) = Some prev) ->
  cand_ok x (pre ++ l) best -> (Beat.c_idx best < length pre)%nat -> pre <> [] ->
  cand_ok x (pre ++ l) (Beat.scan x (length pre) prev l best)
  /\ Beat.c_idx (Beat.scan x (length pre) prev l best)
     = argmin_from (length pre) (Beat.c_idx best) (Beat.c_diff best) (map Qabs (map (fun y => x - y) l)).
Proof.
  induction l as [|v t IH]; intros pre prev best Hprev Hb Hlt Hne.
  - rewrite app_nil_r in *. split; [exact Hb|reflexivity].
  - cbn [Beat.scan map argmin_from].
    assert (Ea : pre ++ v :: t = (pre ++ [v]) ++ t) by (rewrite <- app_assoc; reflexivity).
    assert (El : S (length pre) = length (pre ++ [v])) by (rewrite app_length; cbn; lia).
    rewrite El, Ea.
    destruct (qltb (Qabs (x - v)) (Beat.c_diff best)) eqn:E.
    + apply IH.
      * intros _. rewrite <- El. cbn. rewrite Nat.sub_0_r. apply nth_error_mid.
      * rewrite <- Ea. constructor; cbn [Beat.c_idx Beat.c_val Beat.c_diff Beat.c_prev Beat.c_next].
        -- rewrite app_length. cbn. lia.
        -- apply nth_error_mid.
        -- reflexivity.
        -- destruct (length pre) as [|k] eqn:Ek; [destruct pre; [contradiction|discriminate]|].
           specialize (Hprev Hne). cbn in Hprev. rewrite Nat.sub_0_r in Hprev.
           rewrite nth_error_app1 by lia. symmetry. exact Hprev.
        -- change (pre ++ v :: t) with (pre ++ [v] ++ t). rewrite app_assoc, El, nth_error_app2 by lia.
           rewrite Nat.sub_diag. destruct t; reflexivity.
      * cbn. rewrite <- El. lia.
      * destruct pre; discriminate.
    + apply IH.
      * intros _. rewrite <- El. cbn. rewrite Nat.sub_0_r. apply nth_error_mid.
      * rewrite <- Ea. exact Hb.
      * rewrite <- El. lia.
      * destruct pre; discriminate.
Qed.
Lemma nearest_spec x v0 vt : let c := Beat.nearest x v0 vt in
  cand_ok x (v0 :: vt) c /\ argmin (map Qabs (map (fun y => x - y) (v0 :: vt))) = Some (Beat.c_idx c).
Proof.
  intros c. unfold c, Beat.nearest.
  destruct (scan_spec x vt [v0] v0 (Beat.mk_cand 0 (Qabs (x - v0)) None v0 (hd_error vt))) as [H1 H2].
  - intros _. reflexivity.
  - constructor; cbn; try reflexivity; try lia; destruct vt; reflexivity.
  - cbn. lia.
  - discriminate.
  - split; [exact H1|]. unfold argmin. cbn [map]. f_equal. symmetry. exact H2.
Qed.

(* the callees: any [ext] answering `validate` as the model does and `_get_reference_beat_variations(r)` with the
   arrays [vars_of r] (BeatTie.v, Section Callees) *)
Section Callees.
Variable ext : string -> list bv -> out bv.
Variable vars_of : list Q -> list (list Q).
Hypothesis Xval : forall r e, ext "validate"%string [VArrQ r; VArrQ e] = lift_unit (Beat.validate r e).
Hypothesis Xvars : forall r, ext "_get_reference_beat_variations"%string [VArrQ r] = OK (VTup (map VArrQ (vars_of r))).
Local Notation F := (BeatTie.F ext).
Definition if_then (s : stmt) : list stmt := match s with SIf _ a _ => a | _ => [] end.
Definition if_else (s : stmt) : list stmt := match s with SIf _ _ b => b | _ => [] end.
Definition cont_outer : list stmt := for_body (f_body gen_continuity).
Definition cont_inner : list stmt := for_body cont_outer.
Definition cont_B : stmt := hd SPass (if_then (nth 4 cont_inner SPass)).
Definition cont_first : list stmt := if_then cont_B.
Definition cont_else : list stmt := if_else cont_B.
Definition cont_env (var est : list Q) (pth qth cas tas n : bv) (used bs : list Q) (m bsx bd nr md ri ph ei pe bf lt ca ta : bv) : env :=
  [("reference_beats", VArrQ var); ("estimated_beats", VArrQ est); ("continuity_phase_threshold", pth);
   ("continuity_period_threshold", qth); ("continuous_accuracies", cas); ("total_accuracies", tas); ("n_annotations", n);
   ("used_annotations", VArrQ used); ("beat_successes", VArrQ bs); ("m", m); ("beat_success", bsx);
   ("beat_differences", bd); ("nearest", nr); ("min_difference", md); ("reference_interval", ri); ("phase", ph);
   ("estimated_interval", ei); ("period", pe); ("beat_failures", bf); ("longest_track", lt); ("continuous_accuracy", ca);
   ("total_accuracy", ta)]%string.
Definition upd (x : string) (v : bv) (en : env) : env := match update x v en with Some e => e | None => en end.
Ltac merge_if x v :=
  match goal with |- context [run_block ?f (if ?t then ?A else ?B) ?en] =>
    let H := fresh "Hm" in assert (H : run_block f (if t then A else B) en = SNorm (upd x v en)); [ | rewrite H; clear H ] end.
Ltac gz := repeat progress (cbn; change (inject_Z 0) with 0; change (inject_Z 1) with 1; change (Z.of_nat 0) with 0%Z;
                            rewrite ?get_tup0, ?get_list0, ?get_q0, ?get_z0, ?Zsub_S, ?Zadd_S).
Lemma zltb_nth {A} (l : list A) k : (Z.of_nat k <? Z.of_nat (length l))%Z = match nth_error l k with Some _ => true | None => false end.
Proof.
  destruct (nth_error l k) eqn:E.
  - apply Z.ltb_lt. assert (k < length l)%nat by (apply nth_error_Some; rewrite E; discriminate). lia.
  - apply Z.ltb_ge. apply nth_error_None in E. lia.
Qed.
Definition first_ok (d ri ei pth qth : Q) : bool :=
  if qeqb ri 0 then qeqb d 0 && qltb 1 pth && qeqb ei 0 && qltb 0 qth else Beat.ratio_ok d ei ri pth qth.

Lemma cont_first_tie fexp var est pp pth pq qth cas tas n used bs m i d bd cv cn pw e en pe r0 p0 e0 q0 bf lt ca ta :
  nth_error var i = Some cv -> nth_error var (S i) = cn ->
  (cn = None -> get_item (VArrQ var) (VInt false (Z.of_nat i - 1)) = OK (VFlt false (Fin pw))) ->
  nth_error est m = Some e -> nth_error est (S m) = en ->
  (en = None -> get_item (VArrQ est) (VInt true (Z.of_nat m - 1)) = OK (VFlt false (Fin pe))) ->
  (i < length used)%nat ->
  let ri := match cn with Some vn => vn - cv | None => cv - pw end in
  let ei := match en with Some x => x - e | None => e - pe end in
  let ok := first_ok d ri ei pth qth in
  exists ph' pe',
  run_block (F fexp) cont_first
    (cont_env var est (VFlt pp (Fin pth)) (VFlt pq (Fin qth)) cas tas n used bs (VInt true (Z.of_nat m)) (VInt true 0) bd
       (VInt false (Z.of_nat i)) (VFlt false (Fin d)) r0 p0 e0 q0 bf lt ca ta)
  = SNorm (cont_env var est (VFlt pp (Fin pth)) (VFlt pq (Fin qth)) cas tas n (if ok then set_nth used i 1 else used) bs
             (VInt true (Z.of_nat m)) (VInt true (if ok then 1 else 0)) bd
             (VInt false (Z.of_nat i)) (VFlt false (Fin d)) (VFlt false (Fin ri)) ph' (VFlt false (Fin ei)) pe' bf lt ca ta).
Proof.
  intros Hval Hnext Hpw He Hen Hpe Hin ri ei ok.
  unfold cont_first, cont_B, cont_inner, cont_outer, cont_env, F. gz.
  rewrite zltb_nth, Hnext.
  merge_if "reference_interval"%string (VFlt false (Fin ri)).
  { unfold ri. destruct cn as [vn|].
    - gz. rewrite (get_q _ _ _ _ Hnext), (get_q _ _ _ _ Hval). gz. reflexivity.
    - gz. rewrite (get_q _ _ _ _ Hval), (Hpw eq_refl). gz. reflexivity. }
  gz.
  merge_if "phase"%string (if qeqb ri 0 then (if qeqb d 0 then VInt true 1 else VFlt true PInf) else VFlt false (Fin (Qabs (d / ri)))).
  { destruct (qeqb ri 0) eqn:Er; gz.
    - destruct (qeqb d 0); gz; reflexivity.
    - unfold xdiv. rewrite Er. gz. reflexivity. }
  gz. rewrite zltb_nth, Hen.
  merge_if "estimated_interval"%string (VFlt false (Fin ei)).
  { unfold ei. destruct en as [x|].
    - gz. rewrite (get_q _ _ _ _ Hen), (get_q _ _ _ _ He). gz. reflexivity.
    - gz. rewrite (get_q _ _ _ _ He), (Hpe eq_refl). gz. reflexivity. }
  gz.
  merge_if "period"%string (if qeqb ri 0 then (if qeqb ei 0 then VInt true 0 else VFlt true PInf) else VFlt false (Fin (Qabs (1 - ei / ri)))).
  { destruct (qeqb ri 0) eqn:Er; gz.
    - destruct (qeqb ei 0); gz; reflexivity.
    - unfold xdiv. rewrite Er. gz. reflexivity. }
  gz.
  unfold ok, first_ok, Beat.ratio_ok.
  destruct (qeqb ri 0) eqn:Er.
  - destruct (qeqb d 0) eqn:Ed; destruct (qeqb ei 0) eqn:Ee; gz;
      try (destruct (qltb 1 pth) eqn:E1; gz); try (destruct (qltb 0 qth) eqn:E2; gz);
      rewrite ?(set_q used i false (VInt true 1) 1 eq_refl Hin); gz; do 2 eexists; reflexivity.
  - gz. destruct (qltb (Qabs (d / ri)) pth) eqn:E1; gz; [destruct (qltb (Qabs (1 - ei / ri)) qth) eqn:E2; gz|];
      rewrite ?(set_q used i false (VInt true 1) 1 eq_refl Hin); gz; do 2 eexists; reflexivity.
Qed.

Definition else_ok (d ri ei pth qth : Q) : bool := if qeqb ri 0 then false else Beat.ratio_ok d ei ri pth qth.
Lemma cont_else_tie fexp var est pp pth pq qth cas tas n used bs k j d bd cv vp e p r0 p0 e0 q0 bf lt ca ta :
  nth_error var (S j) = Some cv -> nth_error var j = Some vp ->
  nth_error est (S k) = Some e -> nth_error est k = Some p ->
  (S j < length used)%nat ->
  let ri := cv - vp in let ei := e - p in
  let ok := else_ok d ri ei pth qth in
  exists ph' pe',
  run_block (F fexp) cont_else
    (cont_env var est (VFlt pp (Fin pth)) (VFlt pq (Fin qth)) cas tas n used bs (VInt true (Z.of_nat (S k))) (VInt true 0) bd
       (VInt false (Z.of_nat (S j))) (VFlt false (Fin d)) r0 p0 e0 q0 bf lt ca ta)
  = SNorm (cont_env var est (VFlt pp (Fin pth)) (VFlt pq (Fin qth)) cas tas n (if ok then set_nth used (S j) 1 else used) bs
             (VInt true (Z.of_nat (S k))) (VInt true (if ok then 1 else 0)) bd
             (VInt false (Z.of_nat (S j))) (VFlt false (Fin d)) (VFlt false (Fin ri)) ph' (VFlt false (Fin ei)) pe' bf lt ca ta).
Proof.
  intros Hval Hprev He Hp Hin ri ei ok.
  unfold cont_else, cont_B, cont_inner, cont_outer, cont_env, F.
  repeat progress (gz; rewrite ?(get_q _ _ _ _ Hval), ?(get_q _ _ _ _ Hprev), ?(get_q _ _ _ _ He), ?(get_q _ _ _ _ Hp)).
  fold ri. fold ei. unfold ok, else_ok, Beat.ratio_ok.
  destruct (qeqb ri 0) eqn:Er.
  - unfold xdiv. rewrite !Er. destruct (qeqb d 0); [|destruct (qltb 0 d)]; gz; do 2 eexists; reflexivity.
  - unfold xdiv. rewrite !Er. gz.
    destruct (qltb (Qabs (d / ri)) pth) eqn:E1; gz; [destruct (qltb (Qabs (1 - ei / ri)) qth) eqn:E2; gz|];
      rewrite ?(set_q used (S j) false (VInt true 1) 1 eq_refl Hin); gz; do 2 eexists; reflexivity.
Qed.

Local Arguments cont_first : simpl never.
Local Arguments cont_else : simpl never.
Definition used_arr (n : nat) (used : list nat) : list Q := map (fun i => b2q (existsb (Nat.eqb i) used)) (seq 0 n).
Definition succ_arr (n : nat) (done : list bool) : list Q := map b2q done ++ repeat 0 (n - length done).
Lemma used_arr_length n used : length (used_arr n used) = n.
Proof. unfold used_arr. rewrite map_length, seq_length. reflexivity. Qed.
Lemma used_arr_nth n used i : (i < n)%nat -> nth_error (used_arr n used) i = Some (b2q (existsb (Nat.eqb i) used)).
Proof. intros H. unfold used_arr. rewrite (nth_error_map_nth _ _ _ 0%nat) by (rewrite seq_length; exact H). rewrite seq_nth by exact H. reflexivity. Qed.
Lemma set_nth_map_seq {B} (f : nat -> B) v : forall n a i, (i < n)%nat ->
  set_nth (map f (seq a n)) i v = map (fun k => if Nat.eqb k (a + i) then v else f k) (seq a n).
Proof.
  induction n as [|n IH]; intros a i H; [lia|]. cbn [seq map]. destruct i as [|i].
  - change (set_nth (f a :: map f (seq (S a) n)) 0 v) with (v :: map f (seq (S a) n)).
    rewrite Nat.add_0_r, Nat.eqb_refl. f_equal. apply map_ext_in. intros k Hk. apply in_seq in Hk.
    replace (Nat.eqb k a) with false by (symmetry; apply Nat.eqb_neq; lia). reflexivity.
  - change (set_nth (f a :: map f (seq (S a) n)) (S i) v) with (f a :: set_nth (map f (seq (S a) n)) i v).
    rewrite IH by lia. replace (Nat.eqb a (a + S i)) with false by (symmetry; apply Nat.eqb_neq; lia). f_equal.
    apply map_ext. intros k. replace (S a + i)%nat with (a + S i)%nat by lia. reflexivity.
Qed.
Lemma used_arr_set n used i : (i < n)%nat -> set_nth (used_arr n used) i 1 = used_arr n (i :: used).
Proof.
  intros H. unfold used_arr. rewrite set_nth_map_seq by exact H. apply map_ext. intros k. cbn [existsb Nat.add].
  destruct (Nat.eqb k i); reflexivity.
Qed.
Lemma succ_arr_length n done : (length done <= n)%nat -> length (succ_arr n done) = n.
Proof. intros H. unfold succ_arr. rewrite app_length, map_length, repeat_length. lia. Qed.
Lemma succ_arr_set n done b : (length done < n)%nat -> set_nth (succ_arr n done) (length done) (b2q b) = succ_arr n (done ++ [b]).
Proof.
  intros H. unfold succ_arr. replace (n - length done)%nat with (S (n - length (done ++ [b]))) by (rewrite app_length; cbn; lia).
  cbn [repeat]. pose proof (set_nth_mid (map b2q done) 0 (repeat 0 (n - length (done ++ [b]))) (b2q b)) as E.
  rewrite map_length in E. rewrite E, map_app, <- app_assoc. reflexivity.
Qed.

Definition cont_pre : list stmt := firstn 4 cont_inner.
Definition cU : exp := match nth 4 cont_inner SPass with SIf c _ _ => c | _ => ENone end.
Definition cB : exp := match cont_B with SIf c _ _ => c | _ => ENone end.
Definition cont_set : stmt := nth 5 cont_inner SPass.
Lemma cont_inner_split : cont_inner = cont_pre ++ [SIf cU [SIf cB cont_first cont_else] []; cont_set].
Proof. reflexivity. Qed.
Definition eprev_ok (eprev : option Q) (epre : list Q) : Prop :=
  match eprev with None => epre = [] | Some p => exists pp, epre = pp ++ [p] end.

Ltac use_blk E blk :=
  match type of E with _ = ?R =>
    match goal with |- context [run_block ?f blk ?en] => replace (run_block f blk en) with R by (symmetry; exact E) end end.
Lemma cont_step fexp var v0 vt est epre e epost eprev pp pth pq qth cas tas nv n used done
      s1 s2 s3 s4 s5 s6 s7 s8 s9 bf lt ca ta :
  var = v0 :: vt -> est = epre ++ e :: epost -> eprev_ok eprev epre ->
  length done = length epre -> (length var <= n)%nat -> (length est <= n)%nat ->
  let c := Beat.nearest e v0 vt in
  let ok := negb (existsb (Nat.eqb (Beat.c_idx c)) used) && Beat.cont_success eprev e (hd_error epost) c pth qth in
  exists t1 t2 t3 t4 t5 t6 t7 t8 t9,
  for_step (run_block (F fexp)) "m" cont_inner (VInt true (Z.of_nat (length epre)))
    (cont_env var est (VFlt pp (Fin pth)) (VFlt pq (Fin qth)) cas tas nv (used_arr n used) (succ_arr n done)
       s1 s2 s3 s4 s5 s6 s7 s8 s9 bf lt ca ta)
  = SNorm (cont_env var est (VFlt pp (Fin pth)) (VFlt pq (Fin qth)) cas tas nv
             (used_arr n (if ok then Beat.c_idx c :: used else used)) (succ_arr n (done ++ [ok]))
             t1 t2 t3 t4 t5 t6 t7 t8 t9 bf lt ca ta).
Proof.
  intros Hvar Hest Hep Hdone Hnv Hne c ok.
  destruct (nearest_spec e v0 vt) as [[Hlt Hval Hdiff Hprev Hnext] Harg]. fold c in Hlt, Hval, Hdiff, Hprev, Hnext, Harg.
  rewrite <- Hvar in *. clear Hvar.
  remember (Beat.c_idx c) as i eqn:Ei.
  assert (He : nth_error est (length epre) = Some e) by (rewrite Hest; apply nth_error_mid).
  assert (Hd : nth_error (map Qabs (map (fun y => e - y) var)) i = Some (Beat.c_diff c)).
  { rewrite Hdiff. apply map_nth_error. apply (map_nth_error (fun y => e - y)). exact Hval. }
  assert (Hin : (i < n)%nat) by lia.
  assert (Hmn : (length done < n)%nat) by (rewrite Hdone; rewrite Hest, app_length in Hne; cbn [length] in Hne; lia).
  rewrite cont_inner_split. unfold for_step. cbn [set1 cont_env update String.eqb Ascii.eqb Bool.eqb option_map]. rewrite run_block_app.
  unfold cont_pre, cont_inner, cont_outer, cont_env, F.
  repeat progress (gz; rewrite ?(get_q _ _ _ _ He), ?Harg, ?(get_q _ _ _ _ Hd), ?(get_q _ _ _ _ (used_arr_nth n used i Hin))).
  match goal with |- context [run_block ?f (if ?t then ?A else ?B) ?en] =>
    assert (Hm : exists x6 x7 x8 x9, run_block f (if t then A else B) en
      = SNorm (cont_env var est (VFlt pp (Fin pth)) (VFlt pq (Fin qth)) cas tas nv
                 (if ok then set_nth (used_arr n used) i 1 else used_arr n used) (succ_arr n done)
                 (VInt true (Z.of_nat (length epre))) (VInt true (if ok then 1 else 0))
                 (VArrQ (map Qabs (map (fun y : Q => e - y) var))) (VInt false (Z.of_nat i)) (VFlt false (Fin (Beat.c_diff c)))
                 x6 x7 x8 x9 bf lt ca ta)) end.
  { destruct (existsb (Nat.eqb i) used) eqn:Eu.
    - exists s6, s7, s8, s9. unfold ok. cbn. reflexivity.
    - assert (Hiu : (i < length (used_arr n used))%nat) by (rewrite used_arr_length; exact Hin).
      set (pw := match Beat.c_prev c with Some vp => vp | None => Beat.c_val c end).
      set (pe := match eprev with Some ep => ep | None => e end).
      assert (Hen : nth_error est (S (length epre)) = hd_error epost).
      { rewrite Hest. change (e :: epost) with ([e] ++ epost). rewrite app_assoc, nth_error_app2 by (rewrite app_length; cbn; lia).
        rewrite app_length. cbn [length]. replace (S (length epre) - (length epre + 1))%nat with 0%nat by lia. destruct epost; reflexivity. }
      pose proof (fun Hpw Hpe => cont_first_tie fexp var est pp pth pq qth cas tas nv (used_arr n used) (succ_arr n done) (length epre) i
                 (Beat.c_diff c) (VArrQ (map Qabs (map (fun y : Q => e - y) var))) (Beat.c_val c) (Beat.c_next c) pw e (hd_error epost) pe s6 s7 s8 s9 bf lt ca ta
                 Hval (eq_sym Hnext) Hpw He Hen Hpe Hiu) as First. cbv zeta in First.
      assert (Hpe_gen : hd_error epost = None -> get_item (VArrQ est) (VInt true (Z.of_nat (length epre) - 1)) = OK (VFlt false (Fin pe))).
      { intros Hn. destruct epost; [|discriminate]. unfold pe. destruct eprev as [p|]; cbn [eprev_ok] in Hep.
        - destruct Hep as [pp' Hepre]. rewrite Hest, Hepre, <- app_assoc, app_length. cbn [length app].
          replace (Z.of_nat (length pp' + 1) - 1)%Z with (Z.of_nat (length pp')) by lia. apply get_q, nth_error_mid.
        - subst epre est. reflexivity. }
      assert (Hpw_gen : Beat.c_next c = None -> get_item (VArrQ var) (VInt false (Z.of_nat i - 1)) = OK (VFlt false (Fin pw))).
      { intros Hcn. unfold pw. rewrite Hprev. destruct i as [|j].
        - rewrite Hnext in Hcn. destruct var as [|a [|b t]]; try discriminate. injection Hval as <-. reflexivity.
        - rewrite Zsub_S. destruct (nth_error var j) as [vp|] eqn:Ej; [apply get_q; exact Ej|]. apply nth_error_None in Ej. lia. }
      specialize (First Hpw_gen Hpe_gen). destruct First as (ph' & pe' & First). unfold cont_env, F in First.
      assert (Hfirst : eprev = None \/ i = 0%nat -> ok = first_ok (Beat.c_diff c)
                 match Beat.c_next c with Some vn => vn - Beat.c_val c | None => Beat.c_val c - pw end
                 match hd_error epost with Some x => x - e | None => e - pe end pth qth).
      { intros Hc. unfold ok, first_ok, Beat.cont_success, pw, pe. rewrite <- Ei. cbn [negb andb].
        destruct Hc as [-> | ->]; [reflexivity|]. destruct eprev; reflexivity. }
      destruct eprev as [p|] eqn:Eep; cbn [eprev_ok] in Hep.
      + destruct Hep as [pp' Hepre].
        assert (Hlen : length epre = S (length pp')) by (rewrite Hepre, app_length; cbn; lia).
        gz. rewrite Hlen, zof_S_eq0. gz.
        destruct i as [|j].
        * gz. rewrite <- Hlen. use_blk First cont_first. rewrite <- (Hfirst (or_intror eq_refl)). do 4 eexists. reflexivity.
        * rewrite zof_S_eq0. gz.
          destruct (nth_error var j) as [vp|] eqn:Ej; [|apply nth_error_None in Ej; lia].
          assert (Hp : nth_error est (length pp') = Some p) by (rewrite Hest, Hepre, <- app_assoc; apply nth_error_mid).
          rewrite Hlen in He.
          destruct (cont_else_tie fexp var est pp pth pq qth cas tas nv (used_arr n used) (succ_arr n done) (length pp') j
                      (Beat.c_diff c) (VArrQ (map Qabs (map (fun y : Q => e - y) var))) (Beat.c_val c) vp e p s6 s7 s8 s9 bf lt ca ta
                      Hval Ej He Hp Hiu) as (ph2 & pe2 & Else).
          unfold cont_env, F in Else. use_blk Else cont_else.
          assert (Hok : ok = else_ok (Beat.c_diff c) (Beat.c_val c - vp) (e - p) pth qth).
          { unfold ok, else_ok, Beat.cont_success. rewrite <- Ei, Hprev. cbn [negb andb]. reflexivity. }
          rewrite <- Hok. do 4 eexists. reflexivity.
      + gz. subst epre. gz. use_blk First cont_first. rewrite <- (Hfirst (or_introl eq_refl)). do 4 eexists. reflexivity. }
  destruct Hm as (x6 & x7 & x8 & x9 & Hm). rewrite Hm. clear Hm. unfold cont_env. gz. rewrite <- Hdone.
  assert (Hl : (length done < length (succ_arr n done))%nat) by (rewrite succ_arr_length; lia).
  destruct ok.
  - rewrite (set_q (succ_arr n done) (length done) true (VInt true 1) (b2q true) eq_refl Hl). gz.
    pose proof (succ_arr_set n done true Hmn) as Hs. cbn [b2q] in Hs. rewrite Hs. rewrite used_arr_set by exact Hin. do 9 eexists. reflexivity.
  - rewrite (set_q (succ_arr n done) (length done) true (VInt true 0) (b2q false) eq_refl Hl). gz.
    pose proof (succ_arr_set n done false Hmn) as Hs. cbn [b2q] in Hs. rewrite Hs. do 9 eexists. reflexivity.
Qed.

Lemma cont_inner_loop fexp var v0 vt est pp pth pq qth cas tas nv n bf lt ca ta :
  var = v0 :: vt -> (length var <= n)%nat -> (length est <= n)%nat ->
  forall rest epre eprev used done s1 s2 s3 s4 s5 s6 s7 s8 s9,
  est = epre ++ rest -> eprev_ok eprev epre -> length done = length epre ->
  exists used' t1 t2 t3 t4 t5 t6 t7 t8 t9,
  for_loop (for_step (run_block (F fexp)) "m" cont_inner) (map (fun k => VInt true (Z.of_nat k)) (seq (length epre) (length rest)))
    (cont_env var est (VFlt pp (Fin pth)) (VFlt pq (Fin qth)) cas tas nv (used_arr n used) (succ_arr n done)
       s1 s2 s3 s4 s5 s6 s7 s8 s9 bf lt ca ta)
  = SNorm (cont_env var est (VFlt pp (Fin pth)) (VFlt pq (Fin qth)) cas tas nv (used_arr n used')
             (succ_arr n (done ++ Beat.cont_loop v0 vt pth qth eprev rest used)) t1 t2 t3 t4 t5 t6 t7 t8 t9 bf lt ca ta).
Proof.
  intros Hvar Hnv Hne. induction rest as [|e epost IH]; intros epre eprev used done s1 s2 s3 s4 s5 s6 s7 s8 s9 Hest Hep Hdone.
  - exists used, s1, s2, s3, s4, s5, s6, s7, s8, s9. cbn [length seq map Beat.cont_loop]. rewrite app_nil_r. reflexivity.
  - cbn [length seq map]. rewrite for_loop_cons.
    destruct (cont_step fexp var v0 vt est epre e epost eprev pp pth pq qth cas tas nv n used done
                s1 s2 s3 s4 s5 s6 s7 s8 s9 bf lt ca ta Hvar Hest Hep Hdone Hnv Hne) as (t1 & t2 & t3 & t4 & t5 & t6 & t7 & t8 & t9 & E).
    rewrite E. clear E. cbn [Beat.cont_loop].
    set (c := Beat.nearest e v0 vt).
    set (ok := negb (existsb (Nat.eqb (Beat.c_idx c)) used) && Beat.cont_success eprev e (hd_error epost) c pth qth).
    assert (Hest' : est = (epre ++ [e]) ++ epost) by (rewrite <- app_assoc; exact Hest).
    assert (Hdone' : length (done ++ [ok]) = length (epre ++ [e])) by (rewrite !app_length, Hdone; reflexivity).
    destruct (IH (epre ++ [e]) (Some e) (if ok then Beat.c_idx c :: used else used) (done ++ [ok]) t1 t2 t3 t4 t5 t6 t7 t8 t9 Hest'
                ltac:(exists epre; reflexivity) Hdone') as (used' & u1 & u2 & u3 & u4 & u5 & u6 & u7 & u8 & u9 & E).
    exists used', u1, u2, u3, u4, u5, u6, u7, u8, u9.
    replace (S (length epre)) with (length (epre ++ [e])) by (rewrite app_length; cbn; lia).
    rewrite E, <- app_assoc. reflexivity.
Qed.

Local Arguments cont_inner : simpl never.
(* ---------- the longest run of successes ---------- *)
Lemma gaps_diffs l : forall p cur,
  Beat.nat_diffs (p :: Beat.flatnonzero_from (S p + cur) (map negb l)) = Beat.gaps cur l.
Proof.
  induction l as [|b t IH]; intros p cur; [reflexivity|]. cbn [map Beat.flatnonzero_from Beat.gaps]. destruct b; cbn [negb].
  - replace (S (S p + cur)) with (S p + S cur)%nat by lia. apply IH.
  - unfold Beat.nat_diffs. cbn [tl combine map fst snd]. f_equal; [lia|].
    replace (S (S p + cur)) with (S (S p + cur) + 0)%nat by lia. apply (IH (S p + cur)%nat 0%nat).
Qed.
Lemma gaps_pos l : forall cur, Forall (fun g => (1 <= g)%nat) (Beat.gaps cur l).
Proof. induction l as [|b t IH]; intros cur; [constructor|]. destruct b; cbn [Beat.gaps]; [apply IH|constructor; [lia|apply IH]]. Qed.
Lemma gaps_snoc_ne l : forall cur, Beat.gaps cur (l ++ [false]) <> [].
Proof. induction l as [|b t IH]; intros cur; cbn [app Beat.gaps]; [discriminate|]. destruct b; [apply IH|discriminate]. Qed.
Lemma nat_max_ge1 l : l <> [] -> Forall (fun g => (1 <= g)%nat) l -> (1 <= Beat.nat_max l)%nat.
Proof. destruct l as [|x t]; [contradiction|]. intros _ H. inversion H; subst. unfold Beat.nat_max. cbn [fold_right]. lia. Qed.
Lemma qeqb_b2q b : qeqb (b2q b) 0 = negb b. Proof. destruct b; reflexivity. Qed.
Lemma qsum_b2q l : qsum (map b2q l) == Beat.qnat (Beat.count_true l).
Proof.
  unfold Beat.count_true, qsum. induction l as [|b t IH]; [reflexivity|]. cbn [map fold_right filter]. rewrite IH. destruct b; cbn [length b2q].
  - rewrite BeatProps.qnat_S. ring.
  - ring.
Qed.
Lemma py_slice_inner {A} (a b : A) l : py_slice 1 (-1) (a :: l ++ [b]) = l.
Proof.
  unfold py_slice, py_norm. cbn [length]. rewrite app_length. cbn [length].
  replace (1 <? 0)%Z with false by reflexivity. replace (-1 <? 0)%Z with true by reflexivity.
  replace (Z.min 1 (Z.of_nat (S (length l + 1)))) with 1%Z by lia.
  replace (Z.max (-1 + Z.of_nat (S (length l + 1))) 0) with (Z.of_nat (S (length l))) by lia.
  change (Z.to_nat 1) with 1%nat. cbn [skipn]. replace (Z.to_nat (Z.of_nat (S (length l)) - 1)) with (length l) by lia.
  rewrite firstn_app, firstn_all, Nat.sub_diag. cbn [firstn]. apply app_nil_r.
Qed.
Lemma succ_arr_full n l : succ_arr n l = map b2q (l ++ repeat false (n - length l)).
Proof. unfold succ_arr. rewrite map_app. f_equal. induction (n - length l)%nat; [reflexivity|]. cbn [repeat map]. f_equal. assumption. Qed.
Lemma used_arr_nil n : repeat 0 n = used_arr n [].
Proof. unfold used_arr. cbn [existsb b2q]. generalize 0%nat. induction n as [|n IH]; intros a; [reflexivity|]. cbn [repeat seq map]. f_equal. apply IH. Qed.
Lemma succ_arr_nil n : repeat 0 n = succ_arr n [].
Proof. unfold succ_arr. cbn [map length app]. rewrite Nat.sub_0_r. reflexivity. Qed.

Definition cont_post : list stmt := after_for cont_outer.
Lemma cont_post_tie fexp var est pth qth cas tas nv used (succ : list bool) s1 s2 s3 s4 s5 s6 s7 s8 s9 bf0 lt0 ca0 ta0 :
  succ <> [] ->
  exists q1 q2 bf lt,
  run_block (F fexp) cont_post
    (cont_env var est pth qth (VList cas) (VList tas) nv used (map b2q succ) s1 s2 s3 s4 s5 s6 s7 s8 s9 bf0 lt0 ca0 ta0)
  = SNorm (cont_env var est pth qth (VList (cas ++ [VFlt false (Fin q1)])) (VList (tas ++ [VFlt false (Fin q2)])) nv used (map b2q succ)
             s1 s2 s3 s4 s5 s6 s7 s8 s9 bf lt (VFlt false (Fin q1)) (VFlt false (Fin q2)))
  /\ q1 == Beat.qnat (Beat.nat_max (Beat.gaps 0 (succ ++ [false])) - 1) / Beat.qnat (length succ)
  /\ q2 == Beat.qnat (Beat.count_true succ) / Beat.qnat (length succ).
Proof.
  intros Hne. unfold cont_post, cont_outer, cont_env, F. gz.
  set (g := Beat.gaps 0 (succ ++ [false])).
  assert (Hflags : map (fun x : Q => qeqb x 0) (map b2q succ ++ [0]) = map negb (succ ++ [false])).
  { rewrite !map_app, map_map. cbn [map]. f_equal. apply map_ext. apply qeqb_b2q. }
  assert (H1 : nz_from 0 (true :: map (fun x : Q => qeqb x 0) (map b2q succ ++ [0]))
               = map Z.of_nat (0%nat :: Beat.flatnonzero_from 1 (map negb (succ ++ [false])))).
  { rewrite Hflags. exact (nz_from_nat (true :: map negb (succ ++ [false])) 0%nat). }
  assert (H2 : zdiffs (map Z.of_nat (0%nat :: Beat.flatnonzero_from 1 (map negb (succ ++ [false])))) = map Z.of_nat g).
  { rewrite zdiffs_nat by (exact (proj1 (fnz_chain (true :: map negb (succ ++ [false])) 0%nat))).
    f_equal. exact (gaps_diffs (succ ++ [false]) 0%nat 0%nat). }
  assert (Hg : g <> []) by apply gaps_snoc_ne.
  assert (Hg1 : (1 <= Beat.nat_max g)%nat) by (apply nat_max_ge1; [exact Hg|apply gaps_pos]).
  rewrite !H1, H2, (zmax_list_nat g Hg), slice_step1.
  change (Beat.py_slice 1 (-1) (0 :: map b2q succ ++ [0])) with (py_slice 1 (-1) (0 :: map b2q succ ++ [0])).
  rewrite py_slice_inner. gz. rewrite map_length.
  assert (Hlen : 0 < Beat.qnat (length succ)).
  { apply BeatProps.qnat_pos. destruct succ; [contradiction|cbn; lia]. }
  assert (Hden : qeqb (1 * inject_Z (Z.of_nat (length succ))) 0 = false).
  { apply qeqb_f. unfold Beat.qnat in Hlen. lra. }
  unfold xdiv. rewrite !Hden. gz.
  do 4 eexists. split; [reflexivity|]. split.
  - unfold Beat.qnat. replace (Z.of_nat (Beat.nat_max g - 1)) with (Z.of_nat (Beat.nat_max g) - 1)%Z by lia.
    apply Qdiv_comp; [reflexivity|ring].
  - rewrite qsum_b2q. unfold Beat.qnat. apply Qdiv_comp; [reflexivity|ring].
Qed.

Local Arguments cont_post : simpl never.
Local Arguments Z.max : simpl never.
Definition cont_envg (var est : list Q) (pth qth cas tas n used bs m bsx bd nr md ri ph ei pe bf lt ca ta : bv) : env :=
  [("reference_beats", VArrQ var); ("estimated_beats", VArrQ est); ("continuity_phase_threshold", pth);
   ("continuity_period_threshold", qth); ("continuous_accuracies", cas); ("total_accuracies", tas); ("n_annotations", n);
   ("used_annotations", used); ("beat_successes", bs); ("m", m); ("beat_success", bsx);
   ("beat_differences", bd); ("nearest", nr); ("min_difference", md); ("reference_interval", ri); ("phase", ph);
   ("estimated_interval", ei); ("period", pe); ("beat_failures", bf); ("longest_track", lt); ("continuous_accuracy", ca);
   ("total_accuracy", ta)]%string.
Definition cont_it : exp := match from_for cont_outer with SFor _ it _ :: _ => it | _ => ENone end.
Lemma cont_outer_split : cont_outer = before_for cont_outer ++ SFor "m" cont_it cont_inner :: cont_post.
Proof. reflexivity. Qed.

Lemma cont_outer_step fexp var0 v0 vt est pp pth pq qth cas tas n0 u0 b0 s1 s2 s3 s4 s5 s6 s7 s8 s9 bf0 lt0 ca0 ta0 :
  exists q1 q2 nv used bs t1 t2 t3 t4 t5 t6 t7 t8 t9 bf lt,
  for_step (run_block (F fexp)) "reference_beats" cont_outer (VArrQ (v0 :: vt))
    (cont_envg var0 est (VFlt pp (Fin pth)) (VFlt pq (Fin qth)) (VList cas) (VList tas) n0 u0 b0 s1 s2 s3 s4 s5 s6 s7 s8 s9 bf0 lt0 ca0 ta0)
  = SNorm (cont_envg (v0 :: vt) est (VFlt pp (Fin pth)) (VFlt pq (Fin qth)) (VList (cas ++ [VFlt false (Fin q1)])) (VList (tas ++ [VFlt false (Fin q2)]))
             nv used bs t1 t2 t3 t4 t5 t6 t7 t8 t9 bf lt (VFlt false (Fin q1)) (VFlt false (Fin q2)))
  /\ exists c t, Beat.continuity_var (v0 :: vt) est pth qth = Ok (c, t) /\ q1 == c /\ q2 == t.
Proof.
  remember (v0 :: vt) as var eqn:Hvar.
  set (n := Nat.max (length var) (length est)).
  rewrite cont_outer_split. unfold for_step, cont_envg. cbn [set1 update String.eqb Ascii.eqb Bool.eqb option_map]. rewrite run_block_app.
  unfold cont_outer, F. gz.
  rewrite <- Nat2Z.inj_max. fold n. repeat progress (gz; rewrite ?zle0_nat, ?Nat2Z.id).
  rewrite zrange_0, map_map.
  destruct (cont_inner_loop fexp var v0 vt est pp pth pq qth (VList cas) (VList tas) (VInt false (Z.of_nat n)) n bf0 lt0 ca0 ta0
              Hvar (Nat.le_max_l _ _) (Nat.le_max_r _ _) est [] None [] [] s1 s2 s3 s4 s5 s6 s7 s8 s9 eq_refl eq_refl eq_refl)
    as (used' & t1 & t2 & t3 & t4 & t5 & t6 & t7 & t8 & t9 & E).
  cbn [length app] in E. rewrite <- used_arr_nil, <- succ_arr_nil in E. unfold cont_env, F in E.
  match type of E with _ = ?R =>
    match goal with |- context [for_loop ?st ?els ?en] => replace (for_loop st els en) with R by (symmetry; exact E) end end.
  clear E. rewrite succ_arr_full, BeatProps.cont_loop_length.
  set (succ := Beat.cont_loop v0 vt pth qth None est [] ++ repeat false (n - length est)).
  assert (Hlen : length succ = n).
  { unfold succ. rewrite app_length, BeatProps.cont_loop_length, repeat_length. pose proof (Nat.le_max_r (length var) (length est)). fold n in H. lia. }
  assert (Hne : succ <> []).
  { intros Hs. rewrite Hs in Hlen. cbn in Hlen. pose proof (Nat.le_max_l (length var) (length est)) as Hl. fold n in Hl. rewrite Hvar in Hl. cbn in Hl. lia. }
  destruct (cont_post_tie fexp var est (VFlt pp (Fin pth)) (VFlt pq (Fin qth)) cas tas (VInt false (Z.of_nat n)) (used_arr n used') succ
              t1 t2 t3 t4 t5 t6 t7 t8 t9 bf0 lt0 ca0 ta0 Hne) as (q1 & q2 & bf & lt & E & Hq1 & Hq2).
  unfold cont_env, F in E. use_blk E cont_post. clear E.
  exists q1, q2. do 14 eexists. split; [reflexivity|].
  exists (Beat.qnat (Beat.nat_max (Beat.gaps 0 (succ ++ [false])) - 1) / Beat.qnat n), (Beat.qnat (Beat.count_true succ) / Beat.qnat n).
  split; [|rewrite <- Hlen; split; assumption].
  rewrite Hvar. unfold Beat.continuity_var. rewrite <- Hvar. fold n. fold succ. reflexivity.
Qed.

Lemma cont_outer_step_nil fexp var0 e0 et pthv qthv cas tas n0 u0 b0 s1 s2 s3 s4 s5 s6 s7 s8 s9 bf0 lt0 ca0 ta0 :
  for_step (run_block (F fexp)) "reference_beats" cont_outer (VArrQ [])
    (cont_envg var0 (e0 :: et) pthv qthv cas tas n0 u0 b0 s1 s2 s3 s4 s5 s6 s7 s8 s9 bf0 lt0 ca0 ta0)
  = SExn ValueError.
Proof.
  rewrite cont_outer_split. unfold for_step, cont_envg. cbn [set1 update String.eqb Ascii.eqb Bool.eqb option_map]. rewrite run_block_app.
  unfold cont_outer, F. gz. rewrite Z.max_r by lia. repeat progress (gz; rewrite ?zle0_nat, ?Nat2Z.id).
  rewrite zrange_0. cbn [length seq map]. rewrite for_loop_cons. unfold for_step. unfold cont_inner, cont_outer.
  repeat progress (gz; rewrite ?zle0_nat, ?Nat2Z.id). reflexivity.
Qed.

Definition is_cenv (est : list Q) (pthv qthv : bv) (en : env) (cas tas : list bv) : Prop :=
  exists var n u b s1 s2 s3 s4 s5 s6 s7 s8 s9 bf lt ca ta,
    en = cont_envg var est pthv qthv (VList cas) (VList tas) n u b s1 s2 s3 s4 s5 s6 s7 s8 s9 bf lt ca ta.
Definition vflts (l : list Q) : list bv := map (fun q => VFlt false (Fin q)) l.
Lemma cont_outer_loop fexp e0 et pp pth pq qth : forall vs en cas tas,
  is_cenv (e0 :: et) (VFlt pp (Fin pth)) (VFlt pq (Fin qth)) en cas tas ->
  match Beat.map_res (fun v => Beat.continuity_var v (e0 :: et) pth qth) vs with
  | Ok rs => exists en' qs1 qs2,
      for_loop (for_step (run_block (F fexp)) "reference_beats" cont_outer) (map VArrQ vs) en = SNorm en'
      /\ is_cenv (e0 :: et) (VFlt pp (Fin pth)) (VFlt pq (Fin qth)) en' (cas ++ vflts qs1) (tas ++ vflts qs2)
      /\ leq qs1 (map fst rs) /\ leq qs2 (map snd rs)
  | Raise ex => for_loop (for_step (run_block (F fexp)) "reference_beats" cont_outer) (map VArrQ vs) en = SExn ex
  end.
Proof.
  induction vs as [|v vs IH]; intros en cas tas Hen.
  - cbn [Beat.map_res map]. exists en, [], []. cbn [vflts map]. rewrite !app_nil_r. repeat split; try constructor. exact Hen.
  - cbn [Beat.map_res map]. rewrite for_loop_cons.
    destruct Hen as (var0 & n0 & u0 & b0 & s1 & s2 & s3 & s4 & s5 & s6 & s7 & s8 & s9 & bf0 & lt0 & ca0 & ta0 & ->).
    destruct v as [|v0 vt].
    + rewrite cont_outer_step_nil. reflexivity.
    + destruct (cont_outer_step fexp var0 v0 vt (e0 :: et) pp pth pq qth cas tas n0 u0 b0 s1 s2 s3 s4 s5 s6 s7 s8 s9 bf0 lt0 ca0 ta0)
        as (q1 & q2 & nv & used & bs & t1 & t2 & t3 & t4 & t5 & t6 & t7 & t8 & t9 & bf & lt & E & c & t & Hm & Hq1 & Hq2).
      match type of E with _ = SNorm ?en1 =>
        specialize (IH en1 (cas ++ [VFlt false (Fin q1)]) (tas ++ [VFlt false (Fin q2)]) ltac:(do 17 eexists; reflexivity)) end.
      rewrite E, Hm. cbn [Prelude.bind].
      destruct (Beat.map_res (fun v => Beat.continuity_var v (e0 :: et) pth qth) vs) as [rs|ex]; cbn [Prelude.bind].
      * destruct IH as (en' & qs1 & qs2 & E' & Hc & H1 & H2). exists en', (q1 :: qs1), (q2 :: qs2).
        cbn [vflts map fst snd]. rewrite <- !app_assoc in Hc. repeat split; try assumption; constructor; assumption.
      * exact IH.
Qed.

Local Arguments cont_outer : simpl never.
Definition cont_after : list stmt := after_for (f_body gen_continuity).
Definition cont_it0 : exp := match from_for (f_body gen_continuity) with SFor _ it _ :: _ => it | _ => ENone end.
Lemma continuity_split : f_body gen_continuity = before_for (f_body gen_continuity) ++ SFor "reference_beats" cont_it0 cont_outer :: cont_after.
Proof. reflexivity. Qed.
Ltac sigs := repeat match goal with |- context [lookup_sig beat_sigs ?f] =>
  let v := eval vm_compute in (lookup_sig beat_sigs f) in change (lookup_sig beat_sigs f) with v end.
Lemma warn_if fexp (t : bool) (en : env) : run_block (exec beat_sigs ext fexp) (if t then [SWarn] else []) en = SNorm en.
Proof. destruct t; reflexivity. Qed.
Lemma zleb1_nat n : (Z.of_nat n <=? 1)%Z = (n <=? 1)%nat.
Proof. destruct (n <=? 1)%nat eqn:E; [apply Nat.leb_le in E; apply Z.leb_le; lia|apply Nat.leb_gt in E; apply Z.leb_gt; lia]. Qed.
Lemma all_fins_vflts l : all_fins (vflts l) = Some l.
Proof. induction l as [|x t IH]; [reflexivity|]. cbn [vflts map all_fins]. fold (vflts t). rewrite IH. reflexivity. Qed.
Definition lift_quad (r : res (Q * Q * Q * Q)) : out (list xval) :=
  match r with Ok (a, b, c, d) => OK [Fin a; Fin b; Fin c; Fin d] | Raise e => EXN e end.

(* Beat.continuity with the metrical variations taken from [vs] *)
Definition continuity_on (vs : list (list Q)) (ref est : list Q) (pth qth : Q) : res (Q * Q * Q * Q) :=
  bind (Beat.validate ref est) (fun _ =>
  if (length est <=? 1)%nat || (length ref <=? 1)%nat then Ok (0, 0, 0, 0)
  else
    bind (Beat.map_res (fun v => Beat.continuity_var v est pth qth) vs) (fun rs =>
    match rs with
    | (c0, t0) :: rest => Ok (c0, t0, fold_left Qmax (map fst rest) c0, fold_left Qmax (map snd rest) t0)
    | [] => Raise IndexError
    end)).
Theorem continuity_tie_gen : forall fexp ref est pth qth pp pq,
  out_eq (out_floats (runx ext fexp gen_continuity [VArrQ ref; VArrQ est; VFlt pp (Fin pth); VFlt pq (Fin qth)]))
         (lift_quad (continuity_on (vars_of ref) ref est pth qth)).
Proof.
  intros. unfold runx, run_fun. cbn [length f_params gen_continuity Nat.eqb]. unfold exec_block.
  rewrite continuity_split, run_block_app. unfold continuity_on.
  gz. sigs. gz. rewrite Xval.
  destruct (Beat.validate ref est) as [[]|ex]; gz; [|reflexivity].
  rewrite warn_if. gz. rewrite warn_if. gz. rewrite !zleb1_nat.
  destruct (length est <=? 1)%nat eqn:Ee; gz; [repeat constructor|].
  destruct (length ref <=? 1)%nat eqn:Er; gz; [repeat constructor|].
  destruct est as [|e0 et]; [discriminate Ee|].
  sigs. gz. rewrite Xvars. gz.
  match goal with |- context [for_loop ?st ?els ?en] =>
    pose proof (cont_outer_loop fexp e0 et pp pth pq qth (vars_of ref) en [] []
                  ltac:(do 17 eexists; reflexivity)) as L end.
  destruct (Beat.map_res (fun v => Beat.continuity_var v (e0 :: et) pth qth) (vars_of ref)) as [rs|ex]; cbn [Prelude.bind].
  - destruct L as (en' & qs1 & qs2 & E & Hc & H1 & H2). unfold F in E.
    match type of E with _ = ?R =>
      match goal with |- context [for_loop ?st ?els ?en] => replace (for_loop st els en) with R by (symmetry; exact E) end end.
    clear E. destruct Hc as (var' & n' & u' & b' & s1 & s2 & s3 & s4 & s5 & s6 & s7 & s8 & s9 & bf & lt & ca & ta & ->).
    unfold cont_after, cont_envg. cbn [app]. gz.
    destruct rs as [|[c0 t0] rest].
    + inversion H1; subst. gz. reflexivity.
    + destruct qs1 as [|a1 r1]; [inversion H1|]. destruct qs2 as [|a2 r2]; [inversion H2|].
      cbn [vflts map]. gz. fold (vflts r1). fold (vflts r2). rewrite !all_fins_vflts. gz.
      cbn [map fst snd] in H1, H2.
      assert (Ha1 : a1 == c0) by (inversion H1; assumption). assert (Hr1 : leq r1 (map fst rest)) by (inversion H1; assumption).
      assert (Ha2 : a2 == t0) by (inversion H2; assumption). assert (Hr2 : leq r2 (map snd rest)) by (inversion H2; assumption).
      repeat constructor; try assumption; cbn [xeq]; apply BeatProps.fold_Qmax_leq; assumption.
  - unfold F in L.
    match type of L with _ = ?R =>
      match goal with |- context [for_loop ?st ?els ?en] => replace (for_loop st els en) with R by (symmetry; exact L) end end.
    gz. reflexivity.
Qed.
End Callees.
Theorem continuity_tie : forall fexp ref est pth qth pp pq,
  out_eq (out_floats (run fexp gen_continuity [VArrQ ref; VArrQ est; VFlt pp (Fin pth); VFlt pq (Fin qth)]))
         (lift_quad (Beat.continuity ref est pth qth)).
Proof. exact (continuity_tie_gen beat_ext Beat.variations beat_ext_val beat_ext_vars). Qed.
(* continuity calling the TRANSLATED _get_reference_beat_variations program instead of the model's function: the same
   value, because every test of the loop is invariant under == of the annotation times (BeatProps.continuity_var_shl) *)
Theorem continuity_tie_prog : forall fexp ref est pth qth pp pq,
  out_eq (out_floats (runx (prog_ext fexp) fexp gen_continuity [VArrQ ref; VArrQ est; VFlt pp (Fin pth); VFlt pq (Fin qth)]))
         (lift_quad (Beat.continuity ref est pth qth)).
Proof.
  intros. pose proof (continuity_tie_gen (prog_ext fexp) (vars_prog fexp) (prog_ext_val fexp) (prog_ext_vars fexp) fexp ref est pth qth pp pq) as T.
  replace (continuity_on (vars_prog fexp ref) ref est pth qth) with (Beat.continuity ref est pth qth) in T; [exact T|].
  unfold continuity_on, Beat.continuity. f_equal.
  rewrite (BeatProps.map_res_F2_eq leq (fun v => Beat.continuity_var v est pth qth) (fun v => Beat.continuity_var v est pth qth)
             (vars_prog fexp ref) (Beat.variations ref)); [reflexivity| |apply vars_prog_leq].
  intros a b Hab. apply (BeatProps.continuity_var_shl 0).
  - eapply Forall2_impl; [|exact Hab]. intros x y Hxy. cbn beta. rewrite Hxy. ring.
  - clear. induction est; constructor; [ring|assumption].
Qed.
Print Assumptions continuity_tie_gen.
Print Assumptions continuity_tie.
Print Assumptions continuity_tie_prog.

(* values observed on the real implementation: (0.1818.., 0.2727.., 0.1818.., 0.2727..) for the 10 / 11 beat example of
   BeatTieGoto.v at the default thresholds; (0.4, 0.6, 0.4, 0.6) for repeated beats (zero intervals) at thresholds 1.5 *)
Definition show4 (o : out bv) : option (list Q) :=
  match o with OK (VTup l) => Some (map (fun v => match v with VFlt _ (Fin x) => Qred x | _ => (-1#1) end) l) | _ => None end.
Example continuity_example :
  show4 (run fx0 gen_continuity [VArrQ ex_ref; VArrQ ex_est; VFlt true (Fin (175#1000)); VFlt true (Fin (175#1000))])
  = Some [2#11; 3#11; 2#11; 3#11].
Proof. vm_compute. reflexivity. Qed.
Example continuity_example_repeated_beats :
  show4 (run fx0 gen_continuity [VArrQ [1;1;2;3;3]; VArrQ [1;1;17#8;3;3]; VFlt true (Fin (3#2)); VFlt true (Fin (3#2))])
  = Some [2#5; 3#5; 2#5; 3#5].
Proof. vm_compute. reflexivity. Qed.
