From Coq Require Import List Arith Bool Lia.
From ME Require Import Model.Dict Model.Matching Proofs.HKRecurse.
Import ListNotations.

Definition isin {V} (d : dict V) k := dget d k <> None.
Lemma isin_dset {V} (d : dict V) k v k' : isin d k' -> isin (dset d k v) k'.
Proof. unfold isin. destruct (Nat.eq_dec k' k) as [->|N]; [rewrite dget_dset_same; congruence| now rewrite dget_dset_other]. Qed.
Lemma isin_dset_same {V} (d : dict V) k v : isin (dset d k v) k.
Proof. unfold isin. rewrite dget_dset_same. congruence. Qed.
Lemma dmem_isin {V} (d : dict V) k : dmem d k = true <-> isin d k.
Proof. unfold dmem, isin. destruct (dget d k); split; congruence. Qed.

Section Layer.
Variable g : graph.
Variable m : matching.
Hypothesis Hkm : NoDup (keys m).
Hypothesis Hinj : inj m.
Hypothesis Hedges : edges_ok g m.

(* ---- scanning one layer ---- *)
Definition nl_ok (preds nl : dict (list nat)) := forall v L u, dget nl v = Some L -> In u L -> edge g u v.
Lemma add_new_isin nl v u k : isin nl k -> isin (add_new nl v u) k.
Proof. unfold add_new. destruct (dget nl v); apply isin_dset. Qed.
Lemma add_new_same nl v u : isin (add_new nl v u) v.
Proof. unfold add_new. destruct (dget nl v); apply isin_dset_same. Qed.
Lemma add_new_ok preds nl v u : edge g u v -> nl_ok preds nl -> nl_ok preds (add_new nl v u).
Proof. intros He H v' L u' HL Hin. unfold add_new in HL. destruct (dget nl v) as [l|] eqn:E.
  - destruct (Nat.eq_dec v' v) as [->|N].
    + rewrite dget_dset_same in HL. injection HL as <-. apply in_app_iff in Hin. destruct Hin as [Hin|[<-|[]]]; eauto.
    + rewrite dget_dset_other in HL by auto. eauto.
  - destruct (Nat.eq_dec v' v) as [->|N].
    + rewrite dget_dset_same in HL. injection HL as <-. destruct Hin as [<-|[]]; auto.
    + rewrite dget_dset_other in HL by auto. eauto. Qed.

Lemma scan_vs preds u vs : forall nl, (forall v, In v vs -> edge g u v) -> nl_ok preds nl ->
  let nl' := fold_left (fun nl v => if dmem preds v then nl else add_new nl v u) vs nl in
  nl_ok preds nl' /\ (forall k, isin nl k -> isin nl' k) /\ (forall v, In v vs -> isin preds v \/ isin nl' v).
Proof. induction vs as [|v vs IH]; intros nl Hvs Hok; cbn [fold_left].
  - repeat split; auto. intros v [].
  - destruct (dmem preds v) eqn:E.
    + destruct (IH nl (fun v' H => Hvs v' (or_intror H)) Hok) as (A & B & C). repeat split; auto.
      intros v' [<-|H]; [left; now apply dmem_isin| auto].
    + destruct (IH (add_new nl v u) (fun v' H => Hvs v' (or_intror H))) as (A & B & C).
      { apply add_new_ok; auto. apply Hvs. now left. }
      repeat split; auto.
      * intros k H. apply B. now apply add_new_isin.
      * intros v' [<-|H]; [right; apply B, add_new_same| auto]. Qed.
Lemma scan_layer preds layer : forall nl, nl_ok preds nl ->
  let nl' := fold_left (scan_u g preds) layer nl in
  nl_ok preds nl' /\ (forall k, isin nl k -> isin nl' k) /\
  (forall u v, In u layer -> edge g u v -> isin preds v \/ isin nl' v).
Proof. induction layer as [|u layer IH]; intros nl Hok; cbn [fold_left].
  - repeat split; auto. intros u v [].
  - unfold scan_u at 2. destruct (scan_vs preds u (nbrs g u) nl (fun v H => H) Hok) as (A & B & C).
    fold (scan_u g preds nl u) in *. destruct (IH (scan_u g preds nl u) A) as (A' & B' & C'). repeat split; auto.
    intros u' v [<-|H] He; [|eauto]. destruct (C v He) as [H1|H1]; [now left| right; now apply B']. Qed.

(* ---- the layering invariant ---- *)
Definition LInv (st : lstate) := let '(preds, pred, layer, unm) := st in
  invA pred m /\ invB pred m /\ invC g preds /\
  (forall u, In u (keys g) -> dget pred u = None -> exists v, dget m v = Some u) /\
  (forall v, isin preds v -> In v unm \/ exists u, dget m v = Some u /\ isin pred u) /\
  (forall v, In v unm -> dget m v = None).
Definition Lfront (st : lstate) := let '(preds, pred, layer, unm) := st in
  forall u, isin pred u -> In u layer \/ forall v, edge g u v -> isin preds v.

Lemma absorb_LInv st e : (forall u, In u (snd e) -> edge g u (fst e)) -> LInv st -> LInv (absorb m st e).
Proof. destruct st as [[[preds pred] layer] unm], e as [v L]. cbn [fst snd]. intros HL (HA & HB & HC & H1 & H2 & H5).
  unfold absorb; cbn [fst snd]. destruct (dget m v) as [u|] eqn:Em; unfold LInv.
  - repeat split.
    + intros u' Hu'. destruct (Nat.eq_dec u' u) as [->|N]; [rewrite dget_dset_same in Hu'; discriminate|].
      rewrite dget_dset_other in Hu' by auto. now apply HA.
    + intros u' v' Hu'. destruct (Nat.eq_dec u' u) as [->|N].
      * rewrite dget_dset_same in Hu'. injection Hu' as <-. exact Em.
      * rewrite dget_dset_other in Hu' by auto. auto.
    + intros v' L' u' HL' Hin. destruct (Nat.eq_dec v' v) as [->|N].
      * rewrite dget_dset_same in HL'. injection HL' as <-. auto.
      * rewrite dget_dset_other in HL' by auto. eauto.
    + intros u' Hk Hn. apply H1; auto. destruct (Nat.eq_dec u' u) as [->|N]; [rewrite dget_dset_same in Hn; discriminate|].
      now rewrite dget_dset_other in Hn.
    + intros v' Hv'. destruct (Nat.eq_dec v' v) as [->|N].
      * right. exists u. split; auto. apply isin_dset_same.
      * unfold isin in Hv'. rewrite dget_dset_other in Hv' by auto. destruct (H2 v' Hv') as [H|(u' & Hm & Hi)]; [now left|right].
        exists u'. split; auto. now apply isin_dset.
    + exact H5.
  - split; [exact HA|]. split; [exact HB|]. split; [|split; [exact H1|split]].
    + intros v' L' u' HL' Hin. destruct (Nat.eq_dec v' v) as [->|N].
      * rewrite dget_dset_same in HL'. injection HL' as <-. auto.
      * rewrite dget_dset_other in HL' by auto. eauto.
    + intros v' Hv'. destruct (Nat.eq_dec v' v) as [->|N].
      * left. apply in_app_iff. right. now left.
      * unfold isin in Hv'. rewrite dget_dset_other in Hv' by auto. destruct (H2 v' Hv') as [H|H]; [left; apply in_app_iff; now left|now right].
    + intros v' Hin. apply in_app_iff in Hin. destruct Hin as [Hin|[<-|[]]]; auto. Qed.

(* growth facts of the absorb fold *)
Lemma absorb_step preds pred layer unm e p1 q1 l1 u1 :
  absorb m (preds, pred, layer, unm) e = (p1, q1, l1, u1) ->
  (forall k, isin preds k -> isin p1 k) /\ isin p1 (fst e) /\ (forall u, isin pred u -> isin q1 u) /\
  (forall u, isin q1 u -> isin pred u \/ In u l1) /\ (forall u, In u layer -> In u l1) /\ (u1 = [] -> unm = []).
Proof. unfold absorb. destruct (dget m (fst e)) as [u|] eqn:Em; intros [= <- <- <- <-].
  - split; [intros k H; now apply isin_dset|]. split; [apply isin_dset_same|]. split; [intros u' H; now apply isin_dset|].
    split; [|split; [intros u' H; apply in_app_iff; now left| auto]].
    intros u' H. destruct (Nat.eq_dec u' u) as [->|N]; [right; apply in_app_iff; right; now left|left].
    unfold isin in H. now rewrite dget_dset_other in H.
  - split; [intros k H; now apply isin_dset|]. split; [apply isin_dset_same|]. split; [auto|]. split; [intros u' H; now left|].
    split; [auto|]. intros H. destruct unm; discriminate. Qed.

Lemma absorb_fold nl : forall preds pred layer unm preds' pred' layer' unm',
  (forall e, In e nl -> forall u, In u (snd e) -> edge g u (fst e)) -> LInv (preds, pred, layer, unm) ->
  fold_left (absorb m) nl (preds, pred, layer, unm) = (preds', pred', layer', unm') ->
  LInv (preds', pred', layer', unm') /\ (forall k, isin preds k -> isin preds' k) /\ (forall e, In e nl -> isin preds' (fst e)) /\
  (forall u, isin pred u -> isin pred' u) /\
  (forall u, isin pred' u -> isin pred u \/ In u layer') /\ (forall u, In u layer -> In u layer') /\
  (unm' = [] -> unm = []).
Proof. induction nl as [|e nl IH]; intros preds pred layer unm preds' pred' layer' unm' Hnl HI; cbn [fold_left].
  - intros [= <- <- <- <-]. split; [exact HI|]. split; [auto|]. split; [intros e []|]. split; [auto|]. split; [intros u H; now left|]. split; auto.
  - destruct (absorb m (preds, pred, layer, unm) e) as [[[p1 q1] l1] u1] eqn:Ea. intros Hf.
    assert (HI1 : LInv (p1, q1, l1, u1)) by (rewrite <- Ea; apply absorb_LInv; auto; apply Hnl; now left).
    destruct (absorb_step _ _ _ _ _ _ _ _ _ Ea) as (a1 & a2 & a3 & a4 & a5 & a6).
    destruct (IH _ _ _ _ _ _ _ _ (fun e' H => Hnl e' (or_intror H)) HI1 Hf) as (A & B & C & D & E & F & G).
    split; [exact A|]. split; [auto|]. split; [intros e' [<-|H]; auto|]. split; [auto|].
    split; [|split; auto].
    intros u H. destruct (E u H) as [H1|H1]; [|now right]. destruct (a4 u H1) as [H2|H2]; [now left| right; auto]. Qed.
Lemma add_new_nodup nl v u : NoDup (keys nl) -> NoDup (keys (add_new nl v u)).
Proof. unfold add_new. destruct (dget nl v); apply NoDup_keys_dset. Qed.
Lemma scan_u_nodup preds nl u : NoDup (keys nl) -> NoDup (keys (scan_u g preds nl u)).
Proof. unfold scan_u. generalize (nbrs g u). intros vs. revert nl. induction vs as [|v vs IH]; intros nl H; cbn [fold_left]; auto.
  apply IH. destruct (dmem preds v); auto using add_new_nodup. Qed.
Lemma scan_layer_nodup preds layer : forall nl, NoDup (keys nl) -> NoDup (keys (fold_left (scan_u g preds) layer nl)).
Proof. induction layer as [|u l IH]; intros nl H; cbn [fold_left]; auto using scan_u_nodup. Qed.

Lemma nl_ok_nil preds : nl_ok preds []. Proof. intros v L u H; discriminate. Qed.

Lemma layering_spec fuel : forall preds pred layer unm preds' pred' unm',
  LInv (preds, pred, layer, unm) -> Lfront (preds, pred, layer, unm) ->
  layering fuel g m preds pred layer unm = Some (preds', pred', unm') ->
  exists layer', LInv (preds', pred', layer', unm') /\ Lfront (preds', pred', layer', unm') /\ (unm' = [] -> layer' = []).
Proof.
  induction fuel as [|f IH]; intros preds pred layer unm preds' pred' unm' HI HF; cbn [layering]; [discriminate|].
  destruct layer as [|u0 layer0] eqn:El; cbn iota beta.
  { intros Hs; injection Hs as <- <- <-. exists []. auto. }
  destruct unm as [|v0 unm0] eqn:Eu; cbn iota beta.
  2:{ intros Hs; injection Hs as <- <- <-. exists (u0 :: layer0). split; [auto|split; [auto|intros H; discriminate H]]. }
  rewrite <- El in *. clear El u0 layer0.
  set (nl := fold_left (scan_u g preds) layer []).
  destruct (scan_layer preds layer [] (nl_ok_nil preds)) as (A & _ & C). fold nl in A, C.
  assert (ND : NoDup (keys nl)) by (apply scan_layer_nodup; constructor).
  destruct (fold_left (absorb m) nl (preds, pred, [], [])) as [[[p1 q1] l1] u1] eqn:Ef.
  assert (Hent : forall e, In e nl -> forall u, In u (snd e) -> edge g u (fst e)).
  { intros [v L] Hin u Hu. cbn [fst snd] in *. eapply A; eauto. now apply In_dget. }
  destruct (absorb_fold nl preds pred [] [] _ _ _ _ Hent HI Ef) as (I1 & G1 & G2 & G3 & G4 & _ & _).
  apply IH; [exact I1|].
  intros u Hu. destruct (G4 u Hu) as [Hold|Hnew]; [|now left]. right. intros v He.
  destruct (HF u Hold) as [Hl|Hall]; [|now apply G1, Hall].
  destruct (C u v Hl He) as [H1|H1]; [now apply G1|].
  unfold isin in H1. destruct (dget nl v) as [L|] eqn:EL; [|congruence].
  apply dget_In in EL. apply (G2 _ EL).
Qed.
End Layer.
