(* C13, interpolate_intervals / intervals_to_samples: every sample gets the label of the (closed) interval containing
   its time -- the later row winning -- or the fill value; ValueError exactly for a decreasing grid. *)
From Coq Require Import List Bool Arith ZArith QArith Qminmax Qabs Qround Lia Lqa.
From ME Require Import Model.Prelude Model.Intervals Proofs.IntervalsBase.
Import ListNotations.
Open Scope Q_scope.

(* non-decreasing grids *)
Fixpoint sortedQ (l : list Q) : Prop :=
  match l with [] => True | x :: r => Forall (fun y => x <= y) r /\ sortedQ r end.

Lemma decreases_cons2 a b r : decreases (a :: b :: r) = qltb b a || decreases (b :: r).
Proof. reflexivity. Qed.
Lemma decreases_false_sorted : forall ts, decreases ts = false -> sortedQ ts.
Proof.
  induction ts as [|a ts IH]; intros H; [exact I|]. destruct ts as [|b r]; [split; [constructor|exact I]|].
  rewrite decreases_cons2 in H. apply orb_false_iff in H. destruct H as [h1 h2]. qb.
  specialize (IH h2). split; [|exact IH]. constructor; [exact h1|].
  destruct IH as [hb _]. eapply Forall_impl; [|exact hb]. cbn. intros y hy. lra.
Qed.
Lemma sorted_decreases_false : forall ts, sortedQ ts -> decreases ts = false.
Proof.
  induction ts as [|a ts IH]; intros H; [reflexivity|]. destruct ts as [|b r]; [reflexivity|].
  rewrite decreases_cons2. destruct H as [h1 h2]. rewrite (IH h2), orb_false_r. apply qltb_false. inversion h1; assumption.
Qed.
(* decreases = true exactly when some grid point is smaller than its predecessor *)
Lemma decreases_true_iff : forall ts, decreases ts = true <->
  exists i a b, nth_error ts i = Some a /\ nth_error ts (S i) = Some b /\ b < a.
Proof.
  induction ts as [|a ts IH]; [cbn; split; [discriminate|intros [i [x [y [h _]]]]; destruct i; discriminate]|].
  destruct ts as [|b r].
  - cbn. split; [discriminate|]. intros [i [x [y [_ [h _]]]]]. destruct i as [|i]; cbn in h; [discriminate|destruct i; discriminate].
  - rewrite decreases_cons2. rewrite orb_true_iff, IH. split.
    + intros [h|[i [x [y [h1 [h2 h3]]]]]].
      * qb. exists 0%nat, a, b. cbn. auto.
      * exists (S i), x, y. cbn [nth_error]. auto.
    + intros [i [x [y [h1 [h2 h3]]]]]. destruct i as [|i].
      * cbn in h1, h2. injection h1 as <-. injection h2 as <-. left. apply qltb_true. exact h3.
      * right. exists i, x, y. cbn [nth_error] in h1, h2. auto.
Qed.

(* ---------------------------------------------------------------------------------------- *)
(* slice assignment                                                                          *)
(* ---------------------------------------------------------------------------------------- *)
Section Slices.
Context {L : Type}.
Lemma set_slice_S_S a b (l x : L) xs : set_slice (S a) (S b) l (x :: xs) = x :: set_slice a b l xs.
Proof. reflexivity. Qed.
Lemma set_slice_0_S b (l x : L) xs : set_slice 0 (S b) l (x :: xs) = l :: set_slice 0 b l xs.
Proof. unfold set_slice. cbn. rewrite Nat.sub_0_r. reflexivity. Qed.
Lemma set_slice_a_0 a (l : L) xs : set_slice a 0 l xs = xs.
Proof. unfold set_slice. rewrite Nat.max_0_r. cbn. apply firstn_skipn. Qed.

Definition mark (v : iv) (l : L) (ts : list Q) (acc : list L) : list L :=
  map (fun tx => if in_cl v (fst tx) then l else snd tx) (combine ts acc).

Lemma mark_none v l : forall ts acc, length acc = length ts -> Forall (fun t => in_cl v t = false) ts -> mark v l ts acc = acc.
Proof.
  unfold mark. induction ts as [|t r IH]; intros acc hl H; destruct acc as [|x xs]; try discriminate; [reflexivity|].
  inversion H; subst. cbn. rewrite H2. f_equal. apply IH; [cbn in hl; lia|assumption].
Qed.

Lemma ss_left_head_ge s t r : s <= t -> sortedQ (t :: r) -> ss_left r s = 0%nat.
Proof.
  intros h [hall _]. destruct r as [|u r]; [reflexivity|]. unfold ss_left. cbn.
  inversion hall; subst. assert (e : qltb u s = false) by (apply qltb_false; lra). rewrite e. reflexivity.
Qed.

Lemma set_slice_mark s e l : forall ts acc, sortedQ ts -> length acc = length ts ->
  set_slice (ss_left ts s) (ss_right ts e) l acc = mark (s, e) l ts acc.
Proof.
  induction ts as [|t r IH]; intros acc hs hl; destruct acc as [|x xs]; try discriminate; [reflexivity|].
  assert (hl' : length xs = length r) by (cbn in hl; lia).
  assert (hs' : sortedQ r) by (destruct hs; assumption).
  assert (hlate : e < t -> Forall (fun t' => in_cl (s, e) t' = false) (t :: r)).
  { intros h. destruct hs as [hall _]. constructor.
    - unfold in_cl; cbn. apply andb_false_iff. right. apply qleb_false. exact h.
    - eapply Forall_impl; [|exact hall]. cbn. intros u hu. unfold in_cl; cbn. apply andb_false_iff. right. apply qleb_false. lra. }
  unfold ss_left, ss_right. cbn [prefix_len].
  destruct (qltb t s) eqn:E1; destruct (Qle_bool t e) eqn:E2; qb.
  - (* before the interval *)
    rewrite set_slice_S_S. fold (ss_left r s). fold (ss_right r e). rewrite (IH xs hs' hl').
    unfold mark. cbn [combine map fst snd].
    assert (e0 : in_cl (s, e) t = false) by (unfold in_cl; cbn [fst snd]; apply andb_false_iff; left; apply qleb_false; exact E1).
    rewrite e0. reflexivity.
  - (* after its end although before its start: an inverted interval, nothing assigned *)
    rewrite set_slice_a_0. symmetry. apply mark_none; [exact hl|]. apply hlate. exact E2.
  - (* inside *)
    rewrite set_slice_0_S. fold (ss_right r e).
    rewrite <- (ss_left_head_ge s t r E1 hs). rewrite (IH xs hs' hl').
    unfold mark. cbn [combine map fst snd].
    assert (e0 : in_cl (s, e) t = true) by (unfold in_cl; cbn [fst snd]; apply andb_true_iff; split; apply qleb_true; assumption).
    rewrite e0. reflexivity.
  - (* after *)
    rewrite set_slice_a_0. symmetry. apply mark_none; [exact hl|]. apply hlate. exact E2.
Qed.

Lemma mark_length v l ts (acc : list L) : length acc = length ts -> length (mark v l ts acc) = length ts.
Proof. intros h. unfold mark. rewrite map_length, combine_length. lia. Qed.

(* label of the last row (in list order) whose closed interval contains t *)
Fixpoint lab_rows (rows : list (iv * L)) (t : Q) : option L :=
  match rows with
  | [] => None
  | (v, l) :: r => match lab_rows r t with Some x => Some x | None => if in_cl v t then Some l else None end
  end.
Lemma lab_rows_combine : forall ivs labs t, lab_rows (combine ivs labs) t = label_at_closed ivs labs t.
Proof.
  induction ivs as [|v r IH]; intros labs t; [reflexivity|]. destruct labs as [|l ls]; [reflexivity|].
  cbn [combine lab_rows]. rewrite IH. reflexivity.
Qed.

Lemma fold_rows ts : sortedQ ts -> forall rows acc, length acc = length ts ->
  fold_left (fun acc vl => set_slice (ss_left ts (fst (fst vl))) (ss_right ts (snd (fst vl))) (snd vl) acc) rows acc
  = map (fun tx => match lab_rows rows (fst tx) with Some l => l | None => snd tx end) (combine ts acc).
Proof.
  intros hs. induction rows as [|[[s e] l] r IH]; intros acc hl.
  - cbn. revert acc hl. induction ts as [|t ts' IHt]; intros acc hl; destruct acc as [|x xs]; try discriminate; [reflexivity|].
    cbn. f_equal. apply IHt; [destruct hs; assumption|cbn in hl; lia].
  - cbn [fold_left fst snd]. rewrite (set_slice_mark s e l ts acc hs hl).
    rewrite IH by (apply mark_length; exact hl).
    unfold mark. clear IH hs. revert acc hl. induction ts as [|t ts' IHt]; intros acc hl; destruct acc as [|x xs]; try discriminate; [reflexivity|].
    cbn [combine map fst snd lab_rows]. f_equal; [|apply IHt; cbn in hl; lia].
    destruct (lab_rows r t); [reflexivity|]. destruct (in_cl (s, e) t); reflexivity.
Qed.
End Slices.

(* ---------------------------------------------------------------------------------------- *)
(* theorems                                                                                  *)
(* ---------------------------------------------------------------------------------------- *)
Definition sample_label {L} (ivs : list iv) (labs : list L) (fill : L) (t : Q) : L :=
  match label_at_closed ivs labs t with Some l => l | None => fill end.

(* For EVERY interval array (no ordering needed) and every non-decreasing grid: sample k gets the label of the last row
   whose closed interval [start, end] contains its time, else the fill value. *)
Theorem interpolate_label_at {L} (ivs : list iv) (labs : list L) (ts : list Q) (fill : L) :
  decreases ts = false ->
  interpolate_intervals ivs labs ts fill = Ok (map (sample_label ivs labs fill) ts).
Proof.
  intros hd. unfold interpolate_intervals. rewrite hd. f_equal.
  rewrite (fold_rows ts (decreases_false_sorted ts hd)) by (apply repeat_length).
  clear hd. unfold sample_label. induction ts as [|t r IH]; [reflexivity|].
  cbn [length repeat combine map fst snd]. rewrite lab_rows_combine. f_equal. exact IH.
Qed.
Theorem interpolate_error {L} (ivs : list iv) (labs : list L) (ts : list Q) (fill : L) :
  interpolate_intervals ivs labs ts fill = Raise ValueError <->
  exists i a b, nth_error ts i = Some a /\ nth_error ts (S i) = Some b /\ b < a.
Proof.
  rewrite <- decreases_true_iff. unfold interpolate_intervals. destruct (decreases ts); split; congruence.
Qed.

(* on a time-ordered annotation the closed-interval reading agrees with label_at wherever label_at is defined: at a
   boundary shared by two intervals the LATER interval gives the label *)
Lemma label_at_closed_of_label_at {L} : forall (ivs : list iv) (labs : list L) t l,
  ordered ivs -> label_at ivs labs t = Some l -> label_at_closed ivs labs t = Some l.
Proof.
  induction ivs as [|v r IH]; intros labs t l ho H; [discriminate|].
  destruct labs as [|l0 ls]; [discriminate|]. unfold label_at, label_at_closed in *. cbn [label_with] in *.
  destruct (label_with in_ho r ls t) as [x|] eqn:E.
  - injection H as <-. rewrite (IH ls t x); [reflexivity|cbn in ho; tauto|exact E].
  - destruct (in_ho v t) eqn:E2; [|discriminate]. injection H as <-. unfold in_ho in E2. qb.
    rewrite label_with_none.
    + unfold in_cl. assert (e1 : Qle_bool (fst v) t = true) by (apply qleb_true; assumption).
      assert (e2 : Qle_bool t (snd v) = true) by (apply qleb_true; lra). rewrite e1, e2. reflexivity.
    + cbn in ho. destruct ho as [_ [hall _]]. eapply Forall_impl; [|exact hall]. cbn. intros w hw.
      unfold in_cl. apply andb_false_iff. left. apply qleb_false. lra.
Qed.
(* and it is None outside all closed intervals *)
Lemma label_at_closed_outside {L} (ivs : list iv) (labs : list L) t :
  Forall (fun v => t < fst v \/ snd v < t) ivs -> label_at_closed ivs labs t = None.
Proof.
  intros H. apply label_with_none. eapply Forall_impl; [|exact H]. cbn. intros v [h|h]; unfold in_cl; apply andb_false_iff;
    [left|right]; apply qleb_false; exact h.
Qed.

Corollary interpolate_keeps_labels {L} (ivs : list iv) (labs : list L) (ts : list Q) (fill : L) out k t l :
  ordered ivs -> interpolate_intervals ivs labs ts fill = Ok out ->
  nth_error ts k = Some t -> label_at ivs labs t = Some l -> nth_error out k = Some l.
Proof.
  intros ho H hk hlab.
  assert (hd : decreases ts = false) by (unfold interpolate_intervals in H; destruct (decreases ts); [discriminate|reflexivity]).
  rewrite (interpolate_label_at ivs labs ts fill hd) in H. injection H as <-.
  rewrite nth_error_map, hk. cbn. unfold sample_label. rewrite (label_at_closed_of_label_at ivs labs t l ho hlab). reflexivity.
Qed.
Corollary interpolate_fill_outside {L} (ivs : list iv) (labs : list L) (ts : list Q) (fill : L) out k t :
  interpolate_intervals ivs labs ts fill = Ok out ->
  nth_error ts k = Some t -> Forall (fun v => t < fst v \/ snd v < t) ivs -> nth_error out k = Some fill.
Proof.
  intros H hk hout.
  assert (hd : decreases ts = false) by (unfold interpolate_intervals in H; destruct (decreases ts); [discriminate|reflexivity]).
  rewrite (interpolate_label_at ivs labs ts fill hd) in H. injection H as <-.
  rewrite nth_error_map, hk. cbn. unfold sample_label. rewrite (label_at_closed_outside ivs labs t hout). reflexivity.
Qed.

(* The closed reading differs from the half-open one used by adjust_intervals / merge_labeled_intervals exactly at an
   interval's end that is not the start of another interval: that sample still gets the interval's label.
   util.interpolate_intervals(np.array([[0.,1.],[1.,2.]]), ['a','b'], [0, .5, 1, 1.5, 2, 2.5], 'F') -> a a b b b F *)
Theorem interpolate_end_point_closed :
  exists (ivs : list iv) (labs : list nat) ts fill out,
    valid_ivs ivs /\ interpolate_intervals ivs labs ts fill = Ok out /\
    label_at ivs labs 2 = None /\ nth_error ts 4 = Some 2 /\ nth_error out 4 = Some 2%nat /\ fill <> 2%nat.
Proof.
  exists [(0, 1); (1, 2)], [1; 2]%nat, [0; 1 # 2; 1; 3 # 2; 2; 5 # 2], 0%nat, [1; 1; 2; 2; 2; 0]%nat.
  split; [unfold valid_ivs; cbn; repeat split; repeat constructor; cbn; lra|].
  repeat split; try (vm_compute; reflexivity). discriminate.
Qed.

(* ---------------------------------------------------------------------------------------- *)
(* intervals_to_samples                                                                      *)
(* ---------------------------------------------------------------------------------------- *)
Lemma decreases_map_seq (f : nat -> Q) : (forall k, f k <= f (S k)) -> forall n a, decreases (map f (seq a n)) = false.
Proof.
  intros hf. induction n as [|n IH]; intros a; [reflexivity|]. destruct n as [|n]; [reflexivity|].
  change (map f (seq a (S (S n)))) with (f a :: map f (seq (S a) (S n))).
  specialize (IH (S a)). change (map f (seq (S a) (S n))) with (f (S a) :: map f (seq (S (S a)) n)) in *.
  rewrite decreases_cons2, IH, orb_false_r. apply qltb_false. apply hf.
Qed.
Lemma sample_grid_sorted n offset size : 0 <= size -> decreases (sample_grid n offset size) = false.
Proof.
  intros hs. unfold sample_grid. apply decreases_map_seq. intros k.
  assert (h : inject_Z (Z.of_nat (S k)) == inject_Z (Z.of_nat k) + 1).
  { rewrite Nat2Z.inj_succ. unfold Z.succ. rewrite inject_Z_plus. reflexivity. }
  rewrite h. nra.
Qed.

(* with sample_size > 0 and a non-empty array: num_samples = floor(max / sample_size) samples at k * sample_size + offset,
   each labelled as by interpolate_intervals *)
Theorem intervals_to_samples_spec {L} (ivs : list iv) (labs : list L) offset size (fill : L) mx :
  0 < size -> qmax_list (flat ivs) = Some mx ->
  let grid := sample_grid (Qfloor (mx / size)) offset size in
  intervals_to_samples ivs labs offset size fill = Ok (grid, map (sample_label ivs labs fill) grid) /\
  length grid = Z.to_nat (Qfloor (mx / size)).
Proof.
  intros hs hmx. cbv zeta. unfold intervals_to_samples, num_samples. rewrite hmx.
  assert (e : qeqb size 0 = false) by (apply qeqb_false; lra). rewrite e. cbn [bind].
  unfold intervals_to_samples_on. rewrite interpolate_label_at by (apply sample_grid_sorted; lra). cbn [bind].
  split; [reflexivity|]. unfold sample_grid. rewrite map_length, seq_length. reflexivity.
Qed.
Theorem intervals_to_samples_empty {L} (labs : list L) offset size (fill : L) :
  intervals_to_samples [] labs offset size fill = Raise ValueError.
Proof. reflexivity. Qed.
(* grid as an input (the implementation's float32 grid for non-dyadic sample sizes) *)
Theorem intervals_to_samples_on_spec {L} (grid : list Q) (ivs : list iv) (labs : list L) (fill : L) :
  decreases grid = false ->
  intervals_to_samples_on grid ivs labs fill = Ok (grid, map (sample_label ivs labs fill) grid).
Proof. intros h. unfold intervals_to_samples_on. rewrite interpolate_label_at by exact h. reflexivity. Qed.

Example interpolate_example :
  interpolate_intervals [(0, 1); (2, 3)] [1; 2]%nat [0; 1 # 2; 1; 3 # 2; 2; 3; 7 # 2] 0%nat = Ok [1; 1; 1; 0; 2; 2; 0]%nat.
Proof. vm_compute. reflexivity. Qed.

Print Assumptions interpolate_label_at.
Print Assumptions interpolate_error.
Print Assumptions interpolate_keeps_labels.
Print Assumptions interpolate_fill_outside.
Print Assumptions interpolate_end_point_closed.
Print Assumptions intervals_to_samples_spec.
Print Assumptions intervals_to_samples_on_spec.
Print Assumptions intervals_to_samples_empty.
