(* Third group of wrapper ties (programs of Gen/WrapFuncs2.v over the table callee_sigs3, translator/wrapfuncs2.py;
   meaning: Model/WrapExp.v):
     hierarchy.tmeasure / lmeasure      = Model.Hierarchy.tmeasure / lmeasure
     hierarchy.evaluate                 = the call structure stated in [hier_evaluate_spec] (alignment, forced
                                          transitive flag, filter_kwargs binding against the signatures read from the source)
   The callees (_lca, _meet, _gauc, _round, validate_hier_intervals, util.f_measure) are instantiated by the model's
   own functions ([hier_ext]); what is proved is the glue: the parameter ladder, which argument reaches which
   parameter (Python's binding against [callee_sigs3]), the order of the calls and of the returned values.
   The proofs use nothing of the generated text except the names gen_X and callee_sigs3. *)
From Coq Require Import String.
From Coq Require Import List Bool Arith ZArith QArith Qround Lia Lqa.
From ME Require Import Model.Prelude Model.WrapExp.
From ME Require Model.Events Model.Hierarchy Proofs.HierarchyLca.
From ME Require Import Gen.WrapFuncs2 Proofs.WrapFuncsTie.
Import ListNotations.
Open Scope Q_scope.

(* the callees have the parameters the ext tables below assume, in this order *)
Theorem callee_sigs3_expected :
  map (fun s => (fst s, map fst (snd s))) callee_sigs3 =
  [("hierarchy.validate_hier_intervals", ["intervals_hier"]);
   ("hierarchy._lca", ["intervals_hier"; "frame_size"]);
   ("hierarchy._meet", ["intervals_hier"; "labels_hier"; "frame_size"]);
   ("hierarchy._gauc", ["ref_lca"; "est_lca"; "transitive"; "window"]);
   ("hierarchy._round", ["t"; "frame_size"]);
   ("hierarchy._hierarchy_bounds", ["intervals_hier"]);
   ("hierarchy._align_intervals", ["int_hier"; "lab_hier"; "t_min"; "t_max"]);
   ("util.f_measure", ["precision"; "recall"; "beta"]);
   ("segment.validate_structure", ["reference_intervals"; "reference_labels"; "estimated_intervals"; "estimated_labels"]);
   ("util.intervals_to_samples", ["intervals"; "labels"; "offset"; "sample_size"; "fill_value"]);
   ("util.index_labels", ["labels"; "case_sensitive"]);
   ("segment._contingency_matrix", ["reference_indices"; "estimated_indices"]);
   ("segment._adjusted_rand_index", ["reference_indices"; "estimated_indices"]);
   ("segment._mutual_info_score", ["reference_indices"; "estimated_indices"; "contingency"]);
   ("segment._adjusted_mutual_info_score", ["reference_indices"; "estimated_indices"]);
   ("segment._normalized_mutual_info_score", ["reference_indices"; "estimated_indices"]);
   ("segment._entropy", ["labels"]);
   ("segment.nce", ["reference_intervals"; "reference_labels"; "estimated_intervals"; "estimated_labels"; "frame_size"; "beta"; "marginal"]);
   ("hierarchy.tmeasure", ["reference_intervals_hier"; "estimated_intervals_hier"; "transitive"; "window"; "frame_size"; "beta"]);
   ("hierarchy.lmeasure", ["reference_intervals_hier"; "reference_labels_hier"; "estimated_intervals_hier"; "estimated_labels_hier";
                           "frame_size"; "beta"]);
   ("util.filter_kwargs(hierarchy.tmeasure)", ["arg0"; "arg1"; "kwargs"]);
   ("util.filter_kwargs(hierarchy.lmeasure)", ["arg0"; "arg1"; "arg2"; "arg3"; "kwargs"]);
   ("ndarray.T", ["self"]); ("ndarray.__invert__", ["self"]); ("ndarray.astype(float)", ["self"]); ("ndarray.dot", ["self"; "b"]);
   ("ndarray.shape", ["self"]); ("ndarray.sum", ["self"; "axis"]); ("np.array(dtype=float)", ["object"]);
   ("np.equal.outer", ["A"; "B"]); ("np.log2", ["x"]); ("np.logical_and", ["x1"; "x2"]); ("np.sqrt", ["x"]); ("np.unique", ["ar"]);
   ("scipy.stats.entropy", ["pk"; "qk"; "base"; "axis"])]%string.
Proof. vm_compute. reflexivity. Qed.

(* ---------- values ---------- *)
(* a hierarchy: a Python list of (n,2) arrays; the labels: a list of lists of strings *)
Definition v_hier (H : Hierarchy.hier) : wval := WTup (map WIvs H).
Definition v_labs (L : list (list str)) : wval := WTup (map WStrs L).
Fixpoint all_some {A} (l : list (option A)) : option (list A) :=
  match l with [] => Some [] | Some x :: t => option_map (cons x) (all_some t) | None :: _ => None end.
Definition as_hier (v : wval) : option Hierarchy.hier :=
  match v with WTup l => all_some (map (fun x => match x with WIvs i => Some i | _ => None end) l) | _ => None end.
Definition as_labs (v : wval) : option (list (list str)) :=
  match v with WTup l => all_some (map (fun x => match x with WStrs i => Some i | _ => None end) l) | _ => None end.
Lemma as_hier_v H : as_hier (v_hier H) = Some H.
Proof. unfold as_hier, v_hier. induction H as [|x H IH]; [reflexivity|]. cbn [map all_some]. rewrite IH. reflexivity. Qed.
Lemma as_labs_v L : as_labs (v_labs L) = Some L.
Proof. unfold as_labs, v_labs. induction L as [|x L IH]; [reflexivity|]. cbn [map all_some]. rewrite IH. reflexivity. Qed.
(* a labelled hierarchy from its two components: level by level, segment by segment; the label list of a level must
   have the length of the level (the convention of Model/Hierarchy.v) *)
Fixpoint zip_level (iv : list (Q * Q)) (lab : list str) : option (list (Q * Q * str)) :=
  match iv, lab with
  | [], [] => Some []
  | p :: iv', s :: lab' => option_map (cons (p, s)) (zip_level iv' lab')
  | _, _ => None end.
Fixpoint zip_hier (H : Hierarchy.hier) (L : list (list str)) : option Hierarchy.lhier :=
  match H, L with
  | [], [] => Some []
  | iv :: H', lab :: L' => match zip_level iv lab, zip_hier H' L' with Some x, Some r => Some (x :: r) | _, _ => None end
  | _, _ => None end.
Definition lh_labels (L : Hierarchy.lhier) : list (list str) := map (map snd) L.
Lemma zip_level_split l : zip_level (map fst l) (map snd l) = Some l.
Proof. induction l as [|[p s] l IH]; [reflexivity|]. cbn [map zip_level fst snd]. rewrite IH. reflexivity. Qed.
Lemma zip_hier_split L : zip_hier (Hierarchy.lh_intervals L) (lh_labels L) = Some L.
Proof.
  unfold Hierarchy.lh_intervals, lh_labels. induction L as [|l L IH]; [reflexivity|].
  cbn [map zip_hier]. rewrite zip_level_split, IH. reflexivity.
Qed.

(* ---------- the callees, instantiated by the model's own functions ---------- *)
Definition lift_q (r : res Q) : wout wval := match r with Ok q => WOK (WQ q) | Raise e => WEXN e end.
Definition lift_mat (r : res Hierarchy.mat) : wout wval := match r with Ok m => WOK (WNss m) | Raise e => WEXN e end.
(* the window of _gauc: None or a number of frames (a negative one is outside the model) *)
Definition as_window (v : wval) : option (option nat) :=
  match v with WNone => Some None | WZ z => if (z <? 0)%Z then None else Some (Some (Z.to_nat z)) | _ => None end.
Definition hier_ext (f : extfn) (vs : list wval) : wout wval :=
  match f, vs with
  | X_hier_validate, [h] => match as_hier h with Some H => lift_u (Hierarchy.validate_hier H) | None => WUNM end
  | X_hier_lca, [h; WQ fs] => match as_hier h with Some H => lift_mat (Hierarchy.lca H fs) | None => WUNM end
  | X_hier_meet, [h; l; WQ fs] =>
      match as_hier h, as_labs l with
      | Some H, Some L => match zip_hier H L with Some LH => lift_mat (Hierarchy.meet LH fs) | None => WUNM end
      | _, _ => WUNM end
  | X_hier_gauc, [WNss a; WNss b; WB t; w] =>
      match as_window w with Some ow => lift_q (Hierarchy.gauc a b t ow) | None => WUNM end
  | X_hier_round, [WQ t; WQ fs] => WOK (WX (Fin (Hierarchy.hround t fs)))          (* an np.float64 *)
  | X_util_f_measure, [WQ p; WQ r; WQ b] => WOK (WQ (Events.f_measure p r b))
  | _, _ => WUNM
  end.

Definition lift3r (r : res (Q * Q * Q)) : wout (list wval) :=
  match r with Ok (p, r, f) => WOK [WQ p; WQ r; WQ f] | Raise e => WEXN e end.

Ltac ev3_cbv :=
  cbv [run_tree ev ev_list chk wbind ebind ebind2 pure_only ret nth_error app
       w_len w_size w_float w_div w_cmp w_trim w_truth as_q hier_ext to_oq of_oq lift_u lift_m lift_q lift_mat
       w_is_none w_int w_item w_add w_mul w_max w_sub np_x as_x x_div xsubx].
Ltac start3 g :=
  unfold wrun;
  (let t := eval vm_compute in (wp_tree callee_sigs3 g) in change (wp_tree callee_sigs3 g) with t);
  ev3_cbv.

(* int(_round(window, frame_size) / frame_size) is a non-negative number of frames once frame_size > 0 and
   window >= frame_size *)
Lemma window_frames_nonneg w fs : qleb fs 0 = false -> qltb w fs = false ->
  (Hierarchy.qtrunc (Hierarchy.hround w fs / fs) <? 0)%Z = false.
Proof.
  intros Hfs Hw. unfold qleb in Hfs. unfold qltb in Hw. apply negb_false_iff in Hw. apply Qle_bool_iff in Hw.
  assert (F : 0 < fs). { destruct (Qlt_le_dec 0 fs) as [H|H]; [exact H|]. apply Qle_bool_iff in H. congruence. }
  change (Hierarchy.qtrunc (Hierarchy.hround w fs / fs)) with (Hierarchy.frame_of w fs).
  rewrite (HierarchyLca.quantise_exact w fs F). apply Z.ltb_ge.
  rewrite <- (Qfloor_Z 0). apply Qfloor_resp_le. change (inject_Z 0) with 0.
  apply Qle_shift_div_l; [exact F|]. lra.
Qed.
Lemma fs_nonzero fs : qleb fs 0 = false -> qeqb fs 0 = false.
Proof.
  unfold qleb, qeqb. intros H. destruct (Qeq_bool fs 0) eqn:E; [|reflexivity].
  apply Qeq_bool_iff in E. assert (L : fs <= 0) by lra. apply Qle_bool_iff in L. congruence.
Qed.

(* ---------- hierarchy.tmeasure ---------- *)
Theorem hier_tmeasure_tie : forall ref est transitive window fs beta,
  wout_eq (wrun callee_sigs3 gen_hier_tmeasure hier_ext [v_hier ref; v_hier est; WB transitive; of_oq window; WQ fs; WQ beta])
          (lift3r (Hierarchy.tmeasure ref est transitive window fs beta)).
Proof.
  intros. unfold Hierarchy.tmeasure, Hierarchy.window_frames, lift3r.
  destruct window as [w|]; start3 gen_hier_tmeasure; rewrite !as_hier_v.
  - change (inject_Z 0) with 0.
    destruct (qleb fs 0) eqn:Hfs; simp; [reflexivity|].
    destruct (qltb w fs) eqn:Hw; simp; [reflexivity|].
    unfold xdiv. rewrite (fs_nonzero fs Hfs). cbv beta iota.
    change (q_trunc (Hierarchy.hround w fs / fs)) with (Hierarchy.qtrunc (Hierarchy.hround w fs / fs)).
    unfold as_window. rewrite (window_frames_nonneg w fs Hfs Hw).
    finish.
  - change (inject_Z 0) with 0.
    destruct (qleb fs 0) eqn:Hfs; simp; [reflexivity|]. unfold as_window.
    finish.
Qed.

(* ---------- hierarchy.lmeasure ---------- *)
(* (the L-measure is never windowed: _gauc receives transitive = True and window = None) *)
Theorem hier_lmeasure_tie : forall (ref est : Hierarchy.lhier) fs beta,
  wout_eq (wrun callee_sigs3 gen_hier_lmeasure hier_ext
             [v_hier (Hierarchy.lh_intervals ref); v_labs (lh_labels ref);
              v_hier (Hierarchy.lh_intervals est); v_labs (lh_labels est); WQ fs; WQ beta])
          (lift3r (Hierarchy.lmeasure ref est fs beta)).
Proof.
  intros. unfold Hierarchy.lmeasure, lift3r.
  start3 gen_hier_lmeasure; rewrite !as_hier_v, !as_labs_v, !zip_hier_split.
  change (inject_Z 0) with 0.
  destruct (qleb fs 0) eqn:Hfs; simp; [reflexivity|]. unfold as_window.
  finish.
Qed.

(* ---------- hierarchy.evaluate ---------- *)
(* util.filter_kwargs(f, a1, ..., ak, **kwargs): the keyword arguments whose names are parameters of f reach f, the others
   are dropped; the parameters of f that are not given take the default written in f's signature ([callee_sigs3], read
   from the source). A keyword that names one of the k positional parameters is Python's "multiple values" TypeError. *)
Definition lit_val (d : wexp) : option wval :=
  match d with WFloat q => Some (WQ q) | WInt z => Some (WZ z) | WBool b => Some (WB b) | WNoneE => Some WNone | _ => None end.
Inductive fkres := FkArgs (l : list wval) | FkTypeError | FkUnm.
Fixpoint fk_rest (ps : sigt) (kw : list (string * wval)) : fkres :=
  match ps with
  | [] => FkArgs []
  | (p, d) :: ps' =>
      match (match assoc p kw with Some v => Some v | None => match d with Some e => lit_val e | None => None end end), fk_rest ps' kw with
      | Some v, FkArgs r => FkArgs (v :: r)
      | None, _ => match assoc p kw, d with None, None => FkTypeError | _, _ => FkUnm end      (* a required parameter is missing *)
      | _, r => r end
  end.
Definition fk_bind (ps : sigt) (npos : nat) (kw : list (string * wval)) : fkres :=
  if existsb (fun p => match assoc (fst p) kw with Some _ => true | None => false end) (firstn npos ps) then FkTypeError
  else fk_rest (skipn npos ps) kw.
Definition fk_call (name : string) (fv : list wval -> wout wval) (pos : list wval) (kw : list (string * wval)) : wout wval :=
  match assoc name callee_sigs3 with
  | Some ps => match fk_bind ps (length pos) kw with
               | FkArgs rest => fv (pos ++ rest) | FkTypeError => WEXN TypeError | FkUnm => WUNM end
  | None => WUNM end.
Definition tup3 (r : res (Q * Q * Q)) : wout wval :=
  match r with Ok (p, r, f) => WOK (WTup [WQ p; WQ r; WQ f]) | Raise e => WEXN e end.
(* the two metric functions on values, one value per parameter in the order of their signatures *)
Definition tmeasure_v (args : list wval) : wout wval :=
  match args with
  | [r; e; WB t; w; WQ fs; WQ b] =>
      match as_hier r, as_hier e, to_oq w with
      | Some R, Some E, Some ow => tup3 (Hierarchy.tmeasure R E t ow fs b)
      | _, _, _ => WUNM end
  | _ => WUNM end.
Definition lmeasure_v (args : list wval) : wout wval :=
  match args with
  | [r; rl; e; el; WQ fs; WQ b] =>
      match as_hier r, as_labs rl, as_hier e, as_labs el with
      | Some R, Some RL, Some E, Some EL =>
          match zip_hier R RL, zip_hier E EL with
          | Some LR, Some LE => tup3 (Hierarchy.lmeasure LR LE fs b)
          | _, _ => WUNM end
      | _, _, _, _ => WUNM end
  | _ => WUNM end.
Definition fk_tmeasure (r e : wval) (kw : list (string * wval)) : wout wval := fk_call "hierarchy.tmeasure" tmeasure_v [r; e] kw.
Definition fk_lmeasure (r rl e el : wval) (kw : list (string * wval)) : wout wval :=
  fk_call "hierarchy.lmeasure" lmeasure_v [r; rl; e; el] kw.

(* what the combinator returns, when it returns, is a triple *)
Definition is_triple (r : wout wval) : Prop := match r with WOK v => exists a b c, v = WTup [a; b; c] | _ => True end.
Lemma tup3_triple r : is_triple (tup3 r).
Proof. destruct r as [[[p q] f]|x]; cbn; eauto. Qed.
Lemma tmeasure_v_triple args : is_triple (tmeasure_v args).
Proof.
  unfold tmeasure_v.
  repeat match goal with |- is_triple (match ?x with _ => _ end) => destruct x end; try exact I; apply tup3_triple.
Qed.
Lemma lmeasure_v_triple args : is_triple (lmeasure_v args).
Proof.
  unfold lmeasure_v.
  repeat match goal with |- is_triple (match ?x with _ => _ end) => destruct x end; try exact I; apply tup3_triple.
Qed.
Lemma fk_call_triple name fv pos kw : (forall a, is_triple (fv a)) -> is_triple (fk_call name fv pos kw).
Proof. intros H. unfold fk_call. destruct (assoc name callee_sigs3); [|exact I]. destruct (fk_bind _ _ _); try exact I. apply H. Qed.
Lemma fk_tmeasure_triple r e kw : is_triple (fk_tmeasure r e kw).
Proof. apply fk_call_triple, tmeasure_v_triple. Qed.
Lemma fk_lmeasure_triple r rl e el kw : is_triple (fk_lmeasure r rl e el kw).
Proof. apply fk_call_triple, lmeasure_v_triple. Qed.
(* equal results; outside the modelled fragment (ill-typed keyword arguments) both sides are *)
Definition wout_same (a b : wout (list wval)) : Prop := match a, b with WUNM, WUNM => True | _, _ => wout_eq a b end.

Section Evaluate.
(* _align_intervals is arbitrary: the tie holds for every interpretation of it *)
Variable align : Hierarchy.hier -> list (list str) -> Q -> option Q -> res (Hierarchy.hier * list (list str)).
Definition eval_ext (f : extfn) (vs : list wval) : wout wval :=
  match f, vs with
  | X_hier_bounds, [h] =>
      match as_hier h with
      | Some H => match Hierarchy.hier_bounds H with Ok (lo, hi) => WOK (WTup [WQ lo; WQ hi]) | Raise e => WEXN e end
      | None => WUNM end
  | X_hier_align, [h; l; WQ tmin; tmax] =>
      match as_hier h, as_labs l, to_oq tmax with
      | Some H, Some L, Some tm =>
          match align H L tmin tm with Ok (H', L') => WOK (WTup [v_hier H'; v_labs L']) | Raise e => WEXN e end
      | _, _, _ => WUNM end
  | X_hier_fk_tmeasure, [r; e; WDict kw] => fk_tmeasure r e kw
  | X_hier_fk_lmeasure, [r; rl; e; el; WDict kw] => fk_lmeasure r rl e el kw
  | _, _ => WUNM
  end.
(* what evaluate does, written by hand: the reference decides the common end time; both annotations are aligned to start at
   0.0 (the reference keeps its own end: t_max = None); the T-measures are computed twice with the caller's keyword arguments
   and transitive forced to False, then True; the L-measure receives the same dict (in which transitive is still True);
   nine keys in this order *)
Definition un3 (v : wval) (k : wval -> wval -> wval -> wout (list wval)) : wout (list wval) :=
  match v with WTup [a; b; c] => k a b c | WTup _ => WEXN ValueError | _ => WUNM end.
Definition hier_evaluate_spec (ri : Hierarchy.hier) (rl : list (list str)) (ei : Hierarchy.hier) (el : list (list str))
    (kw : list (string * wval)) : wout (list wval) :=
  match Hierarchy.hier_bounds ri with
  | Raise e => WEXN e
  | Ok (_, t_end) =>
      match align ri rl 0 None with
      | Raise e => WEXN e
      | Ok (ri', rl') =>
          match align ei el 0 (Some t_end) with
          | Raise e => WEXN e
          | Ok (ei', el') =>
              wbind (fk_tmeasure (v_hier ri') (v_hier ei') (dict_set kw "transitive" (WB false))) (fun t1 => un3 t1 (fun p1 r1 f1 =>
              wbind (fk_tmeasure (v_hier ri') (v_hier ei') (dict_set kw "transitive" (WB true))) (fun t2 => un3 t2 (fun p2 r2 f2 =>
              wbind (fk_lmeasure (v_hier ri') (v_labs rl') (v_hier ei') (v_labs el') (dict_set kw "transitive" (WB true)))
                    (fun l => un3 l (fun p3 r3 f3 =>
              WOK [WDict [("T-Precision reduced", p1); ("T-Recall reduced", r1); ("T-Measure reduced", f1);
                          ("T-Precision full", p2); ("T-Recall full", r2); ("T-Measure full", f2);
                          ("L-Precision", p3); ("L-Recall", r3); ("L-Measure", f3)]%string]))))))
          end
      end
  end.
Lemma dict_set_twice d k a b : dict_set (dict_set d k a) k b = dict_set d k b.
Proof.
  induction d as [|[k' v'] d IH]; cbn [dict_set].
  - rewrite String.eqb_refl. reflexivity.
  - destruct (String.eqb k k') eqn:E; cbn [dict_set]; [rewrite String.eqb_refl; reflexivity|]. rewrite E, IH. reflexivity.
Qed.
Ltac ev4_cbv :=
  cbv [run_tree ev ev_list chk wbind ebind ebind2 pure_only ret nth_error app
       w_len w_size w_float w_div w_cmp w_trim w_truth as_q eval_ext to_oq of_oq lift_u lift_m lift_q lift_mat
       w_is_none w_int w_item w_add w_mul w_max w_sub np_x as_x x_div xsubx w_dict_set].
Theorem hier_evaluate_tie : forall ri rl ei el kw,
  wout_same (wrun callee_sigs3 gen_hier_evaluate eval_ext [v_hier ri; v_labs rl; v_hier ei; v_labs el; WDict kw])
            (hier_evaluate_spec ri rl ei el kw).
Proof.
  intros. unfold hier_evaluate_spec, wrun.
  (let t := eval vm_compute in (wp_tree callee_sigs3 gen_hier_evaluate) in change (wp_tree callee_sigs3 gen_hier_evaluate) with t).
  ev4_cbv. rewrite !as_hier_v, !as_labs_v.
  destruct (Hierarchy.hier_bounds ri) as [[lo t_end]|x]; simp; [|reflexivity].
  cbn [length Nat.eqb]. simp.
  destruct (align ri rl 0 None) as [[ri' rl']|x]; simp; [|reflexivity].
  cbn [length Nat.eqb]. simp. rewrite ?as_hier_v, ?as_labs_v.
  destruct (align ei el 0 (Some t_end)) as [[ei' el']|x]; simp; [|reflexivity].
  cbn [length Nat.eqb]. simp. rewrite !dict_set_twice.
  pose proof (fk_tmeasure_triple (v_hier ri') (v_hier ei') (dict_set kw "transitive" (WB false))) as S1.
  destruct (fk_tmeasure (v_hier ri') (v_hier ei') (dict_set kw "transitive" (WB false))) as [t1|x| |];
    [destruct S1 as (p1 & r1 & f1 & ->)|reflexivity|exact I|exact I].
  cbn [length Nat.eqb un3 wbind]. simp.
  pose proof (fk_tmeasure_triple (v_hier ri') (v_hier ei') (dict_set kw "transitive" (WB true))) as S2.
  destruct (fk_tmeasure (v_hier ri') (v_hier ei') (dict_set kw "transitive" (WB true))) as [t2|x| |];
    [destruct S2 as (p2 & r2 & f2 & ->)|reflexivity|exact I|exact I].
  cbn [length Nat.eqb un3 wbind]. simp.
  pose proof (fk_lmeasure_triple (v_hier ri') (v_labs rl') (v_hier ei') (v_labs el') (dict_set kw "transitive" (WB true))) as S3.
  destruct (fk_lmeasure (v_hier ri') (v_labs rl') (v_hier ei') (v_labs el') (dict_set kw "transitive" (WB true))) as [t3|x| |];
    [destruct S3 as (p3 & r3 & f3 & ->)|reflexivity|exact I|exact I].
  cbn [length Nat.eqb un3 wbind]. simp.
  cbn [wout_same wout_eq]. apply Forall2_cons; [|apply Forall2_nil]. cbv [weq v_x]. reflexivity.
Qed.

(* the keyword arguments evaluate() documents: window, frame_size, beta (each given or not) *)
Definition opt_kw {A} (k : string) (f : A -> wval) (o : option A) : list (string * wval) :=
  match o with Some a => [(k, f a)] | None => [] end.
Definition kw_of (window : option (option Q)) (fs beta : option Q) : list (string * wval) :=
  opt_kw "window" of_oq window ++ opt_kw "frame_size" WQ fs ++ opt_kw "beta" WQ beta.
Definition dflt {A} (o : option A) (d : A) : A := match o with Some a => a | None => d end.
(* they reach tmeasure by name, the rest are the defaults of its signature: window = 15.0, frame_size = 0.1, beta = 1.0 *)
Theorem fk_tmeasure_kwargs : forall R E tr window fs beta,
  fk_tmeasure (v_hier R) (v_hier E) (dict_set (kw_of window fs beta) "transitive" (WB tr)) =
  tup3 (Hierarchy.tmeasure R E tr (dflt window (Some (15#1))) (dflt fs (1#10)) (dflt beta 1)).
Proof.
  intros. unfold fk_tmeasure, fk_call.
  (let t := eval vm_compute in (assoc "hierarchy.tmeasure" callee_sigs3) in change (assoc "hierarchy.tmeasure" callee_sigs3) with t).
  destruct window as [[w|]|], fs as [fs|], beta as [beta|];
    cbv - [Hierarchy.tmeasure v_hier as_hier tup3]; rewrite !as_hier_v; reflexivity.
Qed.
(* lmeasure receives frame_size and beta only: neither the window nor the forced transitive flag reaches it *)
Theorem fk_lmeasure_kwargs : forall LR LE tr window fs beta,
  fk_lmeasure (v_hier (Hierarchy.lh_intervals LR)) (v_labs (lh_labels LR)) (v_hier (Hierarchy.lh_intervals LE)) (v_labs (lh_labels LE))
              (dict_set (kw_of window fs beta) "transitive" (WB tr)) =
  tup3 (Hierarchy.lmeasure LR LE (dflt fs (1#10)) (dflt beta 1)).
Proof.
  intros. unfold fk_lmeasure, fk_call.
  (let t := eval vm_compute in (assoc "hierarchy.lmeasure" callee_sigs3) in change (assoc "hierarchy.lmeasure" callee_sigs3) with t).
  destruct window as [[w|]|], fs as [fs|], beta as [beta|];
    cbv - [Hierarchy.lmeasure v_hier v_labs as_hier as_labs zip_hier Hierarchy.lh_intervals lh_labels tup3];
    rewrite !as_hier_v, !as_labs_v, !zip_hier_split; reflexivity.
Qed.
(* evaluate(ref, est, window=, frame_size=, beta=) on annotations whose aligned versions are LR, LE *)
Definition q3 (t : Q * Q * Q) : list wval := let '(p, r, f) := t in [WQ p; WQ r; WQ f].
Definition scores9 (t1 t2 l : Q * Q * Q) : wval :=
  WDict (combine ["T-Precision reduced"; "T-Recall reduced"; "T-Measure reduced"; "T-Precision full"; "T-Recall full"; "T-Measure full";
                  "L-Precision"; "L-Recall"; "L-Measure"]%string (q3 t1 ++ q3 t2 ++ q3 l)).
Corollary hier_evaluate_kwargs : forall ri rl ei el window fs beta lo t_end LR LE,
  Hierarchy.hier_bounds ri = Ok (lo, t_end) ->
  align ri rl 0 None = Ok (Hierarchy.lh_intervals LR, lh_labels LR) ->
  align ei el 0 (Some t_end) = Ok (Hierarchy.lh_intervals LE, lh_labels LE) ->
  wout_same (wrun callee_sigs3 gen_hier_evaluate eval_ext [v_hier ri; v_labs rl; v_hier ei; v_labs el; WDict (kw_of window fs beta)])
            (let W := dflt window (Some (15#1)) in let FS := dflt fs (1#10) in let B := dflt beta 1 in
             match Hierarchy.tmeasure (Hierarchy.lh_intervals LR) (Hierarchy.lh_intervals LE) false W FS B with
             | Raise e => WEXN e
             | Ok t1 =>
                 match Hierarchy.tmeasure (Hierarchy.lh_intervals LR) (Hierarchy.lh_intervals LE) true W FS B with
                 | Raise e => WEXN e
                 | Ok t2 => match Hierarchy.lmeasure LR LE FS B with Raise e => WEXN e | Ok l => WOK [scores9 t1 t2 l] end
                 end
             end).
Proof.
  intros ri rl ei el window fs beta lo t_end LR LE Hb Hr He.
  pose proof (hier_evaluate_tie ri rl ei el (kw_of window fs beta)) as T.
  unfold hier_evaluate_spec in T. rewrite Hb, Hr, He, !fk_tmeasure_kwargs, fk_lmeasure_kwargs in T.
  cbv zeta.
  destruct (Hierarchy.tmeasure _ _ false _ _ _) as [[[p1 r1] f1]|x]; [|exact T].
  destruct (Hierarchy.tmeasure _ _ true _ _ _) as [[[p2 r2] f2]|x]; [|exact T].
  destruct (Hierarchy.lmeasure _ _ _ _) as [[[p3 r3] f3]|x]; exact T.
Qed.
End Evaluate.

(* the hypotheses of hier_evaluate_kwargs are satisfiable (an alignment that changes nothing, one level, one segment) *)
Example hier_evaluate_kwargs_ex :
  let align := fun (H : Hierarchy.hier) (L : list (list str)) (_ : Q) (_ : option Q) => Ok (H, L) in
  let LR : Hierarchy.lhier := [[((0, 1), [97%nat])]] in
  Hierarchy.hier_bounds (Hierarchy.lh_intervals LR) = Ok (0, 1) /\
  align (Hierarchy.lh_intervals LR) (lh_labels LR) 0 None = Ok (Hierarchy.lh_intervals LR, lh_labels LR) /\
  align (Hierarchy.lh_intervals LR) (lh_labels LR) 0 (Some 1) = Ok (Hierarchy.lh_intervals LR, lh_labels LR).
Proof. cbv zeta. repeat split; reflexivity. Qed.

Print Assumptions callee_sigs3_expected.
Print Assumptions hier_tmeasure_tie.
Print Assumptions hier_lmeasure_tie.
Print Assumptions hier_evaluate_tie.
Print Assumptions fk_tmeasure_kwargs.
Print Assumptions fk_lmeasure_kwargs.
Print Assumptions hier_evaluate_kwargs.
