(* The internals of mir_eval/hierarchy.py tied to the model by TRANSLATION, part 4: _lca (and _round on arrays).
   [round_mat_tie]: _round on a 2-d float array = hround entrywise. [lca_tie]: with _hierarchy_bounds and _round = the model's
   (tied in HierTie.v / here), for every hierarchy (levels = (k,2) float arrays, k = 0 allowed), frame_size > 0 and a non-negative
   frame count (the domain on which Model.Hierarchy.n_frames' Z.to_nat does not clamp), the generated program returns the dense
   matrix of Model.Hierarchy.lca, or raises what hier_bounds raises. Frame indices are computed exactly as the model does
   (qtrunc (hround t fs / fs)); nested loops: [lca_inner_spec], [lca_outer_spec]. _meet is NOT translated. *)
From Coq Require Import String.
From Coq Require Import List Bool Arith ZArith QArith Lia Lqa.
From ME Require Import Model.Prelude Model.Events Model.Hierarchy Model.HierExp Gen.HierGen.
From ME Require Import Proofs.HierTie Proofs.HierTieCfr Proofs.HierTieGauc.
Import ListNotations.
Local Open Scope nat_scope.

(* ================================================================= pure facts ================================= *)
Lemma mapi_from_length {A B} (f : nat -> A -> B) l : forall k, length (mapi_from k f l) = length l.
Proof. induction l as [|x l IH]; intros k; [reflexivity|]. cbn [mapi_from length]. rewrite IH. reflexivity. Qed.
Lemma assign_block_length M r0 r1 c0 c1 v : length (assign_block M r0 r1 c0 c1 v) = length M.
Proof. apply mapi_from_length. Qed.
Lemma assign_block_cols M r0 r1 c0 c1 v : snd (mshape (assign_block M r0 r1 c0 c1 v)) = snd (mshape M).
Proof.
  destruct M as [|r M]; [reflexivity|]. unfold assign_block. cbn [mapi_from mshape snd].
  destruct (in_rng r0 r1 0); [apply mapi_from_length|reflexivity].
Qed.
(* the model's block assignment is the evaluator's *)
Lemma assign_slices_eq n M (iv : Z * Z) v :
  Hierarchy.assign_slices n M iv iv v
  = assign_block M (norm_bound n (fst iv)) (norm_bound n (snd iv)) (norm_bound n (fst iv)) (norm_bound n (snd iv)) v.
Proof. reflexivity. Qed.
Definition viv (iv : Z * Z) : pv := VList [VInt (fst iv); VInt (snd iv)].
Lemma zltb_nat0 n : (Z.of_nat n <? 0)%Z = false. Proof. apply Z.ltb_ge. lia. Qed.
(* _round on a 2-d array *)
Lemma same_shape_map (f : Q -> Q) x : same_shape x (map (map f) x) = true.
Proof.
  unfold same_shape. rewrite map_length, Nat.eqb_refl. cbn [andb]. induction x as [|r x IH]; [reflexivity|].
  cbn [map combine forallb fst snd]. rewrite map_length, Nat.eqb_refl. exact IH.
Qed.
Lemma zipq_map (f : Q -> Q) r : zipq Qminus r (map f r) = map (fun u => (u - f u)%Q) r.
Proof. induction r as [|u r IH]; [reflexivity|]. cbn [map zipq]. rewrite IH. reflexivity. Qed.
Lemma sub_rows (f : Q -> Q) x :
  map (fun p => zipq Qminus (fst p) (snd p)) (combine x (map (map f) x)) = map (map (fun u => (u - f u)%Q)) x.
Proof. induction x as [|r x IH]; [reflexivity|]. cbn [map combine fst snd]. rewrite zipq_map, IH. reflexivity. Qed.

(* ================================================================= the program ================================= *)
Local Arguments builtin argsort f args kws : simpl nomatch.
Local Arguments read_loc x en : simpl nomatch.
Local Arguments bin_op op a b : simpl nomatch.
Local Arguments num_op op a b : simpl nomatch.
Local Arguments cmp_op op a b : simpl nomatch.
Local Arguments truth v : simpl nomatch.
Local Arguments get_item a i : simpl nomatch.
Local Arguments set_item a i v : simpl nomatch.
Local Arguments iter_elems v : simpl nomatch.
Local Arguments Z.of_nat : simpl never.
Local Arguments Z.to_nat : simpl never.
Local Arguments for_loop : simpl never.
Local Arguments for_step : simpl never.
Local Arguments Qdiv : simpl never.
Local Arguments Qmult : simpl never.
Local Arguments Qplus : simpl never.
Local Arguments Qminus : simpl never.
Local Arguments qeqb : simpl never.
Local Arguments qltb : simpl never.
Local Arguments qmod : simpl never.
Local Arguments inject_Z : simpl never.
Local Arguments zq : simpl never.
Local Arguments Z.add : simpl never.
Local Arguments Z.ltb : simpl never.
Local Arguments Z.leb : simpl never.
Local Arguments norm_idx : simpl never.
Local Arguments norm_bound : simpl never.
Local Arguments py_slice : simpl never.
Local Arguments hier_sigs : simpl never.
Local Arguments assign_block : simpl never.
Local Arguments mshape : simpl never.
Local Arguments hround : simpl never.
Local Arguments qtrunc : simpl never.
Local Arguments HierExp.qtrunc : simpl never.
Local Arguments enum_from : simpl never.
Local Arguments repeat : simpl never.
Local Arguments v_level : simpl never.
Local Arguments same_shape : simpl never.

Section Lca.
Variable argsort : list nat -> list nat.
Variable fuel : nat.
Variable ext : string -> list pv -> out pv.
Local Notation runx := (run_fun argsort fuel hier_sigs ext).
Local Notation execx := (exec argsort fuel hier_sigs ext).

(* ---------- _round on a 2-d float array ---------- *)
Theorem round_mat_tie : forall (m : list (list Q)) (fs : Q), (0 < fs)%Q ->
  runx gen__round [VQMat m; VFloat fs] = OK (VQMat (map (map (fun t => hround t fs)) m)).
Proof.
  intros m fs H. unfold run_fun. cbn. unfold builtin. cbn.
  assert (E : qltb 0 fs = true) by (unfold qltb; rewrite negb_true_iff; apply not_true_is_false; rewrite Qle_bool_iff; lra).
  rewrite E. cbn. unfold bin_op. rewrite same_shape_map, sub_rows. reflexivity.
Qed.

(* ---------- _lca ---------- *)
Hypothesis Hbounds : forall H, ext "_hierarchy_bounds" [v_hier H] = lift_res v_pairQ (hier_bounds H).
Hypothesis Hround : forall t fs, (0 < fs)%Q -> ext "_round" [VFloat t; VFloat fs] = OK (VFloat (hround t fs)).
Hypothesis Hroundm : forall m fs, (0 < fs)%Q -> ext "_round" [VQMat m; VFloat fs] = OK (VQMat (map (map (fun t => hround t fs)) m)).

Definition lca_fbody := f_body gen__lca.
Definition lca_names : list string := map fst (f_params gen__lca) ++ f_locals gen__lca.
Definition lenv (vs : list pv) : env := combine lca_names vs.
Definition lca_outer_body : list stmt := match nth 4 lca_fbody SPass with SFor _ _ b => b | _ => [] end.
Definition lca_inner_it : exp := match lca_outer_body with [SFor _ it _] => it | _ => ENone end.
Definition lca_inner_body : list stmt := match lca_outer_body with [SFor _ _ b] => b | _ => [] end.
Lemma lca_outer_body_eq : lca_outer_body = [SFor ["ival"%string] lca_inner_it lca_inner_body]. Proof. reflexivity. Qed.
Definition lca_folded : list stmt :=
  firstn 4 lca_fbody ++ [SFor ["level"; "intervals"]%string (EBuiltin "enumerate" [ELoc "intervals_hier"; EInt 1] []) lca_outer_body;
                         nth 5 lca_fbody SPass].
Lemma lca_folded_eq : lca_fbody = lca_folded. Proof. reflexivity. Qed.
Lemma sig_round : lookup_sig hier_sigs "_round" = Some [("t"%string, None); ("frame_size"%string, None)]. Proof. reflexivity. Qed.
Lemma sig_bounds : lookup_sig hier_sigs "_hierarchy_bounds" = Some [("intervals_hier"%string, None)]. Proof. reflexivity. Qed.

Local Arguments lca_inner_body : simpl never.
Local Arguments lca_outer_body : simpl never.
Local Arguments lca_inner_it : simpl never.
Lemma get_item_list0 a l : get_item (VList (a :: l)) (VInt 0) = OK a.
Proof. unfold get_item, seq_item. change 0%Z with (Z.of_nat 0). rewrite norm_idx_nat by (cbn [length]; lia). reflexivity. Qed.
Lemma get_item_list1 a b l : get_item (VList (a :: b :: l)) (VInt 1) = OK b.
Proof. unfold get_item, seq_item. change 1%Z with (Z.of_nat 1). rewrite norm_idx_nat by (cbn [length]; lia). reflexivity. Qed.
Lemma set_item_sp M a b c d lev :
  set_item (VSp M) (VTup [VSlice (Some a) (Some b); VSlice (Some c) (Some d)]) (zn lev)
  = OK (VSp (assign_block M (norm_bound (length M) a) (norm_bound (length M) b)
                           (norm_bound (snd (mshape M)) c) (norm_bound (snd (mshape M)) d) lev)).
Proof. unfold set_item, zn. rewrite zltb_nat0, Nat2Z.id. reflexivity. Qed.
Lemma lca_inner_spec a0 a1 a2 a3 n lev a7 : forall ivs M vival vidx,
  length M = n -> snd (mshape M) = n ->
  exists vival' vidx',
    for_loop (for_step (run_block execx) ["ival"%string] lca_inner_body) (map viv ivs)
      (lenv [a0; a1; a2; a3; zn n; VSp M; zn lev; a7; vival; vidx])
    = SNorm (lenv [a0; a1; a2; a3; zn n; VSp (lca_level n lev M ivs); zn lev; a7; vival'; vidx']).
Proof.
  induction ivs as [|iv ivs IH]; intros M vival vidx HM HC.
  - exists vival, vidx. reflexivity.
  - cbn [map]. rewrite for_loop_cons. unfold for_step at 1. unfold lca_inner_body at 1. unfold lca_outer_body. cbn. unfold builtin. cbn.
    unfold viv. rewrite get_item_list0, get_item_list1. cbn. rewrite set_item_sp, HM, HC. cbn.
    destruct (IH (assign_block M (norm_bound n (fst iv)) (norm_bound n (snd iv)) (norm_bound n (fst iv)) (norm_bound n (snd iv)) lev)
                 (viv iv) (VSlice (Some (fst iv)) (Some (snd iv)))) as (v1 & v2 & E).
    { rewrite assign_block_length. exact HM. }
    { rewrite assign_block_cols. exact HC. }
    exists v1, v2. cbn [lca_level fold_left]. rewrite assign_slices_eq. exact E.
Qed.
Lemma enum_from_cons k v t : enum_from k (v :: t) = VTup [VInt k; v] :: enum_from (k + 1) t. Proof. reflexivity. Qed.
Lemma qeqb_pos fs : (0 < fs)%Q -> qeqb fs 0 = false.
Proof. intros H. unfold qeqb. apply not_true_is_false. rewrite Qeq_bool_iff. lra. Qed.
Lemma lca_inner_it_eval en l fs : (0 < fs)%Q ->
  lookup "intervals" en = Some (v_level l) -> lookup "frame_size" en = Some (VFloat fs) ->
  eval argsort hier_sigs ext en lca_inner_it = OK (VZMat (map (fun p => [fst (frame_iv fs p); snd (frame_iv fs p)]) l)).
Proof.
  intros Hfs H1 H2. unfold lca_inner_it, lca_outer_body. cbn. unfold read_loc. rewrite H1, H2. cbn. unfold v_level, builtin. cbn.
  unfold call. rewrite sig_round. cbn. rewrite (Hroundm _ fs Hfs). cbn. unfold bin_op. rewrite (qeqb_pos fs Hfs). cbn.
  rewrite !map_map. reflexivity.
Qed.
Lemma lca_outer_spec a0 fs a2 a3 n : (0 < fs)%Q -> forall Hs k M vlev vint vival vidx,
  length M = n -> snd (mshape M) = n ->
  exists vlev' vint' vival' vidx',
    for_loop (for_step (run_block execx) ["level"; "intervals"]%string lca_outer_body) (enum_from (Z.of_nat k) (map v_level Hs))
      (lenv [a0; VFloat fs; a2; a3; zn n; VSp M; vlev; vint; vival; vidx])
    = SNorm (lenv [a0; VFloat fs; a2; a3; zn n; VSp (levels_from (lca_level n) k M (map (map (frame_iv fs)) Hs));
                   vlev'; vint'; vival'; vidx']).
Proof.
  intros Hfs. induction Hs as [|l Hs IH]; intros k M vlev vint vival vidx HM HC.
  - exists vlev, vint, vival, vidx. reflexivity.
  - destruct (lca_inner_spec a0 (VFloat fs) a2 a3 n k (v_level l) (map (frame_iv fs) l) M vival vidx HM HC) as (v1 & v2 & E).
    rewrite map_map in E.
    destruct (IH (S k) (lca_level n k M (map (frame_iv fs) l)) (zn k) (v_level l) v1 v2) as (w1 & w2 & w3 & w4 & E2).
    { unfold lca_level. clear E. revert M HM HC. induction (map (frame_iv fs) l) as [|iv ivs IHi]; intros M HM HC; [exact HM|].
      cbn [fold_left]. apply IHi; rewrite assign_slices_eq; [rewrite assign_block_length|rewrite assign_block_cols]; assumption. }
    { unfold lca_level. clear E. revert M HM HC. induction (map (frame_iv fs) l) as [|iv ivs IHi]; intros M HM HC; [exact HC|].
      cbn [fold_left]. apply IHi; rewrite assign_slices_eq; [rewrite assign_block_length|rewrite assign_block_cols]; assumption. }
    exists w1, w2, w3, w4.
    cbn [map]. rewrite enum_from_cons, for_loop_cons. unfold for_step at 1. cbn. rewrite lca_outer_body_eq at 1. cbn [run_block].
    rewrite exec_for. rewrite (lca_inner_it_eval _ l fs Hfs) by reflexivity. cbn [lift_e iter_elems].
    rewrite map_map.
    match goal with |- context [for_loop ?st ?els ?en] =>
      match els with map _ l => replace (for_loop st els en) with
        (SNorm (lenv [a0; VFloat fs; a2; a3; zn n; VSp (lca_level n k M (map (frame_iv fs) l)); zn k; v_level l; v1; v2]))
        by (symmetry; exact E) end end.
    cbn [lenv]. rewrite zsucc_nat. exact E2.
Qed.
Local Arguments levels_from : simpl never.
Lemma zeros_shape n : length (repeat (repeat 0 n) n) = n /\ snd (mshape (repeat (repeat 0 n) n)) = n.
Proof. split; [apply repeat_length|]. destruct n; [reflexivity|]. cbn [repeat mshape snd]. apply (repeat_length 0 (S n)). Qed.

Theorem lca_tie : forall (H : hier) (fs : Q), (0 < fs)%Q ->
  (forall b, hier_bounds H = Ok b -> (0 <= Hierarchy.qtrunc ((hround (snd b) fs - hround (fst b) fs) / fs))%Z) ->
  runx gen__lca [v_hier H; VFloat fs] = lift_res VSp (lca H fs).
Proof.
  intros H fs Hfs Hn. unfold run_fun. cbn [length f_params gen__lca Nat.eqb].
  change (f_body _) with lca_fbody. rewrite lca_folded_eq. unfold exec_block, lca_folded.
  cbn. unfold builtin. cbn. unfold call. rewrite sig_bounds. cbn. change (VList (map v_level H)) with (v_hier H). rewrite Hbounds.
  unfold lca, n_frames. destruct (hier_bounds H) as [[a b]|e] eqn:EB; cbn; [|reflexivity].
  rewrite sig_round. cbn. rewrite !Hround by exact Hfs. cbn. unfold num_op at 1. cbn. rewrite (qeqb_pos fs Hfs). cbn.
  specialize (Hn (a, b) eq_refl). cbn [fst snd] in Hn.
  set (z := HierExp.qtrunc ((hround b fs - hround a fs) / fs)) in *.
  change (Hierarchy.qtrunc ((hround b fs - hround a fs) / fs)) with z in *.
  replace (0 <=? z)%Z with true by (symmetry; apply Z.leb_le; exact Hn). cbn.
  set (n := Z.to_nat z). replace (VInt z) with (zn n) by (unfold zn, n; rewrite Z2Nat.id by exact Hn; reflexivity).
  change 1%Z with (Z.of_nat 1).
  destruct (zeros_shape n) as [HM HC].
  destruct (lca_outer_spec (v_hier H) fs (VFloat a) (VFloat b) n Hfs H 1 (repeat (repeat 0 n) n) VUnbound VUnbound VUnbound VUnbound HM HC)
    as (w1 & w2 & w3 & w4 & E).
  match goal with |- context [for_loop ?st ?els ?en] => replace (for_loop st els en) with
    (SNorm (lenv [v_hier H; VFloat fs; VFloat a; VFloat b; zn n;
                  VSp (levels_from (lca_level n) 1 (repeat (repeat 0 n) n) (map (map (frame_iv fs)) H)); w1; w2; w3; w4]))
    by (symmetry; exact E) end.
  cbn. reflexivity.
Qed.
End Lca.

Check round_mat_tie.
Print Assumptions round_mat_tie.
Check lca_tie.
Print Assumptions lca_tie.
