(* C17, part 3: hierarchy._gauc = mean over the counted query frames of 1 - inversions/normalizer, with the
   window [max 0 (q-w), min n (q+w)) minus q itself; range; self-score; totality on equal shapes. *)
From Coq Require Import List Arith Lia Bool ZArith QArith Qabs Lqa Permutation.
From ME Require Import Model.Prelude Model.Hierarchy Proofs.HierarchyInv Proofs.HierarchyRank.
Import ListNotations.
Local Open Scope nat_scope.

(* ---------- rational helpers ---------- *)
Lemma qnat_S n : (qnat (S n) == qnat n + 1)%Q.
Proof. unfold qnat. rewrite Nat2Z.inj_succ. unfold Z.succ. rewrite inject_Z_plus. reflexivity. Qed.
Lemma qnat_le a b : a <= b -> (qnat a <= qnat b)%Q.
Proof. intros H. unfold qnat. rewrite <- Zle_Qle. lia. Qed.
Lemma qnat_pos b : 0 < b -> (0 < qnat b)%Q.
Proof. intros H. unfold qnat. change 0%Q with (inject_Z 0). rewrite <- Zlt_Qlt. lia. Qed.
Lemma qnat_0 : (qnat 0 == 0)%Q.
Proof. reflexivity. Qed.
Lemma gauc_term_range p : fst p <= snd p -> snd p <> 0 -> (0 <= gauc_term p /\ gauc_term p <= 1)%Q.
Proof.
  intros Hle Hnz. unfold gauc_term.
  assert (Hb : (0 < qnat (snd p))%Q) by (apply qnat_pos; lia).
  assert (Ha : (0 <= qnat (fst p))%Q) by (rewrite <- qnat_0; apply qnat_le; lia).
  assert (Hab : (qnat (fst p) <= qnat (snd p))%Q) by (apply qnat_le; exact Hle).
  assert (H1 : (qnat (fst p) / qnat (snd p) <= 1)%Q) by (apply Qle_shift_div_r; [exact Hb|lra]).
  assert (H0 : (0 <= qnat (fst p) / qnat (snd p))%Q) by (apply Qle_shift_div_l; [exact Hb|lra]).
  split; lra.
Qed.
Lemma qsum_range (l : list Q) : (forall x, In x l -> (0 <= x /\ x <= 1)%Q) -> (0 <= qsum l /\ qsum l <= qnat (length l))%Q.
Proof.
  induction l as [|x l IH]; intros H.
  - split; apply Qle_refl.
  - cbn [qsum fold_right length]. fold (qsum l). rewrite qnat_S.
    destruct (H x (or_introl eq_refl)) as [Hx0 Hx1]. destruct IH as [I0 I1]; [intros y Hy; apply H; now right|]. split; lra.
Qed.
Lemma gauc_mean_range terms : (forall p, In p terms -> fst p <= snd p) -> (0 <= gauc_mean terms /\ gauc_mean terms <= 1)%Q.
Proof.
  intros H. unfold gauc_mean. destruct (counted terms) as [|p c] eqn:E; [split; lra|].
  rewrite <- E. clear p c E.
  destruct (counted terms) as [|p c] eqn:E.
  - cbn. split; [apply Qle_refl|]. unfold Qdiv, Qmult, Qle; cbn. lia.
  - rewrite <- E.
    assert (Hlen : 0 < length (counted terms)) by (rewrite E; cbn; lia).
    assert (Hb : (0 < qnat (length (counted terms)))%Q) by (apply qnat_pos; exact Hlen).
    destruct (qsum_range (map gauc_term (counted terms))) as [S0 S1].
    { intros x Hx. apply in_map_iff in Hx. destruct Hx as [p' [<- Hp]]. unfold counted in Hp. apply filter_In in Hp.
      destruct Hp as [Hp Hnz]. apply gauc_term_range; [apply H; exact Hp|].
      destruct (snd p' =? 0) eqn:E0; [discriminate|]. apply Nat.eqb_neq in E0. exact E0. }
    rewrite map_length in S1. split.
    + apply Qle_shift_div_l; [exact Hb|]. lra.
    + apply Qle_shift_div_r; [exact Hb|]. lra.
Qed.

Lemma cfr_inv_le_norm r e tr : fst (cfr r e tr) <= snd (cfr r e tr).
Proof. rewrite cfr_spec. cbn [fst snd]. apply rank_inv_le_norm. Qed.

(* scores lie in [0, 1] - for every input on which _gauc returns at all *)
Theorem gauc_range : forall ref est tr window s, gauc ref est tr window = Ok s -> (0 <= s /\ s <= 1)%Q.
Proof.
  intros ref est tr window s H. unfold gauc in H.
  destruct (negb _); [discriminate|]. inversion H; subst s.
  apply gauc_mean_range. intros p Hp. apply in_map_iff in Hp. destruct Hp as [q [<- _]]. apply cfr_inv_le_norm.
Qed.
Print Assumptions gauc_range.

Lemma filter_none_ {A} (f : A -> bool) l : (forall x, In x l -> f x = false) -> filter f l = [].
Proof.
  induction l as [|x l IH]; intros H; [reflexivity|]. cbn [filter]. rewrite (H x (or_introl eq_refl)).
  apply IH. intros y Hy. apply H. now right.
Qed.

(* ---------- the window ---------- *)
Definition square (n : nat) (M : mat) : Prop := length M = n /\ forall r, In r M -> length r = n.
Definition entry (M : mat) (q i : nat) : nat := nth i (nth q M []) 0.
(* frames compared with query q: [max 0 (q-w), min n (q+w)) without q *)
Definition win (n w q : nat) : list nat := filter (fun i => negb (i =? q)) (seq (q - w) (Nat.min n (q + w) - (q - w))).
Definition q_norm (ref : mat) (tr : bool) (n w q : nat) : nat :=
  pair_count (fun i j => lvl_rel tr (entry ref q i) (entry ref q j)) (win n w q) (win n w q).
Definition q_inv (ref est : mat) (tr : bool) (n w q : nat) : nat :=
  pair_count (fun i j => lvl_rel tr (entry ref q i) (entry ref q j) && (entry est q j <=? entry est q i)) (win n w q) (win n w q).
Definition gauc_terms (ref est : mat) (tr : bool) (n w : nat) : list (nat * nat) :=
  map (fun q => (q_inv ref est tr n w q, q_norm ref tr n w q)) (seq 0 n).

Lemma win_spec n w q i : In i (win n w q) <-> (q - w <= i /\ i < q + w /\ i < n /\ i <> q).
Proof.
  unfold win. rewrite filter_In, in_seq. rewrite negb_true_iff, Nat.eqb_neq. lia.
Qed.

Lemma skipn_cons_nth (row : list nat) lo : lo < length row -> skipn lo row = nth lo row 0 :: skipn (S lo) row.
Proof.
  revert row. induction lo as [|lo IH]; intros row H; destruct row as [|x row]; cbn [length] in H; try lia; [reflexivity|].
  cbn [skipn nth]. apply IH. lia.
Qed.
Lemma slice_as_map (row : list nat) len : forall lo, lo + len <= length row ->
  firstn len (skipn lo row) = map (fun i => nth i row 0) (seq lo len).
Proof.
  induction len as [|len IH]; intros lo H; [reflexivity|].
  rewrite skipn_cons_nth by lia. cbn [firstn seq map]. f_equal. apply IH. lia.
Qed.
Lemma remove_at_mid {A} (l1 : list A) x l2 : remove_at (length l1) (l1 ++ x :: l2) = l1 ++ l2.
Proof.
  unfold remove_at. rewrite firstn_app, Nat.sub_diag, firstn_all. cbn [firstn]. rewrite app_nil_r.
  rewrite skipn_app. rewrite skipn_all2 by lia. replace (S (length l1) - length l1) with 1 by lia. reflexivity.
Qed.
Lemma filter_all {A} (f : A -> bool) l : (forall x, In x l -> f x = true) -> filter f l = l.
Proof.
  induction l as [|x l IH]; intros H; [reflexivity|]. cbn [filter]. rewrite (H x (or_introl eq_refl)). f_equal.
  apply IH. intros y Hy. apply H. now right.
Qed.
Lemma remove_at_window (f : nat -> nat) lo len q : lo <= q < lo + len ->
  remove_at (q - lo) (map f (seq lo len)) = map f (filter (fun i => negb (i =? q)) (seq lo len)).
Proof.
  intros H. replace len with ((q - lo) + S (lo + len - S q)) by lia.
  rewrite seq_app. replace (lo + (q - lo)) with q by lia. cbn [seq].
  rewrite filter_app. cbn [filter]. rewrite Nat.eqb_refl. cbn [negb].
  rewrite !filter_all.
  - rewrite !map_app. cbn [map].
    replace (q - lo) with (length (map f (seq lo (q - lo)))) at 1 by (rewrite map_length, seq_length; reflexivity).
    apply remove_at_mid.
  - intros x Hx. apply in_seq in Hx. apply negb_true_iff, Nat.eqb_neq. lia.
  - intros x Hx. apply in_seq in Hx. apply negb_true_iff, Nat.eqb_neq. lia.
Qed.
Lemma combine_map2 {A B C} (f : A -> B) (g : A -> C) l : combine (map f l) (map g l) = map (fun i => (f i, g i)) l.
Proof. induction l as [|x l IH]; [reflexivity|]. cbn [map combine]. rewrite IH. reflexivity. Qed.

Lemma square_row n M q : square n M -> q < n -> length (nth q M []) = n.
Proof. intros [HL HR] Hq. apply HR. apply nth_In. lia. Qed.
Lemma gauc_slice_len n M w q : square n M -> q < n -> length (gauc_slice M n w q) = Nat.min n (q + w) - (q - w).
Proof.
  intros HM Hq. unfold gauc_slice. rewrite firstn_length, skipn_length, (square_row n M q HM Hq). lia.
Qed.
(* window_self_exclusion: min q w is q's position in the slice, and dropping it leaves the window frames *)
Lemma gauc_slice_window n M w q : square n M -> q < n ->
  remove_at (Nat.min q w) (gauc_slice M n w q) = map (entry M q) (win n w q).
Proof.
  intros HM Hq. unfold gauc_slice, win, entry. rewrite slice_as_map by (rewrite (square_row n M q HM Hq); lia).
  destruct (Nat.eq_dec w 0) as [->|Hw].
  - replace (Nat.min n (q + 0) - (q - 0)) with 0 by lia. cbn [seq map filter]. unfold remove_at. rewrite firstn_nil, skipn_nil. reflexivity.
  - replace (Nat.min q w) with (q - (q - w)) by lia. apply remove_at_window. lia.
Qed.

Lemma gauc_query_spec n ref est tr w q : square n ref -> square n est -> q < n ->
  gauc_query ref est tr n w q = (q_inv ref est tr n w q, q_norm ref tr n w q).
Proof.
  intros Hr He Hq. unfold gauc_query.
  rewrite !gauc_slice_window by assumption. rewrite cfr_spec, combine_map2. unfold rank_inv, rank_norm.
  rewrite !pair_count_map. reflexivity.
Qed.

Lemma mshape_square n M : square n M -> mshape M = (n, n).
Proof.
  intros [HL HR]. unfold mshape. rewrite HL. destruct M as [|r M]; [cbn in HL; subst; reflexivity|].
  rewrite (HR r (or_introl eq_refl)). reflexivity.
Qed.

Definition eff_window (n : nat) (window : option nat) : nat := match window with None => n | Some w => w end.

(* _gauc = mean over the counted query frames q (normalizer_q <> 0) of 1 - inversions_q / normalizer_q,
   0 when no frame counts, where normalizer_q / inversions_q are the brute-force counts over the pairs (i, j) of
   frames of the window of q - for every pair of n x n matrices, every mode and every window (None, 0, 1, ...) *)
Theorem gauc_spec : forall n ref est tr window, square n ref -> square n est ->
  gauc ref est tr window = Ok (gauc_mean (gauc_terms ref est tr n (eff_window n window))).
Proof.
  intros n ref est tr window Hr He. unfold gauc. rewrite (mshape_square n ref Hr), (mshape_square n est He).
  cbn [fst snd]. rewrite Nat.eqb_refl. cbn [andb negb].
  destruct Hr as [HLr HRr] eqn:Er. rewrite HLr. fold (eff_window n window). clear Er.
  f_equal. f_equal. unfold gauc_terms. apply map_ext_in. intros q Hq. apply in_seq in Hq.
  apply gauc_query_spec; [split; assumption|assumption|lia].
Qed.
Print Assumptions gauc_spec.
(* what gauc_mean is, spelled out *)
Lemma gauc_mean_def terms :
  gauc_mean terms = match filter (fun p => negb (snd p =? 0)) terms with
                    | [] => 0%Q
                    | c => (qsum (map (fun p => 1 - qnat (fst p) / qnat (snd p))%Q c) / qnat (length c))%Q
                    end.
Proof. reflexivity. Qed.
Example gauc_spec_ex :
  let M := [[2; 2; 1; 1]; [2; 2; 1; 1]; [1; 1; 2; 2]; [1; 1; 2; 2]] in
  let E := [[2; 1; 1; 1]; [1; 2; 2; 2]; [1; 2; 2; 2]; [1; 2; 2; 2]] in
  square 4 M /\ square 4 E /\ gauc M E false (Some 2) = Ok (gauc_mean (gauc_terms M E false 4 2)) /\ (gauc_mean (gauc_terms M E false 4 2) == 1 # 6)%Q.
Proof.
  cbv zeta. repeat split; try reflexivity.
  - intros r [<-|[<-|[<-|[<-|[]]]]]; reflexivity.
  - intros r [<-|[<-|[<-|[<-|[]]]]]; reflexivity.
Qed.

(* on equal shapes _gauc always returns a score (since the fix of the squeezed one-element slice) *)
Theorem gauc_total : forall ref est tr window, mshape ref = mshape est -> exists s, gauc ref est tr window = Ok s.
Proof.
  intros ref est tr window H. unfold gauc. rewrite H, !Nat.eqb_refl. cbn [andb negb]. eexists. reflexivity.
Qed.
Corollary gauc_total_square : forall n ref est tr window, square n ref -> square n est -> exists s, gauc ref est tr window = Ok s.
Proof. intros n ref est tr window Hr He. apply gauc_total. rewrite (mshape_square n ref Hr), (mshape_square n est He). reflexivity. Qed.
(* a window of one frame / a one-frame track: query 0 sees only itself, nothing counts there *)
Lemma win_one_frame n w q : (w = 1 /\ q = 0) \/ n = 1 -> q < n -> win n w q = [].
Proof.
  intros H Hq. unfold win. apply filter_none_. intros i Hi. apply in_seq in Hi. apply negb_false_iff, Nat.eqb_eq. lia.
Qed.
Theorem gauc_shape_error : forall ref est tr window, mshape ref <> mshape est -> gauc ref est tr window = Raise ValueError.
Proof.
  intros ref est tr window H. unfold gauc.
  destruct ((fst (mshape ref) =? fst (mshape est)) && (snd (mshape ref) =? snd (mshape est))) eqn:E; [|reflexivity].
  apply andb_true_iff in E. destruct E as [E1 E2]. apply Nat.eqb_eq in E1, E2. exfalso. apply H.
  destruct (mshape ref), (mshape est). cbn in *. congruence.
Qed.

(* ---------- the score of an annotation against itself ---------- *)
Lemma q_inv_self M tr n w q : q_inv M M tr n w q = 0.
Proof.
  unfold q_inv. rewrite pair_count_lsum. apply lsum_zero. intros i _. apply lsum_zero. intros j _.
  destruct tr; cbn [lvl_rel].
  - destruct (entry M q i <? entry M q j) eqn:E; [|reflexivity]. apply Nat.ltb_lt in E.
    destruct (entry M q j <=? entry M q i) eqn:E2; [apply Nat.leb_le in E2; lia|reflexivity].
  - destruct (entry M q j =? S (entry M q i)) eqn:E; [|reflexivity]. apply Nat.eqb_eq in E.
    destruct (entry M q j <=? entry M q i) eqn:E2; [apply Nat.leb_le in E2; lia|reflexivity].
Qed.
Lemma filter_nil_existsb {A} (f : A -> bool) l : existsb f l = false <-> filter f l = [].
Proof.
  induction l as [|x l IH]; [cbn; tauto|]. cbn [existsb filter]. destruct (f x); cbn [orb]; [split; discriminate|exact IH].
Qed.
Lemma qsum_ones (l : list Q) : (forall x, In x l -> (x == 1)%Q) -> (qsum l == qnat (length l))%Q.
Proof.
  induction l as [|x l IH]; intros H; [reflexivity|]. cbn [qsum fold_right length]. fold (qsum l).
  rewrite qnat_S, IH by (intros y Hy; apply H; now right). rewrite (H x (or_introl eq_refl)). lra.
Qed.
Lemma gauc_mean_no_inv terms : (forall p, In p terms -> fst p = 0) ->
  (gauc_mean terms == if existsb (fun p => negb (snd p =? 0)) terms then 1 else 0)%Q.
Proof.
  intros H. unfold gauc_mean, counted.
  destruct (existsb (fun p => negb (snd p =? 0)) terms) eqn:E.
  - destruct (filter (fun p => negb (snd p =? 0)) terms) as [|p c] eqn:Ef.
    + apply filter_nil_existsb in Ef. congruence.
    + rewrite <- Ef. assert (Hlen : 0 < length (filter (fun p => negb (snd p =? 0)) terms)) by (rewrite Ef; cbn; lia).
      rewrite qsum_ones.
      * rewrite map_length. field. intros Hz. pose proof (qnat_pos _ Hlen) as Hp. rewrite Hz in Hp. exact (Qlt_irrefl _ Hp).
      * intros x Hx. apply in_map_iff in Hx. destruct Hx as [p' [<- Hp']]. apply filter_In in Hp'. destruct Hp' as [Hin _].
        unfold gauc_term. rewrite (H p' Hin). change (qnat 0) with 0%Q. unfold Qdiv. rewrite Qmult_0_l. ring.
  - apply filter_nil_existsb in E. rewrite E. reflexivity.
Qed.
Lemma existsb_map_ {A B} (f : B -> bool) (g : A -> B) l : existsb f (map g l) = existsb (fun x => f (g x)) l.
Proof. induction l as [|x l IH]; [reflexivity|]. cbn [map existsb]. rewrite IH. reflexivity. Qed.

(* ref = est: no pair is inverted, so the score is 1 as soon as one query frame counts (and 0 otherwise) *)
Theorem gauc_self : forall n M tr window, square n M ->
  exists s, gauc M M tr window = Ok s /\
    (s == if existsb (fun q => negb (q_norm M tr n (eff_window n window) q =? 0)) (seq 0 n) then 1 else 0)%Q.
Proof.
  intros n M tr window HM. eexists. split; [apply (gauc_spec n); assumption|].
  rewrite gauc_mean_no_inv.
  - unfold gauc_terms. rewrite existsb_map_. reflexivity.
  - intros p Hp. unfold gauc_terms in Hp. apply in_map_iff in Hp. destruct Hp as [q [<- _]]. apply q_inv_self.
Qed.
Print Assumptions gauc_self.
Example gauc_self_ex :
  let M := [[2; 2; 1; 1]; [2; 2; 1; 1]; [1; 1; 2; 2]; [1; 1; 2; 2]] in
  exists s, gauc M M true None = Ok s /\ (s == 1)%Q.
Proof. eexists. split; [vm_compute; reflexivity|reflexivity]. Qed.

(* the former witnesses of the squeeze defect: a window of one frame, a one-frame matrix *)
Example gauc_one_frame_window_ok :
  gauc [[2; 2; 1; 1]; [2; 2; 1; 1]; [1; 1; 2; 2]; [1; 1; 2; 2]] [[2; 1; 1; 1]; [1; 2; 2; 2]; [1; 2; 2; 2]; [1; 2; 2; 2]] false (Some 1) = Ok 0%Q
  /\ gauc [[3]] [[3]] true None = Ok 0%Q.
Proof. split; vm_compute; reflexivity. Qed.
Print Assumptions gauc_total.
