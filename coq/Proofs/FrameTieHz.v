(* melody.hz2cents, tied by TRANSLATION to an explicit formula (translator/framefuncs.py -> Gen/FrameGen.v, language
   Model/FrameExp.v; see FrameTie.v). Model/Melody.v has no hz2cents: every frequency comes paired with its value in cents. This
   file says what that value is.
     hz2cents_tie   for base_frequency > 0 and every array: program = map (cents_of base), cents_of base f = 0 if f = 0 and
                    1200 * flog2 (|f| / base) otherwise, flog2 = np.log2 arbitrary (np.zeros, np.flatnonzero, the integer-array
                    gather freq_hz[idx], the scatter freq_cent[idx] = ... into the fresh array; gather_nz, scatter_nz by induction).
   to_cent_voicing_tie (FrameTieCent.v) holds for every elementwise [cents]; with cents := cents_of it is the statement about the
   implementation's own hz2cents. *)
From Coq Require Import String.
From Coq Require Import List Bool Arith ZArith QArith Qabs Qminmax Qround Lia Lqa.
From ME Require Import Model.Prelude Model.Events Model.FrameExp Gen.FrameGen Proofs.FrameTie.
Import ListNotations.
Open Scope Q_scope.
Definition nzb (x : Q) : bool := negb (qeqb x 0).
Lemma gather_nz : forall l pre, gather (pre ++ l) (nz_from (Z.of_nat (length pre)) l) = OK (filter nzb l).
Proof.
  induction l as [|x t IH]; intros pre; [reflexivity|]. cbn [nz_from filter]. unfold nzb at 1.
  assert (E : pre ++ x :: t = (pre ++ [x]) ++ t) by (rewrite <- app_assoc; reflexivity).
  assert (EZ : (Z.of_nat (length pre) + 1)%Z = Z.of_nat (length (pre ++ [x]))) by (rewrite app_length; cbn [length]; lia).
  destruct (qeqb x 0); cbn [negb].
  - rewrite EZ, E. apply IH.
  - cbn [gather]. rewrite norm_idx_nat by (rewrite app_length; cbn [length]; lia).
    assert (N : nth_error (pre ++ x :: t) (length pre) = Some x) by (clear; induction pre; [reflexivity|assumption]).
    rewrite N. rewrite EZ, E, IH. reflexivity.
Qed.
Lemma set_nth_mid {A} (pre : list A) x t v : set_nth (pre ++ x :: t) (length pre) v = pre ++ v :: t.
Proof. induction pre as [|a p IH]; [reflexivity|]. cbn [app length set_nth]. rewrite IH. reflexivity. Qed.
Lemma scatter_nz (g : Q -> Q) : forall l pre,
  scatter (pre ++ repeat 0 (length l)) (nz_from (Z.of_nat (length pre)) l) (map g (filter nzb l))
  = OK (pre ++ map (fun x => if qeqb x 0 then 0 else g x) l).
Proof.
  induction l as [|x t IH]; intros pre; [reflexivity|]. cbn [nz_from filter length repeat map]. unfold nzb at 1.
  assert (EZ : (Z.of_nat (length pre) + 1)%Z = Z.of_nat (length (pre ++ [x]))) by (rewrite app_length; cbn [length]; lia).
  destruct (qeqb x 0) eqn:Ex; cbn [negb].
  - rewrite EZ. replace (pre ++ 0 :: repeat 0 (length t)) with ((pre ++ [0]) ++ repeat 0 (length t)) by (rewrite <- app_assoc; reflexivity).
    replace (length (pre ++ [x])) with (length (pre ++ [0])) by (rewrite !app_length; reflexivity).
    rewrite IH. rewrite <- app_assoc. reflexivity.
  - cbn [map scatter]. rewrite norm_idx_nat by (rewrite app_length; cbn [length]; lia).
    rewrite set_nth_mid. rewrite EZ.
    replace (pre ++ g x :: repeat 0 (length t)) with ((pre ++ [g x]) ++ repeat 0 (length t)) by (rewrite <- app_assoc; reflexivity).
    replace (length (pre ++ [x])) with (length (pre ++ [g x])) by (rewrite !app_length; reflexivity).
    rewrite IH. rewrite <- app_assoc. reflexivity.
Qed.
Lemma all_some_map {A} (f : A -> Q) l : all_some (map (fun x => Some (f x)) l) = Some (map f l).
Proof. induction l as [|a t IH]; [reflexivity|]. cbn [map all_some]. rewrite IH. reflexivity. Qed.

Section H.
Variable ext : string -> list fv -> out fv.
Variable flog2 : Q -> Q.
Local Arguments run_block : simpl never.
Local Arguments frame_sigs : simpl never.
Local Arguments gather : simpl never.
Local Arguments scatter : simpl never.
Local Arguments nz_from : simpl never.
(* what hz2cents computes for one frequency: 0 stays 0, otherwise 1200 * log2(|f| / base) *)
Definition cents_of (base f : Q) : Q := if qeqb f 0 then 0 else (1200#1) * flog2 (Qabs f / base).
Theorem hz2cents_tie : forall (f : list Q) (base : Q), 0 < base ->
  runx ext flog2 gen_mel_hz2cents [VArrQ f; VFlt base] = OK (VArrQ (map (cents_of base) f)).
Proof.
  intros f base Hb. unfold runx, run_fun, exec_block. go.
  rewrite leb_0_nat, Nat2Z.id. go.
  pose proof (gather_nz f []) as G. cbn [app length Z.of_nat] in G. rewrite G. go.
  assert (Hq : qeqb base 0 = false).
  { unfold qeqb. destruct (Qeq_bool base 0) eqn:E; [|reflexivity]. apply Qeq_bool_iff in E. lra. }
  rewrite Hq. go.
  assert (Hpos : forall x, qltb (Qabs x / base) 0 = false).
  { intros x. unfold qltb. apply negb_false_iff. apply Qle_bool_iff. apply Qle_shift_div_l; [exact Hb|]. rewrite Qmult_0_l. apply Qabs_nonneg. }
  assert (Hnz : existsb (fun x => qeqb x 0) (map (fun x => x / base) (map Qabs (filter nzb f))) = false).
  { rewrite map_map. induction f as [|a t IH]; [reflexivity|]. cbn [filter]. destruct (nzb a) eqn:Ea; [|exact (IH (gather_nz t []))].
    cbn [map existsb]. rewrite (IH (gather_nz t [])), orb_false_r. unfold nzb in Ea. apply negb_true_iff in Ea.
    unfold qeqb in *. destruct (Qeq_bool (Qabs a / base) 0) eqn:E; [|reflexivity]. exfalso. apply Qeq_bool_iff in E.
    assert (X : Qabs a == Qabs a / base * base) by (field; lra). rewrite E, Qmult_0_l in X.
    assert (Y : a == 0). { revert X. apply Qabs_case; intros; lra. }
    apply Qeq_bool_iff in Y. congruence. }
  rewrite Hnz. go.
  rewrite !map_map.
  rewrite (map_ext _ (fun x => Some ((1200#1) * flog2 (Qabs x / base)))).
  2:{ intros x. unfold lg. rewrite Hpos. reflexivity. }
  rewrite all_some_map.
  pose proof (scatter_nz (fun x => (1200#1) * flog2 (Qabs x / base)) f []) as S. cbn [app length Z.of_nat] in S. rewrite S. go.
  reflexivity.
Qed.
End H.

Print Assumptions hz2cents_tie.
