(* C17, part 2: hierarchy._compare_frame_rankings = the brute-force count over index pairs. *)
From Coq Require Import List Arith Lia Bool Permutation.
From ME Require Import Model.Prelude Model.Hierarchy Proofs.HierarchyInv.
Import ListNotations.
Local Open Scope nat_scope.

(* ---------- double sums ---------- *)
Definition dsum {A} (f : A -> A -> nat) (l : list A) : nat := lsum (fun p => lsum (fun q => f p q) l) l.
Lemma lsum_perm {A} (g : A -> nat) l l' : Permutation l l' -> lsum g l = lsum g l'.
Proof. induction 1; rewrite ?lsum_cons; lia. Qed.
Lemma dsum_ext_in {A} (f h : A -> A -> nat) l : (forall p q, In p l -> In q l -> f p q = h p q) -> dsum f l = dsum h l.
Proof. intros H. unfold dsum. apply lsum_ext_in. intros p Hp. apply lsum_ext_in. intros q Hq. auto. Qed.
Lemma dsum_plus {A} (f h : A -> A -> nat) l : dsum (fun p q => f p q + h p q) l = dsum f l + dsum h l.
Proof. unfold dsum. rewrite <- lsum_plus. apply lsum_ext. intros p. apply lsum_plus. Qed.
Lemma dsum_perm {A} (f : A -> A -> nat) l l' : Permutation l l' -> dsum f l = dsum f l'.
Proof.
  intros HP. unfold dsum. rewrite (lsum_perm _ _ _ HP). apply lsum_ext. intros p. apply lsum_perm. exact HP.
Qed.
Lemma dsum_le {A} (f h : A -> A -> nat) l : (forall p q, f p q <= h p q) -> dsum f l <= dsum h l.
Proof. intros H. unfold dsum. apply lsum_le. intros p _. apply lsum_le. intros q _. apply H. Qed.
Lemma pair_count_dsum {A} (R : A -> A -> bool) l : pair_count R l l = dsum (fun p q => b2n (R p q)) l.
Proof. apply pair_count_lsum. Qed.

(* ---------- the sort ---------- *)
Lemma ins_by_ref_perm x l : Permutation (ins_by_ref x l) (x :: l).
Proof.
  induction l as [|y l IH]; cbn [ins_by_ref]; [reflexivity|]. destruct (fst x <=? fst y); [reflexivity|].
  rewrite IH. apply perm_swap.
Qed.
Lemma sort_by_ref_perm l : Permutation (sort_by_ref l) l.
Proof.
  induction l as [|x l IH]; [constructor|]. cbn [sort_by_ref fold_right]. fold (sort_by_ref l).
  rewrite ins_by_ref_perm. now constructor.
Qed.
Fixpoint ssorted (l : list (nat * nat)) : Prop :=
  match l with [] => True | x :: t => (forall y, In y t -> fst x <= fst y) /\ ssorted t end.
Lemma ssorted_ins x l : ssorted l -> ssorted (ins_by_ref x l).
Proof.
  induction l as [|y l IH]; cbn [ins_by_ref]; intros H.
  - cbn. split; [intros ? []|exact I].
  - destruct (fst x <=? fst y) eqn:E.
    + apply Nat.leb_le in E. cbn [ssorted]. split; [|exact H]. intros z [<-|Hz]; [exact E|].
      destruct H as [H1 _]. specialize (H1 z Hz). lia.
    + apply Nat.leb_gt in E. destruct H as [H1 H2]. cbn [ssorted]. split; [|apply IH; exact H2].
      intros z Hz. apply (Permutation_in _ (ins_by_ref_perm x l)) in Hz. destruct Hz as [<-|Hz]; [lia|apply H1; exact Hz].
Qed.
Lemma ssorted_sort l : ssorted (sort_by_ref l).
Proof. induction l as [|x l IH]; [exact I|]. cbn [sort_by_ref fold_right]. apply ssorted_ins. exact IH. Qed.

(* ---------- np.unique: counts, levels, positions ---------- *)
Lemma dd_count_cons v c t l : dd_count ((v, c) :: t) l = if v =? l then c else dd_count t l.
Proof. unfold dd_count. cbn [find fst snd]. destruct (v =? l); reflexivity. Qed.
Lemma dd_count_zero u v : (forall p, In p u -> v < fst p) -> dd_count u v = 0.
Proof.
  induction u as [|[w c] u IH]; intros H; [reflexivity|]. rewrite dd_count_cons.
  specialize (H (w, c) (or_introl eq_refl)) as Hw. cbn [fst] in Hw.
  destruct (w =? v) eqn:E; [apply Nat.eqb_eq in E; lia|]. apply IH. intros p Hp. apply H. now right.
Qed.
Lemma dd_count_uc_insert x u v : incr u -> dd_count (uc_insert x u) v = b2n (x =? v) + dd_count u v.
Proof.
  induction u as [|[w c] u IH]; intros Hu; cbn [uc_insert].
  - rewrite dd_count_cons. destruct (x =? v); reflexivity.
  - destruct (x <? w) eqn:E1.
    + apply Nat.ltb_lt in E1. rewrite (dd_count_cons x 1). destruct (x =? v) eqn:E; [|reflexivity].
      apply Nat.eqb_eq in E. subst v. rewrite (dd_count_zero ((w, c) :: u)); [reflexivity|].
      intros p [<-|Hp]; [exact E1|]. apply (incr_lb _ _ Hu) in Hp. cbn [fst] in Hp. lia.
    + apply Nat.ltb_ge in E1. destruct (x =? w) eqn:E2.
      * apply Nat.eqb_eq in E2. subst w. rewrite !dd_count_cons. destruct (x =? v); reflexivity.
      * apply Nat.eqb_neq in E2. rewrite !dd_count_cons. destruct (w =? v) eqn:E3.
        -- apply Nat.eqb_eq in E3. subst v. destruct (x =? w) eqn:E4; [apply Nat.eqb_eq in E4; lia|reflexivity].
        -- apply IH. eapply incr_tail; eassumption.
Qed.
Lemma dd_count_ucounts L v : dd_count (ucounts L) v = lsum (fun x => b2n (x =? v)) L.
Proof.
  induction L as [|x L IH]; [reflexivity|]. cbn [ucounts fold_right]. fold (ucounts L).
  rewrite dd_count_uc_insert by apply incr_ucounts. rewrite IH, lsum_cons. reflexivity.
Qed.
Lemma uc_insert_keys x u v : In v (map fst (uc_insert x u)) <-> v = x \/ In v (map fst u).
Proof.
  induction u as [|[w c] u IH]; cbn [uc_insert].
  - cbn. intuition.
  - destruct (x <? w); [cbn; intuition|]. destruct (x =? w) eqn:E2.
    + apply Nat.eqb_eq in E2. subst w. cbn. intuition.
    + cbn [map fst In]. rewrite IH. cbn. intuition.
Qed.
Lemma ucounts_keys L v : In v (map fst (ucounts L)) <-> In v L.
Proof.
  induction L as [|x L IH]; [cbn; intuition|]. cbn [ucounts fold_right]. fold (ucounts L).
  rewrite uc_insert_keys, IH. cbn. intuition.
Qed.
Fixpoint sinc (L : list nat) : Prop := match L with [] => True | x :: t => (forall y, In y t -> x < y) /\ sinc t end.
Lemma incr_sinc u : incr u -> sinc (map fst u).
Proof.
  induction u as [|p u IH]; intros H; [exact I|]. cbn [map sinc]. split; [|apply IH; eapply incr_tail; eassumption].
  intros y Hy. apply in_map_iff in Hy. destruct Hy as [q [<- Hq]]. apply (incr_lb _ _ H). exact Hq.
Qed.
Lemma sinc_NoDup L : sinc L -> NoDup L.
Proof.
  induction L as [|x L IH]; intros H; [constructor|]. destruct H as [H1 H2]. constructor; [|auto].
  intros Hx. specialize (H1 x Hx). lia.
Qed.

Definition sum_lt (u : wl) (v : nat) : nat := lsum (fun p => if fst p <? v then snd p else 0) u.
Lemma sum_lt_uc_insert x u v : sum_lt (uc_insert x u) v = b2n (x <? v) + sum_lt u v.
Proof.
  induction u as [|[w c] u IH]; cbn [uc_insert].
  - unfold sum_lt. cbn [lsum fold_right fst snd]. destruct (x <? v); reflexivity.
  - destruct (x <? w) eqn:E1.
    + unfold sum_lt. rewrite (lsum_cons _ (x, 1)). cbn [fst snd]. destruct (x <? v); reflexivity.
    + destruct (x =? w) eqn:E2.
      * apply Nat.eqb_eq in E2. subst w. unfold sum_lt. rewrite !lsum_cons. cbn [fst snd]. destruct (x <? v); cbn [b2n]; lia.
      * unfold sum_lt in *. rewrite !lsum_cons, IH. lia.
Qed.
Lemma sum_lt_ucounts L v : sum_lt (ucounts L) v = lsum (fun x => b2n (x <? v)) L.
Proof.
  induction L as [|x L IH]; [reflexivity|]. cbn [ucounts fold_right]. fold (ucounts L).
  rewrite sum_lt_uc_insert, IH, lsum_cons. reflexivity.
Qed.
Lemma dd_slice_cons w se t l : dd_slice ((w, se) :: t) l = if w =? l then se else dd_slice t l.
Proof. unfold dd_slice. cbn [find fst snd]. destruct (w =? l); reflexivity. Qed.
Lemma dd_slice_with_pos u : incr u -> forall st v,
  (In v (map fst u) -> dd_slice (with_pos st u) v = (st + sum_lt u v, st + sum_lt u v + dd_count u v))
  /\ (~ In v (map fst u) -> dd_slice (with_pos st u) v = (0, 0)).
Proof.
  induction u as [|[w c] u IH]; intros Hu st v.
  - split; [intros []|reflexivity].
  - cbn [with_pos]. rewrite dd_slice_cons, dd_count_cons. unfold sum_lt. rewrite lsum_cons. fold (sum_lt u v). cbn [fst snd map In].
    assert (Hu' : incr u) by (eapply incr_tail; eassumption).
    destruct (IH Hu' (st + c) v) as [IH1 IH2].
    destruct (w =? v) eqn:E.
    + apply Nat.eqb_eq in E. subst w. split; [|intros Hn; exfalso; apply Hn; now left].
      intros _. rewrite Nat.ltb_irrefl.
      assert (Hz : sum_lt u v = 0).
      { apply lsum_zero. intros p Hp. apply (incr_lb _ _ Hu) in Hp. cbn [fst] in Hp.
        destruct (fst p <? v) eqn:E; [apply Nat.ltb_lt in E; lia|reflexivity]. }
      rewrite Hz. f_equal; lia.
    + apply Nat.eqb_neq in E. split.
      * intros [Hv|Hv]; [congruence|]. rewrite (IH1 Hv).
        assert (Hlt : w < v).
        { apply in_map_iff in Hv. destruct Hv as [q [<- Hq]]. apply (incr_lb _ _ Hu) in Hq. exact Hq. }
        apply Nat.ltb_lt in Hlt. rewrite Hlt. f_equal; lia.
      * intros Hn. apply IH2. intros Hv. apply Hn. now right.
Qed.

(* ---------- slices of the sorted array ---------- *)
Lemma filter_none {A} (f : A -> bool) l : (forall x, In x l -> f x = false) -> filter f l = [].
Proof.
  induction l as [|x l IH]; intros H; [reflexivity|]. cbn [filter]. rewrite (H x (or_introl eq_refl)).
  apply IH. intros y Hy. apply H. now right.
Qed.
Lemma take_slice_sorted S v : ssorted S ->
  take_slice (lsum (fun p => b2n (fst p <? v)) S, lsum (fun p => b2n (fst p <? v)) S + lsum (fun p => b2n (fst p =? v)) S) S
  = filter (fun p => fst p =? v) S.
Proof.
  unfold take_slice. cbn [fst snd].
  induction S as [|x S IH]; intros HS; [reflexivity|]. destruct HS as [H1 H2]. specialize (IH H2).
  rewrite !lsum_cons. cbn [filter].
  set (lt := lsum (fun p => b2n (fst p <? v)) S) in *. set (eq := lsum (fun p => b2n (fst p =? v)) S) in *.
  destruct (fst x <? v) eqn:E1.
  - apply Nat.ltb_lt in E1. destruct (fst x =? v) eqn:E2; [apply Nat.eqb_eq in E2; lia|]. cbn [b2n].
    replace (1 + lt + (0 + eq) - (1 + lt)) with eq by lia. replace (lt + eq - lt) with eq in IH by lia.
    cbn [Nat.add skipn]. exact IH.
  - apply Nat.ltb_ge in E1.
    assert (Hlt : lt = 0).
    { apply lsum_zero. intros p Hp. specialize (H1 p Hp). destruct (fst p <? v) eqn:E; [apply Nat.ltb_lt in E; lia|reflexivity]. }
    rewrite Hlt in *. cbn [b2n Nat.add skipn] in *. rewrite Nat.sub_0_r in *.
    destruct (fst x =? v) eqn:E2.
    + cbn [b2n Nat.add firstn]. f_equal. exact IH.
    + apply Nat.eqb_neq in E2.
      assert (Heq : eq = 0).
      { apply lsum_zero. intros p Hp. specialize (H1 p Hp). destruct (fst p =? v) eqn:E; [apply Nat.eqb_eq in E; lia|reflexivity]. }
      rewrite Heq. cbn [b2n Nat.add firstn]. symmetry. apply filter_none.
      intros p Hp. specialize (H1 p Hp). apply Nat.eqb_neq. lia.
Qed.
Lemma take_slice_map {A B} (f : A -> B) se l : take_slice se (map f l) = map f (take_slice se l).
Proof. unfold take_slice. rewrite skipn_map, firstn_map. reflexivity. Qed.
(* est_sorted[index[v]] is the list of estimate values at reference level v - also for an absent level *)
Lemma slice_level S v : ssorted S ->
  take_slice (dd_slice (with_pos 0 (ucounts (map fst S))) v) (map snd S) = map snd (filter (fun p => fst p =? v) S).
Proof.
  intros HS. rewrite take_slice_map. f_equal.
  destruct (dd_slice_with_pos (ucounts (map fst S)) (incr_ucounts _) 0 v) as [Hin Hout].
  destruct (in_dec Nat.eq_dec v (map fst (ucounts (map fst S)))) as [Hv|Hv].
  - rewrite (Hin Hv), sum_lt_ucounts, dd_count_ucounts, !lsum_map. cbn [Nat.add]. apply take_slice_sorted. exact HS.
  - rewrite (Hout Hv). unfold take_slice. cbn [fst snd Nat.sub firstn]. symmetry. apply filter_none.
    intros p Hp. apply Nat.eqb_neq. intros <-. apply Hv. apply ucounts_keys. apply in_map. exact Hp.
Qed.

(* ---------- per level pair: inversions and normaliser as restricted double sums ---------- *)
Definition at_levels (l1 l2 : nat) (p q : nat * nat) : nat := b2n (fst p =? l1) * b2n (fst q =? l2).
Lemma ci_levels S l1 l2 :
  count_inversions (map snd (filter (fun p => fst p =? l1) S)) (map snd (filter (fun p => fst p =? l2) S))
  = dsum (fun p q => at_levels l1 l2 p q * b2n (snd q <=? snd p)) S.
Proof.
  rewrite count_inversions_spec, pair_count_lsum, lsum_map, lsum_filter. unfold dsum. apply lsum_ext. intros p.
  rewrite lsum_map, lsum_filter. unfold at_levels. destruct (fst p =? l1); cbn [b2n].
  - apply lsum_ext. intros q. destruct (fst q =? l2); cbn [b2n]; lia.
  - symmetry. apply lsum_zero. intros; reflexivity.
Qed.
Lemma norm_levels S l1 l2 :
  dd_count (ucounts (map fst S)) l1 * dd_count (ucounts (map fst S)) l2 = dsum (fun p q => at_levels l1 l2 p q * 1) S.
Proof.
  rewrite !dd_count_ucounts, !lsum_map. unfold dsum, at_levels. rewrite <- lsum_mul_r. apply lsum_ext. intros p.
  rewrite <- lsum_mul_l. apply lsum_ext. intros q. lia.
Qed.

(* ---------- summing over the level pairs ---------- *)
Definition K (lp : list (nat * nat)) (a b : nat) : nat := lsum (fun ij => b2n (a =? fst ij) * b2n (b =? snd ij)) lp.
Lemma level_sum (g : nat * nat -> nat * nat -> nat) S lp :
  lsum (fun ij => dsum (fun p q => at_levels (fst ij) (snd ij) p q * g p q) S) lp
  = dsum (fun p q => K lp (fst p) (fst q) * g p q) S.
Proof.
  induction lp as [|ij lp IH].
  - cbn [lsum fold_right]. symmetry. unfold dsum. apply lsum_zero. intros p _. apply lsum_zero. intros q _. reflexivity.
  - rewrite lsum_cons, IH, <- dsum_plus. apply dsum_ext_in. intros p q _ _. unfold K. rewrite lsum_cons. unfold at_levels. lia.
Qed.
Lemma lsum_pick (a : nat) (h : nat -> nat) L : NoDup L -> In a L -> lsum (fun i => b2n (a =? i) * h i) L = h a.
Proof.
  induction L as [|x L IH]; intros ND Ha; [destruct Ha|]. inversion ND as [|? ? Hn ND']; subst. rewrite lsum_cons.
  destruct (Nat.eq_dec a x) as [->|Ne].
  - rewrite Nat.eqb_refl. cbn [b2n]. rewrite lsum_zero; [lia|].
    intros y Hy. destruct (x =? y) eqn:E; [apply Nat.eqb_eq in E; subst; contradiction|reflexivity].
  - destruct Ha as [->|Ha]; [congruence|]. apply Nat.eqb_neq in Ne. rewrite Ne. cbn [b2n]. rewrite IH by assumption. lia.
Qed.
Lemma lsum_pick0 (a : nat) (h : nat -> nat) L : ~ In a L -> lsum (fun i => b2n (a =? i) * h i) L = 0.
Proof.
  intros Hn. apply lsum_zero. intros y Hy. destruct (a =? y) eqn:E; [apply Nat.eqb_eq in E; subst; contradiction|reflexivity].
Qed.
Lemma K_reduced L a b : NoDup L -> In a L -> K (map (fun i => (i, S i)) L) a b = b2n (b =? S a).
Proof. intros ND Ha. unfold K. rewrite lsum_map. cbn [fst snd]. apply (lsum_pick a (fun i => b2n (b =? S i))); assumption. Qed.
Lemma K_app l1 l2 a b : K (l1 ++ l2) a b = K l1 a b + K l2 a b.
Proof. apply lsum_app. Qed.
Lemma K_map_pair x t a b : K (map (pair x) t) a b = b2n (a =? x) * lsum (fun y => b2n (b =? y) * 1) t.
Proof. unfold K. rewrite lsum_map. cbn [fst snd]. rewrite <- lsum_mul_l. apply lsum_ext. intros y. lia. Qed.
Lemma K_combs2_notin_l L a b : ~ In a L -> K (combs2 L) a b = 0.
Proof.
  induction L as [|x L IH]; intros Hn; [reflexivity|]. cbn [combs2]. rewrite K_app, K_map_pair, IH by (intros H; apply Hn; now right).
  destruct (a =? x) eqn:E; [apply Nat.eqb_eq in E; subst; exfalso; apply Hn; now left|reflexivity].
Qed.
Lemma K_combs2_notin_r L a b : ~ In b L -> K (combs2 L) a b = 0.
Proof.
  induction L as [|x L IH]; intros Hn; [reflexivity|]. cbn [combs2]. rewrite K_app, K_map_pair, IH by (intros H; apply Hn; now right).
  rewrite lsum_pick0 by (intros H; apply Hn; now right). lia.
Qed.
Lemma K_combs2 L a b : sinc L -> In a L -> In b L -> K (combs2 L) a b = b2n (a <? b).
Proof.
  induction L as [|x L IH]; intros HS Ha Hb; [destruct Ha|]. destruct HS as [H1 H2].
  assert (ND : NoDup L) by (apply sinc_NoDup; exact H2).
  assert (Hx : ~ In x L) by (intros Hx; specialize (H1 x Hx); lia).
  cbn [combs2]. rewrite K_app, K_map_pair.
  destruct Ha as [<-|Ha]; destruct Hb as [<-|Hb].
  - rewrite lsum_pick0 by exact Hx. rewrite K_combs2_notin_l by exact Hx. rewrite Nat.ltb_irrefl. cbn [b2n]. lia.
  - rewrite (lsum_pick b (fun _ => 1)) by assumption. rewrite K_combs2_notin_l by exact Hx. rewrite Nat.eqb_refl.
    specialize (H1 b Hb). apply Nat.ltb_lt in H1. rewrite H1. reflexivity.
  - rewrite K_combs2_notin_r by exact Hx. specialize (H1 a Ha).
    destruct (a =? x) eqn:E; [apply Nat.eqb_eq in E; lia|].
    destruct (a <? x) eqn:E2; [apply Nat.ltb_lt in E2; lia|]. reflexivity.
  - specialize (H1 a Ha). destruct (a =? x) eqn:E; [apply Nat.eqb_eq in E; lia|]. rewrite IH by assumption. cbn [b2n]. lia.
Qed.

(* which pairs of reference values are compared *)
Definition lvl_rel (transitive : bool) (a b : nat) : bool := if transitive then a <? b else b =? S a.
Lemma K_level_pairs tr u a b : incr u -> In a (map fst u) -> In b (map fst u) ->
  K (level_pairs tr (map fst u)) a b = b2n (lvl_rel tr a b).
Proof.
  intros Hu Ha Hb. destruct tr; cbn [level_pairs lvl_rel].
  - apply K_combs2; auto using incr_sinc.
  - apply K_reduced; auto using sinc_NoDup, incr_sinc.
Qed.
Lemma fold_levels (g : nat * nat -> nat * nat -> nat) S tr :
  lsum (fun ij => dsum (fun p q => at_levels (fst ij) (snd ij) p q * g p q) S) (level_pairs tr (map fst (ucounts (map fst S))))
  = dsum (fun p q => b2n (lvl_rel tr (fst p) (fst q)) * g p q) S.
Proof.
  rewrite level_sum. apply dsum_ext_in. intros p q Hp Hq.
  rewrite K_level_pairs; [reflexivity|apply incr_ucounts| |]; apply ucounts_keys, in_map; assumption.
Qed.

(* ---------- the brute-force definition ---------- *)
(* #{(i, j) | ref_i < ref_j}  resp.  #{(i, j) | ref_j = ref_i + 1}, on the list of (ref_i, est_i) pairs *)
Definition rank_norm (tr : bool) (P : list (nat * nat)) : nat :=
  pair_count (fun p q => lvl_rel tr (fst p) (fst q)) P P.
(* ... of which est_i >= est_j *)
Definition rank_inv (tr : bool) (P : list (nat * nat)) : nat :=
  pair_count (fun p q => lvl_rel tr (fst p) (fst q) && (snd q <=? snd p)) P P.

Lemma rank_inv_le_norm tr P : rank_inv tr P <= rank_norm tr P.
Proof.
  unfold rank_inv, rank_norm. rewrite !pair_count_dsum. apply dsum_le. intros p q.
  destruct (lvl_rel tr (fst p) (fst q)); destruct (snd q <=? snd p); cbn; lia.
Qed.

Theorem cfr_spec : forall ref est tr, cfr ref est tr = (rank_inv tr (combine ref est), rank_norm tr (combine ref est)).
Proof.
  intros ref est tr. unfold cfr.
  set (P := combine ref est). set (S := sort_by_ref P).
  assert (HS : ssorted S) by apply ssorted_sort.
  assert (HP : Permutation S P) by apply sort_by_ref_perm.
  set (u := ucounts (map fst S)). set (lp := level_pairs tr (map fst u)).
  change (fold_right (fun ij s => dd_count u (fst ij) * dd_count u (snd ij) + s) 0 lp)
    with (lsum (fun ij => dd_count u (fst ij) * dd_count u (snd ij)) lp).
  change (fold_right (fun ij s => count_inversions (take_slice (dd_slice (with_pos 0 u) (fst ij)) (map snd S))
                                   (take_slice (dd_slice (with_pos 0 u) (snd ij)) (map snd S)) + s) 0 lp)
    with (lsum (fun ij => count_inversions (take_slice (dd_slice (with_pos 0 u) (fst ij)) (map snd S))
                                           (take_slice (dd_slice (with_pos 0 u) (snd ij)) (map snd S))) lp).
  assert (Hn : lsum (fun ij => dd_count u (fst ij) * dd_count u (snd ij)) lp = rank_norm tr P).
  { rewrite (lsum_ext _ (fun ij => dsum (fun p q => at_levels (fst ij) (snd ij) p q * 1) S)) by (intros ij; apply norm_levels).
    unfold lp, u. rewrite fold_levels. unfold rank_norm. rewrite pair_count_dsum, (dsum_perm _ _ _ HP).
    apply dsum_ext_in. intros; lia. }
  assert (Hi : lsum (fun ij => count_inversions (take_slice (dd_slice (with_pos 0 u) (fst ij)) (map snd S))
                                                (take_slice (dd_slice (with_pos 0 u) (snd ij)) (map snd S))) lp = rank_inv tr P).
  { rewrite (lsum_ext _ (fun ij => dsum (fun p q => at_levels (fst ij) (snd ij) p q * b2n (snd q <=? snd p)) S)).
    2:{ intros ij. unfold u. rewrite !slice_level by exact HS. apply ci_levels. }
    unfold lp, u. rewrite fold_levels. unfold rank_inv. rewrite pair_count_dsum, (dsum_perm _ _ _ HP).
    apply dsum_ext_in. intros p q _ _. destruct (lvl_rel tr (fst p) (fst q)); destruct (snd q <=? snd p); reflexivity. }
  rewrite Hn, Hi. destruct (rank_norm tr P =? 0) eqn:E; [|reflexivity].
  apply Nat.eqb_eq in E. pose proof (rank_inv_le_norm tr P) as Hle. rewrite E in *. f_equal. lia.
Qed.

(* the same on index pairs (i, j), 0 <= i, j < n *)
Definition idx_pairs (n : nat) : list (nat * nat) := list_prod (seq 0 n) (seq 0 n).
Definition idx_norm (tr : bool) (ref : list nat) : nat :=
  length (filter (fun ij => lvl_rel tr (nth (fst ij) ref 0) (nth (snd ij) ref 0)) (idx_pairs (length ref))).
Definition idx_inv (tr : bool) (ref est : list nat) : nat :=
  length (filter (fun ij => lvl_rel tr (nth (fst ij) ref 0) (nth (snd ij) ref 0) && (nth (snd ij) est 0 <=? nth (fst ij) est 0))
                 (idx_pairs (length ref))).

Lemma pair_count_map {A B} (f : A -> B) (R : B -> B -> bool) l :
  pair_count R (map f l) (map f l) = pair_count (fun i j => R (f i) (f j)) l l.
Proof. rewrite !pair_count_lsum, lsum_map. apply lsum_ext. intros i. rewrite lsum_map. reflexivity. Qed.
Lemma combine_as_map (ref est : list nat) : length ref = length est ->
  combine ref est = map (fun i => (nth i ref 0, nth i est 0)) (seq 0 (length ref)).
Proof.
  intros HL. set (f := fun i => (nth i ref 0, nth i est 0)). apply (nth_ext _ _ (0, 0) (f 0)).
  - rewrite combine_length, map_length, seq_length. lia.
  - intros k Hk. rewrite combine_length in Hk. rewrite combine_nth by exact HL.
    rewrite map_nth, seq_nth by lia. reflexivity.
Qed.

(* _compare_frame_rankings(ref, est, transitive) = (inversions, normalizer) of the docstring:
   normalizer = #{(i,j) | ref[i] < ref[j]} (transitive) / #{(i,j) | ref[i] + 1 = ref[j]} (reduced),
   inversions = #{those (i,j) with est[i] >= est[j]} *)
Theorem compare_frame_rankings_spec : forall ref est tr, length ref = length est ->
  compare_frame_rankings ref est tr = Ok (idx_inv tr ref est, idx_norm tr ref).
Proof.
  intros ref est tr HL. unfold compare_frame_rankings. rewrite HL, Nat.ltb_irrefl, cfr_spec. f_equal.
  unfold rank_inv, rank_norm. rewrite (combine_as_map ref est HL), !pair_count_map. reflexivity.
Qed.
Print Assumptions compare_frame_rankings_spec.
Example compare_frame_rankings_spec_ex :
  compare_frame_rankings [2; 2; 1; 1] [2; 1; 1; 1] false = Ok (2, 4) /\ compare_frame_rankings [3; 1; 1] [0; 1; 2] false = Ok (0, 0).
Proof. split; vm_compute; reflexivity. Qed.

(* the defaultdict behaviour in reduced mode: an absent level i + 1 contributes nothing *)
Lemma reduced_absent_level : forall ref est l, ~ In (S l) ref ->
  pair_count (fun p q : nat * nat => (fst p =? l) && (fst q =? S l)) (combine ref est) (combine ref est) = 0.
Proof.
  intros ref est l Hn. rewrite pair_count_lsum. apply lsum_zero. intros p _. apply lsum_zero. intros q Hq.
  destruct (fst q =? S l) eqn:E; [|rewrite andb_false_r; reflexivity].
  apply Nat.eqb_eq in E. exfalso. apply Hn. rewrite <- E. destruct q as [a b]. apply in_combine_l in Hq. exact Hq.
Qed.

(* est shorter than ref: est[idx] fails *)
Lemma compare_frame_rankings_short : forall ref est tr, length est < length ref ->
  compare_frame_rankings ref est tr = Raise IndexError.
Proof. intros ref est tr H. unfold compare_frame_rankings. apply Nat.ltb_lt in H. rewrite H. reflexivity. Qed.
