(* melody.constant_hop_timebase, tied to Model/Melody.v by TRANSLATION (translator/framefuncs.py -> Gen/FrameGen.v, language
   Model/FrameExp.v; see FrameTie.v).
     constant_hop_timebase_tie   for hop <> 0 and every end_time: program = Melody.constant_hop_timebase (np.round(., 10), the
                                 sample count int(floor(end / hop)) + 1 with its ValueError when negative, np.linspace - whose step
                                 (hop * n) / n equals hop only up to ==, which np.round(., 10) cannot see: round10_compat).
   hop = 0 (NumPy divides by zero: inf / nan, and int() raises) is outside the value domain of the evaluator: that branch of the
   model stays tied by sampling only. *)
From Coq Require Import String.
From Coq Require Import List Bool Arith ZArith QArith Qabs Qminmax Qround Lia Lqa.
From ME Require Import Model.Prelude Model.Events Model.FrameExp Gen.FrameGen Proofs.FrameTie.
From ME Require Model.Melody.
Import ListNotations.
Open Scope Q_scope.
Definition lift_arr (r : res (list Q)) : out fv := match r with Ok a => OK (VArrQ a) | Raise e => EXN e end.
Lemma qltb_compat a b c d : a == c -> b == d -> qltb a b = qltb c d.
Proof. intros H1 H2. unfold qltb. rewrite H1, H2. reflexivity. Qed.
Lemma rhe_compat x y : x == y -> Melody.round_half_even x = Melody.round_half_even y.
Proof.
  intros H. unfold Melody.round_half_even. rewrite (Qfloor_comp _ _ H).
  assert (E : x - inject_Z (Qfloor y) == y - inject_Z (Qfloor y)) by (rewrite H; reflexivity).
  rewrite (qltb_compat _ _ _ _ E (Qeq_refl _)), (qltb_compat _ _ _ _ (Qeq_refl (1#2)) E). reflexivity.
Qed.
Lemma round10_compat x y : x == y -> Melody.round10 x = Melody.round10 y.
Proof. intros H. unfold Melody.round10. rewrite (rhe_compat (x * 10000000000) (y * 10000000000)) by (rewrite H; reflexivity). reflexivity. Qed.
Lemma qtrunc_Z z : qtrunc (inject_Z z) = z.
Proof.
  unfold qtrunc. destruct (qltb (inject_Z z) 0).
  - change (- inject_Z z) with (inject_Z (- z)). rewrite Qfloor_Z. lia.
  - apply Qfloor_Z.
Qed.

Section C.
Variable ext : string -> list fv -> out fv.
Variable flog2 : Q -> Q.
Local Arguments run_block : simpl never.
Local Arguments frame_sigs : simpl never.
Local Arguments round10 : simpl never.
Local Arguments qtrunc : simpl never.
Local Arguments linspace : simpl never.
Local Arguments Qfloor : simpl never.

(* hop = 0 makes NumPy divide by zero (inf / nan, then int() raises): outside the value domain of the evaluator *)
Theorem constant_hop_timebase_tie : forall hop e : Q, ~ hop == 0 ->
  runx ext flog2 gen_mel_constant_hop_timebase [VFlt hop; VFlt e] = lift_arr (Melody.constant_hop_timebase hop e).
Proof.
  intros hop e Hh. unfold runx, run_fun, exec_block, Melody.constant_hop_timebase. go.
  assert (Hq : qeqb hop 0 = false) by (unfold qeqb; destruct (Qeq_bool hop 0) eqn:E; [apply Qeq_bool_iff in E; contradiction|reflexivity]).
  rewrite Hq. go. rewrite !qtrunc_Z. change (round10 e) with (Melody.round10 e).
  set (n := Qfloor (Melody.round10 e / hop)). clearbody n.
  destruct (n + 1 <? 0)%Z eqn:EN; go; [reflexivity|].
  apply Z.ltb_ge in EN. cbn [lift_arr]. apply f_equal. apply f_equal. change round10 with Melody.round10. unfold linspace.
  destruct (Z.to_nat (n + 1)) as [|[|m]] eqn:EM.
  - reflexivity.
  - cbn [map seq]. rewrite (round10_compat (inject_Z 0) (inject_Z (Z.of_nat 0) * hop)) by (change (inject_Z (Z.of_nat 0)) with 0; ring).
    reflexivity.
  - rewrite map_map. apply map_ext_in. intros i Hi. apply round10_compat.
    assert (Hn : inject_Z (Z.of_nat (S (S m) - 1)) == inject_Z n).
    { replace (Z.of_nat (S (S m) - 1)) with n by lia. reflexivity. }
    assert (Hn0 : ~ inject_Z n == 0).
    { intros E0. unfold Qeq in E0. cbn [Qnum Qden inject_Z] in E0. lia. }
    rewrite Hn. field. exact Hn0.
Qed.
End C.

Print Assumptions constant_hop_timebase_tie.
