(* match_events closed over the GENERATED callees: the tie of match_events (both branches) re-proved for ANY callees that meet the
   specifications fhw_spec / bm_spec / dist_spec, and these instantiated with the translated _fast_hit_windows (fast_hit_windows_tie)
   and the translated _bipartite_match (bipartite_match_tie) themselves. The one step that stays a reading of Python rather than a
   theorem is stated in the definition of [closed_ext]: the graph dict built in the heap is handed to _bipartite_match as the
   read-only value [graph_val gr] (the callee never writes to it nor tests it for identity). *)
From Coq Require Import String.
From Coq Require Import List Bool Arith ZArith QArith Lia.
From ME Require Import Model.Prelude Model.Dict Model.Matching Model.Events Model.HeapPy Gen.MatchGen Model.HeapPyMatch Proofs.HeapPyLemmas
  Proofs.EventsSpec Proofs.MatchTie Proofs.MatchTieHK Proofs.HKTieRec Proofs.HKTie.
Import ListNotations.
Local Open Scope nat_scope.
Local Arguments hget : simpl never.
Local Arguments hset : simpl never.
Local Arguments for_loop : simpl never.
Local Arguments Z.of_nat : simpl never.
Local Arguments Z.to_nat : simpl never.
Local Arguments Z.leb : simpl never.
Local Arguments as_key : simpl never.
Local Arguments dget : simpl never.
Local Arguments dset : simpl never.
Local Arguments dmem : simpl never.
Local Arguments ddel : simpl never.
Local Arguments map_vals : simpl never.
Local Arguments run : simpl never.
Local Arguments fast_hit_windows : simpl never.
Local Arguments hits_by_distance : simpl never.
Local Arguments bipartite_match : simpl never.
Local Arguments sort_pairs : simpl never.
Local Arguments read_graph : simpl never.
Local Arguments qleb : simpl never.

(* what match_events needs from its callees *)
Definition fhw_spec (ext : string -> heap -> list val -> out (heap * val)) : Prop :=
  forall h ref est w wq, as_num w = Some wq ->
  exists h', ext "_fast_hit_windows"%string h [VVec ref; VVec est; w] = OK (h', VTup [VRef (length h); VRef (S (length h))]) /\
    hget h' (length h) = Some (OList (nats_val (map fst (fast_hit_windows ref est wq)))) /\
    hget h' (S (length h)) = Some (OList (nats_val (map snd (fast_hit_windows ref est wq)))).
Definition bm_spec (ext : string -> heap -> list val -> out (heap * val)) : Prop :=
  forall h gv gr, read_graph h gv = Some gr -> NoDup (keys gr) ->
  ext "_bipartite_match"%string h [gv] = FUEL \/
  exists h' m, bipartite_match gr = Some m /\ ext "_bipartite_match"%string h [gv] = OK (h', VRef (length h)) /\
    hget h' (length h) = Some (matching_obj m).
Definition dist_spec (dist : Q -> Q -> Q) (ext : string -> heap -> list val -> out (heap * val)) : Prop :=
  forall h ref est, ext "distance"%string h [VVec ref; VVec est] = OK (h, outer_mat dist ref est).

Definition me_result' (r : out obj) (o : option (list (nat * nat))) : Prop := r = FUEL \/ r = me_result o.

Section Closed.
Variable ext : string -> heap -> list val -> out (heap * val).
Hypothesis Hfhw : fhw_spec ext.
Hypothesis Hbm : bm_spec ext.

Theorem match_events_tie_gen fuel h ref est w wq : as_num w = Some wq ->
  me_result' (result_obj (run match_funs ext (S fuel) "match_events" h None [VVec ref; VVec est; w; VNone])) (match_events ref est wq).
Proof.
  intros Hw. unfold me_result'. unfold run; fold run. cbn [lookup_fun match_funs String.eqb Ascii.eqb Bool.eqb].
  destruct (Hfhw h ref est w wq Hw) as (h1 & E1 & A1 & A2).
  pose proof (hget_lt _ _ _ A1) as LA1. pose proof (hget_lt _ _ _ A2) as LA2.
  destruct w; try discriminate Hw.
  all: ev; rewrite E1; step; rewrite zip2_pairs.
  all: match goal with |- context [for_loop ?f ?s ?all ?els ?hh ?en] =>
    match en with {| e_loc := [(_, ?v1); (_, ?v2); (_, ?v3); (_, ?v4); (_, ?v5); (_, VRef ?aG); _; _; (_, ?vm)] |} =>
    match els with pairs_val ?hs =>
    assert (HI : GInv hh aG [] []) by (split; [hsimp; reflexivity|split; [constructor|split; [constructor|intros []]]]);
    destruct (me_loop_ok ext (fun g h o a => run match_funs ext fuel g h (Some o) a) fuel
                v1 v2 v3 v4 v5 aG vm all hs VUnbound VUnbound hh [] [] HI) as (h' & dr' & vr' & ve' & S & I2 & L2);
    assert (E : for_loop f s all els hh en = SNorm h' (me_env v1 v2 v3 v4 v5 aG vr' ve' vm)) by exact S;
    rewrite E; clear E S end end end.
  all: unfold me_env; ev.
  all: match goal with |- context [ext "_bipartite_match"%string ?hx [?gv]] =>
    destruct (Hbm hx gv _ (GInv_read _ _ _ _ I2) ltac:(rewrite <- build_graph_fold; apply build_graph_keys))
      as [EB | (h2 & m & EM & EB & HM2)]; rewrite EB end.
  all: try (left; reflexivity).
  all: right; pose proof (hget_lt _ _ _ HM2) as LM2; unfold match_events, match_hits; rewrite build_graph_fold, EM.
  all: step; unfold matching_obj; ev; rewrite items_pairs; step; reflexivity.
Qed.

Variable dist : Q -> Q -> Q.
Hypothesis Hdist : dist_spec dist ext.
Theorem match_events_dist_tie_gen fuel h ref est w wq : as_num w = Some wq ->
  me_result' (result_obj (run match_funs ext (S fuel) "match_events" h None [VVec ref; VVec est; w; VFun "distance"]))
             (match_events_dist dist ref est wq).
Proof.
  intros Hw. unfold me_result'. unfold run; fold run. cbn [lookup_fun match_funs String.eqb Ascii.eqb Bool.eqb].
  destruct w; try discriminate Hw; cbn in Hw; injection Hw as <-.
  all: ev; rewrite Hdist; ev; rewrite where_model, ivec_fst, ivec_snd, zip2_pairs.
  all: match goal with |- context [for_loop ?f ?s ?all ?els ?hh ?en] =>
    match en with {| e_loc := [(_, ?v1); (_, ?v2); (_, ?v3); (_, ?v4); (_, ?v5); (_, VRef ?aG); _; _; (_, ?vm)] |} =>
    match els with pairs_val ?hs =>
    assert (HI : GInv hh aG [] []) by (split; [hsimp; reflexivity|split; [constructor|split; [constructor|intros []]]]);
    destruct (me_loop_ok ext (fun g h o a => run match_funs ext fuel g h (Some o) a) fuel
                v1 v2 v3 v4 v5 aG vm all hs VUnbound VUnbound hh [] [] HI) as (h' & dr' & vr' & ve' & S & I2 & L2);
    assert (E : for_loop f s all els hh en = SNorm h' (me_env v1 v2 v3 v4 v5 aG vr' ve' vm)) by exact S;
    rewrite E; clear E S end end end.
  all: unfold me_env; ev.
  all: match goal with |- context [ext "_bipartite_match"%string ?hx [?gv]] =>
    destruct (Hbm hx gv _ (GInv_read _ _ _ _ I2) ltac:(rewrite <- build_graph_fold; apply build_graph_keys))
      as [EB | (h2 & m & EM & EB & HM2)]; rewrite EB end.
  all: try (left; reflexivity).
  all: right; pose proof (hget_lt _ _ _ HM2) as LM2; unfold match_events_dist, match_hits; rewrite build_graph_fold, EM.
  all: step; unfold matching_obj; ev; rewrite items_pairs; step; reflexivity.
Qed.
End Closed.

(* the callees as the GENERATED programs: _fast_hit_windows as translated; _bipartite_match as translated, run on the read-only copy
   [graph_val gr] of the graph {est_i: [ref_i, ..]} that match_events built in the heap (the one step that is a reading, not a
   theorem: a dict the callee never writes to nor tests for identity is passed as a read-only value) *)
Local Open Scope string_scope.
Definition closed_ext (dist : Q -> Q -> Q) (k : nat) (f : string) (h : heap) (args : list val) : out (heap * val) :=
  if f =? "_fast_hit_windows" then run_match dist k f h args
  else if f =? "_bipartite_match" then
    match args with
    | [gv] => match read_graph h gv with Some gr => run_match dist k f h [graph_val gr] | None => UNM end
    | _ => UNM end
  else if f =? "distance" then
    match args with [VVec ref; VVec est] => OK (h, outer_mat dist ref est) | _ => UNM end
  else UNM.
Local Close Scope string_scope.

Lemma closed_fhw dist k : fhw_spec (closed_ext dist (S k)).
Proof. intros h ref est w wq Hw. destruct (fast_hit_windows_tie dist k h ref est w wq Hw) as (h' & E & A1 & A2 & _).
  exists h'. unfold closed_ext. cbn [String.eqb Ascii.eqb Bool.eqb]. auto. Qed.
Lemma closed_bm dist k : bm_spec (closed_ext dist k).
Proof. intros h gv gr Hr ND. unfold closed_ext. cbn [String.eqb Ascii.eqb Bool.eqb]. rewrite Hr. destruct k as [|n]; [left; reflexivity|].
  unfold run_match. destruct (bipartite_match_tie (match_ext dist) gr n h ND) as [[-> _] | (h' & m & E & -> & HM & _)]; [left; reflexivity|].
  right. exists h', m. auto. Qed.
Lemma closed_dist dist k : dist_spec dist (closed_ext dist k).
Proof. intros h ref est. reflexivity. Qed.

Theorem match_events_closed dist k fuel h ref est w wq : as_num w = Some wq ->
  me_result' (result_obj (run match_funs (closed_ext dist (S k)) (S fuel) "match_events" h None [VVec ref; VVec est; w; VNone]))
             (match_events ref est wq).
Proof. apply match_events_tie_gen; [apply closed_fhw|apply closed_bm]. Qed.
Theorem match_events_dist_closed dist k fuel h ref est w wq : as_num w = Some wq ->
  me_result' (result_obj (run match_funs (closed_ext dist (S k)) (S fuel) "match_events" h None [VVec ref; VVec est; w; VFun "distance"]))
             (match_events_dist dist ref est wq).
Proof. apply match_events_dist_tie_gen; [apply closed_bm|apply closed_dist]. Qed.
Print Assumptions match_events_closed.
Print Assumptions match_events_dist_closed.
