(* mir_eval.chord.directional_hamming_distance tied to the hand-written model by TRANSLATION (property C12).

   translator/corefuncs_dhd.py turns the function body into a program of the Python / NumPy sub-language of
   Model/DhdExp.v (Gen/CoreDhdGen.v, regenerated on every check). This file proves, for ALL (n,2) / (m,2) arrays of
   finite values (lists of rows `ref est : list (Q*Q)`), that running the generated program gives what
   Model/ChordPipeline.directional_hamming_distance gives, including which exception is raised and in which order:
     * util.validate_intervals(estimated) first, then (reference): opaque callees instantiated by the model's
       validate_intervals, bound through the signature read from mir_eval/util.py in the same run ([dhd_sigs_as_expected]);
     * the non-overlap test  len(ref) > 1 and (ref[:-1, 1] > ref[1:, 0]).any()  -> ValueError;
     * est_ts = np.unique(est.flatten());
     * the loop over the reference rows with explicit state (seg, start, end, dur, between_start_end, seg_ts), by
       induction over the rows ([step_run], [loop_run]);
     * the normalisation by ref[-1, 1] - ref[0, 0] (NumPy float division = xdiv; IndexError on an empty reference).
   [chord_directional_hamming_distance_tie_exact] is an equation with the model whose sum is accumulated as the loop does
   (from 0.0, left to right: [dhd_left]); [chord_directional_hamming_distance_tie] states the tie with the model itself,
   whose sum is `qsum` (right to left): the two rationals are equal as numbers (==), not as unreduced fractions, so the
   result is compared by [out_xeq] (same exception / same kind of non-finite value / Qeq finite values, same NumPy-scalar
   flag). *)
From Coq Require Import String.
From Coq Require Import List Bool Arith ZArith QArith Qabs Qminmax Lia ZifyBool Lqa.
From ME Require Import Model.Prelude Model.IvExp Model.DhdExp Gen.CoreDhdGen.
From ME Require Model.Intervals Model.ChordPipeline.
Import ListNotations.
Open Scope Q_scope.

Definition dhd_sigs : list (string * option sigv) := sigs_of dhd_prims.
Theorem dhd_sigs_as_expected : dhd_sigs = dhd_sigs_expected.
Proof. vm_compute. reflexivity. Qed.
Definition run_dhd : dfdef -> list val -> out val := drun_fun dhd_sigs dhd_ext.

Lemma py_slice_init {A} (l : list A) : py_slice None (Some (-1)%Z) l = removelast l.
Proof.
  unfold py_slice, py_norm. change (-1 <? 0)%Z with true. cbv iota.
  change (Z.to_nat 0) with 0%nat. cbn [skipn].
  destruct l as [|a t]; [reflexivity|].
  rewrite removelast_firstn_len. f_equal. cbn [length]. lia.
Qed.
Lemma py_slice_tail {A} (l : list A) : py_slice (Some 1%Z) None l = tl l.
Proof.
  unfold py_slice, py_norm. change (1 <? 0)%Z with false. cbv iota.
  destruct l as [|a t]; [reflexivity|].
  cbn [length]. replace (Z.to_nat (Z.min 1 (Z.of_nat (S (length t))))) with 1%nat by lia.
  cbn [skipn tl]. replace (Z.to_nat _) with (length t) by lia. apply firstn_all.
Qed.
Lemma overlaps_vmap2 : forall a t,
  existsb (fun b => b) (vmap2 (qcmp Gt) (map snd (removelast (a :: t))) (map fst t)) = ChordPipeline.overlaps (a :: t).
Proof.
  intros a t; revert a; induction t as [|b t IH]; intro a; [reflexivity|].
  change (removelast (a :: b :: t)) with (a :: removelast (b :: t)).
  cbn [map vmap2 existsb]. rewrite IH. reflexivity.
Qed.
Lemma overlaps_vmap2_flip : forall a t,
  existsb (fun b => b) (vmap2 (qcmp Lt) (map fst t) (map snd (removelast (a :: t)))) = ChordPipeline.overlaps (a :: t).
Proof.
  intros a t; revert a; induction t as [|b t IH]; intro a; [reflexivity|].
  change (removelast (a :: b :: t)) with (a :: removelast (b :: t)).
  cbn [map vmap2 existsb]. rewrite IH. reflexivity.
Qed.
Lemma removelast_len {A} : forall (a : A) t, length (removelast (a :: t)) = length t.
Proof. intros a t; revert a; induction t as [|b t IH]; intro a; [reflexivity|].
  change (removelast (a :: b :: t)) with (a :: removelast (b :: t)). cbn [length]. rewrite IH. reflexivity. Qed.
Lemma vmap2_map {A B C D} (f : B -> C -> D) (g : A -> B) (h : A -> C) l :
  vmap2 f (map g l) (map h l) = map (fun x => f (g x) (h x)) l.
Proof. induction l as [|x l IH]; [reflexivity|]. cbn [map vmap2]. rewrite IH. reflexivity. Qed.
Lemma vselect_filter {A} (p : A -> bool) l : vselect (map p l) l = filter p l.
Proof. induction l as [|x l IH]; [reflexivity|]. cbn [map vselect filter]. rewrite IH. reflexivity. Qed.
Lemma diff_from_diffs : forall l a, diff_from a l = ChordPipeline.diffs a l.
Proof. induction l as [|b l IH]; intro a; [reflexivity|]. cbn [diff_from ChordPipeline.diffs]. rewrite IH. reflexivity. Qed.

Local Arguments Intervals.validate_intervals : simpl never.
Local Arguments Intervals.sort_uniq : simpl never.
Local Arguments Intervals.flat : simpl never.
Local Arguments ChordPipeline.overlaps : simpl never.
Local Arguments qmax_list : simpl never.
Local Arguments Qmax : simpl never.
Local Arguments qltb : simpl never.
Local Arguments qleb : simpl never.
Local Arguments qeqb : simpl never.
Local Arguments py_slice : simpl never.
Local Arguments Z.ltb !_ !_.
Local Arguments Z.leb !_ !_.
Local Arguments Z.eqb !_ !_.
Local Arguments Nat.eqb !_ !_.
Local Arguments Nat.ltb !_ !_.
Local Arguments Nat.leb !_ !_.
Local Arguments norm_idx !_ !_.
Local Arguments dhd_sigs : simpl never.
Local Arguments Z.of_nat : simpl never.
Lemma get_col_0 l : get_col (VMat l) 0 = OK (VArrQ (map fst l)). Proof. reflexivity. Qed.
Lemma get_col_1 l : get_col (VMat l) 1 = OK (VArrQ (map snd l)). Proof. reflexivity. Qed.
Local Arguments get_col : simpl never.
Lemma cmp_arr_arr op l m : length l = length m -> cmp_op op (VArrQ l) (VArrQ m) = OK (VArrB (vmap2 (qcmp op) l m)).
Proof. intro H. unfold cmp_op. rewrite H, Nat.eqb_refl. reflexivity. Qed.
Lemma cmp_int_int op p q x y : cmp_op op (VInt p x) (VInt q y) = OK (VBool (zcmp op x y)).
Proof. reflexivity. Qed.
Local Arguments cmp_op : simpl never.

Definition denv (ref est : list (Q*Q)) (ets sg st en dur btw sts : val) : env :=
  [("reference_intervals", VMat ref); ("estimated_intervals", VMat est); ("est_ts", ets); ("seg", sg); ("start", st);
   ("end", en); ("dur", dur); ("between_start_end", btw); ("seg_ts", sts)]%string.
Definition st_k (k : nat) : dstmt := nth k (d_body gen_directional_hamming_distance) DPass.
Notation X := (dexec dhd_sigs dhd_ext).

Lemma sigs_lookup : assoc_sig "util.validate_intervals" dhd_sigs = Some [("intervals"%string, None)].
Proof. reflexivity. Qed.

Lemma s0_run : forall ref est ets sg st en dur btw sts,
  X (st_k 0) (denv ref est ets sg st en dur btw sts)
  = match Intervals.validate_intervals est with Ok _ => SNorm (denv ref est ets sg st en dur btw sts) | Raise e => SExn e end.
Proof. intros. cbn. rewrite sigs_lookup. cbn. destruct (Intervals.validate_intervals est); reflexivity. Qed.
Lemma s1_run : forall ref est ets sg st en dur btw sts,
  X (st_k 1) (denv ref est ets sg st en dur btw sts)
  = match Intervals.validate_intervals ref with Ok _ => SNorm (denv ref est ets sg st en dur btw sts) | Raise e => SExn e end.
Proof. intros. cbn. rewrite sigs_lookup. cbn. destruct (Intervals.validate_intervals ref); reflexivity. Qed.
Lemma s2_run : forall ref est ets sg st en dur btw sts,
  X (st_k 2) (denv ref est ets sg st en dur btw sts)
  = if ChordPipeline.overlaps ref then SExn ValueError else SNorm (denv ref est ets sg st en dur btw sts).
Proof.
  intros. destruct ref as [|a [|b t]]; [reflexivity|reflexivity|].
  remember (a :: b :: t) as ref eqn:E.
  cbn. rewrite cmp_int_int. cbn [zcmp].
  match goal with |- context [OK (VBool ?c)] => replace c with true by (subst ref; cbn [length]; lia) end.
  cbn. rewrite ?get_col_1, ?get_col_0, ?py_slice_init, ?py_slice_tail. cbn.
  subst ref. cbn [tl]. rewrite cmp_arr_arr by (rewrite !map_length, removelast_len; reflexivity).
  cbn [obind lift_e truth]. first [rewrite overlaps_vmap2 | rewrite overlaps_vmap2_flip]. destruct (ChordPipeline.overlaps (a :: b :: t)); reflexivity.
Qed.
Lemma s3_run : forall ref est ets sg st en dur btw sts,
  X (st_k 3) (denv ref est ets sg st en dur btw sts)
  = SNorm (denv ref est (VArrQ (Intervals.sort_uniq (Intervals.flat est))) sg st en dur btw sts).
Proof. reflexivity. Qed.
Lemma s4_run : forall ref est ets sg st en dur btw sts,
  X (st_k 4) (denv ref est ets sg st en dur btw sts)
  = SNorm (denv ref est ets (VFlt true (Fin 0)) st en dur btw sts).
Proof. reflexivity. Qed.

Lemma cmp_arr_flt op l p s : cmp_op op (VArrQ l) (VFlt p (Fin s)) = OK (VArrB (map (fun x => qcmp op x s) l)).
Proof. reflexivity. Qed.
Lemma cmp_flt_arr op l p s : cmp_op op (VFlt p (Fin s)) (VArrQ l) = OK (VArrB (map (fun y => qcmp op s y) l)).
Proof. reflexivity. Qed.
Lemma bit_and_maps {A} (f g : A -> bool) l :
  bit_and (VArrB (map f l)) (VArrB (map g l)) = OK (VArrB (map (fun x => f x && g x) l)).
Proof. unfold bit_and. rewrite !map_length, Nat.eqb_refl, vmap2_map. reflexivity. Qed.
Lemma get_item_mask (p : Q -> bool) l : get_item_d (VArrQ l) (VArrB (map p l)) = OK (VArrQ (filter p l)).
Proof. unfold get_item_d. rewrite map_length, Nat.eqb_refl, vselect_filter. reflexivity. Qed.
Local Arguments bit_and : simpl never.
Local Arguments get_item_d : simpl never.
Definition inside (a b t : Q) : bool := Qle_bool a t && qltb t b.
Definition piece (ets : list Q) (v : Q * Q) : Q := (snd v - fst v) - ChordPipeline.max_piece ets (fst v) (snd v).
Lemma max_of_diffs ets a b :
  qmax_list (diff_from a (filter (inside a b) ets ++ [b])) = Some (ChordPipeline.max_piece ets a b).
Proof.
  unfold ChordPipeline.max_piece. rewrite diff_from_diffs.
  change (fun t : Q => Qle_bool a t && qltb t b) with (inside a b).
  destruct (filter (inside a b) ets) as [|x F]; reflexivity.
Qed.

Definition loop_body : list dstmt := match st_k 5 with DFor _ _ b => b | _ => [] end.
Lemma s5_shape : st_k 5 = DFor (TTuple ["start"; "end"]%string) (DLoc "reference_intervals") loop_body.
Proof. reflexivity. Qed.
Lemma step_run : forall ref est ets p acc st en dur btw sts a b,
  dfor_step (drun_block X) (TTuple ["start"; "end"]%string) loop_body (VArrQ [a; b])
    (denv ref est (VArrQ ets) (VFlt p (Fin acc)) st en dur btw sts)
  = SNorm (denv ref est (VArrQ ets) (VFlt false (Fin (acc + piece ets (a, b)))) (VFlt false (Fin a)) (VFlt false (Fin b))
             (VFlt false (Fin (b - a))) (VArrQ (filter (inside a b) ets)) (VArrQ (a :: filter (inside a b) ets ++ [b]))).
Proof.
  intros. cbn. rewrite ?cmp_arr_flt, ?cmp_flt_arr. cbn [obind]. rewrite bit_and_maps. cbn [obind].
  rewrite get_item_mask.
  (* the mask as written (operands of & and of the comparisons in either order) is the model's test *)
  match goal with
  | |- context [filter ?f ets] =>
      rewrite (filter_ext f (inside a b)) by (intro x; unfold inside, qcmp, qleb; first [reflexivity | apply andb_comm])
  end.
  cbn. rewrite max_of_diffs. cbn. rewrite andb_false_r. reflexivity.
Qed.

Local Arguments dfor_step : simpl never.
Local Arguments for_loop : simpl never.
Lemma for_loop_cons step v t en :
  for_loop step (v :: t) en = match step v en with SNorm en' => for_loop step t en' | r => r end.
Proof. reflexivity. Qed.
Lemma loop_run : forall ref est ets rows p acc st en dur btw sts,
  exists p' st' en' dur' btw' sts',
    for_loop (dfor_step (drun_block X) (TTuple ["start"; "end"]%string) loop_body)
      (map (fun r : Q * Q => VArrQ [fst r; snd r]) rows)
      (denv ref est (VArrQ ets) (VFlt p (Fin acc)) st en dur btw sts)
    = SNorm (denv ref est (VArrQ ets) (VFlt p' (Fin (fold_left (fun s v => s + piece ets v) rows acc))) st' en' dur' btw' sts')
    /\ (rows <> [] -> p' = false).
Proof.
  intros ref est ets rows. induction rows as [|[a b] rows IH]; intros.
  - exists p, st, en, dur, btw, sts. split; [reflexivity|]. intro H; exfalso; apply H; reflexivity.
  - cbn [map fst snd]. rewrite for_loop_cons, step_run.
    destruct (IH false (acc + piece ets (a, b)) (VFlt false (Fin a)) (VFlt false (Fin b)) (VFlt false (Fin (b - a)))
                (VArrQ (filter (inside a b) ets)) (VArrQ (a :: filter (inside a b) ets ++ [b])))
      as (p' & st' & en' & dur' & btw' & sts' & E & Hp).
    exists p', st', en', dur', btw', sts'. split; [exact E|]. intros _.
    destruct rows as [|r rows']; [|apply Hp; discriminate].
    cbn in E. injection E as E1. exact (eq_sym E1).
Qed.
Lemma s5_run : forall ref est ets p acc st en dur btw sts,
  exists p' st' en' dur' btw' sts',
    X (st_k 5) (denv ref est (VArrQ ets) (VFlt p (Fin acc)) st en dur btw sts)
    = SNorm (denv ref est (VArrQ ets) (VFlt p' (Fin (fold_left (fun s v => s + piece ets v) ref acc))) st' en' dur' btw' sts')
    /\ (ref <> [] -> p' = false).
Proof.
  intros. rewrite s5_shape.
  destruct (loop_run ref est ets ref p acc st en dur btw sts) as (p' & st' & en' & dur' & btw' & sts' & E & Hp).
  exists p', st', en', dur', btw', sts'. split; [|exact Hp].
  exact E.
Qed.

Lemma nth_error_last {A} : forall (t : list A) r0 d, nth_error (r0 :: t) (length t) = Some (last (r0 :: t) d).
Proof.
  induction t as [|b t IH]; intros r0 d; [reflexivity|].
  change (nth_error (r0 :: b :: t) (length (b :: t))) with (nth_error (b :: t) (length t)).
  rewrite (IH b d). reflexivity.
Qed.
Lemma get_item2_last r0 t p q :
  get_item2 (VMat (r0 :: t)) (VInt p (-1)) (VInt q 1) = OK (VFlt false (Fin (snd (last (r0 :: t) r0)))).
Proof.
  unfold get_item2. cbn [norm_idx length]. change (Pos.to_nat 1) with 1%nat. change (1 <=? S (length t))%nat with true.
  cbv iota. change (S (length t) - 1)%nat with (length t - 0)%nat. rewrite Nat.sub_0_r, (nth_error_last t r0 r0).
  reflexivity.
Qed.
Lemma get_item2_first r0 t p q : get_item2 (VMat (r0 :: t)) (VInt p 0) (VInt q 0) = OK (VFlt false (Fin (fst r0))).
Proof. reflexivity. Qed.
Lemma get_item2_empty p q : get_item2 (VMat []) (VInt p (-1)) (VInt q 1) = EXN IndexError.
Proof. reflexivity. Qed.
Local Arguments get_item2 : simpl never.

Lemma s6_run : forall r0 t est ets acc st en dur btw sts,
  X (st_k 6) (denv (r0 :: t) est ets (VFlt false (Fin acc)) st en dur btw sts)
  = SRet (VFlt false (xdiv acc (snd (last (r0 :: t) r0) - fst r0))).
Proof. intros. cbn. rewrite get_item2_last, get_item2_first. reflexivity. Qed.
Lemma s6_empty : forall est ets p acc st en dur btw sts,
  X (st_k 6) (denv [] est ets (VFlt p (Fin acc)) st en dur btw sts) = SExn IndexError.
Proof. intros. cbn. rewrite get_item2_empty. reflexivity. Qed.

Lemma body_shape : d_body gen_directional_hamming_distance = [st_k 0; st_k 1; st_k 2; st_k 3; st_k 4; st_k 5; st_k 6].
Proof. reflexivity. Qed.
Lemma drun_block_cons f s r en :
  drun_block f (s :: r) en = match f s en with SNorm en' => drun_block f r en' | o => o end.
Proof. reflexivity. Qed.

(* the model with the accumulation of the loop as written (left to right from 0.0) *)
Definition dhd_left (ref est : list (Q * Q)) : res xval :=
  _ <- Intervals.validate_intervals est ;;
  _ <- Intervals.validate_intervals ref ;;
  if ChordPipeline.overlaps ref then Raise ValueError
  else
    let ets := Intervals.sort_uniq (Intervals.flat est) in
    let sg := fold_left (fun s v => s + piece ets v) ref 0 in
    match ref with
    | [] => Raise IndexError
    | r0 :: _ => Ok (xdiv sg (snd (last ref r0) - fst r0))
    end.
Definition lift_x (r : res xval) : out val := match r with Ok x => OK (VFlt false x) | Raise e => EXN e end.

Theorem chord_directional_hamming_distance_tie_exact : forall ref est,
  run_dhd gen_directional_hamming_distance [VMat ref; VMat est] = lift_x (dhd_left ref est).
Proof.
  intros ref est. unfold run_dhd, drun_fun, dexec_block. rewrite body_shape.
  change (dinit_env gen_directional_hamming_distance [VMat ref; VMat est])
    with (denv ref est VUnbound VUnbound VUnbound VUnbound VUnbound VUnbound VUnbound).
  change (Nat.eqb _ _) with true. cbv iota. unfold dhd_left.
  rewrite drun_block_cons, s0_run. destruct (Intervals.validate_intervals est) as [[]|e]; [|reflexivity].
  rewrite drun_block_cons, s1_run. destruct (Intervals.validate_intervals ref) as [[]|e]; [|reflexivity].
  rewrite drun_block_cons, s2_run. cbn [bind]. destruct (ChordPipeline.overlaps ref); [reflexivity|].
  rewrite drun_block_cons, s3_run, drun_block_cons, s4_run, drun_block_cons.
  cbv zeta. set (ets := Intervals.sort_uniq (Intervals.flat est)).
  destruct (s5_run ref est ets true 0 VUnbound VUnbound VUnbound VUnbound VUnbound)
    as (p' & st' & en' & dur' & btw' & sts' & E & Hp).
  rewrite E. rewrite drun_block_cons. destruct ref as [|r0 t].
  - rewrite s6_empty. reflexivity.
  - rewrite Hp by discriminate. rewrite s6_run. reflexivity.
Qed.
Print Assumptions chord_directional_hamming_distance_tie_exact.

(* ------------------------------------------------------------------ against the model itself *)
Definition xeq (a b : xval) : Prop :=
  match a, b with
  | Fin x, Fin y => x == y
  | PInf, PInf | NInf, NInf | NaN, NaN => True
  | _, _ => False
  end.
Definition out_xeq (a b : out val) : Prop :=
  match a, b with
  | OK (VFlt p x), OK (VFlt q y) => p = q /\ xeq x y
  | EXN e, EXN f => e = f
  | _, _ => False
  end.
Lemma fold_left_qsum {A} (f : A -> Q) : forall l acc, fold_left (fun s v => s + f v) l acc == acc + qsum (map f l).
Proof.
  induction l as [|a l IH]; intro acc; cbn [fold_left map qsum fold_right]; [ring|].
  rewrite IH. unfold qsum. ring.
Qed.
Lemma xdiv_congr a a' d : a == a' -> xeq (xdiv a d) (xdiv a' d).
Proof.
  intro H. unfold xdiv, qeqb, qltb.
  assert (E1 : Qeq_bool a 0 = Qeq_bool a' 0) by (rewrite H; reflexivity).
  assert (E2 : Qle_bool a 0 = Qle_bool a' 0) by (rewrite H; reflexivity).
  rewrite E1, E2.
  destruct (Qeq_bool d 0); [destruct (Qeq_bool a' 0); [exact I|destruct (negb (Qle_bool a' 0)); exact I]|].
  cbn [xeq]. rewrite H. reflexivity.
Qed.
Theorem dhd_left_model : forall ref est,
  match dhd_left ref est, ChordPipeline.directional_hamming_distance ref est with
  | Ok x, Ok y => xeq x y
  | Raise e, Raise f => e = f
  | _, _ => False
  end.
Proof.
  intros ref est. unfold dhd_left, ChordPipeline.directional_hamming_distance.
  destruct (Intervals.validate_intervals est) as [[]|e]; [|reflexivity].
  destruct (Intervals.validate_intervals ref) as [[]|e]; [|reflexivity].
  cbn [bind]. destruct (ChordPipeline.overlaps ref); [reflexivity|].
  cbv zeta. destruct ref as [|r0 t]; [reflexivity|].
  apply xdiv_congr. rewrite fold_left_qsum. unfold piece. ring.
Qed.
Theorem chord_directional_hamming_distance_tie : forall ref est,
  out_xeq (run_dhd gen_directional_hamming_distance [VMat ref; VMat est])
          (lift_x (ChordPipeline.directional_hamming_distance ref est)).
Proof.
  intros ref est. rewrite chord_directional_hamming_distance_tie_exact.
  pose proof (dhd_left_model ref est) as H.
  destruct (dhd_left ref est) as [x|e]; destruct (ChordPipeline.directional_hamming_distance ref est) as [y|f];
    cbn [lift_x out_xeq]; try contradiction; [split; [reflexivity|exact H]|exact H].
Qed.
Print Assumptions chord_directional_hamming_distance_tie.

(* the hypotheses-free statements are not vacuous: a run that returns a score, and one for each exception *)
Example dhd_run_score :
  run_dhd gen_directional_hamming_distance [VMat [(0, 1); (1, 3); (3, 4)]; VMat [(0, 1 # 2); (1 # 2, 2); (2, 4)]]
  = OK (VFlt false (Fin (3 # 8))).
Proof. vm_compute. reflexivity. Qed.
Example dhd_run_overlap :
  run_dhd gen_directional_hamming_distance [VMat [(0, 2); (1, 3)]; VMat [(0, 1)]] = EXN ValueError.
Proof. vm_compute. reflexivity. Qed.
Example dhd_run_empty_reference : run_dhd gen_directional_hamming_distance [VMat []; VMat [(0, 1)]] = EXN IndexError.
Proof. vm_compute. reflexivity. Qed.
