(* C09: transposing reference and estimate together and respelling roots enharmonically leaves every
   chord comparison unchanged.
   1. on encodings: tr k adds k to the root (mod 12) of a real chord; all 12 rules are invariant (compare_transpose);
   2. on root strings: pitch_class_to_semitone is letter + #sharps - #flats mod 12 (pcs_accidentals, ...);
   3. on labels: the encoding of a label depends on its root string only through pitch_class_to_semitone, and
      shifting that value shifts the encoding by tr (encode_transpose_label, encode_tr, labels_transpose). *)
From Coq Require Import List Bool Arith ZArith Lia.
From ME Require Import Model.Prelude Model.Regex Model.ChordParse Model.ChordCmp Gen.ChordRe Gen.ChordTables
  Proofs.RegexLang Proofs.ChordRegex Proofs.ChordTotal Proofs.ChordSound Proofs.ChordRoundTrip.
Import ListNotations.
Open Scope Z_scope.

(* ================= 1. encodings ================= *)
Definition tr (k : Z) (r : cenc) : cenc :=
  if root r =? -1 then r else {| root := (root r + k) mod 12; bm := bm r; bass := bass r |}.

Lemma tr_bm k r : bm (tr k r) = bm r.
Proof. unfold tr. destruct (root r =? -1); reflexivity. Qed.
Lemma tr_bass k r : bass (tr k r) = bass r.
Proof. unfold tr. destruct (root r =? -1); reflexivity. Qed.
Lemma enc_ok_root r : enc_ok r -> root r = -1 \/ 0 <= root r < 12.
Proof. intros [(H & _)|(H & _)]; auto. Qed.
Lemma tr_root k r : enc_ok r ->
  (root r = -1 /\ root (tr k r) = -1) \/ (0 <= root r < 12 /\ root (tr k r) = (root r + k) mod 12).
Proof.
  intros H. unfold tr. destruct (enc_ok_root r H) as [E|E].
  - left. rewrite E. cbn. auto.
  - right. destruct (Z.eqb_spec (root r) (-1)); [lia|]. cbn [root]. auto.
Qed.
Lemma tr_root_m1 k r : enc_ok r -> (root (tr k r) =? -1) = (root r =? -1).
Proof.
  intros H. destruct (tr_root k r H) as [[E ->]|[E ->]]; [rewrite E; reflexivity|].
  pose proof (Z.mod_pos_bound (root r + k) 12 ltac:(lia)).
  destruct (Z.eqb_spec ((root r + k) mod 12) (-1)), (Z.eqb_spec (root r) (-1)); auto; lia.
Qed.
Lemma tr_root_neg k r : enc_ok r -> (root (tr k r) <? 0) = (root r <? 0).
Proof.
  intros H. destruct (tr_root k r H) as [[E ->]|[E ->]]; [rewrite E; reflexivity|].
  pose proof (Z.mod_pos_bound (root r + k) 12 ltac:(lia)).
  destruct (Z.ltb_spec ((root r + k) mod 12) 0), (Z.ltb_spec (root r) 0); auto; lia.
Qed.
Lemma shift_inj a b k : 0 <= a < 12 -> 0 <= b < 12 -> (a + k) mod 12 = (b + k) mod 12 -> a = b.
Proof.
  intros Ha Hb H.
  pose proof (Z.div_mod (a + k) 12 ltac:(lia)) as D1. pose proof (Z.div_mod (b + k) 12 ltac:(lia)) as D2.
  rewrite H in D1. lia.
Qed.
Lemma tr_eq_root k r e : enc_ok r -> enc_ok e -> eq_root (tr k r) (tr k e) = eq_root r e.
Proof.
  intros Hr He. unfold eq_root.
  destruct (tr_root k r Hr) as [[Er ->]|[Er ->]], (tr_root k e He) as [[Ee ->]|[Ee ->]].
  - rewrite Er, Ee. reflexivity.
  - rewrite Er. pose proof (Z.mod_pos_bound (root e + k) 12 ltac:(lia)).
    destruct (Z.eqb_spec (-1) ((root e + k) mod 12)), (Z.eqb_spec (-1) (root e)); auto; lia.
  - rewrite Ee. pose proof (Z.mod_pos_bound (root r + k) 12 ltac:(lia)).
    destruct (Z.eqb_spec ((root r + k) mod 12) (-1)), (Z.eqb_spec (root r) (-1)); auto; lia.
  - destruct (Z.eqb_spec ((root r + k) mod 12) ((root e + k) mod 12)) as [E|E], (Z.eqb_spec (root r) (root e)) as [E'|E']; auto.
    + exfalso. apply E'. eapply shift_inj; eauto.
    + exfalso. apply E. rewrite E'. reflexivity.
Qed.
Lemma tr_enc_ok k r : enc_ok r -> enc_ok (tr k r).
Proof.
  intros H. pose proof (tr_root k r H) as R. unfold enc_ok in *. rewrite tr_bm, tr_bass.
  destruct H as [(H1 & H2)|(H1 & H2)].
  - left. destruct R as [[_ ->]|[R _]]; [auto|lia].
  - right. destruct R as [[R _]|[_ ->]]; [lia|]. split; [apply Z.mod_pos_bound; lia|exact H2].
Qed.

(* everything that does not look at the root *)
Lemma tr_isX k r : isX (tr k r) = isX r. Proof. unfold isX. rewrite tr_bm. reflexivity. Qed.
Lemma tr_eq_bass k r e : eq_bass (tr k r) (tr k e) = eq_bass r e. Proof. unfold eq_bass. rewrite !tr_bass. reflexivity. Qed.
Lemma tr_eq_third k r e : eq_third (tr k r) (tr k e) = eq_third r e. Proof. unfold eq_third. rewrite !tr_bm. reflexivity. Qed.
Lemma tr_eq_pre8 k r e : eq_pre8 (tr k r) (tr k e) = eq_pre8 r e. Proof. unfold eq_pre8. rewrite !tr_bm. reflexivity. Qed.
Lemma tr_eq_all k r e : eq_all (tr k r) (tr k e) = eq_all r e. Proof. unfold eq_all. rewrite !tr_bm. reflexivity. Qed.
Lemma tr_sv_in k r : sv_in (tr k r) = sv_in r. Proof. unfold sv_in. rewrite tr_bm. reflexivity. Qed.
Lemma tr_bad_inv k r : bad_inv (tr k r) = bad_inv r. Proof. unfold bad_inv. rewrite tr_bm, tr_bass. reflexivity. Qed.
Lemma tr_mm_in k r : enc_ok r -> mm_in (tr k r) = mm_in r.
Proof. intros H. unfold mm_in. rewrite tr_bm, tr_root_neg by exact H. reflexivity. Qed.

(* ---- mirex: rotating both chroma vectors by the same amount keeps their dot product ---- *)
Definition rshift1 (l : list Z) : list Z := last l 0 :: removelast l.     (* [x0..x11] -> [x11;x0..x10] *)
Lemma rotn_succ b i : (i < 12)%nat -> rotn b ((i + 1) mod 12) = rshift1 (rotn b i).
Proof. intros H. do 12 (destruct i as [|i]; [reflexivity|]). lia. Qed.
Lemma rotn_length b i : length (rotn b i) = 12%nat.
Proof. unfold rotn. rewrite map_length. reflexivity. Qed.
Lemma dot_rshift1 u v : length u = 12%nat -> length v = 12%nat -> dot (rshift1 u) (rshift1 v) = dot u v.
Proof.
  intros Hu Hv.
  do 12 (destruct u as [|?x u]; [discriminate Hu|]). destruct u; [|discriminate Hu].
  do 12 (destruct v as [|?y v]; [discriminate Hv|]). destruct v; [|discriminate Hv].
  cbn. ring.
Qed.
(* the closed form: for arbitrary vectors b1 b2 and start positions i j *)
Lemma dot_rotn_shift b1 b2 i j k : (i < 12)%nat -> (j < 12)%nat ->
  dot (rotn b1 ((i + k) mod 12)) (rotn b2 ((j + k) mod 12)) = dot (rotn b1 i) (rotn b2 j).
Proof.
  intros Hi Hj. induction k as [|k IH].
  - rewrite !Nat.add_0_r, !Nat.mod_small by assumption. reflexivity.
  - replace ((i + S k) mod 12)%nat with (((i + k) mod 12 + 1) mod 12)%nat
      by (rewrite Nat.add_mod_idemp_l by lia; f_equal; lia).
    replace ((j + S k) mod 12)%nat with (((j + k) mod 12 + 1) mod 12)%nat
      by (rewrite Nat.add_mod_idemp_l by lia; f_equal; lia).
    rewrite !rotn_succ by (apply Nat.mod_upper_bound; lia).
    rewrite dot_rshift1 by apply rotn_length. exact IH.
Qed.
(* the all-zero (N) and all-minus-one (X) bitmaps look the same at every rotation *)
Definition zs12 := [0;0;0;0;0;0;0;0;0;0;0;0].
Definition xs12 := [-1;-1;-1;-1;-1;-1;-1;-1;-1;-1;-1;-1].
Lemma rotn_const b i j : b = zs12 \/ b = xs12 -> (i < 12)%nat -> (j < 12)%nat -> rotn b i = rotn b j.
Proof.
  intros [-> | ->] Hi Hj;
  (do 12 (destruct i as [|i]; [do 12 (destruct j as [|j]; [reflexivity|]); lia|]); lia).
Qed.
Definition ridx (r : cenc) : nat := Z.to_nat (root r mod 12).
Lemma ridx_lt r : (ridx r < 12)%nat.
Proof. unfold ridx. pose proof (Z.mod_pos_bound (root r) 12 ltac:(lia)). lia. Qed.
Lemma rot_tr k r : enc_ok r ->
  rot (bm (tr k r)) (root (tr k r)) = rotn (bm r) ((ridx r + Z.to_nat (k mod 12)) mod 12).
Proof.
  intros H. rewrite tr_bm. unfold rot.
  assert (Hk : (Z.to_nat (k mod 12) < 12)%nat) by (pose proof (Z.mod_pos_bound k 12 ltac:(lia)); lia).
  destruct (tr_root k r H) as [[E ->]|[E ->]].
  - destruct H as [(_ & _ & B)|(R & _)]; [|lia].
    apply rotn_const; [exact B| |apply Nat.mod_upper_bound; lia].
    pose proof (Z.mod_pos_bound (-1) 12 ltac:(lia)). lia.
  - f_equal. unfold ridx. rewrite Z.mod_mod by lia. rewrite (Z.mod_small (root r)) by lia.
    rewrite <- (Zplus_mod_idemp_r k). pose proof (Z.mod_pos_bound k 12 ltac:(lia)) as Bk.
    rewrite Z2Nat.inj_mod by lia. rewrite Z2Nat.inj_add by lia. reflexivity.
Qed.
Lemma tr_mirex k r e : enc_ok r -> enc_ok e -> mirex (tr k r) (tr k e) = mirex r e.
Proof.
  intros Hr He. unfold mirex. cbv zeta.
  rewrite !tr_root_m1 by assumption. rewrite tr_isX, !rot_tr by assumption. rewrite tr_bm.
  rewrite dot_rotn_shift by apply ridx_lt. reflexivity.
Qed.

Theorem compare_transpose : forall c, In c rules -> forall k r e, enc_ok r -> enc_ok e -> c (tr k r) (tr k e) = c r e.
Proof.
  intros c Hc k r e Hr He. unfold rules in Hc. cbn [In] in Hc.
  repeat (destruct Hc as [<-|Hc];
    [first [ apply tr_mirex; assumption
           | unfold thirds, thirds_inv, triads, triads_inv, tetrads, tetrads_inv, root_cmp, majmin, majmin_inv, sevenths, sevenths_inv;
             rewrite ?tr_isX, ?tr_eq_bass, ?tr_eq_third, ?tr_eq_pre8, ?tr_eq_all, ?tr_sv_in, ?tr_bad_inv,
                     ?(tr_mm_in k r Hr), ?(tr_eq_root k r e Hr He); reflexivity ]|]).
  destruct Hc.
Qed.
(* transposing only one side does change results *)
Example transpose_one_side_matters :
  let c := {| root := 0; bm := [1;0;0;0;1;0;0;1;0;0;0;0]; bass := 0 |} in
  enc_ok c /\ root_cmp c c = 1 /\ root_cmp (tr 1 c) c = 0.
Proof.
  cbv zeta. split; [|split; reflexivity]. right. cbn [root bass bm].
  split; [lia|]. split; [lia|]. split; [|reflexivity]. split; [reflexivity|]. repeat (constructor; [lia|]). constructor.
Qed.

(* ================= 2. root strings ================= *)
Definition letter_sem (L : nat) : option Z :=
  match find (fun p => Nat.eqb (fst p) L) PITCH_CLASSES with Some p => Some (Z.of_nat (snd p)) | None => None end.
Definition is_acc (c : nat) : bool := Nat.eqb c c_sharp || Nat.eqb c c_flat.
Lemma pstep_sharp v idx : idx <> 0%nat -> pstep (Ok (Some v), idx) c_sharp = (Ok (Some (v + 1)), S idx).
Proof. intros H. apply Nat.eqb_neq in H. unfold pstep. rewrite H. reflexivity. Qed.
Lemma pstep_flat v idx : idx <> 0%nat -> pstep (Ok (Some v), idx) c_flat = (Ok (Some (v - 1)), S idx).
Proof. intros H. apply Nat.eqb_neq in H. unfold pstep. rewrite H. reflexivity. Qed.
Lemma pfold_acc acc : forall v idx, idx <> 0%nat -> forallb is_acc acc = true ->
  fst (fold_left pstep acc (Ok (Some v), idx)) = Ok (Some (v + Z.of_nat (count c_sharp acc) - Z.of_nat (count c_flat acc))).
Proof.
  induction acc as [|c t IH]; intros v idx Hi Ha.
  - cbn. f_equal. f_equal. lia.
  - cbn [forallb] in Ha. apply andb_true_iff in Ha. destruct Ha as [Hc Ht]. cbn [fold_left].
    unfold is_acc in Hc. apply orb_true_iff in Hc. rewrite !count_cons.
    destruct Hc as [Hc|Hc]; apply Nat.eqb_eq in Hc; subst c.
    + rewrite pstep_sharp by exact Hi. rewrite IH by (auto; lia). f_equal. f_equal.
      change (Nat.eqb c_sharp c_sharp) with true. change (Nat.eqb c_flat c_sharp) with false. lazy iota. lia.
    + rewrite pstep_flat by exact Hi. rewrite IH by (auto; lia). f_equal. f_equal.
      change (Nat.eqb c_sharp c_flat) with false. change (Nat.eqb c_flat c_flat) with true. lazy iota. lia.
Qed.
(* a letter followed by any accidentals: letter semitone + #sharps - #flats, mod 12 *)
Theorem pcs_accidentals : forall L s acc, letter_sem L = Some s -> forallb is_acc acc = true ->
  pitch_class_to_semitone (L :: acc) = Ok ((s + Z.of_nat (count c_sharp acc) - Z.of_nat (count c_flat acc)) mod 12).
Proof.
  intros L s acc HL Ha. rewrite pcs_unfold. cbn [fold_left].
  assert (E : pstep (Ok (Some 0), 0%nat) L = (Ok (Some s), 1%nat)).
  { unfold pstep. cbn [Nat.eqb negb andb]. rewrite !andb_false_r. unfold letter_sem in HL.
    destruct (find (fun p => Nat.eqb (fst p) L) PITCH_CLASSES); [|discriminate]. injection HL as <-. reflexivity. }
  rewrite E, pfold_acc by (auto; lia). reflexivity.
Qed.
Lemma count_repeat_same c n : count c (repeat c n) = n.
Proof. induction n as [|n IH]; [reflexivity|]. cbn [repeat]. rewrite count_cons, Nat.eqb_refl, IH. reflexivity. Qed.
Lemma count_repeat_other c d n : Nat.eqb c d = false -> count c (repeat d n) = 0%nat.
Proof. intros H. induction n as [|n IH]; [reflexivity|]. cbn [repeat]. rewrite count_cons, H, IH. reflexivity. Qed.
Lemma acc_repeat c n : is_acc c = true -> forallb is_acc (repeat c n) = true.
Proof. intros H. induction n as [|n IH]; [reflexivity|]. cbn [repeat forallb]. rewrite H, IH. reflexivity. Qed.
Theorem pcs_sharps : forall L s n, letter_sem L = Some s ->
  pitch_class_to_semitone (L :: repeat 35%nat n) = Ok ((s + Z.of_nat n) mod 12).
Proof.
  intros L s n HL. rewrite (pcs_accidentals L s _ HL) by (apply acc_repeat; reflexivity).
  change 35%nat with c_sharp. rewrite count_repeat_same, count_repeat_other by reflexivity. f_equal. f_equal. lia.
Qed.
Theorem pcs_flats : forall L s n, letter_sem L = Some s ->
  pitch_class_to_semitone (L :: repeat 98%nat n) = Ok ((s - Z.of_nat n) mod 12).
Proof.
  intros L s n HL. rewrite (pcs_accidentals L s _ HL) by (apply acc_repeat; reflexivity).
  change 98%nat with c_flat. rewrite count_repeat_same, count_repeat_other by reflexivity. f_equal. f_equal. lia.
Qed.
(* the seven letters, read from the translated table *)
Example letters : map letter_sem [67;68;69;70;71;65;66]%nat = map Some [0;2;4;5;7;9;11].
Proof. vm_compute. reflexivity. Qed.
(* two spellings with the same letter + accidentals total are the same pitch class *)
Theorem pitch_class_enharmonic : forall L1 s1 a1 L2 s2 a2,
  letter_sem L1 = Some s1 -> letter_sem L2 = Some s2 -> forallb is_acc a1 = true -> forallb is_acc a2 = true ->
  (s1 + Z.of_nat (count c_sharp a1) - Z.of_nat (count c_flat a1)) mod 12 =
  (s2 + Z.of_nat (count c_sharp a2) - Z.of_nat (count c_flat a2)) mod 12 ->
  pitch_class_to_semitone (L1 :: a1) = pitch_class_to_semitone (L2 :: a2).
Proof. intros. rewrite (pcs_accidentals L1 s1), (pcs_accidentals L2 s2) by assumption. f_equal. assumption. Qed.
(* C# = Db, B# = C, Cb = B, E## = F#, Fb = E *)
Example enharmonic_examples :
  pitch_class_to_semitone [67;35]%nat = pitch_class_to_semitone [68;98]%nat /\
  pitch_class_to_semitone [66;35]%nat = pitch_class_to_semitone [67]%nat /\
  pitch_class_to_semitone [67;98]%nat = pitch_class_to_semitone [66]%nat /\
  pitch_class_to_semitone [69;35;35]%nat = pitch_class_to_semitone [70;35]%nat /\
  pitch_class_to_semitone [70;98]%nat = pitch_class_to_semitone [69]%nat /\
  pitch_class_to_semitone [67;35]%nat = Ok 1 /\ pitch_class_to_semitone [66;35]%nat = Ok 0 /\
  pitch_class_to_semitone [67;98]%nat = Ok 11.
Proof. vm_compute. repeat split; reflexivity. Qed.

(* ================= 3. labels ================= *)
(* every accepted label other than N / X is  build rt col dl bo = rt ++ rest  (ChordRoundTrip.harte_inv, build_assoc);
   its encoding (reduce = False, as in every comparison function) uses rt only through pitch_class_to_semitone rt *)
Theorem encode_transpose_label : forall rt rt' col dl bo strict,
  wf rt col dl bo -> lang h_root rt' ->
  pitch_class_to_semitone rt' = pitch_class_to_semitone rt ->
  encode (build rt' col dl bo) false strict = encode (build rt col dl bo) false strict.
Proof.
  intros rt rt' col dl bo strict H Hr' E.
  assert (H' : wf rt' col dl bo) by (destruct H as (_ & A & B & C); repeat split; assumption).
  rewrite !encode_build by assumption. unfold enc_tail. rewrite E. reflexivity.
Qed.
Example encode_transpose_label_ex :       (* "Db:min7(9)/b3" and "C#:min7(9)/b3" *)
  encode [68;98;58;109;105;110;55;40;57;41;47;98;51]%nat false false = encode [67;35;58;109;105;110;55;40;57;41;47;98;51]%nat false false.
Proof. vm_compute. reflexivity. Qed.

(* the part of encode after the root *)
Definition enc_body (quality : str) (degs : list str) (bass : str) (strict : bool) : res (list Z * Z) :=
  b <- scale_degree_to_semitone bass ;; let bassn := b mod 12 in
  bm <- quality_to_bitmap quality ;;
  let bm := setnth bm 0%nat 1 in
  bm <- fold_left degstep0 degs (Ok bm) ;;
  let bm := map (fun x => if 0 <? x then 1 else 0) bm in
  if (nth (Z.to_nat bassn) bm 0 =? 0) && strict then Raise InvalidChord
  else Ok (setnth bm (Z.to_nat bassn) 1, bassn).
Lemma enc_tail_body rt q degs bass strict :
  enc_tail rt q degs bass strict =
  (root <- pitch_class_to_semitone rt ;; p <- enc_body q degs bass strict ;; Ok (root, fst p, snd p)).
Proof.
  unfold enc_tail, enc_body. destruct (pitch_class_to_semitone rt) as [root|]; cbn [bind]; [|reflexivity].
  destruct (scale_degree_to_semitone bass) as [b|]; cbn [bind]; [|reflexivity].
  destruct (quality_to_bitmap q) as [bm0|]; cbn [bind]; [|reflexivity].
  destruct (fold_left degstep0 degs (Ok (setnth bm0 0 1))) as [bm1|]; cbn [bind]; [|reflexivity].
  destruct ((nth (Z.to_nat (b mod 12)) (map (fun x => if 0 <? x then 1 else 0) bm1) 0 =? 0) && strict); reflexivity.
Qed.
Definition map_res {A B} (f : A -> B) (r : res A) : res B := match r with Ok a => Ok (f a) | Raise e => Raise e end.
(* shifting the root's pitch class by k shifts the encoding by tr k (and failures are the same failures) *)
Theorem encode_tr : forall rt rt' col dl bo strict v k,
  wf rt col dl bo -> lang h_root rt' ->
  pitch_class_to_semitone rt = Ok v -> pitch_class_to_semitone rt' = Ok ((v + k) mod 12) ->
  map_res of_enc (encode (build rt' col dl bo) false strict) =
  map_res (fun e => tr k (of_enc e)) (encode (build rt col dl bo) false strict).
Proof.
  intros rt rt' col dl bo strict v k H Hr' Ev Ev'.
  assert (H' : wf rt' col dl bo) by (destruct H as (_ & A & B & C); repeat split; assumption).
  rewrite !encode_build, !enc_tail_body by assumption. rewrite Ev, Ev'. cbn [bind].
  destruct (enc_body _ _ _ strict) as [[b s]|]; cbn [bind map_res fst snd of_enc]; [|reflexivity].
  f_equal. unfold tr. cbn [root bm bass]. pose proof (pcs_range _ _ Ev).
  destruct (Z.eqb_spec v (-1)); [lia|reflexivity].
Qed.
Lemma encode_build_ok rt col dl bo e : wf rt col dl bo ->
  encode (build rt col dl bo) false false = Ok e -> enc_ok (of_enc e).
Proof. intros _ H. eapply encode_enc_ok. exact H. Qed.

(* label level: reference and estimate respelt / transposed by the same k through all 12 rules *)
Theorem labels_transpose : forall c, In c rules ->
  forall rt1 rt1' col1 dl1 bo1 rt2 rt2' col2 dl2 bo2 v1 v2 k,
  wf rt1 col1 dl1 bo1 -> wf rt2 col2 dl2 bo2 -> lang h_root rt1' -> lang h_root rt2' ->
  pitch_class_to_semitone rt1 = Ok v1 -> pitch_class_to_semitone rt2 = Ok v2 ->
  pitch_class_to_semitone rt1' = Ok ((v1 + k) mod 12) -> pitch_class_to_semitone rt2' = Ok ((v2 + k) mod 12) ->
  cmp_labels c (build rt1' col1 dl1 bo1) (build rt2' col2 dl2 bo2) = cmp_labels c (build rt1 col1 dl1 bo1) (build rt2 col2 dl2 bo2).
Proof.
  intros c Hc rt1 rt1' col1 dl1 bo1 rt2 rt2' col2 dl2 bo2 v1 v2 k W1 W2 R1 R2 E1 E2 E1' E2'.
  assert (W1' : wf rt1' col1 dl1 bo1) by (destruct W1 as (_ & A & B & C); repeat split; assumption).
  assert (W2' : wf rt2' col2 dl2 bo2) by (destruct W2 as (_ & A & B & C); repeat split; assumption).
  unfold cmp_labels.
  rewrite !(proj2 (validate_label_iff_harte _)) by (apply build_lang; assumption). cbn [bind].
  pose proof (encode_tr rt1 rt1' col1 dl1 bo1 false v1 k W1 R1 E1 E1') as T1.
  pose proof (encode_tr rt2 rt2' col2 dl2 bo2 false v2 k W2 R2 E2 E2') as T2.
  destruct (encode (build rt1 col1 dl1 bo1) false false) as [e1|x1] eqn:F1;
  destruct (encode (build rt1' col1 dl1 bo1) false false) as [e1'|x1'] eqn:F1'; cbn [map_res] in T1; try discriminate.
  2: { cbn [bind]. congruence. }
  destruct (encode (build rt2 col2 dl2 bo2) false false) as [e2|x2] eqn:F2;
  destruct (encode (build rt2' col2 dl2 bo2) false false) as [e2'|x2'] eqn:F2'; cbn [map_res] in T2; try discriminate.
  2: { cbn [bind]. congruence. }
  cbn [bind]. injection T1 as T1. injection T2 as T2. rewrite T1, T2. f_equal.
  apply compare_transpose; [exact Hc| |]; eapply encode_enc_ok; eassumption.
Qed.
Example labels_transpose_sat :     (* G:maj/3 vs E:min7 and, a tritone up and respelt, Db:maj/3 vs A#:min7 *)
  cmp_all [71;58;109;97;106;47;51]%nat [69;58;109;105;110;55]%nat =
  cmp_all [68;98;58;109;97;106;47;51]%nat [65;35;58;109;105;110;55]%nat.
Proof. vm_compute. reflexivity. Qed.

Print Assumptions compare_transpose. Print Assumptions dot_rotn_shift. Print Assumptions tr_enc_ok.
Print Assumptions pcs_accidentals. Print Assumptions pcs_sharps. Print Assumptions pcs_flats.
Print Assumptions pitch_class_enharmonic. Print Assumptions encode_transpose_label. Print Assumptions encode_tr.
Print Assumptions labels_transpose.
