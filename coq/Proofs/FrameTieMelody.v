(* melody.freq_to_voicing and the time-0 padding of melody.to_cent_voicing, tied to Model/Melody.v by TRANSLATION
   (translator/framefuncs.py -> Gen/FrameGen.v, language Model/FrameExp.v; see FrameTie.v).
     freq_to_voicing_tie                program = Melody.freq_to_voicing for all frequency arrays and voicing = None / array.
                                        The store voicing[frequencies == 0] = 0 is only accepted by the translator because the fresh
                                        copy `voicing = np.array(voicing, dtype=float)` precedes it in the same block (the caller's
                                        array is never written); without the copy the translator fails closed.
     to_cent_voicing_pad_ref_partial,   statement-level ties: the first two statements of to_cent_voicing (insert a sample at time 0
     to_cent_voicing_pad_est_partial    into the time, frequency and optional reward / voicing arrays) = Melody.add_time0, including the
                                        IndexError cases. They are the first half of the full tie to_cent_voicing_tie of FrameTieCent.v. *)
From Coq Require Import String.
From Coq Require Import List Bool Arith ZArith QArith Qabs Qminmax Qround Lia Lqa.
From ME Require Import Model.Prelude Model.Events Model.FrameExp Gen.FrameGen Proofs.FrameTie.
From ME Require Model.Melody.
Import ListNotations.
Open Scope Q_scope.
Definition optv (o : option (list Q)) : fv := match o with Some v => VArrQ v | None => VNone end.
Definition lift_pair (r : res (list Q * list Q)) : out fv :=
  match r with Ok (a, b) => OK (VTup [VArrQ a; VArrQ b]) | Raise e => EXN e end.
Lemma mask_store (freqs v : list Q) :
  vmap2 (fun x (c : bool) => if c then inject_Z 0 else x) v (map (fun x => qeqb x (inject_Z 0)) freqs)
  = Melody.map2 (fun f x => if qeqb f 0 then 0 else x) freqs v.
Proof.
  revert v. induction freqs as [|f t IH]; intros [|x v]; try reflexivity.
  cbn [map vmap2 Melody.map2]. rewrite IH. reflexivity.
Qed.

Section F.
Variable ext : string -> list fv -> out fv.
Variable flog2 : Q -> Q.
Local Arguments run_block : simpl never.
Local Arguments frame_sigs : simpl never.
Local Arguments vmap2 : simpl never.

(* the in-place store voicing[frequencies == 0] = 0 is made into the copy np.array(voicing, dtype=float): the translator
   accepts the store only because that fresh binding precedes it in the same block *)
Theorem freq_to_voicing_tie : forall (freqs : list Q) (voicing : option (list Q)),
  runx ext flog2 gen_mel_freq_to_voicing [VArrQ freqs; optv voicing] = lift_pair (Melody.freq_to_voicing freqs voicing).
Proof.
  intros. unfold runx, run_fun, exec_block. destruct voicing as [v|]; cbn [optv Melody.freq_to_voicing].
  - go. rewrite map_length.
    destruct (Nat.eqb (length freqs) (length v)) eqn:EL.
    + go. rewrite mask_store. rewrite Nat.eqb_sym, EL.
      destruct freqs as [|f t]; [destruct v; [reflexivity|discriminate]|]. reflexivity.
    + rewrite Nat.eqb_sym, EL. destruct freqs as [|f t]; [go; reflexivity|]. go. reflexivity.
  - go. rewrite map_map. reflexivity.
Qed.
End F.

Section P.
Variable ext : string -> list fv -> out fv.
Variable flog2 : Q -> Q.
Local Arguments run_block : simpl never.
Local Arguments frame_sigs : simpl never.
Local Open Scope string_scope.
(* the environment of to_cent_voicing: parameters, then locals *)
Definition tcv_env (rt rf et ef ev rr base hop kind rv rc ec ld : fv) : env :=
  [("ref_time", rt); ("ref_freq", rf); ("est_time", et); ("est_freq", ef); ("est_voicing", ev); ("ref_reward", rr);
   ("base_frequency", base); ("hop", hop); ("kind", kind); ("ref_voicing", rv); ("ref_cent", rc); ("est_cent", ec);
   ("len_diff", ld)].
Local Close Scope string_scope.
Theorem tcv_env_init : forall args, length args = 9%nat ->
  exists rt rf et ef ev rr base hop kind,
    init_env gen_mel_to_cent_voicing args = tcv_env rt rf et ef ev rr base hop kind VUnbound VUnbound VUnbound VUnbound
    /\ args = [rt; rf; et; ef; ev; rr; base; hop; kind].
Proof.
  intros args H. do 9 (destruct args as [|? args]; [discriminate|]). destruct args; [|discriminate].
  do 9 eexists. split; reflexivity.
Qed.

(* the first statement: `if ref_time[0] > 0:` insert a sample at time 0 into ref_time, ref_freq and (if given) ref_reward *)
Theorem to_cent_voicing_pad_ref_partial : forall rt rf (rr : option (list Q)) et ef ev base hop kind rv rc ec ld,
  exec frame_sigs ext flog2 (nth 0 (f_body gen_mel_to_cent_voicing) SPass)
       (tcv_env (VArrQ rt) (VArrQ rf) et ef ev (optv rr) base hop kind rv rc ec ld)
  = match Melody.add_time0 rt rf rr with
    | Ok (rt', rf', rr') => SNorm (tcv_env (VArrQ rt') (VArrQ rf') et ef ev (optv rr') base hop kind rv rc ec ld)
    | Raise e => SExn e
    end.
Proof.
  intros. cbn [nth f_body gen_mel_to_cent_voicing]. unfold tcv_env, Melody.add_time0.
  destruct rt as [|t0 rt']; [reflexivity|]. go. change (inject_Z 0) with 0.
  destruct (qltb 0 t0); [|go; reflexivity]. go.
  destruct rf as [|f0 rf']; [reflexivity|]. go.
  destruct rr as [[|e r]|]; go; reflexivity.
Qed.
(* the second statement: the same for est_time, est_freq and (if given) est_voicing *)
Theorem to_cent_voicing_pad_est_partial : forall et ef (ev : option (list Q)) rt rf rr base hop kind rv rc ec ld,
  exec frame_sigs ext flog2 (nth 1 (f_body gen_mel_to_cent_voicing) SPass)
       (tcv_env rt rf (VArrQ et) (VArrQ ef) (optv ev) rr base hop kind rv rc ec ld)
  = match Melody.add_time0 et ef ev with
    | Ok (et', ef', ev') => SNorm (tcv_env rt rf (VArrQ et') (VArrQ ef') (optv ev') rr base hop kind rv rc ec ld)
    | Raise e => SExn e
    end.
Proof.
  intros. cbn [nth f_body gen_mel_to_cent_voicing]. unfold tcv_env, Melody.add_time0.
  destruct et as [|t0 et']; [reflexivity|]. go. change (inject_Z 0) with 0.
  destruct (qltb 0 t0); [|go; reflexivity]. go.
  destruct ef as [|f0 ef']; [reflexivity|]. go.
  destruct ev as [[|e r]|]; go; reflexivity.
Qed.
End P.

Print Assumptions freq_to_voicing_tie.
Print Assumptions to_cent_voicing_pad_ref_partial.
Print Assumptions to_cent_voicing_pad_est_partial.
