(* C12, cutting an interval of a labelled annotation into two consecutive pieces with the same label:
   definitions (split_at), the decomposition form used by all the proofs, and the invariance of everything that reads the
   annotation through label_at / label_at_closed: interpolate_intervals, intervals_to_samples (the frame-based segment
   and hierarchy labelling metrics see the annotation only through this sampling), min / max of the array. *)
From Coq Require Import List Bool Arith ZArith QArith Qminmax Qabs Qround Lia Lqa.
From ME Require Import Model.Prelude Model.Intervals Proofs.IntervalsBase Proofs.IntervalsInterp.
Import ListNotations.
Open Scope Q_scope.

(* ---------------------------------------------------------------------------------------- *)
(* definitions                                                                               *)
(* ---------------------------------------------------------------------------------------- *)
(* row i = (a, b) replaced by (a, m), (m, b) *)
Definition split_ivs (i : nat) (m : Q) (ivs : list iv) : list iv :=
  match nth_error ivs i with
  | Some v => firstn i ivs ++ (fst v, m) :: (m, snd v) :: skipn (S i) ivs
  | None => ivs
  end.
(* label i repeated *)
Definition split_labs {L} (i : nat) (labs : list L) : list L :=
  match nth_error labs i with
  | Some l => firstn i labs ++ l :: l :: skipn (S i) labs
  | None => labs
  end.
Definition split_at {L} (i : nat) (m : Q) (ivs : list iv) (labs : list L) : list iv * list L :=
  (split_ivs i m ivs, split_labs i labs).
(* m is an interior point of row i *)
Definition cuttable (i : nat) (m : Q) (ivs : list iv) : Prop :=
  exists v, nth_error ivs i = Some v /\ fst v < m /\ m < snd v.

(* the decomposition form: ivs = p ++ (a,b) :: s, labs = pl ++ l :: sl with |p| = |pl| *)
Definition dup_at {A} (p : list A) (x y : A) (s : list A) : list A := p ++ x :: y :: s.

Lemma nth_error_decomp {A} : forall (l : list A) i x, nth_error l i = Some x ->
  l = firstn i l ++ x :: skipn (S i) l /\ length (firstn i l) = i.
Proof.
  induction l as [|y l IH]; intros i x H; destruct i as [|i]; cbn in H; try discriminate.
  - injection H as ->. split; reflexivity.
  - destruct (IH i x H) as [e1 e2]. split; [cbn; f_equal; exact e1|cbn; f_equal; exact e2].
Qed.

Lemma split_decomp {L} i m (ivs : list iv) (labs : list L) : length labs = length ivs -> cuttable i m ivs ->
  exists p a b s pl l sl, ivs = p ++ (a, b) :: s /\ labs = pl ++ l :: sl /\ length p = length pl /\ length p = i /\
    a < m /\ m < b /\
    split_ivs i m ivs = p ++ (a, m) :: (m, b) :: s /\ split_labs i labs = pl ++ l :: l :: sl.
Proof.
  intros hl [v [hv [h1 h2]]].
  destruct (nth_error labs i) as [l|] eqn:El.
  2: { apply nth_error_None in El. assert (i < length ivs)%nat by (apply nth_error_Some; congruence). lia. }
  destruct (nth_error_decomp ivs i v hv) as [e1 e2]. destruct (nth_error_decomp labs i l El) as [e3 e4].
  exists (firstn i ivs), (fst v), (snd v), (skipn (S i) ivs), (firstn i labs), l, (skipn (S i) labs).
  unfold split_ivs, split_labs. rewrite hv, El.
  split; [rewrite <- surjective_pairing; exact e1|]. split; [exact e3|]. split; [transitivity i; [exact e2|symmetry; exact e4]|]. split; [exact e2|].
  split; [exact h1|]. split; [exact h2|]. split; reflexivity.
Qed.

(* ---------------------------------------------------------------------------------------- *)
(* label_with over a duplicated row                                                          *)
(* ---------------------------------------------------------------------------------------- *)
Section LabelSplit.
Context {L : Type}.

Lemma label_with_dup (c : iv -> Q -> bool) p pl v v1 v2 s (l : L) sl t : length p = length pl ->
  c v t = c v1 t || c v2 t ->
  label_with c (p ++ v1 :: v2 :: s) (pl ++ l :: l :: sl) t = label_with c (p ++ v :: s) (pl ++ l :: sl) t.
Proof.
  intros hl hc. rewrite !label_with_app by exact hl. cbn [label_with].
  destruct (label_with c s sl t); [reflexivity|]. rewrite hc. destruct (c v1 t), (c v2 t); reflexivity.
Qed.

Lemma in_ho_cut a m b t : a <= m -> m <= b -> in_ho (a, b) t = in_ho (a, m) t || in_ho (m, b) t.
Proof.
  intros h1 h2. unfold in_ho; cbn [fst snd].
  destruct (Qle_bool a t) eqn:E1, (qltb t b) eqn:E2, (qltb t m) eqn:E3, (Qle_bool m t) eqn:E4; cbn; qb; try reflexivity; lra.
Qed.
Lemma in_cl_cut a m b t : a <= m -> m <= b -> in_cl (a, b) t = in_cl (a, m) t || in_cl (m, b) t.
Proof.
  intros h1 h2. unfold in_cl; cbn [fst snd].
  destruct (Qle_bool a t) eqn:E1, (Qle_bool t b) eqn:E2, (Qle_bool t m) eqn:E3, (Qle_bool m t) eqn:E4; cbn; qb; try reflexivity; lra.
Qed.

(* every instant keeps its label (half-open reading) -- no ordering of the annotation is needed *)
Theorem label_at_split i m ivs (labs : list L) t : length labs = length ivs -> cuttable i m ivs ->
  label_at (fst (split_at i m ivs labs)) (snd (split_at i m ivs labs)) t = label_at ivs labs t.
Proof.
  intros hl hc. destruct (split_decomp i m ivs labs hl hc) as (p & a & b & s & pl & l & sl & -> & -> & hp & _ & h1 & h2 & e1 & e2).
  unfold split_at; cbn [fst snd]. rewrite e1, e2. unfold label_at. apply label_with_dup; [exact hp|].
  apply in_ho_cut; lra.
Qed.
(* ... and in the closed reading used by interpolate_intervals *)
Theorem label_at_closed_split i m ivs (labs : list L) t : length labs = length ivs -> cuttable i m ivs ->
  label_at_closed (split_ivs i m ivs) (split_labs i labs) t = label_at_closed ivs labs t.
Proof.
  intros hl hc. destruct (split_decomp i m ivs labs hl hc) as (p & a & b & s & pl & l & sl & -> & -> & hp & _ & h1 & h2 & e1 & e2).
  rewrite e1, e2. unfold label_at_closed. apply label_with_dup; [exact hp|].
  apply in_cl_cut; lra.
Qed.

(* ---------------------------------------------------------------------------------------- *)
(* sampling                                                                                  *)
(* ---------------------------------------------------------------------------------------- *)
(* for EVERY grid (a decreasing grid raises ValueError on both sides) *)
Theorem interpolate_split_invariant i m ivs (labs : list L) grid fill : length labs = length ivs -> cuttable i m ivs ->
  interpolate_intervals (split_ivs i m ivs) (split_labs i labs) grid fill = interpolate_intervals ivs labs grid fill.
Proof.
  intros hl hc. destruct (decreases grid) eqn:E.
  - unfold interpolate_intervals. rewrite E. reflexivity.
  - rewrite !interpolate_label_at by exact E. f_equal. apply map_ext. intros t. unfold sample_label.
    rewrite label_at_closed_split by assumption. reflexivity.
Qed.
End LabelSplit.

(* ---------------------------------------------------------------------------------------- *)
(* min / max of the flattened array are the SAME rationals (not merely ==)                    *)
(* ---------------------------------------------------------------------------------------- *)
Lemma qcmp_lt a b : a < b -> (a ?= b) = Lt.
Proof. apply Qlt_alt. Qed.
Lemma qcmp_gt a b : b < a -> (a ?= b) = Gt.
Proof. apply Qgt_alt. Qed.
Lemma qcmp_refl a : (a ?= a) = Eq.
Proof. apply Qeq_alt. reflexivity. Qed.

Lemma qmax_cut c m b : m < b -> Qmax (Qmax (Qmax c m) m) b = Qmax c b.
Proof.
  intros h. unfold Qmax, GenericMinMax.gmax. destruct (c ?= m) eqn:E1.
  - rewrite E1. apply Qeq_alt in E1. rewrite !(qcmp_lt c b) by lra. reflexivity.
  - rewrite qcmp_refl. apply Qlt_alt in E1. rewrite (qcmp_lt m b h), (qcmp_lt c b) by lra. reflexivity.
  - rewrite E1. reflexivity.
Qed.
Lemma qmin_cut c a m : a < m -> Qmin (Qmin (Qmin c a) m) m = Qmin c a.
Proof.
  intros h. unfold Qmin, GenericMinMax.gmin. destruct (c ?= a) eqn:E1.
  - apply Qeq_alt in E1. rewrite !(qcmp_lt c m) by lra. reflexivity.
  - apply Qlt_alt in E1. rewrite !(qcmp_lt c m) by lra. reflexivity.
  - rewrite !(qcmp_lt a m h). reflexivity.
Qed.
Lemma qmin_cut_hd a m : a < m -> Qmin (Qmin a m) m = a.
Proof. intros h. unfold Qmin, GenericMinMax.gmin. rewrite !(qcmp_lt a m h). reflexivity. Qed.

Lemma flat_app (x y : list iv) : flat (x ++ y) = flat x ++ flat y.
Proof. unfold flat. apply flat_map_app. Qed.

Lemma qmax_list_split p a m b s : m < b ->
  qmax_list (flat (p ++ (a, m) :: (m, b) :: s)) = qmax_list (flat (p ++ (a, b) :: s)).
Proof.
  intros h. rewrite !flat_app. cbn [flat flat_map fst snd app].
  destruct (flat p) as [|x t] eqn:E.
  - cbn [app qmax_list fold_left]. rewrite qmax_cut by exact h. reflexivity.
  - cbn [app qmax_list]. f_equal. rewrite !fold_left_app. cbn [fold_left]. rewrite qmax_cut by exact h. reflexivity.
Qed.
Lemma qmin_list_split p a m b s : a < m ->
  qmin_list (flat (p ++ (a, m) :: (m, b) :: s)) = qmin_list (flat (p ++ (a, b) :: s)).
Proof.
  intros h. rewrite !flat_app. cbn [flat flat_map fst snd app].
  destruct (flat p) as [|x t] eqn:E.
  - cbn [app qmin_list fold_left]. rewrite qmin_cut_hd by exact h. reflexivity.
  - cbn [app qmin_list]. f_equal. rewrite !fold_left_app. cbn [fold_left]. rewrite qmin_cut by exact h. reflexivity.
Qed.

Theorem qmax_list_split_at i m ivs : cuttable i m ivs -> qmax_list (flat (split_ivs i m ivs)) = qmax_list (flat ivs).
Proof.
  intros [v [hv [h1 h2]]]. unfold split_ivs. rewrite hv. destruct (nth_error_decomp ivs i v hv) as [e _].
  transitivity (qmax_list (flat (firstn i ivs ++ (fst v, snd v) :: skipn (S i) ivs))).
  - apply qmax_list_split. exact h2.
  - assert (e' : firstn i ivs ++ (fst v, snd v) :: skipn (S i) ivs = ivs) by (rewrite <- surjective_pairing; symmetry; exact e).
    rewrite e'. reflexivity.
Qed.
Theorem qmin_list_split_at i m ivs : cuttable i m ivs -> qmin_list (flat (split_ivs i m ivs)) = qmin_list (flat ivs).
Proof.
  intros [v [hv [h1 h2]]]. unfold split_ivs. rewrite hv. destruct (nth_error_decomp ivs i v hv) as [e _].
  transitivity (qmin_list (flat (firstn i ivs ++ (fst v, snd v) :: skipn (S i) ivs))).
  - apply qmin_list_split. exact h1.
  - assert (e' : firstn i ivs ++ (fst v, snd v) :: skipn (S i) ivs = ivs) by (rewrite <- surjective_pairing; symmetry; exact e).
    rewrite e'. reflexivity.
Qed.

(* ---------------------------------------------------------------------------------------- *)
(* intervals_to_samples: num_samples depends only on the maximum; the labels only on label_at_closed *)
(* ---------------------------------------------------------------------------------------- *)
Theorem num_samples_split i m ivs size : cuttable i m ivs -> num_samples (split_ivs i m ivs) size = num_samples ivs size.
Proof. intros hc. unfold num_samples. rewrite qmax_list_split_at by exact hc. reflexivity. Qed.

Theorem samples_split_invariant {L} i m ivs (labs : list L) offset size fill grid :
  length labs = length ivs -> cuttable i m ivs ->
  intervals_to_samples_on grid (split_ivs i m ivs) (split_labs i labs) fill = intervals_to_samples_on grid ivs labs fill /\
  intervals_to_samples (split_ivs i m ivs) (split_labs i labs) offset size fill = intervals_to_samples ivs labs offset size fill.
Proof.
  intros hl hc. split.
  - unfold intervals_to_samples_on. rewrite interpolate_split_invariant by assumption. reflexivity.
  - unfold intervals_to_samples. rewrite num_samples_split by exact hc. destruct (num_samples ivs size) as [n|e]; [|reflexivity].
    cbn [bind]. unfold intervals_to_samples_on. rewrite interpolate_split_invariant by assumption. reflexivity.
Qed.

(* the hypotheses are satisfiable, and the statement is not vacuous *)
Example split_example :
  cuttable 1 (3 # 2) [(0, 1); (1, 2); (2, 3)] /\
  split_at 1 (3 # 2) [(0, 1); (1, 2); (2, 3)] [10; 20; 30]%nat = ([(0, 1); (1, 3 # 2); (3 # 2, 2); (2, 3)], [10; 20; 20; 30]%nat).
Proof. split; [exists (1, 2); cbn; repeat split; lra|reflexivity]. Qed.

Print Assumptions label_at_split.
Print Assumptions label_at_closed_split.
Print Assumptions interpolate_split_invariant.
Print Assumptions samples_split_invariant.
Print Assumptions qmax_list_split_at.
Print Assumptions qmin_list_split_at.
