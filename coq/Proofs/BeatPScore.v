(* Properties of Model.Beat.p_score: time-shift invariance, the conditional [0, 1] bound (on the quantised beat
   trains and in seconds), the counterexamples to the unconditional bound and to the bound under the literal
   "further apart than twice the window" hypothesis in seconds, and the perfect-estimate theorem. *)
From Coq Require Import List Bool Arith ZArith QArith Qabs Qminmax Qround Lia ZifyBool Lqa Sorted Morphisms Setoid.
From ME Require Import Model.Prelude Model.Beat Proofs.BeatProps.
Import ListNotations.
Open Scope Q_scope.

(* ------------------------------------------------------------------------------------------ *)
(* the intermediate quantities of p_score                                                      *)
(* ------------------------------------------------------------------------------------------ *)
Definition ps_offset (ref est : list Q) : Q := Qmin (fold_left Qmin est (hd 0 est)) (fold_left Qmin ref (hd 0 ref)).
Definition ps_span (ref est : list Q) : Q :=
  Qmax (fold_left Qmax est (hd 0 est) - ps_offset ref est) (fold_left Qmax ref (hd 0 ref) - ps_offset ref est).
(* index of lag 0 in the full correlation = (train length - 1) *)
Definition ps_mid (ref est : list Q) : Z := (Qceiling (ps_span ref est) * 100)%Z.
(* the 10 ms bins of the beats, and the occupied bins of the two impulse trains *)
Definition ps_bins (ref est l : list Q) : list Z := beat_bins (ps_offset ref est) l.
Definition ps_rb (ref est : list Q) : list Z := occupied (ps_bins ref est ref).
Definition ps_eb (ref est : list Q) : list Z := occupied (ps_bins ref est est).
(* the correlation window win_size (in bins) *)
Definition ps_win (ref est : list Q) (thr : Q) : option Z := pscore_win thr (ps_rb ref est).

Lemma p_score_unfold ref est thr : validate ref est = Ok tt -> (2 <= length ref)%nat -> (2 <= length est)%nat ->
  p_score ref est thr =
  match ps_win ref est thr with
  | None => Raise ValueError
  | Some win => Ok (qnat (corr_window_sum (ps_mid ref est) win (ps_rb ref est) (ps_eb ref est))
                    / qnat (Nat.max (length est) (length ref)))
  end.
Proof. intros V Hr He. unfold p_score. rewrite V. cbn [bind].
  destruct ref as [|r0 [|r1 rt]]; simpl in Hr; try lia. destruct est as [|e0 [|e1 et]]; simpl in He; try lia.
  reflexivity. Qed.
Lemma p_score_short ref est thr v : p_score ref est thr = Ok v -> ~ ((2 <= length ref)%nat /\ (2 <= length est)%nat) -> v = 0.
Proof. unfold p_score. destruct (validate ref est); cbn [bind]; [|discriminate].
  destruct ref as [|r0 [|r1 rt]]; try (inversion 1; reflexivity).
  destruct est as [|e0 [|e1 et]]; try (inversion 1; reflexivity).
  intros _ H. exfalso. apply H. simpl. lia. Qed.

(* ------------------------------------------------------------------------------------------ *)
(* C08: time shift                                                                             *)
(* ------------------------------------------------------------------------------------------ *)
Lemma hd_shl s l' l : shl s l' l -> l <> [] -> hd 0 l' == hd 0 l + s.
Proof. destruct 1; simpl; auto. congruence. Qed.
Lemma fold_Qmin_shl s l' l a' a : a' == a + s -> shl s l' l -> fold_left Qmin l' a' == fold_left Qmin l a + s.
Proof. intros Ha H. revert a' a Ha. induction H as [|x y l' l Hxy H IH]; intros a' a Ha; simpl; auto.
  apply IH. rewrite Ha, Hxy. apply Q.plus_min_distr_r. Qed.
Lemma fold_Qmax_shl s l' l a' a : a' == a + s -> shl s l' l -> fold_left Qmax l' a' == fold_left Qmax l a + s.
Proof. intros Ha H. revert a' a Ha. induction H as [|x y l' l Hxy H IH]; intros a' a Ha; simpl; auto.
  apply IH. rewrite Ha, Hxy. apply Q.plus_max_distr_r. Qed.

Lemma ps_offset_shl s ref' ref est' est : shl s ref' ref -> shl s est' est -> ref <> [] -> est <> [] ->
  ps_offset ref' est' == ps_offset ref est + s.
Proof. intros Hr He Nr Ne. unfold ps_offset.
  rewrite (fold_Qmin_shl s est' est _ _ (hd_shl s _ _ He Ne) He), (fold_Qmin_shl s ref' ref _ _ (hd_shl s _ _ Hr Nr) Hr).
  apply Q.plus_min_distr_r. Qed.
Lemma ps_span_shl s ref' ref est' est : shl s ref' ref -> shl s est' est -> ref <> [] -> est <> [] ->
  ps_span ref' est' == ps_span ref est.
Proof. intros Hr He Nr Ne. unfold ps_span. rewrite (ps_offset_shl s _ _ _ _ Hr He Nr Ne).
  rewrite (fold_Qmax_shl s est' est _ _ (hd_shl s _ _ He Ne) He), (fold_Qmax_shl s ref' ref _ _ (hd_shl s _ _ Hr Nr) Hr).
  apply Q.max_compat; ring. Qed.
Lemma ps_bins_shl s ref' ref est' est l' l : shl s ref' ref -> shl s est' est -> ref <> [] -> est <> [] -> shl s l' l ->
  ps_bins ref' est' l' = ps_bins ref est l.
Proof. intros Hr He Nr Ne H. unfold ps_bins, beat_bins. pose proof (ps_offset_shl s _ _ _ _ Hr He Nr Ne) as Ho.
  induction H as [|x y l' l Hxy H IH]; simpl; auto. f_equal; auto.
  assert (E : (x - ps_offset ref' est') * 100 == (y - ps_offset ref est) * 100) by (rewrite Hxy, Ho; ring).
  now rewrite E. Qed.

Theorem pscore_shift s ref est thr :
  validate ref est = Ok tt -> validate (shift s ref) (shift s est) = Ok tt ->
  p_score (shift s ref) (shift s est) thr = p_score ref est thr.
Proof. intros V V'. pose proof (shl_shift s ref) as Hr. pose proof (shl_shift s est) as He.
  destruct (le_lt_dec 2 (length ref)) as [Lr|Lr]; [destruct (le_lt_dec 2 (length est)) as [Le|Le]|].
  - assert (Nr : ref <> []) by (destruct ref; simpl in *; [lia|discriminate]).
    assert (Ne : est <> []) by (destruct est; simpl in *; [lia|discriminate]).
    assert (Lr' : (2 <= length (shift s ref))%nat) by (unfold shift; now rewrite map_length).
    assert (Le' : (2 <= length (shift s est))%nat) by (unfold shift; now rewrite map_length).
    rewrite (p_score_unfold _ _ thr V' Lr' Le'), (p_score_unfold _ _ thr V Lr Le).
    assert (Em : ps_mid (shift s ref) (shift s est) = ps_mid ref est).
    { unfold ps_mid. now rewrite (ps_span_shl s _ _ _ _ Hr He Nr Ne). }
    rewrite Em. unfold ps_win, ps_rb, ps_eb.
    rewrite (ps_bins_shl s _ _ _ _ _ _ Hr He Nr Ne Hr), (ps_bins_shl s _ _ _ _ _ _ Hr He Nr Ne He).
    unfold shift. rewrite !map_length. reflexivity.
  - unfold p_score. rewrite V, V'. cbn [bind].
    destruct ref as [|r0 [|r1 rt]]; try reflexivity. destruct est as [|e0 [|e1 et]]; try reflexivity. simpl in Le. lia.
  - unfold p_score. rewrite V, V'. cbn [bind].
    destruct ref as [|r0 [|r1 rt]]; try reflexivity. simpl in Lr. lia. Qed.

(* ------------------------------------------------------------------------------------------ *)
(* counting pairs of occupied bins                                                             *)
(* ------------------------------------------------------------------------------------------ *)
(* consecutive differences of l are all > w *)
Definition zinc (w : Z) (l : list Z) : Prop := Forall (fun d => (w < d)%Z) (z_diffs l).
Definition pair_ok (lo hi i j : Z) : bool := (lo <=? i - j)%Z && (i - j <=? hi)%Z.

Lemma z_diffs_cons a b l : z_diffs (a :: b :: l) = (b - a)%Z :: z_diffs (b :: l).
Proof. reflexivity. Qed.
Lemma zinc_mono w w' l : (w' <= w)%Z -> zinc w l -> zinc w' l.
Proof. intros H. unfold zinc. apply Forall_impl. intros d Hd. lia. Qed.
Lemma zinc_tail w a l : zinc w (a :: l) -> zinc w l.
Proof. destruct l as [|b l]; [constructor|]. unfold zinc. rewrite z_diffs_cons. now inversion 1. Qed.
Lemma zinc_later w a l : zinc w (a :: l) -> zinc 0 (a :: l) -> Forall (fun y => (a + w < y /\ a < y)%Z) l.
Proof. revert a. induction l as [|b l IH]; intros a Hw H0; [constructor|].
  unfold zinc in Hw, H0. rewrite z_diffs_cons in Hw, H0. inversion Hw as [|? ? Hw1 Hw2]; inversion H0 as [|? ? H01 H02]; subst. cbv beta in *.
  constructor; [cbv beta; lia|]. eapply Forall_impl; [|apply (IH b Hw2 H02)]. intros y Hy. cbv beta in *. lia. Qed.

Lemma filter_map_pair (P : Z * Z -> bool) i eb :
  filter P (map (fun y => (i, y)) eb) = map (fun y => (i, y)) (filter (fun j => P (i, j)) eb).
Proof. induction eb as [|j eb IH]; simpl; auto. destruct (P (i, j)); simpl; now rewrite IH. Qed.
Lemma count_pairs_cons lo hi i rb eb :
  count_pairs lo hi (i :: rb) eb = (length (filter (pair_ok lo hi i) eb) + count_pairs lo hi rb eb)%nat.
Proof. unfold count_pairs. cbn [list_prod]. rewrite filter_app, app_length, filter_map_pair, map_length. reflexivity. Qed.
Lemma count_pairs_nil lo hi eb : count_pairs lo hi [] eb = 0%nat.
Proof. reflexivity. Qed.

Lemma at_most_one lo hi i eb : zinc (hi - lo) eb -> zinc 0 eb -> (length (filter (pair_ok lo hi i) eb) <= 1)%nat.
Proof. induction eb as [|j eb IH]; intros Hw H0; simpl; [lia|].
  destruct (pair_ok lo hi i j) eqn:E.
  - rewrite filter_none; [simpl; lia|]. intros y Hy.
    pose proof (zinc_later _ _ _ Hw H0) as Hl. rewrite Forall_forall in Hl. specialize (Hl y Hy).
    unfold pair_ok in *. lia.
  - apply IH; eapply zinc_tail; eauto. Qed.
Lemma count_pairs_le lo hi rb eb : zinc (hi - lo) eb -> zinc 0 eb -> (count_pairs lo hi rb eb <= length rb)%nat.
Proof. intros Hw H0. induction rb as [|i rb IH]; [rewrite count_pairs_nil; simpl; lia|].
  rewrite count_pairs_cons. pose proof (at_most_one lo hi i eb Hw H0). simpl. lia. Qed.
Lemma count_pairs_exact lo hi rb eb : (forall i, In i rb -> length (filter (pair_ok lo hi i) eb) = 1%nat) ->
  count_pairs lo hi rb eb = length rb.
Proof. induction rb as [|i rb IH]; intros H; [reflexivity|]. rewrite count_pairs_cons, H, IH.
  - reflexivity. - intros j Hj. apply H. now right. - now left. Qed.

(* the window selected by the Python slice is never wider than 2 win + 1 lags *)
Lemma window_width mid win : (0 <= mid)%Z ->
  (py_norm (2 * mid + 1) (mid + win + 1) - 1 - mid - (py_norm (2 * mid + 1) (mid - win) - mid) <= Z.max (2 * win) (-1))%Z.
Proof. intros H. unfold py_norm. destruct (mid + win + 1 <? 0)%Z eqn:E1; destruct (mid - win <? 0)%Z eqn:E2; lia. Qed.
Lemma window_plain mid win : (0 <= win)%Z -> (win <= mid)%Z ->
  py_norm (2 * mid + 1) (mid - win) = (mid - win)%Z /\ py_norm (2 * mid + 1) (mid + win + 1) = (mid + win + 1)%Z.
Proof. intros H1 H2. unfold py_norm. destruct (mid + win + 1 <? 0)%Z eqn:E1; destruct (mid - win <? 0)%Z eqn:E2; lia. Qed.

Lemma corr_window_sum_le mid win rb eb : (0 <= mid)%Z -> zinc (2 * win) eb -> zinc 0 eb ->
  (corr_window_sum mid win rb eb <= length rb)%nat.
Proof. intros Hm Hw H0. unfold corr_window_sum. apply count_pairs_le; auto.
  pose proof (window_width mid win Hm) as W.
  destruct (Z_le_gt_dec (-1) (2 * win)) as [H|H].
  - eapply zinc_mono; [|exact Hw]. lia.
  - eapply zinc_mono; [|exact H0]. lia. Qed.

(* --- occupied --- *)
Ltac zb := repeat match goal with
  | H : (_ <? _)%Z = true |- _ => apply Z.ltb_lt in H
  | H : (_ <? _)%Z = false |- _ => apply Z.ltb_ge in H
  | H : (_ =? _)%Z = true |- _ => apply Z.eqb_eq in H
  | H : (_ =? _)%Z = false |- _ => apply Z.eqb_neq in H end.
Lemma zins_length x l : (length (zins x l) <= S (length l))%nat.
Proof. induction l as [|y l IH]; simpl; [lia|]. destruct (x <? y)%Z; [simpl; lia|]. destruct (x =? y)%Z; simpl; lia. Qed.
Lemma occupied_length b : (length (occupied b) <= length b)%nat.
Proof. unfold occupied. assert (G : forall acc, (length (fold_left (fun a x => zins x a) b acc) <= length acc + length b)%nat).
  { induction b as [|x b IH]; intros acc; simpl; [lia|]. specialize (IH (zins x acc)). pose proof (zins_length x acc). lia. }
  apply (G []). Qed.
Lemma zins_snoc x l : Forall (fun y => (y < x)%Z) l -> zins x l = l ++ [x].
Proof. induction 1 as [|y l Hy H IH]; simpl; auto. cbv beta in Hy.
  destruct (x <? y)%Z eqn:E1; [exfalso; lia|]. destruct (x =? y)%Z eqn:E2; [exfalso; lia|]. now rewrite IH. Qed.
Lemma zinc0_later a l : zinc 0 (a :: l) -> Forall (fun y => (a < y)%Z) l.
Proof. intros H. eapply Forall_impl; [|apply (zinc_later 0 a l H H)]. intros y Hy. cbv beta in *. lia. Qed.
(* a strictly increasing list of bins is its own list of occupied bins *)
Lemma occupied_id b : zinc 0 b -> occupied b = b.
Proof. unfold occupied. intros H.
  assert (G : forall acc, Forall (fun y => Forall (fun x => (y < x)%Z) b) acc -> fold_left (fun a x => zins x a) b acc = acc ++ b).
  { induction b as [|x b IH]; intros acc Ha; simpl; [now rewrite app_nil_r|].
    rewrite zins_snoc.
    - rewrite IH; [now rewrite <- app_assoc|now apply zinc_tail in H|].
      apply Forall_app. split.
      + eapply Forall_impl; [|exact Ha]. intros y Hy. cbv beta in *. now inversion Hy.
      + constructor; [|constructor]. now apply zinc0_later.
    - eapply Forall_impl; [|exact Ha]. intros y Hy. cbv beta in *. now inversion Hy. }
  apply (G [] (Forall_nil _)). Qed.
Lemma zins_sorted x l : zinc 0 l -> zinc 0 (zins x l).
Proof. induction l as [|y l IH]; intros H; simpl; [constructor|].
  destruct (x <? y)%Z eqn:E1.
  - unfold zinc. rewrite z_diffs_cons. constructor; [cbv beta in *; zb; lia|exact H].
  - destruct (x =? y)%Z eqn:E2; auto.
    specialize (IH (zinc_tail _ _ _ H)). destruct l as [|z l]; cbn [zins] in *.
    + unfold zinc. rewrite z_diffs_cons. constructor; [cbv beta in *; zb; lia|constructor].
    + unfold zinc in H. rewrite z_diffs_cons in H. inversion H as [|? ? H1 H2]; subst.
      destruct (x <? z)%Z eqn:E3; [|destruct (x =? z)%Z eqn:E4].
      * unfold zinc. rewrite !z_diffs_cons. constructor; [cbv beta in *; zb; lia|]. constructor; [cbv beta in *; zb; lia|exact H2].
      * unfold zinc. rewrite z_diffs_cons. constructor; [cbv beta in *; zb; lia|exact H2].
      * unfold zinc in *. rewrite z_diffs_cons. constructor; [cbv beta in *; zb; lia|exact IH]. Qed.
Lemma occupied_sorted b : zinc 0 (occupied b).
Proof. unfold occupied. assert (G : forall acc, zinc 0 acc -> zinc 0 (fold_left (fun a x => zins x a) b acc)).
  { induction b as [|x b IH]; intros acc Ha; simpl; auto. apply IH. now apply zins_sorted. }
  apply G. constructor. Qed.

(* ------------------------------------------------------------------------------------------ *)
(* the bins lie in the train                                                                   *)
(* ------------------------------------------------------------------------------------------ *)
Lemma fold_Qmax_ge_in l a x : In x l -> x <= fold_left Qmax l a.
Proof. revert a. induction l as [|y l IH]; intros a; simpl; [tauto|]. intros [->|H]; auto.
  eapply Qle_trans; [|apply fold_Qmax_ge]. apply Q.le_max_r. Qed.
Lemma ps_offset_le ref est t : In t ref \/ In t est -> ps_offset ref est <= t.
Proof. unfold ps_offset. intros [H|H].
  - eapply Qle_trans; [apply Q.le_min_r|]. now apply fold_Qmin_le_in.
  - eapply Qle_trans; [apply Q.le_min_l|]. now apply fold_Qmin_le_in. Qed.
Lemma ps_span_ge ref est t : In t ref \/ In t est -> t - ps_offset ref est <= ps_span ref est.
Proof. unfold ps_span. intros [H|H].
  - eapply Qle_trans; [|apply Q.le_max_r]. pose proof (fold_Qmax_ge_in ref (hd 0 ref) t H). lra.
  - eapply Qle_trans; [|apply Q.le_max_l]. pose proof (fold_Qmax_ge_in est (hd 0 est) t H). lra. Qed.
Lemma Qceiling_le_Z x z : x <= inject_Z z -> (Qceiling x <= z)%Z.
Proof. intros H. pose proof (Qceiling_lt x) as H1. assert (H2 : inject_Z (Qceiling x - 1) < inject_Z z) by lra.
  rewrite <- Zlt_Qlt in H2. lia. Qed.
Lemma Qceiling_nonneg x : 0 <= x -> (0 <= Qceiling x)%Z.
Proof. intros H. pose proof (Qle_ceiling x) as H1. assert (H2 : inject_Z 0 <= inject_Z (Qceiling x)) by (change (inject_Z 0) with 0; lra).
  now rewrite <- Zle_Qle in H2. Qed.
Lemma bin_range ref est t : In t ref \/ In t est ->
  (0 <= Qceiling ((t - ps_offset ref est) * 100) <= ps_mid ref est)%Z.
Proof. intros H. pose proof (ps_offset_le ref est t H) as H1. pose proof (ps_span_ge ref est t H) as H2. split.
  - apply Qceiling_nonneg. lra.
  - apply Qceiling_le_Z. unfold ps_mid. rewrite inject_Z_mult. pose proof (Qle_ceiling (ps_span ref est)) as H3.
    change (inject_Z 100) with 100. lra. Qed.
Lemma ps_mid_nonneg ref est : ref <> [] -> (0 <= ps_mid ref est)%Z.
Proof. intros H. destruct ref as [|r0 rt]; [congruence|]. pose proof (bin_range (r0 :: rt) est r0 (or_introl (in_eq _ _))). lia. Qed.

Lemma p_score_valid ref est thr v : p_score ref est thr = Ok v -> validate ref est = Ok tt.
Proof. unfold p_score. destruct (validate ref est) as [[]|]; [reflexivity|discriminate]. Qed.
Lemma qnat_div_range a b : (a <= b)%nat -> (0 < b)%nat -> 0 <= qnat a / qnat b /\ qnat a / qnat b <= 1.
Proof. intros H Hb. apply Qdiv_le_1; [apply qnat_nonneg|now apply qnat_le|now apply qnat_pos]. Qed.

(* ------------------------------------------------------------------------------------------ *)
(* C01: the conditional bound                                                                  *)
(* ------------------------------------------------------------------------------------------ *)
(* On the quantised trains: if consecutive occupied 10 ms bins of the estimate are more than 2 win bins apart
   (win = the correlation window the code computes), every occupied reference bin is correlated with at most one
   estimated bin and the P-score is in [0, 1]. (The hypothesis on the reference is not needed.) *)
Theorem pscore_range_if_bins_separated ref est thr win v :
  p_score ref est thr = Ok v -> ps_win ref est thr = Some win -> zinc (2 * win) (ps_eb ref est) ->
  0 <= v /\ v <= 1.
Proof. intros H Hw Hs. pose proof (p_score_valid _ _ _ _ H) as V.
  destruct (le_lt_dec 2 (length ref)) as [Lr|Lr]; [destruct (le_lt_dec 2 (length est)) as [Le|Le]|].
  2,3: rewrite (p_score_short _ _ _ _ H) by lia; lra.
  rewrite (p_score_unfold _ _ thr V Lr Le), Hw in H. inversion H; subst v. clear H.
  apply qnat_div_range; [|lia].
  assert (Nr : ref <> []) by (destruct ref; simpl in *; [lia|discriminate]).
  pose proof (corr_window_sum_le (ps_mid ref est) win (ps_rb ref est) (ps_eb ref est) (ps_mid_nonneg ref est Nr) Hs
                (occupied_sorted _)) as H1.
  pose proof (occupied_length (ps_bins ref est ref)) as H2. unfold ps_bins, beat_bins in H2. rewrite map_length in H2.
  unfold ps_rb, ps_bins, beat_bins in *. lia. Qed.

Theorem pscore_nonneg ref est thr v : p_score ref est thr = Ok v -> 0 <= v.
Proof. intros H. pose proof (p_score_valid _ _ _ _ H) as V.
  destruct (le_lt_dec 2 (length ref)) as [Lr|Lr]; [destruct (le_lt_dec 2 (length est)) as [Le|Le]|].
  2,3: rewrite (p_score_short _ _ _ _ H) by lia; lra.
  rewrite (p_score_unfold _ _ thr V Lr Le) in H. destruct (ps_win ref est thr); [|discriminate]. inversion H.
  apply Qle_shift_div_l; [apply qnat_pos; lia|]. pose proof (qnat_nonneg (corr_window_sum (ps_mid ref est) z (ps_rb ref est) (ps_eb ref est))). lra. Qed.

(* differences of consecutive beat times *)
Definition q_diffs (l : list Q) : list Q := map (fun ab => snd ab - fst ab) (combine l (tl l)).
Lemma ceil_diff x y k : x + inject_Z k <= y -> (k <= Qceiling y - Qceiling x)%Z.
Proof. intros H. pose proof (Qle_ceiling y) as H1. pose proof (Qceiling_lt x) as H2.
  assert (H3 : inject_Z (Qceiling x - 1 + k) < inject_Z (Qceiling y)) by (rewrite inject_Z_plus; lra).
  rewrite <- Zlt_Qlt in H3. lia. Qed.
Lemma bins_diffs off k l : Forall (fun d => inject_Z k / 100 <= d) (q_diffs l) ->
  Forall (fun d => (k <= d)%Z) (z_diffs (beat_bins off l)).
Proof. induction l as [|a l IH]; [constructor|]. destruct l as [|b l]; [constructor|].
  unfold q_diffs. cbn [tl combine map fst snd]. intros H. inversion H as [|? ? H1 H2]; subst.
  change (beat_bins off (a :: b :: l)) with (Qceiling ((a - off) * 100) :: beat_bins off (b :: l)).
  change (beat_bins off (b :: l)) with (Qceiling ((b - off) * 100) :: beat_bins off l) at 1.
  rewrite z_diffs_cons. constructor.
  - apply ceil_diff. assert (E : inject_Z k / 100 * 100 == inject_Z k) by field. lra.
  - apply IH. exact H2. Qed.
Lemma zinc_of_diffs w k l : (w < k)%Z -> Forall (fun d => (k <= d)%Z) (z_diffs l) -> zinc w l.
Proof. intros H. unfold zinc. apply Forall_impl. intros d Hd. lia. Qed.

(* In seconds: estimated beats at least (2 win + 1) * 10 ms apart (twice the window plus one quantisation step) *)
Theorem pscore_range_if_separated_by_quantum ref est thr win v :
  p_score ref est thr = Ok v -> ps_win ref est thr = Some win -> (0 <= win)%Z ->
  Forall (fun d => inject_Z (2 * win + 1) / 100 <= d) (q_diffs est) ->
  0 <= v /\ v <= 1.
Proof. intros H Hw H0 Hd. apply (pscore_range_if_bins_separated ref est thr win v H Hw).
  pose proof (bins_diffs (ps_offset ref est) _ est Hd) as Hb. unfold ps_eb, ps_bins.
  rewrite occupied_id; eapply zinc_of_diffs; try exact Hb; lia. Qed.

(* ------------------------------------------------------------------------------------------ *)
(* C02: a perfect estimate                                                                     *)
(* ------------------------------------------------------------------------------------------ *)
Lemma sep_filter_one win b i : (0 <= win)%Z -> zinc win b -> zinc 0 b -> In i b ->
  length (filter (pair_ok (- win) win i) b) = 1%nat.
Proof. intros Hw. induction b as [|j b IH]; intros Hs H0 Hi; [contradiction|].
  pose proof (zinc_later _ _ _ Hs H0) as Hl. rewrite Forall_forall in Hl. cbn [filter]. destruct Hi as [->|Hi].
  - assert (E : pair_ok (- win) win i i = true) by (unfold pair_ok; lia). rewrite E.
    rewrite filter_none; [reflexivity|]. intros y Hy. specialize (Hl y Hy). unfold pair_ok. lia.
  - assert (E : pair_ok (- win) win i j = false) by (specialize (Hl i Hi); unfold pair_ok; lia). rewrite E.
    apply IH; auto; eapply zinc_tail; eauto. Qed.

(* On the quantised trains: the beats fall into distinct bins that are more than win bins apart *)
Theorem pscore_self_if_bins_separated ref thr win v :
  p_score ref ref thr = Ok v -> (2 <= length ref)%nat -> ps_win ref ref thr = Some win -> (0 <= win)%Z ->
  zinc win (ps_bins ref ref ref) -> zinc 0 (ps_bins ref ref ref) -> v == 1.
Proof. intros H Lr Hw H0 Hs Hi. pose proof (p_score_valid _ _ _ _ H) as V.
  rewrite (p_score_unfold _ _ thr V Lr Lr), Hw in H. inversion H; subst v. clear H.
  unfold ps_rb, ps_eb. rewrite (occupied_id _ Hi). rewrite Nat.max_id.
  set (b := ps_bins ref ref ref) in *. set (mid := ps_mid ref ref).
  assert (Lb : length b = length ref) by (unfold b, ps_bins, beat_bins; apply map_length).
  assert (Hm : (win <= mid)%Z).
  { destruct ref as [|r0 [|r1 rt]]; simpl in Lr; try lia.
    pose proof (bin_range (r0 :: r1 :: rt) (r0 :: r1 :: rt) r0 (or_introl (in_eq _ _))) as B0.
    pose proof (bin_range (r0 :: r1 :: rt) (r0 :: r1 :: rt) r1 (or_introl (in_cons _ _ _ (in_eq _ _)))) as B1.
    unfold b, ps_bins in Hs. unfold zinc in Hs.
    change (beat_bins (ps_offset (r0 :: r1 :: rt) (r0 :: r1 :: rt)) (r0 :: r1 :: rt))
      with (Qceiling ((r0 - ps_offset (r0 :: r1 :: rt) (r0 :: r1 :: rt)) * 100)
            :: Qceiling ((r1 - ps_offset (r0 :: r1 :: rt) (r0 :: r1 :: rt)) * 100)
            :: beat_bins (ps_offset (r0 :: r1 :: rt) (r0 :: r1 :: rt)) rt) in Hs.
    rewrite z_diffs_cons in Hs. inversion Hs as [|? ? H1 _]; subst. cbv beta in H1. fold mid in B0, B1. lia. }
  unfold corr_window_sum. destruct (window_plain mid win H0 Hm) as [E1 E2]. rewrite E1, E2.
  replace (mid - win - mid)%Z with (- win)%Z by lia. replace (mid + win + 1 - 1 - mid)%Z with win by lia.
  rewrite count_pairs_exact; [|intros i Hin; now apply sep_filter_one].
  rewrite Lb. assert (0 < qnat (length ref)) by (apply qnat_pos; lia). field. lra. Qed.

(* In seconds: strictly more than win * 10 ms plus one quantisation step between consecutive beats *)
Theorem pscore_self_if_separated ref thr win v :
  p_score ref ref thr = Ok v -> (2 <= length ref)%nat -> ps_win ref ref thr = Some win -> (0 <= win)%Z ->
  Forall (fun d => inject_Z (win + 1) / 100 <= d) (q_diffs ref) -> v == 1.
Proof. intros H Lr Hw H0 Hd. pose proof (bins_diffs (ps_offset ref ref) _ ref Hd) as Hb.
  apply (pscore_self_if_bins_separated ref thr win v H Lr Hw H0); eapply zinc_of_diffs; try exact Hb; lia. Qed.

(* ------------------------------------------------------------------------------------------ *)
(* examples and counterexamples (all checked against mir_eval by the correspondence unit)      *)
(* ------------------------------------------------------------------------------------------ *)
Definition gt1_beats : list Q := [0; 5#100; 1; 105#100; 2].
(* the unconditional bound fails: a perfect estimate with two pairs of beats 50 ms apart scores 9/5
   (mir_eval.beat.p_score(x, x) = 1.8 for x = [0, .05, 1, 1.05, 2]) *)
Example pscore_gt_1_example : p_score gt1_beats gt1_beats (2#10) = Ok (9#5).
Proof. vm_compute. reflexivity. Qed.

Definition sep_ref : list Q := [1127#1024; 1332#1024; 2151#1024; 2356#1024; 3175#1024].
Definition sep_est : list Q := [0; 1025#1024; 1230#1024; 1435#1024; 2049#1024; 2254#1024; 2459#1024; 3073#1024; 3278#1024].
(* The bound under the literal hypothesis in seconds is FALSE: consecutive beats of BOTH sequences are strictly
   more than twice the correlation window (2 * 10 bins * 10 ms = 0.2 s) apart, yet the score is 10/9, because
   the quantisation ceil(100 t) can put two beats exactly 2 win bins apart and a reference beat half way between
   them is then counted twice. (mir_eval.beat.p_score gives 1.1111111111111112 on the same input.) *)
Theorem pscore_range_if_separated_refuted :
  exists ref est thr win v,
    validate ref est = Ok tt /\ ps_win ref est thr = Some win /\
    Forall (fun d => 2 * inject_Z win / 100 < d) (q_diffs ref) /\
    Forall (fun d => 2 * inject_Z win / 100 < d) (q_diffs est) /\
    p_score ref est thr = Ok v /\ 1 < v.
Proof. exists sep_ref, sep_est, (2#10), 10%Z, (10#9).
  split; [vm_compute; reflexivity|]. split; [vm_compute; reflexivity|].
  split; [repeat constructor; vm_compute; reflexivity|]. split; [repeat constructor; vm_compute; reflexivity|].
  split; vm_compute; reflexivity. Qed.

(* the hypotheses of the conditional theorems are satisfiable *)
Example pscore_separated_example :
  let ref := [5; 5 + (1#2); 6; 6 + (1#2); 7] in let est := [5 + (1#100); 5 + (52#100); 6; 6 + (49#100); 7 + (3#100)] in
  ps_win ref est (2#10) = Some 10%Z /\ Forall (fun d => inject_Z (2 * 10 + 1) / 100 <= d) (q_diffs est)
  /\ p_score ref est (2#10) = Ok (5#5).
Proof. cbv zeta. split; [vm_compute; reflexivity|]. split; [repeat constructor; vm_compute; discriminate|].
  vm_compute. reflexivity. Qed.
Example pscore_self_example :
  let ref := [5; 5 + (1#2); 6; 6 + (1#2); 7] in
  ps_win ref ref (2#10) = Some 10%Z /\ Forall (fun d => inject_Z (10 + 1) / 100 <= d) (q_diffs ref)
  /\ p_score ref ref (2#10) = Ok (5#5).
Proof. cbv zeta. split; [vm_compute; reflexivity|]. split; [repeat constructor; vm_compute; discriminate|].
  vm_compute. reflexivity. Qed.
(* with win = 0 the literal hypothesis (gaps > 0) is not enough for a perfect score either: two beats in one bin *)
Example pscore_self_lt_1_example :
  let ref := [0; 11#1000; 12#1000; 25#1000] in
  ps_win ref ref (2#10) = Some 0%Z /\ Forall (fun d => 2 * inject_Z 0 / 100 < d) (q_diffs ref)
  /\ p_score ref ref (2#10) = Ok (3#4).
Proof. cbv zeta. split; [vm_compute; reflexivity|]. split; [repeat constructor; vm_compute; reflexivity|].
  vm_compute. reflexivity. Qed.

Print Assumptions pscore_shift.
Print Assumptions pscore_range_if_bins_separated.
Print Assumptions pscore_range_if_separated_by_quantum.
Print Assumptions pscore_range_if_separated_refuted.
Print Assumptions pscore_gt_1_example.
Print Assumptions pscore_self_if_bins_separated.
Print Assumptions pscore_self_if_separated.
Print Assumptions pscore_nonneg.

(* C04 (skeleton): when the window fits into the train (0 <= win <= mid; otherwise the Python slice wraps around),
   the windowed correlation sum is the number of pairs of occupied bins at distance <= win *)
Theorem pscore_is_pair_count mid win rb eb : (0 <= win)%Z -> (win <= mid)%Z ->
  corr_window_sum mid win rb eb = length (filter (fun ij => (Z.abs (fst ij - snd ij) <=? win)%Z) (list_prod rb eb)).
Proof. intros H0 Hm. unfold corr_window_sum, count_pairs. destruct (window_plain mid win H0 Hm) as [E1 E2]. rewrite E1, E2.
  f_equal. apply filter_ext. intros [i j]. cbn [fst snd]. lia. Qed.
Print Assumptions pscore_is_pair_count.
