(* C13, adjust_intervals: the two blocks of the function (step_min / step_max) characterised separately, then the
   theorems adjust_ok, adjust_span, adjust_inside, adjust_ordered, adjust_label_at_*, adjust_positive_durations
   and the refutations.  Tracks mir_eval after the fix 5b630fc (crops with `end > t_min` and `start >= t_max`). *)
From Coq Require Import List Bool Arith ZArith QArith Qminmax Qabs Lia Lqa.
From ME Require Import Model.Prelude Model.Intervals Proofs.IntervalsBase.
Import ListNotations.
Open Scope Q_scope.

Definition clip_lo (a : Q) (v : iv) : iv := (Qmax a (fst v), Qmax a (snd v)).
Definition clip_hi (b : Q) (v : iv) : iv := (Qmin b (fst v), Qmin b (snd v)).
(* number of rows dropped at the front by the t_min block / kept by the t_max block *)
Definition crop_min (a : Q) (ivs : list iv) : nat :=
  match find_idx (fun i : iv => qltb a (snd i)) ivs with Some k => k | None => 0%nat end.
Definition crop_max (b : Q) (ivs : list iv) : nat :=
  match find_idx (fun i : iv => Qle_bool b (fst i)) ivs with Some k => k | None => length ivs end.
Definition labs_ok {L} (labs : option (list L)) (n : nat) : Prop :=
  match labs with Some l => length l = n | None => True end.

Lemma in_skipn_or_firstn {A} (x : A) k l : In x l -> In x (firstn k l) \/ In x (skipn k l).
Proof. intros H. rewrite <- (firstn_skipn k l) in H. apply in_app_or in H. exact H. Qed.
Lemma in_skipn {A} (x : A) k l : In x (skipn k l) -> In x l.
Proof. intros H. rewrite <- (firstn_skipn k l). apply in_or_app. auto. Qed.
Lemma in_firstn {A} (x : A) k l : In x (firstn k l) -> In x l.
Proof. intros H. rewrite <- (firstn_skipn k l). apply in_or_app. auto. Qed.

(* ---------------------------------------------------------------------------------------- *)
(* cropping                                                                                  *)
(* ---------------------------------------------------------------------------------------- *)
Lemma crop_min_dropped a ivs : Forall (fun v => snd v <= a) (firstn (crop_min a ivs) ivs).
Proof.
  unfold crop_min. destruct (find_idx _ _) as [k|] eqn:E; [|constructor].
  destruct (find_idx_some _ _ _ E) as [h _]. eapply Forall_impl; [|exact h]. cbn. intros v hv. qb. exact hv.
Qed.
Lemma crop_min_nonempty a ivs : ivs <> [] -> skipn (crop_min a ivs) ivs <> [].
Proof.
  unfold crop_min. destruct (find_idx _ _) as [k|] eqn:E; [|auto].
  destruct (find_idx_some _ _ _ E) as [_ [x [r [e _]]]]. rewrite e. discriminate.
Qed.
Lemma crop_min_keeps a ivs v : In v ivs -> a < snd v -> In v (skipn (crop_min a ivs) ivs).
Proof.
  intros hv ha. destruct (in_skipn_or_firstn v (crop_min a ivs) ivs hv) as [h|h]; [|exact h].
  pose proof (crop_min_dropped a ivs) as hd. rewrite Forall_forall in hd. specialize (hd _ h). lra.
Qed.
(* for ordered input the kept rows either all end after a, or nothing was dropped and no row ends after a *)
Lemma crop_min_kept a ivs : ordered ivs ->
  Forall (fun v => a < snd v) (skipn (crop_min a ivs) ivs) \/
  (crop_min a ivs = 0%nat /\ Forall (fun v => snd v <= a) ivs).
Proof.
  intros ho. unfold crop_min. destruct (find_idx _ _) as [k|] eqn:E.
  - left. destruct (find_idx_some _ _ _ E) as [_ [x [r [e hx]]]]. qb.
    pose proof (ordered_skipn k _ ho) as hos. rewrite e in *.
    constructor; [exact hx|]. pose proof (ordered_le_all _ _ hos) as ha.
    eapply Forall_impl; [|exact ha]. cbn. intros w hw. cbn in hos. lra.
  - right. split; [reflexivity|]. pose proof (find_idx_none _ _ E) as h.
    eapply Forall_impl; [|exact h]. cbn. intros v hv. qb. exact hv.
Qed.

Lemma crop_max_kept b ivs : Forall (fun v => fst v < b) (firstn (crop_max b ivs) ivs).
Proof.
  unfold crop_max. destruct (find_idx _ _) as [k|] eqn:E.
  - destruct (find_idx_some _ _ _ E) as [h _]. eapply Forall_impl; [|exact h]. cbn. intros v hv. qb. exact hv.
  - rewrite firstn_all. pose proof (find_idx_none _ _ E) as h. eapply Forall_impl; [|exact h]. cbn. intros v hv. qb. exact hv.
Qed.
Lemma crop_max_dropped b ivs : ordered ivs -> Forall (fun v => b <= fst v) (skipn (crop_max b ivs) ivs).
Proof.
  intros ho. unfold crop_max. destruct (find_idx _ _) as [k|] eqn:E.
  - destruct (find_idx_some _ _ _ E) as [_ [x [r [e hx]]]]. qb.
    pose proof (ordered_skipn k _ ho) as hos. rewrite e in *.
    constructor; [exact hx|]. pose proof (ordered_le_all _ _ hos) as ha.
    eapply Forall_impl; [|exact ha]. cbn. intros w hw. lra.
  - rewrite skipn_all. constructor.
Qed.
Lemma crop_max_keeps b ivs v : ordered ivs -> In v ivs -> fst v < b -> In v (firstn (crop_max b ivs) ivs).
Proof.
  intros ho hv hb. destruct (in_skipn_or_firstn v (crop_max b ivs) ivs hv) as [h|h]; [exact h|].
  pose proof (crop_max_dropped b ivs ho) as hd. rewrite Forall_forall in hd. specialize (hd _ h). lra.
Qed.
Lemma crop_max_pos b (h : iv) (r : list iv) : fst h < b -> exists k, crop_max b (h :: r) = S k.
Proof.
  intros hb. unfold crop_max. cbn. destruct (Qle_bool b (fst h)) eqn:E; [qb; lra|].
  destruct (find_idx _ _); cbn; eexists; reflexivity.
Qed.
(* if the first row starts at or after b, every row is cropped *)
Lemma crop_max_zero b (h : iv) (r : list iv) : b <= fst h -> crop_max b (h :: r) = 0%nat.
Proof.
  intros hb. unfold crop_max. cbn. assert (e : Qle_bool b (fst h) = true) by (apply qleb_true; exact hb). rewrite e. reflexivity.
Qed.

Lemma label_at_cons {L} v ivs (l : L) labs t :
  label_at (v :: ivs) (l :: labs) t =
  match label_at ivs labs t with Some x => Some x | None => if in_ho v t then Some l else None end.
Proof. reflexivity. Qed.

Section Adj.
Context {L : Type}.
Variables sl el : L.

(* ---------------------------------------------------------------------------------------- *)
(* the t_min block                                                                           *)
(* ---------------------------------------------------------------------------------------- *)
Lemma step_min_unfold a ivs (labs : option (list L)) :
  step_min sl a ivs labs =
  let k := crop_min a ivs in
  let cl := map (clip_lo a) (skipn k ivs) in
  let labs' := option_map (skipn k) labs in
  match qmin_list (flat cl) with
  | None => Raise ValueError
  | Some mn => if qltb a mn then Ok ((a, mn) :: cl, option_map (cons sl) labs') else Ok (cl, labs')
  end.
Proof.
  unfold step_min, crop_min. destruct (find_idx _ _) as [k|]; [reflexivity|].
  cbn [skipn]. destruct labs; reflexivity.
Qed.

Lemma step_min_ok a ivs (labs : option (list L)) : ivs <> [] -> exists out labs', step_min sl a ivs labs = Ok (out, labs').
Proof.
  intros hne. rewrite step_min_unfold. cbv zeta.
  pose proof (crop_min_nonempty a ivs hne) as hk.
  destruct (skipn (crop_min a ivs) ivs) as [|x r]; [congruence|]. cbn [map flat flat_map app qmin_list].
  destruct (qltb a _); eexists; eexists; reflexivity.
Qed.

(* everything that does not need an ordering *)
Lemma step_min_facts a ivs (labs : option (list L)) out labs' :
  step_min sl a ivs labs = Ok (out, labs') -> labs_ok labs (length ivs) ->
  labs_ok labs' (length out) /\ out <> [] /\ Forall (fun v => a <= fst v /\ a <= snd v) out /\
  (forall v, In v ivs -> a < snd v -> In (clip_lo a v) out) /\
  (forall w, In w out -> fst w == a \/ exists v, In v ivs /\ fst w == fst v) /\
  (forall t, a <= t -> (forall v, In v ivs -> fst v <= t /\ snd v <= t) -> forall w, In w out -> fst w <= t /\ snd w <= t).
Proof.
  rewrite step_min_unfold. cbv zeta. set (k := crop_min a ivs). set (cl := map (clip_lo a) (skipn k ivs)).
  intros H hl.
  assert (hlk : labs_ok (option_map (skipn k) labs) (length cl)).
  { unfold cl. rewrite map_length. destruct labs as [l|]; cbn in *; [|exact I]. rewrite !skipn_length. lia. }
  assert (hcl : Forall (fun v => a <= fst v /\ a <= snd v) cl).
  { unfold cl. rewrite Forall_map. apply Forall_forall. intros v _. unfold clip_lo; cbn. split; apply Q.le_max_l. }
  assert (hin : forall v, In v ivs -> a < snd v -> In (clip_lo a v) cl).
  { intros v hv ha. unfold cl. apply in_map. apply crop_min_keeps; assumption. }
  assert (hfst : forall w, In w cl -> fst w == a \/ exists v, In v ivs /\ fst w == fst v).
  { intros w hw. unfold cl in hw. apply in_map_iff in hw. destruct hw as [v [<- hv]]. apply in_skipn in hv.
    unfold clip_lo; cbn. destruct (qmax_cases a (fst v)) as [[e _]|[e _]]; [left; exact e|right; exists v; split; auto]. }
  assert (hub : forall t, a <= t -> (forall v, In v ivs -> fst v <= t /\ snd v <= t) -> forall w, In w cl -> fst w <= t /\ snd w <= t).
  { intros t hat hall w hw. unfold cl in hw. apply in_map_iff in hw. destruct hw as [v [<- hv]]. apply in_skipn in hv.
    destruct (hall _ hv). unfold clip_lo; cbn. split; qmm. }
  destruct (qmin_list (flat cl)) as [mn|] eqn:E; [|discriminate].
  destruct (qmin_list_spec _ _ E) as [[y [hy ey]] hmin].
  destruct (qltb a mn) eqn:E2; injection H as <- <-; qb.
  - split; [|split; [discriminate|split; [|split; [|split]]]].
    + destruct labs as [l|]; cbn in *; [|exact I]. rewrite hlk. reflexivity.
    + constructor; [cbn; split; lra|exact hcl].
    + intros v hv ha. right. apply hin; assumption.
    + intros w [<-|hw]; [left; reflexivity|auto].
    + intros t hat hall w [<-|hw]; [|eapply hub; eauto]. cbn. split; [exact hat|].
      apply in_flat in hy. destruct hy as [w [hw hx]]. destruct (hub t hat hall w hw).
      destruct hx as [->| ->]; lra.
  - split; [exact hlk|split; [|split; [exact hcl|split; [exact hin|split; [exact hfst|exact hub]]]]].
    intro e. rewrite e in E. discriminate.
Qed.

Lemma clip_lo_mono a : forall x y, x <= y -> Qmax a x <= Qmax a y.
Proof. intros x y h. qmm. Qed.
Lemma clip_hi_mono b : forall x y, x <= y -> Qmin b x <= Qmin b y.
Proof. intros x y h. qmm. Qed.

Lemma last_map {A B} (f : A -> B) : forall l d, l <> [] -> last (map f l) (f d) = f (last l d).
Proof.
  induction l as [|x l IH]; intros d hne; [congruence|]. destruct l as [|y l]; [reflexivity|].
  change (last (map f (x :: y :: l)) (f d)) with (last (map f (y :: l)) (f d)).
  change (last (x :: y :: l) d) with (last (y :: l) d). apply IH. discriminate.
Qed.
Lemma last_skipn {A} : forall k (l : list A) d, skipn k l <> [] -> last (skipn k l) d = last l d.
Proof.
  induction k as [|k IH]; intros l d hne; [reflexivity|]. destruct l as [|x l]; [reflexivity|].
  cbn [skipn] in *. rewrite IH by assumption. destruct l; [rewrite skipn_nil in hne; congruence|reflexivity].
Qed.
Lemma last_cons_ne {A} (x : A) l d : l <> [] -> last (x :: l) d = last l d.
Proof. destruct l; [congruence|reflexivity]. Qed.

Lemma step_min_ordered a ivs (labs : option (list L)) out labs' d :
  ordered ivs -> step_min sl a ivs labs = Ok (out, labs') ->
  ordered out /\ fst (hd d out) == a /\ snd (last out d) == Qmax a (snd (last ivs d)).
Proof.
  intros ho. rewrite step_min_unfold. cbv zeta. set (k := crop_min a ivs). set (kept := skipn k ivs).
  set (cl := map (clip_lo a) kept). intros H.
  assert (hok : ordered kept) by (apply ordered_skipn; exact ho).
  assert (hoc : ordered cl) by (apply (ordered_map_mono (Qmax a) (clip_lo_mono a)); exact hok).
  destruct (qmin_list (flat cl)) as [mn|] eqn:E; [|discriminate].
  assert (hne : kept <> []).
  { intro e. unfold cl in E. rewrite e in E. discriminate. }
  assert (hlast : snd (last cl d) == Qmax a (snd (last ivs d))).
  { unfold cl. assert (e : last (map (clip_lo a) kept) d = last (map (clip_lo a) kept) (clip_lo a d)).
    { destruct kept as [|x r]; [congruence|]. clear. revert x. induction r as [|y r IH]; intros x; [reflexivity|].
      change (last (map (clip_lo a) (x :: y :: r)) d) with (last (map (clip_lo a) (y :: r)) d).
      change (last (map (clip_lo a) (x :: y :: r)) (clip_lo a d)) with (last (map (clip_lo a) (y :: r)) (clip_lo a d)). apply IH. }
    rewrite e, last_map by exact hne. unfold kept. rewrite last_skipn by exact hne. reflexivity. }
  destruct cl as [|c0 cr] eqn:Ecl; [destruct kept; [congruence|discriminate]|].
  pose proof (ordered_min _ _ _ hoc E) as hmn.
  destruct (qmin_list_spec _ _ E) as [_ hmin].
  destruct (qltb a mn) eqn:E2; injection H as <- <-; qb.
  - split; [|split].
    + cbn [ordered]. split; [cbn; lra|]. split; [|exact hoc].
      apply Forall_forall. intros w hw. cbn [snd].
      apply hmin. apply in_flat. exists w. auto.
    + reflexivity.
    + rewrite last_cons_ne by discriminate. exact hlast.
  - split; [exact hoc|]. split; [|exact hlast]. cbn [hd].
    assert (a <= fst c0).
    { assert (hin : In c0 (map (clip_lo a) kept)) by (fold cl; rewrite Ecl; left; reflexivity).
      apply in_map_iff in hin. destruct hin as [v [<- _]]. unfold clip_lo; cbn. apply Q.le_max_l. }
    lra.
Qed.

(* label_at through the t_min block *)
Lemma step_min_label a ivs labs out olabs t :
  length labs = length ivs -> a <= t -> step_min sl a ivs (Some labs) = Ok (out, olabs) ->
  exists labs', olabs = Some labs' /\ length labs' = length out /\
    ((forall v, In v (skipn (crop_min a ivs) ivs) -> t < fst v /\ t < snd v) ->
       exists mn rest, out = (a, mn) :: rest /\ t < mn /\ label_at out labs' t = Some sl) /\
    ((exists v, In v (skipn (crop_min a ivs) ivs) /\ (fst v <= t \/ snd v <= t)) ->
       label_at out labs' t = label_at ivs labs t).
Proof.
  intros hl hat. rewrite step_min_unfold. cbv zeta. set (k := crop_min a ivs). set (kept := skipn k ivs).
  set (cl := map (clip_lo a) kept). cbn [option_map]. intros H.
  assert (hlen : length (skipn k labs) = length cl).
  { unfold cl, kept. rewrite map_length, !skipn_length. lia. }
  (* label_at of the clipped kept rows = label_at of the input *)
  assert (hcl : label_at cl (skipn k labs) t = label_at ivs labs t).
  { unfold label_at, cl. rewrite (label_with_map in_ho in_ho).
    - unfold kept. apply label_with_skipn.
      pose proof (crop_min_dropped a ivs) as hd. eapply Forall_impl; [|exact hd]. cbn. intros v hv.
      unfold in_ho. apply andb_false_iff. right. apply qltb_false. lra.
    - apply Forall_forall. intros v _. unfold in_ho, clip_lo; cbn [fst snd].
      destruct (Qle_bool (fst v) t) eqn:E1, (qltb t (snd v)) eqn:E2; cbn; qb.
      + apply andb_true_iff. split; [apply qleb_true|apply qltb_true]; qmm.
      + apply andb_false_iff. right. apply qltb_false. qmm.
      + apply andb_false_iff. left. apply qleb_false. qmm.
      + apply andb_false_iff. left. apply qleb_false. qmm. }
  destruct (qmin_list (flat cl)) as [mn|] eqn:E; [|discriminate].
  destruct (qmin_list_spec _ _ E) as [[y [hy ey]] hmin].
  assert (hmn_lt : (forall v, In v kept -> t < fst v /\ t < snd v) -> t < mn).
  { intros hall. apply in_flat in hy. destruct hy as [w [hw hx]]. unfold cl in hw. apply in_map_iff in hw.
    destruct hw as [v [<- hv]]. destruct (hall _ hv). unfold clip_lo in hx; cbn in hx.
    destruct hx as [->| ->]; rewrite ey; qmm. }
  assert (hmn_le : (exists v, In v kept /\ (fst v <= t \/ snd v <= t)) -> mn <= t).
  { intros [v [hv hor]].
    assert (h1 : mn <= Qmax a (fst v)) by (apply hmin; apply in_flat; exists (clip_lo a v); split; [apply in_map; exact hv|left; reflexivity]).
    assert (h2 : mn <= Qmax a (snd v)) by (apply hmin; apply in_flat; exists (clip_lo a v); split; [apply in_map; exact hv|right; reflexivity]).
    destruct hor; qmm. }
  destruct (qltb a mn) eqn:E2; injection H as <- <-; qb.
  - exists (sl :: skipn k labs). split; [reflexivity|]. split; [cbn; lia|]. split.
    + intros hall. exists mn, cl. split; [reflexivity|]. pose proof (hmn_lt hall) as hlt. split; [exact hlt|].
      rewrite label_at_cons, hcl.
      assert (hnone : label_at ivs labs t = None).
      { rewrite <- hcl. unfold label_at, cl. rewrite (label_with_map (fun _ _ => false) in_ho).
        - apply label_with_none. apply Forall_forall. reflexivity.
        - apply Forall_forall. intros v hv. destruct (hall _ hv). unfold in_ho, clip_lo; cbn [fst snd].
          apply andb_false_iff. left. apply qleb_false. qmm. }
      rewrite hnone. unfold in_ho; cbn [fst snd].
      assert (e1 : Qle_bool a t = true) by (apply qleb_true; exact hat).
      assert (e2 : qltb t mn = true) by (apply qltb_true; exact hlt).
      rewrite e1, e2. reflexivity.
    + intros hex. pose proof (hmn_le hex) as hle.
      rewrite label_at_cons, hcl. destruct (label_at ivs labs t); [reflexivity|].
      unfold in_ho; cbn [fst snd].
      assert (e2 : qltb t mn = false) by (apply qltb_false; exact hle).
      rewrite e2, andb_false_r. reflexivity.
  - exists (skipn k labs). split; [reflexivity|]. split; [exact hlen|]. split.
    + intros hall. pose proof (hmn_lt hall). lra.
    + intros _. exact hcl.
Qed.

(* ---------------------------------------------------------------------------------------- *)
(* the t_max block                                                                           *)
(* ---------------------------------------------------------------------------------------- *)
Lemma step_max_unfold b ivs (labs : option (list L)) : labs_ok labs (length ivs) ->
  step_max el b ivs labs =
  let k := crop_max b ivs in
  let cl := map (clip_hi b) (firstn k ivs) in
  let labs' := option_map (firstn k) labs in
  match qmax_list (flat cl) with
  | None => Raise ValueError
  | Some mx => if qltb mx b then Ok (cl ++ [(mx, b)], option_map (fun l => l ++ [el]) labs') else Ok (cl, labs')
  end.
Proof.
  intros hl. unfold step_max, crop_max. destruct (find_idx _ _) as [k|]; [reflexivity|].
  rewrite firstn_all. destruct labs as [l|]; cbn in *; [|reflexivity]. rewrite <- hl, firstn_all. reflexivity.
Qed.

Lemma step_max_ok b (h : iv) (r : list iv) (labs : option (list L)) : labs_ok labs (length (h :: r)) -> fst h < b ->
  exists out labs', step_max el b (h :: r) labs = Ok (out, labs').
Proof.
  intros hl hb. rewrite step_max_unfold by exact hl. cbv zeta.
  destruct (crop_max_pos b h r hb) as [k ->]. cbn [firstn map flat flat_map app qmax_list].
  destruct (qltb _ b); eexists; eexists; reflexivity.
Qed.

Lemma step_max_facts b ivs (labs : option (list L)) out labs' :
  step_max el b ivs labs = Ok (out, labs') -> labs_ok labs (length ivs) ->
  labs_ok labs' (length out) /\ out <> [] /\ Forall (fun v => fst v <= b /\ snd v <= b) out /\
  (forall a, a <= b -> Forall (fun v => a <= fst v /\ a <= snd v) ivs -> Forall (fun v => a <= fst v /\ a <= snd v) out).
Proof.
  intros H hl. rewrite step_max_unfold in H by exact hl. cbv zeta in H.
  set (k := crop_max b ivs) in *. set (cl := map (clip_hi b) (firstn k ivs)) in *.
  assert (hlk : labs_ok (option_map (firstn k) labs) (length cl)).
  { unfold cl. rewrite map_length. destruct labs as [l|]; cbn in *; [|exact I]. rewrite !firstn_length. lia. }
  assert (hcl : Forall (fun v => fst v <= b /\ snd v <= b) cl).
  { unfold cl. rewrite Forall_map. apply Forall_forall. intros v _. unfold clip_hi; cbn. split; apply Q.le_min_l. }
  assert (hlow : forall a, a <= b -> Forall (fun v => a <= fst v /\ a <= snd v) ivs -> Forall (fun v => a <= fst v /\ a <= snd v) cl).
  { intros a hab hall. unfold cl. rewrite Forall_map. apply Forall_firstn. eapply Forall_impl; [|exact hall].
    cbn. intros v [h1 h2]. split; qmm. }
  destruct (qmax_list (flat cl)) as [mx|] eqn:E; [|discriminate].
  destruct (qmax_list_spec _ _ E) as [[y [hy ey]] hmax].
  destruct (qltb mx b) eqn:E2; injection H as <- <-; qb.
  - split; [|split; [|split]].
    + destruct labs as [l|]; cbn in *; [|exact I]. rewrite !app_length, hlk. reflexivity.
    + destruct cl; discriminate.
    + apply Forall_app. split; [exact hcl|]. constructor; [cbn; split; lra|constructor].
    + intros a hab hall. apply Forall_app. split; [apply hlow; assumption|]. constructor; [|constructor]. cbn.
      apply in_flat in hy. destruct hy as [w [hw hx]]. pose proof (hlow a hab hall) as hl2. rewrite Forall_forall in hl2.
      destruct (hl2 _ hw). split; [|lra]. destruct hx as [->| ->]; lra.
  - split; [exact hlk|split; [|split; [exact hcl|exact hlow]]].
    intro e. rewrite e in E. discriminate.
Qed.

Lemma hd_map_clip_hi b (l : list iv) d : l <> [] -> fst (hd d (map (clip_hi b) l)) = Qmin b (fst (hd d l)).
Proof. destruct l; [congruence|reflexivity]. Qed.

Lemma step_max_ordered b ivs (labs : option (list L)) out labs' d :
  ordered ivs -> labs_ok labs (length ivs) -> step_max el b ivs labs = Ok (out, labs') ->
  ordered out /\ snd (last out d) == b /\ (fst (hd d ivs) < b -> fst (hd d out) == fst (hd d ivs)).
Proof.
  intros ho hl H. rewrite step_max_unfold in H by exact hl. cbv zeta in H.
  set (k := crop_max b ivs) in *. set (kept := firstn k ivs) in *. set (cl := map (clip_hi b) kept) in *.
  assert (hok : ordered kept) by (apply ordered_firstn; exact ho).
  assert (hoc : ordered cl) by (apply (ordered_map_mono (Qmin b) (clip_hi_mono b)); exact hok).
  destruct (qmax_list (flat cl)) as [mx|] eqn:E; [|discriminate].
  assert (hne : cl <> []) by (intro e; rewrite e in E; discriminate).
  pose proof (ordered_max cl d mx hoc hne E) as hmx.
  destruct (qmax_list_spec _ _ E) as [_ hmax].
  assert (hle : forall w, In w cl -> fst w <= b /\ snd w <= b).
  { intros w hw. unfold cl in hw. apply in_map_iff in hw. destruct hw as [v [<- _]]. unfold clip_hi; cbn. split; apply Q.le_min_l. }
  assert (hhd : fst (hd d ivs) < b -> fst (hd d cl) == fst (hd d ivs)).
  { intros hb. unfold cl, kept. destruct ivs as [|h r]; [unfold k; cbn in *; congruence|].
    destruct (crop_max_pos b h r hb) as [j ej]. unfold k. rewrite ej. cbn. cbn in hb. qmm. }
  destruct (qltb mx b) eqn:E2; injection H as <- <-; qb.
  - split; [|split].
    + apply ordered_app_one; [exact hoc|cbn; lra|].
      apply Forall_forall. intros w hw. cbn [fst]. apply hmax. apply in_flat. exists w. auto.
    + rewrite last_last. reflexivity.
    + intros hb. destruct cl as [|c0 cr]; [congruence|]. cbn [hd app]. apply hhd. exact hb.
  - split; [exact hoc|]. split; [|exact hhd].
    assert (hin : In (last cl d) cl).
    { destruct (@exists_last _ cl hne) as [l' [x ex]]. rewrite ex, last_last. apply in_or_app. right. left. reflexivity. }
    destruct (hle _ hin). lra.
Qed.

Lemma step_max_label b ivs labs out olabs t :
  length labs = length ivs -> t < b -> ordered ivs -> step_max el b ivs (Some labs) = Ok (out, olabs) ->
  exists labs', olabs = Some labs' /\ length labs' = length out /\
    ((forall v, In v (firstn (crop_max b ivs) ivs) -> fst v <= t /\ snd v <= t) -> label_at out labs' t = Some el) /\
    ((exists v, In v (firstn (crop_max b ivs) ivs) /\ (t < fst v \/ t < snd v)) -> label_at out labs' t = label_at ivs labs t).
Proof.
  intros hl htb ho H. rewrite step_max_unfold in H by exact hl. cbv zeta in H.
  set (k := crop_max b ivs) in *. set (kept := firstn k ivs) in *. set (cl := map (clip_hi b) kept) in *.
  cbn [option_map] in H.
  assert (hlen : length (firstn k labs) = length cl).
  { unfold cl, kept. rewrite map_length, !firstn_length. lia. }
  assert (hcl : label_at cl (firstn k labs) t = label_at ivs labs t).
  { unfold label_at, cl. rewrite (label_with_map in_ho in_ho).
    - unfold kept. apply label_with_firstn.
      pose proof (crop_max_dropped b ivs ho) as hd. eapply Forall_impl; [|exact hd]. cbn. intros v hv.
      unfold in_ho. apply andb_false_iff. left. apply qleb_false. lra.
    - apply Forall_forall. intros v _. unfold in_ho, clip_hi; cbn [fst snd].
      destruct (Qle_bool (fst v) t) eqn:E1, (qltb t (snd v)) eqn:E2; cbn; qb.
      + apply andb_true_iff. split; [apply qleb_true|apply qltb_true]; qmm.
      + apply andb_false_iff. right. apply qltb_false. qmm.
      + apply andb_false_iff. left. apply qleb_false. qmm.
      + apply andb_false_iff. left. apply qleb_false. qmm. }
  destruct (qmax_list (flat cl)) as [mx|] eqn:E; [|discriminate].
  destruct (qmax_list_spec _ _ E) as [[y [hy ey]] hmax].
  assert (hmx_le : (forall v, In v kept -> fst v <= t /\ snd v <= t) -> mx <= t).
  { intros hall. apply in_flat in hy. destruct hy as [w [hw hx]]. unfold cl in hw. apply in_map_iff in hw.
    destruct hw as [v [<- hv]]. destruct (hall _ hv). unfold clip_hi in hx; cbn in hx.
    destruct hx as [->| ->]; rewrite ey; qmm. }
  assert (hmx_gt : (exists v, In v kept /\ (t < fst v \/ t < snd v)) -> t < mx).
  { intros [v [hv hor]].
    assert (h1 : Qmin b (fst v) <= mx) by (apply hmax; apply in_flat; exists (clip_hi b v); split; [apply in_map; exact hv|left; reflexivity]).
    assert (h2 : Qmin b (snd v) <= mx) by (apply hmax; apply in_flat; exists (clip_hi b v); split; [apply in_map; exact hv|right; reflexivity]).
    destruct hor; qmm. }
  destruct (qltb mx b) eqn:E2; injection H as <- <-; qb.
  - exists (firstn k labs ++ [el]). split; [reflexivity|]. split; [rewrite !app_length, hlen; reflexivity|]. split.
    + intros hall. pose proof (hmx_le hall) as hle. unfold label_at. rewrite label_with_app by (symmetry; exact hlen).
      cbn [label_with]. unfold in_ho; cbn [fst snd].
      assert (e1 : Qle_bool mx t = true) by (apply qleb_true; exact hle).
      assert (e2 : qltb t b = true) by (apply qltb_true; exact htb).
      rewrite e1, e2. reflexivity.
    + intros hex. pose proof (hmx_gt hex) as hgt. unfold label_at. rewrite label_with_app by (symmetry; exact hlen).
      cbn [label_with]. unfold in_ho at 1; cbn [fst snd].
      assert (e1 : Qle_bool mx t = false) by (apply qleb_false; exact hgt).
      rewrite e1. cbn [andb]. exact hcl.
  - exists (firstn k labs). split; [reflexivity|]. split; [exact hlen|]. split.
    + intros hall. pose proof (hmx_le hall). lra.
    + intros _. exact hcl.
Qed.
End Adj.

(* ---------------------------------------------------------------------------------------- *)
(* positivity of the two blocks                                                              *)
(* ---------------------------------------------------------------------------------------- *)
Section AdjPos.
Context {L : Type}.
Variables sl el : L.

Lemma step_min_positive a (ivs : list iv) (labs : option (list L)) out labs' :
  valid_ivs ivs -> (exists v, In v ivs /\ a < snd v) ->
  step_min sl a ivs labs = Ok (out, labs') -> Forall (fun v => fst v < snd v) out.
Proof.
  intros [ho hp] [v0 [hv0 hlt0]]. rewrite step_min_unfold. cbv zeta.
  set (k := crop_min a ivs). set (cl := map (clip_lo a) (skipn k ivs)). intros H.
  assert (hcl : Forall (fun v => fst v < snd v) cl).
  { unfold cl. rewrite Forall_map. destruct (crop_min_kept a ivs ho) as [hk|[_ hall]].
    - fold k in hk. apply Forall_forall. intros v hv. rewrite Forall_forall in hk, hp.
      pose proof (hk _ hv) as h1. pose proof (in_skipn _ _ _ hv) as hin. pose proof (hp _ hin) as h2.
      unfold clip_lo; cbn [fst snd]. qmm.
    - rewrite Forall_forall in hall. specialize (hall _ hv0). lra. }
  destruct (qmin_list (flat cl)) as [mn|]; [|discriminate].
  destruct (qltb a mn) eqn:E2; injection H as <- <-; qb; [|exact hcl].
  constructor; [cbn; exact E2|exact hcl].
Qed.
(* if no row ends after a, every row collapses onto a *)
Lemma step_min_collapse a (ivs : list iv) (labs : option (list L)) out labs' :
  ordered ivs -> (forall v, In v ivs -> snd v <= a) ->
  step_min sl a ivs labs = Ok (out, labs') -> out <> [] /\ Forall (fun w => fst w == a /\ snd w == a) out.
Proof.
  intros ho hall. rewrite step_min_unfold. cbv zeta.
  set (k := crop_min a ivs). set (cl := map (clip_lo a) (skipn k ivs)). intros H.
  assert (hcl : Forall (fun w => fst w == a /\ snd w == a) cl).
  { unfold cl. rewrite Forall_map. apply Forall_forall. intros v hv. apply in_skipn in hv.
    pose proof (hall _ hv). pose proof (ordered_in _ _ ho hv). unfold clip_lo; cbn [fst snd]. split; qmm. }
  destruct (qmin_list (flat cl)) as [mn|] eqn:E; [|discriminate].
  destruct (qmin_list_spec _ _ E) as [[y [hy ey]] _].
  assert (hmn : mn == a).
  { apply in_flat in hy. destruct hy as [w [hw hx]]. rewrite Forall_forall in hcl. destruct (hcl _ hw). destruct hx as [->| ->]; lra. }
  destruct (qltb a mn) eqn:E2; injection H as <- <-; qb; [lra|]. split; [|exact hcl].
  intro e. rewrite e in E. discriminate.
Qed.

Lemma step_max_positive b (ivs : list iv) (labs : option (list L)) out labs' :
  labs_ok labs (length ivs) -> Forall (fun v => fst v < snd v) ivs ->
  step_max el b ivs labs = Ok (out, labs') -> Forall (fun v => fst v < snd v) out.
Proof.
  intros hl hp H. rewrite step_max_unfold in H by exact hl. cbv zeta in H.
  set (k := crop_max b ivs) in *. set (cl := map (clip_hi b) (firstn k ivs)) in *.
  assert (hcl : Forall (fun v => fst v < snd v) cl).
  { unfold cl. rewrite Forall_map. pose proof (crop_max_kept b ivs) as hk. fold k in hk.
    apply Forall_forall. intros v hv. rewrite Forall_forall in hk, hp.
    pose proof (hk _ hv) as h1. pose proof (in_firstn _ _ _ hv) as hin. pose proof (hp _ hin) as h2.
    unfold clip_hi; cbn [fst snd]. qmm. }
  destruct (qmax_list (flat cl)) as [mx|] eqn:E; [|discriminate].
  destruct (qltb mx b) eqn:E2; injection H as <- <-; qb; [|exact hcl].
  apply Forall_app. split; [exact hcl|]. constructor; [cbn; exact E2|constructor].
Qed.
(* zero-duration rows survive the t_max block *)
Lemma step_max_keeps_zero b (ivs : list iv) (labs : option (list L)) out labs' :
  labs_ok labs (length ivs) -> Forall (fun w => fst w == snd w) ivs ->
  step_max el b ivs labs = Ok (out, labs') -> exists w, In w out /\ fst w == snd w.
Proof.
  intros hl hz H. rewrite step_max_unfold in H by exact hl. cbv zeta in H.
  set (k := crop_max b ivs) in *. set (cl := map (clip_hi b) (firstn k ivs)) in *.
  destruct (qmax_list (flat cl)) as [mx|] eqn:E; [|discriminate].
  destruct cl as [|c0 cr] eqn:Ecl; [discriminate|].
  assert (hc0 : fst c0 == snd c0).
  { assert (hin : In c0 (map (clip_hi b) (firstn k ivs))) by (fold cl; rewrite Ecl; left; reflexivity).
    apply in_map_iff in hin. destruct hin as [v [<- hv]]. apply in_firstn in hv. rewrite Forall_forall in hz.
    pose proof (hz _ hv). unfold clip_hi; cbn [fst snd]. qmm. }
  exists c0. split; [|exact hc0].
  destruct (qltb mx b); injection H as <- <-; left; reflexivity.
Qed.
(* the t_max block raises when the first row starts at or after b (every row is cropped), and only then *)
Lemma step_max_all_cropped b (h : iv) (r : list iv) (labs : option (list L)) :
  labs_ok labs (length (h :: r)) -> b <= fst h -> step_max el b (h :: r) labs = Raise ValueError.
Proof.
  intros hl hb. rewrite step_max_unfold by exact hl. cbv zeta. rewrite (crop_max_zero b h r hb). reflexivity.
Qed.
Lemma step_max_ok_inv b (h : iv) (r : list iv) (labs : option (list L)) out labs' :
  labs_ok labs (length (h :: r)) -> step_max el b (h :: r) labs = Ok (out, labs') -> fst h < b.
Proof.
  intros hl H. destruct (Qlt_le_dec (fst h) b) as [g|g]; [exact g|].
  rewrite (step_max_all_cropped b h r labs hl g) in H. discriminate.
Qed.
End AdjPos.

(* ---------------------------------------------------------------------------------------- *)
(* adjust_intervals                                                                          *)
(* ---------------------------------------------------------------------------------------- *)
Section AdjThms.
Context {L : Type}.
Variables sl el : L.
Variable d : iv.                       (* default row for hd / last; irrelevant on non-empty lists *)

(* t_min < t_max when both are given; when only t_max is given the first interval must start before it
   (otherwise every row is cropped and intervals.max() raises ValueError, see adjust_empty_range_raises) *)
Definition bounds_ok (ivs : list iv) (tmin tmax : option Q) : Prop :=
  match tmin, tmax with
  | Some a, Some b => a < b
  | None, Some b => fst (hd d ivs) < b
  | _, None => True
  end.
Definition stage1 (ivs : list iv) (labs : option (list L)) (tmin : option Q) :=
  match tmin with Some a => step_min sl a ivs labs | None => Ok (ivs, labs) end.
Definition stage2 (mid : list iv) (mlabs : option (list L)) (tmax : option Q) :=
  match tmax with Some b => step_max el b mid mlabs | None => Ok (mid, mlabs) end.

Lemma adjust_nonempty ivs (labs : option (list L)) tmin tmax : ivs <> [] ->
  adjust_intervals sl el ivs labs tmin tmax = (r <- stage1 ivs labs tmin ;; stage2 (fst r) (snd r) tmax).
Proof.
  destruct ivs; [congruence|]. intros _. destruct tmin, tmax; try reflexivity; cbn.
  - destruct (step_min _ _ _ _) as [[? ?]|]; reflexivity.
Qed.

Lemma adjust_inv ivs (labs : option (list L)) tmin tmax out labs' : ivs <> [] ->
  adjust_intervals sl el ivs labs tmin tmax = Ok (out, labs') ->
  exists mid mlabs, stage1 ivs labs tmin = Ok (mid, mlabs) /\ stage2 mid mlabs tmax = Ok (out, labs').
Proof.
  intros hne. rewrite adjust_nonempty by exact hne. destruct (stage1 ivs labs tmin) as [[mid mlabs]|e]; cbn; [|discriminate].
  intros H. exists mid, mlabs. split; [reflexivity|exact H].
Qed.

Lemma stage1_facts ivs (labs : option (list L)) tmin mid mlabs :
  ordered ivs -> ivs <> [] -> labs_ok labs (length ivs) -> stage1 ivs labs tmin = Ok (mid, mlabs) ->
  ordered mid /\ mid <> [] /\ labs_ok mlabs (length mid) /\
  (forall a, tmin = Some a -> fst (hd d mid) == a /\ Forall (fun v => a <= fst v /\ a <= snd v) mid /\
                              snd (last mid d) == Qmax a (snd (last ivs d))) /\
  (tmin = None -> mid = ivs /\ mlabs = labs).
Proof.
  intros ho hne hl H. destruct tmin as [a|]; cbn in H.
  - destruct (step_min_facts sl a ivs labs mid mlabs H hl) as [h1 [h2 [h3 _]]].
    destruct (step_min_ordered sl a ivs labs mid mlabs d ho H) as [g1 [g2 g3]].
    split; [exact g1|split; [exact h2|split; [exact h1|split]]].
    + intros a' e; injection e as <-. auto.
    + discriminate.
  - injection H as <- <-. split; [exact ho|split; [exact hne|split; [exact hl|split]]].
    + discriminate.
    + auto.
Qed.

(* no exception on time-ordered non-empty input *)
Theorem adjust_ok ivs (labs : option (list L)) tmin tmax :
  ordered ivs -> ivs <> [] -> labs_ok labs (length ivs) -> bounds_ok ivs tmin tmax ->
  exists out labs', adjust_intervals sl el ivs labs tmin tmax = Ok (out, labs').
Proof.
  intros ho hne hl hb. rewrite adjust_nonempty by exact hne.
  assert (h1 : exists mid mlabs, stage1 ivs labs tmin = Ok (mid, mlabs)).
  { destruct tmin as [a|]; cbn; [apply step_min_ok; exact hne|eauto]. }
  destruct h1 as [mid [mlabs e1]]. rewrite e1. cbn [bind fst snd].
  destruct (stage1_facts _ _ _ _ _ ho hne hl e1) as [g1 [g2 [g3 [g4 g5]]]].
  destruct tmax as [b|]; cbn; [|eauto].
  destruct mid as [|h r]; [congruence|]. apply step_max_ok; [exact g3|].
  destruct tmin as [a|]; cbn in hb.
  - destruct (g4 a eq_refl) as [e _]. cbn in e. lra.
  - destruct (g5 eq_refl) as [e _]. rewrite <- e in hb. exact hb.
Qed.

(* the empty-input branch *)
Lemma adjust_empty (labs : option (list L)) tmin tmax :
  adjust_intervals sl el [] labs tmin tmax =
  match tmin, tmax with Some a, Some b => Ok ([(a, b)], Some [sl]) | _, _ => Raise ValueError end.
Proof. destruct tmin, tmax; reflexivity. Qed.

(* first start = t_min, last end = t_max when given (and the input's own span where a bound is None).
   No hypothesis on the bounds: a result Ok already implies t_min < t_max resp. first start < t_max. *)
Theorem adjust_span ivs (labs : option (list L)) tmin tmax out labs' :
  ordered ivs -> labs_ok labs (length ivs) ->
  adjust_intervals sl el ivs labs tmin tmax = Ok (out, labs') ->
  (forall a, tmin = Some a -> fst (hd d out) == a) /\
  (forall b, tmax = Some b -> snd (last out d) == b) /\
  (tmin = None -> fst (hd d out) == fst (hd d ivs)) /\
  (tmax = None -> snd (last out d) == match tmin with Some a => Qmax a (snd (last ivs d)) | None => snd (last ivs d) end).
Proof.
  intros ho hl H. destruct ivs as [|h0 r0].
  - rewrite adjust_empty in H. destruct tmin as [a|], tmax as [b|]; try discriminate. injection H as <- <-.
    repeat split; try discriminate; intros x e; injection e as <-; reflexivity.
  - assert (hne : h0 :: r0 <> []) by discriminate.
    destruct (adjust_inv _ _ _ _ _ _ hne H) as [mid [mlabs [e1 e2]]].
    destruct (stage1_facts _ _ _ _ _ ho hne hl e1) as [g1 [g2 [g3 [g4 g5]]]].
    destruct tmax as [b|]; cbn in e2.
    + destruct (step_max_ordered el b mid mlabs out labs' d g1 g3 e2) as [k1 [k2 k3]].
      assert (hfb : fst (hd d mid) < b).
      { destruct mid as [|hm rm]; [congruence|]. cbn [hd]. exact (step_max_ok_inv el b hm rm mlabs out labs' g3 e2). }
      split; [|split; [|split]].
      * intros a ea. destruct (g4 a ea) as [e _]. rewrite (k3 hfb). exact e.
      * intros b' eb. injection eb as <-. exact k2.
      * intros en. destruct (g5 en) as [e _]. rewrite (k3 hfb), e. reflexivity.
      * discriminate.
    + injection e2 as <- <-. split; [|split; [|split]].
      * intros a ea. destruct (g4 a ea) as [e _]. exact e.
      * discriminate.
      * intros en. destruct (g5 en) as [e _]. rewrite e. reflexivity.
      * intros _. destruct tmin as [a|].
        -- destruct (g4 a eq_refl) as [_ [_ e]]. exact e.
        -- destruct (g5 eq_refl) as [e _]. rewrite e. reflexivity.
Qed.
(* a result Ok implies a non-degenerate range; conversely a degenerate range raises *)
Theorem adjust_ok_bounds ivs (labs : option (list L)) tmin tmax out labs' :
  ordered ivs -> ivs <> [] -> labs_ok labs (length ivs) ->
  adjust_intervals sl el ivs labs tmin tmax = Ok (out, labs') -> bounds_ok ivs tmin tmax.
Proof.
  intros ho hne hl H.
  destruct (adjust_inv _ _ _ _ _ _ hne H) as [mid [mlabs [e1 e2]]].
  destruct (stage1_facts _ _ _ _ _ ho hne hl e1) as [g1 [g2 [g3 [g4 g5]]]].
  destruct tmax as [b|]; [|destruct tmin; exact I]. cbn in e2.
  destruct mid as [|hm rm]; [congruence|].
  pose proof (step_max_ok_inv el b hm rm mlabs out labs' g3 e2) as hfb.
  destruct tmin as [a|]; cbn.
  - destruct (g4 a eq_refl) as [e _]. cbn in e. lra.
  - destruct (g5 eq_refl) as [e _]. rewrite <- e. exact hfb.
Qed.
Theorem adjust_empty_range_raises ivs (labs : option (list L)) a b :
  ordered ivs -> ivs <> [] -> labs_ok labs (length ivs) -> b <= a ->
  adjust_intervals sl el ivs labs (Some a) (Some b) = Raise ValueError.
Proof.
  intros ho hne hl hba. rewrite adjust_nonempty by exact hne.
  destruct (step_min_ok sl a ivs labs hne) as [mid [mlabs e1]]. cbn [stage1]. rewrite e1. cbn [bind fst snd stage2].
  destruct (stage1_facts ivs labs (Some a) mid mlabs ho hne hl e1) as [g1 [g2 [g3 [g4 _]]]].
  destruct (g4 a eq_refl) as [e _]. destruct mid as [|hm rm]; [congruence|]. cbn in e.
  apply step_max_all_cropped; [exact g3|lra].
Qed.

(* nothing outside [t_min, t_max]; no ordering of the input is needed *)
Theorem adjust_inside ivs (labs : option (list L)) tmin tmax out labs' :
  labs_ok labs (length ivs) -> (forall a b, tmin = Some a -> tmax = Some b -> a <= b) ->
  adjust_intervals sl el ivs labs tmin tmax = Ok (out, labs') ->
  Forall (fun v => (forall a, tmin = Some a -> a <= fst v /\ a <= snd v) /\
                   (forall b, tmax = Some b -> fst v <= b /\ snd v <= b)) out.
Proof.
  intros hl hab H. destruct ivs as [|h0 r0].
  - rewrite adjust_empty in H. destruct tmin as [a|], tmax as [b|]; try discriminate. injection H as <- <-.
    specialize (hab a b eq_refl eq_refl). constructor; [|constructor]. cbn.
    split; intros x e; injection e as <-; split; lra.
  - assert (hne : h0 :: r0 <> []) by discriminate.
    destruct (adjust_inv _ _ _ _ _ _ hne H) as [mid [mlabs [e1 e2]]].
    assert (hm : labs_ok mlabs (length mid) /\ forall a, tmin = Some a -> Forall (fun v => a <= fst v /\ a <= snd v) mid).
    { destruct tmin as [a|]; cbn in e1.
      - destruct (step_min_facts sl a _ labs mid mlabs e1 hl) as [h1 [h2 [h3 _]]]. split; [exact h1|].
        intros a' e; injection e as <-; exact h3.
      - injection e1 as <- <-. split; [exact hl|discriminate]. }
    destruct hm as [hm1 hm2].
    destruct tmax as [b|]; cbn in e2.
    + destruct (step_max_facts el b mid mlabs out labs' e2 hm1) as [k1 [k2 [k3 k4]]].
      apply Forall_forall. intros v hv. split.
      * intros a ea. pose proof (k4 a (hab a b ea eq_refl) (hm2 a ea)) as hh. rewrite Forall_forall in hh. exact (hh _ hv).
      * intros b' eb. injection eb as <-. rewrite Forall_forall in k3. exact (k3 _ hv).
    + injection e2 as <- <-. apply Forall_forall. intros v hv. split; [|discriminate].
      intros a ea. pose proof (hm2 a ea) as hh. rewrite Forall_forall in hh. exact (hh _ hv).
Qed.

(* the output is again time-ordered (possibly with zero-duration rows), labels stay aligned with rows *)
Theorem adjust_ordered ivs (labs : option (list L)) tmin tmax out labs' :
  ordered ivs -> ivs <> [] -> labs_ok labs (length ivs) ->
  adjust_intervals sl el ivs labs tmin tmax = Ok (out, labs') ->
  ordered out /\ out <> [] /\ labs_ok labs' (length out).
Proof.
  intros ho hne hl H.
  destruct (adjust_inv _ _ _ _ _ _ hne H) as [mid [mlabs [e1 e2]]].
  destruct (stage1_facts _ _ _ _ _ ho hne hl e1) as [g1 [g2 [g3 _]]].
  destruct tmax as [b|]; cbn in e2.
  - destruct (step_max_ordered el b mid mlabs out labs' d g1 g3 e2) as [k1 _].
    destruct (step_max_facts el b mid mlabs out labs' e2 g3) as [k2 [k3 _]]. auto.
  - injection e2 as <- <-. auto.
Qed.

(* strictly positive durations as soon as some interval ends after t_min (when t_min is given); nothing is needed for
   t_max: a result Ok already forces t_min < t_max resp. first start < t_max.  The condition is also necessary
   (adjust_zero_rows_if_nothing_after_tmin). *)
Theorem adjust_positive_durations ivs (labs : option (list L)) tmin tmax out labs' :
  valid_ivs ivs -> ivs <> [] -> labs_ok labs (length ivs) ->
  (forall a, tmin = Some a -> exists v, In v ivs /\ a < snd v) ->
  adjust_intervals sl el ivs labs tmin tmax = Ok (out, labs') ->
  Forall (fun v => fst v < snd v) out.
Proof.
  intros hv hne hl hmin H.
  destruct (adjust_inv _ _ _ _ _ _ hne H) as [mid [mlabs [e1 e2]]].
  destruct (stage1_facts _ _ _ _ _ (proj1 hv) hne hl e1) as [g1 [g2 [g3 _]]].
  assert (hp : Forall (fun v => fst v < snd v) mid).
  { destruct tmin as [a|]; cbn in e1.
    - eapply step_min_positive; [exact hv|exact (hmin a eq_refl)|exact e1].
    - injection e1 as <- <-. exact (proj2 hv). }
  destruct tmax as [b|]; cbn in e2; [|injection e2 as <- <-; exact hp].
  eapply step_max_positive; [exact g3|exact hp|exact e2].
Qed.
Theorem adjust_zero_rows_if_nothing_after_tmin ivs (labs : option (list L)) a tmax out labs' :
  ordered ivs -> ivs <> [] -> labs_ok labs (length ivs) -> (forall v, In v ivs -> snd v <= a) ->
  adjust_intervals sl el ivs labs (Some a) tmax = Ok (out, labs') ->
  exists w, In w out /\ fst w == snd w.
Proof.
  intros ho hne hl hall H.
  destruct (adjust_inv _ _ _ _ _ _ hne H) as [mid [mlabs [e1 e2]]]. cbn in e1.
  destruct (step_min_collapse sl a ivs labs mid mlabs ho hall e1) as [hm1 hm2].
  destruct (step_min_facts sl a ivs labs mid mlabs e1 hl) as [g3 _].
  destruct tmax as [b|]; cbn in e2.
  - apply (step_max_keeps_zero el b mid mlabs out labs' g3); [|exact e2].
    eapply Forall_impl; [|exact hm2]. cbn. intros w [h1 h2]. lra.
  - injection e2 as <- <-. destruct mid as [|w r]; [congruence|]. inversion hm2; subst.
    exists w. split; [left; reflexivity|]. destruct H2. lra.
Qed.

(* every instant of [t_min, t_max) keeps its label; the fill labels before the first / after the last input
   interval; no label inside an internal gap that is not cut by t_min or t_max (the interval before the gap ends
   strictly after t_min, the interval after it starts strictly before t_max) *)
Theorem adjust_label_at ivs labs a b out olabs t :
  ordered ivs -> ivs <> [] -> length labs = length ivs -> a <= t -> t < b ->
  adjust_intervals sl el ivs (Some labs) (Some a) (Some b) = Ok (out, olabs) ->
  exists labs', olabs = Some labs' /\ length labs' = length out /\
    (forall l, label_at ivs labs t = Some l -> label_at out labs' t = Some l) /\
    ((forall v, In v ivs -> t < fst v) -> label_at out labs' t = Some sl) /\
    ((forall v, In v ivs -> snd v <= t) -> label_at out labs' t = Some el) /\
    ((exists v, In v ivs /\ a < snd v /\ snd v <= t) -> (exists w, In w ivs /\ t < fst w /\ fst w < b) ->
       label_at ivs labs t = None -> label_at out labs' t = None).
Proof.
  intros ho hne hl hat htb H.
  destruct (adjust_inv _ _ _ _ _ _ hne H) as [mid [mlabs [e1 e2]]]. cbn in e1, e2.
  destruct (step_min_label sl a ivs labs mid mlabs t hl hat e1) as [ml [-> [hlm [hA hB]]]].
  destruct (step_min_facts sl a ivs (Some labs) mid (Some ml) e1 hl) as [_ [_ [_ [hin [_ hub]]]]].
  destruct (step_min_ordered sl a ivs (Some labs) mid (Some ml) d ho e1) as [hom _].
  destruct (step_max_label el b mid ml out olabs t hlm htb hom e2) as [labs' [-> [hlo [hC hD]]]].
  exists labs'. split; [reflexivity|]. split; [exact hlo|]. split; [|split; [|split]].
  - intros l hlab. destruct (label_with_some_in _ _ _ _ _ hlab) as [v [hv hc]].
    unfold in_ho in hc. qb.
    assert (h1 : label_at mid ml t = label_at ivs labs t).
    { apply hB. exists v. split; [apply crop_min_keeps; [exact hv|lra]|left; assumption]. }
    rewrite hD, h1; [exact hlab|].
    exists (clip_lo a v). split.
    + apply crop_max_keeps; [exact hom|apply hin; [exact hv|lra]|]. unfold clip_lo; cbn. qmm.
    + right. unfold clip_lo; cbn. qmm.
  - intros hbefore.
    destruct hA as [mn [rest [-> [hlt hs]]]].
    { intros v hv. apply in_skipn in hv. pose proof (hbefore _ hv). pose proof (ordered_in _ _ ho hv). lra. }
    rewrite hD; [exact hs|]. exists (a, mn). split.
    + apply crop_max_keeps; [exact hom|left; reflexivity|cbn; lra].
    + right. cbn. exact hlt.
  - intros hafter. apply hC. intros w hw. apply in_firstn in hw. apply (hub t hat); [|exact hw].
    intros v hv. pose proof (hafter _ hv). pose proof (ordered_in _ _ ho hv). lra.
  - intros [v [hv [hv1 hv2]]] [w [hw [hw1 hw2]]] hnone.
    assert (h1 : label_at mid ml t = label_at ivs labs t).
    { apply hB. exists v. split; [apply crop_min_keeps; assumption|right; assumption]. }
    rewrite hD, h1; [exact hnone|].
    pose proof (ordered_in _ _ ho hw) as hws.
    exists (clip_lo a w). split.
    + apply crop_max_keeps; [exact hom|apply hin; [exact hw|lra]|]. unfold clip_lo; cbn. qmm.
    + left. unfold clip_lo; cbn. qmm.
Qed.
End AdjThms.

(* ---------------------------------------------------------------------------------------- *)
(* satisfiability of the hypotheses, and the refutations (each witness was run on the real mir_eval) *)
(* ---------------------------------------------------------------------------------------- *)
Definition ex_ivs : list iv := [(0, 1); (1, 2); (3, 4)].
Example ex_ivs_valid : valid_ivs ex_ivs.
Proof. unfold valid_ivs, ex_ivs; cbn. repeat split; repeat constructor; cbn; lra. Qed.
Example adjust_example :
  adjust_intervals 100%nat 200%nat ex_ivs (Some [1; 2; 3]%nat) (Some (1#2)) (Some 5)
  = Ok ([(1#2, 1); (1, 2); (3, 4); (4, 5)], Some [1; 2; 3; 200]%nat).
Proof. vm_compute. reflexivity. Qed.

Definition has_zero_row (out : list iv) : Prop := exists v, In v out /\ fst v == snd v.

(* FIXED by 5b630fc (were adjust_zero_duration_refuted / adjust_zero_duration_at_tmax_refuted): an interval that only
   touches t_min / t_max is dropped together with its label.
   util.adjust_intervals(np.array([[0.,1.],[1.,2.]]), ['a','b'], t_min=1, t_max=3) -> [[1,2],[2,3]], ['b','__T_MAX']
   util.adjust_intervals(np.array([[0.,1.],[1.,2.]]), ['a','b'], t_min=0, t_max=1) -> [[0,1]], ['a'] *)
Theorem adjust_touching_tmin_dropped :
  adjust_intervals 100%nat 200%nat [(0, 1); (1, 2)] (Some [1; 2]%nat) (Some 1) (Some 3)
  = Ok ([(1, 2); (2, 3)], Some [2; 200]%nat).
Proof. vm_compute. reflexivity. Qed.
Theorem adjust_touching_tmax_dropped :
  adjust_intervals 100%nat 200%nat [(0, 1); (1, 2)] (Some [1; 2]%nat) (Some 0) (Some 1)
  = Ok ([(0, 1)], Some [1]%nat).
Proof. vm_compute. reflexivity. Qed.

(* STILL a defect after the fix: when NO interval ends after t_min nothing is removed and every row collapses onto t_min
   (general statement: adjust_zero_rows_if_nothing_after_tmin).
   util.adjust_intervals(np.array([[0.,1.],[1.,2.]]), ['a','b'], t_min=5, t_max=6) -> [[5,5],[5,5],[5,6]], ['a','b','__T_MAX']
   util.adjust_intervals(np.array([[0.,1.],[1.,2.]]), ['a','b'], t_min=2, t_max=3) -> [[2,2],[2,2],[2,3]], ['a','b','__T_MAX'] *)
Theorem adjust_all_below_collapse_refuted :
  exists ivs (labs : list nat) a b out labs',
    valid_ivs ivs /\ length labs = length ivs /\ a < b /\ Forall (fun v => snd v < a) ivs /\
    adjust_intervals 100%nat 200%nat ivs (Some labs) (Some a) (Some b) = Ok (out, labs') /\
    length out = S (length ivs) /\ has_zero_row out.
Proof.
  exists [(0, 1); (1, 2)], [1; 2]%nat, 5, 6, [(5, 5); (5, 5); (5, 6)], (Some [1; 2; 200]%nat).
  split; [unfold valid_ivs; cbn; repeat split; repeat constructor; cbn; lra|].
  split; [reflexivity|]. split; [lra|]. split; [repeat constructor; cbn; lra|]. split; [vm_compute; reflexivity|].
  split; [reflexivity|]. exists (5, 5). split; [left; reflexivity|reflexivity].
Qed.
Theorem adjust_last_touching_tmin_collapse_refuted :
  exists ivs (labs : list nat) a b out labs',
    valid_ivs ivs /\ length labs = length ivs /\ a < b /\
    adjust_intervals 100%nat 200%nat ivs (Some labs) (Some a) (Some b) = Ok (out, labs') /\
    length out = S (length ivs) /\ has_zero_row out.
Proof.
  exists [(0, 1); (1, 2)], [1; 2]%nat, 2, 3, [(2, 2); (2, 2); (2, 3)], (Some [1; 2; 200]%nat).
  split; [unfold valid_ivs; cbn; repeat split; repeat constructor; cbn; lra|].
  split; [reflexivity|]. split; [lra|]. split; [vm_compute; reflexivity|].
  split; [reflexivity|]. exists (2, 2). split; [left; reflexivity|reflexivity].
Qed.

(* "no label inside an internal gap" fails when t_min (resp. t_max) falls inside the gap: the part of the gap inside
   the range gets the start (resp. end) fill label.
   util.adjust_intervals(np.array([[0.,1.],[3.,4.]]), ['a','b'], t_min=2, t_max=4) -> [[2,3],[3,4]], ['__T_MIN','b']
   util.adjust_intervals(np.array([[0.,1.],[3.,4.]]), ['a','b'], t_min=0, t_max=2) -> [[0,1],[1,2]], ['a','__T_MAX'] *)
Definition internal_gap {L} (ivs : list iv) (labs : list L) (t : Q) : Prop :=
  label_at ivs labs t = None /\ (exists v, In v ivs /\ snd v <= t) /\ (exists w, In w ivs /\ t < fst w).
Theorem adjust_gap_start_fill_refuted :
  exists ivs (labs : list nat) a b t out labs',
    valid_ivs ivs /\ length labs = length ivs /\ a <= t /\ t < b /\ internal_gap ivs labs t /\
    adjust_intervals 100%nat 200%nat ivs (Some labs) (Some a) (Some b) = Ok (out, Some labs') /\
    label_at out labs' t = Some 100%nat.
Proof.
  exists [(0, 1); (3, 4)], [1; 2]%nat, 2, 4, (5#2), [(2, 3); (3, 4)], [100; 2]%nat.
  split; [unfold valid_ivs; cbn; repeat split; repeat constructor; cbn; lra|].
  split; [reflexivity|]. split; [lra|]. split; [lra|]. split.
  - split; [vm_compute; reflexivity|]. split; [exists (0, 1)|exists (3, 4)]; cbn; split; auto; lra.
  - split; vm_compute; reflexivity.
Qed.
Theorem adjust_gap_end_fill_refuted :
  exists ivs (labs : list nat) a b t out labs',
    valid_ivs ivs /\ length labs = length ivs /\ a <= t /\ t < b /\ internal_gap ivs labs t /\
    adjust_intervals 100%nat 200%nat ivs (Some labs) (Some a) (Some b) = Ok (out, Some labs') /\
    label_at out labs' t = Some 200%nat.
Proof.
  exists [(0, 1); (3, 4)], [1; 2]%nat, 0, 2, (3#2), [(0, 1); (1, 2)], [1; 200]%nat.
  split; [unfold valid_ivs; cbn; repeat split; repeat constructor; cbn; lra|].
  split; [reflexivity|]. split; [lra|]. split; [lra|]. split.
  - split; [vm_compute; reflexivity|]. split; [exists (0, 1)|exists (3, 4)]; cbn; split; auto; lra.
  - split; vm_compute; reflexivity.
Qed.
(* since the fix the same happens when t_min / t_max coincides with the boundary next to the gap (before the fix the touching
   interval survived as a zero-duration row and no fill row was added):
   util.adjust_intervals(np.array([[0.,1.],[3.,4.]]), ['a','b'], t_min=1, t_max=4) -> [[1,3],[3,4]], ['__T_MIN','b']
   util.adjust_intervals(np.array([[0.,1.],[3.,4.]]), ['a','b'], t_min=0, t_max=3) -> [[0,1],[1,3]], ['a','__T_MAX'] *)
Theorem adjust_gap_fill_touching_refuted :
  exists ivs (labs : list nat) t,
    valid_ivs ivs /\ length labs = length ivs /\ internal_gap ivs labs t /\
    adjust_intervals 100%nat 200%nat ivs (Some labs) (Some 1) (Some 4) = Ok ([(1, 3); (3, 4)], Some [100; 2]%nat) /\
    label_at [(1, 3); (3, 4)] [100; 2]%nat t = Some 100%nat /\
    adjust_intervals 100%nat 200%nat ivs (Some labs) (Some 0) (Some 3) = Ok ([(0, 1); (1, 3)], Some [1; 200]%nat) /\
    label_at [(0, 1); (1, 3)] [1; 200]%nat t = Some 200%nat.
Proof.
  exists [(0, 1); (3, 4)], [1; 2]%nat, 2.
  split; [unfold valid_ivs; cbn; repeat split; repeat constructor; cbn; lra|].
  split; [reflexivity|]. split.
  - split; [vm_compute; reflexivity|]. split; [exists (0, 1)|exists (3, 4)]; cbn; split; auto; lra.
  - repeat split; vm_compute; reflexivity.
Qed.
(* with t_min = None, a t_max at or below the first start crops every row and intervals.max() raises; likewise t_min >= t_max
   (general statement: adjust_empty_range_raises):
   util.adjust_intervals(np.array([[3.,4.]]), ['a'], t_min=None, t_max=1) -> ValueError
   util.adjust_intervals(np.array([[3.,4.]]), ['a'], t_min=None, t_max=3) -> ValueError   (returned [[3,3]] before the fix)
   util.adjust_intervals(np.array([[0.,1.]]), ['a'], t_min=1, t_max=1)    -> ValueError   (returned [[1,1]] before the fix) *)
Theorem adjust_tmax_below_all_raises :
  adjust_intervals 100%nat 200%nat [(3, 4)] (Some [1%nat]) None (Some 1) = Raise ValueError.
Proof. vm_compute. reflexivity. Qed.
Example adjust_tmax_at_first_start_raises :
  adjust_intervals 100%nat 200%nat [(3, 4)] (Some [1%nat]) None (Some 3) = Raise ValueError.
Proof. vm_compute. reflexivity. Qed.
Example adjust_tmin_eq_tmax_raises :
  adjust_intervals 100%nat 200%nat [(0, 1)] (Some [1%nat]) (Some 1) (Some 1) = Raise ValueError.
Proof. vm_compute. reflexivity. Qed.

Print Assumptions adjust_ok.
Print Assumptions adjust_span.
Print Assumptions adjust_inside.
Print Assumptions adjust_ordered.
Print Assumptions adjust_ok_bounds.
Print Assumptions adjust_empty_range_raises.
Print Assumptions adjust_positive_durations.
Print Assumptions adjust_zero_rows_if_nothing_after_tmin.
Print Assumptions adjust_label_at.
Print Assumptions adjust_touching_tmin_dropped.
Print Assumptions adjust_touching_tmax_dropped.
Print Assumptions adjust_all_below_collapse_refuted.
Print Assumptions adjust_last_touching_tmin_collapse_refuted.
Print Assumptions adjust_gap_fill_touching_refuted.
Print Assumptions adjust_gap_start_fill_refuted.
Print Assumptions adjust_gap_end_fill_refuted.
Print Assumptions adjust_tmax_below_all_raises.
