(* _bipartite_match (Gen/MatchGen.v, translated from mir_eval/util.py) = Model/Matching.bipartite_match: the complete tie.
   For every graph with distinct keys, every heap and EVERY fuel, the translated function run by the heap evaluator of
   Model/HeapPy.v reports out-of-fuel or returns a fresh dict equal to the model's matching (same entries, same
   insertion order), leaving every older heap object untouched. *)
From Coq Require Import String.
From Coq Require Import List Bool Arith ZArith Lia.
From ME Require Import Model.Prelude Model.Dict Model.Matching Model.HeapPy Gen.MatchGen Model.HeapPyMatch Proofs.HeapPyLemmas
  Proofs.HKRecurse Proofs.HKLayering Proofs.HKCorrect Proofs.HKTotal Proofs.HKPredsBound Proofs.MatchTieHK Proofs.HKTieRec Proofs.HKTieLayer Proofs.HKTiePhases.
Import ListNotations.
Local Open Scope nat_scope.
Local Arguments hget : simpl never.
Local Arguments while_loop : simpl never.
Local Arguments for_loop : simpl never.
Local Arguments run : simpl never.

Lemma body_split : f_body gen_bipartite_match = firstn 2 (f_body gen_bipartite_match) ++ [phase_while].
Proof. reflexivity. Qed.

Theorem bipartite_match_tie ext (g : graph) n h : NoDup (keys g) ->
  (run match_funs ext (S n) "_bipartite_match" h None [graph_val g] = FUEL /\ n <= Nat.max (length g) (esize g)) \/
  exists h' m, bipartite_match g = Some m /\
    run match_funs ext (S n) "_bipartite_match" h None [graph_val g] = OK (h', VRef (length h)) /\
    hget h' (length h) = Some (matching_obj m) /\ length h <= length h' /\ (forall x, x < length h -> hget h' x = hget h x).
Proof.
  intros ND. unfold run; fold run. cbn [lookup_fun match_funs String.eqb Ascii.eqb Bool.eqb].
  change (Nat.eqb (length [graph_val g]) (length (f_params gen_bipartite_match))) with true. cbv iota.
  fold (rec_clos ext n). unfold exec_block. rewrite body_split, run_block_app.
  destruct (bipartite_match_greedy_tie ext (rec_clos ext n) n g h ND) as (h1 & vu & vv & S1 & HM1 & L1 & F1).
  unfold exec_block in S1. rewrite S1. clear S1.
  change (run_block (exec ext (rec_clos ext n) n) [phase_while] h1 (bm_env (graph_val g) (length h) vu vv (repeat VUnbound 7)))
    with (match ph_run ext n n h1 (genv g (length h) vu vv VUnbound VUnbound VUnbound VUnbound VUnbound VUnbound VUnbound) with
          | SNorm h' en' => SNorm h' en' | o => o end).
  destruct (phases_tie ext n g (length h) ND n h1 (greedy g) vu vv VUnbound VUnbound VUnbound VUnbound VUnbound VUnbound VUnbound
              HM1 (greedy_valid g ND)) as [[-> EB] | (h' & m' & -> & MP & HM' & LL' & FF')].
  { left. split; [reflexivity|]. destruct EB as [EB|[EB|EB]]; [|lia|lia].
    destruct (le_lt_dec n (length g)) as [Hle|Hlt]; [lia|]. exfalso.
    destruct (phases_total_aux g n (greedy g) (greedy_valid g ND) ltac:(lia)) as (mf & Emf). congruence. }
  right. destruct (bipartite_match_total g ND) as (m0 & E0). exists h', m0. split; [exact E0|].
  assert (m' = m0).
  { unfold bipartite_match in E0. pose proof (MP (Nat.max n (S (length g))) (Nat.le_max_l _ _)) as A.
    pose proof (phases_mono g _ _ _ E0 (Nat.max n (S (length g))) (Nat.le_max_r _ _)) as B. congruence. }
  subst m'. split; [reflexivity|]. split; [exact HM'|]. split; [lia|]. intros x Hx. rewrite FF' by exact Hx. apply F1. exact Hx.
Qed.

(* in the form of the other ties: whatever the fuel, the translated _bipartite_match reports out-of-fuel or returns the model's dict
   (same entries, same insertion order) *)
Corollary bipartite_match_result_tie dist (g : graph) fuel h : NoDup (keys g) ->
  result_obj (run_match dist fuel "_bipartite_match" h [graph_val g]) = FUEL \/
  exists m, bipartite_match g = Some m /\ result_obj (run_match dist fuel "_bipartite_match" h [graph_val g]) = OK (matching_obj m).
Proof.
  intros ND. destruct fuel as [|n]; [left; reflexivity|]. unfold run_match.
  destruct (bipartite_match_tie (match_ext dist) g n h ND) as [[-> _] | (h' & m & E & -> & HM & _)]; [left; reflexivity|].
  right. exists m. split; [exact E|]. cbn [result_obj]. rewrite HM. reflexivity.
Qed.

(* ... and beyond a bound in terms of the size of the graph (number of left vertices, number of edges) out-of-fuel is impossible *)
Definition hk_fuel (g : graph) : nat := Nat.max (length g) (esize g) + 2.
Theorem bipartite_match_enough_fuel dist (g : graph) fuel h : NoDup (keys g) -> hk_fuel g <= fuel ->
  exists m, bipartite_match g = Some m /\ result_obj (run_match dist fuel "_bipartite_match" h [graph_val g]) = OK (matching_obj m).
Proof.
  intros ND Hf. unfold hk_fuel in Hf. destruct fuel as [|n]; [lia|]. unfold run_match.
  destruct (bipartite_match_tie (match_ext dist) g n h ND) as [[_ EB] | (h' & m & E & -> & HM & _)]; [lia|].
  exists m. split; [exact E|]. cbn [result_obj]. rewrite HM. reflexivity.
Qed.
Example hk_fuel_ex : hk_fuel [(0, [0; 1]); (1, [0])] = 5. Proof. reflexivity. Qed.
Print Assumptions bipartite_match_tie.
Print Assumptions bipartite_match_result_tie.
Print Assumptions bipartite_match_enough_fuel.

(* Closing the loop on examples: match_events with its callees _fast_hit_windows and _bipartite_match run as the GENERATED programs
   themselves (the graph then lives in the heap, as in CPython, not as a read-only value) still returns the model's answer.
   (For all inputs this composition is proved only up to the reading "a dict the callee never writes to or tests for identity may
   be passed as a read-only value": match_events_tie has the model's bipartite_match as callee, bipartite_match_tie takes graph_val g.) *)
Fixpoint prog_ext (k : nat) (f : string) (h : heap) (args : list val) : out (heap * val) :=
  match k with
  | O => FUEL
  | S k' => if (String.eqb f "_fast_hit_windows" || String.eqb f "_bipartite_match")%bool
            then run match_funs (prog_ext k') 60 f h None args else UNM
  end.
Definition closed_match_events (ref est : list QArith_base.Q) (w : QArith_base.Q) : out obj :=
  result_obj (run match_funs (prog_ext 2) 10 "match_events" [] None [VVec ref; VVec est; VFloat w; VNone]).
Definition closed_agrees (c : list QArith_base.Q * list QArith_base.Q * QArith_base.Q) : bool :=
  let '(r, e, w) := c in
  match closed_match_events r e w, Events.match_events r e w with
  | OK (OList l), Some l' => list_veqb l (map pair_val l')
  | _, _ => false end.
Definition qz (z : Z) : QArith_base.Q := QArith_base.Qmake z 1.
Definition qh (z : Z) : QArith_base.Q := QArith_base.Qmake z 2.
Example closed_examples : forallb closed_agrees
  [ ([], [], qz 1); (map qz [1; 2; 3], map qz [1; 2; 3], qz 0); ([qh 1; qz 3; qz 2; qz 1], [qz 2; qh 1; qz 7], qz 1);
    (map qz [0; 1; 2; 3; 4], map qz [1; 1; 1; 2; 5], qz 1); (map qz [5; 1; 3], map qz [2; 4; 6; 0], qh 3) ]%Z = true.
Proof. vm_compute. reflexivity. Qed.
